#!/bin/bash
# Offline setup: warm the Go build cache by compiling every harness test binary once.
cd "$(dirname "$0")" || exit 2
mkdir -p build evidence replay
python3 - <<'PY'
import json, subprocess, sys, os, importlib.util, importlib.machinery
sys.path.insert(0, os.getcwd())
spec = importlib.util.spec_from_loader("check", importlib.machinery.SourceFileLoader("check", "./check"))
chk = importlib.util.module_from_spec(spec); spec.loader.exec_module(chk)
env = chk.go_env(); ov, modp = chk.gen_overlay(None)
props = chk.load_props()
pkgs = sorted({p["pkg"] for e in props.values() for p in e["parts"]})
bad = 0
for pkg in pkgs:
    b, err = chk.build(env, pkg, False, ov, modp)
    if b is None:
        bad += 1; print("setup: build failed for", pkg, err[-2000:])
print("setup: built %d harness binaries, %d failed" % (len(pkgs) - bad, bad))
sys.exit(1 if bad else 0)
PY
