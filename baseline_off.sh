#!/bin/bash
# Runs the repository's pinned test suite with the verif guard OFF (no -tags verif, no overlay).
cd /repo || exit 2
unset GOSUMDB GONOSUMDB GOWORK
export GOFLAGS=-mod=mod GOPROXY=off GOTOOLCHAIN=auto
exec go test -json -vet=off -count=1 -timeout 25m ./...
