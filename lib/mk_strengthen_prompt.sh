#!/bin/bash
# mk_strengthen_prompt.sh <Cxx> <n>
ID=$1; N=$2; MID=$ID-$N; WT=/var/tmp/mut-$ID-$N
[ -d $WT ] || git -C /repo worktree add --detach $WT HEAD >/dev/null 2>&1
(cd $WT && git checkout -q -- . && git clean -fdq)
sed -e "s#__ID__#$ID#g" -e "s#__MID__#$MID#g" -e "s#__WT__#$WT#g" /verif/lib/strengthen_prompt.txt > /var/tmp/strengthen-$MID.txt
echo /var/tmp/strengthen-$MID.txt
