#!/usr/bin/env python3
"""mk_mutant_prompt.py <Cxx> <n> [flavour words...] -> creates worktree /var/tmp/mut-<id>-<n>, writes /var/tmp/mutprompt-<id>-<n>.txt"""
import json, sys, subprocess, os
pid, n = sys.argv[1], sys.argv[2]
flav = " ".join(sys.argv[3:])
V = os.path.dirname(os.path.dirname(os.path.abspath(__file__)))
P = [json.loads(l) for l in open(os.path.join(V, "properties.jsonl")) if l.strip()]
p = [x for x in P if x["id"] == pid][0]
wt = "/var/tmp/mut-%s-%s" % (pid, n)
out = "/var/tmp/mutout/%s-%s" % (pid, n)
os.makedirs("/var/tmp/mutout", exist_ok=True)
if not os.path.exists(wt):
    subprocess.run(["git", "-C", "/repo", "worktree", "add", "--detach", wt, "HEAD"], check=True, capture_output=True)
text = "Title: %s\nStatement: %s\nQuantified over: %s\nAnchors (files where the mechanism lives): %s" % (
    p["title"], p["statement"], p["quantifier"]["text"], ", ".join(p["anchors"]["files"]))
t = open(os.path.join(V, "lib", "mutant_prompt.txt")).read()
t = t.replace("__WT__", wt).replace("__OUT__", out).replace("__ID__", pid).replace("__PROPERTY__", text)
if flav:
    t += "\nPreferred flavour of breakage for this assignment: " + flav + "\n"
open("/var/tmp/mutprompt-%s-%s.txt" % (pid, n), "w").write(t)
print("/var/tmp/mutprompt-%s-%s.txt" % (pid, n))
