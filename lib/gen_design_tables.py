#!/usr/bin/env python3
"""Regenerates the marked blocks of DESIGN.md (findings per property, seeded changes) from known_findings.json + known.d and seeded/*/meta.json."""
import json, glob, os, re, collections
V = os.path.dirname(os.path.dirname(os.path.abspath(__file__)))
F = []
for f in [V + "/known_findings.json"] + sorted(glob.glob(V + "/known.d/*.json")):
    F += json.load(open(f)).get("findings", [])
by = collections.OrderedDict()
for e in sorted(F, key=lambda e: e["property"]):
    by.setdefault(e["property"], []).append(e)
out = ["| property | status | class keys (count) | what | fix |", "|---|---|---|---|---|"]
for p, es in by.items():
    groups = collections.OrderedDict()
    for e in es:
        k = (e["status"], e.get("commit", ""), re.sub(r"\s*\(fix:.*?\)", "", e["what"])[:170])
        groups.setdefault((e["status"], e.get("commit", "")), []).append(e)
    for (st, c), g in groups.items():
        what = re.sub(r"\s*\(fix:.*?\)", "", g[0]["what"])[:260].replace("|", "\\|")
        keys = g[0]["key"].replace("|", "\\|")
        out.append("| %s | %s | `%s`%s | %s | %s |" % (p, st, keys[:90], " (+%d more)" % (len(g) - 1) if len(g) > 1 else "", what, ("/repo " + c) if c else "– (recorded, not repaired)"))
findings = "\n".join(out)
rows = ["| id | property | what the change does | what it needs to manifest | result of `./check` |", "|---|---|---|---|---|"]
for d in sorted(glob.glob(V + "/seeded/*/meta.json")):
    m = json.load(open(d)); i = os.path.basename(os.path.dirname(d))
    v = m.get("verification_by_lead", {})
    keys = v.get("violation_keys_reported", [])
    res = v.get("check_result", "?")
    if keys:
        res += "; e.g. `%s`" % keys[0][:80].replace("|", "\\|")
    if v.get("note"):
        res += " — " + v["note"][:300]
    rows.append("| %s | %s | %s | %s | %s |" % (i, m.get("property", i[:3]), m.get("summary", "")[:230].replace("|", "\\|").replace("\n", " "), m.get("needs", "")[:230].replace("|", "\\|").replace("\n", " "), res.replace("\n", " ")))
seeded = "\n".join(rows)
import collections as _c
_st = _c.Counter()
for d in sorted(glob.glob(V + "/seeded/*/meta.json")):
    r = json.load(open(d)).get("verification_by_lead", {}).get("check_result", "?")
    if r.startswith("caught"): _st["caught by the check as it stood"] += 1
    elif "after strengthening" in r: _st["missed at first, caught in the quick tier at seeds 1-3 after the monitor was strengthened"] += 1
    elif r.startswith("missed"): _st["missed (strengthening pending or not possible, see the row)"] += 1
    else: _st["not counted (%s)" % r.split(";")[0]] += 1
seedstats = "Totals over %d stored changes: " % sum(_st.values()) + "; ".join("%d %s" % (v, k) for k, v in _st.most_common()) + "."
s = open(V + "/DESIGN.md").read()
def put(s, tag, body):
    b, e = "<!-- BEGIN:%s -->" % tag, "<!-- END:%s -->" % tag
    if b in s:
        return s[:s.index(b) + len(b)] + "\n" + body + "\n" + s[s.index(e):]
    return s
props = {}
for f in sorted(glob.glob(V + "/props.d/*.json")):
    props.update(json.load(open(f)))
ab = []
for pid in sorted(props):
    e = props[pid]
    parts = ", ".join("`%s:%s`%s" % (x["pkg"].replace("pkg/", ""), x["test"], " (-race in thorough)" if x.get("race_thorough") else (" (-race)" if x.get("race") else "")) for x in e["parts"])
    ab.append("**%s** (%s) — %s\n\n*Assumes / trusted base:* %s\n\n*Parts:* %s; notes: %s\n" % (pid, e.get("level", "exploration"), e.get("text", "").strip(), e.get("note", "").strip() or "–", parts, ("`notes/%s.md`" % pid) if os.path.exists(V + "/notes/%s.md" % pid) else "–"))
s = put(s, "FINDINGS", findings); s = put(s, "SEEDED", seeded); s = put(s, "SEEDSTATS", seedstats); s = put(s, "ASBUILT", "\n".join(ab))
open(V + "/DESIGN.md", "w").write(s)
print("findings rows", len(out) - 2, "seeded rows", len(rows) - 2)
