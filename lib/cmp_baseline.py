#!/usr/bin/env python3
"""cmp_baseline.py <go-test-json> : compares pass set with /root/.vp/BASELINE.json stable_pass"""
import json, sys
base = json.load(open("/root/.vp/BASELINE.json"))
want = set(base["stable_pass"])
res = {}
for l in open(sys.argv[1], errors="replace"):
    try: e = json.loads(l)
    except Exception: continue
    if e.get("Action") in ("pass", "fail", "skip") and e.get("Test"):
        res[e["Package"] + "::" + e["Test"]] = e["Action"]
    elif e.get("Action") in ("fail",) and not e.get("Test"):
        res[e["Package"] + "::<pkg>"] = "fail"
passed = {k for k, v in res.items() if v == "pass"}
missing = sorted(want - passed)
failed = sorted(k for k, v in res.items() if v == "fail")
print("stable_pass=%d passed_now=%d missing=%d failed=%d" % (len(want), len(passed & want), len(missing), len(failed)))
for k in missing[:40]: print("MISSING", k, res.get(k))
for k in failed[:40]: print("FAILED", k)
sys.exit(1 if missing else 0)
