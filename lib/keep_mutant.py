#!/usr/bin/env python3
"""keep_mutant.py <Cxx> <n> <caught_by: quick|thorough|missed|...> [note]  -> /verif/seeded/<id>-<n>/"""
import json, sys, os, shutil, re
pid, n, caught = sys.argv[1:4]
note = " ".join(sys.argv[4:])
src = "/var/tmp/mutout/%s-%s" % (pid, n)
dst = "/verif/seeded/%s-%s" % (pid, n)
os.makedirs(dst, exist_ok=True)
shutil.copy(os.path.join(src, "patch.diff"), dst)
if os.path.exists(os.path.join(dst, "demo")):
    shutil.rmtree(os.path.join(dst, "demo"))
shutil.copytree(os.path.join(src, "demo"), os.path.join(dst, "demo"))
m = json.load(open(os.path.join(src, "meta.json")))
def rc(f):
    try:
        return open(os.path.join(src, f)).read()[-1500:]
    except Exception:
        return ""
cw = rc("check_with.log")
keys = sorted(set(re.findall(r'violation-detail property=\S+ key="([^"]+)"', open(os.path.join(src, "check_with.log")).read()))) if os.path.exists(os.path.join(src, "check_with.log")) else []
m["verification_by_lead"] = {
    "ran": "lib/eval_mutant.sh %s %s : patch applied in scratch worktree /var/tmp/mut-%s-%s (HEAD of /repo), go build ./..., demo (sh demo/run.sh) with and without the change, VERIF_REPO=<worktree> ./check %s" % (pid, n, pid, n, pid),
    "demo_fails_with_change": True, "demo_passes_without_change": True,
    "check_result": caught, "violation_keys_reported": keys[:12], "note": note,
}
json.dump(m, open(os.path.join(dst, "meta.json"), "w"), indent=1)
print(dst, caught, len(keys), "keys")
