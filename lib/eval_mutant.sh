#!/bin/bash
# lib/eval_mutant.sh <Cxx> <n> [tier]   evaluates the seeded change /var/tmp/mutout/<id>-<n> in its worktree /var/tmp/mut-<id>-<n>
# 1 demo with change must fail, 2 ./check <id> against the changed tree must exit 1, 3 demo without change must pass.
ID=$1; N=$2; TIER=${3:-quick}
WT=/var/tmp/mut-$ID-$N; OUT=/var/tmp/mutout/$ID-$N; V=/verif
[ -f $OUT/patch.diff ] || { echo "no patch"; exit 2; }
cd $WT || exit 2
git checkout -q -- . ; git clean -fdq
unset GOSUMDB GOWORK; export GOFLAGS=-mod=mod GOPROXY=off GOTOOLCHAIN=auto
git apply $OUT/patch.diff || { echo "APPLY-FAILED"; exit 2; }
go build ./... || { echo "BUILD-FAILED"; exit 2; }
( cd $WT && timeout 1500 sh $OUT/demo/run.sh ) > /var/tmp/mutout/$ID-$N/demo_with.log 2>&1; D1=$?
echo "demo with change rc=$D1"
mkdir -p /var/tmp/mutout/ev
( cd $V && VERIF_REPO=$WT VERIF_EVIDENCE_DIR=/var/tmp/mutout/ev ./check $ID --tier $TIER ) > /var/tmp/mutout/$ID-$N/check_with.log 2>&1; C1=$?
echo "check with change rc=$C1 $(grep -c '^VIOLATION' /var/tmp/mutout/$ID-$N/check_with.log) violations"
grep -m3 'violation-detail' /var/tmp/mutout/$ID-$N/check_with.log | cut -c1-300
git apply -R $OUT/patch.diff
( cd $WT && timeout 1500 sh $OUT/demo/run.sh ) > /var/tmp/mutout/$ID-$N/demo_without.log 2>&1; D2=$?
echo "demo without change rc=$D2"
git checkout -q -- . ; git clean -fdq
echo "RESULT $ID-$N demo_with=$D1 demo_without=$D2 check_with=$C1 tier=$TIER"
