#!/bin/bash
# lib/run_all.sh [-j N] [-t quick|thorough] [-s seed] [ids...]  -> one line per property: id rc wall
# Runs ./check for every claimed property (or the given ids) N at a time; logs under build/logs/all/.
cd "$(dirname "$0")/.." || exit 2
J=4; TIER=quick; SEED=${VERIF_SEED:-1}
while getopts "j:t:s:" o; do case $o in j) J=$OPTARG;; t) TIER=$OPTARG;; s) SEED=$OPTARG;; esac; done
shift $((OPTIND-1))
IDS="$*"
[ -z "$IDS" ] && IDS=$(python3 -c "import json;print(' '.join(c['property_id'] for c in json.load(open('MANIFEST.json'))['checks']))")
mkdir -p build/logs/all
run1() { id=$1; t0=$(date +%s); ./check "$id" --tier "$TIER" --seed "$SEED" > "build/logs/all/$id.$TIER.$SEED.out" 2> "build/logs/all/$id.$TIER.$SEED.err"; rc=$?; echo "$id rc=$rc wall=$(( $(date +%s)-t0 ))s known=$(grep -c '^KNOWN-FINDING' build/logs/all/$id.$TIER.$SEED.out) vio=$(grep -c '^VIOLATION' build/logs/all/$id.$TIER.$SEED.out)"; }
export -f run1; export TIER SEED
printf '%s\n' $IDS | xargs -P "$J" -I{} bash -c 'run1 {}'
