#!/usr/bin/env python3
"""Regenerates /verif/MANIFEST.json from props.json (claimed checks) + properties.jsonl."""
import json, os, subprocess
V = os.path.dirname(os.path.dirname(os.path.abspath(__file__)))
import glob
props = {}
for f in sorted(glob.glob(os.path.join(V, "props.d", "*.json"))):
    props.update(json.load(open(f)))
allp = [json.loads(l) for l in open(os.path.join(V, "properties.jsonl")) if l.strip()]
na_reasons = {}
p = os.path.join(V, "not_applicable.json")
if os.path.exists(p):
    na_reasons = json.load(open(p))
hooks = []
hp = os.path.join(V, "MANIFEST.hooks")
if os.path.exists(hp):
    hooks = [l.split()[0] for l in open(hp) if l.strip() and not l.startswith("#")]
inprog = set()
ipp = os.path.join(V, "lib", "in_progress.txt")
if os.path.exists(ipp):
    inprog = {l.strip() for l in open(ipp) if l.strip() and not l.startswith("#")}
checks, na = [], []
for P in allp:
    i = P["id"]
    if i in props and not props[i].get("disabled") and i not in inprog:
        e = props[i]
        checks.append({
            "property_id": i,
            "quick_cmd": "./check %s --tier quick" % i,
            "thorough_cmd": "./check %s --tier thorough" % i,
            "evidence_file": "/verif/evidence/%s.json" % i,
            "replay_cmd_template": "./check %s --replay {path}" % i,
            "engine": "overlay-monitor",
            "level_claimed": {"category": e.get("level", "exploration"), "text": e.get("text", ""), "design_ref": "DESIGN.md §5 %s" % i},
            "level_note": e.get("note", ""),
            "technique": e.get("technique", "runtime monitoring: seeded workload on the real code + reference-model oracle"),
        })
    else:
        na.append({"property_id": i, "reason": na_reasons.get(i, props.get(i, {}).get("disabled") or "runtime monitor for this property is not built yet; nothing is claimed")})
m = {
    "version": 1,
    "setup_cmd": "./setup.sh",
    "hooks": {
        "guard": "verif (Go build tag)",
        "enable": "go test -c -vet=off -tags verif -overlay /verif/build/overlay.json -modfile /verif/build/go.mod <pkg>  (done by ./check; harness files from /verif/harness are overlaid into /repo's packages, /repo is never written)",
        "baseline_off_cmd": "./baseline_off.sh",
        "source_commits": hooks,
        "add_only": True,
    },
    "engines": [{
        "name": "overlay-monitor", "path": "/verif/check",
        "serves_properties": [c["property_id"] for c in checks],
        "kind_free_text": "runtime monitoring: per-property Go monitors (harness/) compiled into /repo's packages through a build overlay with tag verif; seeded hostile workloads, fault/crash injection through internal/verifhook, reference-model and history (porcupine) oracles, race detector in the thorough tier; evidence merged by ./check",
    }],
    "checks": checks,
    "notes": "Exit codes of ./check: 0 held on everything explored, 1 VIOLATION, 3 INCONCLUSIVE (harness does not build on the changed tree / watchdog / nothing observed). Known findings: /verif/known_findings.json.",
    "not_applicable": na,
}
json.dump(m, open(os.path.join(V, "MANIFEST.json"), "w"), indent=1)
print("checks:", len(checks), "not_applicable:", len(na))
