#!/opt/veriftools/pyvenv/bin/python
"""Validates MANIFEST.json and every evidence file against the schemas."""
import json, sys, glob, os
import jsonschema
V = os.path.dirname(os.path.dirname(os.path.abspath(__file__)))
ok = True
ms = json.load(open("/root/.vp/MANIFEST.schema.json")); es = json.load(open("/root/.vp/EVIDENCE.schema.json"))
try:
    jsonschema.validate(json.load(open(V + "/MANIFEST.json")), ms); print("MANIFEST ok")
except Exception as e:
    ok = False; print("MANIFEST INVALID", str(e)[:500])
for f in sorted(glob.glob(V + "/evidence/*.json")):
    try:
        jsonschema.validate(json.load(open(f)), es)
    except Exception as e:
        ok = False; print("EVIDENCE INVALID", f, str(e)[:300])
print("evidence files:", len(glob.glob(V + "/evidence/*.json")))
sys.exit(0 if ok else 1)
