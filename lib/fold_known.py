#!/usr/bin/env python3
"""fold_known.py CNN [substr=commit ...] : moves known.d/CNN.json entries into known_findings.json.
Entries whose key or what contains substr become status=fixed with that commit; 'ALL=commit' marks all."""
import json, sys, os
V = os.path.dirname(os.path.dirname(os.path.abspath(__file__)))
pid = sys.argv[1]
rules = [a.split("=", 1) for a in sys.argv[2:]]
main = json.load(open(V + "/known_findings.json"))
frag_p = V + "/known.d/%s.json" % pid
frag = json.load(open(frag_p))["findings"]
keys = {(e["property"], e["key"]) for e in main["findings"]}
for e in frag:
    for sub, commit in rules:
        if sub == "ALL" or sub in e["key"] or sub in e.get("what", ""):
            e["status"] = "fixed"; e["commit"] = commit
    if (e["property"], e["key"]) in keys:
        main["findings"] = [m for m in main["findings"] if (m["property"], m["key"]) != (e["property"], e["key"])]
    main["findings"].append(e)
    print(e["status"], e["property"], e["key"])
main["findings"].sort(key=lambda e: (e["property"], e["key"]))
json.dump(main, open(V + "/known_findings.json", "w"), indent=1)
os.remove(frag_p)
