//go:build verif

package main

// C31 monitor, part 2 (production wiring): Server.Replicate over the node's REAL FS chain
// adapter for the object service (fsChainForObjects, built with newFSChainForObjects as
// initObjectService does) and the REAL placement.Service, which apply the containers'
// storage policies to in-memory network maps that change from epoch to epoch.
//
// Part 1 (pkg/services/object) drives Replicate over a MODEL of the placement source; the
// answer to "which nodes belong to the container now / in the previous epoch" that the
// running node gives to Replicate is produced by the adapter + placement.Service + policy
// application + per-epoch cache, and is only exercised here.
//
// Workload: histories on one long-lived node (one placement.Service with its caches, one
// adapter, one Server, one storage): 8-14 epochs, 3-7 replication requests per epoch,
// network maps in which the nodes' attributes (and therefore the node sets selected by the
// two containers' policies) churn at every epoch tick, incl. the local node.
// Oracle: the statement evaluated on the generator's truth of the epoch in which the request
// is served - a node belongs to a container in an epoch iff the network map of that epoch
// gives it the attribute value the container's policy selects by (the generator keeps the
// number of such nodes equal to what the policy SELECTs, so that the selection is the whole
// set and no part of the policy engine has to be re-implemented).

import (
	"bytes"
	"context"
	"crypto/ecdsa"
	"crypto/elliptic"
	"crypto/sha256"
	"crypto/sha512"
	"encoding/base64"
	"encoding/hex"
	"errors"
	"fmt"
	"math/big"
	"math/rand/v2"
	"sync/atomic"
	"testing"

	"github.com/nspcc-dev/neo-go/pkg/crypto/keys"
	"github.com/nspcc-dev/neofs-node/internal/verifkit"
	objectcore "github.com/nspcc-dev/neofs-node/pkg/core/object"
	objectService "github.com/nspcc-dev/neofs-node/pkg/services/object"
	"github.com/nspcc-dev/neofs-node/pkg/services/object/placement"
	"github.com/nspcc-dev/neofs-sdk-go/client"
	apistatus "github.com/nspcc-dev/neofs-sdk-go/client/status"
	"github.com/nspcc-dev/neofs-sdk-go/container"
	cid "github.com/nspcc-dev/neofs-sdk-go/container/id"
	neofscrypto "github.com/nspcc-dev/neofs-sdk-go/crypto"
	neofsecdsa "github.com/nspcc-dev/neofs-sdk-go/crypto/ecdsa"
	"github.com/nspcc-dev/neofs-sdk-go/netmap"
	"github.com/nspcc-dev/neofs-sdk-go/object"
	oid "github.com/nspcc-dev/neofs-sdk-go/object/id"
	protoobject "github.com/nspcc-dev/neofs-sdk-go/proto/object"
	"github.com/nspcc-dev/neofs-sdk-go/proto/refs"
	sessionv2 "github.com/nspcc-dev/neofs-sdk-go/session/v2"
	"github.com/nspcc-dev/neofs-sdk-go/user"
	"github.com/nspcc-dev/neofs-sdk-go/version"
	"go.uber.org/zap"
	"google.golang.org/protobuf/proto"
)

type vf31wKey struct {
	priv *ecdsa.PrivateKey
	pub  []byte
}

func vf31wNewKey(rng *rand.Rand) vf31wKey {
	for {
		k, err := keys.NewPrivateKeyFromBytes(verifkit.RandBytes(rng, 32))
		if err != nil {
			continue
		}
		return vf31wKey{priv: &k.PrivateKey, pub: k.PublicKey().Bytes()}
	}
}

func (k vf31wKey) signer(scheme int) neofscrypto.Signer {
	switch scheme {
	case 0:
		return neofsecdsa.Signer(*k.priv)
	case 1:
		return neofsecdsa.SignerRFC6979(*k.priv)
	default:
		return neofsecdsa.SignerWalletConnect(*k.priv)
	}
}

// reference: is sig a valid signature of data (standard library only)
func vf31wSigValid(data []byte, sig *refs.Signature) bool {
	if sig == nil || len(sig.Key) != 33 {
		return false
	}
	x, y := elliptic.UnmarshalCompressed(elliptic.P256(), sig.Key)
	if x == nil {
		return false
	}
	pub := &ecdsa.PublicKey{Curve: elliptic.P256(), X: x, Y: y}
	rs := func(b []byte) (*big.Int, *big.Int) {
		return new(big.Int).SetBytes(b[:32]), new(big.Int).SetBytes(b[32:64])
	}
	switch sig.Scheme {
	case refs.SignatureScheme_ECDSA_SHA512:
		if len(sig.Sign) != 65 || sig.Sign[0] != 4 {
			return false
		}
		h := sha512.Sum512(data)
		r, s := rs(sig.Sign[1:])
		return ecdsa.Verify(pub, h[:], r, s)
	case refs.SignatureScheme_ECDSA_RFC6979_SHA256:
		if len(sig.Sign) != 64 {
			return false
		}
		h := sha256.Sum256(data)
		r, s := rs(sig.Sign)
		return ecdsa.Verify(pub, h[:], r, s)
	case refs.SignatureScheme_ECDSA_RFC6979_SHA256_WALLET_CONNECT:
		if len(sig.Sign) != 80 {
			return false
		}
		payload := append([]byte(hex.EncodeToString(sig.Sign[64:])), base64.StdEncoding.EncodeToString(data)...)
		if len(payload) >= 0xfd {
			return false
		}
		msg := append([]byte{0x01, 0x00, 0x01, 0xf0, byte(len(payload))}, payload...)
		msg = append(msg, 0, 0)
		h := sha256.Sum256(msg)
		r, s := rs(sig.Sign)
		return ecdsa.Verify(pub, h[:], r, s)
	}
	return false
}

// ---------------------------------------------------------------------------------------
// the truth kept by the generator

const vf31wNodes = 8 // node 0 is the local node

// vf31wEpochTruth is the network of one epoch: which nodes are in the network map and which
// selection group (0 none, 1 first selector, 2 second selector) of each of the two
// containers a node falls into by its attributes.
type vf31wEpochTruth struct {
	present [vf31wNodes]bool
	role    [2][vf31wNodes]int8
	// short: fewer nodes carry a selection attribute than the policy SELECTs in this epoch
	// (policy cannot be met).  The statement does not say whether the remaining attributed
	// nodes "belong to the container" then; the reference treats them as possible members
	// (never demands a refusal for them, never demands acceptance).
	short [2]bool
}

type vf31wPolicy struct {
	kind int // 0: one selector; 1: two selectors
	a, b int // nodes selected by selector 1 / 2
	text string
}

type vf31wWorld struct {
	epoch       uint64
	truth       map[uint64]*vf31wEpochTruth
	removedFrom [2]uint64 // container removed starting from this epoch (0 = never)
	keys        [vf31wNodes]vf31wKey
	cnrs        [2]cid.ID
	pol         [2]vf31wPolicy
	attr        [2]string
}

func (w *vf31wWorld) exists(c int, e uint64) bool {
	return w.removedFrom[c] == 0 || e < w.removedFrom[c]
}

// in reports whether node n carries a selection attribute of container c in epoch e.
func (w *vf31wWorld) in(c int, e uint64, n int) bool {
	t := w.truth[e]
	return n >= 0 && t != nil && w.exists(c, e) && t.present[n] && t.role[c][n] != 0
}

func (w *vf31wWorld) lastIn(c int, e uint64, n int) int {
	if n < 0 {
		return -1
	}
	for d := uint64(0); d <= e; d++ {
		if t := w.truth[e-d]; t != nil && t.present[n] && t.role[c][n] != 0 {
			return int(d)
		}
	}
	return -1
}

func vf31wMemberState(d int) string {
	switch {
	case d == 0:
		return "member-now"
	case d == 1:
		return "member-in-previous-epoch-only"
	case d == 2:
		return "member-until-two-epochs-ago"
	case d > 2:
		return "member-longer-ago"
	}
	return "never-member"
}

func (w *vf31wWorld) describe(e uint64) string {
	t := w.truth[e]
	if t == nil {
		return fmt.Sprintf("epoch %d: no network map", e)
	}
	s := fmt.Sprintf("epoch %d:", e)
	for c := 0; c < 2; c++ {
		s += fmt.Sprintf(" container %d", c)
		if !w.exists(c, e) {
			s += " removed;"
			continue
		}
		s += " nodes["
		for n := 0; n < vf31wNodes; n++ {
			if t.present[n] && t.role[c][n] != 0 {
				s += fmt.Sprintf(" %d", n)
			}
		}
		s += " ]"
		if t.short[c] {
			s += "(policy cannot be met)"
		}
		s += ";"
	}
	return s
}

// next derives the network of epoch e from the base roles (churned in place).
func vf31wNextTruth(rng *rand.Rand, base *[2][vf31wNodes]int8) *vf31wEpochTruth {
	t := &vf31wEpochTruth{}
	for c := 0; c < 2; c++ {
		for n := 0; n < vf31wNodes; n++ {
			if base[c][n] == 0 {
				continue
			}
			p := 0.35
			if n == 0 {
				p = 0.45 // the local node changes sides often
			}
			if rng.Float64() < p {
				// the node loses the attribute, another node gets it
				var cand []int
				for m := 0; m < vf31wNodes; m++ {
					if base[c][m] == 0 {
						cand = append(cand, m)
					}
				}
				if len(cand) > 0 {
					m := cand[rng.IntN(len(cand))]
					if base[c][0] == 0 && rng.IntN(3) == 0 {
						m = 0 // ... preferably the local node
					}
					base[c][m], base[c][n] = base[c][n], 0
				}
			}
		}
		t.role[c] = base[c]
		if rng.IntN(25) == 0 {
			// one attributed node loses the attribute in this epoch only: the policy cannot be met
			var mem []int
			for n := 0; n < vf31wNodes; n++ {
				if t.role[c][n] != 0 {
					mem = append(mem, n)
				}
			}
			t.role[c][mem[rng.IntN(len(mem))]] = 0
			t.short[c] = true
		}
	}
	for n := 0; n < vf31wNodes; n++ {
		// nodes outside both containers may be missing from the network map
		t.present[n] = t.role[0][n] != 0 || t.role[1][n] != 0 || rng.IntN(5) != 0
	}
	return t
}

// ---------------------------------------------------------------------------------------
// in-memory sources behind placement.Service

type vf31wNetwork struct {
	w        *vf31wWorld
	built    map[uint64]*netmap.NetMap
	failAt   map[uint64]error // injected read failure of the network map of an epoch (one request)
	manifest []string
}

func (x *vf31wNetwork) Epoch() (uint64, error) { return x.w.epoch, nil }
func (x *vf31wNetwork) NetMap() (*netmap.NetMap, error) {
	return x.GetNetMapByEpoch(x.w.epoch)
}
func (x *vf31wNetwork) GetNetMapByEpoch(e uint64) (*netmap.NetMap, error) {
	if err := x.failAt[e]; err != nil {
		x.manifest = append(x.manifest, fmt.Sprintf("network-map-read|epoch%+d", int64(e)-int64(x.w.epoch)))
		return nil, err
	}
	if nm := x.built[e]; nm != nil {
		return nm, nil
	}
	t := x.w.truth[e]
	if t == nil {
		return nil, fmt.Errorf("verif: no network map for epoch %d", e)
	}
	var nodes []netmap.NodeInfo
	for n := 0; n < vf31wNodes; n++ {
		if !t.present[n] {
			continue
		}
		var ni netmap.NodeInfo
		ni.SetPublicKey(x.w.keys[n].pub)
		ni.SetNetworkEndpoints(fmt.Sprintf("/dns4/node%d/tcp/8080", n))
		ni.SetAttribute("Idx", fmt.Sprint(n))
		for c := 0; c < 2; c++ {
			switch t.role[c][n] {
			case 1:
				ni.SetAttribute(x.w.attr[c], "p")
			case 2:
				ni.SetAttribute(x.w.attr[c], "s")
			default:
				if n%2 == 0 {
					ni.SetAttribute(x.w.attr[c], "none")
				}
			}
		}
		nodes = append(nodes, ni)
	}
	nm := new(netmap.NetMap)
	nm.SetEpoch(e)
	nm.SetNodes(nodes)
	x.built[e] = nm
	return nm, nil
}

// vf31wState is the node's view of the chain state (what cfg.networkState is on a node).
type vf31wState struct{ w *vf31wWorld }

func (x vf31wState) CurrentEpoch() uint64         { return x.w.epoch }
func (x vf31wState) CurrentBlock() uint32         { return uint32(x.w.epoch)*240 + 7 }
func (x vf31wState) CurrentEpochDuration() uint64 { return 240 }

type vf31wContainers struct {
	w        *vf31wWorld
	cnr      [2]container.Container
	failGet  error
	manifest *[]string
}

func (x *vf31wContainers) Get(id cid.ID) (container.Container, error) {
	if x.failGet != nil {
		*x.manifest = append(*x.manifest, "container-read")
		return container.Container{}, x.failGet
	}
	for c := 0; c < 2; c++ {
		if id == x.w.cnrs[c] {
			if !x.w.exists(c, x.w.epoch) {
				return container.Container{}, apistatus.ErrContainerNotFound
			}
			return x.cnr[c], nil
		}
	}
	return container.Container{}, apistatus.ErrContainerNotFound
}

type vf31wStorage struct {
	calls     int
	lastObj   *object.Object
	storedNow int
	stored    map[oid.Address]struct{}
	failWith  error
}

func (s *vf31wStorage) VerifyAndStoreObjectLocally(_ context.Context, obj object.Object) error {
	s.calls++
	s.lastObj = &obj
	if s.failWith != nil {
		return s.failWith
	}
	if err := obj.CheckVerificationFields(); err != nil {
		return fmt.Errorf("verif storage: invalid object: %w", err)
	}
	s.stored[oid.NewAddress(obj.GetContainerID(), obj.GetID())] = struct{}{}
	s.storedNow++
	return nil
}
func (s *vf31wStorage) SearchObjects(context.Context, cid.ID, []objectcore.SearchFilter, []string, *objectcore.SearchCursor, uint16) ([]client.SearchResultItem, []byte, error) {
	return nil, nil, errors.New("verif: unused")
}
func (s *vf31wStorage) GetSessionPrivateKey(user.ID) (ecdsa.PrivateKey, error) {
	return ecdsa.PrivateKey{}, errors.New("verif: unused")
}
func (s *vf31wStorage) GetSessionV2PrivateKey([]sessionv2.Target) (ecdsa.PrivateKey, error) {
	return ecdsa.PrivateKey{}, errors.New("verif: unused")
}

func vf31wPolicyFor(rng *rand.Rand, attr string) vf31wPolicy {
	if rng.IntN(2) == 0 {
		k := 1 + rng.IntN(3)
		rep := 1 + rng.IntN(k)
		return vf31wPolicy{kind: 0, a: k, text: fmt.Sprintf("REP %d IN S\nCBF 1\nSELECT %d FROM F AS S\nFILTER %s EQ p AS F", rep, k, attr)}
	}
	a, b := 1+rng.IntN(2), 1+rng.IntN(2)
	return vf31wPolicy{kind: 1, a: a, b: b, text: fmt.Sprintf("REP 1 IN S1\nREP 1 IN S2\nCBF 1\nSELECT %d FROM F1 AS S1\nSELECT %d FROM F2 AS S2\nFILTER %s EQ p AS F1\nFILTER %s EQ s AS F2", a, b, attr, attr)}
}

var vf31wSigKinds = [...]string{"valid", "sig-bitflip", "signed-other-id", "claimed-member-key"}
var vf31wObjKinds = [...]string{"valid", "payload-changed", "container-switched"}
var vf31wEnvKinds = [...]string{"ok", "storage-error", "network-map-of-current-epoch-unreadable", "network-map-of-previous-epoch-unreadable", "container-unreadable"}

func TestVerif_C31_Wiring(t *testing.T) {
	r := verifkit.Start(t, "C31", "exploration")
	defer r.Finish()
	r.SetRule("production wiring: Server.Replicate over the node's real FS chain adapter (newFSChainForObjects) and the real placement.Service on in-memory container / network-map sources; histories of 8-14 epochs (ticks +1, sometimes +2; start at epoch 0 or later) with 3-7 requests per epoch on ONE long-lived node; 8 network nodes (one is the local node) whose policy-relevant attributes churn at every tick, two containers with one- or two-selector policies, a container may be removed, a policy may be unmeetable in an epoch; senders: nodes of the network, the local node, a stranger; 4 signature kinds x 3 schemes, 3 object kinds, 5 environments (storage failure, network map of the current / previous epoch or the container unreadable for one request); every request judged on the generator's truth of its own epoch; distinct = sequence of (sender state, local state, signature, object, environment)")
	r.Assume("a node belongs to a container in an epoch iff the network map of that epoch gives it the attribute value the container's storage policy selects by; the generator keeps the number of such nodes equal to the policy's SELECT count, so the whole set is selected (the policy engine of the SDK is in the loop but not re-implemented by the reference)")
	nHist := r.Pick(160, 3200)
	ctx := context.Background()

	for hi := 0; hi < nHist; hi++ {
		rng := r.Rand("wiring-history", hi)
		w := &vf31wWorld{truth: map[uint64]*vf31wEpochTruth{}}
		for n := range w.keys {
			w.keys[n] = vf31wNewKey(rng)
		}
		stranger := vf31wNewKey(rng)
		owner := vf31wNewKey(rng)
		ownerID := user.NewFromECDSAPublicKey(owner.priv.PublicKey)
		w.cnrs = [2]cid.ID{verifkit.RandCID(rng), verifkit.RandCID(rng)}
		w.attr = [2]string{"InA", "InB"}
		cs := &vf31wContainers{w: w}
		for c := 0; c < 2; c++ {
			w.pol[c] = vf31wPolicyFor(rng, w.attr[c])
			var pp netmap.PlacementPolicy
			if err := pp.DecodeString(w.pol[c].text); err != nil {
				r.Inconclusive("cannot build policy: " + err.Error())
				return
			}
			cs.cnr[c].Init()
			cs.cnr[c].SetOwner(ownerID)
			cs.cnr[c].SetPlacementPolicy(pp)
		}
		// base roles: a / b random nodes per selector
		var base [2][vf31wNodes]int8
		for c := 0; c < 2; c++ {
			perm := rng.Perm(vf31wNodes)
			for i := 0; i < w.pol[c].a; i++ {
				base[c][perm[i]] = 1
			}
			for i := 0; i < w.pol[c].b; i++ {
				base[c][perm[w.pol[c].a+i]] = 2
			}
		}
		if rng.IntN(7) == 0 {
			w.epoch = 0 // no previous epoch at all
		} else {
			w.epoch = 1 + uint64(rng.IntN(30))
			w.truth[w.epoch-1] = vf31wNextTruth(rng, &base)
		}
		w.truth[w.epoch] = vf31wNextTruth(rng, &base)

		nw := &vf31wNetwork{w: w, built: map[uint64]*netmap.NetMap{}}
		cs.manifest = &nw.manifest
		placementSvc, err := placement.New(cs, nw)
		if err != nil {
			r.Inconclusive("cannot build placement service: " + err.Error())
			return
		}
		localPub := w.keys[0].pub
		var maintenance atomic.Bool
		fsChain := newFSChainForObjects(placementSvc, func(k []byte) bool { return bytes.Equal(k, localPub) }, vf31wState{w}, cs, &maintenance, nil)
		st := &vf31wStorage{stored: map[oid.Address]struct{}{}}
		srv := objectService.New(nil, fsChain, st, nil, *w.keys[0].priv, nil, nil, nil, nil, zap.NewNop())

		nEpochs := 8 + rng.IntN(7)
		var log []string
		log = append(log, fmt.Sprintf("policies: A=%q B=%q", w.pol[0].text, w.pol[1].text))
		if w.epoch > 0 {
			log = append(log, w.describe(w.epoch-1))
		}
		histSig := ""
		storedFor := [2]bool{}
		for ei := 0; ei < nEpochs; ei++ {
			if ei > 0 {
				step := uint64(1)
				if rng.IntN(6) == 0 {
					step = 2
				}
				for s := uint64(0); s < step; s++ {
					w.epoch++
					w.truth[w.epoch] = vf31wNextTruth(rng, &base)
				}
				if w.removedFrom[1] == 0 && rng.IntN(40) == 0 {
					w.removedFrom[1] = w.epoch
				}
				r.Count("wiring_epoch_ticks", 1)
			}
			log = append(log, w.describe(w.epoch))
			nReq := 3 + rng.IntN(5)
			for qi := 0; qi < nReq; qi++ {
				e := w.epoch
				// container: prefer one the local node belongs to now or belonged to in the previous epoch
				c := rng.IntN(2)
				if rng.IntN(10) < 7 {
					for _, cc := range rng.Perm(2) {
						if w.in(cc, e, 0) || (e > 0 && w.in(cc, e-1, 0)) {
							c = cc
							break
						}
					}
				}
				// sender: prefer nodes that belong / belonged to the container recently
				senderIdx := rng.IntN(vf31wNodes+1) - 1 // -1 = stranger (never in the network map)
				if rng.IntN(10) < 7 {
					var cand []int
					for n := 1; n < vf31wNodes; n++ {
						if d := w.lastIn(c, e, n); d >= 0 && d <= 2 {
							cand = append(cand, n)
						}
					}
					if len(cand) > 0 {
						senderIdx = cand[rng.IntN(len(cand))]
					}
				}
				sender := stranger
				if senderIdx >= 0 {
					sender = w.keys[senderIdx]
				}
				pick := func(n, validBias int) int {
					if rng.IntN(10) < validBias {
						return 0
					}
					return rng.IntN(n)
				}
				sigKind, objKind, envKind := pick(len(vf31wSigKinds), 8), pick(len(vf31wObjKinds), 8), pick(len(vf31wEnvKinds), 8)
				scheme := rng.IntN(3)

				obj := object.New(w.cnrs[c], ownerID)
				ver := version.Current()
				obj.SetVersion(&ver)
				obj.SetPayload(verifkit.RandBytes(rng, rng.IntN(48)))
				obj.SetPayloadSize(uint64(len(obj.Payload())))
				obj.SetCreationEpoch(e)
				if err := obj.SetVerificationFields(owner.signer(rng.IntN(2))); err != nil {
					r.Inconclusive("cannot finalise object: " + err.Error())
					return
				}
				mo := obj.ProtoMessage()
				objValid := true
				objCnr := c
				switch objKind {
				case 1:
					mo.Payload = append(bytes.Clone(mo.Payload), 1)
					objValid = false
				case 2:
					objCnr = 1 - c
					mo.Header.ContainerId = w.cnrs[objCnr].ProtoMessage()
					objValid = false // header changed after the ID was fixed
				}
				idBytes := mo.GetObjectId().GetValue()
				signed := idBytes
				if sigKind == 2 {
					other := verifkit.RandOID(rng)
					signed = other[:]
				}
				sigBytes, err := sender.signer(scheme).Sign(signed)
				if err != nil {
					r.Inconclusive("cannot sign request: " + err.Error())
					return
				}
				sig := &refs.Signature{Key: bytes.Clone(sender.pub), Sign: sigBytes, Scheme: refs.SignatureScheme(scheme)}
				switch sigKind {
				case 1:
					sig.Sign[rng.IntN(len(sig.Sign))] ^= 1 << rng.IntN(8)
				case 3:
					// the stranger's signature under the key of a node of the container
					var mem []int
					for n := 1; n < vf31wNodes; n++ {
						if w.in(objCnr, e, n) {
							mem = append(mem, n)
						}
					}
					if len(mem) > 0 {
						s2, _ := stranger.signer(scheme).Sign(signed)
						sig.Sign, sig.Key = s2, bytes.Clone(w.keys[mem[rng.IntN(len(mem))]].pub)
					}
				}
				req := &protoobject.ReplicateRequest{Object: mo, Signature: sig}

				// environment (lasts for this request only)
				st.failWith, nw.failAt, cs.failGet, nw.manifest = nil, nil, nil, nil
				st.calls, st.storedNow, st.lastObj = 0, 0, nil
				switch envKind {
				case 1:
					st.failWith = errors.New("verif: injected storage failure")
				case 2:
					nw.failAt = map[uint64]error{e: errors.New("verif: injected network map read failure")}
				case 3:
					if e > 0 {
						nw.failAt = map[uint64]error{e - 1: fmt.Errorf("verif: read network map: %w", context.DeadlineExceeded)}
					}
				case 4:
					cs.failGet = errors.New("verif: injected container read failure")
				}

				// reference: the statement on the truth of epoch e
				sigOK := vf31wSigValid(idBytes, sig)
				signerIdx := -1
				for n := 0; n < vf31wNodes; n++ {
					if bytes.Equal(sig.Key, w.keys[n].pub) {
						signerIdx = n
					}
				}
				senderIn := w.in(objCnr, e, signerIdx) || (e > 0 && w.exists(objCnr, e) && w.in(objCnr, e-1, signerIdx))
				localIn := w.in(objCnr, e, 0)
				authorised := sigOK && senderIn && localIn
				mayStore := authorised && objValid && st.failWith == nil
				// is the reference's "member" answer uncertain because a policy could not be met?
				uncertain := w.truth[e].short[objCnr] || (e > 0 && w.truth[e-1] != nil && w.truth[e-1].short[objCnr] && !w.in(objCnr, e, signerIdx))

				senderState := "not-in-network"
				if signerIdx >= 0 {
					senderState = vf31wMemberState(w.lastIn(objCnr, e, signerIdx))
				}
				localState := vf31wMemberState(w.lastIn(objCnr, e, 0))
				if !w.exists(objCnr, e) {
					senderState, localState = "container-removed", "container-removed"
				}
				shape := fmt.Sprintf("wiring|sender=%s|local=%s|sig=%s|object=%s|env=%s", senderState, localState, vf31wSigKinds[sigKind], vf31wObjKinds[objKind], vf31wEnvKinds[envKind])
				histSig += shape + ";"

				// situations the run must have offered (generator side, independent of the node's answers)
				if sigOK && objValid && envKind == 0 && senderIn && w.exists(objCnr, e) {
					switch {
					case localIn:
						r.Count("wiring_offered_valid_request_local_member_now", 1)
						if senderState == "member-in-previous-epoch-only" {
							r.Count("wiring_offered_previous_epoch_only_sender_local_member_now", 1)
						}
					case localState == "member-in-previous-epoch-only":
						r.Count("wiring_offered_member_sender_local_member_in_previous_epoch_only", 1)
						if storedFor[objCnr] {
							r.Count("wiring_offered_after_local_left_container_it_stored_for", 1)
						}
					case localState == "member-until-two-epochs-ago" || localState == "member-longer-ago":
						r.Count("wiring_offered_member_sender_local_member_longer_ago", 1)
					default:
						r.Count("wiring_offered_member_sender_local_never_member", 1)
					}
				}
				if sigOK && objValid && envKind == 0 && localIn && !senderIn && (senderState == "member-until-two-epochs-ago" || senderState == "member-longer-ago") {
					r.Count("wiring_offered_lapsed_sender_local_member_now", 1)
				}

				desc := map[string]any{"history": hi, "epoch": e, "request": qi, "container": objCnr, "sender_node": signerIdx, "sender": senderState, "local": localState,
					"signature": vf31wSigKinds[sigKind], "scheme": scheme, "object": vf31wObjKinds[objKind], "environment": vf31wEnvKinds[envKind],
					"reference_authorised": authorised, "reference_may_store": mayStore, "history_so_far": append([]string(nil), log...)}
				if b, err := proto.Marshal(req); err == nil {
					desc["request_hex"] = hex.EncodeToString(b)
				}
				var resp *protoobject.ReplicateResponse
				var rerr error
				r.Eval(1)
				if r.Guard(desc, func() { resp, rerr = srv.Replicate(ctx, req) }) {
					continue
				}
				statusOK := rerr == nil && resp != nil && resp.GetStatus().GetCode() == 0
				code := "transport-error"
				if rerr == nil && resp != nil {
					code = fmt.Sprint(resp.GetStatus().GetCode())
				}
				r.Seen("wiring_status_codes", code)
				desc["status"] = code
				desc["status_message"] = resp.GetStatus().GetMessage()
				desc["storage_calls"] = st.calls
				desc["source_reads_failed"] = nw.manifest
				faulted := len(nw.manifest) > 0
				for _, m := range nw.manifest {
					r.Count("wiring_source_fault_manifested|"+m, 1)
				}
				outcome := "refused"
				switch {
				case !authorised && st.calls > 0:
					why := "signature"
					switch {
					case sigOK && !senderIn:
						why = "sender-outside-container"
					case sigOK && senderIn && !localIn:
						why = "local-node-outside-container"
					}
					outcome = "VIOLATION storage reached"
					r.Violation("storage-reached-unauthorised|"+why+"|"+shape, "Replicate (production FS chain adapter + placement service) handed the object to the storage although the request is not authorised ("+why+")", desc)
				case !mayStore && st.storedNow > 0:
					outcome = "VIOLATION stored"
					r.Violation("stored-invalid|"+shape, "object stored although the acceptance condition does not hold", desc)
				case !mayStore && statusOK:
					outcome = "VIOLATION ok status"
					r.Violation("ok-status-without-store|"+shape, "OK status returned although nothing may be (and nothing was) stored", desc)
				case mayStore && st.storedNow == 1 && statusOK:
					outcome = "stored"
					storedFor[objCnr] = true
					r.Count("wiring_accepted_and_stored", 1)
					r.Seen("wiring_accepted_schemes", fmt.Sprint(scheme))
					r.Seen("wiring_accepted_sender_states", senderState)
					r.Seen("wiring_accepted_policy_kinds", fmt.Sprintf("kind%d|a%d|b%d", w.pol[objCnr].kind, w.pol[objCnr].a, w.pol[objCnr].b))
					if faulted {
						r.Count("wiring_stored_for_members_although_a_source_read_failed", 1)
					}
				case mayStore && faulted:
					r.Count("wiring_refused_because_source_read_failed", 1)
				case mayStore && uncertain:
					r.Count("wiring_refused_policy_cannot_be_met", 1)
				case mayStore:
					r.Count("wiring_refused_though_all_conditions_hold", 1)
					r.Seen("wiring_refused_though_valid_shapes", shape+"|code="+code+"|"+resp.GetStatus().GetMessage())
				default:
					r.Count("wiring_rejected_nothing_stored", 1)
				}
				if st.calls > 0 && st.lastObj != nil && authorised {
					got, _ := proto.Marshal(st.lastObj.ProtoMessage())
					want, _ := proto.Marshal(mo)
					if !bytes.Equal(got, want) {
						r.Violation("storage-got-different-object|wiring|"+vf31wObjKinds[objKind], "object handed to the storage differs from the object in the request", desc)
					}
				}
				if st.calls > 1 {
					r.Violation("storage-called-twice|wiring", "Replicate called the storage more than once", desc)
				}
				log = append(log, fmt.Sprintf("  e%d #%d cnr=%d sender=node%d(%s) local=%s sig=%s obj=%s env=%s ref_may_store=%v -> %s (status %s)", e, qi, objCnr, signerIdx, senderState, localState, vf31wSigKinds[sigKind], vf31wObjKinds[objKind], vf31wEnvKinds[envKind], mayStore, outcome, code))
				if hi < 2 && ei < 2 && qi < 2 {
					r.Sample(map[string]any{"part": "wiring", "history": hi, "epoch": e, "sender": senderState, "local": localState, "signature": vf31wSigKinds[sigKind], "object": vf31wObjKinds[objKind], "environment": vf31wEnvKinds[envKind], "reference_may_store": mayStore, "outcome": outcome})
				}
			}
		}
		r.Distinct(histSig)
	}

	for _, c := range []string{"wiring_offered_valid_request_local_member_now", "wiring_offered_previous_epoch_only_sender_local_member_now",
		"wiring_offered_member_sender_local_member_in_previous_epoch_only", "wiring_offered_after_local_left_container_it_stored_for",
		"wiring_offered_member_sender_local_member_longer_ago", "wiring_offered_lapsed_sender_local_member_now"} {
		if r.Counter(c) < 10 {
			r.Inconclusive(fmt.Sprintf("wiring: situation %s offered only %d times", c, r.Counter(c)))
		}
	}
	if r.Counter("wiring_accepted_and_stored") == 0 || r.SeenCount("wiring_accepted_schemes") < 3 || r.SeenCount("wiring_accepted_sender_states") < 2 || r.SeenCount("wiring_accepted_policy_kinds") < 4 {
		r.Inconclusive("wiring: accepted replications not observed for every scheme / both sender states / enough policy shapes")
	}
	if r.Counter("wiring_refused_though_all_conditions_hold") > 0 {
		r.Inconclusive(fmt.Sprintf("wiring: %d fully valid replications were refused: baseline is broken", r.Counter("wiring_refused_though_all_conditions_hold")))
	}
}
