//go:build verif

package signed256

import (
	"bytes"
	"fmt"
	"math/big"
	"math/rand/v2"
	"strings"
	"testing"

	"github.com/holiman/uint256"
	"github.com/nspcc-dev/neofs-node/internal/verifkit"
)

// Oracle side of C05 (written from the property text, math/big only):
//   - the supported range is [-(2^256-1), 2^256-1];
//   - a decimal integer is an optionally signed, non-empty string of ASCII digits;
//   - keys are compared byte-wise, integers numerically.

var vf05Max = new(big.Int).Sub(new(big.Int).Lsh(big.NewInt(1), 256), big.NewInt(1))

// vf05Classify is the reference reader: it tells whether s is an optionally signed
// digit string, and its value (which may be out of range).
func vf05Classify(s string) (isInt bool, v *big.Int) {
	d := s
	neg := false
	if d != "" && (d[0] == '+' || d[0] == '-') {
		neg = d[0] == '-'
		d = d[1:]
	}
	if d == "" {
		return false, nil
	}
	v = new(big.Int)
	ten := big.NewInt(10)
	for i := 0; i < len(d); i++ {
		if d[i] < '0' || d[i] > '9' {
			return false, nil
		}
		v.Mul(v, ten)
		v.Add(v, big.NewInt(int64(d[i]-'0')))
	}
	if neg {
		v.Neg(v)
	}
	return true, v
}

func vf05InRange(v *big.Int) bool { return v.CmpAbs(vf05Max) <= 0 }

// vf05FromBig builds the Int under test straight from sign and magnitude (no parser of
// the package involved).
func vf05FromBig(v *big.Int) Int {
	var z Int
	abs := new(big.Int).Abs(v)
	m, overflow := uint256.FromBig(abs)
	if overflow {
		panic("vf05FromBig: out of range")
	}
	z.mag = *m
	z.neg = v.Sign() < 0
	return z
}

func vf05KeyOf(v *big.Int) [EncodedLen]byte {
	z := vf05FromBig(v)
	return z.EncodeBytes()
}

func vf05ToBig(z *Int) *big.Int {
	v := z.mag.ToBig()
	if z.neg {
		v.Neg(v)
	}
	return v
}

// vf05Boundary returns the deduplicated boundary set (both signs of every magnitude).
func vf05Boundary(rng *rand.Rand) []*big.Int {
	seen := map[string]struct{}{}
	var out []*big.Int
	add := func(v *big.Int) {
		if !vf05InRange(v) {
			return
		}
		for _, s := range []int{1, -1} {
			w := new(big.Int).Set(v)
			if s < 0 {
				w.Neg(w)
			}
			k := w.String()
			if _, ok := seen[k]; ok {
				continue
			}
			seen[k] = struct{}{}
			out = append(out, w)
		}
	}
	one := big.NewInt(1)
	add(big.NewInt(0))
	add(one)
	add(vf05Max)
	for k := 1; k <= 256; k++ {
		p := new(big.Int).Lsh(one, uint(k))
		add(p)
		add(new(big.Int).Add(p, one))
		add(new(big.Int).Sub(p, one))
	}
	// values differing in exactly one byte at each of the 32 positions (from a random base
	// and from the all-0x80 base, so carries/borrows of naive comparisons show)
	bases := [][]byte{bytes.Repeat([]byte{0x80}, 32), verifkit.RandBytes(rng, 32), bytes.Repeat([]byte{0xff}, 32), make([]byte, 32)}
	for _, b := range bases {
		add(new(big.Int).SetBytes(b))
		for pos := 0; pos < 32; pos++ {
			for _, d := range []byte{1, 0xff, 0x7f} {
				c := bytes.Clone(b)
				c[pos] += d
				add(new(big.Int).SetBytes(c))
			}
		}
	}
	// powers of ten and neighbours (decimal chunking of the parser: 19 digits per chunk)
	p10 := big.NewInt(1)
	for k := 1; k <= 78; k++ {
		p10 = new(big.Int).Mul(p10, big.NewInt(10))
		add(p10)
		add(new(big.Int).Sub(p10, one))
		add(new(big.Int).Add(p10, one))
	}
	return out
}

func vf05RandInt(rng *rand.Rand) *big.Int {
	var n int
	switch rng.IntN(4) {
	case 0:
		n = 1 + rng.IntN(8)
	case 1:
		n = 32
	default:
		n = 1 + rng.IntN(32)
	}
	v := new(big.Int).SetBytes(verifkit.RandBytes(rng, n))
	if rng.IntN(8) == 0 { // sparse / dense patterns
		v.Rsh(v, uint(rng.IntN(8*n)))
	}
	if rng.IntN(2) == 0 {
		v.Neg(v)
	}
	return v
}

func vf05Class(v *big.Int) string {
	bl := v.BitLen()
	var m string
	switch {
	case bl == 0:
		m = "0"
	case bl <= 8:
		m = "b8"
	case bl <= 64:
		m = "b64"
	case bl <= 128:
		m = "b128"
	case bl <= 255:
		m = "b255"
	default:
		m = "b256"
	}
	return fmt.Sprintf("%d/%s", v.Sign(), m)
}

type vf05Val struct {
	b   *big.Int
	z   Int
	enc [EncodedLen]byte
}

// vf05CheckSingle monitors everything the property says about one integer.
func vf05CheckSingle(r *verifkit.Run, b *big.Int) (val vf05Val, ok bool) {
	desc := map[string]string{"value": b.String()}
	ok = true
	bad := func(key, what string) {
		ok = false
		r.Violation(key, what+" (value "+b.String()+")", desc)
	}
	r.Guard(desc, func() {
		z := vf05FromBig(b)
		val = vf05Val{b: b, z: z}
		val.enc = z.EncodeBytes()
		// FillBytes writes exactly the fixed-length key, same bytes as EncodeBytes
		buf := bytes.Repeat([]byte{0xA5}, EncodedLen+7)
		z.FillBytes(buf)
		if !bytes.Equal(buf[:EncodedLen], val.enc[:]) {
			bad("fillbytes-differs-from-encodebytes", "FillBytes and EncodeBytes disagree")
		}
		if !bytes.Equal(buf[EncodedLen:], bytes.Repeat([]byte{0xA5}, 7)) {
			bad("fillbytes-writes-past-key", "FillBytes wrote beyond the fixed key length")
		}
		// decode(encode(x)) == x
		d, err := DecodeBytes(val.enc[:])
		if err != nil {
			bad("decode-rejects-own-encoding", "DecodeBytes failed on EncodeBytes output: "+err.Error())
		} else {
			if vf05ToBig(&d).Cmp(b) != 0 {
				bad("decode-encode-roundtrip", "decode(encode(x)) = "+vf05ToBig(&d).String())
			}
			if d.Cmp(&z) != 0 || z.Cmp(&d) != 0 {
				bad("decode-encode-roundtrip-cmp", "decode(encode(x)) does not compare equal to x")
			}
			if d.EncodeBytes() != val.enc {
				bad("decode-encode-reencode", "re-encoding the decoded value gives another key")
			}
		}
		// printing gives an optionally signed digit string of the same value, and parsing it gives x back
		s := z.String()
		isInt, sv := vf05Classify(s)
		if !isInt || sv.Cmp(b) != 0 {
			bad("string-wrong", fmt.Sprintf("String() = %q", s))
		}
		p, err := ParseDecimal(s)
		if err != nil {
			bad("parse-rejects-own-string", fmt.Sprintf("ParseDecimal(String(x)=%q) failed: %v", s, err))
		} else if vf05ToBig(&p).Cmp(b) != 0 || p.EncodeBytes() != val.enc {
			bad("parse-string-roundtrip", fmt.Sprintf("ParseDecimal(String(x)=%q) = %s", s, vf05ToBig(&p)))
		}
		// the canonical decimal form is accepted with the same value
		p, err = ParseDecimal(b.String())
		if err != nil {
			bad("parse-rejects-canonical", "ParseDecimal failed on canonical decimal: "+err.Error())
		} else if vf05ToBig(&p).Cmp(b) != 0 || p.EncodeBytes() != val.enc {
			bad("parse-canonical-value", "ParseDecimal(canonical) = "+vf05ToBig(&p).String())
		}
		// int64/uint64 constructors agree where they apply
		if b.IsInt64() {
			n := NewInt(b.Int64())
			if n.EncodeBytes() != val.enc || n.Cmp(&z) != 0 {
				bad("newint-differs", "NewInt gives another value")
			}
		}
		if b.IsUint64() {
			n := NewUint64(b.Uint64())
			var m Int
			m.neg = true // dirty receiver
			m.SetUint64(b.Uint64())
			if n.EncodeBytes() != val.enc || m.EncodeBytes() != val.enc {
				bad("newuint64-differs", "NewUint64/SetUint64 gives another value")
			}
		}
	})
	return val, ok
}

func vf05Sign(c int) int {
	switch {
	case c < 0:
		return -1
	case c > 0:
		return 1
	}
	return 0
}

func vf05CheckPair(r *verifkit.Run, x, y *vf05Val) {
	want := x.b.Cmp(y.b)
	gotKey := vf05Sign(bytes.Compare(x.enc[:], y.enc[:]))
	gotCmp := vf05Sign(x.z.Cmp(&y.z))
	if gotKey != want {
		r.Violation("key-order-disagrees|"+vf05Class(x.b)+"|"+vf05Class(y.b),
			fmt.Sprintf("bytes.Compare(enc(%s), enc(%s)) = %d, numeric comparison = %d", x.b, y.b, gotKey, want),
			map[string]string{"x": x.b.String(), "y": y.b.String()})
	}
	if gotCmp != want {
		r.Violation("cmp-disagrees|"+vf05Class(x.b)+"|"+vf05Class(y.b),
			fmt.Sprintf("(%s).Cmp(%s) = %d, numeric comparison = %d", x.b, y.b, gotCmp, want),
			map[string]string{"x": x.b.String(), "y": y.b.String()})
	}
}

// vf05Strings builds the reader corpus: every optionally signed digit string class plus
// near misses.
func vf05Strings(rng *rand.Rand, nRandom int) []string {
	var out []string
	bodies := []string{"0", "1", "5", "9", "10", "42", "18446744073709551615", "18446744073709551616",
		"9999999999999999999", "10000000000000000000", "99999999999999999999", "100000000000000000000",
		vf05Max.String(),
		new(big.Int).Sub(vf05Max, big.NewInt(1)).String(),
		new(big.Int).Add(vf05Max, big.NewInt(1)).String(),
		new(big.Int).Add(vf05Max, big.NewInt(2)).String(),
		new(big.Int).Mul(vf05Max, big.NewInt(10)).String(),
		"2" + vf05Max.String()[1:], "1" + strings.Repeat("0", 77), "1" + strings.Repeat("0", 78), strings.Repeat("9", 77), strings.Repeat("9", 78), strings.Repeat("9", 79)}
	for l := 1; l <= 80; l++ {
		b := make([]byte, l)
		for i := range b {
			b[i] = byte('0' + rng.IntN(10))
		}
		if b[0] == '0' {
			b[0] = '1'
		}
		bodies = append(bodies, string(b))
	}
	prefixes := []string{"", "+", "-", "++", "--", "+-", "-+", " ", " +", "+ ", "- ", "\t", "0x", "0+", "0-", "+0+", "-0-", "−", "＋"}
	zeros := []string{"", "0", "00", strings.Repeat("0", 19), strings.Repeat("0", 70)}
	suffixes := []string{"", " ", "\n", "_", "-", "+", "e1", ".0", ".", "\x00", "L"}
	for _, b := range bodies {
		for _, p := range prefixes {
			for _, z := range zeros {
				out = append(out, p+z+b)
			}
		}
		for _, s := range suffixes[1:] {
			out = append(out, b+s, "-"+b+s, "+"+b+s)
		}
	}
	out = append(out, "", "+", "-", "++", "--", "+-", "-+", " ", "0", "+0", "-0", "00", "+00", "-00", "-+0", "++0", "++5", "-+5", "+-5", "--5", "5-", "5+",
		"1_0", "1_000", "0x1", "0x10", "0b1", "0o7", " 1", "1 ", "１", "٣", "१२", "1e3", "1.0", "1,000", "+_1", "_1", "1__0", "०", "\x001", "1\x00", "+\x00", "Inf", "NaN", "nil")
	// random insertions of a foreign character into valid strings (all positions incl. the
	// 19-digit chunk borders of the underlying parser)
	foreign := []byte{'+', '-', '_', ' ', '.', 'a', '/', ':', 0, 0xff}
	for i := 0; i < nRandom; i++ {
		b := bodies[rng.IntN(len(bodies))]
		s := []string{"", "+", "-"}[rng.IntN(3)] + zeros[rng.IntN(3)] + b
		switch rng.IntN(3) {
		case 0:
			out = append(out, s)
		case 1:
			pos := rng.IntN(len(s) + 1)
			out = append(out, s[:pos]+string(foreign[rng.IntN(len(foreign))])+s[pos:])
		default:
			// position relative to the end (chunk borders are counted from the end)
			k := []int{19, 38, 57, 76, 20, 18, 1, 0}[rng.IntN(8)]
			if k > len(s) {
				k = len(s)
			}
			pos := len(s) - k
			out = append(out, s[:pos]+string(foreign[rng.IntN(len(foreign))])+s[pos:])
		}
	}
	return out
}

func vf05StrClass(s string) string {
	isInt, v := vf05Classify(s)
	switch {
	case !isInt:
		if len(s) > 1 && (s[0] == '+' || s[0] == '-') && (s[1] == '+' || s[1] == '-') {
			return "double-sign"
		}
		if s == "" || s == "+" || s == "-" {
			return "no-digits"
		}
		return "malformed"
	case !vf05InRange(v):
		return "out-of-range"
	}
	c := "int"
	if s[0] == '+' {
		c += "+plus"
	} else if s[0] == '-' {
		c += "+minus"
	}
	if d := strings.TrimLeft(s, "+-"); len(d) > 1 && d[0] == '0' {
		c += "+zeros"
	}
	if v.CmpAbs(vf05Max) == 0 {
		c += "+extreme"
	}
	return c
}

// vf05CheckReader compares one reader's answer with the reference reader.
func vf05CheckReader(r *verifkit.Run, place, s string, accepted bool, got *big.Int) {
	isInt, v := vf05Classify(s)
	want := isInt && vf05InRange(v)
	desc := map[string]string{"place": place, "input": s}
	switch {
	case accepted && !want:
		r.Violation(place+"|accepts|"+vf05StrClass(s), fmt.Sprintf("%s accepts %q as %s; it is not an optionally signed decimal number in range", place, s, got), desc)
	case !accepted && want:
		r.Violation(place+"|rejects|"+vf05StrClass(s), fmt.Sprintf("%s rejects the decimal integer %q", place, s), desc)
	case accepted && got.Cmp(v) != 0:
		r.Violation(place+"|wrong-value|"+vf05StrClass(s), fmt.Sprintf("%s reads %q as %s", place, s, got), desc)
	}
}

func TestVerif_C05(t *testing.T) {
	r := verifkit.Start(t, "C05", "exploration")
	defer r.Finish()
	r.SetRule("codec: boundary integers (0, ±1, ±2^k, ±(2^k±1), ±(2^256-1), one-byte neighbours at all 32 positions, 10^k±1) and seeded random integers, every ordered pair of the chosen boundary subset plus random pairs; readers: generated strings (sign prefixes x leading zeros x digit bodies of length 1..80 x range neighbours x foreign characters); distinct = (sign class, magnitude class) pairs of compared integers and reader-string classes; non-trivial = both integers in range / string non-empty")
	rng := r.Rand("boundary", 0)
	all := vf05Boundary(rng)
	r.Count("boundary_values_total", len(all))

	// --- single-value obligations on the whole boundary set + random values
	vals := make([]vf05Val, 0, len(all))
	for _, b := range all {
		v, _ := vf05CheckSingle(r, b)
		vals = append(vals, v)
		r.Eval(1)
		r.Seen("value_classes", vf05Class(b))
	}
	nRandVals := r.Pick(60000, 3000000)
	rv := r.Rand("values", 0)
	randVals := make([]vf05Val, 0, 4096)
	for i := 0; i < nRandVals; i++ {
		b := vf05RandInt(rv)
		v, _ := vf05CheckSingle(r, b)
		r.Eval(1)
		if len(randVals) < cap(randVals) {
			randVals = append(randVals, v)
		}
	}
	r.Count("values_checked", len(all)+nRandVals)

	// --- pair obligations
	sub := vals
	if lim := r.Pick(900, len(vals)); len(sub) > lim {
		// quick tier: a seeded subset that always holds the extremes, zero, ±1 and the sign boundary
		keep := map[string]bool{"0": true, "1": true, "-1": true, vf05Max.String(): true, "-" + vf05Max.String(): true, "2": true, "-2": true}
		pr := r.Rand("subset", 0)
		perm := pr.Perm(len(vals))
		var s []vf05Val
		for _, v := range vals {
			if keep[v.b.String()] {
				s = append(s, v)
			}
		}
		for _, i := range perm {
			if len(s) >= lim {
				break
			}
			if !keep[vals[i].b.String()] {
				s = append(s, vals[i])
			}
		}
		sub = s
	}
	pairs := 0
	for i := range sub {
		for j := range sub {
			vf05CheckPair(r, &sub[i], &sub[j])
			pairs++
			if i%7 == 0 {
				r.Distinct("pair|" + vf05Class(sub[i].b) + "|" + vf05Class(sub[j].b))
			}
		}
		r.Distinct("pair|" + vf05Class(sub[i].b) + "|" + vf05Class(sub[i].b))
	}
	r.Eval(pairs)
	r.Count("boundary_pairs_compared", pairs)
	r.Count("boundary_subset_size", len(sub))
	// random pairs: random x random, random x boundary, and close neighbours x, x+d
	nPairs := r.Pick(500000, 20000000)
	pr := r.Rand("pairs", 0)
	for i := 0; i < nPairs; i++ {
		var x, y *vf05Val
		switch pr.IntN(3) {
		case 0:
			x, y = &randVals[pr.IntN(len(randVals))], &randVals[pr.IntN(len(randVals))]
		case 1:
			x, y = &randVals[pr.IntN(len(randVals))], &vals[pr.IntN(len(vals))]
			if pr.IntN(2) == 0 {
				x, y = y, x
			}
		default:
			x = &randVals[pr.IntN(len(randVals))]
			d := big.NewInt(int64(pr.IntN(513) - 256))
			if pr.IntN(4) == 0 {
				d.Lsh(d, uint(8*pr.IntN(32)))
			}
			nb := new(big.Int).Add(x.b, d)
			if !vf05InRange(nb) {
				nb = new(big.Int).Neg(x.b)
			}
			z := vf05FromBig(nb)
			y = &vf05Val{b: nb, z: z, enc: z.EncodeBytes()}
			r.Count("neighbour_pairs", 1)
		}
		vf05CheckPair(r, x, y)
		if i < 5 {
			r.Sample(map[string]any{"x": x.b.String(), "y": y.b.String(), "key_x": fmt.Sprintf("%x", x.enc), "key_y": fmt.Sprintf("%x", y.enc), "numeric_cmp": x.b.Cmp(y.b)})
		}
		if i%64 == 0 {
			r.Distinct("pair|" + vf05Class(x.b) + "|" + vf05Class(y.b))
		}
	}
	r.Eval(nPairs)
	r.Count("random_pairs_compared", nPairs)

	// --- readers of this package
	strs := vf05Strings(r.Rand("strings", 0), r.Pick(60000, 1500000))
	r.Count("reader_strings", len(strs))
	for _, s := range strs {
		desc := map[string]string{"input": s}
		cls := vf05StrClass(s)
		r.Seen("string_classes", cls)
		r.Count("strings_"+cls, 1)
		r.Distinct("str|" + cls)
		r.Guard(desc, func() {
			z, err := ParseDecimal(s)
			vf05CheckReader(r, "signed256.ParseDecimal", s, err == nil, vf05ToBig(&z))
			if err == nil {
				if _, v := vf05Classify(s); v != nil && vf05InRange(v) && z.EncodeBytes() != vf05KeyOf(v) {
					r.Violation("same-integer-other-key", fmt.Sprintf("ParseDecimal(%q) yields a value whose key differs from the key of %s", s, v), desc)
				}
				if ps, perr := ParseDecimal(z.String()); perr != nil || ps.Cmp(&z) != 0 {
					r.Violation("parse-print-parse", fmt.Sprintf("Parse(String(Parse(%q))) differs", s), desc)
				}
			}
			// dirty receiver: the result must not depend on what z held before
			d := Int{neg: true}
			d.mag.SetAllOne()
			err2 := d.SetFromDecimal(s)
			if (err2 == nil) != (err == nil) {
				r.Violation("setfromdecimal-receiver-dependent", fmt.Sprintf("SetFromDecimal(%q) acceptance depends on the receiver", s), desc)
			} else if err == nil && (d.Cmp(&z) != 0 || d.EncodeBytes() != z.EncodeBytes()) {
				r.Violation("setfromdecimal-receiver-dependent", fmt.Sprintf("SetFromDecimal(%q) value depends on the receiver: %s vs %s", s, vf05ToBig(&d), vf05ToBig(&z)), desc)
			}
		})
		// MustParseDecimal: panics exactly on rejected strings
		func() {
			var m Int
			panicked := true
			func() {
				defer func() { _ = recover() }()
				m = MustParseDecimal(s)
				panicked = false
			}()
			vf05CheckReader(r, "signed256.MustParseDecimal", s, !panicked, vf05ToBig(&m))
		}()
		// ParseNormalizedDecimal reads (sign, digits).  The integer it is handed is
		// sign+digits; a digits part that is not a digit string must be rejected, a
		// normalized digits part (no leading zeros) in range must be accepted, anything
		// accepted must carry the right value.
		for _, neg := range []bool{false, true} {
			whole := s
			if neg {
				whole = "-" + s
			}
			r.Guard(desc, func() {
				z, err := ParseNormalizedDecimal(neg, s)
				got := vf05ToBig(&z)
				isInt, v := vf05Classify(whole)
				pureDigits := s != "" && strings.Trim(s, "0123456789") == ""
				normalized := pureDigits && (s == "0" || s[0] != '0')
				place := "signed256.ParseNormalizedDecimal"
				switch {
				case err == nil && !(isInt && vf05InRange(v)):
					r.Violation(place+"|accepts|"+vf05StrClass(whole), fmt.Sprintf("%s(%v, %q) accepted as %s", place, neg, s, got), desc)
				case err != nil && normalized && vf05InRange(v):
					r.Violation(place+"|rejects|"+vf05StrClass(whole), fmt.Sprintf("%s(%v, %q) rejected: %v", place, neg, s, err), desc)
				case err == nil && got.Cmp(v) != 0:
					r.Violation(place+"|wrong-value|"+vf05StrClass(whole), fmt.Sprintf("%s(%v, %q) = %s", place, neg, s, got), desc)
				case err == nil && z.EncodeBytes() != vf05KeyOf(v):
					r.Violation("same-integer-other-key", fmt.Sprintf("%s(%v, %q) yields a value whose key differs from the key of %s", place, neg, s, v), desc)
				}
			})
		}
		r.Eval(4)
	}
	r.Sample(map[string]any{"reader_inputs": strs[:8]})
}
