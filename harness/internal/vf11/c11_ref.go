//go:build verif

// Package vf11 holds what the four parts of the C11 monitor (fstree, writecache, shard,
// engine) share: the reference semantics of payload range requests written from the
// property statement (HTTP-like ranges), request generators, the judge that compares
// an observed answer with the reference, and builders of on-disk files in the formats
// documented in fstree/doc.go (plain, zstd, combined).  It exists only in the build
// overlay of property C11.
package vf11

import (
	"bytes"
	"crypto/sha256"
	"encoding/binary"
	"errors"
	"fmt"
	"io"
	"math"
	"math/rand/v2"
	"os"
	"path/filepath"

	"github.com/klauspost/compress/zstd"
	"github.com/nspcc-dev/neofs-node/internal/verifkit"
	"github.com/nspcc-dev/neofs-node/pkg/local_object_storage/blobstor/common"
	"github.com/nspcc-dev/neofs-sdk-go/checksum"
	apistatus "github.com/nspcc-dev/neofs-sdk-go/client/status"
	cid "github.com/nspcc-dev/neofs-sdk-go/container/id"
	neofscrypto "github.com/nspcc-dev/neofs-sdk-go/crypto"
	"github.com/nspcc-dev/neofs-sdk-go/object"
	oid "github.com/nspcc-dev/neofs-sdk-go/object/id"
	"github.com/nspcc-dev/neofs-sdk-go/user"
)

// NPFBL mirrors internal/object.NonPayloadFieldsBufferLength (20 KiB): the number of
// object bytes the storage buffers before it starts streaming.  Used only to aim ranges.
const NPFBL = 20 << 10

// ---------------------------------------------------------------------------------
// reference semantics

// Req is one range request.
type Req struct {
	Mode common.PayloadRangeMode `json:"mode"`
	A    uint64                  `json:"a"`
	B    uint64                  `json:"b"`
}

func (r Req) Range() common.PayloadRange {
	return common.PayloadRange{First: r.A, Second: r.B, Mode: r.Mode}
}

func ModeName(m common.PayloadRangeMode) string {
	switch m {
	case common.PayloadRangeModeOffsetLength:
		return "offlen"
	case common.PayloadRangeModeBounds:
		return "bounds"
	case common.PayloadRangeModeFrom:
		return "from"
	case common.PayloadRangeModeSuffix:
		return "suffix"
	default:
		return fmt.Sprintf("mode%d", m)
	}
}

func (r Req) String() string { return fmt.Sprintf("%s(%d,%d)", ModeName(r.Mode), r.A, r.B) }

// Want is what the reference demands for a request.
type Want int

const (
	WantSlice    Want = iota // exactly payload[off:off+ln]
	WantOOR                  // out-of-range
	WantAnyError             // the request defines no slice at all (first > last): any error, no data
	WantFree                 // the statement does not say; only agreement between layers is demanded
)

// Resolve is the reference: which slice of a payload of L bytes the request defines.
//   - offset/length: (0,0) is the whole payload; otherwise the slice [off, off+ln) must lie
//     inside the payload (no wrap-around), else it is unsatisfiable; a zero length with a
//     non-zero offset is not defined by the statement (free);
//   - first/last (inclusive): the last position is clamped to the end; first beyond the end
//     is unsatisfiable; first > last defines nothing;
//   - from-position: [first, L), unsatisfiable when first is not inside the payload
//     (position 0 of an empty payload is left free);
//   - suffix length n: the last min(n, L) bytes, a zero suffix is unsatisfiable.
func Resolve(r Req, L uint64) (off, ln uint64, w Want) {
	switch r.Mode {
	case common.PayloadRangeModeOffsetLength:
		if r.B == 0 {
			if r.A == 0 {
				return 0, L, WantSlice
			}
			return 0, 0, WantFree
		}
		if r.A >= L || r.B > L-r.A {
			return 0, 0, WantOOR
		}
		return r.A, r.B, WantSlice
	case common.PayloadRangeModeBounds:
		if r.A > r.B {
			return 0, 0, WantAnyError
		}
		if r.A >= L {
			return 0, 0, WantOOR
		}
		last := r.B
		if last > L-1 {
			last = L - 1
		}
		return r.A, last - r.A + 1, WantSlice
	case common.PayloadRangeModeFrom:
		if r.A == 0 && L == 0 {
			return 0, 0, WantFree
		}
		if r.A >= L {
			return 0, 0, WantOOR
		}
		return r.A, L - r.A, WantSlice
	case common.PayloadRangeModeSuffix:
		if r.A == 0 {
			return 0, 0, WantOOR
		}
		n := r.A
		if n > L {
			n = L
		}
		return L - n, n, WantSlice
	}
	return 0, 0, WantFree
}

// IsFullObjectRange tells whether ReadObjectParts documents the request as "no partial
// range": it then returns the whole object (prefix + stream) instead of range bytes.
func IsFullObjectRange(r Req) bool {
	return r.Mode == common.PayloadRangeModeOffsetLength && r.A == 0 && r.B == 0 ||
		r.Mode == common.PayloadRangeModeFrom && r.A == 0
}

// ReqClass names the shape of a request relative to the payload (part of class keys).
func ReqClass(r Req, L uint64) string {
	big := func(v uint64) bool { return v > 1<<40 }
	if big(r.A) || big(r.B) {
		return "huge"
	}
	off, ln, w := Resolve(r, L)
	switch w {
	case WantOOR:
		if r.Mode == common.PayloadRangeModeSuffix {
			return "zero-suffix"
		}
		if r.A >= L {
			return "starts-at-or-after-end"
		}
		return "runs-past-end"
	case WantAnyError:
		return "first>last"
	case WantFree:
		return "undefined"
	}
	switch {
	case ln == 0:
		return "empty-payload"
	case off == 0 && ln == L:
		return "whole"
	case off+ln == L:
		return "to-end"
	case off == 0:
		return "from-start"
	default:
		return "inside"
	}
}

// ---------------------------------------------------------------------------------
// request generators

var allModes = []common.PayloadRangeMode{common.PayloadRangeModeOffsetLength, common.PayloadRangeModeBounds, common.PayloadRangeModeFrom, common.PayloadRangeModeSuffix}

// Exhaustive lists every request of every mode with both values in 0..L+2.
func Exhaustive(L int) []Req {
	var out []Req
	for a := 0; a <= L+2; a++ {
		for b := 0; b <= L+2; b++ {
			out = append(out, Req{common.PayloadRangeModeOffsetLength, uint64(a), uint64(b)})
			out = append(out, Req{common.PayloadRangeModeBounds, uint64(a), uint64(b)})
		}
		out = append(out, Req{common.PayloadRangeModeFrom, uint64(a), 0})
		out = append(out, Req{common.PayloadRangeModeSuffix, uint64(a), 0})
	}
	return out
}

// Huge lists requests with values near 2^31, 2^32, 2^63 and 2^64 combined with small ones.
func Huge(L uint64, rng *rand.Rand) []Req {
	h := []uint64{math.MaxInt64 - 1, math.MaxInt64, 1 << 63, 1<<63 + 1, math.MaxUint64, math.MaxUint64 - 1,
		math.MaxUint64 - L, math.MaxUint64 - L + 1, 1<<63 - L, 1<<32 - 1, 1 << 32, 1<<32 + 1, 1<<31 - 1, 1 << 31,
		math.MaxUint64 - rng.Uint64N(1<<20), 1<<63 + rng.Uint64N(1<<20), 1<<63 - rng.Uint64N(1<<20)}
	s := []uint64{0, 1, 2}
	if L > 0 {
		s = append(s, L-1, L, L+1)
	}
	var out []Req
	for _, x := range h {
		for _, y := range s {
			out = append(out, Req{common.PayloadRangeModeOffsetLength, x, y}, Req{common.PayloadRangeModeOffsetLength, y, x},
				Req{common.PayloadRangeModeBounds, x, y}, Req{common.PayloadRangeModeBounds, y, x})
		}
		for _, y := range h[:6] {
			out = append(out, Req{common.PayloadRangeModeOffsetLength, x, y}, Req{common.PayloadRangeModeBounds, x, y})
		}
		out = append(out, Req{common.PayloadRangeModeFrom, x, 0}, Req{common.PayloadRangeModeSuffix, x, 0})
	}
	return out
}

// Directed builds n requests whose start and end positions are drawn from marks (positions
// of interest inside the payload such as the end of the buffered prefix) +-1, the payload
// ends and random positions.
func Directed(L uint64, marks []uint64, rng *rand.Rand, n int) []Req {
	var pos []uint64
	add := func(v uint64) {
		for _, d := range []int64{-2, -1, 0, 1, 2} {
			if x := int64(v) + d; x >= 0 {
				pos = append(pos, uint64(x))
			}
		}
	}
	add(0)
	add(L)
	for _, m := range marks {
		add(m)
	}
	pick := func() uint64 {
		if rng.IntN(4) == 0 {
			return rng.Uint64N(L + 3)
		}
		return pos[rng.IntN(len(pos))]
	}
	out := make([]Req, 0, n)
	for len(out) < n {
		a, b := pick(), pick()
		switch allModes[rng.IntN(4)] {
		case common.PayloadRangeModeOffsetLength:
			if b >= a && rng.IntN(8) != 0 {
				out = append(out, Req{common.PayloadRangeModeOffsetLength, a, b - a}) // [a, b)
			} else {
				out = append(out, Req{common.PayloadRangeModeOffsetLength, a, b})
			}
		case common.PayloadRangeModeBounds:
			if a > b && rng.IntN(8) != 0 {
				a, b = b, a
			}
			out = append(out, Req{common.PayloadRangeModeBounds, a, b})
		case common.PayloadRangeModeFrom:
			out = append(out, Req{common.PayloadRangeModeFrom, a, 0})
		default:
			if L >= a && rng.IntN(2) == 0 {
				out = append(out, Req{common.PayloadRangeModeSuffix, L - a, 0}) // suffix starting at position a
			} else {
				out = append(out, Req{common.PayloadRangeModeSuffix, a, 0})
			}
		}
	}
	return out
}

// ---------------------------------------------------------------------------------
// answers and the judge

// Answer is what one API call returned, reduced to what the property talks about.
type Answer struct {
	Data     []byte
	Err      error
	Resumed  bool   // the stream delivered bytes again after reporting io.EOF
	WholeObj bool   // Data is a whole encoded object (ReadObjectParts with a full range)
	Partial  bool   // the consumer closed the stream before its end: Data only has to be a prefix of the slice
	Sched    string // "" (one request at a time), "overlapped" or "concurrent" (c11_overlap.go)
	Trace    any    // for overlapped/concurrent answers: the calls and the schedule (replay)
}

func (a Answer) Class() string {
	switch {
	case a.Err == nil:
		return "data"
	case errors.Is(a.Err, apistatus.ErrObjectOutOfRange):
		return "out-of-range"
	case errors.Is(a.Err, apistatus.ErrObjectNotFound):
		return "not-found"
	default:
		return "other-error"
	}
}

// ReadAll drains rd up to the first io.EOF with a seeded chunk size (as io.Copy/io.ReadAll
// would), tolerating (n>0, io.EOF); resumed reports (for diagnosis) that the reader
// returned more bytes after that EOF.
func ReadAll(rng *rand.Rand, rd io.Reader) (out []byte, resumed bool, err error) {
	sizes := []int{1, 2, 5, 64, 512, 4096, 20480, 32768, 1 << 20}
	buf := make([]byte, sizes[rng.IntN(len(sizes))])
	zero := 0
	for {
		n, err := rd.Read(buf)
		out = append(out, buf[:n]...)
		if err != nil {
			if errors.Is(err, io.EOF) {
				probe := make([]byte, 4096)
				for range 2 {
					if m, _ := rd.Read(probe); m > 0 {
						return out, true, nil
					}
				}
				return out, false, nil
			}
			return out, false, err
		}
		if n == 0 {
			if zero++; zero > 1000 {
				return out, false, errors.New("reader makes no progress (1000 empty reads without error)")
			}
		} else {
			zero = 0
		}
		if len(out) > 16<<20 {
			return out, false, errors.New("reader yields more than 16 MiB")
		}
		if len(buf) < 4096 && len(out) > 4096 {
			buf = make([]byte, 65536)
		}
	}
}

// StreamAnswer turns (stream, err) of a range API into an Answer and closes the stream.
func StreamAnswer(rng *rand.Rand, stream io.ReadCloser, err error) Answer {
	if err != nil {
		if stream != nil {
			_ = stream.Close()
		}
		return Answer{Err: err}
	}
	if stream == nil {
		return Answer{Err: errors.New("nil stream with nil error")}
	}
	defer stream.Close()
	data, resumed, err := ReadAll(rng, stream)
	if err != nil {
		return Answer{Err: fmt.Errorf("reading the returned stream: %w", err)}
	}
	return Answer{Data: data, Resumed: resumed}
}

// PartsAnswer turns the result of a ReadObjectParts-like call into an Answer.
func PartsAnswer(rng *rand.Rand, req Req, buf []byte, n int, stream io.ReadCloser, err error) Answer {
	a := StreamAnswer(rng, stream, err)
	if a.Err != nil {
		return a
	}
	if IsFullObjectRange(req) {
		if n < 0 || n > len(buf) {
			return Answer{Err: fmt.Errorf("n=%d with a buffer of %d bytes", n, len(buf))}
		}
		a.Data = append(append([]byte(nil), buf[:n]...), a.Data...)
		a.WholeObj = true
	}
	return a
}

// Obj is one stored object the requests are run against.
type Obj struct {
	Addr    oid.Address
	Object  *object.Object
	Bin     []byte // encoded object
	Payload []byte
	PStart  int    // offset of the first payload byte inside Bin (len(Bin) when there is no payload)
	Format  string // how it is stored (plain, combined, zstd, combined+zstd, api ...)
	// Enc, when set, is the compressed form to store (a zstd frame built with chosen
	// block length, c11_multiblock.go); otherwise compressed formats use Zstd(Bin).
	Enc []byte
	// ExtraMarks are further payload positions of interest for directed requests (where
	// the blocks of the compressed frame and the segments of the payload meet).
	ExtraMarks []uint64
}

// Compressed returns the compressed form of the object as it is stored on disk.
func (o *Obj) Compressed() []byte {
	if o.Enc != nil {
		return o.Enc
	}
	return Zstd(o.Bin)
}

// Judge compares an answer with the reference and reports a violation through r.
// layer/api name the call site; it returns false when a violation was reported.
func Judge(r *verifkit.Run, layer, api string, o *Obj, req Req, a Answer) bool {
	L := uint64(len(o.Payload))
	off, ln, want := Resolve(req, L)
	r.Count("answers_"+a.Class(), 1)
	r.Count("requests_"+ModeName(req.Mode), 1)
	key := func(kind string) string {
		if a.Sched != "" { // the class is the overlap of answers, not the request shape
			return fmt.Sprintf("C11|%s.%s|%s|fmt=%s|%s|%s", layer, api, kind, o.Format, LenClass(o), a.Sched)
		}
		return fmt.Sprintf("C11|%s.%s|%s|%s|fmt=%s|%s|%s", layer, api, kind, ModeName(req.Mode), o.Format, LenClass(o), ReqClass(req, L))
	}
	rep := map[string]any{"layer": layer, "api": api, "request": req.String(), "payload_len": L, "object_len": len(o.Bin), "payload_start": o.PStart, "format": o.Format, "addr": o.Addr.String()}
	if a.Sched != "" {
		rep["answers_in_flight"] = a.Sched
		rep["schedule"] = a.Trace
	}
	bad := func(kind, what string) bool {
		k := key(kind)
		switch kind { // kinds that name a mechanism: the key does not enumerate request shapes
		case "premature-eof":
			k = fmt.Sprintf("C11|%s.%s|premature-eof|fmt=%s", layer, api, o.Format)
		case "error-for-satisfiable":
			k = fmt.Sprintf("C11|%s.%s|error-for-satisfiable|%s|fmt=%s", layer, api, ErrSig(a.Err), o.Format)
		}
		if a.Sched != "" {
			if kind == "premature-eof" || kind == "error-for-satisfiable" {
				k += "|" + a.Sched
			}
			what += " [" + a.Sched + " with other range reads]"
		}
		r.Violation(k, fmt.Sprintf("%s.%s %s on a %d-byte payload (%s, object %d bytes, payload starts at %d): %s", layer, api, req, L, o.Format, len(o.Bin), o.PStart, what), rep)
		return false
	}
	switch want {
	case WantFree:
		r.Count("requests_unconstrained", 1)
		return true
	case WantAnyError:
		if a.Err == nil {
			return bad("data-for-undefined-range", fmt.Sprintf("returned %d bytes although first > last", len(a.Data)))
		}
		return true
	case WantOOR:
		r.Count("expected_out_of_range", 1)
		switch a.Class() {
		case "out-of-range":
			return true
		case "data":
			return bad("data-for-unsatisfiable", fmt.Sprintf("returned %d bytes, the range is unsatisfiable", len(a.Data)))
		default:
			return bad("unsatisfiable-not-out-of-range", "the range is unsatisfiable but the error is not out-of-range: "+a.Err.Error())
		}
	}
	r.Count("expected_slice", 1)
	if a.Err != nil {
		if a.Class() == "out-of-range" {
			return bad("out-of-range-for-satisfiable", fmt.Sprintf("out-of-range although [%d,%d) lies inside the payload", off, off+ln))
		}
		return bad("error-for-satisfiable", a.Err.Error())
	}
	exp := o.Payload[off : off+ln]
	if a.WholeObj {
		exp = o.Bin
	}
	if bytes.Equal(a.Data, exp) {
		return true
	}
	if a.Partial && len(a.Data) <= len(exp) && bytes.Equal(a.Data, exp[:len(a.Data)]) {
		return true // abandoned by the consumer: what was read is the beginning of the slice
	}
	shape := "wrong-bytes"
	switch {
	case len(a.Data) < len(exp) && bytes.Equal(a.Data, exp[:len(a.Data)]):
		shape = "truncated"
		if a.Resumed {
			shape = "premature-eof"
		}
	case len(a.Data) > len(exp) && bytes.Equal(a.Data[:len(exp)], exp):
		shape = "excess-bytes"
	}
	i := 0
	for i < len(a.Data) && i < len(exp) && a.Data[i] == exp[i] {
		i++
	}
	return bad(shape, fmt.Sprintf("got %d bytes, want %d (slice [%d,%d)%s), first difference at %d", len(a.Data), len(exp), off, off+ln, map[bool]string{true: " delivered as whole object", false: ""}[a.WholeObj], i))
}

// ErrSig reduces an error text to its shape (digits and quoted parts removed, outermost
// and innermost parts kept).
func ErrSig(err error) string {
	if err == nil {
		return ""
	}
	var b []byte
	inq := false
	for _, c := range []byte(err.Error()) {
		switch {
		case c == '"':
			inq = !inq
		case inq || c >= '0' && c <= '9' || c == '/':
		default:
			b = append(b, c)
		}
	}
	s := string(b)
	if len(s) > 70 {
		s = s[:30] + ".." + s[len(s)-38:]
	}
	return s
}

// Agree demands (for requests the statement leaves free) that an upper layer gives the
// same answer as the blob storage below it.
func Agree(r *verifkit.Run, layer, api string, o *Obj, req Req, upper, lower Answer) {
	if upper.Class() == lower.Class() && bytes.Equal(upper.Data, lower.Data) {
		return
	}
	r.Violation(fmt.Sprintf("C11|%s.%s|layers-disagree|%s|fmt=%s|%s", layer, api, ModeName(req.Mode), o.Format, ReqClass(req, uint64(len(o.Payload)))),
		fmt.Sprintf("%s.%s %s: answer %s (%d bytes) differs from the blob storage's %s (%d bytes)", layer, api, req, upper.Class(), len(upper.Data), lower.Class(), len(lower.Data)),
		map[string]any{"layer": layer, "api": api, "request": req.String(), "addr": o.Addr.String(), "format": o.Format})
}

// LenClass names the object size relative to the buffered prefix.
func LenClass(o *Obj) string {
	switch n := len(o.Bin); {
	case len(o.Payload) == 0:
		return "nopayload"
	case n < NPFBL:
		return "obj<NPFBL"
	case n == NPFBL:
		return "obj==NPFBL"
	case n <= 2*NPFBL:
		return "obj<=2NPFBL"
	default:
		return "obj>2NPFBL"
	}
}

// ---------------------------------------------------------------------------------
// objects

// NewObj builds a storable object (current version, owner, checksum, payload length all
// consistent) with the given payload; hdrKind 0 small header, 1 medium (about 4 KiB of
// attributes), 2 maximal (about 18 KiB of signature and attributes).
func NewObj(rng *rand.Rand, cnr cid.ID, owner user.ID, payload []byte, hdrKind int) *Obj {
	obj := verifkit.NewObject(rng, cnr, owner, 0)
	obj.SetPayload(payload)
	obj.SetPayloadSize(uint64(len(payload)))
	obj.SetPayloadChecksum(checksum.NewSHA256(sha256.Sum256(payload)))
	switch hdrKind {
	case 1:
		verifkit.AddAttr(obj, "k", string(bytes.Repeat([]byte{'a'}, 3700)))
	case 2:
		sig := neofscrypto.NewSignatureFromRawKey(neofscrypto.ECDSA_SHA512, bytes.Repeat([]byte{3}, neofscrypto.MaxVerificationScriptLength), bytes.Repeat([]byte{4}, neofscrypto.MaxInvocationScriptLength))
		obj.SetSignature(&sig)
		verifkit.AddAttr(obj, "attr", string(bytes.Repeat([]byte{'c'}, 16000)))
	}
	if len(payload) == 0 {
		obj.SetPayload(nil)
	}
	bin := obj.Marshal()
	return &Obj{Addr: verifkit.Addr(obj), Object: obj, Bin: bin, Payload: payload, PStart: len(bin) - len(payload)}
}

// Payload returns n bytes: position-dependent so that any shifted or duplicated slice differs.
func Payload(rng *rand.Rand, n int, compressible bool) []byte {
	b := make([]byte, n)
	if compressible {
		run := []int{7, 64}[rng.IntN(2)]
		for i := range b {
			b[i] = byte(i/run) ^ byte(i/(run*256))
			if i%997 == 0 {
				b[i] = byte(rng.Uint32())
			}
		}
		return b
	}
	for i := range b {
		b[i] = byte(rng.Uint32())
	}
	return b
}

// Marks returns the payload positions where the storage's buffering changes for an
// object: the end of the first NPFBL and 2*NPFBL object bytes.
func Marks(o *Obj) []uint64 {
	var m []uint64
	for _, edge := range []int{NPFBL, 2 * NPFBL, NPFBL - 38, 32 << 10} {
		if p := edge - o.PStart; p > 0 && p < len(o.Payload)+2 {
			m = append(m, uint64(p))
		}
	}
	return append(m, o.ExtraMarks...)
}

// ---------------------------------------------------------------------------------
// on-disk formats (fstree/doc.go)

// TreePath is the documented location of an object's file.
func TreePath(root string, depth int, addr oid.Address) string {
	s := addr.Object().EncodeToString() + "." + addr.Container().EncodeToString()
	parts := []string{root}
	for i := 0; i < depth; i++ {
		parts = append(parts, s[:1])
		s = s[1:]
	}
	return filepath.Join(append(parts, s)...)
}

var enc, _ = zstd.NewWriter(nil)

// Zstd compresses data the way old nodes did (one frame over the whole object).
func Zstd(data []byte) []byte { return enc.EncodeAll(data, nil) }

// PlantFile writes raw file contents for addr.
func PlantFile(root string, depth int, addr oid.Address, content []byte) error {
	p := TreePath(root, depth, addr)
	if err := os.MkdirAll(filepath.Dir(p), 0o700); err != nil {
		return err
	}
	return os.WriteFile(p, content, 0o600)
}

// PlantCombined writes one combined file holding all objs (compressed[i] tells whether
// member i is zstd-compressed) and links it under every member's path.
func PlantCombined(root string, depth int, objs []*Obj, compressed []bool) error {
	var file []byte
	for i, o := range objs {
		member := o.Bin
		if compressed[i] {
			member = o.Compressed()
		}
		var pref [38]byte
		pref[0] = 0x7f
		id := o.Addr.Object()
		copy(pref[2:], id[:])
		binary.BigEndian.PutUint32(pref[34:], uint32(len(member)))
		file = append(append(file, pref[:]...), member...)
	}
	if err := PlantFile(root, depth, objs[0].Addr, file); err != nil {
		return err
	}
	first := TreePath(root, depth, objs[0].Addr)
	for _, o := range objs[1:] {
		p := TreePath(root, depth, o.Addr)
		if err := os.MkdirAll(filepath.Dir(p), 0o700); err != nil {
			return err
		}
		if err := os.Link(first, p); err != nil {
			return err
		}
	}
	return nil
}

// Intercept returns a header interception callback that records how often it ran.
func Intercept(calls *int) func([]byte) error {
	return func([]byte) error { *calls++; return nil }
}
