//go:build verif

package vf11

// Compressed objects whose zstd frame consists of many blocks.  The statement covers
// compressed blob storage for every payload length; the frame an old node wrote for an
// object above 128 KiB has several blocks (one per 128 KiB of object data), and a streaming
// reader consumes the compressed bytes block by block while the range answer is being
// produced.  Whatever the storage does with the compressed bytes it has pre-read (buffers,
// decoder input, header buffer of the caller) then matters long after the first
// decompressed bytes were handed out.  The builders here make such objects (payloads of
// segments that compress well or not at all, compressed the way old nodes did) and
// describe their shape: where the blocks begin in the file and how many of them begin
// inside the part of the file the storage buffers before it starts streaming.
//
// Frames with blocks shorter than 128 KiB (other encoders / settings) are deliberately not
// used: no node ever wrote one, the statement does not speak about them (see notes).

import (
	"encoding/binary"
	"errors"
	"fmt"
	"math/rand/v2"

	"github.com/nspcc-dev/neofs-node/internal/verifkit"
	cid "github.com/nspcc-dev/neofs-sdk-go/container/id"
	"github.com/nspcc-dev/neofs-sdk-go/user"
)

// DefaultBlockLen is the block length of frames written with default encoder settings
// (what Zstd produces and what old nodes wrote).
const DefaultBlockLen = 128 << 10

// ZBlock is one block of a zstd frame: At is the position of its 3-byte header in the
// frame, Type 0 raw / 1 RLE / 2 compressed, Len the number of frame bytes after the header.
type ZBlock struct {
	At, Type, Len int
}

// ZstdLayout lists the blocks of the single zstd frame (RFC 8878) in file.
func ZstdLayout(frame []byte) ([]ZBlock, error) {
	if len(frame) < 6 || binary.LittleEndian.Uint32(frame) != 0xFD2FB528 {
		return nil, errors.New("not a zstd frame")
	}
	fhd := frame[4]
	p := 5
	single := fhd&0x20 != 0
	if !single {
		p++ // window descriptor
	}
	p += []int{0, 1, 2, 4}[fhd&3] // dictionary id
	switch fhd >> 6 {             // frame content size
	case 0:
		if single {
			p++
		}
	case 1:
		p += 2
	case 2:
		p += 4
	default:
		p += 8
	}
	var out []ZBlock
	for {
		if p+3 > len(frame) {
			return nil, fmt.Errorf("block header at %d beyond the %d-byte frame", p, len(frame))
		}
		h := int(frame[p]) | int(frame[p+1])<<8 | int(frame[p+2])<<16
		b := ZBlock{At: p, Type: h >> 1 & 3, Len: h >> 3}
		if b.Type == 1 {
			b.Len = 1
		}
		if b.Type == 3 {
			return nil, fmt.Errorf("reserved block type at %d", p)
		}
		out = append(out, b)
		p += 3 + b.Len
		if h&1 != 0 {
			return out, nil
		}
	}
}

// MBShape describes a multi-block object for evidence and for the generator.
type MBShape struct {
	BlockLen         int `json:"block_len"`
	Blocks           int `json:"blocks"`
	BlocksInPrefix   int `json:"blocks_beginning_in_buffered_prefix"` // blocks whose header lies in the first NPFBL bytes of the compressed form
	CompressedLen    int `json:"compressed_len"`
	PayloadLen       int `json:"payload_len"`
	RawBlocks        int `json:"raw_blocks"`
	CompressedBlocks int `json:"compressed_blocks"`
}

// Streamed tells whether the storage has to stream the compressed form (it does not fit
// the buffered prefix) while several blocks begin inside that prefix.
func (s MBShape) Streamed() bool { return s.CompressedLen > NPFBL }

// runs fills b (a payload segment starting at payload position at) with long runs of one
// value that carry a position stamp every 1021 bytes: compresses to a few bytes per KiB
// and still differs from itself under any shift.
func runs(b []byte, at int, salt byte) {
	for i := range b {
		p := at + i
		b[i] = byte(p>>12)*31 ^ salt
		if m := p % 1021; m < 3 {
			b[i] = byte((p / 1021) >> (8 * m))
		}
	}
}

// MultiBlockPayload builds a payload of about n bytes out of segments.  profile:
//
//	0 compressible head, incompressible tail (at least 21 KiB, so that the compressed form
//	  is longer than the buffered prefix and has to be streamed);
//	1 incompressible throughout;
//	2 short incompressible head, compressible middle, incompressible tail;
//	3 alternating segments of unit..12*unit bytes, closed by an incompressible tail.
//
// It returns the payload and the positions where segments meet.
func MultiBlockPayload(rng *rand.Rand, n, profile, unit int) ([]byte, []uint64) {
	tail := 21<<10 + rng.IntN(8<<10)
	if n < tail+4096 {
		n = tail + 4096
	}
	b := make([]byte, n)
	var cuts []uint64
	salt := byte(rng.Uint32())
	noise := func(s []byte) {
		for i := range s {
			s[i] = byte(rng.Uint32())
		}
	}
	switch profile {
	case 1:
		noise(b)
	case 2:
		h := 1<<10 + rng.IntN(5<<10)
		noise(b[:h])
		runs(b[h:n-tail], h, salt)
		noise(b[n-tail:])
		cuts = append(cuts, uint64(h), uint64(n-tail))
	case 3:
		p := 0
		for k := 0; p < n-tail; k++ {
			l := min(unit+rng.IntN(11*unit), n-tail-p)
			if k%2 == 0 {
				runs(b[p:p+l], p, salt)
			} else {
				noise(b[p : p+l])
			}
			p += l
			cuts = append(cuts, uint64(p))
		}
		noise(b[n-tail:])
	default:
		runs(b[:n-tail], 0, salt)
		noise(b[n-tail:])
		cuts = append(cuts, uint64(n-tail))
	}
	return b, cuts
}

// NewMultiBlockObj builds an object with the payload and its compressed form (blocks of
// blockLen = DefaultBlockLen bytes of object data).  The marks for directed requests are the payload positions where
// blocks and segments meet (in addition to the buffering marks every object has).
func NewMultiBlockObj(rng *rand.Rand, cnr cid.ID, owner user.ID, payload []byte, cuts []uint64, hdrKind int) (*Obj, MBShape) {
	const blockLen = DefaultBlockLen
	o := NewObj(rng, cnr, owner, payload, hdrKind)
	o.Enc = Zstd(o.Bin)
	blocks, err := ZstdLayout(o.Enc)
	if err != nil {
		panic("vf11: " + err.Error())
	}
	sh := MBShape{BlockLen: blockLen, Blocks: len(blocks), CompressedLen: len(o.Enc), PayloadLen: len(payload)}
	for _, b := range blocks {
		if b.At < NPFBL {
			sh.BlocksInPrefix++
		}
		switch b.Type {
		case 0:
			sh.RawBlocks++
		case 2:
			sh.CompressedBlocks++
		}
	}
	marks := append([]uint64(nil), cuts...)
	// block k holds object bytes [k*blockLen, (k+1)*blockLen): the first few and the last
	// few block boundaries, as payload positions
	nb := (len(o.Bin) + blockLen - 1) / blockLen
	for k := 1; k < nb; k++ {
		if k > 6 && k < nb-3 {
			continue
		}
		if p := k*blockLen - o.PStart; p > 0 {
			marks = append(marks, uint64(p))
		}
	}
	o.ExtraMarks = marks
	return o, sh
}

// Note records the shape of a multi-block object in the evidence.
func (s MBShape) Note(r *verifkit.Run) {
	r.Count("multiblock_objects", 1)
	if s.Streamed() {
		r.Count("multiblock_objects_streamed", 1)
		r.Max("multiblock_max_blocks_beginning_in_buffered_prefix", int64(s.BlocksInPrefix))
		if s.BlocksInPrefix >= MBManyBlocks {
			r.Count(MBManyKey, 1)
		}
	}
	r.Max("multiblock_max_blocks", int64(s.Blocks))
	r.Max("multiblock_max_payload_len", int64(s.PayloadLen))
	if s.RawBlocks > 0 && s.CompressedBlocks > 0 {
		r.Count("multiblock_objects_with_raw_and_compressed_blocks", 1)
	}
}

// MBManyKey counts the non-trivial multi-block objects of a run (see MBManyBlocks).
const MBManyKey = "multiblock_objects_streamed_with_many_blocks_in_buffered_prefix"

// MBManyBlocks: an object with at least that many blocks beginning inside the buffered
// prefix of its compressed form is one whose buffered compressed bytes cannot all have
// been decoded when the first decompressed bytes are handed out (the non-trivial case).
const MBManyBlocks = 6

// Formats of the multi-block objects (part of class keys).
const (
	FmtMBFile   = "zstd-multiblock"
	FmtMBMember = "combined+zstd-multiblock"
)

// MultiBlockSet builds the n multi-block objects of one part, compressed the way old nodes
// did (128 KiB blocks).  Payload i: profile 0 or 2 (6..10 well compressible blocks, then an
// incompressible tail, i.e. the compressed blocks of about a megabyte of data all begin
// inside the first 20 KiB of the file) for i%4 != 3, else alternating segments (profile 3)
// or noise only (profile 1) of 2..6 blocks.  Every payload comes in two objects with
// distinct addresses: one to be stored as a zstd file, one as a compressed member of a
// combined file.  The shapes go to the evidence; a set without a streamed object that has
// many blocks beginning inside the buffered prefix of its compressed form is inconclusive.
func MultiBlockSet(r *verifkit.Run, stream string, cnr cid.ID, owner user.ID, n int) (files, members []*Obj) {
	before := r.Counter(MBManyKey)
	for i := 0; i < n; i++ {
		rng := r.Rand(stream+"-multiblock", i)
		var payload []byte
		var cuts []uint64
		if i%4 != 3 {
			payload, cuts = MultiBlockPayload(rng, (6+rng.IntN(5))*DefaultBlockLen+rng.IntN(DefaultBlockLen), []int{0, 2}[i%2], 0)
		} else {
			payload, cuts = MultiBlockPayload(rng, (2+rng.IntN(5))*DefaultBlockLen+rng.IntN(DefaultBlockLen), []int{3, 1}[i/4%2], 8<<10)
		}
		hk := rng.IntN(3)
		for j, f := range []string{FmtMBFile, FmtMBMember} {
			o, sh := NewMultiBlockObj(r.Rand(stream+"-multiblock-obj-"+f, i), cnr, owner, payload, cuts, hk)
			o.Format = f
			if j == 0 {
				files = append(files, o)
				sh.Note(r)
				if i < 2 {
					r.Sample(map[string]any{"multiblock_object": sh, "object_len": len(o.Bin), "payload_start": o.PStart, "segment_cuts": cuts})
				}
			} else {
				members = append(members, o)
			}
		}
	}
	if n > 0 && r.Counter(MBManyKey) == before {
		r.Inconclusive("multi-block objects of " + stream + ": none is streamed with many blocks beginning inside the buffered prefix of its compressed form")
	}
	return files, members
}

// PlantMultiBlock stores the objects of MultiBlockSet under root: files as they are,
// members in combined files of two compressed members each (the first member starts
// right behind the file's first prefix, the second one far behind the buffered part).
func PlantMultiBlock(root string, depth int, files, members []*Obj) error {
	for _, o := range files {
		if err := PlantFile(root, depth, o.Addr, o.Compressed()); err != nil {
			return err
		}
	}
	for i := 0; i < len(members); i += 2 {
		grp := members[i:min(i+2, len(members))]
		if err := PlantCombined(root, depth, grp, []bool{true, true}[:len(grp)]); err != nil {
			return err
		}
	}
	return nil
}

// MultiBlockReqs draws the one-at-a-time requests for a multi-block object: n requests
// whose ends are aimed at the block / segment / buffering boundaries and the payload
// ends, and a few with huge values.
func MultiBlockReqs(r *verifkit.Run, stream string, i int, o *Obj, n int) []Req {
	L := uint64(len(o.Payload))
	huge := Huge(L, r.Rand(stream+"-multiblock-huge", i))
	r.Rand(stream+"-multiblock-hugepick", i).Shuffle(len(huge), func(a, b int) { huge[a], huge[b] = huge[b], huge[a] })
	return append(Directed(L, Marks(o), r.Rand(stream+"-multiblock-directed", i), n), huge[:min(len(huge), 24)]...)
}
