//go:build verif

package vf11

// Overlapping and concurrent range reads.  The statement quantifies over every range
// request; it does not restrict when the bytes of an answer are consumed.  A node serves
// many range requests at once, so the answer of one request (the returned stream) must
// deliver its slice no matter which other range reads are issued, consumed, abandoned or
// closed while it is still being read.  The workloads here give range answers overlapping
// lifetimes (seeded logical schedules, no timing) and judge every answer with the same
// reference resolver as the one-at-a-time requests.

import (
	"errors"
	"fmt"
	"io"
	"math/rand/v2"
	"sync"

	"github.com/nspcc-dev/neofs-node/internal/verifkit"
)

// Call is one range read that can be issued at a chosen moment.  Open performs the real
// API call; for ReadObjectParts-like APIs asked for a full range it also returns a getter
// of the object prefix the API left in the caller's buffer (see PartsOpen).
type Call struct {
	Layer, API string
	O          *Obj
	Req        Req
	Open       func() (io.ReadCloser, func() []byte, error)
}

func (c Call) String() string {
	return fmt.Sprintf("%s.%s %s fmt=%s payload=%d", c.Layer, c.API, c.Req, c.O.Format, len(c.O.Payload))
}

// PartsOpen adapts the result of a ReadObjectParts-like call for Call.Open.
func PartsOpen(req Req, buf []byte, n int, stream io.ReadCloser, err error) (io.ReadCloser, func() []byte, error) {
	if err != nil || !IsFullObjectRange(req) {
		return stream, nil, err
	}
	if n < 0 || n > len(buf) {
		if stream != nil {
			_ = stream.Close()
		}
		return nil, nil, fmt.Errorf("n=%d with a buffer of %d bytes", n, len(buf))
	}
	return stream, func() []byte { return buf[:n] }, nil
}

// RandReq draws one request for o: ends aimed at the buffering marks and payload ends;
// four times out of five a request that defines a non-empty slice is insisted on.
func RandReq(rng *rand.Rand, o *Obj) Req {
	L := uint64(len(o.Payload))
	insist := rng.IntN(5) != 0
	var q Req
	for range 16 {
		q = Directed(L, Marks(o), rng, 1)[0]
		if !insist {
			break
		}
		if _, ln, w := Resolve(q, L); w == WantSlice && (ln > 0 || L == 0) {
			break
		}
	}
	return q
}

type pending struct {
	c         Call
	idx       int
	stream    io.ReadCloser
	prefix    func() []byte
	whole     bool
	data      []byte
	chunk     int
	abandonAt int // close the stream unread after that many read steps (-1: drain to EOF)
	reads     int
	later     int // calls issued between this call's open and the end of its consumption
	zero      int
}

// Overlapped issues the calls with overlapping lifetimes on one goroutine: a seeded
// schedule interleaves "issue the next call", "read one chunk (or the rest) of an open
// answer" and "close an answer early"; some answers stay open until the end of the batch.
// Every answer is judged when its consumption ends.
func Overlapped(r *verifkit.Run, rng *rand.Rand, calls []Call) {
	var trace []string
	last, rep := "", 0
	flush := func() {
		if rep > 1 {
			trace[len(trace)-1] = fmt.Sprintf("%sx%d", last, rep)
		}
	}
	ev := func(s string) {
		if s == last {
			rep++
			return
		}
		flush()
		trace = append(trace, s)
		last, rep = s, 1
	}
	snapshot := func() []string {
		flush()
		return append([]string(nil), trace...)
	}
	var lateClose []io.Closer
	finish := func(p *pending, a Answer) {
		a.Sched = "overlapped"
		a.Trace = map[string]any{"calls": callNames(calls), "schedule (o=open r=read c=close, by call index)": snapshot(), "judged_call": p.idx}
		a.WholeObj = p.whole
		Judge(r, p.c.Layer, p.c.API, p.c.O, p.c.Req, a)
		r.Eval(1)
		if a.Err == nil {
			r.Count("overlap_answers_with_data", 1)
			if p.later > 0 && len(a.Data) > 0 {
				r.Count("overlap_answers_read_after_later_calls", 1)
			}
			if a.Partial {
				r.Count("overlap_answers_abandoned", 1)
			}
		}
		r.Max("overlap_max_later_calls_during_one_answer", int64(p.later))
		r.Distinct(fmt.Sprintf("overlap|%s.%s|%s|%s|%s|later=%d|partial=%v", p.c.Layer, p.c.API, p.c.O.Format, LenClass(p.c.O), a.Class(), min(p.later, 3), a.Partial))
	}
	closeStream := func(p *pending) {
		ev(fmt.Sprintf("c%d", p.idx))
		_ = p.stream.Close()
	}

	// step advances the consumption of p; true when p is finished.
	step := func(p *pending) bool {
		if p.reads == 0 && p.prefix != nil && !p.whole {
			p.data = append([]byte(nil), p.prefix()...)
			p.whole = true
		}
		if p.abandonAt >= 0 && p.reads >= p.abandonAt {
			closeStream(p)
			finish(p, Answer{Data: p.data, Partial: true})
			return true
		}
		toEOF := rng.IntN(3) == 0
		buf := make([]byte, p.chunk)
		for {
			n, err := p.stream.Read(buf)
			p.data = append(p.data, buf[:n]...)
			p.reads++
			ev(fmt.Sprintf("r%d", p.idx))
			if err != nil {
				var a Answer
				if errors.Is(err, io.EOF) {
					a = Answer{Data: p.data}
					probe := make([]byte, 4096)
					for range 2 {
						if m, _ := p.stream.Read(probe); m > 0 {
							a.Resumed = true
							break
						}
					}
				} else {
					a = Answer{Err: fmt.Errorf("reading the returned stream: %w", err)}
				}
				if rng.IntN(3) == 0 {
					lateClose = append(lateClose, p.stream)
				} else {
					closeStream(p)
				}
				finish(p, a)
				return true
			}
			if n == 0 {
				if p.zero++; p.zero > 1000 {
					closeStream(p)
					finish(p, Answer{Err: errors.New("reading the returned stream: reader makes no progress (1000 empty reads without error)")})
					return true
				}
			} else {
				p.zero = 0
			}
			if len(p.data) > 16<<20 {
				closeStream(p)
				finish(p, Answer{Err: errors.New("reading the returned stream: reader yields more than 16 MiB")})
				return true
			}
			if p.chunk < 4096 && len(p.data) > 4096 {
				p.chunk = 65536
				buf = make([]byte, p.chunk)
			}
			if !toEOF {
				return false
			}
		}
	}

	sizes := []int{1, 2, 5, 64, 512, 4096, 20480, 32768, 1 << 20}
	var active []*pending
	next, maxOpen := 0, 0
	for next < len(calls) || len(active) > 0 {
		if next < len(calls) && (len(active) == 0 || rng.IntN(2) == 0) {
			p := &pending{c: calls[next], idx: next, abandonAt: -1}
			next++
			for _, q := range active {
				q.later++
			}
			ev(fmt.Sprintf("o%d", p.idx))
			var err error
			if r.Guard(map[string]any{"call": p.c.String(), "calls": callNames(calls)}, func() { p.stream, p.prefix, err = p.c.Open() }) {
				continue
			}
			r.Count("overlap_calls_issued", 1)
			if err == nil && p.stream == nil {
				err = errors.New("nil stream with nil error")
			}
			if err != nil {
				if p.stream != nil {
					_ = p.stream.Close()
				}
				finish(p, Answer{Err: err})
				continue
			}
			p.chunk = sizes[rng.IntN(len(sizes))]
			if rng.IntN(6) == 0 {
				p.abandonAt = rng.IntN(3)
			}
			active = append(active, p)
			maxOpen = max(maxOpen, len(active))
			continue
		}
		i := rng.IntN(len(active))
		p := active[i]
		done := false
		if r.Guard(map[string]any{"call": p.c.String(), "calls": callNames(calls), "schedule": snapshot()}, func() { done = step(p) }) {
			done = true
		}
		if done {
			active = append(active[:i], active[i+1:]...)
		}
	}
	for _, c := range lateClose {
		_ = c.Close()
	}
	r.Count("overlap_batches", 1)
	r.Max("overlap_max_simultaneously_open_answers", int64(maxOpen))
}

func callNames(calls []Call) []string {
	out := make([]string, len(calls))
	for i, c := range calls {
		out[i] = fmt.Sprintf("%d: %s addr=%s", i, c, c.O.Addr)
	}
	return out
}

// Concurrent issues the calls from several goroutines released together (call i belongs
// to worker i mod workers; every worker opens, drains and closes its answers one after
// another).  The answers are judged after all workers are done: whatever the schedule
// was, every answer has to be the reference one.
func Concurrent(r *verifkit.Run, rng *rand.Rand, calls []Call, workers int) {
	answers := make([]Answer, len(calls))
	got := make([]bool, len(calls))
	start := make(chan struct{})
	var wg sync.WaitGroup
	for w := 0; w < workers; w++ {
		wrng := rand.New(rand.NewPCG(rng.Uint64(), rng.Uint64()))
		wg.Add(1)
		go func() {
			defer wg.Done()
			<-start
			for i := w; i < len(calls); i += workers {
				c := calls[i]
				r.Guard(map[string]any{"call": c.String(), "concurrent_with": callNames(calls)}, func() {
					stream, prefix, err := c.Open()
					var pre []byte
					if err == nil && prefix != nil {
						pre = append([]byte(nil), prefix()...)
					}
					a := StreamAnswer(wrng, stream, err)
					if a.Err == nil && prefix != nil {
						a.Data = append(pre, a.Data...)
						a.WholeObj = true
					}
					answers[i], got[i] = a, true
				})
			}
		}()
	}
	close(start)
	wg.Wait()
	for i, c := range calls {
		if !got[i] {
			continue
		}
		a := answers[i]
		a.Sched = "concurrent"
		a.Trace = map[string]any{"calls": callNames(calls), "workers": workers, "judged_call": i}
		Judge(r, c.Layer, c.API, c.O, c.Req, a)
		r.Eval(1)
		r.Count("concurrent_calls", 1)
		r.Distinct(fmt.Sprintf("concurrent|%s.%s|%s|%s|%s", c.Layer, c.API, c.O.Format, LenClass(c.O), a.Class()))
	}
	r.Count("concurrent_rounds", 1)
}

// OverlapPhase runs nBatches overlapped batches of 2..8 calls and nConc concurrent rounds
// (4 workers, 24 calls) with calls drawn by gen (half of the batches restricted to one
// API, half to one storage format, a quarter to both).  A phase in which no answer with data was
// consumed after a later call was issued has not exercised anything: inconclusive.
func OverlapPhase(r *verifkit.Run, stream string, base, nBatches, nConc int, gen func(rng *rand.Rand) Call) {
	before := r.Counter("overlap_answers_read_after_later_calls")
	for b := 0; b < nBatches; b++ {
		rng := r.Rand(stream+"-overlap", base+b)
		calls := make([]Call, 2+rng.IntN(7))
		// three of four batches are focused: all calls go through the API of the first one
		// (b%4 = 1, 3) and/or to objects stored in the same format (b%4 = 2, 3): answers
		// that share a code path are the ones most likely to share state
		focusAPI, focusFmt := b%2 == 1, b%4 >= 2
		for i := range calls {
			calls[i] = gen(rng)
			for try := 0; i > 0 && try < 60; try++ {
				if (!focusAPI || calls[i].API == calls[0].API) && (!focusFmt || calls[i].O.Format == calls[0].O.Format) {
					break
				}
				calls[i] = gen(rng)
			}
		}
		if focusAPI {
			r.Count("overlap_batches_on_one_api", 1)
		}
		if focusFmt {
			r.Count("overlap_batches_on_one_format", 1)
		}
		Overlapped(r, rng, calls)
	}
	for b := 0; b < nConc; b++ {
		rng := r.Rand(stream+"-concurrent", base+b)
		calls := make([]Call, 24)
		for i := range calls {
			calls[i] = gen(rng)
		}
		Concurrent(r, rng, calls, 4)
	}
	if nBatches >= 4 && r.Counter("overlap_answers_read_after_later_calls") == before {
		r.Inconclusive("overlap phase " + stream + ": no answer with data was consumed after a later range call was issued")
	}
}
