//go:build verif

// Package vf41 holds what the two parts of the C41 monitor (internal/object wire
// functions, fstree header paths) share: the seeded generator of valid objects, the byte
// and structure level mutators, and the child-process protocol that keeps the killing
// input on disk when the race/checkptr runtime aborts the process.  It exists only in the
// build overlay of property C41.
package vf41

import (
	"bytes"
	"crypto/sha256"
	"encoding/binary"
	"encoding/hex"
	"encoding/json"
	"fmt"
	"math/rand/v2"
	"os"
	"path/filepath"
	"runtime/debug"
	"sort"
	"strings"
	"testing"
	"time"

	"github.com/nspcc-dev/neofs-node/internal/verifkit"
	"github.com/nspcc-dev/neofs-sdk-go/checksum"
	neofscrypto "github.com/nspcc-dev/neofs-sdk-go/crypto"
	"github.com/nspcc-dev/neofs-sdk-go/object"
	sessionv2 "github.com/nspcc-dev/neofs-sdk-go/session/v2"
	"github.com/nspcc-dev/neofs-sdk-go/version"
	"google.golang.org/protobuf/encoding/protowire"
)

// ---------------------------------------------------------------------------------
// valid objects

func randStr(rng *rand.Rand, n int) string {
	const abc = "abcdefghijklmnopqrstuvwxyzABCDEFGHIJKLMNOPQRSTUVWXYZ0123456789-_ ."
	b := make([]byte, n)
	for i := range b {
		b[i] = abc[rng.IntN(len(abc))]
	}
	return string(b)
}

func genSig(rng *rand.Rand) *neofscrypto.Signature {
	var s neofscrypto.Signature
	switch rng.IntN(4) {
	case 0:
		s = neofscrypto.NewN3Signature(verifkit.RandBytes(rng, rng.IntN(80)), verifkit.RandBytes(rng, rng.IntN(60)))
	case 1:
		s = neofscrypto.NewSignatureFromRawKey(neofscrypto.Scheme(rng.IntN(5)), verifkit.RandBytes(rng, 33), verifkit.RandBytes(rng, 64))
	case 2:
		s = neofscrypto.NewSignatureFromRawKey(neofscrypto.ECDSA_SHA512, nil, verifkit.RandBytes(rng, rng.IntN(10)))
	default:
		s = neofscrypto.NewSignatureFromRawKey(neofscrypto.ECDSA_DETERMINISTIC_SHA256, verifkit.RandBytes(rng, 33), verifkit.RandBytes(rng, 64))
	}
	return &s
}

// fillHeader sets a random subset of the header fields of o (no split fields).
func fillHeader(rng *rand.Rand, o *object.Object, payloadLen int, big bool) {
	p := func(pct int) bool { return rng.IntN(100) < pct }
	if p(85) {
		v := version.New(uint32(rng.IntN(4)), uint32(rng.IntN(30)))
		o.SetVersion(&v)
	}
	if p(85) {
		o.SetContainerID(verifkit.RandCID(rng))
	}
	if p(85) {
		o.SetOwner(verifkit.RandUser(rng))
	}
	if p(70) {
		o.SetCreationEpoch(rng.Uint64() >> uint(rng.IntN(64)))
	}
	switch rng.IntN(10) {
	case 0: // absent
	case 1:
		o.SetPayloadSize(rng.Uint64() >> uint(rng.IntN(64)))
	default:
		o.SetPayloadSize(uint64(payloadLen))
	}
	if p(70) {
		var h [sha256.Size]byte
		copy(h[:], verifkit.RandBytes(rng, len(h)))
		o.SetPayloadChecksum(checksum.NewSHA256(h))
	}
	if p(25) {
		o.SetPayloadHomomorphicHash(checksum.New(checksum.TillichZemor, verifkit.RandBytes(rng, 64))) //nolint:staticcheck
	}
	if p(60) {
		o.SetType(object.Type(rng.IntN(6)))
	}
	if p(60) {
		n := 1 + rng.IntN(4)
		attrs := make([]object.Attribute, 0, n)
		for i := 0; i < n; i++ {
			attrs = append(attrs, object.NewAttribute(fmt.Sprintf("k%d-%s", i, randStr(rng, rng.IntN(12))), randStr(rng, 1+rng.IntN(40))))
		}
		if big {
			attrs = append(attrs, object.NewAttribute("big", randStr(rng, 14000+rng.IntN(2000))))
		}
		o.SetAttributes(attrs...)
	}
	if p(20) {
		// the only header field that is encoded BEHIND the split field: with it the split
		// header is not the tail of the header
		if tok := genTokenV2(rng); tok != nil {
			o.SetSessionTokenV2(tok)
		}
	}
}

// genTokenV2 builds a (structurally complete, not cryptographically valid) session token
// v2 from the seeded stream; nil if the SDK refuses the parts.
func genTokenV2(rng *rand.Rand) *sessionv2.Token {
	var tok sessionv2.Token
	tok.SetVersion(sessionv2.TokenCurrentVersion)
	tok.SetIssuer(verifkit.RandUser(rng))
	for n := 1 + rng.IntN(2); n > 0; n-- {
		if err := tok.AddSubject(sessionv2.NewTargetUser(verifkit.RandUser(rng))); err != nil {
			return nil
		}
	}
	base := time.Unix(1_600_000_000+int64(rng.IntN(1<<28)), 0)
	tok.SetIat(base)
	tok.SetNbf(base)
	tok.SetExp(base.Add(time.Duration(1+rng.IntN(100000)) * time.Second))
	ctx, err := sessionv2.NewContext(verifkit.RandCID(rng), []sessionv2.Verb{sessionv2.VerbObjectPut, sessionv2.VerbObjectGet}[:1+rng.IntN(2)])
	if err != nil {
		return nil
	}
	if err := tok.AddContext(ctx); err != nil {
		return nil
	}
	tok.AttachSignature(*genSig(rng))
	return &tok
}

// Object generates a valid object: any of ID, signature, header and payload may be
// absent; the header may carry split fields incl. a parent (ID, signature, header).
// About one object in 25 has a near-maximal header.
func Object(rng *rand.Rand) *object.Object {
	p := func(pct int) bool { return rng.IntN(100) < pct }
	o := new(object.Object)
	payloadLen := 0
	if p(60) {
		payloadLen = 1 + rng.IntN(300)
		if p(5) {
			payloadLen = 1 + rng.IntN(40000)
		}
	}
	big := p(4)
	if p(90) {
		o.SetID(verifkit.RandOID(rng))
	}
	if p(60) {
		o.SetSignature(genSig(rng))
	}
	if p(90) {
		fillHeader(rng, o, payloadLen, big)
		if p(45) { // split fields
			if p(60) {
				par := new(object.Object)
				if p(85) {
					fillHeader(rng, par, rng.IntN(1<<20), false)
				}
				if p(80) {
					par.SetID(verifkit.RandOID(rng))
				}
				if p(70) {
					par.SetSignature(genSig(rng))
				}
				o.SetParent(par)
			} else if p(50) {
				o.SetParentID(verifkit.RandOID(rng))
			}
			if p(50) {
				o.SetPreviousID(verifkit.RandOID(rng))
			}
			if p(30) {
				list := o.Children()
				for n := 1 + rng.IntN(4); n > 0; n-- {
					list = append(list, verifkit.RandOID(rng))
				}
				o.SetChildren(list...)
			}
			if p(30) {
				o.SetSplitID(object.NewSplitIDFromV2(verifkit.RandBytes(rng, 16)))
			}
			if p(40) {
				o.SetFirstID(verifkit.RandOID(rng))
			}
		}
	}
	if payloadLen > 0 {
		o.SetPayload(verifkit.RandBytes(rng, payloadLen))
	}
	return o
}

// MaxHeaderObject returns a valid object with ID, signature and payload whose header is
// as long as object.MaxHeaderLen allows (exactly the limit or a few bytes below it).
func MaxHeaderObject(rng *rand.Rand, maxPayload int) *object.Object {
	o := new(object.Object)
	o.SetID(verifkit.RandOID(rng))
	o.SetSignature(genSig(rng))
	payloadLen := 1 + rng.IntN(maxPayload)
	fillHeader(rng, o, payloadLen, false)
	o.SetPayloadSize(uint64(payloadLen))
	o.SetPayload(verifkit.RandBytes(rng, payloadLen))
	attrs := o.Attributes()
	base := append(attrs[:len(attrs):len(attrs)], object.NewAttribute("pad", ""))
	o.SetAttributes(base...)
	pad := object.MaxHeaderLen - o.HeaderLen() - rng.IntN(3)
	for ; pad > 0; pad-- {
		base[len(base)-1] = object.NewAttribute("pad", randStr(rng, pad))
		o.SetAttributes(base...)
		if o.HeaderLen() <= object.MaxHeaderLen {
			break
		}
	}
	return o
}

// ---------------------------------------------------------------------------------
// mutation

type field struct{ from, valFrom, to int } // one top-level wire field of a message

func splitFields(b []byte) []field {
	var out []field
	off := 0
	for off < len(b) {
		_, typ, n := protowire.ConsumeTag(b[off:])
		if n < 0 {
			break
		}
		m := protowire.ConsumeFieldValue(0, typ, b[off+n:])
		if m < 0 {
			break
		}
		vf := off + n
		if typ == protowire.BytesType {
			_, k := protowire.ConsumeVarint(b[off+n:])
			vf = off + n + k
		}
		out = append(out, field{off, vf, off + n + m})
		off += n + m
	}
	return out
}

// pickMessage descends (randomly) into nested LEN fields and returns the chain of
// enclosing fields (absolute offsets, outermost first) of the (sub)message on which a
// structural mutation is applied; an empty chain means the top-level message.
func pickMessage(rng *rand.Rand, b []byte) []field {
	var chain []field
	from, to := 0, len(b)
	for depth := 0; depth < 3 && rng.IntN(2) == 0; depth++ {
		var cands []field
		for _, f := range splitFields(b[from:to]) {
			if f.valFrom != f.from && f.to-f.valFrom > 1 && len(splitFields(b[from+f.valFrom:from+f.to])) > 0 {
				cands = append(cands, field{from + f.from, from + f.valFrom, from + f.to})
			}
		}
		if len(cands) == 0 {
			break
		}
		f := cands[rng.IntN(len(cands))]
		chain = append(chain, f)
		from, to = f.valFrom, f.to
	}
	return chain
}

// rebuild puts inner in place of the message selected by chain; with fix the length
// prefixes of all enclosing fields are re-encoded (the result is well-formed protobuf),
// otherwise they are left stale.
func rebuild(b []byte, chain []field, inner []byte, fix bool) []byte {
	if len(chain) == 0 {
		return inner
	}
	if !fix {
		f := chain[len(chain)-1]
		return append(append(append([]byte(nil), b[:f.valFrom]...), inner...), b[f.to:]...)
	}
	cur := inner
	for i := len(chain) - 1; i >= 0; i-- {
		f := chain[i]
		_, _, n := protowire.ConsumeTag(b[f.from:])
		enc := append([]byte(nil), b[f.from:f.from+n]...)
		enc = protowire.AppendVarint(enc, uint64(len(cur)))
		enc = append(enc, cur...)
		pf, pt := 0, len(b)
		if i > 0 {
			pf, pt = chain[i-1].valFrom, chain[i-1].to
		}
		cur = append(append(append([]byte(nil), b[pf:f.from]...), enc...), b[f.to:pt]...)
	}
	return cur
}

var interesting = []uint64{0, 1, 2, 127, 128, 255, 16383, 16384, 20479, 20480, 1<<31 - 1, 1 << 31, 1<<32 - 1, 1 << 32, 1<<63 - 1, 1 << 63, 1<<64 - 1}

// structural applies one structure-aware step to the message m (a copy) and names it.
func structural(rng *rand.Rand, m []byte) ([]byte, string) {
	fs := splitFields(m)
	if len(fs) == 0 {
		return nil, ""
	}
	f := fs[rng.IntN(len(fs))]
	cp := func(b []byte) []byte { return append([]byte(nil), b...) }
	switch rng.IntN(8) {
	case 0: // duplicate a field right after itself
		return append(append(cp(m[:f.to]), m[f.from:f.to]...), m[f.to:]...), "dup-field-adjacent"
	case 1: // duplicate a field at the end of the message
		return append(cp(m), m[f.from:f.to]...), "dup-field-at-end"
	case 2: // swap two neighbouring fields
		if len(fs) < 2 {
			return nil, ""
		}
		i := rng.IntN(len(fs) - 1)
		a, c := fs[i], fs[i+1]
		out := cp(m[:a.from])
		out = append(out, m[c.from:c.to]...)
		out = append(out, m[a.from:a.to]...)
		return append(out, m[c.to:]...), "swap-fields"
	case 3: // rewrite the varint that follows the tag (length or value)
		_, _, n := protowire.ConsumeTag(m[f.from:])
		vs := f.from + n
		old, k := protowire.ConsumeVarint(m[vs:])
		if k <= 0 {
			return nil, ""
		}
		v := interesting[rng.IntN(len(interesting))]
		if rng.IntN(3) == 0 {
			v = old + uint64(rng.IntN(5)) - 2
		}
		return append(protowire.AppendVarint(cp(m[:vs]), v), m[vs+k:]...), "varint-rewrite"
	case 4: // change wire type or field number
		num, typ, n := protowire.ConsumeTag(m[f.from:])
		if rng.IntN(2) == 0 {
			typ = protowire.Type(rng.IntN(8))
		} else {
			num = protowire.Number([]int64{0, 1, 2, 3, 4, 5, 15, 16, 1<<29 - 1, 1 << 29}[rng.IntN(10)])
		}
		return append(protowire.AppendVarint(cp(m[:f.from]), uint64(num)<<3|uint64(typ&7)), m[f.from+n:]...), "tag-rewrite"
	case 5: // overlong (non-minimal) or overflowing varint in place of the tag or the one after it
		pos := f.from
		if rng.IntN(2) == 0 {
			_, _, n := protowire.ConsumeTag(m[f.from:])
			pos = f.from + n
		}
		v, k := protowire.ConsumeVarint(m[pos:])
		if k <= 0 {
			return nil, ""
		}
		var nv []byte
		if rng.IntN(2) == 0 {
			nv = protowire.AppendVarint(nil, v)
			nv[len(nv)-1] |= 0x80
			for i := rng.IntN(9); i > 0; i-- {
				nv = append(nv, 0x80)
			}
			nv = append(nv, 0)
		} else {
			nv = append(bytes.Repeat([]byte{0xff}, 9+rng.IntN(3)), byte(rng.IntN(4)))
		}
		return append(append(cp(m[:pos]), nv...), m[pos+k:]...), "overlong-varint"
	case 6: // extra (unknown or known) field at a random field boundary
		extra := protowire.AppendTag(nil, protowire.Number(1+rng.IntN(20)), protowire.Type([]int{0, 1, 2, 5}[rng.IntN(4)]))
		switch extra[len(extra)-1] & 7 {
		case 0:
			extra = protowire.AppendVarint(extra, rng.Uint64()>>uint(rng.IntN(64)))
		case 1:
			extra = append(extra, verifkit.RandBytes(rng, 8)...)
		case 5:
			extra = append(extra, verifkit.RandBytes(rng, 4)...)
		default:
			extra = protowire.AppendBytes(extra, verifkit.RandBytes(rng, rng.IntN(9)))
		}
		at := []int{0, f.from, f.to, len(m)}[rng.IntN(4)]
		return append(append(cp(m[:at]), extra...), m[at:]...), "extra-field"
	default: // empty a LEN value
		if f.valFrom == f.from {
			return nil, ""
		}
		_, _, n := protowire.ConsumeTag(m[f.from:])
		return append(append(cp(m[:f.from+n]), 0), m[f.to:]...), "empty-value"
	}
}

// LenField is one length-delimited field of an encoding, at any nesting depth.
type LenField struct {
	From, LenAt, ValFrom, To int // absolute offsets: tag, length varint, value, end
	Depth                    int    // 0 = field of the top-level message
	Path                     string // field numbers from the top, e.g. "3.11.4"
	Ends                     []int  // ends of the enclosing messages, innermost first; the last one is len(b)
}

// LenFields lists the LEN fields of b down to maxDepth: a LEN value is descended into when
// it is non-empty and parses completely as a sequence of fields (a string that happens to
// do so is harmless, it only yields more places to damage).
func LenFields(b []byte, maxDepth int) []LenField {
	var out []LenField
	var walk func(from, to, depth int, path string, ends []int)
	walk = func(from, to, depth int, path string, ends []int) {
		off := from
		for off < to {
			num, typ, n := protowire.ConsumeTag(b[off:to])
			if n < 0 {
				return
			}
			m := protowire.ConsumeFieldValue(num, typ, b[off+n:to])
			if m < 0 {
				return
			}
			if typ == protowire.BytesType {
				_, k := protowire.ConsumeVarint(b[off+n : to])
				f := LenField{From: off, LenAt: off + n, ValFrom: off + n + k, To: off + n + m, Depth: depth, Ends: ends}
				f.Path = strings.TrimPrefix(fmt.Sprintf("%s.%d", path, num), ".")
				out = append(out, f)
				if depth < maxDepth && f.To > f.ValFrom && parsesAsMessage(b[f.ValFrom:f.To]) {
					walk(f.ValFrom, f.To, depth+1, f.Path, append([]int{f.To}, ends...))
				}
			}
			off += n + m
		}
	}
	walk(0, len(b), 0, "", []int{len(b)})
	return out
}

func parsesAsMessage(v []byte) bool {
	off := 0
	for off < len(v) {
		num, typ, n := protowire.ConsumeTag(v[off:])
		if n < 0 {
			return false
		}
		m := protowire.ConsumeFieldValue(num, typ, v[off+n:])
		if m < 0 {
			return false
		}
		off += n + m
	}
	return true
}

// Retarget is one way of rewriting the declared length of a LEN field.
type Retarget struct {
	Len  uint64
	Name string // which boundary the new end of the field is aimed at
}

// Retargets lists the boundary-aimed lengths for f: every other length prefix of b stays
// as it is (outer framing intact, enclosing lengths stale), and the field is made to end
// at / one byte before / one byte behind the end of each enclosing message and of the
// buffer, half-way between two enclosing ends, one byte off its true end, at its own
// start, and far behind the buffer.  Offsets take the changed size of the length varint
// into account.  Lengths equal to the present one are left out.
func Retargets(b []byte, f LenField) []Retarget {
	var out []Retarget
	seen := map[uint64]bool{uint64(f.To - f.ValFrom): true}
	oldVar := f.ValFrom - f.LenAt
	add := func(end int, shifts bool, name string) {
		// the value starts at ValFrom+d when the varint grows by d; the ends of the enclosing
		// messages do not move (their lengths are stale), the end of the buffer does
		l := end - f.ValFrom
		if !shifts {
			for range 3 {
				if l < 0 {
					return
				}
				d := protowire.SizeVarint(uint64(l)) - oldVar
				if nl := end - f.ValFrom - d; nl == l {
					break
				} else {
					l = nl
				}
			}
		}
		if l < 0 || seen[uint64(l)] {
			return
		}
		seen[uint64(l)] = true
		out = append(out, Retarget{uint64(l), name})
	}
	add(f.ValFrom, true, "empty")
	add(f.To-1, true, "own-end-1")
	add(f.To+1, true, "own-end+1")
	for i, e := range f.Ends {
		buf := i == len(f.Ends)-1
		lvl := fmt.Sprintf("enclosing%d", i)
		if buf {
			lvl = "buffer"
		}
		add(e-1, buf, lvl+"-end-1")
		add(e, buf, lvl+"-end")
		add(e+1, buf, lvl+"-end+1")
		if !buf && f.Ends[i+1]-e > 3 {
			add(e+(f.Ends[i+1]-e)/2, false, lvl+"-end..next-end")
		}
	}
	add(len(b)+100, true, "buffer-end+100")
	add(1<<31, true, "huge")
	return out
}

// ApplyRetarget returns a copy of b in which the length of f is rewritten.
func ApplyRetarget(b []byte, f LenField, t Retarget) []byte {
	out := append([]byte(nil), b[:f.LenAt]...)
	out = protowire.AppendVarint(out, t.Len)
	return append(out, b[f.ValFrom:]...)
}

// Mutate applies 1..3 seeded mutation steps to x (x is not modified): byte-level noise,
// structure-aware steps on a randomly chosen (nested) message, with the enclosing
// lengths usually re-encoded so that the damage stays where it was put, or the length of
// one nested LEN field re-aimed at a boundary of an enclosing message / the buffer.
func Mutate(rng *rand.Rand, x []byte) ([]byte, []string) {
	b := append([]byte(nil), x...)
	var ops []string
	steps := 1 + rng.IntN(3)
	for s := 0; s < steps; s++ {
		op := rng.IntN(14)
		if len(b) == 0 {
			op = 3
		}
		switch op {
		case 0:
			i := rng.IntN(len(b))
			b[i] ^= 1 << uint(rng.IntN(8))
			ops = append(ops, "bitflip")
		case 1:
			b[rng.IntN(len(b))] = byte(rng.Uint32())
			ops = append(ops, "byte")
		case 2:
			i := rng.IntN(len(b))
			n := 1 + rng.IntN(min(8, len(b)-i))
			b = append(b[:i], b[i+n:]...)
			ops = append(ops, "delete")
		case 3:
			i := rng.IntN(len(b) + 1)
			ins := verifkit.RandBytes(rng, 1+rng.IntN(6))
			b = append(b[:i], append(ins, b[i:]...)...)
			ops = append(ops, "insert")
		case 4:
			b = b[:rng.IntN(len(b)+1)]
			ops = append(ops, "truncate")
		case 5:
			i, j := rng.IntN(len(b)), rng.IntN(len(b))
			n := 1 + rng.IntN(min(16, len(b)-i, len(b)-j))
			copy(b[j:j+n], append([]byte(nil), b[i:i+n]...))
			ops = append(ops, "splice")
		case 6, 7:
			// the declared length of one (nested) LEN field aimed at a boundary of an enclosing
			// message or of the buffer, everything else untouched
			fs := LenFields(b, 4)
			if len(fs) == 0 {
				continue
			}
			f := fs[rng.IntN(len(fs))]
			if rng.IntN(2) == 0 { // half of the time prefer the deepest fields
				for range 3 {
					if g := fs[rng.IntN(len(fs))]; g.Depth > f.Depth {
						f = g
					}
				}
			}
			ts := Retargets(b, f)
			if len(ts) == 0 {
				continue
			}
			tg := ts[rng.IntN(len(ts))]
			b = ApplyRetarget(b, f, tg)
			ops = append(ops, fmt.Sprintf("len-retarget@depth%d", f.Depth))
		default:
			chain := pickMessage(rng, b)
			from, to := 0, len(b)
			if len(chain) > 0 {
				from, to = chain[len(chain)-1].valFrom, chain[len(chain)-1].to
			}
			inner, name := structural(rng, b[from:to])
			if name == "" {
				continue
			}
			fix := rng.IntN(5) != 0
			b = rebuild(b, chain, inner, fix)
			ops = append(ops, fmt.Sprintf("%s@depth%d,fix=%v", name, len(chain), fix))
		}
	}
	return b, ops
}

// RandomBytes returns a random string, half of the time biased towards tag/length bytes.
func RandomBytes(rng *rand.Rand) []byte {
	n := rng.IntN(120)
	if rng.IntN(10) == 0 {
		n = rng.IntN(3000)
	}
	b := verifkit.RandBytes(rng, n)
	if rng.IntN(2) == 0 {
		al := []byte{0x0a, 0x12, 0x1a, 0x22, 0x2a, 0x5a, 0x08, 0x10, 0x18, 0x20, 0x28, 0x00, 0x01, 0x02, 0x20, 0x7f, 0x80, 0xff}
		for i := range b {
			if rng.IntN(3) != 0 {
				b[i] = al[rng.IntN(len(al))]
			}
		}
	}
	return b
}

// ---------------------------------------------------------------------------------
// child protocol

// Spec is what a child is told.
type Spec struct {
	Batch int    `json:"batch"`
	N     int    `json:"n"`
	Cur   string `json:"cur"` // file holding the input being executed
	Out   string `json:"out"` // result file, written when the batch is complete
}

// Vio is a violation found by a child.
type Vio struct {
	Key   string `json:"key"`
	What  string `json:"what"`
	Input string `json:"input_hex"`
	Kind  string `json:"kind"`
	Stack string `json:"stack,omitempty"`
}

// Collector is the child's bookkeeping; it is shipped to the parent as JSON.
type Collector struct {
	Done       bool                `json:"done"`
	Evals      int64               `json:"evals"`
	Counters   map[string]int64    `json:"counters"`
	Sets       map[string][]string `json:"sets"`
	Distinct   []string            `json:"distinct"`
	Violations []Vio               `json:"violations"`
	Samples    []any               `json:"samples"`

	sets     map[string]map[string]struct{}
	distinct map[string]struct{}
	vioSeen  map[string]int
	cur      *os.File
}

func NewCollector(curPath string) (*Collector, error) {
	f, err := os.OpenFile(curPath, os.O_CREATE|os.O_RDWR, 0o644)
	if err != nil {
		return nil, err
	}
	return &Collector{Counters: map[string]int64{}, sets: map[string]map[string]struct{}{}, distinct: map[string]struct{}{}, vioSeen: map[string]int{}, cur: f}, nil
}

// Begin records the input on disk before it is executed.
func (c *Collector) Begin(kind string, input []byte) {
	hdr := make([]byte, 8, 8+len(kind)+len(input))
	binary.LittleEndian.PutUint32(hdr, uint32(len(kind)))
	binary.LittleEndian.PutUint32(hdr[4:], uint32(len(input)))
	_, _ = c.cur.WriteAt(append(append(hdr, kind...), input...), 0)
	c.Evals++
}

// ReadCur decodes the file written by Begin.
func ReadCur(path string) (kind string, input []byte, ok bool) {
	b, err := os.ReadFile(path)
	if err != nil || len(b) < 8 {
		return "", nil, false
	}
	kl, il := int(binary.LittleEndian.Uint32(b)), int(binary.LittleEndian.Uint32(b[4:]))
	if kl < 0 || il < 0 || 8+kl+il > len(b) {
		return "", nil, false
	}
	return string(b[8 : 8+kl]), b[8+kl : 8+kl+il], true
}

func (c *Collector) Count(k string, n int) { c.Counters[k] += int64(n) }
func (c *Collector) Seen(set, m string) {
	if c.sets[set] == nil {
		c.sets[set] = map[string]struct{}{}
	}
	c.sets[set][m] = struct{}{}
}
func (c *Collector) DistinctSig(s string) { c.distinct[s] = struct{}{} }
func (c *Collector) Sample(v any) {
	if len(c.Samples) < 3 {
		c.Samples = append(c.Samples, v)
	}
}

func (c *Collector) Violation(key, what, kind string, input []byte, stack string) {
	c.vioSeen[key]++
	if c.vioSeen[key] > 3 {
		c.Count("violations_not_listed_individually", 1)
		return
	}
	in := input
	if len(in) > 70000 {
		in = in[:70000]
	}
	c.Violations = append(c.Violations, Vio{Key: key, What: what, Input: hex.EncodeToString(in), Kind: kind, Stack: stack})
}

// Guard runs f and converts a panic below it into a violation whose key names the
// function under test and the panicking frame.
func (c *Collector) Guard(fn, kind string, input []byte, f func()) {
	defer func() {
		if p := recover(); p != nil {
			st := string(debug.Stack())
			fr := panicFrame(st)
			if strings.Contains(fr, "zz_verif") || strings.Contains(fr, "vf41") || strings.Contains(fr, "verifkit") {
				c.Violation("HARNESS-PANIC|"+fr, fmt.Sprint(p), kind, input, st)
				return
			}
			c.Count("panics", 1)
			keyFn, _, _ := strings.Cut(fn, "/") // "site/API": only the site names the class
			c.Violation(fmt.Sprintf("C41|%s|panic|%s", keyFn, fr), fmt.Sprintf("%s panicked on %s input of %d bytes: %v", fn, kind, len(input), p), kind, input, st)
		}
	}()
	f()
}

func panicFrame(st string) string {
	lines := strings.Split(st, "\n")
	seen := false
	for i, l := range lines {
		if strings.HasPrefix(l, "panic(") {
			seen = true
			continue
		}
		if !seen || strings.HasPrefix(l, "\t") || strings.HasPrefix(l, "goroutine ") || l == "" || strings.HasPrefix(l, "runtime.") || strings.HasPrefix(l, "runtime/") {
			continue
		}
		fn := l
		if j := strings.LastIndex(fn, "("); j > 0 {
			fn = fn[:j]
		}
		file := ""
		if i+1 < len(lines) {
			file = strings.TrimSpace(lines[i+1])
			if j := strings.Index(file, " "); j > 0 {
				file = file[:j]
			}
			if j := strings.LastIndex(file, ":"); j > 0 {
				file = file[:j]
			}
			file = filepath.Base(file)
		}
		if j := strings.LastIndex(fn, "/"); j >= 0 {
			fn = fn[j+1:]
		}
		return fn + "@" + file
	}
	return "unknown"
}

// Save writes the result file (atomically).
func (c *Collector) Save(path string) error {
	c.Done = true
	c.Sets = map[string][]string{}
	for k, m := range c.sets {
		for v := range m {
			c.Sets[k] = append(c.Sets[k], v)
		}
		sort.Strings(c.Sets[k])
	}
	for s := range c.distinct {
		c.Distinct = append(c.Distinct, s)
	}
	b, err := json.Marshal(c)
	if err != nil {
		return err
	}
	if err := os.WriteFile(path+".tmp", b, 0o644); err != nil {
		return err
	}
	return os.Rename(path+".tmp", path)
}

// RunBatches is the parent side: one child process per batch.  A child that dies (fatal
// runtime error such as a checkptr failure, unrecovered panic, kill) yields a violation
// that carries the input the child was executing.
func RunBatches(t *testing.T, r *verifkit.Run, testName, fnLabel string, nBatches, perBatch int, timeout time.Duration) {
	dir := t.TempDir()
	for b := 0; b < nBatches; b++ {
		spec := Spec{Batch: b, N: perBatch, Cur: filepath.Join(dir, fmt.Sprintf("cur-%d.bin", b)), Out: filepath.Join(dir, fmt.Sprintf("out-%d.json", b))}
		sb, _ := json.Marshal(spec)
		res := verifkit.SpawnChild(testName, string(sb), nil, timeout)
		r.Count("child_processes", 1)
		var c Collector
		raw, err := os.ReadFile(spec.Out)
		if err == nil {
			err = json.Unmarshal(raw, &c)
		}
		if err != nil || !c.Done {
			kind, input, ok := ReadCur(spec.Cur)
			tail := res.Output
			if len(tail) > 6000 {
				tail = tail[len(tail)-6000:]
			}
			if res.TimedOut {
				r.Inconclusive(fmt.Sprintf("child of batch %d hit the watchdog (%v)", b, timeout))
				continue
			}
			why := "exit-" + fmt.Sprint(res.ExitCode)
			for _, l := range strings.Split(res.Output, "\n") {
				if strings.HasPrefix(l, "fatal error: ") || strings.HasPrefix(l, "panic: ") {
					why = strings.TrimSpace(l)
					if len(why) > 80 {
						why = why[:80]
					}
					break
				}
			}
			if res.Signaled {
				why = "signal-" + res.Signal.String()
			}
			if !ok {
				r.Inconclusive(fmt.Sprintf("child of batch %d ended (%s) before it executed any input: %s", b, why, tail))
				continue
			}
			r.Violation(fmt.Sprintf("C41|%s|process-fatal|%s", fnLabel, why),
				fmt.Sprintf("child process of batch %d was aborted (%s) while executing a %s input of %d bytes", b, why, kind, len(input)),
				map[string]any{"batch": b, "kind": kind, "input_hex": hex.EncodeToString(input), "output_tail": tail})
			continue
		}
		r.Eval(int(c.Evals))
		for k, v := range c.Counters {
			r.Count(k, int(v))
		}
		for set, ms := range c.Sets {
			for _, m := range ms {
				r.Seen(set, m)
			}
		}
		for _, s := range c.Distinct {
			r.Distinct(s)
		}
		for _, s := range c.Samples {
			r.Sample(s)
		}
		for _, v := range c.Violations {
			if strings.HasPrefix(v.Key, "HARNESS-PANIC") {
				r.Inconclusive("harness panic in child: " + v.Key + " " + v.What)
				t.Logf("harness panic stack:\n%s", v.Stack)
				continue
			}
			r.Violation(v.Key, v.What, map[string]any{"batch": b, "kind": v.Kind, "input_hex": v.Input, "stack": v.Stack})
		}
	}
}
