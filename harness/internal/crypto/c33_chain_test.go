//go:build verif

package crypto

// C33 monitor: request signature chains are accepted only if every layer verifies.
//
// Workload: requests of several body types are signed by the real SDK signer with 1-3
// layers over all four schemes (three ECDSA flavours + N3 witnesses checked by a small
// chain model), in the legacy (API < 2.25, chained origin signatures) and the modern
// (API >= 2.25, single layer) protocol form, and then mutated: wire-level byte flips of
// the body / any meta header layer, bit flips in signature values and keys, scheme and
// key substitution, signature removal, swaps inside a layer / across layers / from a
// sibling request, one signature duplicated into a second slot (same / other layer),
// requests put together from the parts of an observed one, layer removal and reordering,
// re-signing with a foreign key, version flips, verification header stripping with TTL
// and peer-context variations, FS chain faults.  Every resulting request is shown to the
// three real entry points.
//
// Oracle: vf33RefMustReject is a reference decision written from the property statement
// and the protocol definition of a verification layer; signatures are re-verified with
// the Go standard library only (crypto/ecdsa, sha256/sha512) – it shares no code with
// internal/crypto or the SDK verifier.

import (
	"bytes"
	"context"
	"crypto/ecdh"
	"crypto/ecdsa"
	"crypto/ed25519"
	"crypto/elliptic"
	cryptorand "crypto/rand"
	"crypto/rsa"
	"crypto/sha256"
	"crypto/sha512"
	"crypto/tls"
	"crypto/x509"
	"encoding/base64"
	"encoding/binary"
	"encoding/hex"
	"encoding/json"
	"errors"
	"fmt"
	"math/big"
	"math/rand/v2"
	"os"
	"strings"
	"testing"

	"github.com/nspcc-dev/neo-go/pkg/core/block"
	"github.com/nspcc-dev/neo-go/pkg/core/transaction"
	"github.com/nspcc-dev/neo-go/pkg/crypto/hash"
	"github.com/nspcc-dev/neo-go/pkg/crypto/keys"
	"github.com/nspcc-dev/neo-go/pkg/neorpc/result"
	"github.com/nspcc-dev/neo-go/pkg/smartcontract/trigger"
	"github.com/nspcc-dev/neo-go/pkg/util"
	"github.com/nspcc-dev/neo-go/pkg/vm/stackitem"
	"github.com/nspcc-dev/neofs-node/internal/verifkit"
	"github.com/nspcc-dev/neofs-node/pkg/network/peerauth"
	apistatus "github.com/nspcc-dev/neofs-sdk-go/client/status"
	neofscrypto "github.com/nspcc-dev/neofs-sdk-go/crypto"
	neofsecdsa "github.com/nspcc-dev/neofs-sdk-go/crypto/ecdsa"
	protoaccounting "github.com/nspcc-dev/neofs-sdk-go/proto/accounting"
	protoacl "github.com/nspcc-dev/neofs-sdk-go/proto/acl"
	protocontainer "github.com/nspcc-dev/neofs-sdk-go/proto/container"
	protoobject "github.com/nspcc-dev/neofs-sdk-go/proto/object"
	"github.com/nspcc-dev/neofs-sdk-go/proto/refs"
	protosession "github.com/nspcc-dev/neofs-sdk-go/proto/session"
	"github.com/nspcc-dev/neofs-sdk-go/user"
	"google.golang.org/grpc/credentials"
	"google.golang.org/grpc/peer"
	"google.golang.org/protobuf/proto"
)

// vf33Msg is what a request part must offer: the stable encoding the protocol signs and
// the protobuf reflection used for wire-level mutations.
type vf33Msg interface {
	neofscrypto.ProtoMessage
	proto.Message
}

// vf33Req is a request as the verifier sees it.
type vf33Req struct {
	body vf33Msg
	meta *protosession.RequestMetaHeader
	vh   *protosession.RequestVerificationHeader
}

func (x *vf33Req) GetBody() vf33Msg                                          { return x.body }
func (x *vf33Req) GetMetaHeader() *protosession.RequestMetaHeader            { return x.meta }
func (x *vf33Req) GetVerifyHeader() *protosession.RequestVerificationHeader { return x.vh }

func (x *vf33Req) clone() *vf33Req {
	c := &vf33Req{body: x.body}
	if !vf33IsNilMsg(x.body) {
		c.body = proto.Clone(x.body).(vf33Msg)
	}
	if x.meta != nil {
		c.meta = proto.Clone(x.meta).(*protosession.RequestMetaHeader)
	}
	if x.vh != nil {
		c.vh = proto.Clone(x.vh).(*protosession.RequestVerificationHeader)
	}
	return c
}

func vf33IsNilMsg(m vf33Msg) bool {
	return m == nil || !m.ProtoReflect().IsValid()
}

func (x *vf33Req) metas() []*protosession.RequestMetaHeader {
	var res []*protosession.RequestMetaHeader
	for m := x.meta; m != nil && len(res) < 16; m = m.Origin {
		res = append(res, m)
	}
	return res
}

func (x *vf33Req) vhs() []*protosession.RequestVerificationHeader {
	var res []*protosession.RequestVerificationHeader
	for v := x.vh; v != nil && len(res) < 16; v = v.Origin {
		res = append(res, v)
	}
	return res
}

// vf33Enc is the signed form of a request part (the protocol signs the stable encoding;
// an absent part has the empty encoding).
func vf33Enc(m neofscrypto.ProtoMessage) []byte {
	b := make([]byte, m.MarshaledSize())
	m.MarshalStable(b)
	return b
}

// ---------------------------------------------------------------------------------------
// N3 chain model.  Witness of a standard single-signature account: invocation script
// PUSHDATA1 <64-byte signature>, verification script PUSHDATA1 <33-byte key> SYSCALL
// System.Crypto.CheckSig.  CheckSig verifies the signature over network magic + hash of
// the script container with SHA-256.

const vf33Magic uint32 = 0x334E4F56

var vf33CheckSigID = func() []byte {
	h := sha256.Sum256([]byte("System.Crypto.CheckSig"))
	return h[:4]
}()

func vf33VerifScript(pub []byte) []byte {
	s := append([]byte{0x0C, byte(len(pub))}, pub...)
	s = append(s, 0x41)
	return append(s, vf33CheckSigID...)
}

func vf33N3SignedMsg(h [32]byte) []byte {
	b := make([]byte, 4+32)
	binary.LittleEndian.PutUint32(b, vf33Magic)
	copy(b[4:], h[:])
	return b
}

// vf33N3Run models a contained run of script (invocation || verification) for signer acc
// over a container with the given hash.
func vf33N3Run(script []byte, acc util.Uint160, h [32]byte) bool {
	if len(script) != 66+40 || script[0] != 0x0C || script[1] != 64 {
		return false
	}
	sig, v := script[2:66], script[66:]
	if v[0] != 0x0C || v[1] != 33 || v[35] != 0x41 || !bytes.Equal(v[36:], vf33CheckSigID) {
		return false
	}
	if acc != hash.Hash160(v) {
		return false
	}
	pub := vf33RefDecodeKey(v[2:35])
	if pub == nil {
		return false
	}
	d := sha256.Sum256(vf33N3SignedMsg(h))
	return ecdsa.Verify(pub, d[:], new(big.Int).SetBytes(sig[:32]), new(big.Int).SetBytes(sig[32:]))
}

const (
	vf33ChainOK = iota
	vf33ChainRPCError
	vf33ChainFault
	vf33ChainEmptyStack
	vf33ChainModes
)

var vf33ChainModeNames = [...]string{"ok", "rpc-error", "vm-fault", "empty-stack"}

type vf33Chain struct {
	mode       int
	calls      int
	withHeader int
	trueRes    int
}

func (c *vf33Chain) InvokeContainedScript(tx *transaction.Transaction, hdr *block.Header, _ *trigger.Type, _ *bool) (*result.Invoke, error) {
	c.calls++
	if hdr != nil {
		c.withHeader++
	}
	ok := hdr == nil && len(tx.Signers) == 1 && tx.Signers[0].Scopes == transaction.None &&
		vf33N3Run(tx.Script, tx.Signers[0].Account, tx.Hash())
	if ok {
		c.trueRes++
	}
	switch c.mode {
	case vf33ChainRPCError:
		return nil, errors.New("verif: injected RPC failure")
	case vf33ChainFault:
		return &result.Invoke{State: "FAULT", FaultException: "verif: injected fault", Stack: []stackitem.Item{stackitem.NewBool(true)}}, nil
	case vf33ChainEmptyStack:
		return &result.Invoke{State: "HALT"}, nil
	}
	return &result.Invoke{State: "HALT", Stack: []stackitem.Item{stackitem.NewBool(ok)}}, nil
}

// ---------------------------------------------------------------------------------------
// signers

type vf33Key struct {
	priv *ecdsa.PrivateKey
	pub  []byte // compressed
}

func vf33NewKey(rng *rand.Rand) vf33Key {
	for {
		k, err := keys.NewPrivateKeyFromBytes(verifkit.RandBytes(rng, 32))
		if err != nil {
			continue
		}
		return vf33Key{priv: &k.PrivateKey, pub: k.PublicKey().Bytes()}
	}
}

type vf33N3Signer struct{ k vf33Key }

func (s vf33N3Signer) Scheme() neofscrypto.Scheme { return neofscrypto.N3 }
func (s vf33N3Signer) Sign(data []byte) ([]byte, error) {
	d := sha256.Sum256(vf33N3SignedMsg(sha256.Sum256(data)))
	r, ss, err := ecdsa.Sign(cryptorand.Reader, s.k.priv, d[:])
	if err != nil {
		return nil, err
	}
	sig := make([]byte, 64)
	r.FillBytes(sig[:32])
	ss.FillBytes(sig[32:])
	return append([]byte{0x0C, 64}, sig...), nil
}
func (s vf33N3Signer) Public() neofscrypto.PublicKey { return vf33N3Pub(vf33VerifScript(s.k.pub)) }

type vf33N3Pub []byte

func (p vf33N3Pub) MaxEncodedSize() int    { return len(p) }
func (p vf33N3Pub) Encode(buf []byte) int  { return copy(buf, p) }
func (p vf33N3Pub) Decode([]byte) error    { return errors.New("not supported") }
func (p vf33N3Pub) Verify(_, _ []byte) bool { return false }

func vf33Signer(k vf33Key, scheme int) neofscrypto.Signer {
	switch scheme {
	case 0:
		return neofsecdsa.Signer(*k.priv)
	case 1:
		return neofsecdsa.SignerRFC6979(*k.priv)
	case 2:
		return neofsecdsa.SignerWalletConnect(*k.priv)
	default:
		return vf33N3Signer{k}
	}
}

// ---------------------------------------------------------------------------------------
// reference decision (from the statement; standard library crypto only)

func vf33RefDecodeKey(b []byte) *ecdsa.PublicKey {
	switch len(b) {
	case 33:
		x, y := elliptic.UnmarshalCompressed(elliptic.P256(), b)
		if x == nil {
			return nil
		}
		return &ecdsa.PublicKey{Curve: elliptic.P256(), X: x, Y: y}
	case 65:
		if _, err := ecdh.P256().NewPublicKey(b); err != nil {
			return nil
		}
		return &ecdsa.PublicKey{Curve: elliptic.P256(), X: new(big.Int).SetBytes(b[1:33]), Y: new(big.Int).SetBytes(b[33:])}
	}
	return nil
}

func vf33VarUint(n uint64) []byte {
	switch {
	case n < 0xfd:
		return []byte{byte(n)}
	case n <= 0xffff:
		return []byte{0xfd, byte(n), byte(n >> 8)}
	case n <= 0xffffffff:
		b := []byte{0xfe, 0, 0, 0, 0}
		binary.LittleEndian.PutUint32(b[1:], uint32(n))
		return b
	}
	b := make([]byte, 9)
	b[0] = 0xff
	binary.LittleEndian.PutUint64(b[1:], n)
	return b
}

// vf33RefSigValid tells whether s is a valid signature over data under a supported
// scheme.  n3 is true when the entry point has a (healthy) chain to run N3 witnesses.
func vf33RefSigValid(data []byte, s *refs.Signature, n3 bool) (bool, string) {
	if s == nil {
		return false, "missing"
	}
	rs := func(b []byte) (*big.Int, *big.Int) {
		return new(big.Int).SetBytes(b[:32]), new(big.Int).SetBytes(b[32:64])
	}
	switch s.Scheme {
	case refs.SignatureScheme_ECDSA_SHA512, refs.SignatureScheme_ECDSA_RFC6979_SHA256, refs.SignatureScheme_ECDSA_RFC6979_SHA256_WALLET_CONNECT:
		pub := vf33RefDecodeKey(s.Key)
		if pub == nil {
			return false, "bad-key"
		}
		var ok bool
		switch s.Scheme {
		case refs.SignatureScheme_ECDSA_SHA512:
			if len(s.Sign) != 65 || s.Sign[0] != 4 {
				return false, "sig-mismatch"
			}
			h := sha512.Sum512(data)
			r, ss := rs(s.Sign[1:])
			ok = ecdsa.Verify(pub, h[:], r, ss)
		case refs.SignatureScheme_ECDSA_RFC6979_SHA256:
			if len(s.Sign) != 64 {
				return false, "sig-mismatch"
			}
			h := sha256.Sum256(data)
			r, ss := rs(s.Sign)
			ok = ecdsa.Verify(pub, h[:], r, ss)
		default:
			if len(s.Sign) != 64+16 {
				return false, "sig-mismatch"
			}
			salt := s.Sign[64:]
			payload := append([]byte(hex.EncodeToString(salt)), base64.StdEncoding.EncodeToString(data)...)
			msg := append([]byte{0x01, 0x00, 0x01, 0xf0}, vf33VarUint(uint64(len(payload)))...)
			msg = append(msg, payload...)
			msg = append(msg, 0, 0)
			h := sha256.Sum256(msg)
			r, ss := rs(s.Sign)
			ok = ecdsa.Verify(pub, h[:], r, ss)
		}
		if !ok {
			return false, "sig-mismatch"
		}
		return true, ""
	case refs.SignatureScheme_N3:
		if !n3 {
			return false, "n3-unverifiable"
		}
		script := append(bytes.Clone(s.Sign), s.Key...)
		if !vf33N3Run(script, hash.Hash160(s.Key), sha256.Sum256(data)) {
			return false, "sig-mismatch"
		}
		return true, ""
	}
	return false, "unsupported-scheme"
}

// vf33Legacy: before API 2.25 requests carry a chain of layers, each signing the previous
// one; since 2.25 "all requests are original" – one layer, origin fields are ignored data.
func vf33Legacy(m *protosession.RequestMetaHeader) bool {
	if m == nil || m.Version == nil {
		return true
	}
	return m.Version.Major < 2 || (m.Version.Major == 2 && m.Version.Minor < 25)
}

// vf33RefMustReject returns true (and the first reason) when the request cannot count as
// authentically signed according to the statement.
func vf33RefMustReject(q *vf33Req, n3 bool) (bool, string) {
	if q.vh == nil {
		return true, "no-verification-header"
	}
	body := vf33Enc(q.body)
	legacy := vf33Legacy(q.meta)
	m, v := q.meta, q.vh
	for d := 0; ; d++ {
		if ok, why := vf33RefSigValid(vf33Enc(m), v.MetaSignature, n3); !ok {
			return true, fmt.Sprintf("d%d.meta.%s", d, why)
		}
		if legacy {
			if ok, why := vf33RefSigValid(vf33Enc(v.Origin), v.OriginSignature, n3); !ok {
				return true, fmt.Sprintf("d%d.origin.%s", d, why)
			}
		}
		if !legacy || v.Origin == nil {
			if ok, why := vf33RefSigValid(body, v.BodySignature, n3); !ok {
				return true, fmt.Sprintf("d%d.body.%s", d, why)
			}
			if legacy && m.GetOrigin() != nil {
				return true, "layer-count-mismatch"
			}
			return false, ""
		}
		if m.GetOrigin() == nil {
			return true, "layer-count-mismatch"
		}
		m, v = m.Origin, v.Origin
	}
}

// vf33ClaimedLayers is the number of verification layers the request presents in its
// protocol form: the length of the chain for < 2.25 requests; a >= 2.25 request is one
// layer whatever sits in its (ignored) origin fields.  Two or more layers = the request
// claims to be a forwarded one (original sender + re-signing nodes).
func vf33ClaimedLayers(q *vf33Req) int {
	n := len(q.vhs())
	if n > 1 && !vf33Legacy(q.meta) {
		return 1
	}
	return n
}

// ---------------------------------------------------------------------------------------
// peer contexts

type vf33ForeignAuth struct {
	credentials.TLSInfo
	PublicKey *keys.PublicKey
}

func (vf33ForeignAuth) AuthType() string { return "tls" }

type vf33Ctx struct {
	name    string
	ctx     context.Context
	trusted bool
}

func vf33Cert(pub any, priv any) (*x509.Certificate, error) {
	tmpl := &x509.Certificate{SerialNumber: big.NewInt(1)}
	der, err := x509.CreateCertificate(cryptorand.Reader, tmpl, tmpl, pub, priv)
	if err != nil {
		return nil, err
	}
	return x509.ParseCertificate(der)
}

// vf33BuildContexts builds the connection contexts the way the node's transport
// credentials do (peerauth.NewAuthInfo on the TLS state, falling back to the plain TLS
// info on failure) and monitors peerauth on the way: a peer counts as authenticated iff
// it presented a certificate with a P-256 ECDSA key, and its identity is that key.
func vf33BuildContexts(r *verifkit.Run, nodeKey vf33Key) []vf33Ctx {
	res := []vf33Ctx{
		{name: "no-peer", ctx: context.Background()},
		{name: "peer-no-auth", ctx: peer.NewContext(context.Background(), &peer.Peer{})},
		{name: "tls-no-client-cert", ctx: peer.NewContext(context.Background(), &peer.Peer{AuthInfo: credentials.TLSInfo{}})},
		{name: "foreign-auth-type", ctx: peer.NewContext(context.Background(), &peer.Peer{AuthInfo: vf33ForeignAuth{PublicKey: (*keys.PublicKey)(&nodeKey.priv.PublicKey)}})},
	}
	type certCase struct {
		name      string
		pub, priv any
		supported bool
	}
	p384, _ := ecdsa.GenerateKey(elliptic.P384(), cryptorand.Reader)
	rsaKey, _ := rsa.GenerateKey(cryptorand.Reader, 2048)
	edPub, edPriv, _ := ed25519.GenerateKey(cryptorand.Reader)
	for _, cc := range []certCase{
		{"cert-p256", &nodeKey.priv.PublicKey, nodeKey.priv, true},
		{"cert-p384", &p384.PublicKey, p384, false},
		{"cert-rsa", &rsaKey.PublicKey, rsaKey, false},
		{"cert-ed25519", edPub, edPriv, false},
	} {
		cert, err := vf33Cert(cc.pub, cc.priv)
		if err != nil {
			r.Inconclusive("cannot create test certificate " + cc.name + ": " + err.Error())
			continue
		}
		tlsInfo := credentials.TLSInfo{State: tls.ConnectionState{PeerCertificates: []*x509.Certificate{cert}}}
		var ai credentials.AuthInfo = tlsInfo
		var info peerauth.AuthInfo
		r.Guard(cc.name, func() { info, err = peerauth.NewAuthInfo(tlsInfo) })
		r.Count("peerauth_newauthinfo_calls", 1)
		if err == nil {
			ai = info
			if !cc.supported {
				r.Violation("peerauth|unsupported-cert-authenticated|"+cc.name, "peerauth.NewAuthInfo produced trusted peer info for a certificate without a P-256 ECDSA key", cc.name)
			}
		}
		ctx := peer.NewContext(context.Background(), &peer.Peer{AuthInfo: ai})
		trusted := err == nil
		if got := peerauth.IsTrustedPeer(ctx); got != trusted {
			r.Violation(fmt.Sprintf("peerauth|trusted-mismatch|%s|%t", cc.name, got), "peerauth.IsTrustedPeer disagrees with the handshake result", cc.name)
		}
		if trusted && cc.supported {
			k, kerr := peerauth.PeerPublicKey(ctx)
			if kerr != nil || k == nil || !bytes.Equal(k.Bytes(), nodeKey.pub) {
				r.Violation("peerauth|peer-key-mismatch", "peerauth.PeerPublicKey is not the key of the presented certificate", cc.name)
			}
		}
		res = append(res, vf33Ctx{name: cc.name, ctx: ctx, trusted: trusted && cc.supported})
	}
	// no certificate at all must never authenticate
	var err error
	r.Guard("no-cert", func() { _, err = peerauth.NewAuthInfo(credentials.TLSInfo{}) })
	if err == nil {
		r.Violation("peerauth|no-cert-authenticated", "peerauth.NewAuthInfo accepted a TLS state without peer certificate", nil)
	}
	for i := range res {
		if got := peerauth.IsTrustedPeer(res[i].ctx); got != res[i].trusted {
			r.Violation(fmt.Sprintf("peerauth|trusted-mismatch|%s|%t", res[i].name, got), "peerauth.IsTrustedPeer disagrees with how the connection was authenticated", res[i].name)
		}
		if !res[i].trusted {
			if k, _ := peerauth.PeerPublicKey(res[i].ctx); k != nil {
				r.Violation("peerauth|key-for-unauthenticated|"+res[i].name, "peerauth.PeerPublicKey returned a key for an unauthenticated connection", res[i].name)
			}
		}
	}
	return res
}

// ---------------------------------------------------------------------------------------
// generators

var vf33BodyKinds = [...]string{"object.Get", "object.Delete", "object.PutChunk", "container.Get", "accounting.Balance", "object.Get(nil body)"}

func vf33RandBody(rng *rand.Rand, kind int) vf33Msg {
	addr := func() *refs.Address {
		return &refs.Address{ContainerId: &refs.ContainerID{Value: verifkit.RandBytes(rng, 32)}, ObjectId: &refs.ObjectID{Value: verifkit.RandBytes(rng, 32)}}
	}
	switch kind {
	case 0:
		return &protoobject.GetRequest_Body{Address: addr(), Raw: rng.IntN(2) == 0}
	case 1:
		return &protoobject.DeleteRequest_Body{Address: addr()}
	case 2:
		return &protoobject.PutRequest_Body{ObjectPart: &protoobject.PutRequest_Body_Chunk{Chunk: verifkit.RandBytes(rng, 1+rng.IntN(300))}}
	case 3:
		return &protocontainer.GetRequest_Body{ContainerId: &refs.ContainerID{Value: verifkit.RandBytes(rng, 32)}}
	case 4:
		return &protoaccounting.BalanceRequest_Body{OwnerId: &refs.OwnerID{Value: verifkit.RandBytes(rng, 25)}}
	default:
		return (*protoobject.GetRequest_Body)(nil)
	}
}

var (
	vf33LegacyVersions = []*refs.Version{nil, {Major: 2, Minor: 24}, {Major: 2, Minor: 18}, {Major: 2}, {Major: 1, Minor: 99}, {}, {Major: 0, Minor: 4000000000}}
	vf33ModernVersions = []*refs.Version{{Major: 2, Minor: 25}, {Major: 2, Minor: 26}, {Major: 3}, {Major: 2, Minor: 4000000000}, {Major: 4000000000}}
)

func vf33RandVersion(rng *rand.Rand, legacy bool) *refs.Version {
	l := vf33ModernVersions
	if legacy {
		l = vf33LegacyVersions
	}
	v := l[rng.IntN(len(l))]
	if v == nil {
		return nil
	}
	return proto.Clone(v).(*refs.Version)
}

func vf33RandMeta(rng *rand.Rand, legacy bool, ttl uint32, rich bool) *protosession.RequestMetaHeader {
	m := &protosession.RequestMetaHeader{Version: vf33RandVersion(rng, legacy), Ttl: ttl}
	if rng.IntN(4) != 0 {
		m.Epoch = rng.Uint64() >> rng.IntN(64)
	}
	if rng.IntN(3) != 0 {
		m.MagicNumber = rng.Uint64() >> rng.IntN(64)
	}
	for i := rng.IntN(3); i > 0; i-- {
		m.XHeaders = append(m.XHeaders, &protosession.XHeader{Key: fmt.Sprintf("k%d", rng.IntN(100)), Value: hex.EncodeToString(verifkit.RandBytes(rng, rng.IntN(8)))})
	}
	if rich && rng.IntN(3) == 0 {
		m.SessionToken = &protosession.SessionToken{
			Body: &protosession.SessionToken_Body{Id: verifkit.RandBytes(rng, 16), OwnerId: &refs.OwnerID{Value: verifkit.RandBytes(rng, 25)},
				Lifetime:   &protosession.SessionToken_Body_TokenLifetime{Exp: rng.Uint64N(1000), Nbf: rng.Uint64N(10), Iat: rng.Uint64N(10)},
				SessionKey: verifkit.RandBytes(rng, 33)},
			Signature: &refs.Signature{Key: verifkit.RandBytes(rng, 33), Sign: verifkit.RandBytes(rng, 64), Scheme: refs.SignatureScheme(rng.IntN(3))},
		}
	}
	if rich && rng.IntN(4) == 0 {
		m.BearerToken = &protoacl.BearerToken{
			Body:      &protoacl.BearerToken_Body{OwnerId: &refs.OwnerID{Value: verifkit.RandBytes(rng, 25)}, Lifetime: &protoacl.BearerToken_Body_TokenLifetime{Exp: rng.Uint64N(1000)}},
			Signature: &refs.Signature{Key: verifkit.RandBytes(rng, 33), Sign: verifkit.RandBytes(rng, 64)},
		}
	}
	return m
}

// vf33FlipWire flips one bit of the stable encoding of m and decodes the result back into
// m.  It reports false when no flip producing a decodable, differently encoded message
// was found.
func vf33FlipWire(rng *rand.Rand, m vf33Msg) (bool, string) {
	if vf33IsNilMsg(m) {
		return false, ""
	}
	enc := vf33Enc(m)
	if len(enc) == 0 {
		return false, ""
	}
	for try := 0; try < 40; try++ {
		pos, bit := rng.IntN(len(enc)), rng.IntN(8)
		b := bytes.Clone(enc)
		b[pos] ^= 1 << bit
		n := m.ProtoReflect().New().Interface()
		if proto.Unmarshal(b, n) != nil {
			continue
		}
		if bytes.Equal(vf33Enc(n.(vf33Msg)), enc) {
			continue
		}
		proto.Reset(m)
		proto.Merge(m, n)
		return true, fmt.Sprintf("byte %d/%d bit %d", pos, len(enc), bit)
	}
	return false, ""
}

func vf33FlipBytes(rng *rand.Rand, b []byte) ([]byte, string) {
	if len(b) == 0 {
		return []byte{byte(1 + rng.IntN(255))}, "empty->1 byte"
	}
	pos, bit := rng.IntN(len(b)), rng.IntN(8)
	c := bytes.Clone(b)
	c[pos] ^= 1 << bit
	return c, fmt.Sprintf("byte %d/%d bit %d", pos, len(b), bit)
}

// ---------------------------------------------------------------------------------------
// mutations

var vf33Parts = [...]string{"body", "meta", "origin"}

func vf33SigPtr(v *protosession.RequestVerificationHeader, part int) **refs.Signature {
	switch part {
	case 0:
		return &v.BodySignature
	case 1:
		return &v.MetaSignature
	}
	return &v.OriginSignature
}

func vf33PartData(q *vf33Req, depth, part int) []byte {
	switch part {
	case 0:
		return vf33Enc(q.body)
	case 1:
		ms := q.metas()
		if depth < len(ms) {
			return vf33Enc(ms[depth])
		}
		return nil
	}
	vs := q.vhs()
	if depth < len(vs) {
		return vf33Enc(vs[depth].Origin)
	}
	return nil
}

type vf33Mut struct {
	Kind   string `json:"kind"`
	Depth  int    `json:"depth"`
	Part   string `json:"part,omitempty"`
	Detail string `json:"detail,omitempty"`

	// for duplications: class of the copy (parts and relative position of the layers)
	// and whether the copied signature is an N3 witness
	dupClass string
	dupN3    bool
}

// vf33DupNote records in mu which signature was copied where.
func vf33DupNote(mu *vf33Mut, src, dst vf33Slot, s *refs.Signature) {
	rel := "same-layer"
	switch {
	case dst.d > src.d:
		rel = "to-inner-layer"
	case dst.d < src.d:
		rel = "to-outer-layer"
	}
	mu.Depth, mu.Part = dst.d, src.String()+"->"+dst.String()
	mu.dupClass = vf33Parts[src.p] + "->" + vf33Parts[dst.p] + "|" + rel
	mu.dupN3 = s.GetScheme() == refs.SignatureScheme_N3
}

var vf33MutKinds = [...]string{
	"flip-body", "flip-meta", "flip-sig-value", "flip-sig-key", "scheme-subst", "key-subst", "drop-sig",
	"swap-in-layer", "swap-across-layers", "foreign-sig", "drop-layer", "reorder-layers", "resign-foreign-key",
	"version-flip", "strip-vh", "extra-body-sig", "sig-length", "replace-body",
	"dup-sig-in-layer", "dup-sig-across-layers", "forge-from-observed",
}

// vf33Slot names one signature slot of a request: layer depth and part.
type vf33Slot struct{ d, p int }

func (s vf33Slot) String() string { return fmt.Sprintf("d%d.%s", s.d, vf33Parts[s.p]) }

// vf33PickDup chooses a source slot holding a signature and a different destination slot
// of q for a duplication: the destination is in the same layer (sameLayer) or in another
// one.  Destinations that hold a signature are preferred (an empty one is taken 1 time of
// 6 or when there is no other).  Both orders (source before / after the destination in
// the chain) come out equally likely.
func vf33PickDup(rng *rand.Rand, q *vf33Req, sameLayer bool) (src, dst vf33Slot, ok bool) {
	vs := q.vhs()
	var srcs []vf33Slot
	for d, v := range vs {
		for p := 0; p < 3; p++ {
			if *vf33SigPtr(v, p) != nil {
				srcs = append(srcs, vf33Slot{d, p})
			}
		}
	}
	if len(srcs) == 0 {
		return src, dst, false
	}
	src = srcs[rng.IntN(len(srcs))]
	var full, empty []vf33Slot
	for d, v := range vs {
		if (d == src.d) != sameLayer {
			continue
		}
		for p := 0; p < 3; p++ {
			if (vf33Slot{d, p}) == src {
				continue
			}
			if s := *vf33SigPtr(v, p); s == nil {
				empty = append(empty, vf33Slot{d, p})
			} else if !proto.Equal(s, *vf33SigPtr(vs[src.d], src.p)) {
				full = append(full, vf33Slot{d, p})
			}
		}
	}
	takeEmpty := rng.IntN(6) == 0
	switch {
	case len(full) > 0 && !(takeEmpty && len(empty) > 0):
		return src, full[rng.IntN(len(full))], true
	case len(empty) > 0:
		return src, empty[rng.IntN(len(empty))], true
	}
	return src, dst, false
}

// pickSig selects an existing signature of q: returns depth, part or ok=false.
func vf33PickSig(rng *rand.Rand, q *vf33Req) (int, int, bool) {
	vs := q.vhs()
	type dp struct{ d, p int }
	var all []dp
	for d, v := range vs {
		for p := 0; p < 3; p++ {
			if *vf33SigPtr(v, p) != nil {
				all = append(all, dp{d, p})
			}
		}
	}
	if len(all) == 0 {
		return 0, 0, false
	}
	c := all[rng.IntN(len(all))]
	return c.d, c.p, true
}

// vf33Mutate applies one mutation of the given kind to q (a private clone).  sib is a
// sibling request of the same shape signed by the same signers over different content.
// Returns applied=false when the kind does not fit the request shape.
func vf33Mutate(rng *rand.Rand, kind string, q, sib *vf33Req, pool []vf33Key, bodyKind int) (vf33Mut, bool) {
	mu := vf33Mut{Kind: kind}
	vs, ms := q.vhs(), q.metas()
	switch kind {
	case "flip-body":
		ok, d := vf33FlipWire(rng, q.body)
		mu.Detail = d
		return mu, ok
	case "replace-body":
		if vf33IsNilMsg(q.body) {
			q.body = vf33RandBody(rng, 0)
		} else if rng.IntN(3) == 0 {
			q.body = q.body.ProtoReflect().Type().Zero().Interface().(vf33Msg) // typed nil
			mu.Detail = "nil"
		} else {
			q.body = vf33RandBody(rng, bodyKind)
		}
		return mu, true
	case "flip-meta":
		if len(ms) == 0 {
			return mu, false
		}
		mu.Depth = rng.IntN(len(ms))
		ok, d := vf33FlipWire(rng, ms[mu.Depth])
		mu.Detail = d
		return mu, ok
	case "flip-sig-value", "flip-sig-key", "scheme-subst", "key-subst", "drop-sig", "resign-foreign-key", "sig-length", "foreign-sig":
		d, p, ok := vf33PickSig(rng, q)
		if !ok {
			return mu, false
		}
		mu.Depth, mu.Part = d, vf33Parts[p]
		sp := vf33SigPtr(vs[d], p)
		s := *sp
		switch kind {
		case "flip-sig-value":
			s.Sign, mu.Detail = vf33FlipBytes(rng, s.Sign)
		case "flip-sig-key":
			s.Key, mu.Detail = vf33FlipBytes(rng, s.Key)
		case "sig-length":
			if rng.IntN(2) == 0 && len(s.Sign) > 0 {
				s.Sign = s.Sign[:len(s.Sign)-1]
				mu.Detail = "truncated"
			} else {
				s.Sign = append(bytes.Clone(s.Sign), byte(rng.IntN(256)))
				mu.Detail = "extended"
			}
		case "scheme-subst":
			cands := []refs.SignatureScheme{0, 1, 2, 3, 4, -1, 1 << 20}
			for {
				n := cands[rng.IntN(len(cands))]
				if n != s.Scheme {
					mu.Detail = fmt.Sprintf("%d->%d", s.Scheme, n)
					s.Scheme = n
					break
				}
			}
		case "key-subst":
			switch v := rng.IntN(6); v {
			case 0:
				other := pool[rng.IntN(len(pool))].pub
				if s.Scheme == refs.SignatureScheme_N3 {
					other = vf33VerifScript(other)
				}
				if bytes.Equal(other, s.Key) {
					return mu, false
				}
				s.Key = bytes.Clone(other)
				mu.Detail = "other-valid-key"
			case 1:
				pub := vf33RefDecodeKey(s.Key)
				if pub == nil || len(s.Key) != 33 {
					return mu, false
				}
				u := make([]byte, 65)
				u[0] = 4
				pub.X.FillBytes(u[1:33])
				pub.Y.FillBytes(u[33:])
				s.Key = u
				mu.Detail = "same-key-uncompressed"
			case 2:
				s.Key = []byte{0}
				mu.Detail = "infinity"
			case 3:
				s.Key = nil
				mu.Detail = "nil"
			case 4:
				if len(s.Key) < 2 {
					return mu, false
				}
				s.Key = bytes.Clone(s.Key[:len(s.Key)-1])
				mu.Detail = "truncated"
			default:
				if len(s.Key) != 33 {
					return mu, false
				}
				s.Key = bytes.Clone(s.Key)
				s.Key[0] ^= 1 // other compressed form: the mirrored point
				mu.Detail = "mirrored-point"
			}
		case "drop-sig":
			*sp = nil
		case "resign-foreign-key":
			// a signature that is valid for the same data, but made by another key; the
			// claimed key either stays (mismatch) or is replaced too (a valid signature).
			var other vf33Key
			for {
				other = pool[rng.IntN(len(pool))]
				if !bytes.Contains(s.Key, other.pub) {
					break
				}
			}
			sc := int(s.Scheme)
			if sc < 0 || sc > 3 {
				return mu, false
			}
			sg := vf33Signer(other, sc)
			sig, err := sg.Sign(vf33PartData(q, d, p))
			if err != nil {
				return mu, false
			}
			s.Sign = sig
			if rng.IntN(3) == 0 {
				s.Key = neofscrypto.PublicKeyBytes(sg.Public())
				mu.Detail = "key-replaced-too"
			} else {
				mu.Detail = "claimed-key-kept"
			}
		case "foreign-sig":
			svs := sib.vhs()
			if d >= len(svs) || *vf33SigPtr(svs[d], p) == nil {
				return mu, false
			}
			*sp = proto.Clone(*vf33SigPtr(svs[d], p)).(*refs.Signature)
			mu.Detail = "same slot of a sibling request"
		}
		return mu, true
	case "swap-in-layer":
		if len(vs) == 0 {
			return mu, false
		}
		d := rng.IntN(len(vs))
		a := rng.IntN(3)
		b := (a + 1 + rng.IntN(2)) % 3
		pa, pb := vf33SigPtr(vs[d], a), vf33SigPtr(vs[d], b)
		if *pa == nil && *pb == nil {
			return mu, false
		}
		*pa, *pb = *pb, *pa
		mu.Depth, mu.Part = d, vf33Parts[a]+"<->"+vf33Parts[b]
		return mu, true
	case "swap-across-layers":
		if len(vs) < 2 {
			return mu, false
		}
		d1 := rng.IntN(len(vs))
		d2 := (d1 + 1 + rng.IntN(len(vs)-1)) % len(vs)
		p := rng.IntN(3)
		p2 := p
		if rng.IntN(3) == 0 {
			p2 = rng.IntN(3)
		}
		pa, pb := vf33SigPtr(vs[d1], p), vf33SigPtr(vs[d2], p2)
		if *pa == nil && *pb == nil {
			return mu, false
		}
		*pa, *pb = *pb, *pa
		mu.Depth, mu.Part = d1, fmt.Sprintf("d%d.%s<->d%d.%s", d1, vf33Parts[p], d2, vf33Parts[p2])
		return mu, true
	case "dup-sig-in-layer", "dup-sig-across-layers":
		// one signature of the request put ALSO into another slot (the source stays where
		// it is, unlike a swap): a signature that is valid for one part presented for
		// another part of the same or of another layer
		src, dst, ok := vf33PickDup(rng, q, kind == "dup-sig-in-layer")
		if !ok {
			return mu, false
		}
		*vf33SigPtr(vs[dst.d], dst.p) = proto.Clone(*vf33SigPtr(vs[src.d], src.p)).(*refs.Signature)
		vf33DupNote(&mu, src, dst, *vf33SigPtr(vs[src.d], src.p))
		return mu, true
	case "forge-from-observed":
		// what an observer of a correctly signed request (the sibling) can put together
		// without any key: own body under the observed meta headers and verification
		// layers, the body signature slot of the origin layer filled with one of the
		// observed signatures
		if sib.vh == nil {
			return mu, false
		}
		q.meta = proto.Clone(sib.meta).(*protosession.RequestMetaHeader)
		q.vh = proto.Clone(sib.vh).(*protosession.RequestVerificationHeader)
		vs = q.vhs()
		var srcs []vf33Slot
		for d, v := range vs {
			for p := 0; p < 3; p++ {
				if *vf33SigPtr(v, p) != nil {
					srcs = append(srcs, vf33Slot{d, p})
				}
			}
		}
		if len(srcs) == 0 {
			return mu, false
		}
		src := srcs[rng.IntN(len(srcs))]
		dst := vf33Slot{len(vs) - 1, 0}
		if !vf33Legacy(q.meta) {
			dst.d = 0 // one layer by protocol: its body signature is the outer one
		}
		*vf33SigPtr(vs[dst.d], dst.p) = proto.Clone(*vf33SigPtr(vs[src.d], src.p)).(*refs.Signature)
		vf33DupNote(&mu, src, dst, *vf33SigPtr(vs[src.d], src.p))
		return mu, true
	case "drop-layer":
		switch v := rng.IntN(5); v {
		case 0: // outer verification layer only
			if q.vh == nil {
				return mu, false
			}
			q.vh = q.vh.Origin
			mu.Detail = "outer-vh"
		case 1: // outer meta layer only
			if q.meta == nil {
				return mu, false
			}
			q.meta = q.meta.Origin
			mu.Detail = "outer-meta"
		case 2: // an inner verification layer
			if len(vs) < 2 {
				return mu, false
			}
			d := rng.IntN(len(vs) - 1)
			vs[d].Origin = vs[d].Origin.Origin
			mu.Depth, mu.Detail = d+1, "inner-vh"
		case 3: // an inner meta layer
			if len(ms) < 2 {
				return mu, false
			}
			d := rng.IntN(len(ms) - 1)
			ms[d].Origin = ms[d].Origin.Origin
			mu.Depth, mu.Detail = d+1, "inner-meta"
		default: // inner verification and meta layer together
			if len(vs) < 2 || len(ms) < 2 {
				return mu, false
			}
			d := rng.IntN(min(len(vs), len(ms)) - 1)
			vs[d].Origin = vs[d].Origin.Origin
			ms[d].Origin = ms[d].Origin.Origin
			mu.Depth, mu.Detail = d+1, "inner-vh+meta"
		}
		return mu, true
	case "reorder-layers":
		if len(vs) < 2 {
			return mu, false
		}
		d := rng.IntN(len(vs) - 1)
		if rng.IntN(2) == 0 {
			// exchange the signature sets of two adjacent layers
			a, b := vs[d], vs[d+1]
			a.BodySignature, b.BodySignature = b.BodySignature, a.BodySignature
			a.MetaSignature, b.MetaSignature = b.MetaSignature, a.MetaSignature
			a.OriginSignature, b.OriginSignature = b.OriginSignature, a.OriginSignature
			mu.Detail = "vh-signature-sets"
		} else {
			// relink: layer d+1 becomes the outer one
			a, b := vs[d], vs[d+1]
			a.Origin, b.Origin = b.Origin, a
			if d == 0 {
				q.vh = b
			} else {
				vs[d-1].Origin = b
			}
			mu.Detail = "vh-relinked"
		}
		mu.Depth = d
		return mu, true
	case "version-flip":
		if q.meta == nil {
			return mu, false
		}
		was := vf33Legacy(q.meta)
		q.meta.Version = vf33RandVersion(rng, !was)
		mu.Detail = fmt.Sprintf("legacy %t->%t", was, !was)
		return mu, true
	case "strip-vh":
		q.vh = nil
		if rng.IntN(6) == 0 {
			q.meta = nil
			mu.Detail = "meta-nil-too"
		}
		return mu, true
	case "extra-body-sig":
		if len(vs) < 2 || vs[0].BodySignature != nil {
			return mu, false
		}
		k := pool[rng.IntN(len(pool))]
		sg := vf33Signer(k, rng.IntN(3))
		sig, err := sg.Sign(vf33Enc(q.body))
		if err != nil {
			return mu, false
		}
		vs[0].BodySignature = &refs.Signature{Key: k.pub, Sign: sig, Scheme: refs.SignatureScheme(sg.Scheme())}
		return mu, true
	}
	return mu, false
}

// ---------------------------------------------------------------------------------------
// the monitor

type vf33Layer struct {
	Key    int `json:"key"`
	Scheme int `json:"scheme"`
}

type vf33Base struct {
	Case     int         `json:"case"`
	BodyKind string      `json:"body"`
	Legacy   []bool      `json:"legacy_by_layer"`
	Layers   []vf33Layer `json:"layers"`
	TTL      uint32      `json:"outer_ttl"`
}

func vf33Build(rng *rand.Rand, pool []vf33Key, bodyKind int, layers []vf33Layer, legacy []bool, ttl uint32, rich bool) (*vf33Req, error) {
	q := &vf33Req{body: vf33RandBody(rng, bodyKind)}
	for l := range layers {
		lttl := ttl + uint32(len(layers)-1-l)
		m := vf33RandMeta(rng, legacy[l], lttl, rich)
		m.Origin = q.meta
		q.meta = m
		vh, err := neofscrypto.SignRequestWithBuffer[vf33Msg](vf33Signer(pool[layers[l].Key], layers[l].Scheme), q, nil)
		if err != nil {
			return nil, err
		}
		q.vh = vh
	}
	return q, nil
}

var vf33Entries = [...]string{"plain", "ctx", "n3"}

func vf33Hex(m neofscrypto.ProtoMessage) string { return hex.EncodeToString(vf33Enc(m)) }

func TestVerif_C33(t *testing.T) {
	r := verifkit.Start(t, "C33", "exploration")
	defer r.Finish()
	r.SetRule("base = request (6 body kinds) signed by the SDK signer with 1-3 layers, scheme per layer from {ECDSA_SHA512, RFC6979, WalletConnect, N3}, legacy(<2.25)/modern API per layer, outer TTL in {0,1,2,rnd}; per base: untouched + one attempt of each of 21 mutation kinds (bit flips in wire bytes of body/any meta layer, in signature values/keys, scheme/key substitution, dropped/swapped/foreign signatures, a signature duplicated into another slot of the same/another layer, a request forged from the parts of an observed one, dropped/reordered layers, re-signing by a foreign key, version flip, stripped header, ...) x 1 of 8 peer contexts x FS chain mode, each shown to VerifyRequestSignatures, ...WithContext and ...N3; distinct = (body kind, layer count, schemes, legacy pattern, ttl class, mutation kind/depth/part/detail class, context, chain mode); non-trivial = all of them")
	r.Assume("stable marshaling (MarshalStable) of request parts is the byte form that signatures cover")
	r.Assume("ECDSA verification of the Go standard library is the ground truth for the three ECDSA schemes; N3 witnesses are judged by a model of a single-signature CheckSig witness")
	r.Assume("API >= 2.25 requests consist of one verification layer (origin fields are ignored data per protocol); for them the reference constrains the outer layer only")

	r.Assume("'one-hop request from an authenticated peer connection' = outer TTL 1, connection authenticated by peerauth, and the request does not present itself as forwarded (fewer than two verification layers); a chain of >= 2 layers has made more than one hop, the connection vouches for the last one only")

	nBases := r.Pick(2000, 40000)
	replayCase := -1
	if p := os.Getenv("VERIF_REPLAY"); p != "" {
		var doc struct {
			Case struct {
				Base vf33Base `json:"base"`
			} `json:"case"`
		}
		if b, err := os.ReadFile(p); err == nil && json.Unmarshal(b, &doc) == nil {
			replayCase = doc.Case.Base.Case
		}
	}

	prng := r.Rand("pool", 0)
	pool := make([]vf33Key, 6)
	for i := range pool {
		pool[i] = vf33NewKey(prng)
	}
	ctxs := vf33BuildContexts(r, pool[0])
	chain := &vf33Chain{}

	type verdict struct {
		accepted bool
		err      error
	}
	call := func(entry int, ctx context.Context, q *vf33Req, desc any) (v verdict, panicked bool) {
		panicked = r.Guard(desc, func() {
			var err error
			// object.Get bodies go through the real request structure, the rest through
			// the generic carrier (the verifier is generic over the body type)
			if gb, ok := q.body.(*protoobject.GetRequest_Body); ok {
				req := &protoobject.GetRequest{Body: gb, MetaHeader: q.meta, VerifyHeader: q.vh}
				switch entry {
				case 0:
					err = VerifyRequestSignatures(req)
				case 1:
					err = VerifyRequestSignaturesWithContext(ctx, req)
				default:
					err = VerifyRequestSignaturesN3(ctx, req, chain)
				}
			} else {
				switch entry {
				case 0:
					err = VerifyRequestSignatures[vf33Msg](q)
				case 1:
					err = VerifyRequestSignaturesWithContext[vf33Msg](ctx, q)
				default:
					err = VerifyRequestSignaturesN3[vf33Msg](ctx, q, chain)
				}
			}
			v = verdict{accepted: err == nil, err: err}
		})
		return
	}

	untouchedRejected := 0
	evalOne := func(base vf33Base, q *vf33Req, mu vf33Mut, cx vf33Ctx, chainMode int, hasN3 bool) {
		chain.mode = chainMode
		legacy := vf33Legacy(q.meta)
		mode := "modern"
		if legacy {
			mode = "legacy"
		}
		ttlClass := "other"
		switch {
		case q.meta == nil:
			ttlClass = "no-meta"
		case q.meta.Ttl <= 2:
			ttlClass = fmt.Sprint(q.meta.Ttl)
		}
		detailClass := mu.Detail
		if i := strings.Index(detailClass, "byte "); i == 0 {
			detailClass = "bitflip"
		}
		schemes := ""
		for _, l := range base.Layers {
			schemes += fmt.Sprint(l.Scheme)
		}
		r.Distinct(fmt.Sprintf("%s|%d|%s|%v|%s|%s|%d|%s|%s|%s|%d", base.BodyKind, len(base.Layers), schemes, base.Legacy, ttlClass, mu.Kind, mu.Depth, mu.Part, detailClass, cx.name, chainMode))
		desc := func(entry int) map[string]any {
			return map[string]any{"base": base, "mutation": mu, "entry": vf33Entries[entry], "context": cx.name, "chain_mode": vf33ChainModeNames[chainMode],
				"body_hex": vf33Hex(q.body), "meta_hex": vf33Hex(q.meta), "verify_header_hex": vf33Hex(q.vh)}
		}
		for entry := range vf33Entries {
			r.Eval(1)
			n3ok := entry == 2 && chainMode == vf33ChainOK
			mustReject, why := vf33RefMustReject(q, n3ok)
			// The exemption of the statement is for the ONE-HOP request of an authenticated
			// peer: it may travel no further (TTL 1) and it came straight from that peer.
			// A request that carries a chain of two or more verification layers states
			// itself that it was signed by an original sender and re-signed by at least one
			// forwarder, i.e. it has made more than one hop: the authenticated connection
			// vouches for the last hop only, so every layer of such a chain must verify.
			// (>= 2.25 requests have one layer by protocol, their origin fields are ignored
			// data and do not make them forwarded.)
			oneHopPeer := entry != 0 && q.meta.GetTtl() == 1 && cx.trusted
			forwarded := vf33ClaimedLayers(q) >= 2
			exempt := oneHopPeer && !forwarded
			v, panicked := call(entry, cx.ctx, q, desc(entry))
			if panicked {
				continue
			}
			en := vf33Entries[entry]
			if oneHopPeer && forwarded {
				// the situation itself must be observed for the run to say anything about it
				switch {
				case mustReject && !v.accepted:
					r.Count("forwarded_chain_ttl1_trusted_invalid_rejected_"+en, 1)
					r.Seen("forwarded_chain_ttl1_trusted_invalid_rejected_mutations", mu.Kind)
					r.Seen("forwarded_chain_ttl1_trusted_invalid_rejected_reasons", why)
				case !mustReject && v.accepted:
					r.Count("forwarded_chain_ttl1_trusted_valid_accepted_"+en, 1)
				}
			}
			if mu.dupClass != "" && !exempt && mustReject && !v.accepted {
				// a signature presented for a second part was refused: which copies were seen
				r.Seen("dup_sig_rejected_classes_"+en, mu.dupClass)
				if mu.dupN3 && n3ok {
					r.Count("dup_sig_n3_witness_rejected_with_healthy_chain", 1)
					r.Seen("dup_sig_n3_witness_rejected_classes", mu.dupClass)
				}
			}
			switch {
			case v.accepted && exempt:
				r.Count("exempt_accepted_"+en, 1)
				switch {
				case q.vh == nil:
					r.Count("exempt_accepted_without_header", 1)
				case mustReject:
					// single (claimed) layer that does not verify, TTL 1, authenticated
					// peer: the text exempts the one-hop request without saying that it must
					// come without a header - observed, not judged
					r.Count("exempt_accepted_single_layer_invalid", 1)
				}
			case v.accepted && mustReject:
				key := fmt.Sprintf("accepted-invalid|%s|%s|%s", en, mode, why)
				if q.vh == nil {
					key = fmt.Sprintf("accepted-unsigned|%s|ttl=%s|ctx=%s", en, ttlClass, cx.name)
				} else if oneHopPeer {
					key += "|forwarded-chain-from-trusted-peer-ttl1"
				}
				if mu.dupClass != "" && q.vh != nil {
					key += "|one-signature-in-two-slots:" + mu.dupClass
				}
				r.Violation(key, fmt.Sprintf("%s accepted a request that is not authentically signed (%s) after mutation %s", en, why, mu.Kind), desc(entry))
			case v.accepted:
				r.Count("accepted_valid_"+en, 1)
				r.Count("accepted_valid_"+mode, 1)
				if mu.Kind != "none" {
					r.Count("mutation_still_valid_accepted_"+mu.Kind, 1)
				}
			case mustReject:
				r.Count("rejected_invalid_"+en, 1)
				r.Count("rejected_"+mu.Kind, 1)
				r.Seen("reject_reasons_reference", why[strings.Index(why, ".")+1:])
				var st apistatus.SignatureVerification
				if errors.As(v.err, &st) {
					r.Count("rejected_with_signature_verification_status", 1)
					r.Seen("reject_messages_code", vf33MsgClass(st.Message()))
				} else {
					r.Count("rejected_with_other_error", 1)
				}
			default: // reference sees nothing wrong, the code rejects: allowed by "only if"
				if mu.Kind == "none" {
					untouchedRejected++
					if untouchedRejected <= 3 {
						r.Inconclusive(fmt.Sprintf("untouched correctly signed request rejected by %s: %v (case %d) - mutation baseline is broken", en, v.err, base.Case))
					}
				} else {
					r.Count("rejected_though_reference_valid_"+mu.Kind, 1)
				}
			}
			if !exempt && v.accepted && !mustReject {
				if mu.Kind == "none" {
					r.Count(fmt.Sprintf("untouched_accepted_%s_layers%d", mode, len(base.Layers)), 1)
					for _, l := range base.Layers {
						r.Seen("schemes_accepted_"+en, fmt.Sprint(l.Scheme))
					}
				}
				// the author reported for an accepted request is the signer of its body
				if q.vh != nil && q.vh.BodySignature != nil {
					var id user.ID
					var pub []byte
					var err error
					if r.Guard(desc(entry), func() { id, pub, err = GetRequestAuthor(q.vh) }) {
						continue
					}
					if err == nil {
						r.Count("author_checked", 1)
						bs := q.vh.BodySignature
						script := bs.Key
						if bs.Scheme != refs.SignatureScheme_N3 {
							if k := vf33RefDecodeKey(bs.Key); k != nil {
								script = vf33VerifScript(elliptic.MarshalCompressed(elliptic.P256(), k.X, k.Y))
							}
						}
						if !bytes.Equal(pub, bs.Key) || id != user.NewFromScriptHash(hash.Hash160(script)) {
							r.Violation("author-mismatch|"+mode, "GetRequestAuthor of an accepted request is not the account of the body signature key", desc(entry))
						}
					} else {
						r.Count("author_error_on_accepted", 1)
					}
				}
			}
		}
		_ = hasN3
	}

	for ci := 0; ci < nBases; ci++ {
		if replayCase >= 0 && ci != replayCase {
			continue
		}
		rng := r.Rand("case", ci)
		nl := 1 + rng.IntN(3)
		bodyKind := rng.IntN(len(vf33BodyKinds))
		allLegacy := rng.IntN(2) == 0
		layers := make([]vf33Layer, nl)
		legacy := make([]bool, nl)
		hasN3 := false
		for l := range layers {
			layers[l] = vf33Layer{Key: rng.IntN(len(pool)), Scheme: rng.IntN(4)}
			hasN3 = hasN3 || layers[l].Scheme == 3
			legacy[l] = allLegacy
			if rng.IntN(8) == 0 {
				legacy[l] = !allLegacy // incoherent chains: the reference still decides
			}
		}
		var ttl uint32
		switch rng.IntN(5) {
		case 0:
			ttl = 0
		case 1, 2:
			ttl = 1
		case 3:
			ttl = 2
		default:
			ttl = rng.Uint32()
		}
		base := vf33Base{Case: ci, BodyKind: vf33BodyKinds[bodyKind], Legacy: legacy, Layers: layers, TTL: ttl}
		q, err := vf33Build(rng, pool, bodyKind, layers, legacy, ttl, true)
		if err != nil {
			r.Inconclusive(fmt.Sprintf("cannot sign base request %d: %v", ci, err))
			continue
		}
		sib, err := vf33Build(rng, pool, bodyKind, layers, legacy, ttl, false)
		if err != nil {
			r.Inconclusive(fmt.Sprintf("cannot sign sibling request %d: %v", ci, err))
			continue
		}
		r.Count(fmt.Sprintf("bases_layers_%d", nl), 1)
		if ci < 3 {
			r.Sample(map[string]any{"base": base, "meta_hex": vf33Hex(q.meta), "verify_header_hex": vf33Hex(q.vh)})
		}
		// trust-base cross-check: stable encoding == deterministic protobuf encoding
		for _, m := range []vf33Msg{q.body, q.meta, q.vh} {
			if vf33IsNilMsg(m) {
				continue
			}
			if b, err := (proto.MarshalOptions{Deterministic: true}).Marshal(m); err == nil && bytes.Equal(b, vf33Enc(m)) {
				r.Count("stable_encoding_equals_protobuf_encoding", 1)
			} else {
				r.Count("stable_encoding_differs_from_protobuf_encoding", 1)
			}
		}
		pickCtx := func() vf33Ctx {
			if rng.IntN(2) == 0 {
				for _, c := range ctxs {
					if c.trusted {
						return c // the authenticated one
					}
				}
			}
			return ctxs[rng.IntN(len(ctxs))]
		}
		pickChain := func() int {
			if hasN3 && rng.IntN(4) == 0 {
				return 1 + rng.IntN(vf33ChainModes-1)
			}
			return vf33ChainOK
		}
		evalOne(base, q.clone(), vf33Mut{Kind: "none"}, pickCtx(), vf33ChainOK, hasN3)
		if hasN3 {
			evalOne(base, q.clone(), vf33Mut{Kind: "none", Detail: "chain-fault"}, pickCtx(), 1+rng.IntN(vf33ChainModes-1), hasN3)
		}
		for _, kind := range vf33MutKinds {
			c := q.clone()
			mu, ok := vf33Mutate(rng, kind, c, sib, pool, bodyKind)
			if !ok {
				r.Count("mutation_not_applicable_"+kind, 1)
				continue
			}
			r.Count("mutations_applied_"+kind, 1)
			evalOne(base, c, mu, pickCtx(), pickChain(), hasN3)
		}
	}

	r.Count("fs_chain_calls", chain.calls)
	r.Count("fs_chain_calls_with_header", chain.withHeader)
	r.Count("fs_chain_true_results", chain.trueRes)
	if replayCase < 0 {
		for _, en := range vf33Entries {
			want := 3
			if en == "n3" {
				want = 4
			}
			if r.SeenCount("schemes_accepted_"+en) < want {
				r.Inconclusive(fmt.Sprintf("entry %s accepted untouched requests of only %d schemes (want %d)", en, r.SeenCount("schemes_accepted_"+en), want))
			}
		}
		for _, kind := range vf33MutKinds {
			if kind != "extra-body-sig" && r.Counter("rejected_"+kind) == 0 {
				r.Inconclusive("no rejected request observed for mutation kind " + kind)
			}
		}
		// one signature standing for two parts: must have been seen refused for N3 witnesses
		// run by a healthy chain and for the other schemes, in both directions of the chain
		if r.Violations() == 0 {
			if n := r.SeenCount("dup_sig_n3_witness_rejected_classes"); n < 12 {
				r.Inconclusive(fmt.Sprintf("duplicated N3 witnesses were seen refused in only %d of the copy classes (parts x layer relation; want >= 12)", n))
			}
			for _, en := range vf33Entries {
				if n := r.SeenCount("dup_sig_rejected_classes_" + en); n < 12 {
					r.Inconclusive(fmt.Sprintf("duplicated signatures were seen refused by %s in only %d of the copy classes (want >= 12)", en, n))
				}
			}
		}
		if r.Counter("exempt_accepted_without_header") == 0 {
			r.Inconclusive("the one-hop exemption was never observed")
		}
		// the boundary of the exemption: forwarded (>= 2 layer) chains with TTL 1 on an
		// authenticated connection, valid ones accepted and broken ones judged
		if r.Violations() == 0 {
			for _, en := range vf33Entries[1:] {
				if r.Counter("forwarded_chain_ttl1_trusted_invalid_rejected_"+en) == 0 || r.Counter("forwarded_chain_ttl1_trusted_valid_accepted_"+en) == 0 {
					r.Inconclusive("no valid+accepted / broken+rejected forwarded chain with TTL 1 from an authenticated peer observed at entry " + en)
				}
			}
			if r.SeenCount("forwarded_chain_ttl1_trusted_invalid_rejected_mutations") < 10 {
				r.Inconclusive(fmt.Sprintf("forwarded chains with TTL 1 from an authenticated peer were broken by only %d mutation kinds", r.SeenCount("forwarded_chain_ttl1_trusted_invalid_rejected_mutations")))
			}
		}
	}
}

func vf33MsgClass(s string) string {
	if i := strings.Index(s, "at depth "); i >= 0 {
		j := i + len("at depth ")
		for j < len(s) && s[j] >= '0' && s[j] <= '9' {
			j++
		}
		s = s[:i] + "at depth N" + s[j:]
	}
	if len(s) > 90 {
		s = s[:90]
	}
	return s
}
