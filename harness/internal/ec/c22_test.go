//go:build verif

package ec

import (
	"fmt"
	"testing"

	"github.com/nspcc-dev/neofs-node/internal/verifkit"
)

// TestVerif_C22 enumerates every (part, total, nodes) triple of the stated space and
// monitors the node order produced by the real NodeSequenceForPart.
func TestVerif_C22(t *testing.T) {
	r := verifkit.Start(t, "C22", "exploration")
	defer r.Finish()
	maxTotal, maxNodes := r.Pick(32, 64), r.Pick(128, 300)
	r.SetRule(fmt.Sprintf("every triple part<total, total in 1..%d, nodes in 0..%d; distinct = (total,nodes) pairs whose sequences are non-empty; non-trivial = nodes>0", maxTotal, maxNodes))
	r.SetExhaustive(true)
	for total := 1; total <= maxTotal; total++ {
		for nodes := 0; nodes <= maxNodes; nodes++ {
			firsts := map[int]int{}
			for part := 0; part < total; part++ {
				desc := map[string]int{"part": part, "total": total, "nodes": nodes}
				var seq []int
				r.Guard(desc, func() {
					n := 0
					for i := range NodeSequenceForPart(part, total, nodes) {
						seq = append(seq, i)
						if n++; n > nodes+5 {
							break
						}
					}
				})
				r.Eval(1)
				seen := make([]bool, nodes)
				bad := len(seq) != nodes
				for _, i := range seq {
					if i < 0 || i >= nodes || seen[i] {
						bad = true
						break
					}
					seen[i] = true
				}
				if bad {
					r.Violation("not-a-permutation", fmt.Sprintf("sequence for %v is not a permutation of 0..nodes-1: %v", desc, seq), desc)
				}
				if nodes >= total {
					if len(seq) == 0 || seq[0] != part {
						r.Violation("first-node-not-own-index", fmt.Sprintf("part %d of %d with %d nodes starts at %v", part, total, nodes, seq), desc)
					} else if p, ok := firsts[seq[0]]; ok {
						r.Violation("parts-share-first-node", fmt.Sprintf("parts %d and %d start at node %d", p, part, seq[0]), desc)
					} else {
						firsts[seq[0]] = part
					}
				}
				// early-stop consumer: the iterator must honour yield=false (no panic, no extra element)
				if nodes > 1 {
					r.Guard(desc, func() {
						c := 0
						for range NodeSequenceForPart(part, total, nodes) {
							c++
							break
						}
						if c != 1 {
							r.Violation("early-stop", "iterator did not stop after first element", desc)
						}
					})
				}
				if part == 0 && nodes == 5 && total <= 3 {
					r.Sample(map[string]any{"part": part, "total": total, "nodes": nodes, "sequence": seq})
				}
			}
			if nodes > 0 {
				r.Distinct(fmt.Sprintf("%d/%d", total, nodes))
				if nodes >= total {
					r.Count("triples_with_nodes_ge_total", total)
				} else {
					r.Count("triples_with_nodes_lt_total", total)
				}
			}
		}
	}
}
