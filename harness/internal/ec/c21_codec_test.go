//go:build verif

package ec

import (
	"bytes"
	"crypto/sha256"
	"encoding/hex"
	"fmt"
	"math/rand/v2"
	"sort"
	"testing"

	"github.com/nspcc-dev/neofs-node/internal/verifkit"
)

// TestVerif_C21 monitors the real codec entry points (Encode, Decode, DecodeRange,
// DecodeIndexes, ConcatDataParts) over rules 1..8 data / 0..4 parity parts, payload
// lengths 0..4KiB and erasure patterns of up to the parity count (exhaustive when the
// rule has at most 8 parts).  The oracle is the property statement only: equal part
// lengths, announced hash == sha256(part), any erasure of <= parity parts decodes to
// the original bytes, partial reconstruction gives back exactly the requested parts,
// and encoding the same payload under several rules leaves every earlier encoding
// intact.
func TestVerif_C21(t *testing.T) {
	r := verifkit.Start(t, "C21", "exploration")
	defer r.Finish()
	nRand := r.Pick(5, 120)        // random lengths per rule on top of the boundary set
	nRandSubsets := r.Pick(10, 100) // random erasure subsets per size for rules with > 8 parts
	r.SetRule(fmt.Sprintf("rules d=1..8 x p=0..4; per rule the boundary lengths {0,1,2,d-1,d,d+1,2d-1,2d+1,63..65,255..257,1023..1025,4095,4096} plus %d seeded random lengths in 0..4096; per (rule,len) every erasure subset of size<=p when d+p<=8, else all single erasures, the first/last-p subsets and %d random subsets per size; distinct = (d,p,len) with len>0 and at least one erasure pattern decoded, or len=0 with the empty-payload contract checked", nRand, nRandSubsets))
	r.Assume("a lost part is represented as a nil element of the parts slice (the representation the node uses)")
	r.Assume("Encode is called with cap(data)==len(data) as modifyECParentObject does; behaviour with spare capacity is only mapped, not judged")

	caseIdx := 0
	for d := 1; d <= 8; d++ {
		for p := 0; p <= 4; p++ {
			rule := Rule{DataPartNum: uint8(d), ParityPartNum: uint8(p)}
			lens := vf21Lengths(r.Rand("lens", d*16+p), d, nRand)
			for _, n := range lens {
				caseIdx++
				rng := r.Rand("case", caseIdx)
				vf21OneCase(r, rng, rule, n, nRandSubsets)
			}
		}
	}

	// several rules from one buffer
	nMulti := r.Pick(150, 6000)
	for i := 0; i < nMulti; i++ {
		rng := r.Rand("multi", i)
		vf21MultiRule(r, rng, i)
	}

	// hazard map (evidence only)
	vf21HazardMap(r)

	if r.Counter("decode_ok") == 0 || r.Counter("decode_range_ok") == 0 || r.Counter("decode_indexes_ok") == 0 {
		r.Inconclusive("no successful reconstruction observed")
	}
}

func vf21Lengths(rng *rand.Rand, d, nRand int) []int {
	set := map[int]struct{}{}
	for _, n := range []int{0, 1, 2, d - 1, d, d + 1, 2*d - 1, 2*d + 1, 63, 64, 65, 255, 256, 257, 1023, 1024, 1025, 4095, 4096} {
		if n >= 0 {
			set[n] = struct{}{}
		}
	}
	for i := 0; i < nRand; i++ {
		set[rng.IntN(4097)] = struct{}{}
	}
	res := make([]int, 0, len(set))
	for n := range set {
		res = append(res, n)
	}
	sort.Ints(res)
	return res
}

func vf21Exact(b []byte) []byte {
	if b == nil {
		return nil
	}
	c := make([]byte, len(b))
	copy(c, b)
	return c
}

func vf21CloneParts(parts [][]byte) [][]byte {
	res := make([][]byte, len(parts))
	for i := range parts {
		res[i] = vf21Exact(parts[i])
	}
	return res
}

// vf21CheckEncoding checks the per-encoding part of the statement and returns false if
// the rest of the case cannot be judged.
func vf21CheckEncoding(r *verifkit.Run, rule Rule, n int, parts [][]byte, hashes []string, desc any, where string) bool {
	total := int(rule.DataPartNum) + int(rule.ParityPartNum)
	if len(parts) != total || len(hashes) != total {
		r.Violation(where+"|part-count", fmt.Sprintf("rule %s len %d: %d parts and %d hashes, want %d", rule, n, len(parts), len(hashes), total), desc)
		return false
	}
	for i := range parts {
		if len(parts[i]) != len(parts[0]) {
			r.Violation(where+"|unequal-part-length", fmt.Sprintf("rule %s len %d: part %d has %d bytes, part 0 has %d", rule, n, i, len(parts[i]), len(parts[0])), desc)
			return false
		}
		h := sha256.Sum256(parts[i])
		if hashes[i] != hex.EncodeToString(h[:]) {
			r.Violation(where+"|hash-mismatch", fmt.Sprintf("rule %s len %d: announced hash of part %d is %s, sha256(part) is %x", rule, n, i, hashes[i], h), desc)
			return false
		}
	}
	return true
}

func vf21Subsets(rng *rand.Rand, total, p, nRandSubsets int) [][]int {
	var res [][]int
	if p == 0 {
		return res
	}
	if total <= 8 {
		for mask := 1; mask < 1<<total; mask++ {
			var s []int
			for i := 0; i < total; i++ {
				if mask>>i&1 == 1 {
					s = append(s, i)
				}
			}
			if len(s) <= p {
				res = append(res, s)
			}
		}
		return res
	}
	for i := 0; i < total; i++ {
		res = append(res, []int{i})
	}
	first, last := make([]int, p), make([]int, p)
	for i := 0; i < p; i++ {
		first[i], last[i] = i, total-p+i
	}
	res = append(res, first, last)
	for k := 2; k <= p; k++ {
		for j := 0; j < nRandSubsets; j++ {
			perm := rng.Perm(total)[:k]
			sort.Ints(perm)
			res = append(res, perm)
		}
	}
	return res
}

func vf21Erase(parts [][]byte, lost []int) [][]byte {
	cp := vf21CloneParts(parts)
	for _, i := range lost {
		cp[i] = nil
	}
	return cp
}

func vf21OneCase(r *verifkit.Run, rng *rand.Rand, rule Rule, n, nRandSubsets int) {
	d, p := int(rule.DataPartNum), int(rule.ParityPartNum)
	total := d + p
	desc := map[string]any{"data_parts": d, "parity_parts": p, "len": n}
	data := verifkit.RandBytes(rng, n)
	orig := vf21Exact(data)
	if orig == nil {
		orig = []byte{}
	}
	var (
		parts  [][]byte
		hashes []string
		err    error
	)
	if r.Guard(desc, func() { parts, hashes, err = Encode(rule, data) }) {
		return
	}
	r.Eval(1)
	if err != nil {
		r.Violation(fmt.Sprintf("encode-error|d=%d|p=%d", d, p), fmt.Sprintf("Encode(%s, %d bytes): %v", rule, n, err), desc)
		return
	}
	r.Count("encode_ok", 1)
	if !bytes.Equal(data, orig) {
		r.Violation("encode-modifies-input", fmt.Sprintf("Encode(%s) changed the %d-byte payload it was given", rule, n), desc)
		return
	}
	if !vf21CheckEncoding(r, rule, n, parts, hashes, desc, "encode") {
		return
	}
	want := vf21CloneParts(parts)

	if n == 0 {
		// Empty payload: the node never runs the decoder for it (all parts are empty and an
		// empty part is indistinguishable from a lost one); what must hold is that the
		// parts carry nothing and concatenation gives the empty payload.
		for i := range parts {
			if len(parts[i]) != 0 {
				r.Violation("empty-payload-nonempty-part", fmt.Sprintf("rule %s: part %d of empty payload has %d bytes", rule, i, len(parts[i])), desc)
				return
			}
		}
		var got []byte
		if r.Guard(desc, func() { got = ConcatDataParts(rule, 0, vf21CloneParts(parts)) }) {
			return
		}
		if len(got) != 0 {
			r.Violation("empty-payload-concat", fmt.Sprintf("rule %s: ConcatDataParts of empty payload returned %d bytes", rule, len(got)), desc)
		}
		r.Guard(desc, func() {
			if _, err := Decode(rule, 0, vf21CloneParts(parts)); err != nil {
				r.Count("empty_payload_decode_rejected(not judged)", 1)
			} else {
				r.Count("empty_payload_decode_accepted(not judged)", 1)
			}
		})
		r.Count("empty_payload_cases", 1)
		r.Distinct(fmt.Sprintf("%d/%d/0", d, p))
		return
	}

	if perPart := (n + d - 1) / d; len(parts[0])*d < n {
		r.Violation("parts-too-short", fmt.Sprintf("rule %s len %d: %d-byte parts cannot hold the payload (need >= %d)", rule, n, len(parts[0]), perPart), desc)
		return
	}
	if n%d != 0 {
		r.Count("cases_len_not_divisible_by_data_count", 1)
	}

	// nothing lost: both the decoder and the plain concatenation give the payload back
	r.Guard(desc, func() {
		got, err := Decode(rule, uint64(n), vf21CloneParts(want))
		if err != nil || !bytes.Equal(got, orig) {
			r.Violation("decode|no-loss", fmt.Sprintf("rule %s len %d: Decode of the complete part set: err=%v equal=%v", rule, n, err, bytes.Equal(got, orig)), desc)
		} else {
			r.Count("decode_ok", 1)
		}
		got = ConcatDataParts(rule, uint64(n), vf21CloneParts(want))
		if !bytes.Equal(got, orig) {
			r.Violation("concat-data-parts", fmt.Sprintf("rule %s len %d: ConcatDataParts differs from the payload", rule, n), desc)
		}
	})

	subsets := vf21Subsets(rng, total, p, nRandSubsets)
	for _, lost := range subsets {
		ldesc := map[string]any{"data_parts": d, "parity_parts": p, "len": n, "lost": lost}
		lostData := 0
		for _, i := range lost {
			if i < d {
				lostData++
			}
		}
		r.Eval(1)
		r.Count(fmt.Sprintf("erasures_of_size_%d", len(lost)), 1)
		// full decode
		r.Guard(ldesc, func() {
			got, err := Decode(rule, uint64(n), vf21Erase(want, lost))
			if err != nil {
				r.Violation(fmt.Sprintf("decode-error|lost=%d<=p=%d", len(lost), p), fmt.Sprintf("rule %s len %d lost %v: Decode failed: %v", rule, n, lost, err), ldesc)
				return
			}
			if !bytes.Equal(got, orig) {
				r.Violation(fmt.Sprintf("decode-wrong-bytes|lostdata=%d", lostData), fmt.Sprintf("rule %s len %d lost %v: Decode returned %d bytes differing from the payload", rule, n, lost, len(got)), ldesc)
				return
			}
			r.Count("decode_ok", 1)
		})
		// range reconstruction: a range of part indexes that contains at least one lost part
		r.Guard(ldesc, func() {
			pivot := lost[rng.IntN(len(lost))]
			from := pivot - rng.IntN(pivot+1)
			to := pivot + rng.IntN(total-pivot)
			if rng.IntN(3) == 0 && lostData > 0 { // what GET does: data parts only
				from, to = 0, d-1
			}
			cp := vf21Erase(want, lost)
			if err := DecodeRange(rule, from, to, cp); err != nil {
				r.Violation("decode-range-error", fmt.Sprintf("rule %s len %d lost %v range %d..%d: %v", rule, n, lost, from, to, err), ldesc)
				return
			}
			for i := from; i <= to; i++ {
				if !bytes.Equal(cp[i], want[i]) {
					r.Violation("decode-range-wrong-part", fmt.Sprintf("rule %s len %d lost %v range %d..%d: part %d not restored exactly (%d bytes, want %d)", rule, n, lost, from, to, i, len(cp[i]), len(want[i])), ldesc)
					return
				}
			}
			r.Count("decode_range_ok", 1)
			if to >= d {
				r.Count("decode_range_incl_parity", 1)
			}
		})
		// index reconstruction: random non-empty subset of the lost parts (+ maybe a present one)
		r.Guard(ldesc, func() {
			var idxs []int
			for _, i := range lost {
				if rng.IntN(2) == 0 {
					idxs = append(idxs, i)
				}
			}
			if len(idxs) == 0 {
				idxs = append(idxs, lost[rng.IntN(len(lost))])
			}
			if rng.IntN(4) == 0 {
				idxs = append(idxs, rng.IntN(total))
			}
			rng.Shuffle(len(idxs), func(a, b int) { idxs[a], idxs[b] = idxs[b], idxs[a] })
			cp := vf21Erase(want, lost)
			if err := DecodeIndexes(rule, cp, idxs); err != nil {
				r.Violation("decode-indexes-error", fmt.Sprintf("rule %s len %d lost %v idxs %v: %v", rule, n, lost, idxs, err), ldesc)
				return
			}
			for _, i := range idxs {
				if !bytes.Equal(cp[i], want[i]) {
					r.Violation("decode-indexes-wrong-part", fmt.Sprintf("rule %s len %d lost %v idxs %v: part %d not restored exactly", rule, n, lost, idxs, i), ldesc)
					return
				}
			}
			r.Count("decode_indexes_ok", 1)
		})
	}
	if total <= 8 && p > 0 {
		r.Count("cases_with_exhaustive_erasures", 1)
	}
	if p > 0 {
		r.Distinct(fmt.Sprintf("%d/%d/%d", d, p, n))
	} else {
		r.Count("cases_without_parity(no erasure possible)", 1)
		r.Distinct(fmt.Sprintf("%d/%d/%d", d, p, n))
	}
	if n > 0 && n < 40 && d > 1 && p > 0 {
		r.Sample(map[string]any{"rule": rule.String(), "len": n, "part_len": len(parts[0]), "erasure_patterns": len(subsets)})
	}
}

// vf21MultiRule encodes one buffer (cap==len) under 2..4 rules in sequence and then
// re-checks every encoding: none may have been changed by a later one.
func vf21MultiRule(r *verifkit.Run, rng *rand.Rand, idx int) {
	nRules := 2 + rng.IntN(3)
	rules := make([]Rule, nRules)
	var names []string
	for i := range rules {
		rules[i] = Rule{DataPartNum: uint8(1 + rng.IntN(8)), ParityPartNum: uint8(rng.IntN(5))}
		names = append(names, rules[i].String())
	}
	var n int
	switch rng.IntN(4) {
	case 0:
		n = 1 + rng.IntN(32)
	case 1:
		n = 1024 - 8 + rng.IntN(17) // around the pool's default buffer size
	default:
		n = 1 + rng.IntN(4096)
	}
	desc := map[string]any{"multi_case": idx, "rules": names, "len": n}
	data := verifkit.RandBytes(rng, n)
	orig := vf21Exact(data)
	type enc struct {
		parts  [][]byte
		hashes []string
	}
	encs := make([]enc, nRules)
	ok := true
	r.Guard(desc, func() {
		for i := range rules {
			parts, hashes, err := Encode(rules[i], data)
			if err != nil {
				r.Violation("multi-rule|encode-error", fmt.Sprintf("rule #%d %s of %v, len %d: %v", i, rules[i], names, n, err), desc)
				ok = false
				return
			}
			encs[i] = enc{parts, hashes}
		}
	})
	r.Eval(1)
	if !ok {
		return
	}
	if !bytes.Equal(data, orig) {
		r.Violation("multi-rule|payload-changed", fmt.Sprintf("payload of %d bytes changed after encoding under %v", n, names), desc)
		return
	}
	for i := range rules {
		if !vf21CheckEncoding(r, rules[i], n, encs[i].parts, encs[i].hashes, desc, fmt.Sprintf("multi-rule|corrupted-by-later-rule|pos=%d", i)) {
			return
		}
		p := int(rules[i].ParityPartNum)
		total := int(rules[i].DataPartNum) + p
		var lost []int
		if p > 0 {
			lost = rng.Perm(total)[:1+rng.IntN(p)]
		}
		bad := false
		r.Guard(desc, func() {
			got, err := Decode(rules[i], uint64(n), vf21Erase(encs[i].parts, lost))
			if err != nil || !bytes.Equal(got, orig) {
				bad = true
				r.Violation(fmt.Sprintf("multi-rule|decode|pos=%d", i), fmt.Sprintf("rule #%d %s of %v, len %d, lost %v: err=%v, equal=%v", i, rules[i], names, n, lost, err, bytes.Equal(got, orig)), desc)
			}
		})
		if bad {
			return
		}
	}
	r.Count("multi_rule_buffers_ok", 1)
	r.Count(fmt.Sprintf("multi_rule_buffers_with_%d_rules", nRules), 1)
	r.Distinct(fmt.Sprintf("multi/%v/%d", names, n))
}

// vf21HazardMap records at which spare capacities of the input slice a second Encode
// invalidates the parts of a first one.  Encode does not promise to ignore spare
// capacity, so this is reported as an observation, never as a verdict.
func vf21HazardMap(r *verifkit.Run) {
	rng := r.Rand("hazard", 0)
	rules := []Rule{{3, 1}, {2, 2}}
	n := 30
	needTotal := 4 * ((n + 2) / 3)
	aliased := 0
	for spare := 0; spare <= needTotal+4; spare++ {
		buf := make([]byte, n, n+spare)
		copy(buf, verifkit.RandBytes(rng, n))
		func() {
			defer func() { _ = recover() }()
			p1, h1, err := Encode(rules[0], buf)
			if err != nil {
				return
			}
			if _, _, err = Encode(rules[1], buf); err != nil {
				return
			}
			for i := range p1 {
				s := sha256.Sum256(p1[i])
				if hex.EncodeToString(s[:]) != h1[i] {
					aliased++
					r.Seen("hazard_spare_capacities_where_second_rule_overwrites_first(not judged)", fmt.Sprintf("%03d", spare))
					break
				}
			}
		}()
	}
	r.Count("hazard_map_spare_capacities_tried", needTotal+5)
	r.Count("hazard_map_spare_capacities_aliasing", aliased)
}
