package verifkit

import (
	"bufio"
	"bytes"
	"context"
	"errors"
	"fmt"
	"os"
	"os/exec"
	"strings"
	"sync"
	"syscall"
	"time"

	"github.com/nspcc-dev/neofs-node/internal/verifhook"
)

// ---- child processes (crash runner, fatal-error isolation) ----

// ChildSpec returns the spec string when the test binary runs as a monitor child.
func ChildSpec() (string, bool) {
	s := os.Getenv("VERIF_CHILD")
	return s, s != ""
}

// ChildResult describes how a child ended.
type ChildResult struct {
	ExitCode int
	Signaled bool
	Signal   syscall.Signal
	TimedOut bool
	Output   string
}

// SpawnChild re-executes the running test binary with -test.run ^testName$ and
// VERIF_CHILD=spec.  The child's combined output is captured through a file (so a
// SIGKILL or fatal error loses nothing).  A watchdog timeout is reported, not judged.
func SpawnChild(testName, spec string, extraEnv []string, timeout time.Duration) ChildResult {
	f, err := os.CreateTemp("", "vfchild-*.out")
	if err != nil {
		return ChildResult{ExitCode: -1, Output: err.Error()}
	}
	defer os.Remove(f.Name())
	defer f.Close()
	ctx, cancel := context.WithTimeout(context.Background(), timeout)
	defer cancel()
	cmd := exec.CommandContext(ctx, os.Args[0], "-test.run", "^"+testName+"$", "-test.count", "1", "-test.timeout", "0")
	cmd.Env = append(os.Environ(), "VERIF_CHILD="+spec, "VERIF_EVIDENCE=")
	cmd.Env = append(cmd.Env, extraEnv...)
	cmd.Stdout, cmd.Stderr = f, f
	cmd.WaitDelay = 5 * time.Second
	err = cmd.Run()
	var res ChildResult
	if ctx.Err() != nil {
		res.TimedOut = true
	}
	if err != nil {
		var ee *exec.ExitError
		if errors.As(err, &ee) {
			if ws, ok := ee.Sys().(syscall.WaitStatus); ok {
				if ws.Signaled() {
					res.Signaled, res.Signal = true, ws.Signal()
				}
				res.ExitCode = ws.ExitStatus()
			} else {
				res.ExitCode = ee.ExitCode()
			}
		} else {
			res.ExitCode = -1
		}
	}
	b, _ := os.ReadFile(f.Name())
	if len(b) > 1<<20 {
		b = b[len(b)-(1<<20):]
	}
	res.Output = string(b)
	return res
}

// Journal is an append-only, synchronously written acknowledgement log used by crash
// children: a line is on disk before the child goes on.
type Journal struct {
	mu sync.Mutex
	f  *os.File
}

func OpenJournal(path string) (*Journal, error) {
	f, err := os.OpenFile(path, os.O_CREATE|os.O_WRONLY|os.O_APPEND|os.O_SYNC, 0o644)
	if err != nil {
		return nil, err
	}
	return &Journal{f: f}, nil
}

func (j *Journal) Append(line string) {
	j.mu.Lock()
	defer j.mu.Unlock()
	_, _ = j.f.WriteString(strings.ReplaceAll(line, "\n", " ") + "\n")
}

func (j *Journal) Close() { _ = j.f.Close() }

// ReadJournal returns the complete lines of a journal (a torn last line is dropped).
func ReadJournal(path string) []string {
	b, err := os.ReadFile(path)
	if err != nil {
		return nil
	}
	var out []string
	sc := bufio.NewScanner(bytes.NewReader(b))
	sc.Buffer(make([]byte, 1<<20), 1<<26)
	for sc.Scan() {
		out = append(out, sc.Text())
	}
	if len(b) > 0 && b[len(b)-1] != '\n' && len(out) > 0 {
		out = out[:len(out)-1]
	}
	return out
}

// ---- hook controller over internal/verifhook ----

// Hooks is a concurrency-safe controller of the repository's instrumentation points.
type Hooks struct {
	mu      sync.Mutex
	counts  map[string]int
	order   []string // sequence of point names hit (bounded)
	maxLog  int
	crash   map[string]int           // name -> k-th hit kills the process
	faults  map[string]map[int]error // name -> k-th call -> error
	sticky  map[string]error         // name -> error on every call
	pauses  map[string]*pause
	onPoint func(name string, k int)
	fcounts map[string]int
}

type pause struct {
	k       int
	reached chan struct{}
	release chan struct{}
	done    bool
}

// InstallHooks installs a fresh controller; call Uninstall when done.
func InstallHooks() *Hooks {
	h := &Hooks{counts: map[string]int{}, crash: map[string]int{}, faults: map[string]map[int]error{},
		sticky: map[string]error{}, pauses: map[string]*pause{}, fcounts: map[string]int{}, maxLog: 100000}
	verifhook.SetPoint(h.point)
	verifhook.SetFault(h.fault)
	return h
}

func (h *Hooks) Uninstall() {
	verifhook.SetPoint(nil)
	verifhook.SetFault(nil)
	h.mu.Lock()
	for _, p := range h.pauses {
		if !p.done {
			p.done = true
			close(p.release)
		}
	}
	h.mu.Unlock()
}

func (h *Hooks) point(name string) {
	h.mu.Lock()
	h.counts[name]++
	k := h.counts[name]
	if len(h.order) < h.maxLog {
		h.order = append(h.order, name)
	}
	if ck, ok := h.crash[name]; ok && ck == k {
		// process crash model: die right here, nothing after this point runs
		_ = syscall.Kill(os.Getpid(), syscall.SIGKILL)
		select {}
	}
	var p *pause
	if pp, ok := h.pauses[name]; ok && pp.k == k && !pp.done {
		p = pp
	}
	cb := h.onPoint
	h.mu.Unlock()
	if cb != nil {
		cb(name, k)
	}
	if p != nil {
		close(p.reached)
		<-p.release
	}
}

func (h *Hooks) fault(name string) error {
	h.mu.Lock()
	defer h.mu.Unlock()
	h.fcounts[name]++
	k := h.fcounts[name]
	if e, ok := h.sticky[name]; ok {
		return e
	}
	if m, ok := h.faults[name]; ok {
		if e, ok := m[k]; ok {
			return e
		}
	}
	return nil
}

// OnPoint installs a callback run (outside the controller lock) at every point hit.
func (h *Hooks) OnPoint(f func(name string, k int)) { h.mu.Lock(); h.onPoint = f; h.mu.Unlock() }

// CrashAt makes the k-th hit (1-based) of point name SIGKILL the process.
func (h *Hooks) CrashAt(name string, k int) { h.mu.Lock(); h.crash[name] = k; h.mu.Unlock() }

// FailAt makes the k-th call (1-based) of fault site name return err.
func (h *Hooks) FailAt(name string, k int, err error) {
	h.mu.Lock()
	if h.faults[name] == nil {
		h.faults[name] = map[int]error{}
	}
	h.faults[name][k] = err
	h.mu.Unlock()
}

// FailAlways makes every call of fault site name return err (nil clears).
func (h *Hooks) FailAlways(name string, err error) {
	h.mu.Lock()
	if err == nil {
		delete(h.sticky, name)
	} else {
		h.sticky[name] = err
	}
	h.mu.Unlock()
}

// ClearFaults removes all injected faults.
func (h *Hooks) ClearFaults() {
	h.mu.Lock()
	h.faults = map[string]map[int]error{}
	h.sticky = map[string]error{}
	h.mu.Unlock()
}

// PauseAt parks the goroutine that makes the k-th hit of point name until release is
// called; reached is closed when it parks.
func (h *Hooks) PauseAt(name string, k int) (reached <-chan struct{}, release func()) {
	p := &pause{k: k, reached: make(chan struct{}), release: make(chan struct{})}
	h.mu.Lock()
	h.pauses[name] = p
	h.mu.Unlock()
	return p.reached, func() {
		h.mu.Lock()
		if !p.done {
			p.done = true
			close(p.release)
		}
		h.mu.Unlock()
	}
}

// Counts returns a copy of the per-point hit counters.
func (h *Hooks) Counts() map[string]int {
	h.mu.Lock()
	defer h.mu.Unlock()
	m := make(map[string]int, len(h.counts))
	for k, v := range h.counts {
		m[k] = v
	}
	return m
}

// FaultCounts returns a copy of the per-fault-site call counters.
func (h *Hooks) FaultCounts() map[string]int {
	h.mu.Lock()
	defer h.mu.Unlock()
	m := make(map[string]int, len(h.fcounts))
	for k, v := range h.fcounts {
		m[k] = v
	}
	return m
}

// Order returns the recorded sequence of point names.
func (h *Hooks) Order() []string {
	h.mu.Lock()
	defer h.mu.Unlock()
	return append([]string(nil), h.order...)
}

// Reset clears counters and the order log (faults, crashes and pauses stay).
func (h *Hooks) Reset() {
	h.mu.Lock()
	h.counts = map[string]int{}
	h.fcounts = map[string]int{}
	h.order = nil
	h.mu.Unlock()
}

// WaitOrTimeout waits for ch up to d; false means the generous watchdog fired
// (callers must treat that as inconclusive, never as a violation).
func WaitOrTimeout(ch <-chan struct{}, d time.Duration) bool {
	select {
	case <-ch:
		return true
	case <-time.After(d):
		return false
	}
}

var _ = fmt.Sprintf
