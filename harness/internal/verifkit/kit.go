// Package verifkit is the harness-only helper package of /verif.  It exists only in the
// build overlay (never in /repo) and carries the run bookkeeping shared by all monitors:
// seeded case RNGs, evidence counters, class-keyed violation reporting with the
// known-findings list, replay files and child-process helpers.
package verifkit

import (
	"crypto/sha256"
	"encoding/hex"
	"encoding/json"
	"fmt"
	"math/rand/v2"
	"os"
	"path/filepath"
	"runtime"
	"runtime/debug"
	"sort"
	"strconv"
	"strings"
	"sync"
	"testing"
	"time"
)

// Run is the bookkeeping of one property check (one TestVerif_Cxx function).
type Run struct {
	t     testing.TB
	ID    string
	Level string
	seed  uint64
	tier  string
	start time.Time

	mu          sync.Mutex
	evals       int64
	distinct    map[[16]byte]struct{}
	samples     []any
	sigSamples  []string
	sigCalls    int64 // number of judged observations handed to Distinct (finer than Eval when a case has many checkpoints)
	maxSamples  int
	counters    map[string]int64
	sets        map[string]map[string]struct{}
	rule        string
	assumptions []string
	exhaustive  bool
	violations  int
	knownHits   map[string]int
	inconcl     []string
	vioKeys     map[string]int
	known       []KnownFinding
	finished    bool
}

// KnownFinding is one entry of /verif/known_findings.json.
type KnownFinding struct {
	Property string `json:"property"`
	Key      string `json:"key"`
	What     string `json:"what"`
	Status   string `json:"status"` // "known" or "fixed"
	Commit   string `json:"commit,omitempty"`
}

// Start opens the bookkeeping for property id at the given claimed level.
func Start(t testing.TB, id, level string) *Run {
	r := &Run{t: t, ID: id, Level: level, start: time.Now(), maxSamples: 6,
		distinct: map[[16]byte]struct{}{}, counters: map[string]int64{},
		sets: map[string]map[string]struct{}{}, knownHits: map[string]int{}, vioKeys: map[string]int{}}
	r.seed = 1
	if s := os.Getenv("VERIF_SEED"); s != "" {
		if v, err := strconv.ParseUint(s, 10, 64); err == nil {
			r.seed = v
		} else if v, err := strconv.ParseInt(s, 10, 64); err == nil {
			r.seed = uint64(v)
		}
	}
	r.tier = os.Getenv("VERIF_TIER")
	if r.tier != "thorough" {
		r.tier = "quick"
	}
	if p := os.Getenv("VERIF_KNOWN"); p != "" {
		if b, err := os.ReadFile(p); err == nil {
			var f struct {
				Findings []KnownFinding `json:"findings"`
			}
			if err := json.Unmarshal(b, &f); err != nil {
				t.Fatalf("verifkit: bad known findings file %s: %v", p, err)
			}
			r.known = f.Findings
		}
	}
	return r
}

func (r *Run) Seed() uint64   { return r.seed }
func (r *Run) Tier() string   { return r.tier }
func (r *Run) Thorough() bool { return r.tier == "thorough" }

// Pick returns the quick or thorough value of a bound.
func (r *Run) Pick(quick, thorough int) int {
	if r.Thorough() {
		return thorough
	}
	return quick
}

// Rand returns the deterministic RNG of case idx within stream (stream separates
// independent generators inside one check).
func (r *Run) Rand(stream string, idx int) *rand.Rand {
	h := sha256.Sum256([]byte(fmt.Sprintf("%s|%s|%d|%d", r.ID, stream, r.seed, idx)))
	var a, b uint64
	for i := 0; i < 8; i++ {
		a = a<<8 | uint64(h[i])
		b = b<<8 | uint64(h[8+i])
	}
	return rand.New(rand.NewPCG(a, b))
}

// SetRule states how cases are generated and what makes one distinct / non-trivial.
func (r *Run) SetRule(s string)     { r.mu.Lock(); r.rule = s; r.mu.Unlock() }
func (r *Run) Assume(s string)      { r.mu.Lock(); r.assumptions = append(r.assumptions, s); r.mu.Unlock() }
func (r *Run) SetExhaustive(b bool) { r.mu.Lock(); r.exhaustive = b; r.mu.Unlock() }
func (r *Run) SetMaxSamples(n int)  { r.mu.Lock(); r.maxSamples = n; r.mu.Unlock() }

// Eval counts n executed cases.
func (r *Run) Eval(n int) { r.mu.Lock(); r.evals += int64(n); r.mu.Unlock() }

// Distinct registers the signature of a non-trivial case; equal signatures count once.
func (r *Run) Distinct(sig string) {
	h := sha256.Sum256([]byte(sig))
	var k [16]byte
	copy(k[:], h[:16])
	r.mu.Lock()
	r.sigCalls++
	if _, seen := r.distinct[k]; !seen && len(r.sigSamples) < 5 {
		r.sigSamples = append(r.sigSamples, sig) // first distinct case signatures, written out if the monitor gives no richer samples
	}
	r.distinct[k] = struct{}{}
	r.mu.Unlock()
}

// Sample keeps v as one of the written-out cases (first maxSamples are kept).
func (r *Run) Sample(v any) {
	r.mu.Lock()
	if len(r.samples) < r.maxSamples {
		r.samples = append(r.samples, v)
	}
	r.mu.Unlock()
}

// Count adds n to a named observation counter of the evidence file.
func (r *Run) Count(key string, n int) { r.mu.Lock(); r.counters[key] += int64(n); r.mu.Unlock() }

// Max raises a named counter to at least n.
func (r *Run) Max(key string, n int64) {
	r.mu.Lock()
	if r.counters[key] < n {
		r.counters[key] = n
	}
	r.mu.Unlock()
}

// Seen adds a member to a named set; the evidence reports the set (small) or its size.
func (r *Run) Seen(set, member string) {
	r.mu.Lock()
	m := r.sets[set]
	if m == nil {
		m = map[string]struct{}{}
		r.sets[set] = m
	}
	m[member] = struct{}{}
	r.mu.Unlock()
}

// SeenCount returns the size of a named set.
func (r *Run) SeenCount(set string) int { r.mu.Lock(); defer r.mu.Unlock(); return len(r.sets[set]) }

// Counter returns the value of a named counter.
func (r *Run) Counter(key string) int64 { r.mu.Lock(); defer r.mu.Unlock(); return r.counters[key] }

// Violation reports a contradiction between the oracle and the code.  key is the class
// key (names the failing input / call site / history shape); what is a one-line
// description; replay is any JSON-serialisable description sufficient to re-run the case.
// Listed known findings print KNOWN-FINDING and do not fail the run.
func (r *Run) Violation(key, what string, replay any) {
	r.mu.Lock()
	defer r.mu.Unlock()
	for _, k := range r.known {
		if k.Property == r.ID && k.Status == "known" && k.Key == key {
			r.knownHits[key]++
			if r.knownHits[key] == 1 {
				fmt.Printf("KNOWN-FINDING: property=%s %s [%s]\n", r.ID, k.What, key)
			}
			return
		}
	}
	r.violations++
	r.vioKeys[key]++
	if r.vioKeys[key] > 3 { // same class: keep counting, stop printing
		return
	}
	path := r.writeReplay(key, what, replay)
	fmt.Printf("VIOLATION property=%s replay=%s\n", r.ID, path)
	fmt.Printf("  violation-detail property=%s key=%q what=%s\n", r.ID, key, oneLine(what))
}

// Violations returns how many unlisted violations were reported so far.
func (r *Run) Violations() int { r.mu.Lock(); defer r.mu.Unlock(); return r.violations }

// Inconclusive records that (part of) the check could not reach a verdict.
func (r *Run) Inconclusive(reason string) {
	r.mu.Lock()
	r.inconcl = append(r.inconcl, reason)
	r.mu.Unlock()
	fmt.Printf("INCONCLUSIVE property=%s reason=%s\n", r.ID, oneLine(reason))
}

func oneLine(s string) string {
	s = strings.ReplaceAll(s, "\n", " / ")
	if len(s) > 600 {
		s = s[:600] + "..."
	}
	return s
}

func (r *Run) writeReplay(key, what string, replay any) string {
	dir := os.Getenv("VERIF_REPLAY_DIR")
	if dir == "" {
		dir = os.TempDir()
	}
	_ = os.MkdirAll(dir, 0o755)
	h := sha256.Sum256([]byte(key))
	name := fmt.Sprintf("%s-seed%d-%s-%d.json", r.ID, r.seed, hex.EncodeToString(h[:4]), r.vioKeys[key])
	path := filepath.Join(dir, name)
	doc := map[string]any{"property": r.ID, "seed": r.seed, "tier": r.tier, "key": key, "what": what, "case": replay}
	b, err := json.MarshalIndent(doc, "", " ")
	if err != nil {
		b, _ = json.MarshalIndent(map[string]any{"property": r.ID, "seed": r.seed, "key": key, "what": what, "case": fmt.Sprintf("%+v", replay)}, "", " ")
	}
	_ = os.WriteFile(path, b, 0o644)
	return path
}

// Guard runs one case and converts a panic raised below into a verdict: a panic whose
// innermost non-runtime frame belongs to the repository (not to a harness file) is a
// violation of the property being exercised (the operation could not give the answer the
// oracle demands); a panic inside harness code is inconclusive.
func (r *Run) Guard(caseDesc any, f func()) (panicked bool) {
	defer func() {
		if p := recover(); p != nil {
			panicked = true
			st := string(debug.Stack())
			fr := firstFrame(st)
			if strings.Contains(fr, "zz_verif") || strings.Contains(fr, "verifkit") {
				r.Inconclusive(fmt.Sprintf("harness panic: %v at %s", p, fr))
				r.t.Logf("harness panic stack:\n%s", st)
				return
			}
			r.Violation("panic|"+fr, fmt.Sprintf("panic in code under test: %v", p), map[string]any{"case": caseDesc, "stack": st})
		}
	}()
	f()
	return false
}

// firstFrame extracts the function name of the frame that panicked.
func firstFrame(st string) string {
	lines := strings.Split(st, "\n")
	seenPanic := false
	for i := 0; i < len(lines); i++ {
		l := lines[i]
		if strings.HasPrefix(l, "panic(") {
			seenPanic = true
			continue
		}
		if !seenPanic || strings.HasPrefix(l, "\t") || strings.HasPrefix(l, "goroutine ") || l == "" {
			continue
		}
		if strings.HasPrefix(l, "runtime.") || strings.HasPrefix(l, "runtime/") {
			continue
		}
		fn := l
		if j := strings.LastIndex(fn, "("); j > 0 {
			fn = fn[:j]
		}
		file := ""
		if i+1 < len(lines) {
			file = strings.TrimSpace(lines[i+1])
			if j := strings.Index(file, " "); j > 0 {
				file = file[:j]
			}
			if j := strings.LastIndex(file, ":"); j > 0 {
				file = file[:j]
			}
			file = filepath.Base(file)
		}
		return fn + "@" + file
	}
	return "unknown"
}

// Finish writes the evidence (part) file and fails the test when violations were seen.
// A run that observed fewer than two distinct non-trivial cases is inconclusive.
func (r *Run) Finish() {
	r.mu.Lock()
	if r.finished {
		r.mu.Unlock()
		return
	}
	r.finished = true
	if len(r.distinct) < 2 || r.evals < 1 {
		r.inconcl = append(r.inconcl, "too few distinct non-trivial cases observed")
		fmt.Printf("INCONCLUSIVE property=%s reason=too few distinct non-trivial cases observed (%d)\n", r.ID, len(r.distinct))
	}
	if len(r.samples) == 0 {
		for _, sg := range r.sigSamples {
			r.samples = append(r.samples, map[string]any{"case_signature": sg})
		}
	}
	if r.samples == nil {
		r.samples = []any{}
	}
	// Some monitors count whole cases (histories) with Eval and hand one signature per judged
	// checkpoint of a case to Distinct.  The evidence reports both numbers at the granularity
	// of the signatures, so that distinct_nontrivial is a subset count of evaluations.
	if r.sigCalls > r.evals {
		r.counters["cases_run"] = r.evals
		r.evals = r.sigCalls
		r.rule += " [evaluations = judged checkpoints (one signature each); cases_run = whole cases/histories]"
	}
	cov := map[string]any{
		"evaluations":         r.evals,
		"distinct_nontrivial": len(r.distinct),
		"rule":                r.rule,
		"samples":             r.samples,
	}
	if r.exhaustive {
		cov["exhaustive"] = true
	}
	keys := make([]string, 0, len(r.counters))
	for k := range r.counters {
		keys = append(keys, k)
	}
	sort.Strings(keys)
	obs := map[string]any{}
	for _, k := range keys {
		obs[k] = r.counters[k]
	}
	for name, m := range r.sets {
		if len(m) <= 40 {
			l := make([]string, 0, len(m))
			for k := range m {
				l = append(l, k)
			}
			sort.Strings(l)
			obs[name] = l
		}
		obs[name+"_count"] = len(m)
	}
	cov["observed"] = obs
	if len(r.knownHits) > 0 {
		cov["known_findings_hit"] = r.knownHits
	}
	if len(r.inconcl) > 0 {
		cov["inconclusive"] = r.inconcl
	}
	if len(r.vioKeys) > 0 {
		cov["violation_keys"] = r.vioKeys
	}
	doc := map[string]any{
		"property_id": r.ID,
		"tier":        r.tier,
		"seed":        int64(r.seed & 0x7fffffffffffffff),
		"level":       r.Level,
		"coverage":    cov,
		"assumptions": append([]string{"go " + runtime.Version()}, r.assumptions...),
		"wall_s":      time.Since(r.start).Seconds(),
		"violations":  r.violations,
	}
	v, inc := r.violations, len(r.inconcl)
	r.mu.Unlock()

	if p := os.Getenv("VERIF_EVIDENCE"); p != "" {
		b, err := json.MarshalIndent(doc, "", " ")
		if err != nil {
			// a sample was not serialisable: degrade samples to strings
			ss := make([]any, 0, len(r.samples))
			for _, s := range r.samples {
				ss = append(ss, fmt.Sprintf("%+v", s))
			}
			cov["samples"] = ss
			b, err = json.MarshalIndent(doc, "", " ")
		}
		if err == nil {
			_ = os.MkdirAll(filepath.Dir(p), 0o755)
			if err := os.WriteFile(p, b, 0o644); err != nil {
				r.t.Errorf("verifkit: write evidence: %v", err)
			}
		} else {
			r.t.Errorf("verifkit: marshal evidence: %v", err)
		}
	}
	fmt.Printf("VERIF-SUMMARY property=%s tier=%s seed=%d evaluations=%d distinct=%d violations=%d inconclusive=%d wall=%.1fs\n",
		r.ID, r.tier, r.seed, r.evals, len(r.distinct), v, inc, time.Since(r.start).Seconds())
	if v > 0 {
		r.t.Errorf("%d violation(s) of %s", v, r.ID)
	}
}
