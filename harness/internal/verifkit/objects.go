package verifkit

import (
	"crypto/sha256"
	"math/rand/v2"
	"strconv"

	"github.com/nspcc-dev/neofs-sdk-go/checksum"
	cid "github.com/nspcc-dev/neofs-sdk-go/container/id"
	"github.com/nspcc-dev/neofs-sdk-go/object"
	oid "github.com/nspcc-dev/neofs-sdk-go/object/id"
	"github.com/nspcc-dev/neofs-sdk-go/user"
	"github.com/nspcc-dev/neofs-sdk-go/version"
)

// RandBytes returns n deterministic bytes from rng.
func RandBytes(rng *rand.Rand, n int) []byte {
	b := make([]byte, n)
	for i := range b {
		b[i] = byte(rng.Uint32())
	}
	return b
}

// RandCID / RandOID / RandUser derive deterministic identifiers from rng.
func RandCID(rng *rand.Rand) cid.ID {
	var id cid.ID
	copy(id[:], RandBytes(rng, 32))
	if id.IsZero() {
		id[0] = 1
	}
	return id
}

func RandOID(rng *rand.Rand) oid.ID {
	var id oid.ID
	copy(id[:], RandBytes(rng, 32))
	if id.IsZero() {
		id[0] = 1
	}
	return id
}

func RandUser(rng *rand.Rand) user.ID {
	var h [20]byte
	copy(h[:], RandBytes(rng, 20))
	return user.NewFromScriptHash(h)
}

// NewObject builds a REGULAR object with a synthetic (not content-derived) ID, a payload
// of payloadLen deterministic bytes, matching size and SHA256 checksum, current version.
// Good for storage-level monitors (metabase, blobstor, shard, engine) which do not
// re-validate IDs/signatures.
func NewObject(rng *rand.Rand, cnr cid.ID, owner user.ID, payloadLen int) *object.Object {
	payload := RandBytes(rng, payloadLen)
	obj := object.New(cnr, owner)
	ver := version.Current()
	obj.SetVersion(&ver)
	obj.SetID(RandOID(rng))
	obj.SetPayload(payload)
	obj.SetPayloadSize(uint64(len(payload)))
	obj.SetPayloadChecksum(checksum.NewSHA256(sha256.Sum256(payload)))
	obj.SetCreationEpoch(0)
	return obj
}

// AddAttr appends a user/system attribute.
func AddAttr(obj *object.Object, k, v string) {
	obj.SetAttributes(append(obj.Attributes(), object.NewAttribute(k, v))...)
}

// SetExpiration sets __NEOFS__EXPIRATION_EPOCH.
func SetExpiration(obj *object.Object, epoch uint64) {
	AddAttr(obj, object.AttributeExpirationEpoch, strconv.FormatUint(epoch, 10))
}

// Addr returns the address of obj.
func Addr(obj *object.Object) oid.Address {
	return oid.NewAddress(obj.GetContainerID(), obj.GetID())
}
