//go:build verif

package object

// C41, wire part: the fast header paths of wire.go against full decoding
// (object.Object.Unmarshal).
//
// What is demanded (read off the property text, see /verif/notes/C41.md):
//
//  1. canonical encodings (the bytes object.Marshal produces, i.e. what the node stores and
//     sends): every fast path succeeds and returns exactly what full decoding returns;
//  2. prefixes of canonical encodings (every truncation position; the output of
//     WriteWithoutPayload): a fast path may only report what the complete object contains.
//     A field that lies wholly inside the prefix is reported with its true bounds/value, a
//     field that is absent or starts behind the cut is reported missing, a field that is cut
//     in the middle makes the call fail.  Once the whole non-payload part is inside the
//     prefix the call has to succeed (that is the "payload prefix" use of these functions);
//  3. any input at all (mutated, random): no panic, no process-fatal error, reported bounds
//     lie inside the input; a located parent field (a member of header.split by the message
//     definition) lies inside a split field that lies inside a header field of that input.
//
// Nothing is demanded about the *value* returned for a byte string that full decoding
// accepts but no encoder produces (repeated, unordered or unknown fields): the fast paths
// document that they rely on ascending field order and the property speaks about encoded
// objects.  How often the fast paths refuse / agree / differ on such input is only counted.
//
// All inputs are executed in child processes which record each input on disk first, so
// that a process-fatal runtime error (checkptr under -race in the thorough tier) is
// reported with the input that caused it.

import (
	"bytes"
	"encoding/json"
	"fmt"
	"io"
	"math/rand/v2"
	"strings"
	"testing"
	"time"

	"github.com/nspcc-dev/neofs-node/internal/verifkit"
	"github.com/nspcc-dev/neofs-node/internal/vf41"
	"github.com/nspcc-dev/neofs-sdk-go/object"
	protoobject "github.com/nspcc-dev/neofs-sdk-go/proto/object"
	iprotobuf "github.com/nspcc-dev/neofs-sdk-go/proto/protobuf"
	"github.com/nspcc-dev/neofs-sdk-go/proto/refs"
	"google.golang.org/protobuf/encoding/protowire"
	"google.golang.org/protobuf/proto"
)

type vf41Stable interface {
	MarshaledSize() int
	MarshalStable([]byte)
}

func vf41Bytes(m vf41Stable) []byte {
	b := make([]byte, m.MarshaledSize())
	m.MarshalStable(b)
	return b
}

// vf41Full is the reference: the result of fully decoding x.
type vf41Full struct {
	ok        bool
	canonical bool // x is exactly the encoding the node itself produces for the decoded object
	obj       object.Object
	msg       *protoobject.Object
	hdrBin    []byte // canonical encoding of the decoded object without payload
	panicked  bool
}

func vf41Decode(x []byte) (f vf41Full) {
	defer func() {
		if recover() != nil {
			f = vf41Full{panicked: true}
		}
	}()
	if err := f.obj.Unmarshal(x); err != nil {
		return vf41Full{}
	}
	f.ok = true
	f.canonical = bytes.Equal(f.obj.Marshal(), x)
	f.msg = f.obj.ProtoMessage()
	f.hdrBin = f.obj.CutPayload().Marshal()
	return f
}

// ---------------------------------------------------------------------------------
// independent layout of a canonical encoding (field numbers from the NeoFS API object.proto)

const (
	vf41NumID, vf41NumSig, vf41NumHdr, vf41NumPayload = 1, 2, 3, 4
	vf41NumHdrPayloadLen, vf41NumHdrType, vf41NumSplit = 5, 7, 11
	vf41NumSplitParent, vf41NumSplitParentSig          = 1, 3
	vf41NumSplitParentHdr                              = 4
)

type vf41Ext struct {
	from, valFrom, to int
	ok                bool
}

// vf41Find walks the message b[from:to] and returns the extent of its first field num.
func vf41Find(b []byte, from, to int, num protowire.Number) vf41Ext {
	off := from
	for off < to {
		n, typ, tl := protowire.ConsumeTag(b[off:to])
		if tl < 0 {
			return vf41Ext{}
		}
		vl := protowire.ConsumeFieldValue(n, typ, b[off+tl:to])
		if vl < 0 {
			return vf41Ext{} // incomplete last field (the length-only payload field of WriteWithoutPayload)
		}
		if n == num {
			vf := off + tl
			if typ == protowire.BytesType {
				_, k := protowire.ConsumeVarint(b[off+tl : to])
				vf += k
			}
			return vf41Ext{off, vf, off + tl + vl, true}
		}
		off += tl + vl
	}
	return vf41Ext{}
}

// vf41AllLen returns the value ranges of every LEN field num of the message b[from:to], as
// far as an independent walk gets (it stops at the first field it cannot consume).
func vf41AllLen(b []byte, from, to int, num protowire.Number) [][2]int {
	var out [][2]int
	off := from
	for off < to {
		n, typ, tl := protowire.ConsumeTag(b[off:to])
		if tl < 0 {
			break
		}
		vl := protowire.ConsumeFieldValue(n, typ, b[off+tl:to])
		if vl < 0 {
			break
		}
		if n == num && typ == protowire.BytesType {
			_, k := protowire.ConsumeVarint(b[off+tl : to])
			out = append(out, [2]int{off + tl + k, off + tl + vl})
		}
		off += tl + vl
	}
	return out
}

func vf41Within(f iprotobuf.FieldBounds, rs [][2]int) bool {
	for _, r := range rs {
		if f.From >= r[0] && f.To <= r[1] {
			return true
		}
	}
	return false
}

type vf41Layout struct {
	id, sig, hdr    vf41Ext
	pid, psig, phdr vf41Ext // parent fields inside header.split
	plen, typ       vf41Ext // header.payload_length, header.object_type
	pstart          int     // offset of the first payload byte; len(bin) without payload field
}

func vf41LayoutOf(bin []byte) vf41Layout {
	var l vf41Layout
	l.id = vf41Find(bin, 0, len(bin), vf41NumID)
	l.sig = vf41Find(bin, 0, len(bin), vf41NumSig)
	l.hdr = vf41Find(bin, 0, len(bin), vf41NumHdr)
	l.pstart = len(bin)
	if p := vf41Find(bin, 0, len(bin), vf41NumPayload); p.ok {
		l.pstart = p.valFrom
	}
	if l.hdr.ok {
		l.plen = vf41Find(bin, l.hdr.valFrom, l.hdr.to, vf41NumHdrPayloadLen)
		l.typ = vf41Find(bin, l.hdr.valFrom, l.hdr.to, vf41NumHdrType)
		if sp := vf41Find(bin, l.hdr.valFrom, l.hdr.to, vf41NumSplit); sp.ok {
			l.pid = vf41Find(bin, sp.valFrom, sp.to, vf41NumSplitParent)
			l.psig = vf41Find(bin, sp.valFrom, sp.to, vf41NumSplitParentSig)
			l.phdr = vf41Find(bin, sp.valFrom, sp.to, vf41NumSplitParentHdr)
		}
	}
	return l
}

// vf41Ref is what an input is judged against: the complete canonical encoding bin of a
// fully decoded object, its layout, and how much of it the input contains (cut).
type vf41Ref struct {
	full vf41Full
	bin  []byte
	lay  vf41Layout
	cut  int
}

// selfCheck verifies the harness' own layout against the decoded message.
func (r *vf41Ref) selfCheck() string {
	m := r.full.msg
	chk := func(name string, e vf41Ext, present bool, want vf41Stable) string {
		if e.ok != present {
			return fmt.Sprintf("%s presence %v vs %v", name, e.ok, present)
		}
		if present && !bytes.Equal(r.bin[e.valFrom:e.to], vf41Bytes(want)) {
			return name + " bytes"
		}
		return ""
	}
	if s := chk("id", r.lay.id, m.ObjectId != nil, m.ObjectId); s != "" {
		return s
	}
	if s := chk("sig", r.lay.sig, m.Signature != nil, m.Signature); s != "" {
		return s
	}
	if s := chk("hdr", r.lay.hdr, m.Header != nil, m.Header); s != "" {
		return s
	}
	var sp *protoobject.Header_Split
	if m.Header != nil {
		sp = m.Header.Split
	}
	if sp == nil {
		sp = new(protoobject.Header_Split)
	}
	if s := chk("parent id", r.lay.pid, sp.Parent != nil, sp.Parent); s != "" {
		return s
	}
	if s := chk("parent sig", r.lay.psig, sp.ParentSignature != nil, sp.ParentSignature); s != "" {
		return s
	}
	if s := chk("parent hdr", r.lay.phdr, sp.ParentHeader != nil, sp.ParentHeader); s != "" {
		return s
	}
	if r.lay.plen.ok != (r.full.obj.PayloadSize() != 0) || r.lay.typ.ok != (r.full.obj.Type() != 0) {
		return "payload length / type presence"
	}
	return ""
}

func vf41NewRef(bin []byte, full vf41Full, cut int) *vf41Ref {
	return &vf41Ref{full: full, bin: bin, lay: vf41LayoutOf(bin), cut: cut}
}

// ---------------------------------------------------------------------------------

type vf41Checker struct {
	c *vf41.Collector
}

func (k *vf41Checker) vio(fn, kind, class, what string, x []byte) {
	k.c.Violation(fmt.Sprintf("C41|%s|%s|%s", fn, class, kind), fmt.Sprintf("%s on %s input of %d bytes: %s", fn, kind, len(x), what), kind, x, "")
}

// vf41SemanticHeader re-encodes what a bounds-returning fast path located (used only for
// the statistics about decodable non-canonical input).
func vf41SemanticHeader(id, sig, hdr []byte, idSet, sigSet, hdrSet bool) ([]byte, error) {
	var m protoobject.Object
	if idSet {
		m.ObjectId = new(refs.ObjectID)
		if err := proto.Unmarshal(id, m.ObjectId); err != nil {
			return nil, err
		}
	}
	if sigSet {
		m.Signature = new(refs.Signature)
		if err := proto.Unmarshal(sig, m.Signature); err != nil {
			return nil, err
		}
	}
	if hdrSet {
		m.Header = new(protoobject.Header)
		if err := proto.Unmarshal(hdr, m.Header); err != nil {
			return nil, err
		}
	}
	var o object.Object
	if err := o.FromProtoMessage(&m); err != nil {
		return nil, err
	}
	return o.Marshal(), nil
}

func vf41Inside(n int, f iprotobuf.FieldBounds) bool {
	if f.IsMissing() {
		return true
	}
	return f.From >= 0 && f.ValueFrom > f.From && f.To >= f.ValueFrom && f.To <= n
}

// judgeField: got is what a fast path reported for a field whose true extent in ref.bin is
// ext, when it was given ref.bin[base:...cut].
func (k *vf41Checker) judgeField(fn, kind, name string, got iprotobuf.FieldBounds, base int, ext vf41Ext, cut int, x []byte) {
	if got.IsMissing() {
		if ext.ok && ext.from < cut {
			part := "wholly"
			if ext.to > cut {
				part = "partly"
			}
			k.vio(fn, kind, "reported-missing|"+name+"|"+part+"-present", fmt.Sprintf("field occupies [%d,%d) of the encoding, input ends at %d", ext.from, ext.to, cut), x)
		}
		return
	}
	want := iprotobuf.FieldBounds{From: ext.from - base, ValueFrom: ext.valFrom - base, To: ext.to - base}
	switch {
	case !ext.ok:
		k.vio(fn, kind, "reported-absent-field|"+name, fmt.Sprintf("got %+v, the object has no such field", got), x)
	case ext.to > cut:
		k.vio(fn, kind, "reported-cut-field|"+name, fmt.Sprintf("got %+v, the field ends at %d, input at %d", got, ext.to-base, cut-base), x)
	case got != want:
		k.vio(fn, kind, "bounds-differ|"+name, fmt.Sprintf("got %+v, want %+v", got, want), x)
	}
}

// judgeUint: same for a scalar header field (canonical encodings omit zero values).
func (k *vf41Checker) judgeUint(fn, kind string, got, want uint64, ext vf41Ext, cut int, x []byte) {
	switch {
	case ext.ok && ext.to <= cut:
		if got != want {
			k.vio(fn, kind, "value-differs", fmt.Sprintf("got %d, full decoding %d", got, want), x)
		}
	case !ext.ok || ext.from >= cut:
		if got != 0 {
			k.vio(fn, kind, "value-for-absent-field", fmt.Sprintf("got %d for a field that is not in the input", got), x)
		}
	default:
		k.vio(fn, kind, "value-from-cut-field", fmt.Sprintf("got %d without error, field occupies [%d,%d), input ends at %d", got, ext.from, ext.to, cut), x)
	}
}

// vf41ChunkReader hands out the data in seeded small pieces.
type vf41ChunkReader struct {
	b   []byte
	rng *rand.Rand
}

func (r *vf41ChunkReader) Read(p []byte) (int, error) {
	if len(r.b) == 0 {
		return 0, io.EOF
	}
	n := min(len(p), len(r.b), 1+r.rng.IntN(5000))
	copy(p, r.b[:n])
	r.b = r.b[n:]
	return n, nil
}

// check runs every fast path on x and judges it.  ref is nil for input that is not derived
// from a canonical encoding in a known way (mutated, random).
func (k *vf41Checker) check(x []byte, kind string, ref *vf41Ref, rng *rand.Rand) {
	c := k.c
	c.Begin(kind, x)
	full := vf41Decode(x)
	if full.panicked {
		c.Count("reference_decoder_panicked", 1)
	}
	selfCanon := full.ok && full.canonical && len(x) > 0 // empty input: the fast paths document an error
	if ref == nil && selfCanon {
		ref = vf41NewRef(x, full, len(x))
		c.Count("inputs_"+kind+"_that_are_canonical_encodings", 1)
	}
	c.Count("inputs_"+kind, 1)
	switch {
	case selfCanon:
		c.Count("inputs_fully_decodable_canonical", 1)
	case full.ok:
		c.Count("inputs_fully_decodable_noncanonical", 1)
	default:
		c.Count("inputs_not_decodable", 1)
	}
	complete := false
	if ref != nil {
		if s := ref.selfCheck(); s != "" {
			c.Violation("HARNESS-PANIC|layout-selfcheck", s, kind, x, "")
			return
		}
		complete = ref.cut >= ref.lay.pstart
		if complete && ref.cut < len(ref.bin) {
			c.Count("inputs_prefix_with_complete_non_payload_part", 1)
		}
	}
	mustSucceed := ref != nil && (complete || selfCanon)
	noncanon := full.ok && !full.canonical
	outcome := ""
	note := func(fn string, err error) {
		if err == nil {
			outcome += "+"
			c.Count(fn+"_ok", 1)
		} else {
			outcome += "-"
			c.Count(fn+"_err", 1)
		}
	}
	stat := func(fn, what string) {
		if noncanon {
			c.Count("observed_noncanonical_decodable|"+fn+"|"+what, 1)
		}
	}

	// judgeExtract judges a (header, payload prefix, error) answer given for ref.bin[:cut]
	judgeExtract := func(fn string, hdr *object.Object, prefix []byte, err error, cut int, self, exact bool) {
		compl := cut >= ref.lay.pstart
		if err != nil {
			if compl || self {
				cl := "error-for-valid"
				if cut < len(ref.bin) {
					cl = "error-for-prefix-with-complete-non-payload-part"
				}
				k.vio(fn, kind, cl, fmt.Sprintf("input holds %d of %d bytes, payload starts at %d: %v", cut, len(ref.bin), ref.lay.pstart, err), x)
			}
			return
		}
		if hdr == nil {
			k.vio(fn, kind, "nil-without-error", "nil header with nil error", x)
			return
		}
		got := hdr.CutPayload().Marshal()
		switch {
		case compl:
			if !bytes.Equal(got, ref.full.hdrBin) {
				k.vio(fn, kind, "header-differs-from-full-decoding", fmt.Sprintf("extracted header re-encodes to %d bytes, fully decoded one to %d", len(got), len(ref.full.hdrBin)), x)
			}
			if avail := ref.bin[ref.lay.pstart:cut]; (exact && !bytes.Equal(prefix, avail)) || !bytes.HasPrefix(avail, prefix) {
				k.vio(fn, kind, "payload-prefix-differs", fmt.Sprintf("input holds %d bytes, payload starts at %d: got %d bytes", cut, ref.lay.pstart, len(prefix)), x)
			}
			c.Count("agreement_checks_"+fn, 1)
		case self:
			if !bytes.Equal(got, full.hdrBin) {
				k.vio(fn, kind, "header-differs-from-full-decoding", "input cut at a field boundary", x)
			}
			if len(prefix) != 0 {
				k.vio(fn, kind, "payload-prefix-differs", fmt.Sprintf("%d payload bytes from an input without payload", len(prefix)), x)
			}
			c.Count("agreement_checks_"+fn, 1)
		default:
			k.vio(fn, kind, "success-on-cut-field", fmt.Sprintf("no error although the input ends at %d inside a non-payload field (payload starts at %d)", cut, ref.lay.pstart), x)
		}
	}

	// --- ExtractHeaderAndPayload
	c.Guard("ExtractHeaderAndPayload", kind, x, func() {
		hdr, prefix, err := ExtractHeaderAndPayload(x)
		note("ExtractHeaderAndPayload", err)
		if ref != nil {
			judgeExtract("ExtractHeaderAndPayload", hdr, prefix, err, ref.cut, selfCanon, true)
			return
		}
		switch {
		case err != nil:
			stat("ExtractHeaderAndPayload", "refused")
		case hdr == nil:
			k.vio("ExtractHeaderAndPayload", kind, "nil-without-error", "nil header with nil error", x)
		case noncanon && bytes.Equal(hdr.CutPayload().Marshal(), full.hdrBin) && bytes.Equal(prefix, full.obj.Payload()):
			stat("ExtractHeaderAndPayload", "same-as-full-decoding")
		default:
			stat("ExtractHeaderAndPayload", "other-than-full-decoding")
		}
	})

	// --- ReadHeaderPrefix: the same behind a reader.  How many bytes it reads is its own
	// business: the payload bytes it returns followed by what is left in the reader have to
	// be the payload.
	c.Guard("ReadHeaderPrefix", kind, x, func() {
		rd := &vf41ChunkReader{b: x, rng: rng}
		hdr, prefix, err := ReadHeaderPrefix(rd)
		note("ReadHeaderPrefix", err)
		prefix = append(bytes.Clone(prefix), rd.b...) // what the caller continues with
		if err == nil && hdr == nil {
			k.vio("ReadHeaderPrefix", kind, "nil-without-error", "nil header with nil error", x)
			return
		}
		if ref == nil {
			return
		}
		if err != nil && mustSucceed && min(ref.cut, ref.lay.pstart) > object.MaxHeaderLen {
			c.Count("inputs_whose_non_payload_part_exceeds_MaxHeaderLen", 1)
			c.Violation("C41|ReadHeaderPrefix|error-for-valid|id+signature+header-longer-than-read-limit", fmt.Sprintf("ReadHeaderPrefix on %s input of %d bytes: header of %d bytes (limit %d), but %d bytes precede the payload: %v", kind, len(x), ref.full.obj.HeaderLen(), object.MaxHeaderLen, ref.lay.pstart, err), kind, x, "")
			return
		}
		judgeExtract("ReadHeaderPrefix", hdr, prefix, err, ref.cut, selfCanon, true)
	})

	// --- GetNonPayloadFieldBounds
	var hdrBytes []byte
	c.Guard("GetNonPayloadFieldBounds", kind, x, func() {
		idf, sigf, hdrf, err := GetNonPayloadFieldBounds(x)
		note("GetNonPayloadFieldBounds", err)
		if err != nil {
			if mustSucceed {
				k.vio("GetNonPayloadFieldBounds", kind, "error-for-valid", err.Error(), x)
			}
			stat("GetNonPayloadFieldBounds", "refused")
			return
		}
		if !vf41Inside(len(x), idf) || !vf41Inside(len(x), sigf) || !vf41Inside(len(x), hdrf) {
			k.vio("GetNonPayloadFieldBounds", kind, "bounds-outside-input", fmt.Sprintf("id=%+v sig=%+v hdr=%+v for %d bytes", idf, sigf, hdrf, len(x)), x)
			return
		}
		if !hdrf.IsMissing() {
			hdrBytes = x[hdrf.ValueFrom:hdrf.To]
		}
		if ref != nil {
			k.judgeField("GetNonPayloadFieldBounds", kind, "id", idf, 0, ref.lay.id, ref.cut, x)
			k.judgeField("GetNonPayloadFieldBounds", kind, "signature", sigf, 0, ref.lay.sig, ref.cut, x)
			k.judgeField("GetNonPayloadFieldBounds", kind, "header", hdrf, 0, ref.lay.hdr, ref.cut, x)
			c.Count("agreement_checks_GetNonPayloadFieldBounds", 1)
			return
		}
		if noncanon {
			var id, sig []byte
			if !idf.IsMissing() {
				id = x[idf.ValueFrom:idf.To]
			}
			if !sigf.IsMissing() {
				sig = x[sigf.ValueFrom:sigf.To]
			}
			if sem, err := vf41SemanticHeader(id, sig, hdrBytes, !idf.IsMissing(), !sigf.IsMissing(), !hdrf.IsMissing()); err == nil && bytes.Equal(sem, full.hdrBin) {
				stat("GetNonPayloadFieldBounds", "same-as-full-decoding")
			} else {
				stat("GetNonPayloadFieldBounds", "other-than-full-decoding")
			}
		}
	})

	// --- GetParentNonPayloadFieldBounds (object buffer)
	parentCheck := func(fn string, buf []byte, base int, isHeader bool, call func([]byte) (iprotobuf.FieldBounds, iprotobuf.FieldBounds, iprotobuf.FieldBounds, error), judge, must bool) {
		c.Guard(fn, kind, x, func() {
			idf, sigf, hdrf, err := call(buf)
			note(fn, err)
			if err != nil {
				if judge && must && len(buf) > 0 {
					k.vio(fn, kind, "error-for-valid", err.Error(), x)
				}
				return
			}
			if !vf41Inside(len(buf), idf) || !vf41Inside(len(buf), sigf) || !vf41Inside(len(buf), hdrf) {
				k.vio(fn, kind, "bounds-outside-input", fmt.Sprintf("id=%+v sig=%+v hdr=%+v for %d bytes", idf, sigf, hdrf, len(buf)), x)
				return
			}
			// The parent's ID, signature and header are members of header.split: whatever is
			// reported as one of them has to lie inside a split field that lies inside a header
			// field of this very input (as an independent walk of the input sees them).  A field
			// whose declared length runs over the end of its enclosing message is malformed and
			// must not be located.
			if !idf.IsMissing() || !sigf.IsMissing() || !hdrf.IsMissing() {
				hdrs := [][2]int{{0, len(buf)}}
				if !isHeader {
					hdrs = vf41AllLen(buf, 0, len(buf), vf41NumHdr)
				}
				var splits [][2]int
				for _, h := range hdrs {
					splits = append(splits, vf41AllLen(buf, h[0], h[1], vf41NumSplit)...)
				}
				for _, g := range []struct {
					name string
					f    iprotobuf.FieldBounds
				}{{"parent-id", idf}, {"parent-signature", sigf}, {"parent-header", hdrf}} {
					switch {
					case g.f.IsMissing():
					case len(hdrs) == 0 || (len(splits) == 0 && vf41Within(g.f, hdrs)):
						c.Count("parent_fields_located_where_the_walker_sees_no_enclosing_message", 1) // walker stricter than the parser: not judged
					case !vf41Within(g.f, hdrs):
						k.vio(fn, kind, "located-field-outside-enclosing-message|"+g.name+"|outside-header", fmt.Sprintf("got %+v, header value(s) %v of %d bytes", g.f, hdrs, len(buf)), x)
					case !vf41Within(g.f, splits):
						k.vio(fn, kind, "located-field-outside-enclosing-message|"+g.name+"|outside-split-header", fmt.Sprintf("got %+v, split header value(s) %v", g.f, splits), x)
					default:
						c.Count("parent_fields_located_inside_enclosing_split_header", 1)
					}
				}
			}
			if !judge {
				return
			}
			k.judgeField(fn, kind, "parent-id", idf, base, ref.lay.pid, ref.cut, x)
			k.judgeField(fn, kind, "parent-signature", sigf, base, ref.lay.psig, ref.cut, x)
			k.judgeField(fn, kind, "parent-header", hdrf, base, ref.lay.phdr, ref.cut, x)
			c.Count("agreement_checks_"+fn, 1)
			if (ref.lay.pid.ok && ref.lay.pid.to <= ref.cut) || (ref.lay.psig.ok && ref.lay.psig.to <= ref.cut) || (ref.lay.phdr.ok && ref.lay.phdr.to <= ref.cut) {
				c.Count("agreement_checks_with_parent_fields", 1)
			}
		})
	}
	parentCheck("GetParentNonPayloadFieldBounds", x, 0, false, GetParentNonPayloadFieldBounds, ref != nil, mustSucceed)

	// --- header-level functions on the (possibly cut) header of the reference encoding
	if ref != nil && ref.lay.hdr.ok && ref.lay.hdr.valFrom < ref.cut {
		h := ref.bin[ref.lay.hdr.valFrom:min(ref.lay.hdr.to, ref.cut)]
		hdrComplete := ref.cut >= ref.lay.hdr.to
		if !hdrComplete {
			c.Count("header_level_calls_on_cut_header", 1)
		}
		c.Guard("GetPayloadLengthHeader", kind, x, func() {
			v, err := GetPayloadLengthHeader(h)
			note("GetPayloadLengthHeader", err)
			if err != nil {
				if hdrComplete {
					k.vio("GetPayloadLengthHeader", kind, "error-for-valid", err.Error(), x)
				}
				return
			}
			k.judgeUint("GetPayloadLengthHeader", kind, v, ref.full.obj.PayloadSize(), ref.lay.plen, ref.cut, x)
			c.Count("agreement_checks_GetPayloadLengthHeader", 1)
		})
		c.Guard("GetTypeHeader", kind, x, func() {
			v, err := GetTypeHeader(h)
			note("GetTypeHeader", err)
			if err != nil {
				if hdrComplete {
					k.vio("GetTypeHeader", kind, "error-for-valid", err.Error(), x)
				}
				return
			}
			k.judgeUint("GetTypeHeader", kind, uint64(uint32(v)), uint64(uint32(ref.full.obj.Type())), ref.lay.typ, ref.cut, x)
			c.Count("agreement_checks_GetTypeHeader", 1)
			c.Seen("object_types_agreed_on", fmt.Sprint(v))
		})
		parentCheck("GetParentNonPayloadFieldBoundsHeader", h, ref.lay.hdr.valFrom, true, GetParentNonPayloadFieldBoundsHeader, true, hdrComplete)
	}

	// --- header-level functions on arbitrary bytes: x itself taken as a header, and whatever
	// GetNonPayloadFieldBounds located in an input that is not judged above
	hdrInputs := [][]byte{x}
	if hdrBytes != nil && ref == nil {
		hdrInputs = append(hdrInputs, hdrBytes)
	}
	for i, h := range hdrInputs {
		c.Guard("GetPayloadLengthHeader", kind, x, func() {
			v, err := GetPayloadLengthHeader(h)
			if i == 1 && err == nil && noncanon && full.msg.Header != nil {
				if v == full.obj.PayloadSize() {
					stat("GetPayloadLengthHeader", "same-as-full-decoding")
				} else {
					stat("GetPayloadLengthHeader", "other-than-full-decoding")
				}
			}
		})
		c.Guard("GetTypeHeader", kind, x, func() {
			v, err := GetTypeHeader(h)
			if i == 1 && err == nil && noncanon && full.msg.Header != nil {
				if v == full.obj.Type() {
					stat("GetTypeHeader", "same-as-full-decoding")
				} else {
					stat("GetTypeHeader", "other-than-full-decoding")
				}
			}
		})
		parentCheck("GetParentNonPayloadFieldBoundsHeader", h, 0, true, GetParentNonPayloadFieldBoundsHeader, false, false)
		c.Count("header_level_calls_on_arbitrary_bytes", 3)
	}

	c.DistinctSig(fmt.Sprintf("%s|decodable=%v|canonical=%v|judged=%v|%s", kind, full.ok, full.canonical, ref != nil, outcome))
}

// vf41Child executes one batch.
func vf41Child(t *testing.T, specJSON string) {
	var spec vf41.Spec
	if err := json.Unmarshal([]byte(specJSON), &spec); err != nil {
		t.Fatal(err)
	}
	r := verifkit.Start(t, "C41", "exploration") // only for the seeded RNG streams
	c, err := vf41.NewCollector(spec.Cur)
	if err != nil {
		t.Fatal(err)
	}
	k := &vf41Checker{c: c}
	var pool [][]byte // valid encodings to cut and mutate
	newValid := func(rng *rand.Rand) []byte {
		for range 20 {
			o := vf41.Object(rng)
			if o.HeaderLen() > object.MaxHeaderLen {
				c.Count("generator_rejects_header_over_limit", 1)
				continue
			}
			b := o.Marshal()
			if f := vf41Decode(b); f.ok && f.canonical && len(b) > 0 {
				return b
			}
			c.Count("generator_rejects", 1)
		}
		return nil
	}
	sweep := func(b []byte, rng *rand.Rand) int {
		full := vf41Decode(b)
		for cut := 0; cut < len(b); cut++ {
			k.check(b[:cut], "truncated", vf41NewRef(b, full, cut), rng)
		}
		c.Count("encodings_truncated_at_every_position", 1)
		return len(b)
	}
	// retargetSweep: every LEN field of b down to the fields of the parent header, its
	// declared length re-aimed at every boundary (ends of the enclosing messages and of the
	// buffer, +-1, in between, empty, huge) while all other bytes stay as they are.
	retargetSweep := func(b []byte, rng *rand.Rand) int {
		n := 0
		for _, f := range vf41.LenFields(b, 3) {
			inSplit := strings.HasPrefix(f.Path, "3.11.") && f.Depth == 2
			for _, tg := range vf41.Retargets(b, f) {
				k.check(vf41.ApplyRetarget(b, f, tg), "len-retargeted", nil, rng)
				n++
				c.Seen("len_retarget_aims", tg.Name)
				c.Count(fmt.Sprintf("len_retargets_at_depth_%d", f.Depth), 1)
				if inSplit {
					c.Count("len_retargets_of_split_header_members", 1)
					if end := f.ValFrom + int(min(tg.Len, 1<<30)); end > f.Ends[0] && end <= len(b) {
						c.Count("len_retargets_of_split_header_members_overrunning_the_split_header_inside_the_buffer", 1)
					}
				}
			}
		}
		c.Count("encodings_with_every_nested_length_retargeted", 1)
		return n
	}
	for i := 0; i < spec.N; {
		rng := r.Rand(fmt.Sprintf("batch-%d", spec.Batch), i)
		switch sel := rng.IntN(100); {
		case sel < 12 || len(pool) == 0: // valid object
			b := newValid(rng)
			if b == nil {
				i++
				continue
			}
			if len(pool) < 64 {
				pool = append(pool, b)
			} else {
				pool[rng.IntN(len(pool))] = b
			}
			f := vf41Decode(b)
			k.check(b, "valid", vf41NewRef(b, f, len(b)), rng)
			i++
			if h := f.msg.Header; h != nil && h.SessionTokenV2 != nil {
				c.Count("valid_objects_with_session_token_v2", 1)
				if h.Split != nil {
					c.Count("valid_objects_whose_split_header_is_not_the_tail_of_the_header", 1)
				}
			}
			if spec.Batch == 0 && i < 40 {
				c.Sample(map[string]any{"kind": "valid", "len": len(b), "has_parent_header": f.msg.Header != nil && f.msg.Header.Split != nil && f.msg.Header.Split.ParentHeader != nil, "payload_len": len(f.obj.Payload())})
			}
			// the same object as WriteWithoutPayload emits it
			var w bytes.Buffer
			var werr error
			c.Guard("WriteWithoutPayload", "valid", b, func() { werr = WriteWithoutPayload(&w, f.obj) })
			if out := w.Bytes(); werr == nil && len(out) > 0 {
				if !bytes.HasPrefix(out, f.hdrBin) {
					k.vio("WriteWithoutPayload", "header-only", "output-does-not-start-with-non-payload-part", "", out)
				} else {
					ref := vf41NewRef(out, f, len(out))
					ref.lay.pstart = len(out)
					k.check(out, "header-only", ref, rng)
					i++
				}
			}
		case sel < 14: // every truncation of a (small) valid encoding
			b := pool[rng.IntN(len(pool))]
			if len(b) > 1500 {
				b = newValid(rng)
				if b == nil || len(b) > 1500 {
					i++
					continue
				}
			}
			i += sweep(b, rng)
		case sel < 20: // truncation of any valid encoding at a random position, biased to the field boundaries
			b := pool[rng.IntN(len(pool))]
			full := vf41Decode(b)
			ref := vf41NewRef(b, full, 0)
			cut := rng.IntN(len(b) + 1)
			if rng.IntN(3) == 0 {
				marks := []int{ref.lay.pstart, ref.lay.hdr.to, ref.lay.hdr.valFrom, ref.lay.sig.to, ref.lay.id.to, ref.lay.phdr.to, ref.lay.phdr.valFrom, object.MaxHeaderLen}
				cut = min(len(b), max(0, marks[rng.IntN(len(marks))]+rng.IntN(5)-2))
			}
			ref.cut = cut
			k.check(b[:cut], "truncated", ref, rng)
			i++
		case sel < 21: // every nested length of a valid encoding re-aimed at every boundary
			b := pool[rng.IntN(len(pool))]
			if len(b) > 4000 {
				b = newValid(rng)
				if b == nil || len(b) > 4000 {
					i++
					continue
				}
			}
			i += max(1, retargetSweep(b, rng))
		case sel < 85: // mutated valid encoding
			m, ops := vf41.Mutate(rng, pool[rng.IntN(len(pool))])
			for _, op := range ops {
				c.Seen("mutation_steps", op[:min(len(op), 24)])
			}
			k.check(m, "mutated", nil, rng)
			i++
		default:
			k.check(vf41.RandomBytes(rng), "random", nil, rng)
			i++
		}
	}
	{
		// objects whose header is as long as allowed: complete, header-only, cut around the payload start
		rng := r.Rand("max-header", spec.Batch)
		o := vf41.MaxHeaderObject(rng, 5000)
		b := o.Marshal()
		if f := vf41Decode(b); f.ok && f.canonical && o.HeaderLen() <= object.MaxHeaderLen && o.HeaderLen() > object.MaxHeaderLen-8 {
			k.check(b, "valid", vf41NewRef(b, f, len(b)), rng)
			ref := vf41NewRef(b, f, 0)
			for cut := ref.lay.pstart - 3; cut <= min(len(b), ref.lay.pstart+3); cut++ {
				k.check(b[:cut], "truncated", vf41NewRef(b, f, cut), rng)
			}
			c.Count("maximal_header_objects", 1)
		}
	}
	if spec.Batch == 0 {
		// one sweep over an encoding with a near-maximal header, so that cuts around the
		// ReadHeaderPrefix limit are all visited
		rng := r.Rand("big-sweep", 0)
		for range 200 {
			if b := newValid(rng); b != nil && len(b) > object.MaxHeaderLen-2000 && len(b) < object.MaxHeaderLen+3000 {
				full := vf41Decode(b)
				for cut := object.MaxHeaderLen - 300; cut < len(b); cut++ {
					k.check(b[:cut], "truncated", vf41NewRef(b, full, cut), rng)
				}
				c.Count("near_limit_encodings_truncated_around_MaxHeaderLen", 1)
				break
			}
		}
	}
	if err := c.Save(spec.Out); err != nil {
		t.Fatal(err)
	}
}

func TestVerif_C41(t *testing.T) {
	if spec, ok := verifkit.ChildSpec(); ok {
		vf41Child(t, spec)
		return
	}
	r := verifkit.Start(t, "C41", "exploration")
	defer r.Finish()
	nBatches, perBatch := r.Pick(4, 16), r.Pick(30000, 40000)
	r.SetRule(fmt.Sprintf("%d child processes x %d inputs: generated valid objects (with/without id, signature, header, payload, split and parent fields, near-maximal headers) as Marshal and as WriteWithoutPayload emit them, their encodings truncated at every position, 1-3 structure-aware (duplicate/swap/extra field, varint and tag rewrite, overlong varint, emptied value, with lengths re-encoded or left stale) or byte-level mutations, the declared length of every (nested, down to the members of the parent header) LEN field re-aimed at every boundary of its enclosing messages and of the buffer with all other lengths left as they are (systematic sweeps and as a random mutation step), random strings; every input goes through ExtractHeaderAndPayload, ReadHeaderPrefix (chunked reader), GetNonPayloadFieldBounds, GetParentNonPayloadFieldBounds(+Header), GetPayloadLengthHeader, GetTypeHeader and is judged against object.Unmarshal of the complete object; distinct = (input kind, fully decodable, canonical, judged against a reference, ok/error pattern of the fast paths)", nBatches, perBatch))
	r.Assume("agreement is demanded for canonical encodings (the bytes the node itself produces) and their prefixes; for byte strings that decode but that no encoder emits (repeated/unordered/unknown fields) only absence of panics and in-range bounds are demanded, the refuse/agree/differ statistics are reported under observed_noncanonical_decodable|*")
	vf41.RunBatches(t, r, "TestVerif_C41", "wire", nBatches, perBatch, 25*time.Minute)
	if r.Counter("len_retargets_of_split_header_members_overrunning_the_split_header_inside_the_buffer") == 0 || r.Counter("parent_fields_located_inside_enclosing_split_header") == 0 {
		r.Inconclusive("no input in which a member of the split header overruns the split header while fitting the buffer, or no located parent field was checked against its enclosing messages")
	}
	if r.Counter("agreement_checks_with_parent_fields") == 0 || r.Counter("encodings_truncated_at_every_position") == 0 || r.Counter("inputs_prefix_with_complete_non_payload_part") == 0 || r.Counter("maximal_header_objects") == 0 {
		r.Inconclusive("no object with parent fields, no full truncation sweep, no payload-prefix input or no maximal-header object was executed")
	}
}
