//go:build verif

package object

// C41, wire part: the fast header paths of wire.go against full decoding
// (object.Object.Unmarshal) on generated valid objects, every truncation of their
// encodings, structure-aware and byte-level mutations and random strings.  All inputs are
// executed in child processes which record each input on disk first, so that a
// process-fatal runtime error (checkptr under -race in the thorough tier) is reported with
// the input that caused it.

import (
	"bytes"
	"encoding/json"
	"fmt"
	"math/rand/v2"
	"testing"
	"time"

	"github.com/nspcc-dev/neofs-node/internal/verifkit"
	"github.com/nspcc-dev/neofs-node/internal/vf41"
	"github.com/nspcc-dev/neofs-sdk-go/object"
	protoobject "github.com/nspcc-dev/neofs-sdk-go/proto/object"
	iprotobuf "github.com/nspcc-dev/neofs-sdk-go/proto/protobuf"
	"github.com/nspcc-dev/neofs-sdk-go/proto/refs"
	"google.golang.org/protobuf/proto"
)

type vf41Stable interface {
	MarshaledSize() int
	MarshalStable([]byte)
}

func vf41Bytes(m vf41Stable) []byte {
	b := make([]byte, m.MarshaledSize())
	m.MarshalStable(b)
	return b
}

// vf41Full is the reference: the result of fully decoding x.
type vf41Full struct {
	ok        bool
	canonical bool // x is exactly the encoding the node itself produces for the decoded object
	obj       object.Object
	msg       *protoobject.Object
	hdrBin    []byte // canonical encoding of the decoded object without payload
	panicked  bool
}

func vf41Decode(x []byte) (f vf41Full) {
	defer func() {
		if recover() != nil {
			f = vf41Full{panicked: true}
		}
	}()
	if err := f.obj.Unmarshal(x); err != nil {
		return vf41Full{}
	}
	f.ok = true
	f.canonical = bytes.Equal(f.obj.Marshal(), x)
	f.msg = f.obj.ProtoMessage()
	f.hdrBin = f.obj.CutPayload().Marshal()
	return f
}

// vf41Orig describes the valid encoding a truncated input was cut from.
type vf41Orig struct {
	full   vf41Full
	bin    []byte
	pstart int // offset of the first payload byte (len(bin) when there is no payload)
	cut    int
}

type vf41Checker struct {
	c *vf41.Collector
}

func (k *vf41Checker) vio(fn, kind, class, what string, x []byte) {
	k.c.Violation(fmt.Sprintf("C41|%s|%s|%s", fn, class, kind), fmt.Sprintf("%s on %s input of %d bytes: %s", fn, kind, len(x), what), kind, x, "")
}

// sameObject compares the non-payload content located or extracted by a fast path with
// the full decoding on the semantic level (both re-encoded canonically).
func vf41SemanticHeader(id, sig, hdr []byte, idSet, sigSet, hdrSet bool) ([]byte, error) {
	var m protoobject.Object
	if idSet {
		m.ObjectId = new(refs.ObjectID)
		if err := proto.Unmarshal(id, m.ObjectId); err != nil {
			return nil, err
		}
	}
	if sigSet {
		m.Signature = new(refs.Signature)
		if err := proto.Unmarshal(sig, m.Signature); err != nil {
			return nil, err
		}
	}
	if hdrSet {
		m.Header = new(protoobject.Header)
		if err := proto.Unmarshal(hdr, m.Header); err != nil {
			return nil, err
		}
	}
	var o object.Object
	if err := o.FromProtoMessage(&m); err != nil {
		return nil, err
	}
	return o.Marshal(), nil
}

func vf41Cut(x []byte, f iprotobuf.FieldBounds) ([]byte, bool) {
	if f.IsMissing() {
		return nil, true
	}
	if f.From < 0 || f.ValueFrom < f.From || f.To < f.ValueFrom || f.To > len(x) {
		return nil, false
	}
	return x[f.ValueFrom:f.To], true
}

// check runs every fast path on x and judges it.
func (k *vf41Checker) check(x []byte, kind string, orig *vf41Orig) {
	c := k.c
	c.Begin(kind, x)
	full := vf41Decode(x)
	if full.panicked {
		c.Count("reference_decoder_panicked", 1)
	}
	mustAgree := full.ok && full.canonical && len(x) > 0 // empty input: the fast paths document an error
	c.Count("inputs_"+kind, 1)
	switch {
	case mustAgree:
		c.Count("inputs_fully_decodable_canonical", 1)
	case full.ok:
		c.Count("inputs_fully_decodable_noncanonical", 1)
	default:
		c.Count("inputs_not_decodable", 1)
	}
	outcome := ""
	note := func(fn string, err error) {
		if err == nil {
			outcome += "+"
			c.Count(fn+"_ok", 1)
		} else {
			outcome += "-"
			c.Count(fn+"_err", 1)
		}
	}

	// --- ExtractHeaderAndPayload
	c.Guard("ExtractHeaderAndPayload", kind, x, func() {
		hdr, prefix, err := ExtractHeaderAndPayload(x)
		note("ExtractHeaderAndPayload", err)
		if err != nil {
			if mustAgree {
				k.vio("ExtractHeaderAndPayload", kind, "error-for-valid", err.Error(), x)
			} else if orig != nil && orig.cut >= orig.pstart && orig.pstart < len(orig.bin) {
				k.vio("ExtractHeaderAndPayload", kind, "error-for-truncated-payload", fmt.Sprintf("cut at %d, payload starts at %d of %d: %v", orig.cut, orig.pstart, len(orig.bin), err), x)
			}
			return
		}
		if hdr == nil {
			k.vio("ExtractHeaderAndPayload", kind, "nil-without-error", "nil header with nil error", x)
			return
		}
		got := hdr.CutPayload().Marshal()
		switch {
		case full.ok:
			if !bytes.Equal(got, full.hdrBin) {
				cl := "header-differs-from-full-decoding"
				if !full.canonical {
					cl = "differential-on-noncanonical-input|header"
				}
				k.vio("ExtractHeaderAndPayload", kind, cl, fmt.Sprintf("extracted header re-encodes to %d bytes, fully decoded one to %d", len(got), len(full.hdrBin)), x)
			}
			if !bytes.Equal(prefix, full.obj.Payload()) {
				cl := "payload-differs-from-full-decoding"
				if !full.canonical {
					cl = "differential-on-noncanonical-input|payload"
				}
				k.vio("ExtractHeaderAndPayload", kind, cl, fmt.Sprintf("payload prefix of %d bytes, fully decoded payload of %d", len(prefix), len(full.obj.Payload())), x)
			}
			c.Count("agreement_checks_ExtractHeaderAndPayload", 1)
		case orig != nil && orig.cut >= orig.pstart:
			// truncated inside the payload: header of the original, payload bytes that are there
			if !bytes.Equal(got, orig.full.hdrBin) {
				k.vio("ExtractHeaderAndPayload", kind, "header-differs-on-truncated-payload", fmt.Sprintf("cut at %d", orig.cut), x)
			}
			if !bytes.Equal(prefix, orig.bin[orig.pstart:orig.cut]) {
				k.vio("ExtractHeaderAndPayload", kind, "payload-prefix-differs", fmt.Sprintf("cut at %d, payload starts at %d: got %d bytes", orig.cut, orig.pstart, len(prefix)), x)
			}
			c.Count("agreement_checks_truncated_payload", 1)
		}
	})

	// --- ReadHeaderPrefix (same function behind a reader limited to object.MaxHeaderLen bytes)
	c.Guard("ReadHeaderPrefix", kind, x, func() {
		hdr, prefix, err := ReadHeaderPrefix(bytes.NewReader(x))
		note("ReadHeaderPrefix", err)
		if !mustAgree {
			return
		}
		nonPayload := len(full.hdrBin)
		if err != nil {
			if nonPayload+16 <= object.MaxHeaderLen || len(x) <= object.MaxHeaderLen {
				k.vio("ReadHeaderPrefix", kind, "error-for-valid", err.Error(), x)
			} else {
				k.vio("ReadHeaderPrefix", kind, "error-for-valid|non-payload-part-longer-than-MaxHeaderLen", fmt.Sprintf("%d bytes before the payload: %v", nonPayload, err), x)
			}
			return
		}
		if got := hdr.CutPayload().Marshal(); !bytes.Equal(got, full.hdrBin) {
			k.vio("ReadHeaderPrefix", kind, "header-differs-from-full-decoding", "", x)
		}
		if pl := full.obj.Payload(); len(prefix) > len(pl) || !bytes.Equal(prefix, pl[:len(prefix)]) {
			k.vio("ReadHeaderPrefix", kind, "payload-prefix-differs", "", x)
		}
		c.Count("agreement_checks_ReadHeaderPrefix", 1)
	})

	// --- GetNonPayloadFieldBounds
	var hdrBytes []byte
	c.Guard("GetNonPayloadFieldBounds", kind, x, func() {
		idf, sigf, hdrf, err := GetNonPayloadFieldBounds(x)
		note("GetNonPayloadFieldBounds", err)
		if err != nil {
			if mustAgree {
				k.vio("GetNonPayloadFieldBounds", kind, "error-for-valid", err.Error(), x)
			}
			return
		}
		id, ok1 := vf41Cut(x, idf)
		sig, ok2 := vf41Cut(x, sigf)
		hdr, ok3 := vf41Cut(x, hdrf)
		if !ok1 || !ok2 || !ok3 {
			k.vio("GetNonPayloadFieldBounds", kind, "bounds-outside-input", fmt.Sprintf("id=%+v sig=%+v hdr=%+v for %d bytes", idf, sigf, hdrf, len(x)), x)
			return
		}
		hdrBytes = hdr
		if !full.ok {
			return
		}
		c.Count("agreement_checks_GetNonPayloadFieldBounds", 1)
		if full.canonical {
			for _, p := range []struct {
				name string
				got  []byte
				miss bool
				want vf41Stable
				nilW bool
			}{
				{"id", id, idf.IsMissing(), full.msg.ObjectId, full.msg.ObjectId == nil},
				{"signature", sig, sigf.IsMissing(), full.msg.Signature, full.msg.Signature == nil},
				{"header", hdr, hdrf.IsMissing(), full.msg.Header, full.msg.Header == nil},
			} {
				if p.miss != p.nilW {
					k.vio("GetNonPayloadFieldBounds", kind, "presence-differs|"+p.name, fmt.Sprintf("reported missing=%v, full decoding has it=%v", p.miss, !p.nilW), x)
				} else if !p.nilW && !bytes.Equal(p.got, vf41Bytes(p.want)) {
					k.vio("GetNonPayloadFieldBounds", kind, "bytes-differ|"+p.name, "located bytes are not the encoding of the fully decoded field", x)
				}
			}
			return
		}
		sem, err := vf41SemanticHeader(id, sig, hdr, !idf.IsMissing(), !sigf.IsMissing(), !hdrf.IsMissing())
		if err != nil || !bytes.Equal(sem, full.hdrBin) {
			k.vio("GetNonPayloadFieldBounds", kind, "differential-on-noncanonical-input", fmt.Sprintf("located fields decode to something else than the full decoding (err=%v)", err), x)
		}
	})

	// --- GetParentNonPayloadFieldBounds (object buffer) and ...Header (header buffer)
	parentCheck := func(fn string, buf []byte, call func([]byte) (iprotobuf.FieldBounds, iprotobuf.FieldBounds, iprotobuf.FieldBounds, error), agree bool) {
		c.Guard(fn, kind, x, func() {
			idf, sigf, hdrf, err := call(buf)
			note(fn, err)
			if err != nil {
				if agree && len(buf) > 0 {
					k.vio(fn, kind, "error-for-valid", err.Error(), x)
				}
				return
			}
			id, ok1 := vf41Cut(buf, idf)
			sig, ok2 := vf41Cut(buf, sigf)
			hdr, ok3 := vf41Cut(buf, hdrf)
			if !ok1 || !ok2 || !ok3 {
				k.vio(fn, kind, "bounds-outside-input", fmt.Sprintf("id=%+v sig=%+v hdr=%+v for %d bytes", idf, sigf, hdrf, len(buf)), x)
				return
			}
			if !agree {
				return
			}
			c.Count("agreement_checks_"+fn, 1)
			var sp *protoobject.Header_Split
			if full.msg.Header != nil {
				sp = full.msg.Header.Split
			}
			var wantID *refs.ObjectID
			var wantSig *refs.Signature
			var wantHdr *protoobject.Header
			if sp != nil {
				wantID, wantSig, wantHdr = sp.Parent, sp.ParentSignature, sp.ParentHeader
			}
			if wantHdr != nil || wantSig != nil || wantID != nil {
				c.Count("agreement_checks_with_parent_fields", 1)
			}
			if idf.IsMissing() != (wantID == nil) || (wantID != nil && !bytes.Equal(id, vf41Bytes(wantID))) {
				k.vio(fn, kind, "parent-id-differs", "", x)
			}
			if sigf.IsMissing() != (wantSig == nil) || (wantSig != nil && !bytes.Equal(sig, vf41Bytes(wantSig))) {
				k.vio(fn, kind, "parent-signature-differs", "", x)
			}
			if hdrf.IsMissing() != (wantHdr == nil) || (wantHdr != nil && !bytes.Equal(hdr, vf41Bytes(wantHdr))) {
				k.vio(fn, kind, "parent-header-differs", "", x)
			}
		})
	}
	parentCheck("GetParentNonPayloadFieldBounds", x, GetParentNonPayloadFieldBounds, mustAgree)

	// --- header-level functions: on the header located above and on x itself taken as a header
	hdrInputs := [][]byte{x}
	agreeHdr := []bool{false}
	if hdrBytes != nil {
		hdrInputs = append(hdrInputs, hdrBytes)
		agreeHdr = append(agreeHdr, mustAgree)
	}
	for i, h := range hdrInputs {
		agree := agreeHdr[i] && full.msg != nil && full.msg.Header != nil
		c.Guard("GetPayloadLengthHeader", kind, x, func() {
			v, err := GetPayloadLengthHeader(h)
			note("GetPayloadLengthHeader", err)
			if agree {
				if err != nil {
					k.vio("GetPayloadLengthHeader", kind, "error-for-valid", err.Error(), x)
				} else if v != full.obj.PayloadSize() {
					k.vio("GetPayloadLengthHeader", kind, "value-differs", fmt.Sprintf("got %d, full decoding %d", v, full.obj.PayloadSize()), x)
				}
				c.Count("agreement_checks_GetPayloadLengthHeader", 1)
			}
		})
		c.Guard("GetTypeHeader", kind, x, func() {
			v, err := GetTypeHeader(h)
			note("GetTypeHeader", err)
			if agree {
				if err != nil {
					k.vio("GetTypeHeader", kind, "error-for-valid", err.Error(), x)
				} else if v != full.obj.Type() {
					k.vio("GetTypeHeader", kind, "value-differs", fmt.Sprintf("got %d, full decoding %d", v, full.obj.Type()), x)
				}
				c.Count("agreement_checks_GetTypeHeader", 1)
			}
		})
		parentCheck("GetParentNonPayloadFieldBoundsHeader", h, GetParentNonPayloadFieldBoundsHeader, agree)
	}
	// non-canonical but fully decodable input: the header-level values must not contradict the full decoding either
	if full.ok && !full.canonical && hdrBytes != nil && full.msg.Header != nil {
		c.Guard("GetPayloadLengthHeader", kind, x, func() {
			if v, err := GetPayloadLengthHeader(hdrBytes); err == nil && v != full.obj.PayloadSize() {
				k.vio("GetPayloadLengthHeader", kind, "differential-on-noncanonical-input", fmt.Sprintf("got %d, full decoding %d", v, full.obj.PayloadSize()), x)
			}
			if v, err := GetTypeHeader(hdrBytes); err == nil && v != full.obj.Type() {
				k.vio("GetTypeHeader", kind, "differential-on-noncanonical-input", fmt.Sprintf("got %d, full decoding %d", v, full.obj.Type()), x)
			}
		})
	}

	c.DistinctSig(fmt.Sprintf("%s|decodable=%v|canonical=%v|%s", kind, full.ok, full.canonical, outcome))
}

// vf41Child executes one batch.
func vf41Child(t *testing.T, specJSON string) {
	var spec vf41.Spec
	if err := json.Unmarshal([]byte(specJSON), &spec); err != nil {
		t.Fatal(err)
	}
	r := verifkit.Start(t, "C41", "exploration") // only for the seeded RNG streams
	c, err := vf41.NewCollector(spec.Cur)
	if err != nil {
		t.Fatal(err)
	}
	k := &vf41Checker{c: c}
	var pool [][]byte // valid encodings to mutate
	newValid := func(rng *rand.Rand) []byte {
		for range 20 {
			o := vf41.Object(rng)
			b := o.Marshal()
			if f := vf41Decode(b); f.ok && f.canonical {
				return b
			}
			c.Count("generator_rejects", 1)
		}
		return nil
	}
	for i := 0; i < spec.N; {
		rng := r.Rand(fmt.Sprintf("batch-%d", spec.Batch), i)
		switch sel := rng.IntN(100); {
		case sel < 12 || len(pool) == 0: // valid object
			b := newValid(rng)
			if b == nil {
				i++
				continue
			}
			if len(pool) < 64 {
				pool = append(pool, b)
			} else {
				pool[rng.IntN(len(pool))] = b
			}
			k.check(b, "valid", nil)
			if spec.Batch == 0 && i < 40 {
				f := vf41Decode(b)
				c.Sample(map[string]any{"kind": "valid", "len": len(b), "has_parent_header": f.msg.Header != nil && f.msg.Header.Split != nil && f.msg.Header.Split.ParentHeader != nil, "payload_len": len(f.obj.Payload())})
			}
			i++
		case sel < 14: // every truncation of a (small) valid encoding
			b := pool[rng.IntN(len(pool))]
			if len(b) > 1500 {
				b = newValid(rng)
				if b == nil || len(b) > 1500 {
					i++
					continue
				}
			}
			full := vf41Decode(b)
			pstart := len(b) - len(full.obj.Payload())
			for cut := 0; cut < len(b); cut++ {
				k.check(b[:cut], "truncated", &vf41Orig{full: full, bin: b, pstart: pstart, cut: cut})
				i++
			}
			c.Count("encodings_truncated_at_every_position", 1)
		case sel < 20: // truncation of any valid encoding at a random position
			b := pool[rng.IntN(len(pool))]
			full := vf41Decode(b)
			cut := rng.IntN(len(b) + 1)
			k.check(b[:cut], "truncated", &vf41Orig{full: full, bin: b, pstart: len(b) - len(full.obj.Payload()), cut: cut})
			i++
		case sel < 85: // mutated valid encoding
			m, ops := vf41.Mutate(rng, pool[rng.IntN(len(pool))])
			for _, op := range ops {
				c.Seen("mutation_steps", op[:min(len(op), 24)])
			}
			k.check(m, "mutated", nil)
			i++
		default:
			k.check(vf41.RandomBytes(rng), "random", nil)
			i++
		}
	}
	if err := c.Save(spec.Out); err != nil {
		t.Fatal(err)
	}
}

func TestVerif_C41(t *testing.T) {
	if spec, ok := verifkit.ChildSpec(); ok {
		vf41Child(t, spec)
		return
	}
	r := verifkit.Start(t, "C41", "exploration")
	defer r.Finish()
	nBatches, perBatch := r.Pick(4, 24), r.Pick(6000, 40000)
	r.SetRule(fmt.Sprintf("%d child processes x %d inputs: generated valid objects (with/without id, signature, header, payload, split and parent fields, near-maximal headers), their encodings truncated at every position, 1-3 structure-aware (duplicate/swap/extra field, varint and tag rewrite, overlong varint, emptied value, with lengths re-encoded or left stale) or byte-level mutations, random strings; every input goes through ExtractHeaderAndPayload, ReadHeaderPrefix, GetNonPayloadFieldBounds, GetParentNonPayloadFieldBounds(+Header), GetPayloadLengthHeader, GetTypeHeader and is compared with object.Unmarshal; distinct = (input kind, fully decodable, canonical, ok/error pattern of the fast paths)", nBatches, perBatch))
	r.Assume("agreement is demanded for canonical encodings (the bytes the node itself produces); for decodable non-canonical input a fast path may refuse but must not return something else than the full decoding; undecodable input must not panic")
	vf41.RunBatches(t, r, "TestVerif_C41", "wire", nBatches, perBatch, 25*time.Minute)
	if r.Counter("agreement_checks_with_parent_fields") == 0 || r.Counter("encodings_truncated_at_every_position") == 0 {
		r.Inconclusive("no object with parent fields or no full truncation sweep was executed")
	}
}
