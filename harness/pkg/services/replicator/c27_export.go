//go:build verif

package replicator

import (
	oid "github.com/nspcc-dev/neofs-sdk-go/object/id"
)

// Verif27Quantity returns the number of copies the task asks for (read-only exporter for
// the C27 cluster monitor living in the policer package; no logic).
func (t Task) Verif27Quantity() uint32 { return t.quantity }

// Verif27Address returns the address of the object the task replicates.
func (t Task) Verif27Address() oid.Address { return t.addr }
