//go:build verif

package replicator

import (
	"context"
	"crypto/ecdsa"
	"crypto/elliptic"
	crand "crypto/rand"
	"errors"
	"fmt"
	"io"
	"path/filepath"
	"strings"
	"sync"
	"testing"
	"time"

	"github.com/nspcc-dev/bbolt"
	"github.com/nspcc-dev/neofs-node/internal/verifkit"
	clientcore "github.com/nspcc-dev/neofs-node/pkg/core/client"
	"github.com/nspcc-dev/neofs-node/pkg/local_object_storage/blobstor/fstree"
	"github.com/nspcc-dev/neofs-node/pkg/local_object_storage/engine"
	meta "github.com/nspcc-dev/neofs-node/pkg/local_object_storage/metabase"
	"github.com/nspcc-dev/neofs-node/pkg/local_object_storage/shard"
	putsvc "github.com/nspcc-dev/neofs-node/pkg/services/object/put"
	objutil "github.com/nspcc-dev/neofs-node/pkg/services/object/util"
	apistatus "github.com/nspcc-dev/neofs-sdk-go/client/status"
	neofscrypto "github.com/nspcc-dev/neofs-sdk-go/crypto"
	"github.com/nspcc-dev/neofs-sdk-go/netmap"
	"github.com/nspcc-dev/neofs-sdk-go/object"
	oid "github.com/nspcc-dev/neofs-sdk-go/object/id"
	"go.uber.org/zap"
)

// ---------------------------------------------------------------------------------------
// C27 (replicator half): HandleTask never reports more successful copies than it was
// asked for, nor a success for a node that did not store the object.
//
// The real Replicator (real RemoteSender, real one-shard engine as local storage) handles
// seeded tasks against fake remote nodes that accept / refuse / are unreachable / cancel
// the task context.  The remote end decodes what it receives and "stores" it only when it
// is the requested object; this ground truth is compared with every TaskResult report.
// ---------------------------------------------------------------------------------------

type vf27rEpoch struct{}

func (vf27rEpoch) CurrentEpoch() uint64 { return 0 }

const (
	vf27rOK      = iota // stores what it receives
	vf27rRefuse         // answers with an error status
	vf27rDial           // connection cannot be established
	vf27rTimeout        // answers context.DeadlineExceeded
	vf27rCancel         // cancels the task context while serving, then stores
	vf27rNum
)

var vf27rNames = [...]string{"ok", "refuse", "dial-error", "timeout", "cancel-task-ctx"}

type vf27rWorld struct {
	mu      sync.Mutex
	beh     map[string]int            // by public key
	stored  map[string]map[oid.ID]int // successful deliveries per node
	calls   int
	cancel  context.CancelFunc
	badMsgs int
}

type vf27rLocal struct{ key []byte }

func (l vf27rLocal) IsLocalNodePublicKey(k []byte) bool { return string(k) == string(l.key) }

type vf27rCons struct{ w **vf27rWorld }

func (c vf27rCons) Get(_ context.Context, n netmap.NodeInfo) (clientcore.MultiAddressClient, error) {
	w := *c.w
	w.mu.Lock()
	defer w.mu.Unlock()
	if w.beh[string(n.PublicKey())] == vf27rDial {
		w.calls++
		return nil, errors.New("dial: connection refused")
	}
	return &vf27rClient{w: w, key: string(n.PublicKey())}, nil
}

type vf27rClient struct {
	clientcore.MultiAddressClient
	w   *vf27rWorld
	key string
}

func (c *vf27rClient) ReplicateObject(_ context.Context, id oid.ID, src io.ReadSeeker, _ neofscrypto.Signer, _ bool) (*neofscrypto.Signature, error) {
	b, err := vf27rReadMsg(src)
	if err != nil {
		return nil, err
	}
	w := c.w
	w.mu.Lock()
	defer w.mu.Unlock()
	w.calls++
	switch w.beh[c.key] {
	case vf27rRefuse:
		return nil, apistatus.ErrObjectAccessDenied
	case vf27rTimeout:
		return nil, fmt.Errorf("rpc: %w", context.DeadlineExceeded)
	case vf27rCancel:
		w.cancel()
	default:
	}
	var o object.Object
	if err := o.Unmarshal(b); err != nil || o.GetID() != id {
		w.badMsgs++
		return nil, fmt.Errorf("remote: undecodable or foreign object (%v)", err)
	}
	if w.stored[c.key] == nil {
		w.stored[c.key] = map[oid.ID]int{}
	}
	w.stored[c.key][id]++
	return nil, nil
}

type vf27rRes struct {
	mu    sync.Mutex
	nodes []netmap.NodeInfo
}

func (r *vf27rRes) SubmitSuccessfulReplication(n netmap.NodeInfo) {
	r.mu.Lock()
	r.nodes = append(r.nodes, n)
	r.mu.Unlock()
}

func TestVerif_C27(t *testing.T) {
	r := verifkit.Start(t, "C27", "exploration")
	defer r.Finish()
	nCases := r.Pick(20000, 400000)
	r.SetRule(fmt.Sprintf("%d seeded replication tasks for the real Replicator.HandleTask: 0-6 target nodes (optionally the local node, optionally a repeated node), asked copies 0..len+2, object taken from the local engine / supplied in the task / missing locally, "+
		"each remote node accepting, refusing, undialable, timing out or cancelling the task context; distinct = different (behaviour vector, asked, source, local position) tuples; non-trivial = at least one remote call or report", nCases))
	r.Assume("remote nodes are in-process fakes that decode the received message and store it only if it is the requested object")

	dir := t.TempDir()
	eng := engine.New(engine.WithLogger(zap.NewNop()))
	if _, err := eng.AddShard(
		shard.WithLogger(zap.NewNop()),
		shard.WithBlobstor(fstree.New(fstree.WithPath(filepath.Join(dir, "fstree")), fstree.WithDepth(1), fstree.WithNoSync(true))),
		shard.WithMetaBaseOptions(meta.WithPath(filepath.Join(dir, "meta")), meta.WithPermissions(0o700), meta.WithEpochState(vf27rEpoch{}),
			meta.WithLogger(zap.NewNop()), meta.WithMaxBatchDelay(time.Microsecond), meta.WithBoltDBOptions(&bbolt.Options{NoSync: true, Timeout: time.Second})),
	); err != nil {
		t.Fatalf("harness: add shard: %v", err)
	}
	if err := eng.Init(); err != nil {
		t.Fatalf("harness: engine init: %v", err)
	}
	defer func() { _ = eng.Close() }()

	setup := r.Rand("setup", 0)
	cnr, owner := verifkit.RandCID(setup), verifkit.RandUser(setup)
	var stored []*object.Object
	for i := 0; i < 4; i++ {
		o := verifkit.NewObject(setup, cnr, owner, 1+setup.IntN(200))
		if err := eng.Put(context.Background(), o, nil); err != nil {
			t.Fatalf("harness: put: %v", err)
		}
		stored = append(stored, o)
	}
	key, err := ecdsa.GenerateKey(elliptic.P256(), crand.Reader)
	if err != nil {
		t.Fatalf("harness: key: %v", err)
	}
	localKey := append([]byte{2}, []byte("verif-c27r-local-node-key-000000")...)
	var world *vf27rWorld
	rep := New(
		WithLogger(zap.NewNop()),
		WithPutTimeout(time.Minute),
		WithLocalStorage(eng),
		WithLocalNodeKey(vf27rLocal{key: localKey}),
		WithRemoteSender(putsvc.NewRemoteSender(objutil.NewKeyStorage(key, nil, nil), vf27rCons{w: &world})),
	)
	mkNode := func(i int) netmap.NodeInfo {
		var n netmap.NodeInfo
		k := append([]byte{3}, []byte(fmt.Sprintf("verif-c27r-remote-node-key-%05d", i))...)
		n.SetPublicKey(k)
		n.SetNetworkEndpoints(fmt.Sprintf("/dns4/verif-r-%d/tcp/8080", i))
		return n
	}
	var localNode netmap.NodeInfo
	localNode.SetPublicKey(localKey)
	localNode.SetNetworkEndpoints("/dns4/verif-local/tcp/8080")

	for ci := 0; ci < nCases; ci++ {
		rng := r.Rand("task", ci)
		nNodes := rng.IntN(7)
		world = &vf27rWorld{beh: map[string]int{}, stored: map[string]map[oid.ID]int{}}
		ctx, cancel := context.WithCancel(context.Background())
		world.cancel = cancel
		var nodes []netmap.NodeInfo
		var behs []string
		localPos := -1
		for i := 0; i < nNodes; i++ {
			switch {
			case rng.IntN(8) == 0 && localPos < 0:
				nodes = append(nodes, localNode)
				localPos = i
				behs = append(behs, "local")
			case rng.IntN(10) == 0 && len(nodes) > 0 && localPos != len(nodes)-1:
				nodes = append(nodes, nodes[len(nodes)-1]) // repeated node
				behs = append(behs, "dup")
			default:
				n := mkNode(i)
				b := rng.IntN(vf27rNum)
				if rng.IntN(3) == 0 {
					b = vf27rOK
				}
				world.beh[string(n.PublicKey())] = b
				nodes = append(nodes, n)
				behs = append(behs, vf27rNames[b])
			}
		}
		asked := uint32(rng.IntN(nNodes + 3))
		var task Task
		var want *object.Object
		source := "local-storage"
		switch rng.IntN(6) {
		case 0: // object supplied with the task and absent from the local storage
			want = verifkit.NewObject(rng, cnr, owner, 1+rng.IntN(64))
			task.SetObject(want)
			source = "task-object"
		case 1: // supplied and also stored
			want = stored[rng.IntN(len(stored))]
			task.SetObject(want)
			source = "task-object+stored"
		case 2: // neither supplied nor stored
			want = verifkit.NewObject(rng, cnr, owner, 8)
			source = "missing"
		default:
			want = stored[rng.IntN(len(stored))]
		}
		addr := verifkit.Addr(want)
		task.SetObjectAddress(addr)
		task.SetNodes(nodes)
		task.SetCopiesNumber(asked)
		if rng.IntN(25) == 0 {
			cancel() // already cancelled context
			source += "+ctx-cancelled"
		}
		blocked := false
		if source == "task-object" && localPos >= 0 && rng.IntN(2) == 0 {
			// the local storage refuses every operation: a local "copy" cannot be made
			if err := eng.BlockExecution(errors.New("[verif] local storage blocked")); err != nil {
				t.Fatalf("harness: block engine: %v", err)
			}
			blocked = true
			source += "+local-storage-blocked"
		}
		desc := map[string]any{"case": ci, "nodes": behs, "asked": asked, "source": source}
		res := &vf27rRes{}
		r.Eval(1)
		r.Guard(desc, func() { rep.HandleTask(ctx, task, res) })
		cancel()
		if blocked {
			if err := eng.ResumeExecution(); err != nil {
				t.Fatalf("harness: resume engine: %v", err)
			}
		}

		world.mu.Lock()
		if len(res.nodes) > int(asked) {
			r.Violation("more-reports-than-asked|"+source, fmt.Sprintf("%d success reports for a task asking %d copies", len(res.nodes), asked), desc)
		}
		for _, n := range res.nodes {
			k := string(n.PublicKey())
			inTask := false
			for _, tn := range nodes {
				inTask = inTask || string(tn.PublicKey()) == k
			}
			switch {
			case !inTask:
				r.Violation("report-for-unlisted-node", "success reported for a node that is not in the task", desc)
			case k == string(localKey):
				if _, err := eng.Head(context.Background(), addr, false); err != nil {
					r.Violation("false-success|local", fmt.Sprintf("success reported for the local node, but the local storage does not hold the object: %v", err), desc)
				}
				r.Count("reports_local", 1)
			case world.stored[k][addr.Object()] == 0:
				r.Violation("false-success|"+vf27rNames[world.beh[k]]+"|"+source, fmt.Sprintf("success reported for a %q node which stored nothing", vf27rNames[world.beh[k]]), desc)
			default:
				r.Count("reports_remote", 1)
			}
		}
		r.Count("remote_calls", world.calls)
		if world.badMsgs > 0 {
			r.Count("undecodable_messages_received", world.badMsgs)
		}
		nStored := 0
		for _, m := range world.stored {
			for _, c := range m {
				nStored += c
			}
		}
		r.Count("remote_deliveries_accepted", nStored)
		if world.calls > 0 || len(res.nodes) > 0 {
			r.Distinct(fmt.Sprint(behs, asked, source, localPos))
		}
		if len(res.nodes) > 0 && len(res.nodes) == int(asked) {
			r.Count("tasks_fully_served", 1)
		}
		r.Seen("sources_seen", source)
		for _, b := range behs {
			r.Seen("behaviours_seen", b)
		}
		if ci < 4 {
			desc["reports"] = len(res.nodes)
			r.Sample(desc)
		}
		world.mu.Unlock()
		if strings.HasPrefix(source, "task-object") && !strings.HasPrefix(source, "task-object+stored") { // keep the engine small: locally stored copies of one-off objects are dropped
			_ = eng.Drop(context.Background(), addr)
		}
	}
	if r.Counter("reports_remote") == 0 || r.Counter("reports_local") == 0 {
		r.Inconclusive("no remote / local success report was observed")
	}
}

// vf27rReadMsg consumes the replication source the way the SDK client does: a source wrapped
// by client.DemuxReplicatedObject is encoded once and the message is reused for every
// node; any other source is read from its CURRENT position (so a plain reader shared by
// several nodes is empty for the second one).
var (
	vf27rMsgMu    sync.Mutex
	vf27rMsgCache = map[io.ReadSeeker][]byte{}
)

func vf27rReadMsg(src io.ReadSeeker) ([]byte, error) {
	if strings.Contains(fmt.Sprintf("%T", src), "demux") {
		vf27rMsgMu.Lock()
		defer vf27rMsgMu.Unlock()
		if b, ok := vf27rMsgCache[src]; ok {
			return b, nil
		}
		b, err := io.ReadAll(src)
		if err != nil {
			return nil, err
		}
		if len(vf27rMsgCache) > 64 {
			clear(vf27rMsgCache)
		}
		vf27rMsgCache[src] = b
		return b, nil
	}
	return io.ReadAll(src)
}
