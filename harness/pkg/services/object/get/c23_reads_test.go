//go:build verif

package getsvc

import (
	"bytes"
	"context"
	"crypto/sha256"
	"errors"
	"fmt"
	"io"
	"math/rand/v2"
	"os"
	"path/filepath"
	"slices"
	"sort"
	"strconv"
	"strings"
	"sync"
	"testing"
	"time"

	"github.com/nspcc-dev/bbolt"
	"github.com/nspcc-dev/neo-go/pkg/crypto/keys"
	iec "github.com/nspcc-dev/neofs-node/internal/ec"
	"github.com/nspcc-dev/neofs-node/internal/verifkit"
	clientcore "github.com/nspcc-dev/neofs-node/pkg/core/client"
	bscommon "github.com/nspcc-dev/neofs-node/pkg/local_object_storage/blobstor/common"
	"github.com/nspcc-dev/neofs-node/pkg/local_object_storage/blobstor/fstree"
	"github.com/nspcc-dev/neofs-node/pkg/local_object_storage/engine"
	meta "github.com/nspcc-dev/neofs-node/pkg/local_object_storage/metabase"
	"github.com/nspcc-dev/neofs-node/pkg/local_object_storage/shard"
	"github.com/nspcc-dev/neofs-node/pkg/services/object/common"
	"github.com/nspcc-dev/neofs-node/pkg/services/object/util"
	sessionstate "github.com/nspcc-dev/neofs-node/pkg/util/state/session"
	"github.com/nspcc-dev/neofs-sdk-go/client"
	apistatus "github.com/nspcc-dev/neofs-sdk-go/client/status"
	"github.com/nspcc-dev/neofs-sdk-go/container"
	cid "github.com/nspcc-dev/neofs-sdk-go/container/id"
	"github.com/nspcc-dev/neofs-sdk-go/netmap"
	"github.com/nspcc-dev/neofs-sdk-go/object"
	oid "github.com/nspcc-dev/neofs-sdk-go/object/id"
	"github.com/nspcc-dev/neofs-sdk-go/object/slicer"
	sessionv2 "github.com/nspcc-dev/neofs-sdk-go/session/v2"
	"github.com/nspcc-dev/neofs-sdk-go/user"
	"github.com/nspcc-dev/neofs-sdk-go/version"
	"go.uber.org/zap"
)

// ---------------------------------------------------------------------------------
// fakes: single-node network (every remote node is unreachable), real StorageEngine
// ---------------------------------------------------------------------------------

type vf23Epoch struct{}

func (vf23Epoch) CurrentEpoch() uint64 { return 10 }

type vf23Net struct {
	mu       sync.Mutex
	localPub []byte
	byCnr    map[cid.ID]vf23Placement
}

type vf23Placement struct {
	lists [][]netmap.NodeInfo
	reps  []uint
	ec    []iec.Rule
}

func (n *vf23Net) GetNodesForObject(a oid.Address) ([][]netmap.NodeInfo, []uint, []iec.Rule, error) {
	n.mu.Lock()
	defer n.mu.Unlock()
	p, ok := n.byCnr[a.Container()]
	if !ok {
		return nil, nil, nil, apistatus.ErrContainerNotFound
	}
	return p.lists, p.reps, p.ec, nil
}
func (n *vf23Net) IsLocalNodePublicKey(pub []byte) bool        { return bytes.Equal(pub, n.localPub) }
func (n *vf23Net) CurrentEpoch() uint64                        { return 10 }
func (n *vf23Net) GetToken(user.ID) *sessionstate.PrivateToken { return nil }
func (n *vf23Net) FindTokenBySubjects([]sessionv2.Target) *sessionstate.PrivateToken {
	return nil
}

type vf23NoConns struct{}

func (vf23NoConns) Get(context.Context, netmap.NodeInfo) (clientcore.MultiAddressClient, error) {
	return nil, errors.New("verif: remote node is unreachable")
}

type vf23Writer struct {
	mu        sync.Mutex
	hdr       *object.Object
	hdrWrites int
	buf       []byte
	chunks    int
}

func (w *vf23Writer) WriteHeader(h *object.Object) error {
	w.mu.Lock()
	defer w.mu.Unlock()
	w.hdrWrites++
	w.hdr = h
	return nil
}
func (w *vf23Writer) WriteChunk(p []byte) error {
	w.mu.Lock()
	defer w.mu.Unlock()
	w.chunks++
	w.buf = append(w.buf, p...)
	return nil
}

// vf23ECTransport stands in for the gRPC response transport the object server hands to
// Service.Get for EC containers (Prm.WithECTransport). It follows the contract written at
// getsvc.GetECRequestTransport and makes the same storage calls with the same arguments
// as the server's implementation (part header+payload via the engine's EC part getter,
// ranges via StorageEngine.ReadECPartRange(off, ln) passed through untouched); whatever
// it is told to copy goes to the same client writer the service itself writes to.
type vf23ECTransport struct {
	mu     sync.Mutex
	out    *vf23Writer
	cnr    cid.ID
	root   oid.ID
	hdrs   int
	ranges int
	aborts int
}

func (x *vf23ECTransport) CopyRemoteECPartParentHeaderAndPayload(context.Context, clientcore.MultiAddressClient, iec.PartInfo) (bool, uint64, uint64, uint64, error) {
	return false, 0, 0, 0, nil // remote nodes are unreachable: never gets a connection
}

func (x *vf23ECTransport) CopyRemoteECPartRange(context.Context, clientcore.MultiAddressClient, iec.PartInfo, uint64, uint64, bool, <-chan bool) (uint64, error) {
	return 0, nil
}

func (x *vf23ECTransport) CopyLocalECPartParentHeaderAndPayload(ctx context.Context, storage *engine.StorageEngine, pi iec.PartInfo) (bool, uint64, uint64, uint64, error) {
	hdr, rc, err := storage.GetECPart(ctx, x.cnr, x.root, pi, false)
	if err != nil {
		var se *object.SplitInfoError
		if errors.Is(err, apistatus.ErrObjectAlreadyRemoved) || errors.As(err, &se) {
			return false, 0, 0, 0, err
		}
		return false, 0, 0, 0, nil
	}
	defer rc.Close()
	if hdr.Type() == object.TypeLink {
		return false, 0, 0, 0, ErrLinker
	}
	par := hdr.Parent()
	if par == nil {
		return false, 0, 0, 0, nil
	}
	pld, err := io.ReadAll(rc)
	if err != nil {
		return false, 0, 0, 0, nil
	}
	x.mu.Lock()
	defer x.mu.Unlock()
	x.hdrs++
	_ = x.out.WriteHeader(par.CutPayload())
	_ = x.out.WriteChunk(pld)
	return true, par.PayloadSize(), hdr.PayloadSize(), uint64(len(pld)), nil
}

func (x *vf23ECTransport) CopyLocalECPartRange(ctx context.Context, storage *engine.StorageEngine, pi iec.PartInfo, off, ln uint64, ch <-chan bool) (uint64, error) {
	stream, err := storage.ReadECPartRange(ctx, x.cnr, x.root, pi, off, ln, make([]byte, 64<<10), nil)
	if err != nil {
		if errors.Is(err, apistatus.ErrObjectAlreadyRemoved) {
			return 0, err
		}
		return 0, nil
	}
	if stream == nil {
		return 0, nil
	}
	defer stream.Close()
	if ch != nil {
		select {
		case <-ctx.Done():
			return 0, ctx.Err()
		case abort := <-ch:
			if abort {
				x.mu.Lock()
				x.aborts++
				x.mu.Unlock()
				return 0, ErrAborted
			}
		}
	}
	pld, err := io.ReadAll(stream)
	x.mu.Lock()
	defer x.mu.Unlock()
	x.ranges++
	_ = x.out.WriteChunk(pld)
	if err != nil {
		return uint64(len(pld)), nil
	}
	return ln, nil
}

// vf23EOFStorage wraps the BLOB storage of a shard so that every payload stream delivers its
// last bytes together with io.EOF (legal for an io.Reader, never done by plain files).
type vf23EOFStorage struct{ bscommon.Storage }

type vf23DataEOF struct {
	src  io.ReadCloser
	next []byte
	err  error
}

func vf23WrapEOF(rc io.ReadCloser) io.ReadCloser {
	if rc == nil {
		return nil
	}
	return &vf23DataEOF{src: rc}
}

func (d *vf23DataEOF) Close() error { return d.src.Close() }
func (d *vf23DataEOF) Read(p []byte) (int, error) {
	if len(p) == 0 {
		return 0, nil
	}
	// keep one look-ahead byte so that the end of the stream is known when the last data is handed out
	if d.next == nil && d.err == nil {
		b := make([]byte, 1)
		n, err := io.ReadFull(d.src, b)
		d.next, d.err = b[:n], err
	}
	if len(d.next) == 0 {
		if d.err == io.ErrUnexpectedEOF {
			return 0, io.EOF
		}
		return 0, d.err
	}
	p[0] = d.next[0]
	n, err := d.src.Read(p[1:])
	total := 1 + n
	// refill the look-ahead
	d.next = d.next[:0]
	if err == nil {
		b := make([]byte, 1)
		k, e := io.ReadFull(d.src, b)
		if k == 1 {
			d.next = b
		} else {
			err = e
		}
	}
	if err != nil {
		if err == io.ErrUnexpectedEOF {
			err = io.EOF
		}
		d.err = err
		d.next = []byte{}
		return total, err
	}
	return total, nil
}

func (s vf23EOFStorage) GetRangeStream(a oid.Address, rng bscommon.PayloadRange, readHeader bool) (*object.Object, uint64, io.ReadCloser, error) {
	h, n, rc, err := s.Storage.GetRangeStream(a, rng, readHeader)
	return h, n, vf23WrapEOF(rc), err
}
func (s vf23EOFStorage) GetStream(a oid.Address) (*object.Object, io.ReadCloser, error) {
	h, rc, err := s.Storage.GetStream(a)
	return h, vf23WrapEOF(rc), err
}
func (s vf23EOFStorage) ReadObject(a oid.Address, buf []byte) (int, io.ReadCloser, error) {
	n, rc, err := s.Storage.ReadObject(a, buf)
	return n, vf23WrapEOF(rc), err
}
func (s vf23EOFStorage) ReadPayloadRange(a oid.Address, off, ln uint64, buf []byte, fn func([]byte) error) (io.ReadCloser, error) {
	rc, err := s.Storage.ReadPayloadRange(a, off, ln, buf, fn)
	return vf23WrapEOF(rc), err
}
func (s vf23EOFStorage) ReadObjectParts(buf []byte, a oid.Address, rng bscommon.PayloadRange, fn func([]byte) error) (int, io.ReadCloser, error) {
	n, rc, err := s.Storage.ReadObjectParts(buf, a, rng, fn)
	return n, vf23WrapEOF(rc), err
}

// vf23FaultStorage wraps the BLOB storage of a shard (outermost) so that the payload streams of
// chosen objects break in the middle: after the planned number of payload bytes the stream
// answers with an error instead of more data - what a disk error or a reset connection looks
// like to the reader. A stream that has nothing left at the break point ends normally (the
// fault is "not triggered"), headers are never affected. The plan is armed by the test for
// one read and disarmed right after it.
type vf23Faults struct {
	mu              sync.Mutex
	plan            map[oid.Address]int
	broken          int // streams that really broke during the armed read
	brokenAfterData int // ... after having handed out at least one byte
}

var vf23ErrInjected = errors.New("verif: injected failure in the middle of the payload stream (connection reset)")

func (f *vf23Faults) arm(plan map[oid.Address]int) {
	f.mu.Lock()
	f.plan, f.broken, f.brokenAfterData = plan, 0, 0
	f.mu.Unlock()
}

func (f *vf23Faults) disarm() (int, int) {
	f.mu.Lock()
	defer f.mu.Unlock()
	f.plan = nil
	return f.broken, f.brokenAfterData
}

func (f *vf23Faults) wrap(a oid.Address, rc io.ReadCloser) io.ReadCloser {
	if rc == nil {
		return nil
	}
	f.mu.Lock()
	k, ok := f.plan[a]
	f.mu.Unlock()
	if !ok {
		return rc
	}
	return &vf23Breaker{src: rc, left: k, f: f}
}

type vf23Breaker struct {
	src       io.ReadCloser
	left      int
	delivered int
	tripped   bool
	f         *vf23Faults
}

func (b *vf23Breaker) Close() error { return b.src.Close() }
func (b *vf23Breaker) Read(p []byte) (int, error) {
	if len(p) == 0 {
		return 0, nil
	}
	if b.tripped {
		return 0, vf23ErrInjected
	}
	if b.left == 0 {
		// break only if the stream still has something to say
		var one [1]byte
		n, err := io.ReadFull(b.src, one[:])
		if n == 0 {
			if err == nil || err == io.ErrUnexpectedEOF {
				err = io.EOF
			}
			return 0, err
		}
		b.tripped = true
		b.f.mu.Lock()
		b.f.broken++
		if b.delivered > 0 {
			b.f.brokenAfterData++
		}
		b.f.mu.Unlock()
		return 0, vf23ErrInjected
	}
	if len(p) > b.left {
		p = p[:b.left]
	}
	n, err := b.src.Read(p)
	b.left -= n
	b.delivered += n
	return n, err
}

type vf23FaultStorage struct {
	bscommon.Storage
	f *vf23Faults
}

func (s vf23FaultStorage) GetRangeStream(a oid.Address, rng bscommon.PayloadRange, readHeader bool) (*object.Object, uint64, io.ReadCloser, error) {
	h, n, rc, err := s.Storage.GetRangeStream(a, rng, readHeader)
	return h, n, s.f.wrap(a, rc), err
}
func (s vf23FaultStorage) GetStream(a oid.Address) (*object.Object, io.ReadCloser, error) {
	h, rc, err := s.Storage.GetStream(a)
	return h, s.f.wrap(a, rc), err
}

// collector for client-side slicing
type vf23Collector struct{ objs []object.Object }
type vf23CollectorW struct {
	c   *vf23Collector
	hdr object.Object
	buf []byte
}

func (c *vf23Collector) ObjectPutInit(_ context.Context, hdr object.Object, _ user.Signer, _ client.PrmObjectPutInit) (client.ObjectWriter, error) {
	return &vf23CollectorW{c: c, hdr: hdr}, nil
}
func (w *vf23CollectorW) Write(p []byte) (int, error) {
	w.buf = append(w.buf, p...)
	return len(p), nil
}
func (w *vf23CollectorW) ReadFrom(r io.Reader) (int64, error) {
	b, err := io.ReadAll(r)
	w.buf = append(w.buf, b...)
	return int64(len(b)), err
}
func (w *vf23CollectorW) Close() error {
	o := w.hdr
	o.SetPayload(w.buf)
	var cp object.Object
	o.CopyTo(&cp)
	w.c.objs = append(w.c.objs, cp)
	return nil
}
func (w *vf23CollectorW) GetResult() client.ResObjectPut { return client.ResObjectPut{} }

// ---------------------------------------------------------------------------------
// stored object fixtures
// ---------------------------------------------------------------------------------

type vf23Fixture struct {
	Layout     string   `json:"layout"`
	Len        int      `json:"len"`
	Limit      int      `json:"split_limit,omitempty"`
	Rules      []string `json:"ec_rules,omitempty"`
	Missing    [][]int  `json:"ec_missing_parts,omitempty"` // per rule (per member for split: same pattern)
	root       oid.ID
	cnr        cid.ID
	cont       container.Container
	payload    []byte
	boundaries []int // interesting offsets (child / part boundaries)
	recoverBy0 bool  // rule #0 alone has enough parts
	// the rule a full GET restores from (first one with <= p parts missing) lacks all its data parts
	allDataOfRestoringRuleMissing bool
	// no rule has its part #0 stored
	part0MissingEverywhere bool
	// unsplit EC object whose payload is so short that some data parts of rule #0 hold zero padding only
	paddingOnlyDataParts bool
	lastMember           []byte // payload of the last split member (v1/v2)
	rules                []iec.Rule
	// stored objects carrying EC part (rule, index); one per size-split member
	partAddrs map[[2]int][]oid.Address
}

func vf23Key(rng *rand.Rand) *keys.PrivateKey {
	for {
		k, err := keys.NewPrivateKeyFromBytes(verifkit.RandBytes(rng, 32))
		if err == nil {
			return k
		}
	}
}

func vf23Header(cnr cid.ID, owner user.ID, payload []byte, name string) object.Object {
	var o object.Object
	ver := version.Current()
	o.SetVersion(&ver)
	o.SetContainerID(cnr)
	o.SetOwner(owner)
	o.SetCreationEpoch(5)
	o.SetType(object.TypeRegular)
	o.SetAttributes(object.NewAttribute("name", name))
	o.SetPayloadSize(uint64(len(payload)))
	o.SetPayloadChecksum(object.CalculatePayloadChecksum(payload))
	return o
}

type vf23World struct {
	r      *verifkit.Run
	faults *vf23Faults
	eng    *engine.StorageEngine
	svc    *Service
	net    *vf23Net
	owner  user.Signer
	local  netmap.NodeInfo
	nPut   int
}

func (w *vf23World) put(o object.Object) bool {
	var cp object.Object
	o.CopyTo(&cp)
	if err := w.eng.Put(context.Background(), &cp, nil); err != nil {
		w.r.Inconclusive(fmt.Sprintf("harness: engine refuses fixture object %s: %v", o.GetID(), err))
		return false
	}
	w.nPut++
	return true
}

func (w *vf23World) newContainer(rng *rand.Rand, rules []iec.Rule) (cid.ID, container.Container) {
	cnr := verifkit.RandCID(rng)
	var cont container.Container
	var pol netmap.PlacementPolicy
	pl := vf23Placement{}
	remote := func(i int) netmap.NodeInfo {
		var n netmap.NodeInfo
		n.SetPublicKey(append([]byte{2}, verifkit.RandBytes(rng, 32)...))
		n.SetNetworkEndpoints("/ip4/10.1.0." + strconv.Itoa(i+1) + "/tcp/8080")
		return n
	}
	if len(rules) == 0 {
		var rd netmap.ReplicaDescriptor
		rd.SetNumberOfObjects(1)
		pol.SetReplicas([]netmap.ReplicaDescriptor{rd})
		pl.lists = [][]netmap.NodeInfo{{w.local, remote(0)}}
		pl.reps = []uint{1}
	} else {
		ecr := make([]netmap.ECRule, len(rules))
		for i, ru := range rules {
			ecr[i].SetDataPartNum(uint32(ru.DataPartNum))
			ecr[i].SetParityPartNum(uint32(ru.ParityPartNum))
			total := int(ru.DataPartNum) + int(ru.ParityPartNum)
			l := make([]netmap.NodeInfo, total+rng.IntN(2))
			for j := range l {
				l[j] = remote(j)
			}
			l[rng.IntN(len(l))] = w.local // every part lives on the local node, the others are unreachable
			pl.lists = append(pl.lists, l)
		}
		pol.SetECRules(ecr)
		pl.ec = rules
	}
	cont.SetPlacementPolicy(pol)
	w.net.mu.Lock()
	w.net.byCnr[cnr] = pl
	w.net.mu.Unlock()
	return cnr, cont
}

func (w *vf23World) ecParts(fx *vf23Fixture, parentHdr object.Object, payload []byte, rules []iec.Rule, missing [][]int) bool {
	for ri, ru := range rules {
		parts, _, err := iec.Encode(ru, bytes.Clone(payload))
		if err != nil {
			w.r.Inconclusive("harness: cannot encode fixture: " + err.Error())
			return false
		}
		for pi := range parts {
			skip := false
			for _, m := range missing[ri] {
				if m == pi {
					skip = true
				}
			}
			if skip {
				continue
			}
			var part object.Object
			part.SetVersion(parentHdr.Version())
			part.SetContainerID(parentHdr.GetContainerID())
			part.SetOwner(parentHdr.Owner())
			part.SetCreationEpoch(parentHdr.CreationEpoch())
			part.SetType(object.TypeRegular)
			ph := parentHdr
			part.SetParent(&ph)
			part.SetAttributes(object.NewAttribute(iec.AttributeRuleIdx, strconv.Itoa(ri)), object.NewAttribute(iec.AttributePartIdx, strconv.Itoa(pi)))
			part.SetPayload(bytes.Clone(parts[pi]))
			part.SetPayloadSize(uint64(len(parts[pi])))
			part.CalculateAndSetPayloadChecksum()
			_ = part.CalculateAndSetID()
			if !w.put(part) {
				return false
			}
			if fx.partAddrs == nil {
				fx.partAddrs = map[[2]int][]oid.Address{}
			}
			fx.partAddrs[[2]int{ri, pi}] = append(fx.partAddrs[[2]int{ri, pi}], oid.NewAddress(part.GetContainerID(), part.GetID()))
		}
	}
	return true
}

func vf23Hashes(payload []byte, rules []iec.Rule) string {
	var all []string
	for _, ru := range rules {
		_, hs, err := iec.Encode(ru, bytes.Clone(payload))
		if err != nil {
			return ""
		}
		all = append(all, hs...)
	}
	return strings.Join(all, ",")
}

// vf23LossFlags tells, for the given sets of unavailable parts per rule, whether the rule a full
// GET restores from (the first one with <= p parts unavailable) lacks all its data parts, and
// whether part #0 is unavailable in every rule.
func vf23LossFlags(rules []iec.Rule, missing [][]int) (allDataOfRestoringRuleMissing, part0MissingEverywhere bool, restoring int) {
	part0MissingEverywhere = true
	restoring = -1
	for ri, ru := range rules {
		has0 := true
		dataMissing := 0
		for _, m := range missing[ri] {
			if m == 0 {
				has0 = false
			}
			if m < int(ru.DataPartNum) {
				dataMissing++
			}
		}
		if has0 {
			part0MissingEverywhere = false
		}
		if restoring < 0 && len(missing[ri]) <= int(ru.ParityPartNum) {
			restoring = ri
			allDataOfRestoringRuleMissing = dataMissing == int(ru.DataPartNum)
		}
	}
	return
}

// build stores one object in the given layout and returns its description.
func (w *vf23World) build(rng *rand.Rand, layout string, idx int) *vf23Fixture {
	fx := &vf23Fixture{Layout: layout}
	var rules []iec.Rule
	isEC := strings.HasPrefix(layout, "ec")
	if isEC {
		nr := 1 + rng.IntN(2)
		if strings.Contains(layout, "fallback") {
			nr = 2
		}
		for i := 0; i < nr; i++ {
			ru := iec.Rule{DataPartNum: uint8(1 + rng.IntN(6)), ParityPartNum: uint8(1 + rng.IntN(3))}
			rules = append(rules, ru)
			fx.Rules = append(fx.Rules, ru.String())
		}
	}
	fx.rules = rules
	fx.cnr, fx.cont = w.newContainer(rng, rules)
	owner := w.owner.UserID()

	split := strings.Contains(layout, "split") || strings.HasPrefix(layout, "v1") || strings.HasPrefix(layout, "v2")
	switch rng.IntN(6) {
	case 0:
		fx.Len = rng.IntN(4)
	case 1:
		fx.Len = 1 + rng.IntN(300)
	default:
		fx.Len = rng.IntN(64<<10 + 1)
	}
	if isEC && !split && rng.IntN(5) == 0 {
		// payloads of a few bytes per data part: trailing data parts consist of padding only
		fx.Len = 1 + rng.IntN(2*int(rules[0].DataPartNum)+2)
	}
	if split {
		if strings.HasPrefix(layout, "v1") {
			fx.Limit = 1 + rng.IntN(4096)
			if rng.IntN(3) == 0 {
				fx.Limit = []int{1, 2, 3, 255, 256, 1024, 4096}[rng.IntN(7)]
			}
		} else {
			// the link object (about 41 bytes per member) must fit the limit itself
			fx.Limit = 90 + rng.IntN(4096-90+1)
			if rng.IntN(3) == 0 {
				fx.Limit = []int{128, 255, 256, 1024, 4096}[rng.IntN(5)]
			}
		}
		maxMembers := 40
		if !strings.HasPrefix(layout, "v1") {
			maxMembers = min(maxMembers, fx.Limit/44)
		}
		if isEC {
			maxMembers = min(maxMembers, 10)
		}
		minLen := fx.Limit + 1
		maxLen := min(64<<10, fx.Limit*maxMembers)
		if fx.Len < minLen || fx.Len > maxLen {
			fx.Len = minLen + rng.IntN(maxLen-minLen+1)
		}
		if rng.IntN(4) == 0 { // exact multiples
			fx.Len = fx.Limit * (2 + rng.IntN(maxMembers-1))
			if fx.Len > 64<<10 {
				fx.Len = fx.Limit * 2
			}
		}
	}
	fx.payload = verifkit.RandBytes(rng, fx.Len)
	bset := map[int]bool{0: true, 1: true, fx.Len - 1: true, fx.Len: true, fx.Len + 1: true}

	// EC loss pattern (same for every encoded object of the fixture)
	fx.recoverBy0 = true
	if isEC {
		fx.Missing = make([][]int, len(rules))
		for ri, ru := range rules {
			total := int(ru.DataPartNum) + int(ru.ParityPartNum)
			var k int
			switch {
			case strings.Contains(layout, "lossy"):
				k = 1 + rng.IntN(int(ru.ParityPartNum))
			case strings.Contains(layout, "fallback") && ri == 0:
				k = int(ru.ParityPartNum) + 1 // rule #0 alone cannot restore
				fx.recoverBy0 = false
			}
			fx.Missing[ri] = rng.Perm(total)[:k]
			sort.Ints(fx.Missing[ri])
		}
	}
	if isEC {
		fx.allDataOfRestoringRuleMissing, fx.part0MissingEverywhere, _ = vf23LossFlags(rules, fx.Missing)
	}
	addPartBoundaries := func(base, n int) {
		for _, ru := range rules {
			pl := (n + int(ru.DataPartNum) - 1) / int(ru.DataPartNum)
			if pl == 0 {
				continue
			}
			for k := 1; k < int(ru.DataPartNum) && k*pl <= n; k++ {
				bset[base+k*pl] = true
			}
		}
	}

	name := "obj-" + strconv.Itoa(idx)
	switch {
	case layout == "whole":
		o := vf23Header(fx.cnr, owner, fx.payload, name)
		o.SetPayload(fx.payload)
		_ = o.CalculateAndSetID()
		fx.root = o.GetID()
		if !w.put(o) {
			return nil
		}
	case strings.HasPrefix(layout, "v2"), strings.HasPrefix(layout, "ec-split"):
		var hdr object.Object
		hdr.SetContainerID(fx.cnr)
		hdr.SetOwner(owner)
		hdr.SetAttributes(object.NewAttribute("name", name))
		col := &vf23Collector{}
		var opts slicer.Options
		opts.SetObjectPayloadLimit(uint64(fx.Limit))
		opts.SetCurrentNeoFSEpoch(5)
		var memberPayloads [][]byte
		if isEC {
			opts.SetSplitChainModifier(func(h *object.Object, rd io.Reader) error {
				if h.Type() != object.TypeRegular {
					return nil
				}
				pl, _ := io.ReadAll(rd)
				memberPayloads = append(memberPayloads, pl)
				h.SetAttributes(append(h.Attributes(), object.NewAttribute(iec.AttributePartsHashes, vf23Hashes(pl, rules)))...)
				return nil
			})
		}
		pw, err := slicer.InitPut(context.Background(), col, hdr, w.owner, opts)
		if err == nil {
			_, err = pw.Write(fx.payload)
		}
		if err == nil {
			err = pw.Close()
		}
		if err != nil || len(col.objs) < 3 {
			w.r.Inconclusive(fmt.Sprintf("harness: client-side slicing failed: %v (%d objects, len %d limit %d)", err, len(col.objs), fx.Len, fx.Limit))
			return nil
		}
		fx.root = pw.ID()
		members, link := col.objs[:len(col.objs)-1], col.objs[len(col.objs)-1]
		off := 0
		for i, m := range members {
			if isEC {
				if !w.ecParts(fx, *m.CutPayload(), memberPayloads[i], rules, fx.Missing) {
					return nil
				}
				addPartBoundaries(off, len(m.Payload()))
			} else if !w.put(m) {
				return nil
			}
			off += len(m.Payload())
			bset[off] = true
		}
		if !strings.Contains(layout, "nolink") {
			if !w.put(link) {
				return nil
			}
		}
	case strings.HasPrefix(layout, "v1"):
		parent := vf23Header(fx.cnr, owner, fx.payload, name)
		_ = parent.CalculateAndSetID()
		fx.root = parent.GetID()
		ub := verifkit.RandBytes(rng, 16)
		ub[6] = ub[6]&0x0f | 0x40 // UUID v4
		ub[8] = ub[8]&0x3f | 0x80
		splitID := object.NewSplitIDFromV2(ub)
		var ids []oid.ID
		var prev oid.ID
		nMembers := (fx.Len + fx.Limit - 1) / fx.Limit
		for i := 0; i < nMembers; i++ {
			chunk := fx.payload[i*fx.Limit : min((i+1)*fx.Limit, fx.Len)]
			ch := vf23Header(fx.cnr, owner, chunk, "")
			ch.SetAttributes()
			ch.SetPayload(chunk)
			ch.SetSplitID(splitID)
			if i > 0 {
				ch.SetPreviousID(prev)
			}
			if i == nMembers-1 {
				p := parent
				ch.SetParent(&p)
				ch.SetParentID(fx.root)
			}
			_ = ch.CalculateAndSetID()
			prev = ch.GetID()
			ids = append(ids, prev)
			if !w.put(ch) {
				return nil
			}
			if os.Getenv("VERIF_DEBUG") != "" {
				_, e1 := w.eng.Head(context.Background(), oid.NewAddress(fx.cnr, ch.GetID()), true)
				st, e2 := w.eng.ObjectStatus(context.Background(), oid.NewAddress(fx.cnr, ch.GetID()))
				fmt.Printf("DEBUG v1 child %d head right after put: %v; status: %+v %v\n", i, e1, st, e2)
			}
			bset[min((i+1)*fx.Limit, fx.Len)] = true
			fx.lastMember = chunk
		}
		if !strings.Contains(layout, "nolink") {
			lk := vf23Header(fx.cnr, owner, nil, "")
			lk.SetAttributes()
			lk.SetSplitID(splitID)
			p := parent
			lk.SetParent(&p)
			lk.SetParentID(fx.root)
			lk.SetChildren(ids...)
			_ = lk.CalculateAndSetID()
			if !w.put(lk) {
				return nil
			}
			if os.Getenv("VERIF_DEBUG") != "" {
				_, e1 := w.eng.Head(context.Background(), oid.NewAddress(fx.cnr, lk.GetID()), false)
				_, e2 := w.eng.Head(context.Background(), oid.NewAddress(fx.cnr, lk.GetID()), true)
				_, e3 := w.eng.Head(context.Background(), oid.NewAddress(fx.cnr, ids[0]), false)
				_, e4 := w.eng.Get(context.Background(), oid.NewAddress(fx.cnr, lk.GetID()))
				fmt.Printf("DEBUG v1 link head: %v / raw: %v / first child head: %v / get link: %v\n", e1, e2, e3, e4)
			}
		}
	case isEC: // unsplit EC object
		parent := vf23Header(fx.cnr, owner, fx.payload, name)
		parent.SetAttributes(append(parent.Attributes(), object.NewAttribute(iec.AttributePartsHashes, vf23Hashes(fx.payload, rules)))...)
		_ = parent.CalculateAndSetID()
		fx.root = parent.GetID()
		if !w.ecParts(fx, parent, fx.payload, rules, fx.Missing) {
			return nil
		}
		addPartBoundaries(0, fx.Len)
		if d := int(rules[0].DataPartNum); fx.Len > 0 {
			pl := (fx.Len + d - 1) / d
			fx.paddingOnlyDataParts = pl*(d-1) >= fx.Len
		}
	}
	if os.Getenv("VERIF_DEBUG") != "" {
		_, err := w.eng.Get(context.Background(), oid.NewAddress(fx.cnr, fx.root))
		var si *object.SplitInfoError
		if errors.As(err, &si) {
			i := si.SplitInfo()
			fmt.Printf("DEBUG fixture %s len=%d limit=%d: split info link=%v last=%v first=%v splitID=%v\n", layout, fx.Len, fx.Limit, !i.GetLink().IsZero(), !i.GetLastPart().IsZero(), !i.GetFirstPart().IsZero(), i.SplitID() != nil)
		} else {
			fmt.Printf("DEBUG fixture %s len=%d limit=%d: engine.Get(root) -> %v\n", layout, fx.Len, fx.Limit, err)
		}
	}
	for b := range bset {
		if b >= 0 {
			fx.boundaries = append(fx.boundaries, b)
		}
	}
	sort.Ints(fx.boundaries)
	return fx
}

// ---------------------------------------------------------------------------------
// requests and reference semantics
// ---------------------------------------------------------------------------------

type vf23Request struct {
	API    string `json:"api"`  // get | get-range-ext | get-range-legacy
	Mode   string `json:"mode"` // full | offlen | bounds | from | suffix
	A      uint64 `json:"a"`
	B      uint64 `json:"b"`
	Local  bool   `json:"local_only"`
	PlOnly bool   `json:"payload_only"`
	// payload streams of these stored EC parts break after the given number of bytes while the read is served
	Breaks []vf23Break `json:"mid_stream_breaks,omitempty"`
}

type vf23Break struct {
	Rule  int `json:"rule"`
	Part  int `json:"part"`
	After int `json:"after_bytes"`
}

type vf23Expect struct {
	data    []byte
	mustOOR bool // definitely unsatisfiable: out-of-range status demanded
	orOOR   bool // data, or out of range (API leaves it open)
	anyErr  bool // malformed range: any error is fine, success is not
}

func vf23Reference(p []byte, rq vf23Request) vf23Expect {
	n := uint64(len(p))
	switch rq.Mode {
	case "full":
		return vf23Expect{data: p}
	case "offlen":
		if rq.B == 0 {
			return vf23Expect{data: p} // only generated as 0:0 = whole payload
		}
		if rq.A+rq.B < rq.A || rq.A+rq.B > n {
			return vf23Expect{mustOOR: true}
		}
		return vf23Expect{data: p[rq.A : rq.A+rq.B]}
	case "bounds":
		if rq.A > rq.B {
			return vf23Expect{anyErr: true}
		}
		if rq.A >= n {
			return vf23Expect{mustOOR: true}
		}
		if rq.B >= n {
			return vf23Expect{data: p[rq.A:], orOOR: true}
		}
		return vf23Expect{data: p[rq.A : rq.B+1]}
	case "from":
		if n == 0 {
			return vf23Expect{data: p, orOOR: true}
		}
		if rq.A >= n {
			return vf23Expect{mustOOR: true}
		}
		return vf23Expect{data: p[rq.A:]}
	case "suffix":
		if rq.A == 0 {
			return vf23Expect{anyErr: true}
		}
		if n == 0 {
			return vf23Expect{data: p, orOOR: true}
		}
		return vf23Expect{data: p[n-min(rq.A, n):]}
	}
	panic("verif: unknown mode")
}

func vf23Pick(rng *rand.Rand, fx *vf23Fixture) uint64 {
	switch rng.IntN(5) {
	case 0, 1:
		b := fx.boundaries[rng.IntN(len(fx.boundaries))]
		b += rng.IntN(3) - 1
		if b < 0 {
			b = 0
		}
		return uint64(b)
	case 2:
		return uint64(rng.IntN(fx.Len + 3))
	default:
		if fx.Len == 0 {
			return uint64(rng.IntN(3))
		}
		return uint64(rng.IntN(fx.Len))
	}
}

func vf23GenRequest(rng *rand.Rand, fx *vf23Fixture, isRep bool) vf23Request {
	rq := vf23Request{}
	switch rng.IntN(10) {
	case 0, 1:
		rq.API, rq.Mode = "get", "full"
	case 2, 3, 4:
		rq.API, rq.Mode = "get-range-legacy", "offlen"
	default:
		rq.API = "get-range-ext"
		rq.Mode = []string{"offlen", "bounds", "from", "suffix"}[rng.IntN(4)]
		rq.PlOnly = rng.IntN(2) == 0
	}
	a, b := vf23Pick(rng, fx), vf23Pick(rng, fx)
	switch rq.Mode {
	case "offlen":
		if a > b {
			a, b = b, a
		}
		rq.A, rq.B = a, b-a
		if rng.IntN(6) == 0 {
			rq.B = uint64(1 + rng.IntN(fx.Len+4)) // may run over the end
		}
		if rq.B == 0 {
			if rq.API == "get-range-ext" && rng.IntN(2) == 0 {
				rq.A = 0 // 0:0 = whole payload
			} else {
				rq.B = 1
			}
		}
		if rng.IntN(40) == 0 {
			rq.A, rq.B = ^uint64(0)-uint64(rng.IntN(4)), uint64(1+rng.IntN(8)) // overflow
		}
	case "bounds":
		if a > b && rng.IntN(8) != 0 {
			a, b = b, a
		}
		rq.A, rq.B = a, b
	case "from":
		rq.A = a
	case "suffix":
		rq.A = a
		if rng.IntN(5) == 0 {
			rq.A = uint64(fx.Len + rng.IntN(3))
		}
	}
	rq.Local = isRep && rng.IntN(3) == 0
	if !isRep && rq.API == "get" && rng.IntN(2) == 0 {
		rq.API = "get-ec-stream"
	}
	return rq
}

// vf23OnlyHeaderlessMembersDropped recognises the answer the known defect "full GET takes the
// parent header from data parts only" gives under broken streams: the payload is exact except
// that (size-split members of) the object come back empty where every data part of the rule
// the member is restored from is really unavailable - not stored, or its stream breaks before
// the end of the part. The restoring rule of a member is the first one, not before the rule
// the previous member was restored from, with no more than p parts really unavailable.
func vf23OnlyHeaderlessMembersDropped(fx *vf23Fixture, rq vf23Request, got []byte) bool {
	step := fx.Len
	if fx.Limit > 0 {
		step = fx.Limit
	}
	dropped, fromRule := 0, 0
	for off := 0; off < fx.Len; off += step {
		m := fx.payload[off:min(off+step, fx.Len)]
		unavailable := func(ri, pi int) bool {
			d := int(fx.rules[ri].DataPartNum)
			pl := (len(m) + d - 1) / d
			return slices.Contains(fx.Missing[ri], pi) ||
				slices.ContainsFunc(rq.Breaks, func(b vf23Break) bool { return b.Rule == ri && b.Part == pi && b.After < pl })
		}
		for ; fromRule < len(fx.rules); fromRule++ {
			n := 0
			for pi := 0; pi < int(fx.rules[fromRule].DataPartNum)+int(fx.rules[fromRule].ParityPartNum); pi++ {
				if unavailable(fromRule, pi) {
					n++
				}
			}
			if n <= int(fx.rules[fromRule].ParityPartNum) {
				break
			}
		}
		if fromRule == len(fx.rules) {
			return false // nothing can restore this member: the read had to fail
		}
		if bytes.HasPrefix(got, m) {
			got = got[len(m):]
			continue
		}
		for pi := 0; pi < int(fx.rules[fromRule].DataPartNum); pi++ {
			if !unavailable(fromRule, pi) {
				return false // this data part is readable, the member must have been served
			}
		}
		dropped++
	}
	return dropped > 0 && len(got) == 0
}

// vf23GenBreaks plans mid-stream failures for one read of an EC fixture: 1..p+1 stored parts of
// one rule (mostly rule #0, mostly data parts), sometimes one more part of the other rule. Break
// points: at the very start, after one byte, inside the requested length, anywhere in the part.
func vf23GenBreaks(rng *rand.Rand, fx *vf23Fixture, reqLen int) []vf23Break {
	var out []vf23Break
	objLen := fx.Len
	if fx.Limit > 0 {
		objLen = min(fx.Len, fx.Limit)
	}
	add := func(ri, n int) {
		ru := fx.rules[ri]
		d, total := int(ru.DataPartNum), int(ru.DataPartNum)+int(ru.ParityPartNum)
		var data, all []int
		for pi := 0; pi < total; pi++ {
			if slices.Contains(fx.Missing[ri], pi) {
				continue
			}
			all = append(all, pi)
			if pi < d {
				data = append(data, pi)
			}
		}
		pl := (objLen + d - 1) / d
		for i := 0; i < n && len(all) > 0; i++ {
			var pi int
			if len(data) > 0 && rng.IntN(4) != 0 {
				pi = data[rng.IntN(len(data))]
			} else {
				pi = all[rng.IntN(len(all))]
			}
			all = slices.DeleteFunc(all, func(x int) bool { return x == pi })
			data = slices.DeleteFunc(data, func(x int) bool { return x == pi })
			var k int
			switch rng.IntN(6) {
			case 0:
				k = 0
			case 1:
				k = 1
			case 2, 3:
				k = rng.IntN(min(pl, reqLen) + 1)
			default:
				k = rng.IntN(pl + 1)
			}
			out = append(out, vf23Break{Rule: ri, Part: pi, After: k})
		}
	}
	ri := 0
	if rng.IntN(3) == 0 {
		ri = rng.IntN(len(fx.rules))
	}
	n := 1
	if rng.IntN(3) == 0 {
		n = 1 + rng.IntN(int(fx.rules[ri].ParityPartNum)+1) // up to p+1: the rule gets beyond repair
	}
	add(ri, n)
	if len(fx.rules) > 1 && rng.IntN(4) == 0 {
		add(1-ri, 1)
	}
	return out
}

// ---------------------------------------------------------------------------------
// test
// ---------------------------------------------------------------------------------

func TestVerif_C23(t *testing.T) {
	r := verifkit.Start(t, "C23", "exploration")
	defer r.Finish()
	nWorlds := r.Pick(4, 24)
	objsPerWorld := r.Pick(30, 45)
	readsPerObj := r.Pick(45, 100)
	faultReadsPerECObj := r.Pick(10, 24)
	layouts := []string{"whole", "v2-link", "v2-nolink", "v1-link", "v1-nolink", "ec", "ec-lossy", "ec-fallback", "ec-split-link", "ec-split-nolink", "ec-split-lossy-link", "ec-split-lossy-nolink", "ec-lossy", "ec-split-fallback-link", "ec-split-fallback-nolink"}
	r.SetRule(fmt.Sprintf("%d real StorageEngines (1..2 shards, FSTree+metabase) x %d stored objects in the layouts %v (payload 0..64KiB, split limits 1..4KiB incl. exact multiples, 1..2 EC rules d=1..6 p=1..3, up to p parts of a rule not stored, 'fallback' = rule #0 beyond repair and rule #1 intact) x %d reads each through Service.Get (full and extended ranges: offset/length, inclusive bounds, from, suffix; with and without payload-only) and Service.GetRange (legacy), full GET of EC objects additionally through a streaming EC transport fake (Prm.WithECTransport), offsets drawn from member/part boundaries +-1, 0, len-1, len, len+1 and uniformly; distinct = (layout, API, range mode, position class of both ends, result class)", nWorlds, objsPerWorld, layouts, readsPerObj))
	r.Assume("single-node network: the local node holds everything that is stored, every other container node is unreachable")
	r.Assume("range semantics taken from the API: offset+length beyond the payload, bounds/from starting at or behind the end are unsatisfiable (out of range demanded); inclusive bounds ending behind the payload and from/suffix on an empty payload may be clipped or refused; inverted bounds and zero suffix must fail with any error; zero-length ranges other than 0:0 are not generated")
	r.Assume("the gRPC response transport of streamed EC GETs is an in-process fake written from the contract at getsvc.GetECRequestTransport (local part header+payload, local part ranges passed to StorageEngine.ReadECPartRange untouched, control channel honoured); remote transport calls are never reached because no connection can be made")

	if l := os.Getenv("VERIF_C23_LAYOUTS"); l != "" { // debugging aid
		layouts = strings.Split(l, ",")
		nWorlds, objsPerWorld, readsPerObj = 1, len(layouts), 6
	}
	scratch := os.Getenv("VERIF_SCRATCH")
	if scratch == "" {
		scratch = t.TempDir()
	}
	caseNo := 0
	for wi := 0; wi < nWorlds; wi++ {
		rng := r.Rand("world", wi)
		dir := filepath.Join(scratch, fmt.Sprintf("c23-world-%d", wi))
		w := vf23NewWorld(r, rng, dir, wi%2 == 1)
		if w == nil {
			return
		}
		for oi := 0; oi < objsPerWorld; oi++ {
			layout := layouts[(wi*objsPerWorld+oi)%len(layouts)]
			fx := w.build(rng, layout, oi)
			if fx == nil {
				continue
			}
			r.Count("objects_stored_layout_"+layout, 1)
			isRep := !strings.HasPrefix(layout, "ec")
			for k := 0; k < readsPerObj; k++ {
				caseNo++
				rq := vf23GenRequest(rng, fx, isRep)
				if k == 0 {
					rq = vf23Request{API: "get", Mode: "full"}
				}
				if k == 1 && !isRep {
					rq = vf23Request{API: "get-ec-stream", Mode: "full"}
				}
				vf23Read(r, w, fx, rq, caseNo)
			}
			if isRep {
				continue
			}
			// the same kinds of reads while payload streams of some stored parts break in the middle
			for k := 0; k < faultReadsPerECObj; k++ {
				caseNo++
				frng := r.Rand("fault-read", caseNo)
				rq := vf23GenRequest(frng, fx, false)
				if rq.API == "get-ec-stream" {
					rq.API = "get"
				}
				rq.Breaks = vf23GenBreaks(frng, fx, len(vf23Reference(fx.payload, rq).data))
				vf23Read(r, w, fx, rq, caseNo)
			}
		}
		r.Count("fixture_objects_put_into_engine", w.nPut)
		_ = w.eng.Close()
		_ = os.RemoveAll(dir)
	}
	if r.Counter("reads_ok_bytes_equal") == 0 || r.Counter("reads_out_of_range_as_demanded") == 0 {
		r.Inconclusive("did not observe both successful reads and out-of-range answers")
	}
	if r.Counter("fault_reads") > 0 && (r.Counter("fault_reads_a_stream_broke_after_handing_out_bytes") == 0 || r.Counter("fault_reads_ok_bytes_equal") == 0) {
		r.Inconclusive("reads with planned mid-stream failures: no stream broke after handing out bytes, or none of these reads was answered")
	}
}

func vf23NewWorld(r *verifkit.Run, rng *rand.Rand, dir string, eofWithData bool) *vf23World {
	nodeKey := vf23Key(rng)
	w := &vf23World{r: r, faults: &vf23Faults{}, owner: user.NewAutoIDSignerRFC6979(vf23Key(rng).PrivateKey)}
	w.local.SetPublicKey(nodeKey.PublicKey().Bytes())
	w.local.SetNetworkEndpoints("/ip4/10.1.1.1/tcp/8080")
	w.net = &vf23Net{localPub: nodeKey.PublicKey().Bytes(), byCnr: map[cid.ID]vf23Placement{}}
	elg := zap.NewNop()
	if os.Getenv("VERIF_C23_LAYOUTS") != "" {
		elg, _ = zap.NewDevelopment()
	}
	w.eng = engine.New(engine.WithLogger(elg))
	blob := func(s bscommon.Storage) bscommon.Storage { return s }
	if eofWithData {
		blob = func(s bscommon.Storage) bscommon.Storage { return vf23EOFStorage{s} }
		r.Count("worlds_whose_storage_streams_end_with_data+EOF", 1)
	}
	for i := 0; i < 1+rng.IntN(2); i++ {
		_, err := w.eng.AddShard(
			shard.WithLogger(elg),
			shard.WithBlobstor(vf23FaultStorage{Storage: blob(fstree.New(fstree.WithPath(filepath.Join(dir, fmt.Sprintf("fstree%d", i))), fstree.WithDepth(1), fstree.WithNoSync(true))), f: w.faults}),
			shard.WithMetaBaseOptions(
				meta.WithPath(filepath.Join(dir, fmt.Sprintf("meta%d", i))),
				meta.WithPermissions(0o700),
				meta.WithEpochState(vf23Epoch{}),
				meta.WithMaxBatchDelay(time.Microsecond),
				meta.WithBoltDBOptions(&bbolt.Options{NoSync: true}),
			),
		)
		if err != nil {
			r.Inconclusive("harness: cannot add shard: " + err.Error())
			return nil
		}
	}
	if err := w.eng.Init(); err != nil {
		r.Inconclusive("harness: cannot init engine: " + err.Error())
		return nil
	}
	lg := zap.NewNop()
	if os.Getenv("VERIF_C23_LAYOUTS") != "" {
		lg, _ = zap.NewDevelopment()
	}
	w.svc = New(w.net,
		WithLogger(lg),
		WithLocalStorageEngine(w.eng),
		WithClientConstructor(vf23NoConns{}),
		WithKeyStorage(util.NewKeyStorage(&nodeKey.PrivateKey, w.net, w.net)),
	)
	return w
}

func vf23PosClass(v uint64, fx *vf23Fixture) string {
	n := uint64(fx.Len)
	switch {
	case v == 0:
		return "0"
	case v == n:
		return "len"
	case v > n:
		return ">len"
	case v+1 == n:
		return "len-1"
	}
	for _, b := range fx.boundaries {
		if uint64(b) == v {
			return "boundary"
		}
		if uint64(b) == v+1 || uint64(b)+1 == v {
			return "boundary+-1"
		}
	}
	return "inside"
}

func vf23Read(r *verifkit.Run, w *vf23World, fx *vf23Fixture, rq vf23Request, caseNo int) {
	desc := map[string]any{"case": caseNo, "fixture": fx, "request": rq}
	ttl := uint32(2)
	if rq.Local {
		ttl = 1
	}
	cp := util.CommonPrmFromRequest(ttl, nil, common.RequestTokens{})
	addr := oid.NewAddress(fx.cnr, fx.root)
	out := &vf23Writer{}
	var err error
	var tr *vf23ECTransport
	// planned mid-stream failures: a part whose stream is planned to break counts as unavailable;
	// the statement promises the bytes while some rule has no more than its parity count of
	// parts unavailable, beyond that only "no wrong answer" is demanded
	faulty := len(rq.Breaks) > 0
	withinBudget, rule0BeyondRepair := true, false
	allDataOfRestoringRuleMissing := fx.allDataOfRestoringRuleMissing && len(rq.Breaks) == 0 // fault reads: judged on the streams that really break, see key()
	part0HeaderDefectMet := false
	if faulty {
		plan := map[oid.Address]int{}
		unavail := make([][]int, len(fx.rules))
		for ri := range fx.rules {
			unavail[ri] = slices.Clone(fx.Missing[ri])
		}
		for _, b := range rq.Breaks {
			unavail[b.Rule] = append(unavail[b.Rule], b.Part)
			for _, a := range fx.partAddrs[[2]int{b.Rule, b.Part}] {
				plan[a] = b.After
			}
		}
		withinBudget = false
		for ri, ru := range fx.rules {
			if len(unavail[ri]) <= int(ru.ParityPartNum) {
				withinBudget = true
			} else if ri == 0 {
				rule0BeyondRepair = true
			}
		}
		// range reads: a broken stream still yields the part header. The known "header of a range
		// read is taken from part #0 only" defect is met when no rule tried before (and including)
		// a rule within budget has its part #0 stored
		hdrKnown := false
		for ri, ru := range fx.rules {
			if !slices.Contains(fx.Missing[ri], 0) {
				hdrKnown = true
			}
			if len(unavail[ri]) <= int(ru.ParityPartNum) {
				if hdrKnown {
					part0HeaderDefectMet = false
					break
				}
				part0HeaderDefectMet = true
			}
		}
		w.faults.arm(plan)
	}
	panicked := r.Guard(desc, func() {
		switch rq.API {
		case "get", "get-range-ext", "get-ec-stream":
			var p Prm
			if rq.API == "get-ec-stream" {
				tr = &vf23ECTransport{out: out, cnr: fx.cnr, root: fx.root}
				p.WithECTransport(tr)
			}
			p.SetObjectWriter(out)
			p.SetCommonParameters(cp)
			p.WithAddress(addr)
			p.WithContainer(fx.cont)
			switch rq.Mode {
			case "offlen":
				rg := object.NewRange()
				rg.SetOffset(rq.A)
				rg.SetLength(rq.B)
				p.SetRange(rg)
			case "bounds":
				p.SetRangeBounds(rq.A, rq.B)
			case "from":
				p.SetRangeFrom(rq.A)
			case "suffix":
				p.SetRangeSuffix(rq.A)
			}
			if rq.PlOnly {
				p.MarkPayloadOnly()
			}
			err = w.svc.Get(context.Background(), p)
		case "get-range-legacy":
			var p RangePrm
			p.SetChunkWriter(out)
			p.SetCommonParameters(cp)
			p.WithAddress(addr)
			p.WithContainer(fx.cont)
			rg := object.NewRange()
			rg.SetOffset(rq.A)
			rg.SetLength(rq.B)
			p.SetRange(rg)
			err = w.svc.GetRange(context.Background(), p)
		}
	})
	r.Eval(1)
	var broken, brokenAfterData int
	if faulty {
		broken, brokenAfterData = w.faults.disarm()
	}
	if panicked {
		return
	}
	exp := vf23Reference(fx.payload, rq)
	oor := err != nil && errors.Is(err, apistatus.ErrObjectOutOfRange)
	isEC := strings.HasPrefix(fx.Layout, "ec")
	key := func(sym string) string {
		// a few precisely recognisable failure shapes get their own class
		switch {
		case rq.API == "get-ec-stream" && fx.paddingOnlyDataParts && err != nil && strings.Contains(err.Error(), "payload overflow"):
			return "ec|get-ec-stream|short-payload-leaves-padding-only-data-parts|padding-transmitted-then-payload-overflow-error"
		case rq.API == "get-ec-stream" && fx.paddingOnlyDataParts && sym == "wrong-bytes|extra-bytes" && len(bytes.Trim(out.buf[fx.Len:], "\x00")) == 0:
			return "ec|get-ec-stream|short-payload-leaves-padding-only-data-parts|zero-padding-appended"
		case isEC && rq.Mode == "full" && err == nil && len(out.buf) == 0 && fx.Len > 0 && allDataOfRestoringRuleMissing:
			return "ec|all-data-parts-of-restoring-rule-missing|full-get-returns-empty-object"
		case isEC && rq.Mode != "full" && err != nil && errors.Is(err, apistatus.ErrObjectNotFound) && fx.part0MissingEverywhere:
			return "ec|part0-missing-in-every-rule|range-read-object-not-found"
		case faulty && rq.Mode != "full" && err != nil && errors.Is(err, apistatus.ErrObjectNotFound) && part0HeaderDefectMet && strings.Contains(err.Error(), "first error: resolve parent payload length"):
			// same defect: the rules that the broken streams leave within budget lack part #0
			return "ec|part0-missing-in-every-rule|range-read-object-not-found"
		case faulty && rq.Mode == "full" && err == nil && fx.Len > 0 && vf23OnlyHeaderlessMembersDropped(fx, rq, out.buf):
			// same defect as the next one, per size-split member
			return "ec|all-data-parts-of-restoring-rule-missing|full-get-returns-empty-object"
		case fx.Layout == "v2-nolink" && rq.Mode != "full" && sym == "wrong-bytes|truncated" && len(out.buf) == 0:
			return "v2-nolink|any-range|walk-back-from-last-part-returns-no-bytes"
		case fx.Layout == "v1-nolink" && sym == "wrong-bytes|extra-bytes" && len(fx.lastMember) > 0 && bytes.Equal(out.buf[len(out.buf)-min(len(out.buf), len(fx.lastMember)):], fx.lastMember) && len(out.buf) == len(vf23Reference(fx.payload, rq).data)+len(fx.lastMember):
			return "v1-nolink|range-ends-before-last-member|whole-last-member-appended"
		}
		if faulty {
			sym += "|part-streams-break-midway"
			if rule0BeyondRepair {
				sym += "|rule0-beyond-repair-counting-broken-streams"
			}
		}
		return fmt.Sprintf("%s|%s|%s|%s", fx.Layout, rq.API, rq.Mode, sym)
	}
	resClass := "ok"
	switch {
	case oor:
		resClass = "out-of-range"
	case err != nil:
		resClass = "error"
	}
	faultClass := ""
	if faulty {
		switch {
		case !withinBudget:
			faultClass = "|faults:every-rule-beyond-repair"
		case rule0BeyondRepair:
			faultClass = "|faults:rule0-beyond-repair,later-rule-within-budget"
		default:
			faultClass = "|faults:rule0-within-budget"
		}
		if brokenAfterData > 0 {
			faultClass += ",broke-after-data"
		} else if broken > 0 {
			faultClass += ",broke-at-start"
		} else {
			faultClass += ",not-triggered"
		}
		r.Count("fault_reads", 1)
		r.Count("fault_reads_"+rq.API+"_"+rq.Mode, 1)
		r.Count("fault_read_streams_broken", broken)
		if broken > 0 {
			r.Count("fault_reads_a_stream_broke", 1)
		}
		if brokenAfterData > 0 {
			r.Count("fault_reads_a_stream_broke_after_handing_out_bytes", 1)
			if rule0BeyondRepair && withinBudget {
				r.Count("fault_reads_stream_broke_after_bytes,rule0_beyond_repair,later_rule_within_budget", 1)
			}
		}
		r.Seen("fault_read_classes_seen", strings.TrimPrefix(faultClass, "|faults:")+":"+resClass)
	}
	r.Distinct(fmt.Sprintf("%s|%s|%s|%s|%s|%s%s", fx.Layout, rq.API, rq.Mode, vf23PosClass(rq.A, fx), vf23PosClass(rq.A+rq.B, fx), resClass, faultClass))
	r.Seen("result_classes_seen", fx.Layout+":"+resClass)
	if isEC {
		nMiss := 0
		for _, m := range fx.Missing {
			nMiss += len(m)
		}
		if nMiss > 0 {
			r.Count("reads_of_ec_objects_with_missing_parts", 1)
		}
		if fx.paddingOnlyDataParts {
			r.Count("reads_of_ec_objects_with_padding_only_data_parts", 1)
		}
	}
	r.Count("reads_"+rq.API+"_"+rq.Mode, 1)
	if tr != nil {
		r.Count("ec_stream_transport_part0_header+payload_copies", tr.hdrs)
		r.Count("ec_stream_transport_part_range_copies", tr.ranges)
		r.Count("ec_stream_transport_aborted_range_copies", tr.aborts)
		if tr.hdrs == 0 {
			r.Count("ec_stream_reads_completed_by_buffered_restore_only", 1)
		}
	}

	switch {
	case exp.anyErr:
		if err == nil {
			r.Violation(key("malformed-range-accepted"), fmt.Sprintf("malformed %s range %d,%d was served with %d bytes", rq.Mode, rq.A, rq.B, len(out.buf)), desc)
			return
		}
		r.Count("reads_malformed_range_refused", 1)
	case exp.mustOOR:
		if err == nil {
			r.Violation(key("unsatisfiable-range-served"), fmt.Sprintf("%s range %d,%d of a %d-byte object was served (%d bytes) instead of out-of-range", rq.Mode, rq.A, rq.B, fx.Len, len(out.buf)), desc)
			return
		}
		if !oor && !withinBudget {
			r.Count("fault_reads_beyond_every_rules_budget_failed(allowed)", 1)
			return
		}
		if !oor {
			r.Violation(key("unsatisfiable-range-other-error"), fmt.Sprintf("%s range %d,%d of a %d-byte object: expected out-of-range status, got: %v", rq.Mode, rq.A, rq.B, fx.Len, err), desc)
			return
		}
		r.Count("reads_out_of_range_as_demanded", 1)
	default:
		if err != nil {
			if exp.orOOR && oor {
				r.Count("reads_clippable_range_refused_as_out_of_range(allowed)", 1)
				return
			}
			if !withinBudget {
				r.Count("fault_reads_beyond_every_rules_budget_failed(allowed)", 1)
				return
			}
			sym := "read-failed"
			if oor {
				sym = "satisfiable-range-reported-out-of-range"
			}
			if !fx.recoverBy0 {
				sym += "|rule0-beyond-repair"
			}
			r.Violation(key(sym), fmt.Sprintf("%s %s %d,%d of a %d-byte %s object failed: %v", rq.API, rq.Mode, rq.A, rq.B, fx.Len, fx.Layout, err), desc)
			return
		}
		if !bytes.Equal(out.buf, exp.data) {
			first := 0
			for first < len(out.buf) && first < len(exp.data) && out.buf[first] == exp.data[first] {
				first++
			}
			sym := "wrong-bytes|different"
			switch {
			case len(out.buf) > len(exp.data) && bytes.Equal(out.buf[:len(exp.data)], exp.data):
				sym = "wrong-bytes|extra-bytes"
			case len(out.buf) < len(exp.data) && bytes.Equal(out.buf, exp.data[:len(out.buf)]):
				sym = "wrong-bytes|truncated"
			}
			r.Violation(key(sym), fmt.Sprintf("%s %s %d,%d of a %d-byte %s object returned %d bytes, want %d; first difference at +%d (sha256 got %x.. want %x..)", rq.API, rq.Mode, rq.A, rq.B, fx.Len, fx.Layout, len(out.buf), len(exp.data), first, sha256.Sum256(out.buf), sha256.Sum256(exp.data)), desc)
			return
		}
		if exp.orOOR {
			r.Count("reads_clippable_range_clipped(allowed)", 1)
		}
		// header, when the API writes one, must be the requested object's
		if out.hdr != nil {
			if out.hdr.GetID() != fx.root || out.hdr.PayloadSize() != uint64(fx.Len) {
				r.Violation(key("wrong-header"), fmt.Sprintf("returned header is of object %s with payload size %d, requested %s with %d", out.hdr.GetID(), out.hdr.PayloadSize(), fx.root, fx.Len), desc)
				return
			}
			if out.hdrWrites > 1 {
				r.Violation(key("header-written-twice"), fmt.Sprintf("header was written %d times", out.hdrWrites), desc)
				return
			}
			r.Count("reads_with_header_checked", 1)
		} else if rq.API == "get" || rq.API == "get-ec-stream" {
			r.Violation(key("no-header"), "full GET finished without writing the object header", desc)
			return
		}
		r.Count("reads_ok_bytes_equal", 1)
		r.Count("bytes_compared", len(exp.data))
		if faulty {
			r.Count("fault_reads_ok_bytes_equal", 1)
			if broken > 0 {
				r.Count("fault_reads_ok_bytes_equal_although_a_stream_broke", 1)
			}
		}
		if caseNo%2503 == 0 {
			r.Sample(map[string]any{"layout": fx.Layout, "len": fx.Len, "split_limit": fx.Limit, "ec_rules": fx.Rules, "ec_missing": fx.Missing, "request": rq, "bytes": len(exp.data)})
		}
	}
}
