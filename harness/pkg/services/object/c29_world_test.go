//go:build verif

package object

// C29 – shared fixture of both monitors (c29_reject_test.go, c29_payload_test.go):
// one ordered event log fed by every dependency of the real object Server, real ACL stack
// (aclsvc.Service for tokens/roles, acl.Checker + SDK eACL validator for basic/extended ACL)
// over a real StorageEngine whose metrics register is a recorder, recording gRPC streams.

import (
	"context"
	"crypto/ecdsa"
	"errors"
	"fmt"
	"io"
	"math"
	"math/rand/v2"
	"sync"
	"sync/atomic"
	"time"

	"github.com/nspcc-dev/neo-go/pkg/core/block"
	"github.com/nspcc-dev/neo-go/pkg/core/transaction"
	"github.com/nspcc-dev/neo-go/pkg/crypto/keys"
	"github.com/nspcc-dev/neo-go/pkg/neorpc/result"
	"github.com/nspcc-dev/neo-go/pkg/smartcontract/trigger"
	neoutil "github.com/nspcc-dev/neo-go/pkg/util"
	iec "github.com/nspcc-dev/neofs-node/internal/ec"
	isessions "github.com/nspcc-dev/neofs-node/internal/sessions"
	"github.com/nspcc-dev/neofs-node/internal/verifkit"
	clientcore "github.com/nspcc-dev/neofs-node/pkg/core/client"
	objectcore "github.com/nspcc-dev/neofs-node/pkg/core/object"
	"github.com/nspcc-dev/neofs-node/pkg/local_object_storage/engine"
	aclchk "github.com/nspcc-dev/neofs-node/pkg/services/object/acl"
	aclsvc "github.com/nspcc-dev/neofs-node/pkg/services/object/acl/v2"
	"github.com/nspcc-dev/neofs-node/pkg/services/object/common"
	deletesvc "github.com/nspcc-dev/neofs-node/pkg/services/object/delete"
	getsvc "github.com/nspcc-dev/neofs-node/pkg/services/object/get"
	putsvc "github.com/nspcc-dev/neofs-node/pkg/services/object/put"
	objutil "github.com/nspcc-dev/neofs-node/pkg/services/object/util"
	sessionstate "github.com/nspcc-dev/neofs-node/pkg/util/state/session"
	"github.com/nspcc-dev/neofs-sdk-go/bearer"
	"github.com/nspcc-dev/neofs-sdk-go/client"
	apistatus "github.com/nspcc-dev/neofs-sdk-go/client/status"
	"github.com/nspcc-dev/neofs-sdk-go/container"
	"github.com/nspcc-dev/neofs-sdk-go/container/acl"
	cid "github.com/nspcc-dev/neofs-sdk-go/container/id"
	neofscrypto "github.com/nspcc-dev/neofs-sdk-go/crypto"
	neofsecdsa "github.com/nspcc-dev/neofs-sdk-go/crypto/ecdsa"
	"github.com/nspcc-dev/neofs-sdk-go/eacl"
	"github.com/nspcc-dev/neofs-sdk-go/netmap"
	"github.com/nspcc-dev/neofs-sdk-go/object"
	oid "github.com/nspcc-dev/neofs-sdk-go/object/id"
	protoacl "github.com/nspcc-dev/neofs-sdk-go/proto/acl"
	protoobject "github.com/nspcc-dev/neofs-sdk-go/proto/object"
	iprotobuf "github.com/nspcc-dev/neofs-sdk-go/proto/protobuf"
	protosession "github.com/nspcc-dev/neofs-sdk-go/proto/session"
	"github.com/nspcc-dev/neofs-sdk-go/session"
	sessionv2 "github.com/nspcc-dev/neofs-sdk-go/session/v2"
	"github.com/nspcc-dev/neofs-sdk-go/stat"
	"github.com/nspcc-dev/neofs-sdk-go/user"
	"go.uber.org/zap"
	"google.golang.org/grpc/metadata"
	"google.golang.org/protobuf/proto"
)

// ---------------------------------------------------------------------------------------
// event log

type vf29Event struct {
	Seq  int    `json:"seq"`
	Kind string `json:"kind"` // effect | read | eacl | send
	What string `json:"what"`
	// eacl
	Stage  string `json:"stage,omitempty"`  // request | header | response
	Result string `json:"result,omitempty"` // allow | deny | notmatched | error
	HdrOID string `json:"hdr_oid,omitempty"`
	// send
	Payload int    `json:"payload,omitempty"`
	Header  bool   `json:"header,omitempty"`
	Code    uint32 `json:"code,omitempty"`
}

type vf29Log struct {
	mu sync.Mutex
	ev []vf29Event
}

func (l *vf29Log) add(e vf29Event) {
	l.mu.Lock()
	e.Seq = len(l.ev)
	l.ev = append(l.ev, e)
	l.mu.Unlock()
}
func (l *vf29Log) effect(what string) { l.add(vf29Event{Kind: "effect", What: what}) }
func (l *vf29Log) read(what string)   { l.add(vf29Event{Kind: "read", What: what}) }
func (l *vf29Log) events() []vf29Event {
	l.mu.Lock()
	defer l.mu.Unlock()
	return append([]vf29Event(nil), l.ev...)
}
func (l *vf29Log) len() int { l.mu.Lock(); defer l.mu.Unlock(); return len(l.ev) }

// effects returns the storage/network touches made on behalf of serving a request.  Header
// look-ups made by the ACL checker itself while it evaluates the eACL (engine.Head, header
// source) are part of the access check and are reported separately.
func vf29Effects(ev []vf29Event) (served []string, aclLookups []string) {
	for _, e := range ev {
		if e.Kind != "effect" {
			continue
		}
		if e.What == "engine.Head" || e.What == "acl.headerSource.Head" {
			aclLookups = append(aclLookups, e.What)
		} else {
			served = append(served, e.What)
		}
	}
	return
}

// ---------------------------------------------------------------------------------------
// keys and identities

func vf29Key(rng *rand.Rand) *ecdsa.PrivateKey {
	for {
		k, err := keys.NewPrivateKeyFromBytes(verifkit.RandBytes(rng, 32))
		if err == nil {
			return &k.PrivateKey
		}
	}
}

func vf29Pub(k *ecdsa.PrivateKey) []byte { return (*keys.PublicKey)(&k.PublicKey).Bytes() }

type vf29Ident struct {
	key *ecdsa.PrivateKey
	usr user.ID
}

func vf29NewIdent(rng *rand.Rand) vf29Ident {
	k := vf29Key(rng)
	return vf29Ident{key: k, usr: user.NewFromECDSAPublicKey(k.PublicKey)}
}

func (i vf29Ident) signer(scheme string) neofscrypto.Signer {
	switch scheme {
	case "sha512":
		return neofsecdsa.Signer(*i.key)
	case "rfc6979":
		return neofsecdsa.SignerRFC6979(*i.key)
	default:
		return neofsecdsa.SignerWalletConnect(*i.key)
	}
}

func (i vf29Ident) userSigner() user.Signer { return user.NewAutoIDSignerRFC6979(*i.key) }

// ---------------------------------------------------------------------------------------
// world

type vf29World struct {
	log *vf29Log

	node    vf29Ident
	remotes []vf29Ident
	epoch   uint64
	now     time.Time

	cnrID cid.ID
	cnr   container.Container
	eacl  *eacl.Table // nil: no table in the contract
	// container nodes (local node first when it belongs to the container)
	localInContainer bool
	localLast        bool // local node is the last one of every node list
	// fault: the container-membership (netmap) lookup of the local node fails
	memberLookupFails bool
	ecRules          []iec.Rule
	repRules         []uint

	eng     *engine.StorageEngine
	checker *vf29ACL
	srv     *Server
	putSvc  *putsvc.Service

	// handlers
	handlers Handlers
	clients  ClientConstructor
}

func (w *vf29World) nodeInfos() []netmap.NodeInfo {
	var res []netmap.NodeInfo
	var local netmap.NodeInfo
	local.SetPublicKey(vf29Pub(w.node.key))
	local.SetNetworkEndpoints("/ip4/127.0.0.1/tcp/10")
	if w.localInContainer && !w.localLast {
		res = append(res, local)
	}
	for i, r := range w.remotes {
		var ni netmap.NodeInfo
		ni.SetPublicKey(vf29Pub(r.key))
		ni.SetNetworkEndpoints(fmt.Sprintf("/ip4/127.0.0.1/tcp/%d", 11+i))
		res = append(res, ni)
	}
	if w.localInContainer && w.localLast {
		res = append(res, local)
	}
	return res
}

func (w *vf29World) isLocalKey(pub []byte) bool { return string(pub) == string(vf29Pub(w.node.key)) }

func (w *vf29World) inContainer(pub []byte) bool {
	for _, n := range w.nodeInfos() {
		if string(n.PublicKey()) == string(pub) {
			return true
		}
	}
	return false
}

// --- FS chain views (object.FSChain, aclsvc.FSChain, aclsvc.Netmapper, getsvc/putsvc networks)

type vf29Chain struct{ w *vf29World }

func (c vf29Chain) Get(id cid.ID) (container.Container, error) {
	c.w.log.read("chain.container")
	if id != c.w.cnrID {
		return container.Container{}, apistatus.ErrContainerNotFound
	}
	return c.w.cnr, nil
}
func (c vf29Chain) GetEACL(id cid.ID) (eacl.Table, error) {
	c.w.log.read("chain.eacl")
	if id != c.w.cnrID || c.w.eacl == nil {
		return eacl.Table{}, apistatus.ErrEACLNotFound
	}
	return *c.w.eacl, nil
}
func (c vf29Chain) CurrentEpoch() uint64         { return c.w.epoch }
func (c vf29Chain) CurrentBlock() uint32         { return 1000 }
func (c vf29Chain) CurrentEpochDuration() uint64 { return 240 }
func (c vf29Chain) Epoch() (uint64, error)       { return c.w.epoch, nil }
func (c vf29Chain) NetMap() (*netmap.NetMap, error) {
	var nm netmap.NetMap
	nm.SetEpoch(c.w.epoch)
	nm.SetNodes(c.w.nodeInfos())
	return &nm, nil
}
func (c vf29Chain) GetNetMapByEpoch(uint64) (*netmap.NetMap, error) { return c.NetMap() }
func (c vf29Chain) ServerInContainer(cid.ID) (bool, error) {
	if c.w.memberLookupFails {
		c.w.log.add(vf29Event{Kind: "read", What: "netmap.ServerInContainer", Result: "error"})
		return false, errors.New("vf29: netmap unavailable")
	}
	return c.w.localInContainer, nil
}
func (c vf29Chain) GetEpochBlock(uint64) (uint32, error)             { return 1, nil }
func (c vf29Chain) GetEpochBlockByTime(uint32) (uint32, error)       { return 1, nil }
func (c vf29Chain) Now() time.Time                                   { return c.w.now }
func (c vf29Chain) InnerRingKeys() [][]byte                          { return nil }
func (c vf29Chain) HasUserInNNS(string, neoutil.Uint160) (bool, error) {
	return false, nil
}
func (c vf29Chain) InContainerInLastTwoEpochs(id cid.ID, pub []byte) (bool, error) {
	return id == c.w.cnrID && c.w.inContainer(pub), nil
}
func (c vf29Chain) InvokeContainedScript(*transaction.Transaction, *block.Header, *trigger.Type, *bool) (*result.Invoke, error) {
	c.w.log.read("chain.invokeScript")
	return nil, errors.New("vf29: N3 witnesses are not used by this harness")
}
func (c vf29Chain) ForEachContainerNodePublicKey(id cid.ID, f func([]byte) bool) error {
	c.w.log.read("chain.containerNodes")
	if id != c.w.cnrID {
		return apistatus.ErrContainerNotFound
	}
	for _, n := range c.w.nodeInfos() {
		if !f(n.PublicKey()) {
			return nil
		}
	}
	return nil
}
func (c vf29Chain) ForEachContainerNodePublicKeyInLastTwoEpochs(id cid.ID, f func([]byte) bool) error {
	return c.ForEachContainerNodePublicKey(id, f)
}
func (c vf29Chain) nodeSets() ([][]netmap.NodeInfo, []uint, []iec.Rule) {
	n := len(c.w.repRules) + len(c.w.ecRules)
	sets := make([][]netmap.NodeInfo, n)
	for i := range sets {
		sets[i] = c.w.nodeInfos()
	}
	return sets, c.w.repRules, c.w.ecRules
}
func (c vf29Chain) SelectContainerNodes(id cid.ID) ([][]netmap.NodeInfo, []uint, []iec.Rule, error) {
	c.w.log.read("chain.selectNodes")
	if id != c.w.cnrID {
		return nil, nil, nil, apistatus.ErrContainerNotFound
	}
	s, r, e := c.nodeSets()
	return s, r, e, nil
}
func (c vf29Chain) GetNodesForObject(a oid.Address) ([][]netmap.NodeInfo, []uint, []iec.Rule, error) {
	return c.SelectContainerNodes(a.Container())
}
func (c vf29Chain) IsOwnPublicKey(pub []byte) bool       { return c.w.isLocalKey(pub) }
func (c vf29Chain) IsLocalNodePublicKey(pub []byte) bool { return c.w.isLocalKey(pub) }
func (c vf29Chain) LocalNodeUnderMaintenance() bool      { return false }

// --- Storage of the object server

type vf29Storage struct{ w *vf29World }

func (s vf29Storage) VerifyAndStoreObjectLocally(context.Context, object.Object) error {
	s.w.log.effect("storage.VerifyAndStoreObjectLocally")
	return nil
}
func (s vf29Storage) SearchObjects(context.Context, cid.ID, []objectcore.SearchFilter, []string, *objectcore.SearchCursor, uint16) ([]client.SearchResultItem, []byte, error) {
	s.w.log.effect("storage.SearchObjects")
	return nil, nil, nil
}
func (s vf29Storage) GetSessionPrivateKey(user.ID) (ecdsa.PrivateKey, error) {
	s.w.log.read("storage.sessionKey")
	return ecdsa.PrivateKey{}, apistatus.ErrSessionTokenNotFound
}
func (s vf29Storage) GetSessionV2PrivateKey([]sessionv2.Target) (ecdsa.PrivateKey, error) {
	s.w.log.read("storage.sessionKeyV2")
	return ecdsa.PrivateKey{}, apistatus.ErrSessionTokenNotFound
}

// --- recording Handlers (reject monitor): any call is an effect

type vf29RecHandlers struct{ w *vf29World }

func (h vf29RecHandlers) Get(context.Context, getsvc.Prm) error {
	h.w.log.effect("handlers.Get")
	return nil
}
func (h vf29RecHandlers) Head(context.Context, getsvc.HeadPrm) error {
	h.w.log.effect("handlers.Head")
	return nil
}
func (h vf29RecHandlers) Delete(context.Context, deletesvc.Prm) error {
	h.w.log.effect("handlers.Delete")
	return nil
}
func (h vf29RecHandlers) GetRange(context.Context, getsvc.RangePrm) error {
	h.w.log.effect("handlers.GetRange")
	return nil
}
func (h vf29RecHandlers) Put(ctx context.Context) (*putsvc.Streamer, error) {
	h.w.log.read("handlers.Put(open)") // creating the real streamer touches nothing
	return h.w.putSvc.Put(ctx)
}

// --- dependencies of the real putsvc.Service

type vf29PutNet struct{ w *vf29World }

func (n vf29PutNet) GetContainerNodes(id cid.ID) (putsvc.ContainerNodes, error) {
	n.w.log.read("put.containerNodes")
	if id != n.w.cnrID {
		return nil, apistatus.ErrContainerNotFound
	}
	return vf29CnrNodes{n.w}, nil
}
func (n vf29PutNet) IsLocalNodePublicKey(pub []byte) bool       { return n.w.isLocalKey(pub) }
func (n vf29PutNet) GetEpochBlock(uint64) (uint32, error)       { return 1, nil }
func (n vf29PutNet) GetEpochBlockByTime(uint32) (uint32, error) { return 1, nil }
func (n vf29PutNet) CurrentEpoch() uint64                       { return n.w.epoch }
func (n vf29PutNet) CurrentBlock() uint32                       { return 1000 }
func (n vf29PutNet) CurrentEpochDuration() uint64               { return 240 }
func (n vf29PutNet) Get(id cid.ID) (container.Container, error) { return vf29Chain{n.w}.Get(id) }
func (n vf29PutNet) MaxObjectSize() uint64                      { return 1 << 20 }
func (n vf29PutNet) UnpaidSince(cid.ID) (int64, error)          { n.w.log.read("put.init"); return -1, nil }
func (n vf29PutNet) AvailableQuotasLeft(cid.ID, user.ID) (uint64, uint64, error) {
	return math.MaxUint64, math.MaxUint64, nil
}
func (n vf29PutNet) VerifySplit(context.Context, cid.ID, oid.ID, []object.MeasuredObject) error {
	return nil
}
func (n vf29PutNet) VerifyTomb(context.Context, cid.ID, object.Tombstone) error { return nil }
func (n vf29PutNet) VerifyTombStoneWithoutPayload(context.Context, object.Object) error {
	return nil
}
func (n vf29PutNet) HandlePostPlacement(*object.Object, []netmap.NodeInfo) {}
func (n vf29PutNet) GetToken(user.ID) *sessionstate.PrivateToken             { return nil }
func (n vf29PutNet) FindTokenBySubjects([]sessionv2.Target) *sessionstate.PrivateToken {
	return nil
}

type vf29CnrNodes struct{ w *vf29World }

func (x vf29CnrNodes) Unsorted() [][]netmap.NodeInfo {
	s, _, _ := vf29Chain{x.w}.nodeSets()
	return s
}
func (x vf29CnrNodes) SortForObject(oid.ID) ([][]netmap.NodeInfo, error) { return x.Unsorted(), nil }
func (x vf29CnrNodes) PrimaryCounts() []uint                             { return x.w.repRules }
func (x vf29CnrNodes) ECRules() []iec.Rule                               { return x.w.ecRules }

type vf29PutStore struct{ w *vf29World }

func (s vf29PutStore) Put(context.Context, *object.Object, []byte) error {
	s.w.log.effect("put.localStore.Put")
	return nil
}
func (s vf29PutStore) IsLocked(context.Context, oid.Address) (bool, error) {
	s.w.log.effect("put.localStore.IsLocked")
	return false, nil
}

type vf29PutTransport struct{ w *vf29World }

func (t vf29PutTransport) SendReplicationRequestToNode(context.Context, []byte, netmap.NodeInfo) ([]byte, error) {
	t.w.log.effect("put.transport.SendReplicationRequestToNode")
	return nil, errors.New("vf29: remote node is a recorder only")
}

type vf29RecClients struct {
	w    *vf29World
	what string
}

func (c vf29RecClients) Get(context.Context, netmap.NodeInfo) (clientcore.MultiAddressClient, error) {
	c.w.log.effect(c.what)
	return nil, errors.New("vf29: remote node is a recorder only")
}

// --- engine metrics recorder (every operation of the real StorageEngine)

type vf29EffectSink interface{ effect(string) }

// vf29SharedLog lets one long-lived engine report into the log of the current case.
type vf29SharedLog struct{ cur atomic.Pointer[vf29Log] }

func (s *vf29SharedLog) effect(what string) {
	if l := s.cur.Load(); l != nil {
		l.effect(what)
	}
}

type vf29EngineMetrics struct{ l vf29EffectSink }

func (m vf29EngineMetrics) AddListContainersDuration(time.Duration)        { m.l.effect("engine.ListContainers") }
func (m vf29EngineMetrics) AddEstimateContainerSizeDuration(time.Duration) { m.l.effect("engine.ContainerSize") }
func (m vf29EngineMetrics) AddDeleteDuration(time.Duration)                { m.l.effect("engine.Delete") }
func (m vf29EngineMetrics) AddDropDuration(time.Duration)                  { m.l.effect("engine.Drop") }
func (m vf29EngineMetrics) AddExistsDuration(time.Duration)                { m.l.effect("engine.Exists") }
func (m vf29EngineMetrics) AddGetDuration(time.Duration)                   { m.l.effect("engine.Get") }
func (m vf29EngineMetrics) AddHeadDuration(time.Duration)                  { m.l.effect("engine.Head") }
func (m vf29EngineMetrics) AddReadHeaderDuration(time.Duration)            { m.l.effect("engine.ReadHeader") }
func (m vf29EngineMetrics) AddReadObjectDuration(time.Duration)            { m.l.effect("engine.ReadObject") }
func (m vf29EngineMetrics) AddReadPayloadRangeDuration(time.Duration)      { m.l.effect("engine.ReadPayloadRange") }
func (m vf29EngineMetrics) AddGetStreamDuration(time.Duration)             { m.l.effect("engine.GetStream") }
func (m vf29EngineMetrics) AddGetRangeStreamDuration(time.Duration)        { m.l.effect("engine.GetRangeStream") }
func (m vf29EngineMetrics) AddInhumeDuration(time.Duration)                { m.l.effect("engine.Inhume") }
func (m vf29EngineMetrics) AddPutDuration(time.Duration)                   { m.l.effect("engine.Put") }
func (m vf29EngineMetrics) AddRangeDuration(time.Duration)                 { m.l.effect("engine.Range") }
func (m vf29EngineMetrics) AddSearchDuration(time.Duration)                { m.l.effect("engine.Search") }
func (m vf29EngineMetrics) AddListObjectsDuration(time.Duration)           { m.l.effect("engine.ListObjects") }
func (m vf29EngineMetrics) AddGetECPartDuration(time.Duration)             { m.l.effect("engine.GetECPart") }
func (m vf29EngineMetrics) AddReadECPartDuration(time.Duration)            { m.l.effect("engine.ReadECPart") }
func (m vf29EngineMetrics) AddGetECPartRangeDuration(time.Duration)        { m.l.effect("engine.GetECPartRange") }
func (m vf29EngineMetrics) AddHeadECPartDuration(time.Duration)            { m.l.effect("engine.HeadECPart") }
func (m vf29EngineMetrics) AddReadECPartHeaderDuration(time.Duration)      { m.l.effect("engine.ReadECPartHeader") }
func (m vf29EngineMetrics) AddReadECPartRangeDuration(time.Duration)       { m.l.effect("engine.ReadECPartRange") }
func (m vf29EngineMetrics) SetObjectCounter(string, string, uint64)        {}
func (m vf29EngineMetrics) AddToObjectCounter(string, string, int)         {}
func (m vf29EngineMetrics) SetReadonly(string, bool)                       {}
func (m vf29EngineMetrics) AddToContainerSize(string, int64)               {}
func (m vf29EngineMetrics) AddToPayloadCounter(string, int64)              {}

// --- ACL: real checker, every evaluation is logged with the message kind it was given

type vf29HeaderSource struct{ w *vf29World }

func (h vf29HeaderSource) Head(context.Context, oid.Address) (*object.Object, error) {
	h.w.log.effect("acl.headerSource.Head")
	return nil, apistatus.ErrObjectNotFound
}

type vf29ACL struct {
	w    *vf29World
	real *aclchk.Checker
}

func (a *vf29ACL) CheckBasicACL(i aclsvc.RequestInfo) bool {
	ok := a.real.CheckBasicACL(i)
	a.w.log.add(vf29Event{Kind: "read", What: "acl.basic", Result: fmt.Sprint(ok)})
	return ok
}
func (a *vf29ACL) StickyBitCheck(i aclsvc.RequestInfo, u user.ID) bool {
	ok := a.real.StickyBitCheck(i, u)
	a.w.log.add(vf29Event{Kind: "read", What: "acl.sticky", Result: fmt.Sprint(ok)})
	return ok
}
func (a *vf29ACL) CheckEACL(ctx context.Context, m any, c cid.ID, o oid.ID, i aclsvc.RequestInfo) error {
	ev := vf29Event{Kind: "eacl", What: fmt.Sprintf("%T", m)}
	switch v := m.(type) {
	case []byte:
		ev.Stage = "header"
		ev.HdrOID = oid.NewFromObjectHeaderBinary(v).String()
	case *protoobject.GetResponse:
		ev.Stage = "response"
		if in := v.GetBody().GetInit(); in != nil {
			var id oid.ID
			if in.ObjectId != nil && id.FromProtoMessage(in.ObjectId) == nil {
				ev.HdrOID = id.String()
			}
		}
	case *protoobject.HeadResponse:
		ev.Stage = "response"
		if h := v.GetBody().GetHeader().GetHeader(); h != nil {
			b := make([]byte, h.MarshaledSize())
			h.MarshalStable(b)
			ev.HdrOID = oid.NewFromObjectHeaderBinary(b).String()
		}
	default:
		ev.Stage = "request"
	}
	err := a.real.CheckEACL(ctx, m, c, o, i)
	switch {
	case err == nil:
		ev.Result = "allow"
	case errors.Is(err, aclsvc.ErrNotMatched):
		ev.Result = "notmatched"
	default:
		ev.Result = "deny"
		ev.What += ": " + err.Error()
	}
	a.w.log.add(ev)
	return err
}

// --- request info extractor: the real aclsvc.Service behind a thin recorder

type vf29ReqInfo struct {
	w *vf29World
	aclsvc.Service
}

func (x vf29ReqInfo) VerifySessionTokenMessage(m *protosession.SessionTokenV2, v sessionv2.Verb, c cid.ID) (sessionv2.Token, error) {
	t, err := x.Service.VerifySessionTokenMessage(m, v, c)
	x.w.log.add(vf29Event{Kind: "read", What: "token.sessionV2", Result: fmt.Sprint(err == nil)})
	return t, err
}
func (x vf29ReqInfo) VerifySessionV1TokenMessage(m *protosession.SessionToken, v session.ObjectVerb, c cid.ID, o oid.ID) (session.Object, error) {
	t, err := x.Service.VerifySessionV1TokenMessage(m, v, c, o)
	x.w.log.add(vf29Event{Kind: "read", What: "token.sessionV1", Result: fmt.Sprint(err == nil)})
	return t, err
}
func (x vf29ReqInfo) VerifyBearerTokenMessage(m *protoacl.BearerToken) (bearer.Token, error) {
	t, err := x.Service.VerifyBearerTokenMessage(m)
	x.w.log.add(vf29Event{Kind: "read", What: "token.bearer", Result: fmt.Sprint(err == nil)})
	return t, err
}

type vf29Metrics struct{}

func (vf29Metrics) HandleOpExecResult(stat.Method, bool, time.Duration) {}
func (vf29Metrics) AddPutPayload(int)                                   {}
func (vf29Metrics) AddGetPayload(int)                                   {}

// vf29NewWorld creates identities; call finish after the container is configured.
func vf29NewWorld(rng *rand.Rand, remotes int) *vf29World {
	w := &vf29World{log: &vf29Log{}, epoch: 10, now: time.Unix(1_700_000_000, 0), localInContainer: true, repRules: []uint{2}}
	w.node = vf29NewIdent(rng)
	for i := 0; i < remotes; i++ {
		w.remotes = append(w.remotes, vf29NewIdent(rng))
	}
	return w
}

func vf29NewContainer(owner user.ID, basic acl.Basic, ecRules []iec.Rule) (cid.ID, container.Container) {
	var cnr container.Container
	cnr.Init()
	cnr.SetOwner(owner)
	cnr.SetBasicACL(basic)
	var pp netmap.PlacementPolicy
	if len(ecRules) > 0 {
		var rs []netmap.ECRule
		for _, r := range ecRules {
			rs = append(rs, netmap.NewECRule(uint32(r.DataPartNum), uint32(r.ParityPartNum)))
		}
		pp.SetECRules(rs)
	} else {
		var rd netmap.ReplicaDescriptor
		rd.SetNumberOfObjects(2)
		pp.SetReplicas([]netmap.ReplicaDescriptor{rd})
	}
	cnr.SetPlacementPolicy(pp)
	return cid.NewFromMarshalledContainer(cnr.Marshal()), cnr
}

// finish wires the real ACL stack and the server.  eng == nil: shard-less engine.
func (w *vf29World) finish(eng *engine.StorageEngine, handlers Handlers, clients ClientConstructor) {
	ch := vf29Chain{w}
	if eng == nil {
		eng = engine.New(engine.WithMetrics(vf29EngineMetrics{w.log}), engine.WithLogger(zap.NewNop()))
	}
	w.eng = eng
	real := aclchk.NewChecker(new(aclchk.CheckerPrm).
		SetEACLSource(ch).
		SetValidator(eacl.NewValidator()).
		SetLocalStorage(eng).
		SetHeaderSource(vf29HeaderSource{w}))
	w.checker = &vf29ACL{w: w, real: real}
	svc := aclsvc.New(ch, isessions.NewObjectSessionsCache(64),
		aclsvc.WithLogger(zap.NewNop()),
		aclsvc.WithIRFetcher(ch),
		aclsvc.WithNetmapper(ch),
		aclsvc.WithContainerSource(ch),
		aclsvc.WithTimeProvider(ch),
	)
	pn := vf29PutNet{w}
	w.putSvc = putsvc.NewService(vf29PutTransport{w}, pn, nil, pn, pn,
		putsvc.WithLogger(zap.NewNop()),
		putsvc.WithKeyStorage(objutil.NewKeyStorage(w.node.key, pn, pn)),
		putsvc.WithObjectStorage(vf29PutStore{w}),
		putsvc.WithMaxSizeSource(pn),
		putsvc.WithContainerSource(pn),
		putsvc.WithNetworkState(pn),
		putsvc.WithClientConstructor(vf29RecClients{w, "put.clients.Get"}),
		putsvc.WithSplitChainVerifier(pn),
		putsvc.WithTombstoneVerifier(pn),
		putsvc.WithPostPlacementReplicator(pn),
	)
	if handlers == nil {
		handlers = vf29RecHandlers{w}
	}
	if clients == nil {
		clients = vf29RecClients{w, "clients.Get"}
	}
	w.handlers, w.clients = handlers, clients
	w.srv = New(handlers, ch, vf29Storage{w}, nil, *w.node.key, vf29Metrics{},
		w.checker, vf29ReqInfo{w, svc}, clients, zap.NewNop())
}

// ---------------------------------------------------------------------------------------
// recording gRPC server streams: every message that would go to the client is decoded and
// logged in the same event log (so "payload sent" and "eACL evaluated" are totally ordered)

type vf29Stream struct {
	ctx    context.Context
	log    *vf29Log
	decode func([]byte) (proto.Message, vf29Event, error)
	mu     sync.Mutex
	raw    [][]byte
}

func (s *vf29Stream) SetHeader(metadata.MD) error  { return nil }
func (s *vf29Stream) SendHeader(metadata.MD) error { return nil }
func (s *vf29Stream) SetTrailer(metadata.MD)       {}
func (s *vf29Stream) Context() context.Context     { return s.ctx }
func (s *vf29Stream) RecvMsg(any) error            { return io.EOF }
func (s *vf29Stream) SendMsg(m any) error {
	data, err := iprotobuf.BufferedCodec{}.Marshal(m) // the node's codec
	if err != nil {
		return err
	}
	b := data.Materialize()
	data.Free() // as the transport does after writing
	s.mu.Lock()
	s.raw = append(s.raw, b)
	s.mu.Unlock()
	_, ev, derr := s.decode(b)
	if derr != nil {
		ev = vf29Event{What: "undecodable: " + derr.Error()}
	}
	ev.Kind = "send"
	s.log.add(ev)
	return nil
}

func vf29DecodeGet(b []byte) (proto.Message, vf29Event, error) {
	var r protoobject.GetResponse
	if err := proto.Unmarshal(b, &r); err != nil {
		return nil, vf29Event{}, err
	}
	ev := vf29Event{What: "GetResponse", Code: r.GetMetaHeader().GetStatus().GetCode(), Payload: len(r.GetBody().GetChunk())}
	if in := r.GetBody().GetInit(); in != nil {
		ev.Header = true
		var id oid.ID
		if in.ObjectId != nil && id.FromProtoMessage(in.ObjectId) == nil {
			ev.HdrOID = id.String()
		}
	}
	if r.GetBody().GetSplitInfo() != nil {
		ev.What = "GetResponse(splitinfo)"
	}
	return &r, ev, nil
}

func vf29DecodeRange(b []byte) (proto.Message, vf29Event, error) {
	var r protoobject.GetRangeResponse
	if err := proto.Unmarshal(b, &r); err != nil {
		return nil, vf29Event{}, err
	}
	ev := vf29Event{What: "GetRangeResponse", Code: r.GetMetaHeader().GetStatus().GetCode(), Payload: len(r.GetBody().GetChunk())}
	if r.GetBody().GetSplitInfo() != nil {
		ev.What = "GetRangeResponse(splitinfo)"
	}
	return &r, ev, nil
}

func vf29DecodeHead(b []byte) (proto.Message, vf29Event, error) {
	var r protoobject.HeadResponse
	if err := proto.Unmarshal(b, &r); err != nil {
		return nil, vf29Event{}, err
	}
	ev := vf29Event{What: "HeadResponse", Code: r.GetMetaHeader().GetStatus().GetCode()}
	if h := r.GetBody().GetHeader(); h != nil {
		ev.Header = true
		if hh := h.GetHeader(); hh != nil {
			hb := make([]byte, hh.MarshaledSize())
			hh.MarshalStable(hb)
			ev.HdrOID = oid.NewFromObjectHeaderBinary(hb).String()
		}
	}
	if r.GetBody().GetShortHeader() != nil {
		ev.Header = true
	}
	if r.GetBody().GetSplitInfo() != nil {
		ev.What = "HeadResponse(splitinfo)"
	}
	return &r, ev, nil
}

func vf29DecodePut(b []byte) (proto.Message, vf29Event, error) {
	var r protoobject.PutResponse
	if err := proto.Unmarshal(b, &r); err != nil {
		return nil, vf29Event{}, err
	}
	return &r, vf29Event{What: "PutResponse", Code: r.GetMetaHeader().GetStatus().GetCode(), Header: r.GetBody().GetObjectId() != nil}, nil
}

func vf29DecodeDelete(b []byte) (proto.Message, vf29Event, error) {
	var r protoobject.DeleteResponse
	if err := proto.Unmarshal(b, &r); err != nil {
		return nil, vf29Event{}, err
	}
	return &r, vf29Event{What: "DeleteResponse", Code: r.GetMetaHeader().GetStatus().GetCode(), Header: r.GetBody().GetTombstone() != nil}, nil
}

func vf29DecodeSearch(b []byte) (proto.Message, vf29Event, error) {
	var r protoobject.SearchV2Response
	if err := proto.Unmarshal(b, &r); err != nil {
		return nil, vf29Event{}, err
	}
	return &r, vf29Event{What: "SearchV2Response", Code: r.GetMetaHeader().GetStatus().GetCode(), Header: len(r.GetBody().GetResult()) > 0}, nil
}

type vf29GetStream struct{ vf29Stream }

func (s *vf29GetStream) Send(r *protoobject.GetResponse) error { return s.SendMsg(r) }

type vf29RangeStream struct{ vf29Stream }

func (s *vf29RangeStream) Send(r *protoobject.GetRangeResponse) error { return s.SendMsg(r) }

type vf29PutStream struct {
	vf29Stream
	reqs []*protoobject.PutRequest
	next int
	// index of the message that carries the defect (-1: none) and the log length when it was
	// handed to the server
	badAt       int
	logLenAtBad int
}

func (s *vf29PutStream) Recv() (*protoobject.PutRequest, error) {
	if s.next >= len(s.reqs) {
		return nil, io.EOF
	}
	if s.next == s.badAt {
		s.logLenAtBad = s.log.len()
	}
	s.next++
	return s.reqs[s.next-1], nil
}
func (s *vf29PutStream) SendAndClose(r *protoobject.PutResponse) error { return s.SendMsg(r) }

// unary responses are pushed through the same decoder/log
func vf29LogUnary(l *vf29Log, resp any, decode func([]byte) (proto.Message, vf29Event, error)) {
	var b []byte
	var err error
	switch m := resp.(type) {
	case nil:
		l.add(vf29Event{Kind: "send", What: "nil response"})
		return
	case proto.Message:
		b, err = proto.Marshal(m)
	default:
		var data interface {
			Materialize() []byte
			Free()
		}
		bs, merr := iprotobuf.BufferedCodec{}.Marshal(resp)
		err = merr
		if merr == nil {
			data = bs
			b = data.Materialize()
			data.Free()
		}
	}
	if err != nil {
		l.add(vf29Event{Kind: "send", What: "undecodable: " + err.Error()})
		return
	}
	_, ev, derr := decode(b)
	if derr != nil {
		ev = vf29Event{What: "undecodable: " + derr.Error()}
	}
	ev.Kind = "send"
	l.add(ev)
}

var _ = common.RequestTokens{}
