//go:build verif

package object

// C29, part 2 – "no payload byte is sent before the extended ACL has been evaluated against
// the object's header" (and an object the eACL denies is never delivered).
//
// The real object Server runs over the REAL get service (getsvc.Service), a REAL storage
// engine with one shard (recording metrics), the REAL ACL stack and scripted remote storage
// nodes behind real gRPC connections (bufconn).  The container's eACL denies the operation
// to role OTHERS for objects whose header matches a filter (user attribute / object id /
// payload length / owner).  The requested object either matches (forbidden twin) or not
// (allowed twin) and lives locally, on a remote container node (REP), or is erasure-coded
// with the parts stored locally / remotely.
//
// Oracles (independent of the code, written from the statement):
//   D  forbidden twin: no payload byte (HEAD: no header) reaches the client, the answer is an
//      error status;
//   O  whenever payload bytes (HEAD: the header) reach the client, an eACL evaluation that
//      had the object's header at hand precedes the first of them in the event log
//      (request-stage evaluation with a final verdict – the checker had what it needed – or
//      an evaluation whose message carries the header of the requested object).
// The allowed twin is the positive control: it must be delivered completely, otherwise the
// case is not judged.

import (
	"bytes"
	"context"
	"errors"
	"fmt"
	"io"
	"net"
	"os"
	"path/filepath"
	"strconv"
	"strings"
	"testing"

	iec "github.com/nspcc-dev/neofs-node/internal/ec"
	"github.com/nspcc-dev/neofs-node/internal/verifkit"
	clientcore "github.com/nspcc-dev/neofs-node/pkg/core/client"
	"github.com/nspcc-dev/neofs-node/pkg/local_object_storage/blobstor/fstree"
	"github.com/nspcc-dev/neofs-node/pkg/local_object_storage/engine"
	meta "github.com/nspcc-dev/neofs-node/pkg/local_object_storage/metabase"
	"github.com/nspcc-dev/neofs-node/pkg/local_object_storage/shard"
	deletesvc "github.com/nspcc-dev/neofs-node/pkg/services/object/delete"
	getsvc "github.com/nspcc-dev/neofs-node/pkg/services/object/get"
	putsvc "github.com/nspcc-dev/neofs-node/pkg/services/object/put"
	objutil "github.com/nspcc-dev/neofs-node/pkg/services/object/util"
	"github.com/nspcc-dev/neofs-sdk-go/client"
	"github.com/nspcc-dev/neofs-sdk-go/container/acl"
	"github.com/nspcc-dev/neofs-sdk-go/eacl"
	"github.com/nspcc-dev/neofs-sdk-go/netmap"
	"github.com/nspcc-dev/neofs-sdk-go/object"
	oid "github.com/nspcc-dev/neofs-sdk-go/object/id"
	"github.com/nspcc-dev/neofs-sdk-go/object/slicer"
	protonetmap "github.com/nspcc-dev/neofs-sdk-go/proto/netmap"
	protoobject "github.com/nspcc-dev/neofs-sdk-go/proto/object"
	iprotobuf "github.com/nspcc-dev/neofs-sdk-go/proto/protobuf"
	"github.com/nspcc-dev/neofs-sdk-go/proto/refs"
	"github.com/nspcc-dev/neofs-sdk-go/user"
	protosession "github.com/nspcc-dev/neofs-sdk-go/proto/session"
	protostatus "github.com/nspcc-dev/neofs-sdk-go/proto/status"
	"github.com/nspcc-dev/neofs-sdk-go/version"
	"go.uber.org/zap"
	"google.golang.org/grpc"
	"google.golang.org/grpc/credentials/insecure"
	"google.golang.org/grpc/test/bufconn"
)

// ---------------------------------------------------------------------------------------
// scripted remote storage node (trusts its container peers, as real nodes do)

type vf29Remote struct {
	idx   int
	log   *vf29Log
	objs  map[oid.ID]*object.Object    // whole objects by id
	parts map[string]*object.Object    // EC parts by "parent/rule/part"
	srv   *grpc.Server
	conn  *grpc.ClientConn
	sdk   *client.Client
	pub   []byte
}

func vf29PartKey(parent oid.ID, rule, part string) string { return parent.String() + "/" + rule + "/" + part }

func (n *vf29Remote) lookup(m *refs.Address, xs []*protosession.XHeader) (*object.Object, bool) {
	var id oid.ID
	if m == nil || m.ObjectId == nil || id.FromProtoMessage(m.ObjectId) != nil {
		return nil, false
	}
	var rule, part string
	for _, x := range xs {
		switch x.GetKey() {
		case iec.AttributeRuleIdx:
			rule = x.GetValue()
		case iec.AttributePartIdx:
			part = x.GetValue()
		}
	}
	if rule != "" {
		o, ok := n.parts[vf29PartKey(id, rule, part)]
		return o, ok
	}
	o, ok := n.objs[id]
	return o, ok
}

// parentHeader: a node that stores an EC part answers HEAD of the parent with the parent's
// header (the engine resolves it from the part, as the local engine of this harness does).
func (n *vf29Remote) parentHeader(m *refs.Address) (*object.Object, bool) {
	var id oid.ID
	if m == nil || m.ObjectId == nil || id.FromProtoMessage(m.ObjectId) != nil {
		return nil, false
	}
	for k, p := range n.parts {
		if strings.HasPrefix(k, id.String()+"/") {
			if par := p.Parent(); par != nil {
				return par, true
			}
		}
	}
	return nil, false
}

func vf29NotFound() *protosession.ResponseMetaHeader {
	return &protosession.ResponseMetaHeader{Status: &protostatus.Status{Code: 2049, Message: "object not found"}}
}

func (n *vf29Remote) get(_ any, stream grpc.ServerStream) error {
	var req protoobject.GetRequest
	if err := stream.RecvMsg(&req); err != nil {
		return err
	}
	n.log.effect(fmt.Sprintf("remote%d.Get", n.idx))
	o, ok := n.lookup(req.GetBody().GetAddress(), req.GetMetaHeader().GetXHeaders())
	if !ok {
		return stream.SendMsg(&protoobject.GetResponse{MetaHeader: vf29NotFound()})
	}
	mo := o.ProtoMessage()
	pld := o.Payload()
	if r := req.GetBody().GetRange(); r != nil && (r.Offset != 0 || r.Length != 0) {
		if r.Offset+r.Length > uint64(len(pld)) {
			return stream.SendMsg(&protoobject.GetResponse{MetaHeader: &protosession.ResponseMetaHeader{Status: &protostatus.Status{Code: 2053, Message: "out of range"}}})
		}
		if r.Length == 0 {
			pld = pld[r.Offset:]
		} else {
			pld = pld[r.Offset : r.Offset+r.Length]
		}
	}
	if x := req.GetBody().GetExtendedRange(); x != nil {
		first, last := uint64(0), uint64(len(pld))
		switch {
		case x.FirstPos != nil && x.LastPos != nil:
			first, last = *x.FirstPos, min(*x.LastPos+1, uint64(len(pld)))
		case x.FirstPos != nil:
			first = *x.FirstPos
		case x.LastPos != nil:
			first = uint64(len(pld)) - min(*x.LastPos, uint64(len(pld)))
		}
		if first > last {
			first = last
		}
		pld = pld[first:last]
	}
	if !req.GetBody().GetPayloadOnly() {
		if err := stream.SendMsg(&protoobject.GetResponse{Body: &protoobject.GetResponse_Body{ObjectPart: &protoobject.GetResponse_Body_Init_{
			Init: &protoobject.GetResponse_Body_Init{ObjectId: mo.ObjectId, Signature: mo.Signature, Header: mo.Header}}}}); err != nil {
			return err
		}
	}
	for off := 0; off < len(pld); off += 1000 {
		if err := stream.SendMsg(&protoobject.GetResponse{Body: &protoobject.GetResponse_Body{ObjectPart: &protoobject.GetResponse_Body_Chunk{Chunk: pld[off:min(off+1000, len(pld))]}}}); err != nil {
			return err
		}
	}
	return nil
}

func (n *vf29Remote) rng(_ any, stream grpc.ServerStream) error {
	var req protoobject.GetRangeRequest
	if err := stream.RecvMsg(&req); err != nil {
		return err
	}
	n.log.effect(fmt.Sprintf("remote%d.GetRange", n.idx))
	o, ok := n.lookup(req.GetBody().GetAddress(), req.GetMetaHeader().GetXHeaders())
	if !ok {
		return stream.SendMsg(&protoobject.GetRangeResponse{MetaHeader: vf29NotFound()})
	}
	pld := o.Payload()
	r := req.GetBody().GetRange()
	if r.GetOffset()+r.GetLength() > uint64(len(pld)) {
		return stream.SendMsg(&protoobject.GetRangeResponse{MetaHeader: &protosession.ResponseMetaHeader{Status: &protostatus.Status{Code: 2053, Message: "out of range"}}})
	}
	if r.GetLength() == 0 {
		pld = pld[r.GetOffset():]
	} else {
		pld = pld[r.GetOffset() : r.GetOffset()+r.GetLength()]
	}
	if len(pld) == 0 {
		return stream.SendMsg(&protoobject.GetRangeResponse{Body: &protoobject.GetRangeResponse_Body{RangePart: &protoobject.GetRangeResponse_Body_Chunk{}}})
	}
	for off := 0; off < len(pld); off += 1000 {
		if err := stream.SendMsg(&protoobject.GetRangeResponse{Body: &protoobject.GetRangeResponse_Body{RangePart: &protoobject.GetRangeResponse_Body_Chunk{Chunk: pld[off:min(off+1000, len(pld))]}}}); err != nil {
			return err
		}
	}
	return nil
}

func (n *vf29Remote) head(_ any, _ context.Context, dec func(any) error, _ grpc.UnaryServerInterceptor) (any, error) {
	var req protoobject.HeadRequest
	if err := dec(&req); err != nil {
		return nil, err
	}
	n.log.effect(fmt.Sprintf("remote%d.Head", n.idx))
	o, ok := n.lookup(req.GetBody().GetAddress(), req.GetMetaHeader().GetXHeaders())
	if !ok && !req.GetBody().GetRaw() {
		o, ok = n.parentHeader(req.GetBody().GetAddress())
	}
	if !ok {
		return &protoobject.HeadResponse{MetaHeader: vf29NotFound()}, nil
	}
	mo := o.ProtoMessage()
	return &protoobject.HeadResponse{Body: &protoobject.HeadResponse_Body{Head: &protoobject.HeadResponse_Body_Header{
		Header: &protoobject.HeaderWithSignature{Header: mo.Header, Signature: mo.Signature}}}}, nil
}

func (n *vf29Remote) nodeInfo(_ any, _ context.Context, dec func(any) error, _ grpc.UnaryServerInterceptor) (any, error) {
	var req protonetmap.LocalNodeInfoRequest
	if err := dec(&req); err != nil {
		return nil, err
	}
	return &protonetmap.LocalNodeInfoResponse{Body: &protonetmap.LocalNodeInfoResponse_Body{
		Version:  version.Current().ProtoMessage(),
		NodeInfo: &protonetmap.NodeInfo{PublicKey: n.pub, Addresses: []string{"/ip4/127.0.0.1/tcp/1"}, State: protonetmap.NodeInfo_ONLINE},
	}}, nil
}

func vf29StartRemote(idx int, log *vf29Log, pub []byte) (*vf29Remote, error) {
	n := &vf29Remote{idx: idx, log: log, pub: pub, objs: map[oid.ID]*object.Object{}, parts: map[string]*object.Object{}}
	lis := bufconn.Listen(256 << 10)
	n.srv = grpc.NewServer(grpc.ForceServerCodecV2(iprotobuf.BufferedCodec{}))
	n.srv.RegisterService(&grpc.ServiceDesc{
		ServiceName: protoobject.ObjectService_ServiceDesc.ServiceName,
		HandlerType: (*any)(nil),
		Methods:     []grpc.MethodDesc{{MethodName: "Head", Handler: n.head}},
		Streams: []grpc.StreamDesc{
			{StreamName: "Get", Handler: n.get, ServerStreams: true},
			{StreamName: "GetRange", Handler: n.rng, ServerStreams: true},
		},
	}, nil)
	n.srv.RegisterService(&grpc.ServiceDesc{
		ServiceName: "neo.fs.v2.netmap.NetmapService",
		HandlerType: (*any)(nil),
		Methods:     []grpc.MethodDesc{{MethodName: "LocalNodeInfo", Handler: n.nodeInfo}},
	}, nil)
	go func() { _ = n.srv.Serve(lis) }()
	c, err := grpc.NewClient("passthrough:///vf29-remote",
		grpc.WithContextDialer(func(ctx context.Context, _ string) (net.Conn, error) { return lis.DialContext(ctx) }),
		grpc.WithTransportCredentials(insecure.NewCredentials()))
	if err != nil {
		n.srv.Stop()
		return nil, err
	}
	n.conn = c
	return n, nil
}

func (n *vf29Remote) stop() {
	_ = n.conn.Close()
	n.srv.Stop()
}

// client handed to the get service / the server: a real SDK client over the bufconn
// connection plus the raw-gRPC entry points of the node's multi-address client
type vf29Conn struct {
	*client.Client
	n *vf29Remote
}

func (c vf29Conn) ForAnyGRPCConn(ctx context.Context, f func(context.Context, *grpc.ClientConn) error) error {
	return f(ctx, c.n.conn)
}
func (c vf29Conn) APIVersion() *refs.Version { return version.Current().ProtoMessage() }

type vf29Conns struct {
	w       *vf29World
	remotes map[string]*vf29Remote
}

func (c vf29Conns) Get(_ context.Context, ni netmap.NodeInfo) (clientcore.MultiAddressClient, error) {
	n, ok := c.remotes[string(ni.PublicKey())]
	if !ok {
		return nil, errors.New("vf29: no such node")
	}
	c.w.log.read(fmt.Sprintf("clients.Get(remote%d)", n.idx))
	if n.sdk == nil {
		sc, err := client.NewGRPC(context.Background(), n.conn, nil, 0)
		if err != nil {
			return nil, fmt.Errorf("vf29: SDK client: %w", err)
		}
		n.sdk = sc
	}
	return vf29Conn{Client: n.sdk, n: n}, nil
}

// handlers: real get service, recording the rest
type vf29RealHandlers struct {
	w   *vf29World
	get *getsvc.Service
	// entry hook: lets the harness play "the object was replicated to this node after the
	// request-stage access check and before the get service looked for it"
	before *func()
}

func (h vf29RealHandlers) hook() {
	if h.before != nil && *h.before != nil {
		f := *h.before
		*h.before = nil
		f()
	}
}
func (h vf29RealHandlers) Get(ctx context.Context, p getsvc.Prm) error {
	h.w.log.read("handlers.Get")
	h.hook()
	return h.get.Get(ctx, p)
}
func (h vf29RealHandlers) Head(ctx context.Context, p getsvc.HeadPrm) error {
	h.w.log.read("handlers.Head")
	h.hook()
	return h.get.Head(ctx, p)
}
func (h vf29RealHandlers) GetRange(ctx context.Context, p getsvc.RangePrm) error {
	h.w.log.read("handlers.GetRange")
	h.hook()
	return h.get.GetRange(ctx, p)
}
func (h vf29RealHandlers) Delete(context.Context, deletesvc.Prm) error {
	h.w.log.effect("handlers.Delete")
	return nil
}
func (h vf29RealHandlers) Put(ctx context.Context) (*putsvc.Streamer, error) {
	return h.w.putSvc.Put(ctx)
}

// collects the objects produced by the SDK slicer
type vf29SplitCollector struct{ objs []*object.Object }

type vf29SplitWriter struct {
	c   *vf29SplitCollector
	hdr object.Object
	buf bytes.Buffer
}

func (c *vf29SplitCollector) ObjectPutInit(_ context.Context, hdr object.Object, _ user.Signer, _ client.PrmObjectPutInit) (client.ObjectWriter, error) {
	return &vf29SplitWriter{c: c, hdr: hdr}, nil
}
func (w *vf29SplitWriter) Write(p []byte) (int, error)            { return w.buf.Write(p) }
func (w *vf29SplitWriter) ReadFrom(r io.Reader) (int64, error)    { return w.buf.ReadFrom(r) }
func (w *vf29SplitWriter) GetResult() client.ResObjectPut         { return client.ResObjectPut{} }
func (w *vf29SplitWriter) Close() error {
	o := w.hdr
	o.SetPayload(append([]byte(nil), w.buf.Bytes()...))
	w.c.objs = append(w.c.objs, &o)
	return nil
}

// ---------------------------------------------------------------------------------------
// shared real engine (one shard on disk), metrics go to the log of the current case

type vf29Store struct {
	eng  *engine.StorageEngine
	sink *vf29SharedLog
}

func vf29OpenStore(t *testing.T) *vf29Store {
	dir := os.Getenv("VERIF_SCRATCH")
	if dir == "" {
		dir = t.TempDir()
	}
	dir, err := os.MkdirTemp(dir, "c29-engine-")
	if err != nil {
		t.Fatal(err)
	}
	st := &vf29Store{sink: &vf29SharedLog{}}
	st.eng = engine.New(engine.WithMetrics(vf29EngineMetrics{st.sink}), engine.WithLogger(zap.NewNop()))
	_, err = st.eng.AddShard(
		shard.WithLogger(zap.NewNop()),
		shard.WithBlobstor(fstree.New(fstree.WithPath(filepath.Join(dir, "fstree")))),
		shard.WithMetaBaseOptions(meta.WithPath(filepath.Join(dir, "metabase")), meta.WithEpochState(vf29Epoch{}), meta.WithLogger(zap.NewNop())),
	)
	if err != nil {
		t.Fatal(err)
	}
	if err := st.eng.Init(); err != nil {
		t.Fatal(err)
	}
	t.Cleanup(func() { _ = st.eng.Close(); _ = os.RemoveAll(dir) })
	return st
}

type vf29Epoch struct{}

func (vf29Epoch) CurrentEpoch() uint64 { return 10 }

// ---------------------------------------------------------------------------------------
// case

type vf29PCase struct {
	Idx      int    `json:"idx"`
	RPC      string `json:"rpc"`     // Get | Head | GetRange
	Variant  string `json:"variant"` // plain | raw | range | xrange | payloadOnly | payloadOnly+range
	Location string `json:"location"`
	Filter   string `json:"eacl_filter"`
	Sender   string `json:"sender"` // stranger (role OTHERS, target of the rule)
	TTL      uint32 `json:"ttl"`
	Version  string `json:"version"`
	Payload  int    `json:"payload_len"`
}

func (c vf29PCase) sig() string {
	return fmt.Sprintf("%s|%s|%s|%s|ttl%d|%s|%d", c.RPC, c.Variant, c.Location, c.Filter, c.TTL, c.Version, min(c.Payload, 1)*(1+c.Payload/3000))
}

type vf29POutcome struct {
	Codes      []uint32    `json:"codes"`
	GRPCErr    string      `json:"grpc_err,omitempty"`
	Panic      string      `json:"panic,omitempty"`
	Payload    int         `json:"payload_bytes_sent"`
	HeaderSent bool        `json:"header_sent"`
	FirstData  int         `json:"seq_of_first_data"`    // -1: none
	FirstEval  int         `json:"seq_of_first_header_informed_eacl"` // -1: none
	Denied     bool        `json:"eacl_denied_somewhere"`
	Path       string      `json:"path"` // which storage/network dependencies served it
	Events     []vf29Event `json:"events,omitempty"`
}

// Locations.  The "+" locations hold the object at SEVERAL places of the container (the normal
// state of a REP 2 container): a refusal pronounced at one source – request stage, local
// header, first remote answer – must still hold when the get service falls over to the next
// source.
//
//	local+remote       replica in the local engine and on the remote container node
//	local-late+remote  replica on the remote node; the local copy arrives (replication) after
//	                   the request-stage check, i.e. the local header check is the first
//	                   header-informed one and the remote replica is still reachable afterwards
//	remote+remote      the local node (container member) has no copy, both remote nodes do
var vf29PLocations = []string{"local", "remote", "ec-local", "ec-remote", "split-local", "local-late",
	"local+remote", "local-late+remote", "remote+remote"}
var vf29PFilters = []string{"attribute", "objectID", "payloadLength", "ownerID"}

// vf29PFire executes case c with the forbidden or the allowed twin of the object.
func vf29PFire(r *verifkit.Run, st *vf29Store, c *vf29PCase, forbidden bool, keep bool) (o vf29POutcome) {
	rng := r.Rand("pbuild", c.Idx)
	vr := r.Rand("pvariant", c.Idx)
	nRemotes := 1
	if strings.HasPrefix(c.Location, "ec-") {
		nRemotes = 3
	}
	if c.Location == "remote+remote" {
		nRemotes = 2
	}
	w := vf29NewWorld(rng, nRemotes)
	st.sink.cur.Store(w.log)
	defer st.sink.cur.Store(nil)
	owner := vf29NewIdent(rng)
	stranger := vf29NewIdent(rng)
	otherOwner := vf29NewIdent(rng)

	var rule iec.Rule
	if strings.HasPrefix(c.Location, "ec-") {
		rule = iec.Rule{DataPartNum: 2, ParityPartNum: 1}
		w.ecRules, w.repRules = []iec.Rule{rule}, nil
		w.localLast = c.Location == "ec-remote"
	}
	w.cnrID, w.cnr = vf29NewContainer(owner.usr, acl.PublicRWExtended, w.ecRules)

	// the two twins differ in exactly the header field the eACL rule looks at
	objOwner := owner
	payloadLen := c.Payload
	obj := object.New(w.cnrID, objOwner.usr)
	secret := "no"
	switch c.Filter {
	case "attribute":
		if forbidden {
			secret = "yes"
		}
	case "ownerID":
		if forbidden {
			objOwner = otherOwner
			obj = object.New(w.cnrID, objOwner.usr)
		}
	case "payloadLength":
		if forbidden {
			payloadLen = c.Payload + 7 // the rule denies exactly this length
		}
	}
	obj.SetAttributes(object.NewAttribute("vf29-secret", secret), object.NewAttribute("FileName", "f"+strconv.Itoa(c.Idx)))
	payload := verifkit.RandBytes(rng, payloadLen)
	obj.SetPayload(payload)
	obj.SetPayloadSize(uint64(len(payload)))
	obj.SetCreationEpoch(w.epoch)
	if err := obj.SetVerificationFields(objOwner.userSigner()); err != nil {
		panic(err)
	}
	objID := obj.GetID()

	op := map[string]eacl.Operation{"Get": eacl.OperationGet, "Head": eacl.OperationHead, "GetRange": eacl.OperationRange}[c.RPC]
	var f eacl.Filter
	switch c.Filter {
	case "attribute":
		f = eacl.NewObjectPropertyFilter("vf29-secret", eacl.MatchStringEqual, "yes")
	case "ownerID":
		f = eacl.NewFilterObjectOwnerEquals(otherOwner.usr)
	case "payloadLength":
		f = eacl.NewFilterObjectPayloadSizeIs(eacl.MatchNumGT, uint64(c.Payload))
	case "objectID":
		// deny exactly the forbidden twin's id; the allowed twin asks for its own (other) id
		if forbidden {
			f = eacl.NewFilterObjectWithID(objID)
		} else {
			f = eacl.NewFilterObjectWithID(verifkit.RandOID(r.Rand("pother", c.Idx)))
		}
	}
	tb := eacl.NewTableForContainer(w.cnrID, []eacl.Record{eacl.ConstructRecord(eacl.ActionDeny, op, []eacl.Target{eacl.NewTargetByRole(eacl.RoleOthers)}, f)})
	w.eacl = &tb

	// remote nodes
	conns := vf29Conns{w: w, remotes: map[string]*vf29Remote{}}
	var remotes []*vf29Remote
	for i, id := range w.remotes {
		n, err := vf29StartRemote(i, w.log, vf29Pub(id.key))
		if err != nil {
			o.Panic = "harness: " + err.Error()
			return o
		}
		defer n.stop()
		remotes = append(remotes, n)
		conns.remotes[string(vf29Pub(id.key))] = n
	}
	pn := vf29PutNet{w}
	gs := getsvc.New(vf29Chain{w},
		getsvc.WithLogger(zap.NewNop()),
		getsvc.WithLocalStorageEngine(st.eng),
		getsvc.WithClientConstructor(conns),
		getsvc.WithKeyStorage(objutil.NewKeyStorage(w.node.key, pn, pn)),
	)
	var before func()
	w.finish(st.eng, vf29RealHandlers{w: w, get: gs, before: &before}, conns)

	// place the object
	switch c.Location {
	case "split-local":
		// the same header/payload as a V2 split chain (children + link) in the local engine;
		// the requested (parent) object is virtual
		col := &vf29SplitCollector{}
		var opts slicer.Options
		opts.SetObjectPayloadLimit(1000)
		opts.SetCurrentNeoFSEpoch(w.epoch)
		hdr := *object.New(w.cnrID, objOwner.usr)
		hdr.SetAttributes(obj.Attributes()...)
		id, err := slicer.Put(context.Background(), col, hdr, objOwner.userSigner(), bytes.NewReader(payload), opts)
		if err != nil {
			o.Panic = "harness: slicer: " + err.Error()
			return o
		}
		for _, ch := range col.objs {
			if err := st.eng.Put(context.Background(), ch, nil); err != nil {
				o.Panic = "harness: engine put child: " + err.Error()
				return o
			}
		}
		objID = id
		if c.Filter == "objectID" && forbidden {
			tb := eacl.NewTableForContainer(w.cnrID, []eacl.Record{eacl.ConstructRecord(eacl.ActionDeny, op, []eacl.Target{eacl.NewTargetByRole(eacl.RoleOthers)}, eacl.NewFilterObjectWithID(objID))})
			w.eacl = &tb
		}
	case "local-late", "local-late+remote":
		if c.Location == "local-late+remote" {
			remotes[0].objs[objID] = obj
		}
		before = func() {
			st.sink.cur.Store(nil) // the replication itself is not part of the request
			err := st.eng.Put(context.Background(), obj, nil)
			st.sink.cur.Store(w.log)
			if err != nil {
				panic("vf29 harness: late put: " + err.Error())
			}
			w.log.read("object replicated to the local engine (after the request-stage check)")
		}
	case "local", "local+remote":
		if err := st.eng.Put(context.Background(), obj, nil); err != nil {
			o.Panic = "harness: engine put: " + err.Error()
			return o
		}
		if c.Location == "local+remote" {
			remotes[0].objs[objID] = obj
		}
	case "remote":
		remotes[0].objs[objID] = obj
	case "remote+remote":
		remotes[0].objs[objID] = obj
		remotes[1].objs[objID] = obj
	case "ec-local", "ec-remote":
		parts, _, err := iec.Encode(rule, payload)
		if err != nil {
			o.Panic = "harness: ec encode: " + err.Error()
			return o
		}
		hdr := *obj.CutPayload()
		for i := range parts {
			po, err := iec.FormObjectForECPart(objOwner.userSigner(), hdr, parts[i], iec.PartInfo{RuleIndex: 0, Index: i})
			if err != nil {
				o.Panic = "harness: ec part: " + err.Error()
				return o
			}
			if c.Location == "ec-local" && i == 0 {
				if err := st.eng.Put(context.Background(), &po, nil); err != nil {
					o.Panic = "harness: engine put part: " + err.Error()
					return o
				}
				continue
			}
			// ec-local: nodes [local r0 r1 r2] – part i lives on node i; ec-remote: [r0 r1 r2 local]
			ri := i
			if c.Location == "ec-local" {
				ri = i - 1
			}
			p := po
			remotes[ri].parts[vf29PartKey(objID, "0", strconv.Itoa(i))] = &p
		}
	}
	if strings.HasPrefix(c.Location, "local-late") {
		// precondition of the "-late" locations: no local copy at request time (the twins of an
		// objectID-rule case are the same object and share the engine)
		a := oid.NewAddress(w.cnrID, objID)
		st.sink.cur.Store(nil)
		if _, err := st.eng.Head(context.Background(), a, false); err == nil {
			r.Count("late_precondition_restored", 1)
			if err := st.eng.Drop(context.Background(), a); err != nil {
				o.Panic = "harness: drop of the earlier twin's copy: " + err.Error()
				return o
			}
		}
		st.sink.cur.Store(w.log)
	}
	// storing must not count as part of the request
	w.log.mu.Lock()
	w.log.ev = nil
	w.log.mu.Unlock()

	sender := stranger
	_ = c.Sender
	meta := &protosession.RequestMetaHeader{Version: vf29VersionMsg(c.Version), Ttl: c.TTL, Epoch: w.epoch}
	addr := oid.NewAddress(w.cnrID, objID).ProtoMessage()
	ctx := context.Background()
	guard := func(f func()) {
		defer func() {
			if p := recover(); p != nil {
				o.Panic = fmt.Sprint(p)
				for _, e := range w.log.events() { // SDK-level client call = harness stub
					_ = e
				}
				if strings.Contains(o.Panic, "nil pointer") {
					o.Panic = "harness: unimplemented client call: " + o.Panic
				}
			}
		}()
		f()
	}
	setErr := func(err error) {
		if err != nil {
			o.GRPCErr = err.Error()
		}
	}
	switch c.RPC {
	case "Get":
		body := &protoobject.GetRequest_Body{Address: addr}
		switch c.Variant {
		case "raw":
			body.Raw = true
		case "range":
			body.Range = &protoobject.Range{Offset: uint64(vr.IntN(1 + c.Payload/2)), Length: uint64(1 + vr.IntN(1+c.Payload/2))}
		case "xrange":
			fp, lp := uint64(vr.IntN(1+c.Payload/2)), uint64(c.Payload/2+vr.IntN(1+c.Payload/2))
			body.ExtendedRange = &protoobject.ExtendedRange{FirstPos: &fp, LastPos: &lp}
		case "payloadOnly":
			body.PayloadOnly = true
		case "payloadOnly+range":
			body.PayloadOnly = true
			body.Range = &protoobject.Range{Offset: 0, Length: uint64(1 + vr.IntN(1+c.Payload/2))}
		}
		req := &protoobject.GetRequest{Body: body, MetaHeader: meta}
		vh, err := vf29WrapGet(req).sign(sender.signer("sha512"))
		if err != nil {
			panic(err)
		}
		req.VerifyHeader = vh
		s := &vf29GetStream{vf29Stream{ctx: ctx, log: w.log, decode: vf29DecodeGet}}
		guard(func() { setErr(w.srv.Get(req, s)) })
	case "GetRange":
		body := &protoobject.GetRangeRequest_Body{Address: addr, Range: &protoobject.Range{Offset: uint64(vr.IntN(1 + c.Payload/2)), Length: uint64(1 + vr.IntN(1+c.Payload/2))}}
		if c.Variant == "raw" {
			body.Raw = true
		}
		req := &protoobject.GetRangeRequest{Body: body, MetaHeader: meta}
		vh, err := vf29WrapRange(req).sign(sender.signer("sha512"))
		if err != nil {
			panic(err)
		}
		req.VerifyHeader = vh
		s := &vf29RangeStream{vf29Stream{ctx: ctx, log: w.log, decode: vf29DecodeRange}}
		guard(func() { setErr(w.srv.GetRange(req, s)) })
	case "Head":
		body := &protoobject.HeadRequest_Body{Address: addr}
		if c.Variant == "raw" {
			body.Raw = true
		}
		req := &protoobject.HeadRequest{Body: body, MetaHeader: meta}
		vh, err := vf29WrapHead(req).sign(sender.signer("sha512"))
		if err != nil {
			panic(err)
		}
		req.VerifyHeader = vh
		guard(func() { vf29LogUnary(w.log, w.srv.HeadBuffered(ctx, req), vf29DecodeHead) })
	}

	ev := w.log.events()
	o.FirstData, o.FirstEval = -1, -1
	want := objID.String()
	paths := map[string]bool{}
	for _, e := range ev {
		switch e.Kind {
		case "send":
			o.Codes = append(o.Codes, e.Code)
			o.Payload += e.Payload
			if e.Header {
				o.HeaderSent = true
			}
			data := e.Payload > 0 || (c.RPC == "Head" && e.Header)
			if data && o.FirstData < 0 {
				o.FirstData = e.Seq
			}
			if strings.HasPrefix(e.What, "undecodable") {
				o.Panic = "harness: " + e.What
			}
		case "eacl":
			if e.Result == "deny" {
				o.Denied = true
			}
			informed := (e.Stage == "request" && (e.Result == "allow" || e.Result == "deny")) ||
				(e.Stage != "request" && e.HdrOID == want)
			if informed && o.FirstEval < 0 {
				o.FirstEval = e.Seq
			}
		case "effect":
			if e.What != "engine.Head" {
				paths[e.What] = true
			}
		}
	}
	var ps []string
	for p := range paths {
		ps = append(ps, p)
	}
	sortStrings(ps)
	o.Path = strings.Join(ps, "+")
	if keep {
		o.Events = ev
	}
	return o
}

func sortStrings(s []string) {
	for i := 1; i < len(s); i++ {
		for j := i; j > 0 && s[j] < s[j-1]; j-- {
			s[j], s[j-1] = s[j-1], s[j]
		}
	}
}

func (o vf29POutcome) errorStatus() bool {
	if o.GRPCErr != "" {
		return true
	}
	for _, c := range o.Codes {
		if c >= 1024 {
			return true
		}
	}
	return false
}

func vf29PGen(r *verifkit.Run, idx int) *vf29PCase {
	pick := r.Rand("pcase", idx)
	c := &vf29PCase{Idx: idx, Sender: "stranger"}
	c.RPC = []string{"Get", "Get", "Head", "GetRange"}[idx%4]
	c.Location = vf29PLocations[(idx/4)%len(vf29PLocations)]
	c.Filter = vf29PFilters[(idx/(4*len(vf29PLocations)))%len(vf29PFilters)]
	c.TTL = []uint32{2, 2, 1, 5}[pick.IntN(4)]
	c.Version = []string{"2.17", "current", "current"}[pick.IntN(3)]
	c.Payload = []int{0, 1, 300, 2500, 9000}[pick.IntN(5)]
	switch c.RPC {
	case "Get":
		c.Variant = []string{"plain", "plain", "raw", "range", "xrange", "payloadOnly", "payloadOnly+range"}[pick.IntN(7)]
	case "Head":
		c.Variant = []string{"plain", "plain", "raw"}[pick.IntN(3)]
	case "GetRange":
		c.Variant = []string{"range", "range", "raw"}[pick.IntN(3)]
	}
	if c.RPC != "Head" && c.Payload == 0 {
		c.Payload = 1 // a payload is needed to see payload bytes
	}
	if c.Location != "local" && c.TTL == 1 && !strings.HasPrefix(c.Location, "ec-") {
		c.TTL = 2 // TTL=1 never leaves the node
	}
	if c.Location == "split-local" {
		if c.Payload < 2500 {
			c.Payload = 2500 // several children
		}
		if c.Variant == "raw" {
			c.Variant = "plain" // raw on a virtual object answers with split info only
			if c.RPC == "GetRange" {
				c.Variant = "range"
			}
		}
	}
	if strings.HasPrefix(c.Location, "ec-") {
		if c.Variant == "raw" {
			c.Variant = "plain" // raw addresses physically stored objects; an EC parent is not one
			if c.RPC == "GetRange" {
				c.Variant = "range"
			}
		}
		if c.Payload < 300 {
			c.Payload = 300 // at least one byte per data part
		}
	}
	return c
}

func TestVerif_C29_Payload(t *testing.T) {
	r := verifkit.Start(t, "C29", "exploration")
	defer r.Finish()
	r.SetRule("per case one GET / HEAD / RANGE of an object whose header is (forbidden twin) or is not (allowed twin) matched by a DENY rule of the container eACL for the sender's role; RPC x body variant x object location (local / remote REP node / EC part local / EC parts remote / split chain / local copy arriving after the request-stage check / replicas at several places: local+remote, late local+remote, two remotes) x filter kind (user attribute, object id, payload length, owner) x TTL x version x payload size; distinct = that tuple; non-trivial = the allowed twin was delivered completely through the same path")
	r.Assume("real object server + real getsvc.Service + real single-shard engine + real ACL stack; remote storage nodes are scripted gRPC servers that trust container peers")
	st := vf29OpenStore(t)
	n := r.Pick(288, 3600) // whole cycles of RPC(4) x location(9) x filter(4) = 144
	judged := map[string]int{}
	for idx := 0; idx < n; idx++ {
		c := vf29PGen(r, idx)
		r.Eval(1)
		// events are kept from the one and only execution: the engine is shared, so a second
		// run of a "-late" case would find the object already stored
		ctl := vf29PFire(r, st, c, false, true)
		if strings.HasPrefix(ctl.Panic, "harness:") {
			r.Count("harness_stub_hits", 1)
			r.Seen("harness_stub_cases", c.RPC+"|"+c.Variant+"|"+c.Location)
			if testing.Verbose() {
				t.Logf("harness stub: %s: %s", c.sig(), ctl.Panic)
			}
			continue
		}
		if ctl.Panic != "" {
			r.Violation("panic|"+c.RPC+"|"+c.Location+"|allowed", "handler panicked on a permitted request: "+ctl.Panic, c)
			continue
		}
		delivered := ctl.FirstData >= 0 && !ctl.errorStatus()
		if !delivered {
			r.Count("control_not_delivered_"+c.RPC+"_"+c.Location, 1)
			r.Seen("control_failures", fmt.Sprintf("%s|%s|%s codes=%v %s", c.RPC, c.Variant, c.Location, ctl.Codes, ctl.GRPCErr))
			if testing.Verbose() && r.Counter("control_not_delivered_"+c.RPC+"_"+c.Location) < 3 {
				full := ctl
				t.Logf("control not delivered: %s codes=%v grpc=%q events=%+v", c.sig(), full.Codes, full.GRPCErr, full.Events)
			}
			continue
		}
		r.Count("control_delivered_"+c.RPC+"_"+c.Location, 1)
		r.Seen("delivery_paths", c.RPC+":"+c.Location+":"+ctl.Path)
		// class keys name the RPC and the place the object data came from; body variant and
		// filter kind are reported in the text
		key := c.RPC + "|" + c.Location
		switch c.RPC {
		case "GetRange":
			key = c.RPC // the shape of the failure does not depend on where the payload lives
		case "Get":
			// whole-object and ranged reads take different routes through the get service
			if strings.Contains(c.Variant, "range") {
				key += "|ranged"
			} else {
				key += "|whole"
			}
		}
		// O on the allowed twin
		if ctl.FirstEval < 0 || ctl.FirstEval > ctl.FirstData {
			full := ctl
			r.Violation("data-before-header-eacl|"+key, fmt.Sprintf("%s %s (%s): object data reached the client (event %d) before any eACL evaluation that had the object's header (first such event: %d)", c.RPC, c.Variant, c.Location, ctl.FirstData, ctl.FirstEval), map[string]any{"case": c, "twin": "allowed", "outcome": full})
		} else {
			r.Count("ordering_ok_"+c.RPC, 1)
		}

		ctlBrief := ctl
		ctlBrief.Events = nil
		bad := vf29PFire(r, st, c, true, true)
		if strings.HasPrefix(bad.Panic, "harness:") {
			r.Count("harness_stub_hits", 1)
			continue
		}
		replay := func() any {
			return map[string]any{"case": c, "twin": "forbidden", "outcome": bad, "control": ctlBrief}
		}
		if bad.Panic != "" {
			r.Violation("panic|"+key+"|forbidden", "handler panicked: "+bad.Panic, replay())
			continue
		}
		ok := true
		if bad.FirstData >= 0 {
			ok = false
			r.Violation("eacl-denied-object-served|"+key, fmt.Sprintf("%s %s (%s, rule on %s): the eACL denies this object to the sender, yet %d payload bytes / header=%v reached the client (eACL deny seen: %v)", c.RPC, c.Variant, c.Location, c.Filter, bad.Payload, bad.HeaderSent, bad.Denied), replay())
		} else if !bad.errorStatus() {
			ok = false
			r.Violation("denied-without-error-status|"+key, fmt.Sprintf("%s %s (%s): nothing was delivered but the answer carries no error status: codes=%v", c.RPC, c.Variant, c.Location, bad.Codes), replay())
		}
		if ok {
			r.Count("forbidden_refused_"+c.RPC+"_"+c.Location, 1)
			r.Seen("refusal_codes", fmt.Sprint(bad.Codes))
		}
		judged[c.RPC+"|"+c.Location]++
		r.Distinct(c.sig())
		if idx < 8 {
			r.Sample(map[string]any{"case": c, "allowed_twin": map[string]any{"payload": ctl.Payload, "first_data": ctl.FirstData, "first_header_eacl": ctl.FirstEval, "path": ctl.Path}, "forbidden_twin": map[string]any{"codes": bad.Codes, "payload": bad.Payload}})
		}
	}
	for _, rpc := range []string{"Get", "Head", "GetRange"} {
		for _, loc := range vf29PLocations {
			if judged[rpc+"|"+loc] == 0 {
				r.Count("unjudged_combinations", 1)
				r.Seen("unjudged", rpc+"|"+loc)
			}
		}
	}
	if len(judged) < 6 {
		r.Inconclusive(fmt.Sprintf("only %d (rpc,location) combinations could be judged", len(judged)))
	}
	_ = io.EOF
}
