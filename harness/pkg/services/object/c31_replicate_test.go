//go:build verif

package object

// C31 monitor: replication requests are accepted only from container nodes for container
// nodes.
//
// Real code: Server.Replicate.  Environment: a model FS chain with two containers whose
// node sets differ between the current and the previous epoch, and a recording Storage
// that stands for the node's validate-and-store step (it validates the object it is
// handed with the SDK's verification-field check and keeps what it accepts).
// Two workloads: (1) single requests, each against a fresh Server (combination space);
// (2) histories on ONE long-lived Server across epoch changes with churning container node
// sets (vf31Histories) - whatever the node remembers from earlier requests or epochs must
// not change the answer for the request at hand.
// Oracle: vf31Judge - from the statement: stored only if the request signature is a valid
// signature of a node of the object's container (current or previous epoch), the local
// node is in that container now, and the object is valid; otherwise nothing stored and a
// non-OK status.

import (
	"bytes"
	"context"
	"crypto/ecdsa"
	"crypto/elliptic"
	"crypto/sha256"
	"crypto/sha512"
	"encoding/base64"
	"encoding/hex"
	"errors"
	"fmt"
	"math/big"
	"math/rand/v2"
	"testing"

	"github.com/nspcc-dev/neo-go/pkg/core/block"
	"github.com/nspcc-dev/neo-go/pkg/core/transaction"
	"github.com/nspcc-dev/neo-go/pkg/crypto/keys"
	"github.com/nspcc-dev/neo-go/pkg/neorpc/result"
	"github.com/nspcc-dev/neo-go/pkg/smartcontract/trigger"
	iec "github.com/nspcc-dev/neofs-node/internal/ec"
	"github.com/nspcc-dev/neofs-node/internal/verifkit"
	objectcore "github.com/nspcc-dev/neofs-node/pkg/core/object"
	"github.com/nspcc-dev/neofs-sdk-go/client"
	apistatus "github.com/nspcc-dev/neofs-sdk-go/client/status"
	"github.com/nspcc-dev/neofs-sdk-go/container"
	cid "github.com/nspcc-dev/neofs-sdk-go/container/id"
	neofscrypto "github.com/nspcc-dev/neofs-sdk-go/crypto"
	neofsecdsa "github.com/nspcc-dev/neofs-sdk-go/crypto/ecdsa"
	"github.com/nspcc-dev/neofs-sdk-go/netmap"
	"github.com/nspcc-dev/neofs-sdk-go/object"
	oid "github.com/nspcc-dev/neofs-sdk-go/object/id"
	protoobject "github.com/nspcc-dev/neofs-sdk-go/proto/object"
	"github.com/nspcc-dev/neofs-sdk-go/proto/refs"
	sessionv2 "github.com/nspcc-dev/neofs-sdk-go/session/v2"
	"github.com/nspcc-dev/neofs-sdk-go/user"
	"github.com/nspcc-dev/neofs-sdk-go/version"
	"go.uber.org/zap"
	"google.golang.org/protobuf/proto"
)

type vf31Key struct {
	priv *ecdsa.PrivateKey
	pub  []byte
}

func vf31NewKey(rng *rand.Rand) vf31Key {
	for {
		k, err := keys.NewPrivateKeyFromBytes(verifkit.RandBytes(rng, 32))
		if err != nil {
			continue
		}
		return vf31Key{priv: &k.PrivateKey, pub: k.PublicKey().Bytes()}
	}
}

func (k vf31Key) signer(scheme int) neofscrypto.Signer {
	switch scheme {
	case 0:
		return neofsecdsa.Signer(*k.priv)
	case 1:
		return neofsecdsa.SignerRFC6979(*k.priv)
	default:
		return neofsecdsa.SignerWalletConnect(*k.priv)
	}
}

// ---------------------------------------------------------------------------------------
// environment: FS chain model

type vf31Chain struct {
	local []byte
	cur   map[cid.ID][][]byte
	prev  map[cid.ID][][]byte
	// injected read failures of the placement source, per request step:
	// failSingle    - the current-epoch listing (receiver membership check) fails;
	// failTwoCur    - the current-epoch part of the two-epoch listing (sender membership
	//                 check) fails: the previous epoch's nodes are still listed, then the
	//                 error is returned;
	// failTwoPrev   - the previous-epoch part of the two-epoch listing fails: the current
	//                 epoch's nodes are listed first, then the error is returned.
	// A listing stopped by its callback returns nil (the fault does not manifest).
	failSingle, failTwoCur, failTwoPrev error
	manifested                          []string // which listings actually returned an injected error
	calls                               map[string]int
	epoch                               uint64 // what CurrentEpoch reports; cur/prev are the node sets of epoch / epoch-1
}

func (c *vf31Chain) ForEachContainerNodePublicKey(id cid.ID, f func([]byte) bool) error {
	c.calls["cur"]++
	if c.failSingle != nil {
		c.manifested = append(c.manifested, "single-epoch-listing")
		return c.failSingle
	}
	ks, ok := c.cur[id]
	if !ok {
		return apistatus.ErrContainerNotFound
	}
	for _, k := range ks {
		if !f(k) {
			return nil
		}
	}
	return nil
}

func (c *vf31Chain) ForEachContainerNodePublicKeyInLastTwoEpochs(id cid.ID, f func([]byte) bool) error {
	c.calls["two"]++
	ks, ok := c.cur[id]
	if !ok && c.failTwoCur == nil {
		return apistatus.ErrContainerNotFound
	}
	if c.failTwoCur == nil {
		for _, k := range ks {
			if !f(k) {
				return nil
			}
		}
	}
	if c.failTwoPrev == nil {
		for _, k := range c.prev[id] {
			if !f(k) {
				return nil
			}
		}
	}
	switch {
	case c.failTwoCur != nil && c.failTwoPrev != nil:
		c.manifested = append(c.manifested, "two-epoch-listing-both-parts")
		return fmt.Errorf("both epochs: %w; %w", c.failTwoCur, c.failTwoPrev)
	case c.failTwoCur != nil:
		c.manifested = append(c.manifested, "two-epoch-listing-current-part")
		return c.failTwoCur
	case c.failTwoPrev != nil:
		c.manifested = append(c.manifested, "two-epoch-listing-previous-part")
		return c.failTwoPrev
	}
	return nil
}

func (c *vf31Chain) IsOwnPublicKey(pub []byte) bool { return bytes.Equal(pub, c.local) }
func (c *vf31Chain) Get(cid.ID) (container.Container, error) {
	return container.Container{}, nil
}
func (c *vf31Chain) CurrentEpoch() uint64         { return c.epoch }
func (c *vf31Chain) CurrentBlock() uint32         { return 1000 }
func (c *vf31Chain) CurrentEpochDuration() uint64 { return 240 }
func (c *vf31Chain) InvokeContainedScript(*transaction.Transaction, *block.Header, *trigger.Type, *bool) (*result.Invoke, error) {
	return nil, errors.New("verif: unused")
}
func (c *vf31Chain) SelectContainerNodes(cid.ID) ([][]netmap.NodeInfo, []uint, []iec.Rule, error) {
	return nil, nil, nil, errors.New("verif: unused")
}
func (c *vf31Chain) LocalNodeUnderMaintenance() bool { return false }

// ---------------------------------------------------------------------------------------
// environment: recording storage (stands for the node's validate-and-store step)

type vf31Storage struct {
	// calls, lastObj, storedNow describe the request being served (reset by the workload
	// before every request); stored lives as long as the storage (one node's lifetime)
	calls     int
	lastObj   *object.Object
	storedNow int
	stored    map[oid.Address][]byte
	failWith  error
}

func (s *vf31Storage) VerifyAndStoreObjectLocally(_ context.Context, obj object.Object) error {
	s.calls++
	s.lastObj = &obj
	if s.failWith != nil {
		return s.failWith
	}
	if err := obj.CheckVerificationFields(); err != nil {
		return fmt.Errorf("verif storage: invalid object: %w", err)
	}
	s.stored[oid.NewAddress(obj.GetContainerID(), obj.GetID())] = obj.Marshal()
	s.storedNow++
	return nil
}
func (s *vf31Storage) SearchObjects(context.Context, cid.ID, []objectcore.SearchFilter, []string, *objectcore.SearchCursor, uint16) ([]client.SearchResultItem, []byte, error) {
	return nil, nil, errors.New("verif: unused")
}
func (s *vf31Storage) GetSessionPrivateKey(user.ID) (ecdsa.PrivateKey, error) {
	return ecdsa.PrivateKey{}, errors.New("verif: unused")
}
func (s *vf31Storage) GetSessionV2PrivateKey([]sessionv2.Target) (ecdsa.PrivateKey, error) {
	return ecdsa.PrivateKey{}, errors.New("verif: unused")
}

type vf31Metrics struct{}

// ---------------------------------------------------------------------------------------
// reference: is sig a valid signature of data (standard library only)

func vf31SigValid(data []byte, sig *refs.Signature) bool {
	if sig == nil || len(sig.Key) != 33 {
		return false
	}
	x, y := elliptic.UnmarshalCompressed(elliptic.P256(), sig.Key)
	if x == nil {
		return false
	}
	pub := &ecdsa.PublicKey{Curve: elliptic.P256(), X: x, Y: y}
	rs := func(b []byte) (*big.Int, *big.Int) {
		return new(big.Int).SetBytes(b[:32]), new(big.Int).SetBytes(b[32:64])
	}
	switch sig.Scheme {
	case refs.SignatureScheme_ECDSA_SHA512:
		if len(sig.Sign) != 65 || sig.Sign[0] != 4 {
			return false
		}
		h := sha512.Sum512(data)
		r, s := rs(sig.Sign[1:])
		return ecdsa.Verify(pub, h[:], r, s)
	case refs.SignatureScheme_ECDSA_RFC6979_SHA256:
		if len(sig.Sign) != 64 {
			return false
		}
		h := sha256.Sum256(data)
		r, s := rs(sig.Sign)
		return ecdsa.Verify(pub, h[:], r, s)
	case refs.SignatureScheme_ECDSA_RFC6979_SHA256_WALLET_CONNECT:
		if len(sig.Sign) != 80 {
			return false
		}
		payload := append([]byte(hex.EncodeToString(sig.Sign[64:])), base64.StdEncoding.EncodeToString(data)...)
		if len(payload) >= 0xfd {
			return false // not reachable for 32-byte IDs
		}
		msg := append([]byte{0x01, 0x00, 0x01, 0xf0, byte(len(payload))}, payload...)
		msg = append(msg, 0, 0)
		h := sha256.Sum256(msg)
		r, s := rs(sig.Sign)
		return ecdsa.Verify(pub, h[:], r, s)
	}
	return false
}

func vf31Contains(ks [][]byte, k []byte) bool {
	for i := range ks {
		if bytes.Equal(ks[i], k) {
			return true
		}
	}
	return false
}

// ---------------------------------------------------------------------------------------

var vf31SenderKinds = [...]string{"node-current", "node-previous-only", "node-of-other-container", "outsider", "local-node-itself"}
var vf31LocalKinds = [...]string{"in-current", "in-previous-only", "outside"}
var vf31SigKinds = [...]string{"valid", "sig-bitflip", "key-bitflip", "signed-other-id", "claimed-member-key", "scheme-mismatch", "scheme-unsupported", "sig-truncated", "missing-sig", "empty-key", "empty-sign"}
var vf31ObjKinds = [...]string{"valid", "header-changed", "payload-changed", "id-replaced-and-resigned-request", "object-signature-damaged", "container-switched", "no-header", "no-id"}
var vf31EnvKinds = [...]string{"ok", "unknown-container", "placement-error", "storage-busy", "storage-error",
	// read failures of single steps of the membership checks (the other steps answer)
	"placement-error-receiver-check-only", "placement-error-sender-check-only",
	"placement-error-previous-epoch-only", "placement-error-current-epoch-part-of-sender-check"}

// vf31Fault returns an injected read failure of the placement source in one of the shapes
// a source may produce.
func vf31Fault(rng *rand.Rand) (error, string) {
	switch rng.IntN(5) {
	case 0:
		return errors.New("verif: injected placement failure"), "plain"
	case 1:
		return fmt.Errorf("select container nodes for previous epoch #9: %w", errors.New("verif: not enough nodes to SELECT from")), "wrapped"
	case 2:
		return fmt.Errorf("verif: read network map: %w", context.DeadlineExceeded), "deadline"
	case 3:
		return fmt.Errorf("verif: read container: %w", apistatus.ErrContainerNotFound), "wrapped-container-not-found"
	default:
		return apistatus.ErrContainerNotFound, "container-not-found"
	}
}

// vf31Obs is one served request as the oracle sees it: the reference's answers (from the
// statement and the model's membership) and what the node did.
type vf31Obs struct {
	pre                                                       string // evidence counter prefix ("" single requests, "history_" long-lived node)
	envName, faultShape                                       string
	manifested                                                []string
	sigOK, hasHeader, senderIn, localIn, authorised, mayStore bool
	stCalls, storedNow                                        int
	lastObj                                                   *object.Object
	mo                                                        *protoobject.Object
	resp                                                      *protoobject.ReplicateResponse
	rerr                                                      error
	desc                                                      map[string]any
	shape, senderName, objName                                string
	scheme                                                    int
}

// vf31Judge compares what the node did with the reference; it reports whether the request
// was accepted and stored in accordance with the reference.
func vf31Judge(r *verifkit.Run, o vf31Obs) (accepted bool) {
	pre := o.pre
	statusOK := o.rerr == nil && o.resp != nil && o.resp.GetStatus().GetCode() == 0
	code := "transport-error"
	if o.rerr == nil && o.resp != nil {
		code = fmt.Sprint(o.resp.GetStatus().GetCode())
	}
	r.Seen(pre+"status_codes", code)
	o.desc["status"] = code
	o.desc["storage_calls"] = o.stCalls
	storedN := o.storedNow
	faulted := len(o.manifested) > 0
	for _, m := range o.manifested {
		r.Count(pre+"placement_fault_manifested|"+m, 1)
		r.Seen(pre+"placement_fault_shapes_manifested", o.faultShape)
		if o.sigOK && o.hasHeader && !(o.senderIn && o.localIn) {
			// the situation that matters: a correctly signed request of a non-member (or
			// for a non-member) met a membership listing that failed
			r.Seen(pre+"placement_faults_met_by_signed_unauthorised_requests", o.envName+"|"+m)
		}
	}
	o.desc["placement_listings_failed"] = o.manifested
	if o.faultShape != "" && o.sigOK && o.hasHeader && !(o.senderIn && o.localIn) {
		r.Seen(pre+"placement_fault_environments_offered_to_signed_unauthorised_requests", o.envName)
	}
	shape := o.shape
	switch {
	case !o.authorised && o.stCalls > 0:
		why := "signature"
		switch {
		case o.sigOK && !o.senderIn:
			why = "sender-outside-container"
		case o.sigOK && o.senderIn && !o.localIn:
			why = "local-node-outside-container"
		case o.sigOK && o.senderIn && o.localIn:
			why = "object-without-header"
		}
		r.Violation("storage-reached-unauthorised|"+why+"|"+shape, "Replicate handed the object to the storage although the request is not authorised ("+why+")", o.desc)
	case !o.mayStore && storedN > 0:
		r.Violation("stored-invalid|"+shape, "object stored although the acceptance condition does not hold", o.desc)
	case !o.mayStore && statusOK:
		r.Violation("ok-status-without-store|"+shape, "OK status returned although nothing may be (and nothing was) stored", o.desc)
	case o.mayStore && storedN == 1 && statusOK && !faulted:
		accepted = true
		r.Count(pre+"accepted_and_stored", 1)
		r.Seen(pre+"accepted_sender_kinds", o.senderName)
		r.Seen(pre+"accepted_schemes", fmt.Sprint(o.scheme))
	case o.mayStore && faulted && storedN == 0 && !statusOK:
		// sender and receiver are members, but a membership listing failed: refusing is fine
		r.Count(pre+"refused_because_membership_listing_failed", 1)
	case o.mayStore && faulted && storedN == 1 && statusOK:
		// ... and so is storing (members by the model; the statement does not cover read failures)
		accepted = true
		r.Count(pre+"stored_for_members_although_membership_listing_failed", 1)
	case o.mayStore:
		// all conditions hold but the code refused: not judged ("only if"), must stay rare
		r.Count(pre+"refused_though_all_conditions_hold", 1)
		r.Seen(pre+"refused_though_valid_shapes", shape+"|code="+code)
	default:
		r.Count(pre+"rejected_nothing_stored", 1)
		if o.stCalls > 0 {
			r.Count(pre+"rejected_by_storage_validation_or_failure", 1)
		} else {
			r.Count(pre+"rejected_before_storage", 1)
		}
	}
	if o.stCalls > 0 && o.lastObj != nil && o.authorised {
		// what reached the storage is exactly what the request carried
		if !bytes.Equal(vf31HexObj(o.lastObj.ProtoMessage()), vf31HexObj(o.mo)) {
			r.Violation("storage-got-different-object|"+o.objName, "object handed to the storage differs from the object in the request", o.desc)
		} else {
			r.Count(pre+"storage_got_request_object", 1)
		}
	}
	if o.stCalls > 1 {
		r.Violation("storage-called-twice", "Replicate called the storage more than once", o.desc)
	}
	return accepted
}

func TestVerif_C31(t *testing.T) {
	r := verifkit.Start(t, "C31", "exploration")
	defer r.Finish()
	r.SetRule("case = sender kind (5) x local node membership (3) x request signature kind (11) x scheme (3) x object kind (8) x environment (9: ok, unknown container, storage busy/error, placement read failure of both membership checks / the receiver check only / the sender check only / the previous-epoch part only / the current-epoch part of the sender check only, in 5 error shapes), two containers with different current/previous node sets; distinct = that tuple; every combination that is not all-valid must end with nothing stored and a non-OK status.  Plus histories: one long-lived Server serves 3-8 requests per epoch over 8-15 epochs (ticks +1, rarely +2/+3) while the node sets of two containers churn (nodes and the local node join/leave, a container may be removed), senders return across epochs, objects are re-sent, per-request faults; every request is judged on the model membership of its own epoch; distinct = sequence of (sender state, local state, earlier-request relation, signature, object, environment)")
	r.Assume("the Storage behind Server.Replicate validates what it is given (C24 monitors the real validate-and-store step); here a recording Storage validates with the SDK's verification-field check")
	nCases := r.Pick(20000, 400000)

	prng := r.Rand("pool", 0)
	local := vf31NewKey(prng)
	nCurA, nPrevA, nCurB, outsider := vf31NewKey(prng), vf31NewKey(prng), vf31NewKey(prng), vf31NewKey(prng)
	owner := vf31NewKey(prng)
	ownerID := user.NewFromECDSAPublicKey(owner.priv.PublicKey)
	cnrA, cnrB := verifkit.RandCID(prng), verifkit.RandCID(prng)
	ctx := context.Background()

	for ci := 0; ci < nCases; ci++ {
		rng := r.Rand("case", ci)
		pick := func(n int, validBias int) int { // index 0 ("valid"/"ok") with probability validBias/10
			if rng.IntN(10) < validBias {
				return 0
			}
			return rng.IntN(n)
		}
		senderKind, localKind := pick(len(vf31SenderKinds), 5), pick(len(vf31LocalKinds), 6)
		sigKind, objKind, envKind := pick(len(vf31SigKinds), 6), pick(len(vf31ObjKinds), 6), pick(len(vf31EnvKinds), 7)
		scheme := rng.IntN(3)

		chain := &vf31Chain{local: local.pub, calls: map[string]int{}, epoch: 10,
			cur:  map[cid.ID][][]byte{cnrA: {nCurA.pub}, cnrB: {nCurB.pub, local.pub}},
			prev: map[cid.ID][][]byte{cnrA: {nPrevA.pub, nCurA.pub}, cnrB: {nCurB.pub}},
		}
		switch localKind {
		case 0:
			chain.cur[cnrA] = append(chain.cur[cnrA], local.pub)
			if rng.IntN(2) == 0 {
				chain.prev[cnrA] = append(chain.prev[cnrA], local.pub)
			}
		case 1:
			chain.prev[cnrA] = append(chain.prev[cnrA], local.pub)
		}
		if rng.IntN(2) == 0 { // order of the node lists must not matter
			for _, m := range []map[cid.ID][][]byte{chain.cur, chain.prev} {
				l := m[cnrA]
				rng.Shuffle(len(l), func(i, j int) { l[i], l[j] = l[j], l[i] })
			}
		}
		var sender vf31Key
		switch senderKind {
		case 0:
			sender = nCurA
		case 1:
			sender = nPrevA
		case 2:
			sender = nCurB
		case 3:
			sender = outsider
		default:
			sender = local
		}
		st := &vf31Storage{stored: map[oid.Address][]byte{}}
		faultShape := ""
		switch envKind {
		case 1:
			delete(chain.cur, cnrA)
			delete(chain.prev, cnrA)
		case 2:
			chain.failSingle, faultShape = vf31Fault(rng)
			chain.failTwoCur, chain.failTwoPrev = chain.failSingle, chain.failSingle
		case 5:
			chain.failSingle, faultShape = vf31Fault(rng)
		case 6:
			chain.failTwoCur, faultShape = vf31Fault(rng)
			chain.failTwoPrev = chain.failTwoCur
		case 7:
			chain.failTwoPrev, faultShape = vf31Fault(rng)
		case 8:
			chain.failTwoCur, faultShape = vf31Fault(rng)
		case 3:
			st.failWith = apistatus.ErrBusy
		case 4:
			st.failWith = errors.New("verif: injected storage failure")
		}

		// the object
		obj := object.New(cnrA, ownerID)
		ver := version.Current()
		obj.SetVersion(&ver)
		obj.SetPayload(verifkit.RandBytes(rng, rng.IntN(64)))
		obj.SetPayloadSize(uint64(len(obj.Payload())))
		obj.SetCreationEpoch(uint64(5 + rng.IntN(5)))
		if rng.IntN(2) == 0 {
			obj.SetAttributes(object.NewAttribute("k", hex.EncodeToString(verifkit.RandBytes(rng, 4))))
		}
		if err := obj.SetVerificationFields(owner.signer(rng.IntN(2))); err != nil {
			r.Inconclusive("cannot finalise object: " + err.Error())
			return
		}
		mo := obj.ProtoMessage()
		objValid := true
		resign := false
		switch objKind {
		case 1:
			mo.Header.CreationEpoch++
			objValid = false
		case 2:
			mo.Payload = append(bytes.Clone(mo.Payload), 1)
			objValid = false
		case 3:
			id := verifkit.RandOID(rng)
			mo.ObjectId = id.ProtoMessage()
			objValid, resign = false, true
		case 4:
			mo.Signature.Sign = bytes.Clone(mo.Signature.Sign)
			mo.Signature.Sign[rng.IntN(len(mo.Signature.Sign))] ^= 1 << rng.IntN(8)
			objValid = false
		case 5:
			// the object claims container B (where the sender is no member unless it is B's node)
			mo.Header.ContainerId = cnrB.ProtoMessage()
			objValid = false // header changed after the ID was fixed
		case 6:
			mo.Header = nil
			objValid = false
		case 7:
			mo.ObjectId = nil
			objValid = false
		}
		_ = resign

		// the request signature: made over the ID the request carries
		idBytes := mo.GetObjectId().GetValue()
		signed := idBytes
		if sigKind == 3 {
			other := verifkit.RandOID(rng)
			signed = other[:]
		}
		sgn := sender.signer(scheme)
		sigBytes, err := sgn.Sign(signed)
		if err != nil {
			r.Inconclusive("cannot sign request: " + err.Error())
			return
		}
		sig := &refs.Signature{Key: bytes.Clone(sender.pub), Sign: sigBytes, Scheme: refs.SignatureScheme(scheme)}
		switch sigKind {
		case 1:
			sig.Sign[rng.IntN(len(sig.Sign))] ^= 1 << rng.IntN(8)
		case 2:
			sig.Key[1+rng.IntN(32)] ^= 1 << rng.IntN(8)
		case 4:
			// an outsider's signature presented under the key of a container node
			s2, _ := outsider.signer(scheme).Sign(signed)
			sig.Sign, sig.Key = s2, bytes.Clone(nCurA.pub)
		case 5:
			sig.Scheme = refs.SignatureScheme((scheme + 1 + rng.IntN(2)) % 3)
		case 6:
			sig.Scheme = []refs.SignatureScheme{3, 4, -1, 100}[rng.IntN(4)]
		case 7:
			sig.Sign = sig.Sign[:len(sig.Sign)-1]
		case 8:
			sig = nil
		case 9:
			sig.Key = nil
		case 10:
			sig.Sign = nil
		}
		req := &protoobject.ReplicateRequest{Object: mo, Signature: sig}

		// reference expectation
		objCnr := cnrA
		if objKind == 5 {
			objCnr = cnrB
		}
		sigOK := len(idBytes) > 0 && vf31SigValid(idBytes, sig)
		senderIn := sig != nil && (vf31Contains(chain.cur[objCnr], sig.Key) || vf31Contains(chain.prev[objCnr], sig.Key)) && chain.cur[objCnr] != nil
		localIn := vf31Contains(chain.cur[objCnr], local.pub)
		// The condition of the statement is evaluated on the model's membership (the truth),
		// whether or not the node could read it: a read failure never makes a non-member a
		// member.  Where a membership listing failed and the truth satisfies the condition
		// the statement is silent, so either outcome is accepted there (see below).
		authorised := sigOK && senderIn && localIn && mo.Header != nil
		mayStore := authorised && objValid && st.failWith == nil

		srv := New(nil, chain, st, nil, *local.priv, nil, nil, nil, nil, zap.NewNop())
		desc := map[string]any{"case": ci, "sender": vf31SenderKinds[senderKind], "local": vf31LocalKinds[localKind], "signature": vf31SigKinds[sigKind], "scheme": scheme,
			"object": vf31ObjKinds[objKind], "environment": vf31EnvKinds[envKind], "placement_fault_shape": faultShape, "request_hex": vf31Hex(req)}
		var resp *protoobject.ReplicateResponse
		var rerr error
		if r.Guard(desc, func() { resp, rerr = srv.Replicate(ctx, req) }) {
			r.Eval(1)
			continue
		}
		r.Eval(1)
		r.Distinct(fmt.Sprintf("%d|%d|%d|%d|%d|%d", senderKind, localKind, sigKind, scheme, objKind, envKind))
		if ci%997 == 0 {
			r.Sample(map[string]any{"case": ci, "sender": vf31SenderKinds[senderKind], "local": vf31LocalKinds[localKind], "signature": vf31SigKinds[sigKind], "scheme": scheme,
				"object": vf31ObjKinds[objKind], "environment": vf31EnvKinds[envKind], "reference_may_store": mayStore, "reference_authorised": authorised})
		}
		vf31Judge(r, vf31Obs{envName: vf31EnvKinds[envKind], faultShape: faultShape, manifested: chain.manifested,
			sigOK: sigOK, hasHeader: mo.Header != nil, senderIn: senderIn, localIn: localIn, authorised: authorised, mayStore: mayStore,
			stCalls: st.calls, storedNow: st.storedNow, lastObj: st.lastObj, mo: mo, resp: resp, rerr: rerr, desc: desc,
			shape:      fmt.Sprintf("sender=%s|local=%s|sig=%s|object=%s|env=%s", vf31SenderKinds[senderKind], vf31LocalKinds[localKind], vf31SigKinds[sigKind], vf31ObjKinds[objKind], vf31EnvKinds[envKind]),
			senderName: vf31SenderKinds[senderKind], objName: vf31ObjKinds[objKind], scheme: scheme})
	}
	vf31Histories(r)
	if r.Counter("accepted_and_stored") == 0 || r.SeenCount("accepted_schemes") < 3 || r.SeenCount("accepted_sender_kinds") < 2 {
		r.Inconclusive("accepted replications not observed for every scheme / sender kind")
	}
	if want := 5; r.SeenCount("placement_fault_environments_offered_to_signed_unauthorised_requests") < want {
		r.Inconclusive(fmt.Sprintf("only %d of %d placement read-failure environments were offered to a correctly signed unauthorised request", r.SeenCount("placement_fault_environments_offered_to_signed_unauthorised_requests"), want))
	}
	if r.Counter("refused_though_all_conditions_hold") > 0 {
		r.Inconclusive(fmt.Sprintf("%d fully valid replications were refused: baseline is broken", r.Counter("refused_though_all_conditions_hold")))
	}
}

// ---------------------------------------------------------------------------------------
// Histories: ONE long-lived node (one Server, one storage) serves a sequence of replication
// requests while epochs tick and the containers' node sets change.  The statement is about
// every single request ("in the current or previous epoch" of the moment the request is
// served), so nothing the node has seen or decided earlier may change the answer: the
// reference evaluates every request on the model's membership of the epoch it arrives in.

var vf31HistSigKinds = [...]string{"valid", "sig-bitflip", "key-bitflip", "signed-other-id", "claimed-member-key", "scheme-mismatch"}
var vf31HistObjKinds = [...]string{"valid", "valid-resent-earlier-object", "header-changed", "payload-changed", "container-switched"}
var vf31HistEnvKinds = [...]string{"ok", "storage-busy", "storage-error", "placement-error", "placement-error-receiver-check-only",
	"placement-error-sender-check-only", "placement-error-previous-epoch-only", "placement-error-current-epoch-part-of-sender-check"}

// vf31Membership is the truth about one container: node keys per epoch (absent epoch = no
// nodes), and the epoch from which the container no longer exists (0 = never removed).
type vf31Membership struct {
	at          map[uint64][][]byte
	removedFrom uint64
}

func (m *vf31Membership) exists(e uint64) bool { return m.removedFrom == 0 || e < m.removedFrom }
func (m *vf31Membership) in(e uint64, k []byte) bool {
	return m.exists(e) && vf31Contains(m.at[e], k)
}

// how long ago k was a node of the container, seen from epoch e: 0 now, 1 previous epoch,
// n >= 2 lapsed, -1 never (within the history)
func (m *vf31Membership) lastIn(e uint64, k []byte) int {
	for d := uint64(0); d <= e; d++ {
		if vf31Contains(m.at[e-d], k) {
			return int(d)
		}
	}
	return -1
}

func vf31MemberState(d int) string {
	switch {
	case d == 0:
		return "member-now"
	case d == 1:
		return "member-in-previous-epoch-only"
	case d == 2:
		return "member-until-two-epochs-ago"
	case d > 2:
		return "member-longer-ago"
	}
	return "never-member"
}

func vf31Histories(r *verifkit.Run) {
	nHist := r.Pick(220, 4400)
	ctx := context.Background()
	prng := r.Rand("history-pool", 0)
	local, outsider, owner := vf31NewKey(prng), vf31NewKey(prng), vf31NewKey(prng)
	nodes := make([]vf31Key, 5)
	for i := range nodes {
		nodes[i] = vf31NewKey(prng)
	}
	ownerID := user.NewFromECDSAPublicKey(owner.priv.PublicKey)
	senderName := func(i int) string {
		switch {
		case i < len(nodes):
			return fmt.Sprintf("n%d", i)
		case i == len(nodes):
			return "outsider"
		}
		return "local"
	}
	senderKey := func(i int) vf31Key {
		switch {
		case i < len(nodes):
			return nodes[i]
		case i == len(nodes):
			return outsider
		}
		return local
	}

	for hi := 0; hi < nHist; hi++ {
		rng := r.Rand("history", hi)
		cnrs := [2]cid.ID{verifkit.RandCID(rng), verifkit.RandCID(rng)}
		mem := [2]*vf31Membership{{at: map[uint64][][]byte{}}, {at: map[uint64][][]byte{}}}
		// node sets evolve epoch by epoch: a node stays with p=.6, joins with p=.3; the local
		// node stays with p=.85 and (re)joins with p=.5
		evolve := func(m *vf31Membership, from uint64) {
			var next [][]byte
			for i := range nodes {
				was := vf31Contains(m.at[from], nodes[i].pub)
				if was && rng.IntN(10) < 6 || !was && rng.IntN(10) < 3 {
					next = append(next, nodes[i].pub)
				}
			}
			was := vf31Contains(m.at[from], local.pub)
			if was && rng.IntN(100) < 85 || !was && rng.IntN(2) == 0 {
				next = append(next, local.pub)
			}
			rng.Shuffle(len(next), func(i, j int) { next[i], next[j] = next[j], next[i] })
			m.at[from+1] = next
		}
		var epoch uint64
		if rng.IntN(5) > 0 {
			epoch = 1 + uint64(rng.IntN(40))
		}
		for _, m := range mem {
			first := epoch
			if epoch > 0 {
				first = epoch - 1
			}
			for i := range nodes {
				if rng.IntN(2) == 0 {
					m.at[first] = append(m.at[first], nodes[i].pub)
				}
			}
			if rng.IntN(5) > 0 {
				m.at[first] = append(m.at[first], local.pub)
			}
			if epoch > 0 {
				evolve(m, first)
			}
		}

		chain := &vf31Chain{local: local.pub, calls: map[string]int{}}
		st := &vf31Storage{stored: map[oid.Address][]byte{}}
		// the model chain serves what the truth says about the epoch the node is in
		publish := func() {
			chain.epoch = epoch
			chain.cur, chain.prev = map[cid.ID][][]byte{}, map[cid.ID][][]byte{}
			for i, m := range mem {
				if !m.exists(epoch) {
					continue
				}
				chain.cur[cnrs[i]] = append([][]byte{}, m.at[epoch]...) // non-nil: the container exists
				if epoch > 0 {
					chain.prev[cnrs[i]] = m.at[epoch-1]
				}
			}
		}
		publish()
		srv := New(nil, chain, st, nil, *local.priv, nil, nil, nil, nil, zap.NewNop())

		var log []string
		logEpoch := func() {
			l := fmt.Sprintf("epoch %d:", epoch)
			for i, m := range mem {
				l += fmt.Sprintf(" %c=", 'A'+i)
				if !m.exists(epoch) {
					l += "removed"
					continue
				}
				l += "{"
				for _, k := range m.at[epoch] {
					for si := 0; si < len(nodes)+2; si++ {
						if bytes.Equal(senderKey(si).pub, k) {
							l += senderName(si) + " "
						}
					}
				}
				l += "}"
			}
			log = append(log, l)
		}
		if epoch > 0 {
			epoch--
			logEpoch()
			epoch++
		}
		logEpoch()

		type pair struct{ sender, cnr int }
		// what the reference said about earlier requests of the history (generator-side
		// knowledge, independent of what the node answered)
		refStoreEpoch := map[pair]uint64{}   // (sender, container) -> last epoch in which the reference allowed a store
		refDenyEpoch := map[pair]uint64{}    // ... -> last epoch in which a correctly signed request had to be refused
		cnrRefStoreEpoch := map[int]uint64{} // container -> last epoch with an allowed store
		var recent []pair                    // senders of this and the last served epoch
		var recentMark int
		var sent [2][]*protoobject.Object // valid objects sent earlier, per container
		nEpochs := 8 + rng.IntN(8)
		histSig := ""

		for ei := 0; ei < nEpochs; ei++ {
			if ei > 0 {
				// epoch tick: +1, rarely +2/+3 (the truth has node sets for the skipped epochs too)
				step := 1
				if rng.IntN(10) == 0 {
					step += 1 + rng.IntN(2)
				}
				for ; step > 0; step-- {
					for i, m := range mem {
						evolve(m, epoch)
						if i == 1 && m.removedFrom == 0 && rng.IntN(40) == 0 {
							m.removedFrom = epoch + 1
						}
					}
					epoch++
				}
				publish()
				r.Count("history_epoch_ticks", 1)
				logEpoch()
				recent = recent[recentMark:]
				recentMark = len(recent)
			}
			for q, nReq := 0, 3+rng.IntN(6); q < nReq; q++ {
				// who sends for which container: often somebody who sent in this or the last epoch
				var pr pair
				if len(recent) > 0 && rng.IntN(100) < 45 {
					pr = recent[rng.IntN(len(recent))]
				} else {
					switch x := rng.IntN(10); {
					case x < 8:
						pr.sender = rng.IntN(len(nodes))
					case x == 8:
						pr.sender = len(nodes)
					default:
						pr.sender = len(nodes) + 1
					}
					if rng.IntN(100) < 35 {
						pr.cnr = 1
					}
				}
				sigKind, objKind, envKind := 0, 0, 0
				if rng.IntN(100) >= 78 {
					sigKind = 1 + rng.IntN(len(vf31HistSigKinds)-1)
				}
				if rng.IntN(100) >= 75 {
					objKind = 1 + rng.IntN(len(vf31HistObjKinds)-1)
				}
				if rng.IntN(100) >= 80 {
					envKind = 1 + rng.IntN(len(vf31HistEnvKinds)-1)
				}
				scheme := rng.IntN(3)
				sender := senderKey(pr.sender)

				// the object
				objCnr := pr.cnr
				var mo *protoobject.Object
				objValid := true
				if objKind == 1 && len(sent[pr.cnr]) > 0 {
					mo = proto.Clone(sent[pr.cnr][rng.IntN(len(sent[pr.cnr]))]).(*protoobject.Object)
				} else {
					if objKind == 1 {
						objKind = 0
					}
					obj := object.New(cnrs[pr.cnr], ownerID)
					ver := version.Current()
					obj.SetVersion(&ver)
					obj.SetPayload(verifkit.RandBytes(rng, rng.IntN(64)))
					obj.SetPayloadSize(uint64(len(obj.Payload())))
					obj.SetCreationEpoch(epoch)
					if err := obj.SetVerificationFields(owner.signer(rng.IntN(2))); err != nil {
						r.Inconclusive("cannot finalise object: " + err.Error())
						return
					}
					mo = obj.ProtoMessage()
					switch objKind {
					case 0:
						sent[pr.cnr] = append(sent[pr.cnr], proto.Clone(mo).(*protoobject.Object))
					case 2:
						mo.Header.CreationEpoch++
						objValid = false
					case 3:
						mo.Payload = append(bytes.Clone(mo.Payload), 1)
						objValid = false
					case 4:
						objCnr = 1 - pr.cnr
						mo.Header.ContainerId = cnrs[objCnr].ProtoMessage()
						objValid = false
					}
				}

				// the request signature
				idBytes := mo.GetObjectId().GetValue()
				signed := idBytes
				if sigKind == 3 {
					other := verifkit.RandOID(rng)
					signed = other[:]
				}
				sigBytes, err := sender.signer(scheme).Sign(signed)
				if err != nil {
					r.Inconclusive("cannot sign request: " + err.Error())
					return
				}
				sig := &refs.Signature{Key: bytes.Clone(sender.pub), Sign: sigBytes, Scheme: refs.SignatureScheme(scheme)}
				switch sigKind {
				case 1:
					sig.Sign[rng.IntN(len(sig.Sign))] ^= 1 << rng.IntN(8)
				case 2:
					sig.Key[1+rng.IntN(32)] ^= 1 << rng.IntN(8)
				case 4:
					// somebody else's signature presented under the sender's key
					s2, _ := vf31NewKey(rng).signer(scheme).Sign(signed)
					sig.Sign = s2
				case 5:
					sig.Scheme = refs.SignatureScheme((scheme + 1 + rng.IntN(2)) % 3)
				}
				req := &protoobject.ReplicateRequest{Object: mo, Signature: sig}

				// faults of this one request
				chain.failSingle, chain.failTwoCur, chain.failTwoPrev, chain.manifested = nil, nil, nil, nil
				st.failWith, st.calls, st.lastObj, st.storedNow = nil, 0, nil, 0
				faultShape := ""
				switch envKind {
				case 1:
					st.failWith = apistatus.ErrBusy
				case 2:
					st.failWith = errors.New("verif: injected storage failure")
				case 3:
					chain.failSingle, faultShape = vf31Fault(rng)
					chain.failTwoCur, chain.failTwoPrev = chain.failSingle, chain.failSingle
				case 4:
					chain.failSingle, faultShape = vf31Fault(rng)
				case 5:
					chain.failTwoCur, faultShape = vf31Fault(rng)
					chain.failTwoPrev = chain.failTwoCur
				case 6:
					chain.failTwoPrev, faultShape = vf31Fault(rng)
				case 7:
					chain.failTwoCur, faultShape = vf31Fault(rng)
				}

				// reference: the statement on the truth of THIS epoch
				m := mem[objCnr]
				sigOK := vf31SigValid(idBytes, sig)
				senderIn := m.exists(epoch) && (m.in(epoch, sig.Key) || epoch > 0 && vf31Contains(m.at[epoch-1], sig.Key))
				localIn := m.in(epoch, local.pub)
				authorised := sigOK && senderIn && localIn
				mayStore := authorised && objValid && st.failWith == nil

				// what the history offers (from the reference's view of earlier requests)
				opr := pair{pr.sender, objCnr}
				senderState, localState := vf31MemberState(m.lastIn(epoch, sender.pub)), vf31MemberState(m.lastIn(epoch, local.pub))
				if !m.exists(epoch) {
					senderState, localState = "container-removed", "container-removed"
				}
				earlier := "no-earlier-request"
				if e, ok := refStoreEpoch[opr]; ok {
					earlier = "sender-accepted-earlier-in-this-epoch"
					if e < epoch {
						earlier = "sender-accepted-in-an-earlier-epoch"
					}
				} else if _, ok := refDenyEpoch[opr]; ok {
					earlier = "sender-only-refused-before"
				}
				if sigOK && localIn && !senderIn {
					if e, ok := refStoreEpoch[opr]; ok {
						// the sender was a legitimate replicator for this node earlier and is not any more
						r.Count("history_offered_sender_whose_membership_lapsed_after_accepted_request", 1)
						r.Seen("history_lapsed_sender_epochs_since_accepted_request", fmt.Sprint(min(epoch-e, 5)))
						r.Seen("history_lapsed_sender_states", senderState)
					}
				}
				if sigOK && senderIn && !localIn {
					if _, ok := cnrRefStoreEpoch[objCnr]; ok {
						r.Count("history_offered_request_after_local_node_left_container_it_stored_for", 1)
					}
				}
				if sigOK && senderIn && localIn {
					if _, ok := refDenyEpoch[opr]; ok {
						r.Count("history_offered_member_that_had_to_be_refused_earlier", 1)
					}
					if senderState == "member-in-previous-epoch-only" {
						r.Count("history_offered_sender_of_previous_epoch_only", 1)
					}
				}

				log = append(log, fmt.Sprintf("request %s -> %c: sig=%s/%d object=%s env=%s; sender %s, local node %s; reference: authorised=%v may-store=%v",
					senderName(pr.sender), 'A'+objCnr, vf31HistSigKinds[sigKind], scheme, vf31HistObjKinds[objKind], vf31HistEnvKinds[envKind], senderState, localState, authorised, mayStore))
				desc := map[string]any{"history": hi, "epoch": epoch, "request_no": len(log), "sender": senderName(pr.sender), "container": string(rune('A' + objCnr)),
					"signature": vf31HistSigKinds[sigKind], "scheme": scheme, "object": vf31HistObjKinds[objKind], "environment": vf31HistEnvKinds[envKind],
					"placement_fault_shape": faultShape, "sender_state": senderState, "local_node_state": localState, "earlier": earlier,
					"request_hex": vf31Hex(req), "history_so_far": append([]string{}, log...)}
				var resp *protoobject.ReplicateResponse
				var rerr error
				r.Eval(1)
				if r.Guard(desc, func() { resp, rerr = srv.Replicate(ctx, req) }) {
					continue
				}
				envName := vf31HistEnvKinds[envKind]
				accepted := vf31Judge(r, vf31Obs{pre: "history_", envName: envName, faultShape: faultShape, manifested: chain.manifested,
					sigOK: sigOK, hasHeader: true, senderIn: senderIn, localIn: localIn, authorised: authorised, mayStore: mayStore,
					stCalls: st.calls, storedNow: st.storedNow, lastObj: st.lastObj, mo: mo, resp: resp, rerr: rerr, desc: desc,
					shape:      fmt.Sprintf("history|sender=%s|local=%s|sig=%s|object=%s|env=%s|earlier=%s", senderState, localState, vf31HistSigKinds[sigKind], vf31HistObjKinds[objKind], envName, earlier),
					senderName: senderState, objName: vf31HistObjKinds[objKind], scheme: scheme})
				if accepted {
					log[len(log)-1] += " -> stored"
				} else {
					log[len(log)-1] += fmt.Sprintf(" -> status %v, stored %d", desc["status"], st.storedNow)
				}
				histSig += fmt.Sprintf("%s|%s|%s|%d|%d|%d;", senderState, localState, earlier, sigKind, objKind, envKind)
				r.Seen("history_request_situations", senderState+"|"+localState+"|"+earlier)

				if mayStore {
					refStoreEpoch[opr], cnrRefStoreEpoch[objCnr] = epoch, epoch
				} else if sigOK && !authorised {
					refDenyEpoch[opr] = epoch
				}
				if sigKind == 0 || sigKind == 3 {
					recent = append(recent, pr)
				}
			}
		}
		r.Distinct("history|" + histSig)
		if hi < 2 {
			r.Sample(map[string]any{"history": hi, "log": log})
		}
	}
	// the histories must have offered the situations that make a long-lived node different
	// from a fresh one (counted from the model, independent of the node's answers)
	for _, c := range []string{"history_offered_sender_whose_membership_lapsed_after_accepted_request",
		"history_offered_request_after_local_node_left_container_it_stored_for",
		"history_offered_member_that_had_to_be_refused_earlier", "history_offered_sender_of_previous_epoch_only"} {
		if r.Counter(c) < 10 {
			r.Inconclusive(fmt.Sprintf("histories: situation %s offered only %d times", c, r.Counter(c)))
		}
	}
	if r.SeenCount("history_lapsed_sender_epochs_since_accepted_request") < 3 {
		r.Inconclusive("histories: lapsed senders returned after fewer than 3 different epoch distances")
	}
	if r.Counter("history_accepted_and_stored") == 0 || r.SeenCount("history_accepted_schemes") < 3 {
		r.Inconclusive("histories: accepted replications not observed for every scheme")
	}
	if r.Counter("history_refused_though_all_conditions_hold") > 0 {
		r.Inconclusive(fmt.Sprintf("histories: %d fully valid replications were refused: baseline is broken", r.Counter("history_refused_though_all_conditions_hold")))
	}
}

func vf31Hex(req *protoobject.ReplicateRequest) string {
	b, err := proto.Marshal(req)
	if err != nil {
		return "unmarshalable: " + err.Error()
	}
	return hex.EncodeToString(b)
}

func vf31HexObj(m *protoobject.Object) []byte {
	b := make([]byte, m.MarshaledSize())
	m.MarshalStable(b)
	return b
}
