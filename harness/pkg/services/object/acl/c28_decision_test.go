//go:build verif

package acl

// C28 monitor: object access decisions follow basic ACL, sticky bit, eACL and bearer rules.
//
// Every case builds a small world (container with a random basic ACL mask and owner,
// stored eACL table or none, inner ring / container node key sets, an object with
// attributes that is or is not in the local storage, optional bearer token of several
// validity classes) and a really signed request of one of the object operations.  In a
// third of the worlds the group memberships overlap (user keys listed in the Inner Ring
// and/or among the container nodes, the Inner Ring key among the container nodes, the
// requester's own key in either list): the requester's role is then derived by the
// reference from the world facts, not assigned by the generator.  The
// request goes through the real pipeline pieces in the order the object server applies
// them: acl/v2.Service.VerifyBearerTokenMessage -> <Op>RequestToInfo (requester
// credentials, role classification, bearer applicability) -> Checker.CheckBasicACL ->
// Checker.StickyBitCheck (puts) -> Checker.CheckEACL on the request and, for GET/HEAD
// answers that were not decidable on the request alone, on the object header.
// The oracle is vf28Reference, a decision function written from the statement.

import (
	"bytes"
	"context"
	"crypto/ecdsa"
	"crypto/sha256"
	"encoding/json"
	"errors"
	"fmt"
	"math/big"
	"math/rand/v2"
	"os"
	"path/filepath"
	"strconv"
	"testing"
	"time"

	"github.com/nspcc-dev/bbolt"

	"github.com/nspcc-dev/neo-go/pkg/core/block"
	"github.com/nspcc-dev/neo-go/pkg/core/transaction"
	"github.com/nspcc-dev/neo-go/pkg/crypto/keys"
	"github.com/nspcc-dev/neo-go/pkg/neorpc/result"
	"github.com/nspcc-dev/neo-go/pkg/smartcontract/trigger"
	"github.com/nspcc-dev/neo-go/pkg/util"
	isessions "github.com/nspcc-dev/neofs-node/internal/sessions"
	"github.com/nspcc-dev/neofs-node/internal/verifkit"
	"github.com/nspcc-dev/neofs-node/pkg/local_object_storage/blobstor/fstree"
	"github.com/nspcc-dev/neofs-node/pkg/local_object_storage/engine"
	meta "github.com/nspcc-dev/neofs-node/pkg/local_object_storage/metabase"
	"github.com/nspcc-dev/neofs-node/pkg/local_object_storage/shard"
	v2 "github.com/nspcc-dev/neofs-node/pkg/services/object/acl/v2"
	"github.com/nspcc-dev/neofs-node/pkg/services/object/common"
	"github.com/nspcc-dev/neofs-sdk-go/bearer"
	"github.com/nspcc-dev/neofs-sdk-go/checksum"
	apistatus "github.com/nspcc-dev/neofs-sdk-go/client/status"
	"github.com/nspcc-dev/neofs-sdk-go/container"
	"github.com/nspcc-dev/neofs-sdk-go/container/acl"
	cid "github.com/nspcc-dev/neofs-sdk-go/container/id"
	neofscrypto "github.com/nspcc-dev/neofs-sdk-go/crypto"
	neofsecdsa "github.com/nspcc-dev/neofs-sdk-go/crypto/ecdsa"
	"github.com/nspcc-dev/neofs-sdk-go/eacl"
	"github.com/nspcc-dev/neofs-sdk-go/netmap"
	"github.com/nspcc-dev/neofs-sdk-go/object"
	oid "github.com/nspcc-dev/neofs-sdk-go/object/id"
	protoobject "github.com/nspcc-dev/neofs-sdk-go/proto/object"
	"github.com/nspcc-dev/neofs-sdk-go/proto/refs"
	protosession "github.com/nspcc-dev/neofs-sdk-go/proto/session"
	"github.com/nspcc-dev/neofs-sdk-go/user"
	"github.com/nspcc-dev/neofs-sdk-go/version"
)

// ---------------------------------------------------------------------------------------
// world fakes (environment, not oracle)

type vf28Key struct {
	priv *ecdsa.PrivateKey
	pub  []byte
	id   user.ID
}

func vf28NewKey(rng *rand.Rand) vf28Key {
	for {
		k, err := keys.NewPrivateKeyFromBytes(verifkit.RandBytes(rng, 32))
		if err != nil {
			continue
		}
		return vf28Key{priv: &k.PrivateKey, pub: k.PublicKey().Bytes(), id: user.NewFromECDSAPublicKey(k.PrivateKey.PublicKey)}
	}
}

type vf28World struct {
	epoch      uint64
	containers map[cid.ID]container.Container
	tables     map[cid.ID]*eacl.Table
	nodes      map[cid.ID]map[string]bool // container node keys of the current or previous epoch
	irKeys     [][]byte
	serverIn   bool
}

func (w *vf28World) Get(id cid.ID) (container.Container, error) {
	c, ok := w.containers[id]
	if !ok {
		return container.Container{}, apistatus.ErrContainerNotFound
	}
	return c, nil
}

func (w *vf28World) GetEACL(id cid.ID) (eacl.Table, error) {
	t := w.tables[id]
	if t == nil {
		return eacl.Table{}, apistatus.ErrEACLNotFound
	}
	return *t, nil
}

func (w *vf28World) InnerRingKeys() [][]byte { return w.irKeys }

func (w *vf28World) InContainerInLastTwoEpochs(id cid.ID, pub []byte) (bool, error) {
	return w.nodes[id][string(pub)], nil
}

func (w *vf28World) InvokeContainedScript(*transaction.Transaction, *block.Header, *trigger.Type, *bool) (*result.Invoke, error) {
	return nil, errors.New("verif: no N3 witnesses in this workload")
}
func (w *vf28World) HasUserInNNS(string, util.Uint160) (bool, error) { return false, nil }
func (w *vf28World) Epoch() (uint64, error)                          { return w.epoch, nil }
func (w *vf28World) CurrentEpoch() uint64                            { return w.epoch }
func (w *vf28World) ServerInContainer(cid.ID) (bool, error)          { return w.serverIn, nil }
func (w *vf28World) GetEpochBlock(uint64) (uint32, error)            { return 0, errors.New("verif: unused") }
func (w *vf28World) GetEpochBlockByTime(uint32) (uint32, error)      { return 0, errors.New("verif: unused") }
func (w *vf28World) NetMap() (*netmap.NetMap, error)                 { return nil, errors.New("verif: unused") }
func (w *vf28World) GetNetMapByEpoch(uint64) (*netmap.NetMap, error) { return nil, errors.New("verif: unused") }
func (w *vf28World) Now() time.Time                                  { return time.Unix(1_700_000_000, 0) }
func (w *vf28World) Head(context.Context, oid.Address) (*object.Object, error) {
	return nil, errors.New("verif: no remote header source")
}

// ---------------------------------------------------------------------------------------
// reference decision (from the statement and the NeoFS definitions of its terms)

const (
	vf28RoleOwner = iota
	vf28RoleIR
	vf28RoleContainer
	vf28RoleOthers
)

var vf28RoleNames = [...]string{"owner", "inner-ring", "container", "others"}

// ops in basic ACL nibble order (lowest nibble first)
var vf28Ops = [...]acl.Op{acl.OpObjectGet, acl.OpObjectHead, acl.OpObjectPut, acl.OpObjectDelete, acl.OpObjectSearch, acl.OpObjectRange, acl.OpObjectHash}

func vf28OpIndex(op acl.Op) uint {
	for i, o := range vf28Ops {
		if o == op {
			return uint(i)
		}
	}
	panic("unknown op")
}

// vf28BasicAllows: 32-bit basic ACL = [..|X sticky(29)|F final(28)|7 nibbles hash,range,
// search,delete,put,head,get]; nibble bits U(3) owner, S(2) system, O(1) others, B(0)
// bearer.  Inner ring may only read metadata-ish ops (get/head/search/hash); container
// nodes may always do the replication ops (get/head/put/search/hash), the S bit governs
// the rest.
func vf28BasicAllows(bits uint32, op acl.Op, role int) bool {
	nib := bits >> (4 * vf28OpIndex(op)) & 0xF
	switch role {
	case vf28RoleOwner:
		return nib&8 != 0
	case vf28RoleOthers:
		return nib&2 != 0
	case vf28RoleIR:
		return op == acl.OpObjectGet || op == acl.OpObjectHead || op == acl.OpObjectSearch || op == acl.OpObjectHash
	default:
		if op == acl.OpObjectDelete || op == acl.OpObjectRange {
			return nib&4 != 0
		}
		return true
	}
}

func vf28BearerBit(bits uint32, op acl.Op) bool { return bits>>(4*vf28OpIndex(op))&1 != 0 }
func vf28Final(bits uint32) bool                 { return bits>>28&1 != 0 }
func vf28Sticky(bits uint32) bool                { return bits>>29&1 != 0 }

type vf28Hdr struct{ k, v string }

func vf28FilterHolds(f eacl.Filter, reqHdrs, objHdrs []vf28Hdr) bool {
	var hs []vf28Hdr
	switch f.From() {
	case eacl.HeaderFromRequest:
		hs = reqHdrs
	case eacl.HeaderFromObject:
		hs = objHdrs
	}
	var vals []string
	for _, h := range hs {
		if h.k == f.Key() {
			vals = append(vals, h.v)
		}
	}
	m := f.Matcher()
	if m == eacl.MatchNotPresent {
		return len(vals) == 0
	}
	for _, v := range vals {
		switch m {
		case eacl.MatchStringEqual:
			if v == f.Value() {
				return true
			}
		case eacl.MatchStringNotEqual:
			if v != f.Value() {
				return true
			}
		case eacl.MatchNumGT, eacl.MatchNumGE, eacl.MatchNumLT, eacl.MatchNumLE:
			a, ok1 := new(big.Int).SetString(v, 10)
			b, ok2 := new(big.Int).SetString(f.Value(), 10)
			if !ok1 || !ok2 {
				continue
			}
			c := a.Cmp(b)
			if m == eacl.MatchNumGT && c > 0 || m == eacl.MatchNumGE && c >= 0 || m == eacl.MatchNumLT && c < 0 || m == eacl.MatchNumLE && c <= 0 {
				return true
			}
		}
	}
	return false
}

// vf28TableDenies: the first record whose operation, target and all filters match the
// request decides; without a matching record the table does not deny.
func vf28TableDenies(t *eacl.Table, op acl.Op, role int, key []byte, acc user.ID, reqHdrs, objHdrs []vf28Hdr) (bool, int) {
	for i, rec := range t.Records() {
		if uint32(rec.Operation()) != uint32(op) {
			continue
		}
		match := false
		for _, tg := range rec.Targets() {
			subjects := false
			for _, k := range tg.RawSubjects() {
				subjects = true
				if bytes.Equal(k, key) || bytes.Equal(k, acc[:]) {
					match = true
				}
			}
			if subjects {
				continue
			}
			if tg.Role() == eacl.RoleUser && role == vf28RoleOwner || tg.Role() == eacl.RoleOthers && role == vf28RoleOthers {
				match = true
			}
		}
		if !match {
			continue
		}
		all := true
		for _, f := range rec.Filters() {
			if !vf28FilterHolds(f, reqHdrs, objHdrs) {
				all = false
				break
			}
		}
		if all {
			return rec.Action() == eacl.ActionDeny, i
		}
	}
	return false, -1
}

type vf28Bearer struct {
	Class      string `json:"class"`
	signedOK   bool   // correctly signed by the claimed issuer
	inLifetime bool
	issuer     user.ID
	tableCID   cid.ID // zero = any container
	forUser    user.ID
	table      *eacl.Table
}

type vf28Case struct {
	cnr       cid.ID
	bits      uint32
	owner     user.ID
	stored    *eacl.Table
	role      int
	altRole   int  // second system role of a requester that is both inner ring and container node, else -1
	tombPut   bool // a tombstone is being put (deletion unless replicated by a container node)
	reqKey    []byte
	reqAcc    user.ID
	op        acl.Op // operation the basic ACL / eACL are asked about
	isPut     bool
	ttl       uint32
	objOwner  user.ID
	reqHdrs   []vf28Hdr
	objHdrs   []vf28Hdr // headers the protocol makes available for this operation
	bearerTok *vf28Bearer
}

// vf28Reference returns whether the statement permits serving the request, and why not.
func vf28Reference(c *vf28Case) (bool, string) {
	if !vf28BasicAllows(c.bits, c.op, c.role) {
		return false, "basic-acl"
	}
	// sticky: container nodes re-put objects of users during replication; NeoFS defines
	// the sticky bit as not applying to them
	if c.isPut && vf28Sticky(c.bits) && c.role != vf28RoleContainer && c.objOwner != c.reqAcc {
		return false, "sticky"
	}
	if vf28Final(c.bits) || c.role == vf28RoleIR || c.role == vf28RoleContainer {
		return true, "" // eACL is defined for the user and others groups only
	}
	table, src := c.stored, "stored"
	if b := c.bearerTok; b != nil && b.signedOK && b.inLifetime && b.issuer == c.owner &&
		(b.tableCID.IsZero() || b.tableCID == c.cnr) && (b.forUser.IsZero() || b.forUser == c.reqAcc) && vf28BearerBit(c.bits, c.op) {
		table, src = b.table, "bearer"
	}
	if table == nil {
		return true, ""
	}
	if deny, i := vf28TableDenies(table, c.op, c.role, c.reqKey, c.reqAcc, c.reqHdrs, c.objHdrs); deny {
		return false, fmt.Sprintf("eacl-%s-record", src) + strconv.Itoa(min(i, 9))
	}
	return true, ""
}

// vf28RoleOf derives the requester's role from the world facts.  NeoFS API: the USER rules
// apply "if sender is the owner of the container", SYSTEM "if sender is a storage node
// within the container or an inner ring node", OTHERS "if sender is neither" - so being
// the owner decides first and others is what remains.  Which of the two system roles a
// key that is both an Inner Ring and a container node key gets is not defined by the
// statement: the second one is returned as alternative (-1 if none).
func vf28RoleOf(isOwner, isIR, isNode bool) (int, int) {
	switch {
	case isOwner:
		return vf28RoleOwner, -1
	case isIR && isNode:
		return vf28RoleIR, vf28RoleContainer
	case isIR:
		return vf28RoleIR, -1
	case isNode:
		return vf28RoleContainer, -1
	}
	return vf28RoleOthers, -1
}

// vf28OpFor: putting a tombstone is a deletion unless a container node replicates an
// already accepted one (TTL 1), which is a put.
func vf28OpFor(op acl.Op, tombPut bool, role int, ttl uint32) acl.Op {
	if tombPut {
		if role == vf28RoleContainer && ttl == 1 {
			return acl.OpObjectPut
		}
		return acl.OpObjectDelete
	}
	return op
}

// vf28ReferenceAny is vf28Reference for a requester whose role the statement leaves open
// between two system roles: forbidden only if forbidden under both.
func vf28ReferenceAny(c *vf28Case) (bool, string, bool) {
	allow, why := vf28Reference(c)
	if c.altRole < 0 {
		return allow, why, false
	}
	alt := *c
	alt.role, alt.altRole = c.altRole, -1
	alt.op = vf28OpFor(c.op, c.tombPut, alt.role, c.ttl)
	a2, _ := vf28Reference(&alt)
	if a2 && !allow {
		return true, "", true
	}
	return allow, why, a2 != allow
}

func vf28HasKey(ks [][]byte, k []byte) bool {
	for i := range ks {
		if bytes.Equal(ks[i], k) {
			return true
		}
	}
	return false
}

// ---------------------------------------------------------------------------------------
// generators

var (
	vf28AttrKeys = []string{"a", "b", "n"}
	vf28Values   = []string{"x", "y", "1", "10", "-5", "abc", "007", ""}
	vf28XKeys    = []string{"x1", "x2"}
)

func vf28RandTable(rng *rand.Rand, c *vf28Case, others []vf28Key, objID oid.ID) *eacl.Table {
	n := 1 + rng.IntN(4)
	recs := make([]eacl.Record, 0, n)
	if rng.IntN(4) == 0 && (c.role == vf28RoleOwner || c.role == vf28RoleOthers) {
		// directed record: aimed at this very request (operation, requester group and
		// filters that hold for the object / request headers at hand)
		action := eacl.ActionDeny
		if rng.IntN(4) == 0 {
			action = eacl.ActionAllow
		}
		tg := eacl.NewTargetByRole(eacl.RoleOthers)
		if c.role == vf28RoleOwner {
			tg = eacl.NewTargetByRole(eacl.RoleUser)
		}
		var fs []eacl.Filter
		if len(c.objHdrs) > 0 && rng.IntN(3) != 0 {
			h := c.objHdrs[rng.IntN(len(c.objHdrs))]
			fs = append(fs, eacl.NewObjectPropertyFilter(h.k, eacl.MatchStringEqual, h.v))
		}
		if len(c.reqHdrs) > 0 && rng.IntN(2) == 0 {
			h := c.reqHdrs[rng.IntN(len(c.reqHdrs))]
			fs = append(fs, eacl.NewRequestHeaderFilter(h.k, eacl.MatchStringEqual, h.v))
		} else if rng.IntN(4) == 0 {
			fs = append(fs, eacl.NewRequestHeaderFilter("x-absent", eacl.MatchNotPresent, ""))
		}
		recs = append(recs, eacl.ConstructRecord(action, eacl.Operation(c.op), []eacl.Target{tg}, fs...))
	}
	for i := 0; i < n; i++ {
		action := eacl.ActionDeny
		if rng.IntN(3) == 0 {
			action = eacl.ActionAllow
		}
		op := eacl.Operation(c.op)
		if rng.IntN(4) == 0 {
			op = eacl.Operation(1 + rng.IntN(7))
		}
		var tgs []eacl.Target
		for j := 1 + rng.IntN(2); j > 0; j-- {
			switch rng.IntN(6) {
			case 0:
				tgs = append(tgs, eacl.NewTargetByRole(eacl.RoleUser))
			case 1, 2:
				tgs = append(tgs, eacl.NewTargetByRole(eacl.RoleOthers))
			case 3:
				var tg eacl.Target
				ks := [][]byte{others[rng.IntN(len(others))].pub}
				if rng.IntN(2) == 0 {
					ks = append(ks, c.reqKey)
				}
				tg.SetRawSubjects(ks)
				if rng.IntN(2) == 0 {
					tg.SetRole(eacl.RoleOthers) // role next to keys must not widen the target
				}
				tgs = append(tgs, tg)
			case 4:
				accs := []user.ID{others[rng.IntN(len(others))].id}
				if rng.IntN(2) == 0 {
					accs = append(accs, c.reqAcc)
				}
				tgs = append(tgs, eacl.NewTargetByAccounts(accs))
			default:
				tgs = append(tgs, eacl.NewTargetByRole(eacl.RoleSystem))
			}
		}
		var fs []eacl.Filter
		for j := rng.IntN(3); j > 0; j-- {
			m := eacl.Match(1 + rng.IntN(7))
			// "$Object:" keys: string (in)equality only, numeric matchers only for
			// creationEpoch / payloadLength, never NOT_PRESENT (API definition)
			sm := eacl.Match(1 + rng.IntN(2))
			nm := sm
			if rng.IntN(2) == 0 {
				nm = eacl.Match(4 + rng.IntN(4))
			}
			val := vf28Values[rng.IntN(len(vf28Values))]
			switch rng.IntN(10) {
			case 0, 1, 2:
				fs = append(fs, eacl.NewObjectPropertyFilter(vf28AttrKeys[rng.IntN(len(vf28AttrKeys))], m, val))
			case 3, 4:
				fs = append(fs, eacl.NewRequestHeaderFilter(vf28XKeys[rng.IntN(len(vf28XKeys))], m, val))
			case 5:
				own := c.objOwner
				if rng.IntN(2) == 0 {
					own = others[rng.IntN(len(others))].id
				}
				fs = append(fs, eacl.NewObjectPropertyFilter(eacl.FilterObjectOwnerID, sm, own.EncodeToString()))
			case 6:
				fs = append(fs, eacl.NewObjectPropertyFilter(eacl.FilterObjectCreationEpoch, nm, strconv.Itoa(rng.IntN(6))))
			case 7:
				fs = append(fs, eacl.NewObjectPropertyFilter(eacl.FilterObjectPayloadSize, nm, strconv.Itoa(rng.IntN(40))))
			case 8:
				id := objID
				if rng.IntN(2) == 0 {
					id = verifkit.RandOID(rng)
				}
				fs = append(fs, eacl.NewObjectPropertyFilter(eacl.FilterObjectID, sm, id.EncodeToString()))
			default:
				if rng.IntN(2) == 0 {
					fs = append(fs, eacl.NewObjectPropertyFilter(eacl.FilterObjectContainerID, sm, c.cnr.EncodeToString()))
				} else {
					fs = append(fs, eacl.NewCustomServiceFilter("svc", m, val))
				}
			}
		}
		recs = append(recs, eacl.ConstructRecord(action, op, tgs, fs...))
	}
	t := eacl.ConstructTable(recs)
	return &t
}

var vf28Presets = []acl.Basic{acl.Private, acl.PrivateExtended, acl.PublicRO, acl.PublicROExtended, acl.PublicRW, acl.PublicRWExtended, acl.PublicAppend, acl.PublicAppendExtended}

func vf28RandBits(rng *rand.Rand) uint32 {
	switch rng.IntN(10) {
	case 0, 1:
		return vf28Presets[rng.IntN(len(vf28Presets))].Bits()
	case 2, 3, 4:
		b := vf28Presets[rng.IntN(len(vf28Presets))].Bits()
		for i := 1 + rng.IntN(3); i > 0; i-- {
			b ^= 1 << rng.IntN(30)
		}
		return b
	case 5, 6:
		// permissive and extendable: the eACL decides
		b := uint32(0x0FFFFFFF)
		if rng.IntN(3) == 0 {
			b |= 1 << 29
		}
		for i := rng.IntN(3); i > 0; i-- {
			b ^= 1 << rng.IntN(28)
		}
		return b
	default:
		return rng.Uint32() & 0x3FFFFFFF
	}
}

type vf28OpKind struct {
	name string
	op   acl.Op
}

var vf28OpKinds = []vf28OpKind{
	{"GET", acl.OpObjectGet}, {"HEAD", acl.OpObjectHead}, {"PUT", acl.OpObjectPut}, {"PUT-tombstone", acl.OpObjectDelete},
	{"DELETE", acl.OpObjectDelete}, {"SEARCH", acl.OpObjectSearch}, {"RANGE", acl.OpObjectRange}, {"HASH(checker only)", acl.OpObjectHash},
}

// ---------------------------------------------------------------------------------------
// the monitor

func TestVerif_C28(t *testing.T) {
	r := verifkit.Start(t, "C28", "exploration")
	defer r.Finish()
	r.SetRule("case = container (random/preset/perturbed 30-bit basic ACL mask incl. sticky and final bits, owner), stored eACL table (1-4 records: action, op, role/key/account targets, 0-2 filters over object attributes, system object properties, request X-headers with all 7 matchers) or none, requester in {owner, other user, inner ring key, container node key} whose key is in 1/3 of the worlds additionally listed in the Inner Ring and/or among the container nodes (overlapping group memberships: owner+IR, owner+node, owner+IR+node, IR+node, user key that is IR/node; role derived from the world by the reference), op kind in {GET, HEAD, PUT, PUT-tombstone, DELETE, SEARCH, RANGE, HASH}, object owned by requester or not with random attributes, stored locally or not, bearer token absent or of class {ok, ok-any-user, ok-this-container, foreign-issuer, spoofed-issuer, other-container, other-user, expired, not-yet-valid, bad-signature}; distinct = (mask class bits for op, sticky, final, role, group memberships, op kind, local, bearer class, stored/bearer table shape, code verdict, reference verdict); non-trivial = all")
	r.Assume("the order of the checks replicates pkg/services/object/server.go handlers (C29 monitors that the handlers really call them)")
	r.Assume("eACL does not apply to inner ring / container nodes and the sticky bit does not apply to container nodes (NeoFS definitions the statement does not spell out)")
	r.Assume("a requester that is the container owner has the owner role whatever other lists its key is in (NeoFS API: USER rules apply 'if sender is the owner of the container', OTHERS 'if neither user nor system'); for a key that is both Inner Ring and container node the statement fixes no precedence: forbidden only if forbidden under both roles")
	r.Assume("object-header filters see the headers the protocol defines for the operation: full header for GET/HEAD/PUT, container+object ID for RANGE/DELETE, container ID for SEARCH")

	nCases := r.Pick(9000, 150000)

	prng := r.Rand("pool", 0)
	usersPool := make([]vf28Key, 4)
	for i := range usersPool {
		usersPool[i] = vf28NewKey(prng)
	}
	irKey, nodeCur, nodePrev := vf28NewKey(prng), vf28NewKey(prng), vf28NewKey(prng)

	w := &vf28World{epoch: 10, containers: map[cid.ID]container.Container{}, tables: map[cid.ID]*eacl.Table{}, nodes: map[cid.ID]map[string]bool{}, irKeys: [][]byte{irKey.pub}}

	dir := filepath.Join(t.TempDir(), "storage")
	storage := engine.New()
	if _, err := storage.AddShard(
		shard.WithBlobstor(fstree.New(fstree.WithPath(filepath.Join(dir, "fstree")), fstree.WithNoSync(true))),
		shard.WithMetaBaseOptions(meta.WithPath(filepath.Join(dir, "metabase")), meta.WithEpochState(w), meta.WithBoltDBOptions(&bbolt.Options{NoSync: true})),
	); err != nil {
		r.Inconclusive("cannot add shard: " + err.Error())
		return
	}
	if err := storage.Init(); err != nil {
		r.Inconclusive("cannot init storage: " + err.Error())
		return
	}
	defer storage.Close()

	svc := v2.New(w, isessions.NewObjectSessionsCache(16), v2.WithContainerSource(w), v2.WithNetmapper(w), v2.WithIRFetcher(w), v2.WithTimeProvider(w))
	checker := NewChecker(new(CheckerPrm).SetLocalStorage(storage).SetValidator(eacl.NewValidator()).SetEACLSource(w).SetHeaderSource(w))
	ctx := context.Background()

	for ci := 0; ci < nCases; ci++ {
		rng := r.Rand("case", ci)
		c := &vf28Case{cnr: verifkit.RandCID(rng), bits: vf28RandBits(rng)}
		ownerKey := usersPool[rng.IntN(len(usersPool))]
		c.owner = ownerKey.id
		var others []vf28Key
		for _, u := range usersPool {
			if u.id != c.owner {
				others = append(others, u)
			}
		}
		var reqK vf28Key
		switch rng.IntN(20) {
		case 0, 1, 2, 3, 4:
			reqK, c.role = ownerKey, vf28RoleOwner
		case 5, 6:
			reqK, c.role = irKey, vf28RoleIR
		case 7, 8:
			reqK, c.role = nodeCur, vf28RoleContainer
		case 9:
			reqK, c.role = nodePrev, vf28RoleContainer
		default:
			reqK, c.role = others[rng.IntN(len(others))], vf28RoleOthers
		}
		c.reqKey, c.reqAcc = reqK.pub, reqK.id

		// group membership lists of this world; in a third of the worlds they overlap.
		// Own random stream: the rest of the case does not depend on the overlap draw.
		ovr := r.Rand("overlap", ci)
		irKeys := [][]byte{irKey.pub}
		nodeKeys := map[string]bool{string(nodeCur.pub): true, string(nodePrev.pub): true}
		if ovr.IntN(3) == 0 {
			for _, u := range usersPool {
				if ovr.IntN(3) == 0 {
					irKeys = append(irKeys, u.pub)
				}
				if ovr.IntN(3) == 0 {
					nodeKeys[string(u.pub)] = true
				}
			}
			if ovr.IntN(2) == 0 {
				irKeys = append(irKeys, reqK.pub)
			}
			if ovr.IntN(2) == 0 {
				nodeKeys[string(reqK.pub)] = true
			}
			if ovr.IntN(4) == 0 {
				irKeys = append(irKeys, nodeCur.pub)
			}
			if ovr.IntN(4) == 0 {
				nodeKeys[string(irKey.pub)] = true
			}
			ovr.Shuffle(len(irKeys), func(i, j int) { irKeys[i], irKeys[j] = irKeys[j], irKeys[i] })
		}
		isOwner, isIR, isNode := reqK.id == c.owner, vf28HasKey(irKeys, reqK.pub), nodeKeys[string(reqK.pub)]
		nominal := c.role
		c.role, c.altRole = vf28RoleOf(isOwner, isIR, isNode)
		member := ""
		for i, in := range []bool{isOwner, isIR, isNode} {
			if in {
				if member != "" {
					member += "+"
				}
				member += vf28RoleNames[i]
			}
		}
		if member == "" {
			member = vf28RoleNames[vf28RoleOthers]
		}

		kind := vf28OpKinds[rng.IntN(len(vf28OpKinds))]
		c.isPut = kind.name == "PUT" || kind.name == "PUT-tombstone"
		c.tombPut = kind.name == "PUT-tombstone"
		c.ttl = uint32(1 + rng.IntN(2))
		c.op = vf28OpFor(kind.op, c.tombPut, c.role, c.ttl)

		// the object
		c.objOwner = c.reqAcc
		if rng.IntN(2) == 0 {
			c.objOwner = usersPool[rng.IntN(len(usersPool))].id
		}
		obj := object.New(c.cnr, c.objOwner)
		ver := version.Current()
		obj.SetVersion(&ver)
		objID := verifkit.RandOID(rng)
		obj.SetID(objID)
		payload := verifkit.RandBytes(rng, rng.IntN(40))
		obj.SetPayload(payload)
		obj.SetPayloadSize(uint64(len(payload)))
		obj.SetPayloadChecksum(checksum.NewSHA256(sha256.Sum256(payload)))
		obj.SetCreationEpoch(uint64(rng.IntN(6)))
		typ := object.TypeRegular
		if kind.name == "PUT-tombstone" {
			typ = object.TypeTombstone
		}
		obj.SetType(typ)
		var attrs []object.Attribute
		full := []vf28Hdr{
			{eacl.FilterObjectContainerID, c.cnr.EncodeToString()}, {eacl.FilterObjectID, objID.EncodeToString()},
			{eacl.FilterObjectOwnerID, c.objOwner.EncodeToString()}, {eacl.FilterObjectCreationEpoch, strconv.FormatUint(obj.CreationEpoch(), 10)},
			{eacl.FilterObjectPayloadSize, strconv.Itoa(len(payload))},
		}
		for _, k := range vf28AttrKeys {
			if rng.IntN(2) == 0 {
				v := vf28Values[rng.IntN(len(vf28Values)-1)] // attribute values are non-empty
				attrs = append(attrs, object.NewAttribute(k, v))
				full = append(full, vf28Hdr{k, v})
			}
		}
		obj.SetAttributes(attrs...)
		switch kind.name {
		case "GET", "HEAD", "PUT", "PUT-tombstone":
			c.objHdrs = full
		case "DELETE", "RANGE", "HASH(checker only)":
			c.objHdrs = full[:2]
		case "SEARCH":
			c.objHdrs = full[:1]
		}
		local := (kind.name == "GET" || kind.name == "HEAD") && rng.IntN(2) == 0
		if local {
			if err := storage.Put(ctx, obj, nil); err != nil {
				r.Inconclusive("cannot store object locally: " + err.Error())
				return
			}
		}

		// request meta
		metaHdr := &protosession.RequestMetaHeader{Version: &refs.Version{Major: 2, Minor: 25}, Ttl: c.ttl}
		for _, k := range vf28XKeys {
			if rng.IntN(2) == 0 {
				v := vf28Values[rng.IntN(len(vf28Values))]
				metaHdr.XHeaders = append(metaHdr.XHeaders, &protosession.XHeader{Key: k, Value: v})
				c.reqHdrs = append(c.reqHdrs, vf28Hdr{k, v})
			}
		}

		// stored table
		storedShape := "none"
		if rng.IntN(4) != 0 {
			c.stored = vf28RandTable(rng, c, others, objID)
			storedShape = fmt.Sprintf("%drec", len(c.stored.Records()))
		}

		// bearer token
		if rng.IntN(2) == 0 {
			b := &vf28Bearer{signedOK: true, inLifetime: true, issuer: c.owner, table: vf28RandTable(rng, c, others, objID)}
			signer := user.NewAutoIDSignerRFC6979(*ownerKey.priv)
			var tok bearer.Token
			tok.SetIat(5)
			tok.SetNbf(8)
			tok.SetExp(12)
			cls := rng.IntN(13)
			switch cls {
			case 0, 1, 2:
				b.Class = "ok"
				b.forUser = c.reqAcc
			case 3:
				b.Class = "ok-any-user"
			case 4:
				b.Class = "ok-this-container"
				b.tableCID = c.cnr
				b.forUser = c.reqAcc
			case 5:
				b.Class = "foreign-issuer"
				fk := others[rng.IntN(len(others))]
				signer = user.NewAutoIDSignerRFC6979(*fk.priv)
				b.issuer = fk.id
			case 6:
				b.Class = "spoofed-issuer" // claims the owner, signed by somebody else
				fk := others[rng.IntN(len(others))]
				signer = user.NewSigner(neofsecdsa.SignerRFC6979(*fk.priv), c.owner)
				b.signedOK = false
			case 7:
				b.Class = "other-container"
				b.tableCID = verifkit.RandCID(rng)
			case 8:
				b.Class = "other-user"
				b.forUser = others[rng.IntN(len(others))].id
				if b.forUser == c.reqAcc {
					b.forUser = ownerKey.id
					if b.forUser == c.reqAcc {
						b.Class = "ok"
					}
				}
			case 9:
				b.Class = "expired"
				tok.SetExp(9)
				b.inLifetime = false
			case 10:
				b.Class = "not-yet-valid"
				tok.SetNbf(11)
				b.inLifetime = false
			case 11:
				b.Class = "bad-signature"
				b.signedOK = false
			default:
				b.Class = "boundary-lifetime" // nbf == current == exp
				tok.SetNbf(10)
				tok.SetExp(10)
			}
			if !b.tableCID.IsZero() {
				b.table.SetCID(b.tableCID)
			}
			tok.SetEACLTable(*b.table)
			if !b.forUser.IsZero() {
				tok.ForUser(b.forUser)
			}
			if err := tok.Sign(signer); err != nil {
				r.Inconclusive("cannot sign bearer token: " + err.Error())
				return
			}
			metaHdr.BearerToken = tok.ProtoMessage()
			if b.Class == "bad-signature" {
				s := metaHdr.BearerToken.Signature.Sign
				s[rng.IntN(len(s))] ^= 1 << rng.IntN(8)
			}
			c.bearerTok = b
		}

		// world
		cnr := container.Container{}
		cnr.SetOwner(c.owner)
		var basic acl.Basic
		basic.FromBits(c.bits)
		cnr.SetBasicACL(basic)
		w.containers = map[cid.ID]container.Container{c.cnr: cnr}
		w.tables = map[cid.ID]*eacl.Table{c.cnr: c.stored}
		w.nodes = map[cid.ID]map[string]bool{c.cnr: nodeKeys}
		w.irKeys = irKeys
		w.serverIn = rng.IntN(2) == 0

		// the request
		addr := &refs.Address{ContainerId: c.cnr.ProtoMessage(), ObjectId: objID.ProtoMessage()}
		signer := neofsecdsa.SignerRFC6979(*reqK.priv)
		mo := obj.ProtoMessage()
		hdrBin := make([]byte, mo.Header.MarshaledSize())
		mo.Header.MarshalStable(hdrBin)

		desc := map[string]any{"case": ci, "basic_acl": fmt.Sprintf("%08x", c.bits), "role": vf28RoleNames[c.role], "requester_is": member, "inner_ring_keys": len(irKeys), "container_node_keys": len(nodeKeys), "op": kind.name, "ttl": c.ttl,
			"object_owner_is_requester": c.objOwner == c.reqAcc, "object_local": local, "object_headers": fmt.Sprint(c.objHdrs), "request_headers": fmt.Sprint(c.reqHdrs),
			"stored_table": vf28TableJSON(c.stored), "bearer": c.bearerTok, "bearer_table": vf28TableJSON(vf28BearerTable(c.bearerTok))}

		served, stage := false, ""
		panicked := r.Guard(desc, func() {
			served, stage = vf28Serve(ctx, &svc, checker, c, kind.name, metaHdr, addr, mo, hdrBin, signer, rng.IntN(2) == 0)
		})
		r.Eval(1)
		if panicked {
			continue
		}
		allow, why, roleDecides := vf28ReferenceAny(c)
		if roleDecides {
			r.Count("verdict_depends_on_which_system_role_ir_or_node", 1)
		}
		if !allow && kind.name == "SEARCH" {
			// which object headers a SEARCH exposes (none / the container ID) is left open
			alt := *c
			alt.objHdrs = nil
			if a, _, _ := vf28ReferenceAny(&alt); a {
				allow, why = true, ""
				r.Count("search_verdict_depends_on_container_id_header", 1)
			}
		}
		if member != vf28RoleNames[nominal] {
			r.Count("membership_"+member, 1)
			// would the verdict differ had the requester been given another of its groups' roles?
			for i, in := range []bool{isOwner, isIR, isNode} {
				if !in || i == c.role || i == c.altRole {
					continue
				}
				alt := *c
				alt.role, alt.altRole = i, -1
				alt.op = vf28OpFor(kind.op, c.tombPut, i, c.ttl)
				if a, _ := vf28Reference(&alt); a != allow {
					r.Count("overlap_role_precedence_decides_verdict", 1)
					r.Seen("overlap_precedence_decisive_for", member+"|"+kind.name)
					break
				}
			}
		}
		nib := c.bits >> (4 * vf28OpIndex(c.op)) & 0xF
		bclass := "none"
		if c.bearerTok != nil {
			bclass = c.bearerTok.Class
		}
		r.Distinct(fmt.Sprintf("%x|%t|%t|%d|%s|%s|%t|%s|%s|%s|%t|%s", nib, vf28Sticky(c.bits), vf28Final(c.bits), c.role, member, kind.name, local, bclass, storedShape, stage, served, why))
		r.Count("op_"+kind.name, 1)
		r.Count("role_"+vf28RoleNames[c.role], 1)
		roleName := vf28RoleNames[c.role]
		if member != roleName {
			roleName += "(is " + member + ")"
		}
		r.Count("bearer_"+bclass, 1)
		if ci < 4 {
			r.Sample(map[string]any{"case": desc, "code_served": served, "code_stage": stage, "reference_allows": allow, "reference_reason": why})
		}
		switch {
		case served && !allow:
			whyClass := why
			if len(why) > 5 && why[:5] == "eacl-" {
				whyClass = why[:len(why)-1] // drop the record index
			}
			key := fmt.Sprintf("served-but-forbidden|%s|%s|%s|bearer=%s|stage=%s", whyClass, kind.name, roleName, bclass, stage)
			if stage == "served-after-eacl-header-binary" {
				// diagnosis by counterfactual: would the table also pass if the request carried no X-headers?
				alt := *c
				alt.reqHdrs = nil
				if a, _ := vf28Reference(&alt); a {
					key = "served-but-forbidden|eacl|request-xheaders-invisible-at-binary-header-recheck|" + kind.name
				}
			}
			r.Violation(key, fmt.Sprintf("request served although the reference decision forbids it (%s)", why), desc)
		case served:
			r.Count("served_allowed", 1)
			r.Seen("served_stages", stage)
		case allow:
			r.Count("code_stricter_than_reference", 1)
			if len(stage) > 4 && stage[:4] == "eacl" || stage == "basic-acl" || stage == "sticky" {
				r.Seen("code_stricter_in_checker_cases", strconv.Itoa(ci))
				if os.Getenv("VERIF_C28_DUMP") == strconv.Itoa(ci) {
					b, _ := json.MarshalIndent(desc, "", " ")
					fmt.Printf("C28-DUMP case %d stage=%s\n%s\n", ci, stage, b)
				}
			}
			r.Seen("code_stricter_at", stage+"|bearer="+bclass)
		default:
			r.Count("denied_both", 1)
			r.Seen("reference_deny_reasons", why)
			r.Seen("code_deny_stages", stage)
			if stage[:4] != why[:4] {
				r.Count("denied_both_different_stage", 1)
			}
		}
	}
	if r.SeenCount("reference_deny_reasons") < 3 {
		r.Inconclusive("fewer than 3 kinds of denied requests observed")
	}
	if r.Counter("overlap_role_precedence_decides_verdict") == 0 {
		r.Inconclusive("no request of a requester with overlapping group memberships whose verdict depends on the role precedence observed")
	}
	if r.Counter("served_allowed") == 0 {
		r.Inconclusive("no served request observed")
	}
}

func vf28BearerTable(b *vf28Bearer) *eacl.Table {
	if b == nil {
		return nil
	}
	return b.table
}

func vf28TableJSON(t *eacl.Table) any {
	if t == nil {
		return nil
	}
	b, err := t.MarshalJSON()
	if err != nil {
		return err.Error()
	}
	return string(b)
}

// vf28Serve pushes one request through the real components in the server's order and
// reports whether it would be served and which stage refused it.
func vf28Serve(ctx context.Context, svc *v2.Service, checker *Checker, c *vf28Case, kind string, metaHdr *protosession.RequestMetaHeader,
	addr *refs.Address, mo *protoobject.Object, hdrBin []byte, signer neofscrypto.Signer, headRespMsg bool) (bool, string) {
	var tokens common.RequestTokens
	if metaHdr.BearerToken != nil {
		bt, err := svc.VerifyBearerTokenMessage(metaHdr.BearerToken)
		if err != nil {
			return false, "bearer-verification"
		}
		tokens.Bearer = &bt
	}
	objID := *new(oid.ID)
	_ = objID.FromProtoMessage(addr.ObjectId)

	var (
		info     v2.RequestInfo
		err      error
		req      any
		objOwner user.ID
		recheck  bool
	)
	switch kind {
	case "GET":
		q := &protoobject.GetRequest{Body: &protoobject.GetRequest_Body{Address: addr}, MetaHeader: metaHdr}
		if q.VerifyHeader, err = neofscrypto.SignRequestWithBuffer(signer, q, nil); err != nil {
			panic(err)
		}
		req = q
		info, err = svc.GetRequestToInfo(ctx, q, c.cnr, tokens)
		recheck = true
	case "HEAD":
		q := &protoobject.HeadRequest{Body: &protoobject.HeadRequest_Body{Address: addr}, MetaHeader: metaHdr}
		if q.VerifyHeader, err = neofscrypto.SignRequestWithBuffer(signer, q, nil); err != nil {
			panic(err)
		}
		req = q
		info, err = svc.HeadRequestToInfo(ctx, q, c.cnr, tokens)
		recheck = true
	case "PUT", "PUT-tombstone":
		init := &protoobject.PutRequest_Body_Init{ObjectId: mo.ObjectId, Header: mo.Header}
		q := &protoobject.PutRequest{Body: &protoobject.PutRequest_Body{ObjectPart: &protoobject.PutRequest_Body_Init_{Init: init}}, MetaHeader: metaHdr}
		if q.VerifyHeader, err = neofscrypto.SignRequestWithBuffer(signer, q, nil); err != nil {
			panic(err)
		}
		req = q
		op := acl.OpObjectPut
		if kind == "PUT-tombstone" {
			op = acl.OpObjectDelete
		}
		info, objOwner, err = svc.PutRequestToInfo(ctx, q, init, c.cnr, op, tokens)
	case "DELETE":
		q := &protoobject.DeleteRequest{Body: &protoobject.DeleteRequest_Body{Address: addr}, MetaHeader: metaHdr}
		if q.VerifyHeader, err = neofscrypto.SignRequestWithBuffer(signer, q, nil); err != nil {
			panic(err)
		}
		req = q
		info, err = svc.DeleteRequestToInfo(ctx, q, c.cnr, tokens)
	case "SEARCH":
		q := &protoobject.SearchV2Request{Body: &protoobject.SearchV2Request_Body{ContainerId: addr.ContainerId, Version: 1, Count: 10}, MetaHeader: metaHdr}
		if q.VerifyHeader, err = neofscrypto.SignRequestWithBuffer(signer, q, nil); err != nil {
			panic(err)
		}
		req = q
		info, err = svc.SearchV2RequestToInfo(ctx, q, c.cnr, tokens)
		objID = oid.ID{}
	default: // RANGE and HASH (the latter has no handler: same request info, other operation)
		q := &protoobject.GetRangeRequest{Body: &protoobject.GetRangeRequest_Body{Address: addr, Range: &protoobject.Range{Length: 1}}, MetaHeader: metaHdr}
		if q.VerifyHeader, err = neofscrypto.SignRequestWithBuffer(signer, q, nil); err != nil {
			panic(err)
		}
		req = q
		info, err = svc.RangeRequestToInfo(ctx, q, c.cnr, tokens)
		if kind != "RANGE" {
			info.Operation = acl.OpObjectHash
		}
	}
	if err != nil {
		return false, "request-info"
	}
	if !checker.CheckBasicACL(info) {
		return false, "basic-acl"
	}
	if c.isPut && !checker.StickyBitCheck(info, objOwner) {
		return false, "sticky"
	}
	err = checker.CheckEACL(ctx, req, c.cnr, objID, info)
	if err != nil && !errors.Is(err, v2.ErrNotMatched) {
		return false, "eacl-request"
	}
	if err == nil || !recheck {
		if err != nil {
			return true, "served-not-matched"
		}
		return true, "served"
	}
	// the header became available: GET always re-checks its binary form, HEAD either
	// the binary form (buffered local/proxied answer) or the response message
	var msg any = hdrBin
	stage := "eacl-header-binary"
	if kind == "HEAD" && headRespMsg {
		msg = &protoobject.HeadResponse{Body: &protoobject.HeadResponse_Body{Head: &protoobject.HeadResponse_Body_Header{Header: &protoobject.HeaderWithSignature{Header: mo.Header}}}}
		stage = "eacl-head-response"
	}
	err = checker.CheckEACL(ctx, msg, c.cnr, objID, info)
	if err != nil && !errors.Is(err, v2.ErrNotMatched) {
		return false, stage
	}
	return true, "served-after-" + stage
}
