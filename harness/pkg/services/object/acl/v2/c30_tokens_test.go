//go:build verif

package v2

// C30 monitor: session and bearer tokens are honoured only when valid for the request.
//
// Workload: V1 object session tokens, V2 session tokens (optionally delegated once) and
// bearer tokens are issued and signed with the real SDK (three ECDSA schemes), with
// lifetimes around the current epoch / chain time, all verbs, matching or foreign
// containers and objects; then left intact or hit by one single-field mutation of the
// signed body, a bit flip in the wire encoding of the body, or a signature / key / scheme
// mutation.  Every token is shown to the real acl/v2.Service verification entry points
// the way the object server calls them.  A share of the tokens then lives on: the same
// message is presented again to the same service instance (so whatever the service has
// memoised about it is in play) for the same or another request, after chain time has
// advanced within the epoch (V2: nothing purges the caches) and/or after epoch ticks
// (caches purged as the node wires them).
//
// Oracle: vf30Ref* recompute, from the token message alone and with standard-library
// crypto only, whether the token is correctly signed by its issuer, within its validity
// period and applicable to the request.  Honoured (nil error) while the reference says
// no => violation.

import (
	"bytes"
	"crypto/ecdsa"
	"crypto/elliptic"
	"crypto/sha256"
	"crypto/sha512"
	"encoding/base64"
	"encoding/binary"
	"encoding/hex"
	"errors"
	"fmt"
	"math/big"
	"math/rand/v2"
	"sort"
	"strings"
	"testing"
	"time"

	"github.com/google/uuid"
	"github.com/nspcc-dev/neo-go/pkg/core/block"
	"github.com/nspcc-dev/neo-go/pkg/core/transaction"
	"github.com/nspcc-dev/neo-go/pkg/crypto/hash"
	"github.com/nspcc-dev/neo-go/pkg/crypto/keys"
	"github.com/nspcc-dev/neo-go/pkg/neorpc/result"
	"github.com/nspcc-dev/neo-go/pkg/smartcontract/trigger"
	"github.com/nspcc-dev/neo-go/pkg/util"
	isessions "github.com/nspcc-dev/neofs-node/internal/sessions"
	"github.com/nspcc-dev/neofs-node/internal/verifkit"
	"github.com/nspcc-dev/neofs-sdk-go/bearer"
	apistatus "github.com/nspcc-dev/neofs-sdk-go/client/status"
	"github.com/nspcc-dev/neofs-sdk-go/container"
	cid "github.com/nspcc-dev/neofs-sdk-go/container/id"
	neofsecdsa "github.com/nspcc-dev/neofs-sdk-go/crypto/ecdsa"
	"github.com/nspcc-dev/neofs-sdk-go/eacl"
	"github.com/nspcc-dev/neofs-sdk-go/netmap"
	oid "github.com/nspcc-dev/neofs-sdk-go/object/id"
	protoacl "github.com/nspcc-dev/neofs-sdk-go/proto/acl"
	"github.com/nspcc-dev/neofs-sdk-go/proto/refs"
	protosession "github.com/nspcc-dev/neofs-sdk-go/proto/session"
	"github.com/nspcc-dev/neofs-sdk-go/session"
	sessionv2 "github.com/nspcc-dev/neofs-sdk-go/session/v2"
	"github.com/nspcc-dev/neofs-sdk-go/user"
	"google.golang.org/protobuf/proto"
)

// ---------------------------------------------------------------------------------------
// environment

type vf30World struct {
	epoch uint64
	now   time.Time
}

func (w *vf30World) Get(cid.ID) (container.Container, error) {
	return container.Container{}, apistatus.ErrContainerNotFound
}
func (w *vf30World) InnerRingKeys() [][]byte                                  { return nil }
func (w *vf30World) InContainerInLastTwoEpochs(cid.ID, []byte) (bool, error) { return false, nil }
func (w *vf30World) InvokeContainedScript(*transaction.Transaction, *block.Header, *trigger.Type, *bool) (*result.Invoke, error) {
	return nil, errors.New("verif: no N3 witnesses in this workload")
}
func (w *vf30World) HasUserInNNS(string, util.Uint160) (bool, error)         { return false, nil }
func (w *vf30World) Epoch() (uint64, error)                                  { return w.epoch, nil }
func (w *vf30World) ServerInContainer(cid.ID) (bool, error)                  { return false, nil }
func (w *vf30World) GetEpochBlock(uint64) (uint32, error)                    { return 0, errors.New("verif: unused") }
func (w *vf30World) GetEpochBlockByTime(uint32) (uint32, error)              { return 0, errors.New("verif: unused") }
func (w *vf30World) NetMap() (*netmap.NetMap, error)                         { return nil, errors.New("verif: unused") }
func (w *vf30World) GetNetMapByEpoch(uint64) (*netmap.NetMap, error)         { return nil, errors.New("verif: unused") }
func (w *vf30World) Now() time.Time                                          { return w.now }

type vf30Key struct {
	priv *ecdsa.PrivateKey
	pub  []byte
	id   user.ID
}

func vf30NewKey(rng *rand.Rand) vf30Key {
	for {
		k, err := keys.NewPrivateKeyFromBytes(verifkit.RandBytes(rng, 32))
		if err != nil {
			continue
		}
		return vf30Key{priv: &k.PrivateKey, pub: k.PublicKey().Bytes(), id: user.NewFromECDSAPublicKey(k.PrivateKey.PublicKey)}
	}
}

// spoofing signer: signs with k's key but claims to be somebody else
func (k vf30Key) signerAs(scheme int, claimed user.ID) user.Signer {
	switch scheme {
	case 0:
		return user.NewSigner(neofsecdsa.Signer(*k.priv), claimed)
	case 1:
		return user.NewSigner(neofsecdsa.SignerRFC6979(*k.priv), claimed)
	default:
		return user.NewSigner(neofsecdsa.SignerWalletConnect(*k.priv), claimed)
	}
}

func (k vf30Key) signer(scheme int) user.Signer {
	switch scheme {
	case 0:
		return user.NewAutoIDSigner(*k.priv)
	case 1:
		return user.NewAutoIDSignerRFC6979(*k.priv)
	default:
		return user.NewSigner(neofsecdsa.SignerWalletConnect(*k.priv), k.id)
	}
}

// ---------------------------------------------------------------------------------------
// reference: "correctly signed by its issuer" with the standard library only

func vf30DecodeKey(b []byte) *ecdsa.PublicKey {
	if len(b) != 33 {
		return nil
	}
	x, y := elliptic.UnmarshalCompressed(elliptic.P256(), b)
	if x == nil {
		return nil
	}
	return &ecdsa.PublicKey{Curve: elliptic.P256(), X: x, Y: y}
}

func vf30VarUint(n uint64) []byte {
	switch {
	case n < 0xfd:
		return []byte{byte(n)}
	case n <= 0xffff:
		return []byte{0xfd, byte(n), byte(n >> 8)}
	}
	b := []byte{0xfe, 0, 0, 0, 0}
	binary.LittleEndian.PutUint32(b[1:], uint32(n))
	return b
}

// account of a public key: Neo address of the single-signature verification script
func vf30Account(pub []byte) user.ID {
	cs := sha256.Sum256([]byte("System.Crypto.CheckSig"))
	s := append([]byte{0x0C, byte(len(pub))}, pub...)
	s = append(s, 0x41)
	s = append(s, cs[:4]...)
	return user.NewFromScriptHash(hash.Hash160(s))
}

// vf30SignedBy tells whether sig is a valid signature of data whose key belongs to issuer.
func vf30SignedBy(data []byte, sig *refs.Signature, issuer *refs.OwnerID) bool {
	if sig == nil || issuer == nil {
		return false
	}
	pub := vf30DecodeKey(sig.Key)
	if pub == nil {
		return false
	}
	acc := vf30Account(sig.Key)
	if !bytes.Equal(acc[:], issuer.Value) {
		return false
	}
	rs := func(b []byte) (*big.Int, *big.Int) {
		return new(big.Int).SetBytes(b[:32]), new(big.Int).SetBytes(b[32:64])
	}
	switch sig.Scheme {
	case refs.SignatureScheme_ECDSA_SHA512:
		if len(sig.Sign) != 65 || sig.Sign[0] != 4 {
			return false
		}
		h := sha512.Sum512(data)
		r, s := rs(sig.Sign[1:])
		return ecdsa.Verify(pub, h[:], r, s)
	case refs.SignatureScheme_ECDSA_RFC6979_SHA256:
		if len(sig.Sign) != 64 {
			return false
		}
		h := sha256.Sum256(data)
		r, s := rs(sig.Sign)
		return ecdsa.Verify(pub, h[:], r, s)
	case refs.SignatureScheme_ECDSA_RFC6979_SHA256_WALLET_CONNECT:
		if len(sig.Sign) != 80 {
			return false
		}
		payload := append([]byte(hex.EncodeToString(sig.Sign[64:])), base64.StdEncoding.EncodeToString(data)...)
		msg := append([]byte{0x01, 0x00, 0x01, 0xf0}, vf30VarUint(uint64(len(payload)))...)
		msg = append(msg, payload...)
		msg = append(msg, 0, 0)
		h := sha256.Sum256(msg)
		r, s := rs(sig.Sign)
		return ecdsa.Verify(pub, h[:], r, s)
	}
	return false
}

type vf30Stable interface {
	MarshaledSize() int
	MarshalStable([]byte)
}

func vf30Enc(m vf30Stable) []byte {
	b := make([]byte, m.MarshaledSize())
	m.MarshalStable(b)
	return b
}

// ---------------------------------------------------------------------------------------
// reference: validity + applicability, read from the token message

// which request operations a V1 token verb covers: the operation itself, plus HEAD for
// tokens of operations that return/need the header (GET, RANGE, DELETE) and SEARCH for
// DELETE (removal of a split object has to find and head its members)
func vf30V1VerbCovers(tokVerb protosession.ObjectSessionContext_Verb, req session.ObjectVerb) bool {
	tv := session.ObjectVerb(tokVerb)
	if tv == req {
		return tv >= session.VerbObjectPut && tv <= session.VerbObjectRangeHash
	}
	switch req {
	case session.VerbObjectHead:
		return tv == session.VerbObjectGet || tv == session.VerbObjectDelete || tv == session.VerbObjectRange
	case session.VerbObjectSearch:
		return tv == session.VerbObjectDelete
	}
	return false
}

type vf30V1Req struct {
	verb      session.ObjectVerb
	cnr       cid.ID
	obj       oid.ID // zero: no object in the request
	tombstone bool   // PUT of a tombstone: its ID cannot be known to the token issuer
}

func vf30RefV1(m *protosession.SessionToken, epoch uint64, q vf30V1Req) (bool, string) {
	b := m.GetBody()
	if b == nil {
		return false, "no-body"
	}
	if !vf30SignedBy(vf30Enc(b), m.Signature, b.OwnerId) {
		return false, "signature"
	}
	lt := b.GetLifetime()
	if lt.GetNbf() > epoch || lt.GetExp() < epoch {
		return false, "lifetime"
	}
	oc := b.GetObject()
	if oc == nil {
		return false, "context"
	}
	if !bytes.Equal(oc.GetTarget().GetContainer().GetValue(), q.cnr[:]) {
		return false, "container"
	}
	if !vf30V1VerbCovers(oc.GetVerb(), q.verb) {
		return false, "verb"
	}
	if objs := oc.GetTarget().GetObjects(); len(objs) > 0 && !q.obj.IsZero() && !q.tombstone {
		found := false
		for _, o := range objs {
			if bytes.Equal(o.GetValue(), q.obj[:]) {
				found = true
			}
		}
		if !found {
			return false, "object"
		}
	}
	return true, ""
}

// chain time has millisecond resolution, token claims have seconds: a claim is taken as
// violated only if it is violated for both the second before and the second after now
func vf30RefV2(m *protosession.SessionTokenV2, now time.Time, verb sessionv2.Verb, cnr cid.ID) (bool, string) {
	lo, hi := uint64(now.Truncate(time.Second).Unix()), uint64(now.Truncate(time.Second).Unix())
	if now.Nanosecond() != 0 {
		hi++
	}
	for depth, t := 0, m; t != nil; depth, t = depth+1, t.GetOrigin() {
		b := t.GetBody()
		if b == nil {
			return false, "no-body"
		}
		if !vf30SignedBy(vf30Enc(b), t.Signature, b.Issuer) {
			return false, fmt.Sprintf("signature-d%d", depth)
		}
		lt := b.GetLifetime()
		if lt.GetNbf() > hi || lt.GetExp() < lo {
			return false, fmt.Sprintf("lifetime-d%d", depth)
		}
		if depth > 8 {
			return false, "depth"
		}
	}
	for _, c := range m.GetBody().GetContexts() {
		if c.GetContainer() != nil && !bytes.Equal(c.GetContainer().GetValue(), cnr[:]) {
			continue
		}
		for _, v := range c.GetVerbs() {
			if sessionv2.Verb(v) == verb {
				return true, ""
			}
		}
	}
	return false, "verb-or-container"
}

func vf30RefBearer(m *protoacl.BearerToken, epoch uint64, reqCnr cid.ID, cnrOwner, sender user.ID) (bool, string) {
	b := m.GetBody()
	if b == nil {
		return false, "no-body"
	}
	issuer := b.Issuer
	if issuer == nil && m.Signature != nil { // issuer may be left to the key
		acc := vf30Account(m.Signature.Key)
		issuer = &refs.OwnerID{Value: acc[:]}
	}
	if !vf30SignedBy(vf30Enc(b), m.Signature, issuer) {
		return false, "signature"
	}
	lt := b.GetLifetime()
	if lt.GetNbf() > epoch || lt.GetExp() < epoch {
		return false, "lifetime"
	}
	if !bytes.Equal(issuer.Value, cnrOwner[:]) {
		return false, "issuer-not-owner"
	}
	if c := b.GetEaclTable().GetContainerId(); c != nil && !bytes.Equal(c.Value, reqCnr[:]) {
		return false, "container"
	}
	if o := b.GetOwnerId(); o != nil && !bytes.Equal(o.Value, sender[:]) {
		return false, "user"
	}
	return true, ""
}

// ---------------------------------------------------------------------------------------
// mutations

// vf30FlipWire flips one bit of the stable encoding of m and decodes it back into m.
func vf30FlipWire(rng *rand.Rand, m interface {
	vf30Stable
	proto.Message
}) bool {
	enc := vf30Enc(m)
	if len(enc) == 0 {
		return false
	}
	for try := 0; try < 40; try++ {
		b := bytes.Clone(enc)
		b[rng.IntN(len(b))] ^= 1 << rng.IntN(8)
		n := m.ProtoReflect().New().Interface()
		if proto.Unmarshal(b, n) != nil {
			continue
		}
		if bytes.Equal(vf30Enc(n.(vf30Stable)), enc) {
			continue
		}
		proto.Reset(m)
		proto.Merge(m, n)
		return true
	}
	return false
}

func vf30MutSig(rng *rand.Rand, s *refs.Signature, other vf30Key) string {
	switch rng.IntN(4) {
	case 0:
		s.Sign = bytes.Clone(s.Sign)
		s.Sign[rng.IntN(len(s.Sign))] ^= 1 << rng.IntN(8)
		return "sig-bitflip"
	case 1:
		s.Key = bytes.Clone(s.Key)
		s.Key[1+rng.IntN(len(s.Key)-1)] ^= 1 << rng.IntN(8)
		return "key-bitflip"
	case 2:
		s.Key = bytes.Clone(other.pub)
		return "key-foreign"
	default:
		s.Scheme = (s.Scheme + 1 + refs.SignatureScheme(rng.IntN(2))) % 3
		return "scheme-other"
	}
}

// ---------------------------------------------------------------------------------------
// the monitor

const vf30Epoch = 100

var vf30T0 = time.Unix(1_800_000_000, 0)

func vf30UUID(rng *rand.Rand) uuid.UUID {
	b := verifkit.RandBytes(rng, 16)
	b[6] = b[6]&0x0f | 0x40
	b[8] = b[8]&0x3f | 0x80
	id, _ := uuid.FromBytes(b)
	return id
}

var vf30SampleTick int

func TestVerif_C30(t *testing.T) {
	r := verifkit.Start(t, "C30", "exploration")
	defer r.Finish()
	r.SetRule("case = token family {V1 object session, V2 session (plain or delegated once), bearer} x ECDSA scheme x lifetime claims drawn from current-2..current+2 epochs (seconds for V2, chain time with millisecond offsets) x verb (all) x container (same/foreign/wildcard) x objects (none/listed/foreign) x request (verb, container, object) x mutation {none, one signed field changed, one bit of the body's wire encoding flipped, signature/key/scheme changed} x life {presented once; presented again 2-4 times to the same service with the same/another request, V2: chain time advanced by 0ms..1h within the epoch or across an epoch tick, V1/bearer: across epoch ticks}; every presentation is judged separately; distinct = (family, scheme, lifetime class, token verb, request verb, container/object relation, mutation, reference verdict, code verdict)")
	r.Assume("token check caches are purged on every epoch change as cmd/neofs-node wires them (ResetTokenCheckCache + ObjectSessionsCache.ResetCache)")
	r.Assume("a V1 token verb covers its own operation, HEAD under GET/RANGE/DELETE tokens and SEARCH under DELETE tokens; the ID of a tombstone being PUT is not matched against the token's object list")
	r.Assume("V2 lifetime claims (seconds) are compared with millisecond chain time at second granularity: only misses by a whole second count")

	nCases := r.Pick(60000, 1500000)
	prng := r.Rand("pool", 0)
	pool := make([]vf30Key, 5)
	for i := range pool {
		pool[i] = vf30NewKey(prng)
	}
	cnrs := []cid.ID{verifkit.RandCID(prng), verifkit.RandCID(prng)}
	sort.Slice(cnrs, func(i, j int) bool { return bytes.Compare(cnrs[i][:], cnrs[j][:]) < 0 })
	objs := []oid.ID{verifkit.RandOID(prng), verifkit.RandOID(prng), verifkit.RandOID(prng)}

	w := &vf30World{epoch: vf30Epoch, now: vf30T0}
	cache := isessions.NewObjectSessionsCache(64)
	svc := New(w, cache, WithContainerSource(w), WithNetmapper(w), WithIRFetcher(w), WithTimeProvider(w))
	setEpoch := func(e uint64) {
		if w.epoch != e {
			w.epoch = e
			svc.ResetTokenCheckCache()
			cache.ResetCache()
		}
	}

	relEpoch := func(rng *rand.Rand) uint64 { return uint64(vf30Epoch - 2 + rng.IntN(5)) }
	verdict := func(family, mut string, honoured, refOK bool, why string, sig string, desc map[string]any) {
		r.Eval(1)
		r.Distinct(fmt.Sprintf("%s|%s|%t|%t|%s|%s", family, mut, honoured, refOK, why, sig))
		if vf30SampleTick++; vf30SampleTick%4001 == 1 {
			r.Sample(map[string]any{"family": family, "mutation": mut, "honoured_by_node": honoured, "valid_by_reference": refOK, "reference_reason": why, "case": desc})
		}
		r.Count(family+"_cases", 1)
		switch {
		case honoured && !refOK:
			key := fmt.Sprintf("honoured-invalid|%s|%s|mutation=%s", family, why, mut)
			if len(why) > 7 && why[:7] == "object|" {
				key = fmt.Sprintf("honoured-invalid|%s|%s", family, why)
			}
			r.Violation(key, fmt.Sprintf("%s token honoured although the reference finds it invalid for the request (%s)", family, why), desc)
		case honoured:
			r.Count(family+"_honoured_valid", 1)
			if mut != "none" {
				r.Count(family+"_honoured_after_noop_mutation_"+mut, 1)
			}
		case refOK:
			r.Count(family+"_rejected_though_reference_valid", 1)
			if e, _ := desc["code_error"].(string); e != "" {
				if len(e) > 70 {
					e = e[:70]
				}
				r.Seen(family+"_stricter_errors", e)
			}
			if mut == "none" {
				r.Count(family+"_untouched_valid_rejected", 1)
			}
		default:
			r.Count(family+"_rejected_invalid", 1)
			r.Seen(family+"_reject_reasons", why)
			if mut != "none" {
				r.Count("rejected_mutation_"+mut, 1)
			}
		}
	}

	for ci := 0; ci < nCases; ci++ {
		rng := r.Rand("case", ci)
		issuer := pool[rng.IntN(len(pool))]
		scheme := rng.IntN(3)
		switch fam := rng.IntN(3); fam {
		case 0: // ---------------- V1 object session
			var tok session.Object
			tok.SetID(vf30UUID(rng))
			tok.SetAuthKey((*neofsecdsa.PublicKey)(&pool[rng.IntN(len(pool))].priv.PublicKey))
			iat, nbf, exp := relEpoch(rng), relEpoch(rng), relEpoch(rng)
			if rng.IntN(2) == 0 { // mostly sane windows
				iat, nbf, exp = vf30Epoch-2, vf30Epoch-uint64(rng.IntN(2)), vf30Epoch+uint64(rng.IntN(2))
			}
			tok.SetIat(iat)
			tok.SetNbf(nbf)
			tok.SetExp(exp)
			tok.BindContainer(cnrs[rng.IntN(2)])
			if rng.IntN(2) == 0 {
				tok.LimitByObjects(objs[:1+rng.IntN(2)]...)
			}
			tokVerb := session.ObjectVerb(1 + rng.IntN(7))
			if rng.IntN(20) == 0 {
				tokVerb = session.ObjectVerb(rng.IntN(10))
			}
			tok.ForVerb(tokVerb)
			sgn, spoofed := issuer.signer(scheme), rng.IntN(16) == 0
			if spoofed {
				sgn = issuer.signerAs(scheme, pool[(rng.IntN(len(pool)-1)+1+vf30Index(pool, issuer))%len(pool)].id)
			}
			if err := tok.Sign(sgn); err != nil {
				r.Inconclusive("cannot sign V1 token: " + err.Error())
				return
			}
			m := tok.ProtoMessage()
			mut := "none"
			if spoofed {
				mut = "signed-by-other-than-claimed-issuer"
			}
			mutSel := rng.IntN(12)
			if spoofed {
				mutSel = 0
			}
			switch mutSel {
			case 0, 1, 2, 3, 4:
			case 5:
				oc := m.Body.GetObject()
				switch rng.IntN(8) {
				case 0:
					m.Body.Lifetime.Exp += 1 + uint64(rng.IntN(3))
					mut = "exp+"
				case 1:
					m.Body.Lifetime.Nbf -= 1 + uint64(rng.IntN(3))
					mut = "nbf-"
				case 2:
					m.Body.Lifetime.Iat -= 1
					mut = "iat-"
				case 3:
					oc.Verb = protosession.ObjectSessionContext_Verb(1 + (int(oc.Verb)+rng.IntN(6))%7)
					mut = "verb"
				case 4:
					oc.Target.Container = cnrs[rng.IntN(2)].ProtoMessage()
					if rng.IntN(2) == 0 {
						oc.Target.Container = verifkit.RandCID(rng).ProtoMessage()
					}
					mut = "container"
				case 5:
					if len(oc.Target.Objects) > 0 && rng.IntN(2) == 0 {
						oc.Target.Objects = oc.Target.Objects[1:]
						mut = "objects-drop"
					} else {
						oc.Target.Objects = append(oc.Target.Objects, objs[2].ProtoMessage())
						mut = "objects-add"
					}
				case 6:
					m.Body.OwnerId = pool[rng.IntN(len(pool))].id.ProtoMessage()
					mut = "issuer"
				default:
					m.Body.SessionKey = bytes.Clone(pool[rng.IntN(len(pool))].pub)
					m.Body.SessionKey[5] ^= 1
					mut = "session-key"
				}
			case 6, 7, 8:
				if vf30FlipWire(rng, m.Body) {
					mut = "body-wire-bitflip"
				}
			default:
				mut = vf30MutSig(rng, m.Signature, pool[rng.IntN(len(pool))])
			}
			verdictV1(r, &svc, w, setEpoch, rng, ci, m, tokVerb, scheme, mut, cnrs, objs, verdict)
		case 1: // ---------------- V2 session
			vf30CaseV2(r, &svc, w, setEpoch, rng, ci, pool, issuer, scheme, cnrs, verdict)
		default: // ---------------- bearer
			vf30CaseBearer(r, &svc, w, setEpoch, rng, ci, pool, issuer, scheme, cnrs, verdict)
		}
	}
	for _, fam := range []string{"v1", "v2", "bearer"} {
		if r.Counter(fam+"_honoured_valid") == 0 || r.Counter(fam+"_rejected_invalid") == 0 {
			r.Inconclusive("family " + fam + ": honoured or rejected tokens were never observed")
		}
		if r.Counter(fam+"_represented_honoured_valid") == 0 || r.Counter(fam+"_represented_rejected_invalid_after_first_honoured") == 0 {
			r.Inconclusive("family " + fam + ": a token honoured at first and later, presented again, no longer valid for the request was never observed")
		}
	}
	if r.Violations() == 0 && r.Counter("v2_rejected_once_chain_time_passed_exp_within_the_epoch") == 0 {
		r.Inconclusive("no V2 token was presented valid and then again after chain time passed its exp within the same epoch")
	}
}

func vf30Index(pool []vf30Key, k vf30Key) int {
	for i := range pool {
		if pool[i].id == k.id {
			return i
		}
	}
	return 0
}

type vf30Verdict func(family, mut string, honoured, refOK bool, why string, sig string, desc map[string]any)

func verdictV1(r *verifkit.Run, svc *Service, w *vf30World, setEpoch func(uint64), rng *rand.Rand, ci int, m *protosession.SessionToken,
	tokVerb session.ObjectVerb, scheme int, mut string, cnrs []cid.ID, objs []oid.ID, verdict vf30Verdict) {
	setEpoch(vf30Epoch)
	mkReq := func() vf30V1Req {
		q := vf30V1Req{verb: session.ObjectVerb(1 + rng.IntN(6)), cnr: cnrs[rng.IntN(2)]}
		if rng.IntN(3) != 0 { // mostly aim at the token's own scope
			if c := m.GetBody().GetObject().GetTarget().GetContainer().GetValue(); len(c) == 32 {
				copy(q.cnr[:], c)
			}
			if rng.IntN(2) == 0 && tokVerb >= 1 && tokVerb <= 6 {
				q.verb = tokVerb
			}
		}
		switch rng.IntN(4) {
		case 0:
		case 1:
			q.obj = objs[2] // never listed by an untouched token
		default:
			q.obj = objs[rng.IntN(2)]
		}
		if q.verb == session.VerbObjectSearch {
			q.obj = oid.ID{}
		}
		if q.verb == session.VerbObjectDelete && rng.IntN(3) == 0 {
			q.tombstone = true // PUT of a tombstone object is checked with the DELETE verb
		}
		return q
	}
	q := mkReq()
	desc := map[string]any{"case": ci, "family": "v1", "scheme": scheme, "mutation": mut, "token_hex": hex.EncodeToString(vf30Enc(m)),
		"epoch": w.epoch, "req_verb": int(q.verb), "req_container": q.cnr.String(), "req_object": q.obj.String(), "req_is_tombstone_put": q.tombstone}
	var err error
	if r.Guard(desc, func() { _, err = svc.VerifySessionV1TokenMessage(m, q.verb, q.cnr, q.obj) }) {
		return
	}
	ok, why := vf30RefV1(m, w.epoch, q)
	lt := m.GetBody().GetLifetime()
	sig := fmt.Sprintf("%d|%d|%d|%d|%d|%t|%t|%t", scheme, int64(lt.GetNbf())-vf30Epoch, int64(lt.GetExp())-vf30Epoch, tokVerb, q.verb,
		len(m.GetBody().GetObject().GetTarget().GetObjects()) > 0, q.obj.IsZero(), q.tombstone)
	if err == nil && !ok && why == "object" {
		// name the shape: which request was let through for an object outside the token's list
		why = fmt.Sprintf("object|token-verb=%d|req-verb=%d", m.GetBody().GetObject().GetVerb(), q.verb)
	}
	if err != nil {
		desc["code_error"] = err.Error()
	}
	verdict("v1", mut, err == nil, ok, why, sig, desc)
	r.Seen("v1_token_verbs", fmt.Sprint(int(tokVerb)))
	r.Seen("v1_request_verbs", fmt.Sprint(int(q.verb)))

	// the same body again with a damaged signature while the verdict on the intact token is cached
	if err == nil && mut == "none" && rng.IntN(3) == 0 {
		m2 := proto.Clone(m).(*protosession.SessionToken)
		how := vf30MutSig(rng, m2.Signature, vf30NewKey(rng))
		_, err2 := svc.VerifySessionV1TokenMessage(m2, q.verb, q.cnr, q.obj)
		ok2, why2 := vf30RefV1(m2, w.epoch, q)
		r.Eval(1)
		if err2 == nil && !ok2 && strings.HasPrefix(why2, "signature") {
			r.Violation("honoured-invalid|v1|signature|replayed-body-after-cached-success", "V1 token body honoured with a damaged signature ("+how+") right after the intact token was verified", desc)
		} else {
			r.Count("v1_rejected_replayed_body_with_damaged_signature", 1)
		}
	}
	// the same (intact) token later: once the epoch passes exp it must not be honoured any more
	if err == nil && mut == "none" && rng.IntN(4) == 0 {
		e2 := lt.GetExp() + 1
		w.epoch = e2 // no cache purge: what a stale cache would do (observation only)
		_, errStale := svc.VerifySessionV1TokenMessage(m, q.verb, q.cnr, q.obj)
		if errStale == nil {
			r.Count("v1_observed_honoured_after_expiry_when_caches_not_purged", 1)
		}
		w.epoch = vf30Epoch
		setEpoch(e2)
		_, errLate := svc.VerifySessionV1TokenMessage(m, q.verb, q.cnr, q.obj)
		r.Eval(1)
		if errLate == nil {
			r.Violation("honoured-invalid|v1|lifetime|after-epoch-change", "V1 token honoured at exp+1 after the epoch change purged the caches", desc)
		} else {
			r.Count("v1_rejected_after_epoch_passed_exp", 1)
		}
		setEpoch(vf30Epoch)
	}

	// life of the token: the SAME message is presented again to the same service, with
	// other requests and/or after epoch ticks (which purge the caches, as the node wires
	// them).  Every presentation is judged on its own by the reference: what an earlier
	// presentation of the token yielded must not matter.
	if live := rng.IntN(4) == 0; live || err == nil { // every token honoured at first, a quarter of the others
		first := vf30Word(err == nil, "honoured", "rejected")
		ticked := false
		for step, steps := 0, 2+rng.IntN(2); step < steps; step++ {
			q2, how := q, "same-request"
			switch rng.IntN(3) {
			case 0:
				q2, how = mkReq(), "other-request"
			case 1:
				setEpoch(w.epoch + 1 + uint64(rng.IntN(2)))
				ticked, how = true, "epoch-tick"
			default:
				q2, how = mkReq(), "other-request+epoch-tick"
				setEpoch(w.epoch + 1)
				ticked = true
			}
			d2 := map[string]any{"case": ci, "family": "v1", "scheme": scheme, "mutation": mut, "token_hex": desc["token_hex"], "life_step": step + 1,
				"first_presentation": vf30Brief(desc), "epoch": w.epoch, "req_verb": int(q2.verb), "req_container": q2.cnr.String(), "req_object": q2.obj.String(), "req_is_tombstone_put": q2.tombstone}
			var errN error
			if r.Guard(d2, func() { _, errN = svc.VerifySessionV1TokenMessage(m, q2.verb, q2.cnr, q2.obj) }) {
				break
			}
			okN, whyN := vf30RefV1(m, w.epoch, q2)
			key := fmt.Sprintf("honoured-invalid|v1|%s|re-presented|first-time=%s|%s", whyN, first, vf30Word(ticked, "after-epoch-tick", "same-epoch"))
			if whyN == "object" { // same shape as on a first presentation
				key = fmt.Sprintf("honoured-invalid|v1|object|token-verb=%d|req-verb=%d", m.GetBody().GetObject().GetVerb(), q2.verb)
			}
			vf30LifeVerdict(r, "v1", key, fmt.Sprintf("%s|%s|%d|%d|%d", first, how, int64(w.epoch)-vf30Epoch, tokVerb, q2.verb), errN, okN, whyN, first, d2)
		}
		setEpoch(vf30Epoch)
	}
}

// vf30Brief copies a case description without the token (the caller repeats it once).
func vf30Brief(d map[string]any) map[string]any {
	c := make(map[string]any, len(d))
	for k, v := range d {
		if k != "token_hex" {
			c[k] = v
		}
	}
	return c
}

func vf30Word(c bool, yes, no string) string {
	if c {
		return yes
	}
	return no
}

// vf30LifeVerdict judges one re-presentation of a token that the service has seen before.
func vf30LifeVerdict(r *verifkit.Run, family, vioKey, sig string, codeErr error, refOK bool, why, first string, desc map[string]any) {
	honoured := codeErr == nil
	r.Eval(1)
	r.Distinct(fmt.Sprintf("%s-life|%t|%t|%s|%s", family, honoured, refOK, why, sig))
	r.Count(family+"_represented", 1)
	if codeErr != nil {
		desc["code_error"] = codeErr.Error()
	}
	switch {
	case honoured && !refOK:
		r.Violation(vioKey, fmt.Sprintf("%s token presented again to the same service is honoured although the reference finds it invalid for this request (%s); its first presentation was %s", family, why, first), desc)
	case honoured:
		r.Count(family+"_represented_honoured_valid", 1)
		if first == "rejected" {
			r.Count(family+"_represented_honoured_valid_after_first_rejection", 1)
		}
	case refOK:
		r.Count(family+"_represented_rejected_though_reference_valid", 1)
		if first == "rejected" {
			r.Count(family+"_observed_still_rejected_when_reference_valid_after_first_rejection", 1)
		}
	default:
		r.Count(family+"_represented_rejected_invalid", 1)
		if first == "honoured" {
			r.Count(family+"_represented_rejected_invalid_after_first_honoured", 1)
			r.Seen(family+"_reasons_rejected_after_first_honoured", why)
		}
	}
}

func vf30CaseV2(r *verifkit.Run, svc *Service, w *vf30World, setEpoch func(uint64), rng *rand.Rand, ci int, pool []vf30Key, issuer vf30Key, scheme int, cnrs []cid.ID, verdict vf30Verdict) {
	setEpoch(vf30Epoch)
	sec := func(d int) time.Time { return vf30T0.Add(time.Duration(d) * time.Second) }
	mk := func(iss vf30Key, subj user.ID, iat, nbf, exp int, ctxs map[int][]sessionv2.Verb, origin *sessionv2.Token, final bool) (*sessionv2.Token, error) {
		var tok sessionv2.Token
		tok.SetVersion(sessionv2.TokenCurrentVersion)
		tok.SetIat(sec(iat))
		tok.SetNbf(sec(nbf))
		tok.SetExp(sec(exp))
		if err := tok.AddSubject(sessionv2.NewTargetUser(subj)); err != nil {
			return nil, err
		}
		for _, ci := range []int{-1, 0, 1} { // wildcard first, then containers in ascending order
			vs, ok := ctxs[ci]
			if !ok {
				continue
			}
			var c cid.ID
			if ci >= 0 {
				c = cnrs[ci]
			}
			cx, err := sessionv2.NewContext(c, vs)
			if err != nil {
				return nil, err
			}
			if err := tok.AddContext(cx); err != nil {
				return nil, err
			}
		}
		tok.SetFinal(final)
		tok.SetOrigin(origin)
		if err := tok.Sign(iss.signer(scheme)); err != nil {
			return nil, err
		}
		return &tok, nil
	}
	randVerbs := func() []sessionv2.Verb {
		var vs []sessionv2.Verb
		for v := sessionv2.VerbObjectPut; v <= sessionv2.VerbObjectRange; v++ {
			if rng.IntN(3) == 0 {
				vs = append(vs, v)
			}
		}
		if len(vs) == 0 {
			vs = []sessionv2.Verb{sessionv2.Verb(1 + rng.IntN(6))}
		}
		return vs
	}
	ctxs := map[int][]sessionv2.Verb{}
	switch rng.IntN(4) {
	case 0:
		ctxs[-1] = randVerbs()
	case 1:
		ctxs[0] = randVerbs()
	case 2:
		ctxs[1] = randVerbs()
	default:
		ctxs[0], ctxs[1] = randVerbs(), randVerbs()
	}
	iat, nbf, exp := -3, -2+rng.IntN(5), -2+rng.IntN(5)
	if rng.IntN(2) == 0 {
		nbf, exp = -rng.IntN(2), rng.IntN(2)
	}
	delegated := rng.IntN(3) == 0
	var tok *sessionv2.Token
	var err error
	if delegated {
		mid := pool[rng.IntN(len(pool))]
		var origin *sessionv2.Token
		origin, err = mk(issuer, mid.id, -5, min(nbf, exp, -3), max(exp, nbf, 3), ctxs, nil, false)
		if err == nil {
			tok, err = mk(mid, pool[rng.IntN(len(pool))].id, iat, nbf, exp, ctxs, origin, rng.IntN(2) == 0)
		}
	} else {
		tok, err = mk(issuer, pool[rng.IntN(len(pool))].id, iat, nbf, exp, ctxs, nil, rng.IntN(2) == 0)
	}
	if err != nil {
		r.Inconclusive("cannot build V2 token: " + err.Error())
		return
	}
	m := tok.ProtoMessage()
	mut := "none"
	target := m
	if delegated && rng.IntN(2) == 0 {
		target = m.Origin
	}
	tname := ""
	if target != m {
		tname = "origin:"
	}
	switch rng.IntN(12) {
	case 0, 1, 2, 3, 4:
	case 5, 6:
		b := target.Body
		switch rng.IntN(7) {
		case 0:
			b.Lifetime.Exp += 1 + uint64(rng.IntN(3))
			mut = tname + "exp+"
		case 1:
			b.Lifetime.Nbf -= 1 + uint64(rng.IntN(3))
			mut = tname + "nbf-"
		case 2:
			c := b.Contexts[rng.IntN(len(b.Contexts))]
			c.Verbs = append(c.Verbs, protosession.Verb(1+rng.IntN(6)))
			sort.Slice(c.Verbs, func(i, j int) bool { return c.Verbs[i] < c.Verbs[j] })
			mut = tname + "verbs-add"
		case 3:
			c := b.Contexts[rng.IntN(len(b.Contexts))]
			if c.Container != nil && rng.IntN(2) == 0 {
				c.Container = nil
				mut = tname + "container-to-wildcard"
			} else {
				c.Container = cnrs[rng.IntN(2)].ProtoMessage()
				mut = tname + "container"
			}
		case 4:
			b.Issuer = pool[rng.IntN(len(pool))].id.ProtoMessage()
			mut = tname + "issuer"
		case 5:
			b.Subjects = append(b.Subjects, &protosession.Target{Identifier: &protosession.Target_OwnerId{OwnerId: pool[rng.IntN(len(pool))].id.ProtoMessage()}})
			mut = tname + "subjects-add"
		default:
			b.Final = !b.Final
			mut = tname + "final"
		}
	case 7, 8:
		if vf30FlipWire(rng, target.Body) {
			mut = tname + "body-wire-bitflip"
		}
	default:
		mut = tname + vf30MutSig(rng, target.Signature, pool[rng.IntN(len(pool))])
	}
	w.now = vf30T0.Add(time.Duration(rng.IntN(3)-1)*time.Second + time.Duration([]int{0, 0, 1, 400, 499, 500, 501, 999}[rng.IntN(8)])*time.Millisecond)
	reqVerb := sessionv2.Verb(1 + rng.IntN(6))
	if cs := m.GetBody().GetContexts(); rng.IntN(2) == 0 && len(cs) > 0 && len(cs[0].GetVerbs()) > 0 {
		vs := cs[0].GetVerbs()
		reqVerb = sessionv2.Verb(vs[rng.IntN(len(vs))])
	}
	reqCnr := cnrs[rng.IntN(2)]
	desc := map[string]any{"case": ci, "family": "v2", "scheme": scheme, "mutation": mut, "delegated": delegated, "token_hex": hex.EncodeToString(vf30Enc(m)),
		"now_unix_ms": w.now.UnixMilli(), "req_verb": int(reqVerb), "req_container": reqCnr.String()}
	var verr error
	if r.Guard(desc, func() { _, verr = svc.VerifySessionTokenMessage(m, reqVerb, reqCnr) }) {
		return
	}
	ok, why := vf30RefV2(m, w.now, reqVerb, reqCnr)
	lt := m.GetBody().GetLifetime()
	sig := fmt.Sprintf("%d|%t|%d|%d|%d|%d|%d", scheme, delegated, int64(lt.GetNbf())-vf30T0.Unix(), int64(lt.GetExp())-vf30T0.Unix(), w.now.Sub(vf30T0).Milliseconds(), reqVerb, len(m.GetBody().GetContexts()))
	if verr != nil {
		desc["code_error"] = verr.Error()
	}
	verdict("v2", mut, verr == nil, ok, why, sig, desc)
	if verr == nil && mut == "none" && rng.IntN(3) == 0 {
		m2 := proto.Clone(m).(*protosession.SessionTokenV2)
		tgt := m2
		if m2.Origin != nil && rng.IntN(2) == 0 {
			tgt = m2.Origin
		}
		how := vf30MutSig(rng, tgt.Signature, vf30NewKey(rng))
		_, err2 := svc.VerifySessionTokenMessage(m2, reqVerb, reqCnr)
		ok2, why2 := vf30RefV2(m2, w.now, reqVerb, reqCnr)
		r.Eval(1)
		if err2 == nil && !ok2 && strings.HasPrefix(why2, "signature") {
			r.Violation("honoured-invalid|v2|signature|replayed-body-after-cached-success", "V2 token body honoured with a damaged signature ("+how+") right after the intact token was verified", desc)
		} else {
			r.Count("v2_rejected_replayed_body_with_damaged_signature", 1)
		}
	}
	if verr == nil && ok {
		// observation: honoured although the precise chain time is (less than a second) outside the claims
		ms := uint64(w.now.UnixMilli())
		if ms < lt.GetNbf()*1000 {
			r.Count("v2_observed_honoured_less_than_1s_before_nbf", 1)
		}
		if ms > lt.GetExp()*1000 {
			r.Count("v2_observed_honoured_less_than_1s_after_exp", 1)
		}
	}

	// life of the token: the SAME message is presented again to the same service while
	// chain time goes on - mostly within one epoch, i.e. with nothing purging the caches
	// (V2 lifetimes are seconds, epochs are much longer), sometimes across an epoch tick -
	// and with the same or another request.  Every presentation is judged on its own by
	// the reference at the chain time of that presentation.
	if live := rng.IntN(4) == 0; live || verr == nil { // every token honoured at first, a quarter of the others
		first := vf30Word(verr == nil, "honoured", "rejected")
		ticked := false
		for step, steps := 0, 2+rng.IntN(3); step < steps; step++ {
			adv := []time.Duration{0, time.Millisecond, 499 * time.Millisecond, 500 * time.Millisecond, time.Second, time.Second, 2 * time.Second,
				3 * time.Second, 5 * time.Second, time.Minute, time.Hour}[rng.IntN(11)]
			w.now = w.now.Add(adv)
			how := "same-request"
			v2, c2 := reqVerb, reqCnr
			if rng.IntN(3) == 0 {
				v2, c2, how = sessionv2.Verb(1+rng.IntN(6)), cnrs[rng.IntN(2)], "other-request"
			}
			if rng.IntN(8) == 0 {
				setEpoch(w.epoch + 1)
				ticked = true
				how += "+epoch-tick"
			}
			d2 := map[string]any{"case": ci, "family": "v2", "scheme": scheme, "mutation": mut, "delegated": delegated, "token_hex": desc["token_hex"], "life_step": step + 1,
				"first_presentation": vf30Brief(desc), "now_unix_ms": w.now.UnixMilli(), "epoch": w.epoch, "req_verb": int(v2), "req_container": c2.String()}
			var errN error
			if r.Guard(d2, func() { _, errN = svc.VerifySessionTokenMessage(m, v2, c2) }) {
				break
			}
			okN, whyN := vf30RefV2(m, w.now, v2, c2)
			key := fmt.Sprintf("honoured-invalid|v2|%s|re-presented|first-time=%s|%s", whyN, first, vf30Word(ticked, "after-epoch-tick", "same-epoch"))
			class := "inside"
			switch ms := w.now.UnixMilli(); {
			case ms < int64(lt.GetNbf())*1000:
				class = "before-nbf"
			case ms > int64(lt.GetExp())*1000+999:
				class = "after-exp"
			case ms > int64(lt.GetExp())*1000:
				class = "less-than-1s-after-exp"
			}
			vf30LifeVerdict(r, "v2", key, fmt.Sprintf("%s|%s|%s|%d|%t", first, how, class, v2, delegated), errN, okN, whyN, first, d2)
			if !ticked && first == "honoured" && errN != nil && !okN && strings.HasPrefix(whyN, "lifetime") {
				r.Count("v2_rejected_once_chain_time_passed_exp_within_the_epoch", 1)
			}
		}
		setEpoch(vf30Epoch)
	}
	w.now = vf30T0
}

func vf30CaseBearer(r *verifkit.Run, svc *Service, w *vf30World, setEpoch func(uint64), rng *rand.Rand, ci int, pool []vf30Key, issuer vf30Key, scheme int, cnrs []cid.ID, verdict vf30Verdict) {
	setEpoch(vf30Epoch)
	var tok bearer.Token
	iat, nbf, exp := uint64(vf30Epoch-2+rng.IntN(5)), uint64(vf30Epoch-2+rng.IntN(5)), uint64(vf30Epoch-2+rng.IntN(5))
	if rng.IntN(2) == 0 {
		iat, nbf, exp = vf30Epoch-2, vf30Epoch-uint64(rng.IntN(2)), vf30Epoch+uint64(rng.IntN(2))
	}
	tok.SetIat(iat)
	tok.SetNbf(nbf)
	tok.SetExp(exp)
	tbl := eacl.ConstructTable([]eacl.Record{eacl.ConstructRecord(eacl.ActionDeny, eacl.OperationGet, []eacl.Target{eacl.NewTargetByRole(eacl.RoleOthers)})})
	if rng.IntN(2) == 0 {
		tbl.SetCID(cnrs[rng.IntN(2)])
	}
	tok.SetEACLTable(tbl)
	if rng.IntN(2) == 0 {
		tok.ForUser(pool[rng.IntN(len(pool))].id)
	}
	sgn, spoofed := issuer.signer(scheme), rng.IntN(16) == 0
	claimed := issuer.id
	if spoofed {
		claimed = pool[(rng.IntN(len(pool)-1)+1+vf30Index(pool, issuer))%len(pool)].id
		sgn = issuer.signerAs(scheme, claimed)
	}
	if err := tok.Sign(sgn); err != nil {
		r.Inconclusive("cannot sign bearer token: " + err.Error())
		return
	}
	m := tok.ProtoMessage()
	mut := "none"
	mutSel := rng.IntN(12)
	if spoofed {
		mut, mutSel = "signed-by-other-than-claimed-issuer", 0
	}
	switch mutSel {
	case 0, 1, 2, 3, 4:
	case 5, 6:
		b := m.Body
		switch rng.IntN(6) {
		case 0:
			b.Lifetime.Exp += 1 + uint64(rng.IntN(3))
			mut = "exp+"
		case 1:
			b.Lifetime.Nbf -= 1 + uint64(rng.IntN(3))
			mut = "nbf-"
		case 2:
			b.OwnerId = pool[rng.IntN(len(pool))].id.ProtoMessage()
			mut = "user"
		case 3:
			b.Issuer = pool[rng.IntN(len(pool))].id.ProtoMessage()
			mut = "issuer"
		case 4:
			b.EaclTable.ContainerId = cnrs[rng.IntN(2)].ProtoMessage()
			mut = "table-container"
		default:
			b.EaclTable.Records[0].Action = protoacl.Action_ALLOW
			mut = "table-action"
		}
	case 7, 8:
		if vf30FlipWire(rng, m.Body) {
			mut = "body-wire-bitflip"
		}
	default:
		mut = vf30MutSig(rng, m.Signature, pool[rng.IntN(len(pool))])
	}
	reqCnr := cnrs[rng.IntN(2)]
	owner := claimed
	if rng.IntN(4) == 0 {
		owner = pool[rng.IntN(len(pool))].id
	}
	sender := pool[rng.IntN(len(pool))].id
	if o := m.GetBody().GetOwnerId(); o != nil && len(o.Value) == user.IDSize && rng.IntN(2) == 0 {
		copy(sender[:], o.Value)
	}
	desc := map[string]any{"case": ci, "family": "bearer", "scheme": scheme, "mutation": mut, "token_hex": hex.EncodeToString(vf30Enc(m)), "epoch": w.epoch,
		"req_container": reqCnr.String(), "container_owner": owner.String(), "sender": sender.String()}
	var err error
	var bt bearer.Token
	if r.Guard(desc, func() {
		bt, err = svc.VerifyBearerTokenMessage(m)
		if err == nil {
			err = svc.verifyBearerTokenAgainstRequest(bt, reqCnr, owner, sender)
		}
	}) {
		return
	}
	ok, why := vf30RefBearer(m, w.epoch, reqCnr, owner, sender)
	lt := m.GetBody().GetLifetime()
	sig := fmt.Sprintf("%d|%d|%d|%t|%t", scheme, int64(lt.GetNbf())-vf30Epoch, int64(lt.GetExp())-vf30Epoch, m.GetBody().GetOwnerId() != nil, m.GetBody().GetEaclTable().GetContainerId() != nil)
	if err != nil {
		desc["code_error"] = err.Error()
	}
	verdict("bearer", mut, err == nil, ok, why, sig, desc)

	if err == nil && mut == "none" && rng.IntN(3) == 0 {
		m2 := proto.Clone(m).(*protoacl.BearerToken)
		how := vf30MutSig(rng, m2.Signature, vf30NewKey(rng))
		_, err2 := svc.VerifyBearerTokenMessage(m2)
		ok2, why2 := vf30RefBearer(m2, w.epoch, reqCnr, owner, sender)
		r.Eval(1)
		if err2 == nil && !ok2 && strings.HasPrefix(why2, "signature") {
			r.Violation("honoured-invalid|bearer|signature|replayed-body-after-cached-success", "bearer token body honoured with a damaged signature ("+how+") right after the intact token was verified", desc)
		} else {
			r.Count("bearer_rejected_replayed_body_with_damaged_signature", 1)
		}
	}
	if err == nil && mut == "none" && rng.IntN(4) == 0 {
		e2 := lt.GetExp() + 1
		w.epoch = e2
		if _, errStale := svc.VerifyBearerTokenMessage(m); errStale == nil {
			r.Count("bearer_observed_honoured_after_expiry_when_caches_not_purged", 1)
		}
		w.epoch = vf30Epoch
		setEpoch(e2)
		_, errLate := svc.VerifyBearerTokenMessage(m)
		r.Eval(1)
		if errLate == nil {
			r.Violation("honoured-invalid|bearer|lifetime|after-epoch-change", "bearer token honoured at exp+1 after the epoch change purged the caches", desc)
		} else {
			r.Count("bearer_rejected_after_epoch_passed_exp", 1)
		}
		setEpoch(vf30Epoch)
	}

	// life of the token: the SAME message again on the same service, for other requests
	// and/or after epoch ticks (which purge the caches, as the node wires them)
	if live := rng.IntN(4) == 0; live || err == nil { // every token honoured at first, a quarter of the others
		first := vf30Word(err == nil, "honoured", "rejected")
		ticked := false
		for step, steps := 0, 2+rng.IntN(2); step < steps; step++ {
			how := "same-request"
			c2, o2, s2 := reqCnr, owner, sender
			if rng.IntN(2) == 0 {
				how = "other-request"
				switch rng.IntN(3) {
				case 0:
					c2 = cnrs[rng.IntN(2)]
				case 1:
					o2 = pool[rng.IntN(len(pool))].id
				default:
					s2 = pool[rng.IntN(len(pool))].id
				}
			}
			if how == "same-request" || rng.IntN(3) == 0 {
				setEpoch(w.epoch + 1 + uint64(rng.IntN(2)))
				ticked = true
				how += "+epoch-tick"
			}
			d2 := map[string]any{"case": ci, "family": "bearer", "scheme": scheme, "mutation": mut, "token_hex": desc["token_hex"], "life_step": step + 1,
				"first_presentation": vf30Brief(desc), "epoch": w.epoch, "req_container": c2.String(), "container_owner": o2.String(), "sender": s2.String()}
			var errN error
			if r.Guard(d2, func() {
				var btN bearer.Token
				btN, errN = svc.VerifyBearerTokenMessage(m)
				if errN == nil {
					errN = svc.verifyBearerTokenAgainstRequest(btN, c2, o2, s2)
				}
			}) {
				break
			}
			okN, whyN := vf30RefBearer(m, w.epoch, c2, o2, s2)
			key := fmt.Sprintf("honoured-invalid|bearer|%s|re-presented|first-time=%s|%s", whyN, first, vf30Word(ticked, "after-epoch-tick", "same-epoch"))
			vf30LifeVerdict(r, "bearer", key, fmt.Sprintf("%s|%s|%d", first, how, int64(w.epoch)-vf30Epoch), errN, okN, whyN, first, d2)
		}
		setEpoch(vf30Epoch)
	}
}
