//go:build verif

package object

// C45 – "Only client object operations are refused while the node is in maintenance".
//
// Monitor: the real object Server is wired to recording dependencies (Handlers incl. a real
// putsvc.Service over recording storage/transport/clients, Storage, ACL checker, request-info
// extractor, client constructor, FS chain).  The RPC inventory is taken by reflection from the
// generated gRPC ObjectServiceServer interface / service descriptor, so an RPC the harness
// does not know makes the run inconclusive.  Every generated request is first executed with
// maintenance OFF (positive control: the request must reach the dependency behind the
// handler, otherwise it is not a "valid request" and the case is dropped) and then – on a
// fresh world – with maintenance ON, where the oracle written from the statement demands
//   (a) the NeoFS status NODE_UNDER_MAINTENANCE (1027 in the NeoFS API) in the response,
//   (b) no local-storage or network dependency touched, no object data in the response.
// Replicate (node-to-node) must not be refused (title of the property).

import (
	"context"
	"crypto/ecdsa"
	"errors"
	"fmt"
	"io"
	"math"
	"math/rand/v2"
	"os"
	"reflect"
	"sort"
	"strings"
	"sync"
	"sync/atomic"
	"testing"
	"time"

	"github.com/nspcc-dev/neo-go/pkg/core/block"
	"github.com/nspcc-dev/neo-go/pkg/core/transaction"
	"github.com/nspcc-dev/neo-go/pkg/crypto/keys"
	"github.com/nspcc-dev/neo-go/pkg/neorpc/result"
	"github.com/nspcc-dev/neo-go/pkg/smartcontract/trigger"
	iec "github.com/nspcc-dev/neofs-node/internal/ec"
	"github.com/nspcc-dev/neofs-node/internal/verifkit"
	clientcore "github.com/nspcc-dev/neofs-node/pkg/core/client"
	objectcore "github.com/nspcc-dev/neofs-node/pkg/core/object"
	"github.com/nspcc-dev/neofs-node/pkg/network/peerauth"
	"github.com/nspcc-dev/neofs-node/pkg/local_object_storage/engine"
	aclchk "github.com/nspcc-dev/neofs-node/pkg/services/object/acl"
	aclsvc "github.com/nspcc-dev/neofs-node/pkg/services/object/acl/v2"
	"github.com/nspcc-dev/neofs-node/pkg/services/object/common"
	deletesvc "github.com/nspcc-dev/neofs-node/pkg/services/object/delete"
	getsvc "github.com/nspcc-dev/neofs-node/pkg/services/object/get"
	putsvc "github.com/nspcc-dev/neofs-node/pkg/services/object/put"
	objutil "github.com/nspcc-dev/neofs-node/pkg/services/object/util"
	sessionstate "github.com/nspcc-dev/neofs-node/pkg/util/state/session"
	"github.com/nspcc-dev/neofs-sdk-go/bearer"
	"github.com/nspcc-dev/neofs-sdk-go/client"
	apistatus "github.com/nspcc-dev/neofs-sdk-go/client/status"
	"github.com/nspcc-dev/neofs-sdk-go/container"
	"github.com/nspcc-dev/neofs-sdk-go/container/acl"
	cid "github.com/nspcc-dev/neofs-sdk-go/container/id"
	neofscrypto "github.com/nspcc-dev/neofs-sdk-go/crypto"
	neofsecdsa "github.com/nspcc-dev/neofs-sdk-go/crypto/ecdsa"
	"github.com/nspcc-dev/neofs-sdk-go/eacl"
	"github.com/nspcc-dev/neofs-sdk-go/netmap"
	"github.com/nspcc-dev/neofs-sdk-go/object"
	oid "github.com/nspcc-dev/neofs-sdk-go/object/id"
	protoacl "github.com/nspcc-dev/neofs-sdk-go/proto/acl"
	protoobject "github.com/nspcc-dev/neofs-sdk-go/proto/object"
	iprotobuf "github.com/nspcc-dev/neofs-sdk-go/proto/protobuf"
	"github.com/nspcc-dev/neofs-sdk-go/proto/refs"
	protosession "github.com/nspcc-dev/neofs-sdk-go/proto/session"
	"github.com/nspcc-dev/neofs-sdk-go/session"
	sessionv2 "github.com/nspcc-dev/neofs-sdk-go/session/v2"
	"github.com/nspcc-dev/neofs-sdk-go/stat"
	"github.com/nspcc-dev/neofs-sdk-go/user"
	"github.com/nspcc-dev/neofs-sdk-go/version"
	"go.uber.org/zap"
	"google.golang.org/grpc/metadata"
	"google.golang.org/grpc/peer"
	grpcstatus "google.golang.org/grpc/status"
	"google.golang.org/protobuf/proto"
)

// NODE_UNDER_MAINTENANCE of the NeoFS API: section FAILURE_COMMON (1) * 1024 + 3.
const vf45MaintenanceCode = 1027

// ---------------------------------------------------------------------------------------
// recording world

type vf45World struct {
	mu      sync.Mutex
	effects []string       // local-storage / network touches in call order
	reads   map[string]int // other dependency calls (chain state, ACL, token checks)

	maintenance atomic.Bool

	nodeKey   *ecdsa.PrivateKey
	nodePub   []byte
	remoteKey *ecdsa.PrivateKey
	remotePub []byte
	cnrID     cid.ID
	cnr       container.Container
	epoch     uint64

	srv    *Server
	putSvc *putsvc.Service
}

func (w *vf45World) effect(s string) {
	w.mu.Lock()
	w.effects = append(w.effects, s)
	w.mu.Unlock()
}

func (w *vf45World) read(s string) {
	w.mu.Lock()
	w.reads[s]++
	w.mu.Unlock()
}

func (w *vf45World) snapshot() ([]string, map[string]int) {
	w.mu.Lock()
	defer w.mu.Unlock()
	e := append([]string(nil), w.effects...)
	r := make(map[string]int, len(w.reads))
	for k, v := range w.reads {
		r[k] = v
	}
	return e, r
}

func vf45Key(rng *rand.Rand) *ecdsa.PrivateKey {
	for {
		k, err := keys.NewPrivateKeyFromBytes(verifkit.RandBytes(rng, 32))
		if err == nil {
			return &k.PrivateKey
		}
	}
}

func vf45Pub(k *ecdsa.PrivateKey) []byte { return (*keys.PublicKey)(&k.PublicKey).Bytes() }

// --- FS chain

type vf45Chain struct{ w *vf45World }

func (c vf45Chain) Get(id cid.ID) (container.Container, error) {
	c.w.read("chain.container")
	if id != c.w.cnrID {
		return container.Container{}, apistatus.ErrContainerNotFound
	}
	return c.w.cnr, nil
}
func (c vf45Chain) CurrentEpoch() uint64         { return c.w.epoch }
func (c vf45Chain) CurrentBlock() uint32         { return 1000 }
func (c vf45Chain) CurrentEpochDuration() uint64 { return 240 }
func (c vf45Chain) InvokeContainedScript(*transaction.Transaction, *block.Header, *trigger.Type, *bool) (*result.Invoke, error) {
	c.w.read("chain.invokeScript")
	return nil, errors.New("vf45: N3 witnesses are not used by this harness")
}
func (c vf45Chain) ForEachContainerNodePublicKey(id cid.ID, f func([]byte) bool) error {
	c.w.read("chain.containerNodes")
	if id != c.w.cnrID {
		return apistatus.ErrContainerNotFound
	}
	if !f(c.w.remotePub) {
		return nil
	}
	f(c.w.nodePub)
	return nil
}
func (c vf45Chain) ForEachContainerNodePublicKeyInLastTwoEpochs(id cid.ID, f func([]byte) bool) error {
	return c.ForEachContainerNodePublicKey(id, f)
}
func (c vf45Chain) SelectContainerNodes(id cid.ID) ([][]netmap.NodeInfo, []uint, []iec.Rule, error) {
	c.w.read("chain.selectNodes")
	if id != c.w.cnrID {
		return nil, nil, nil, apistatus.ErrContainerNotFound
	}
	return [][]netmap.NodeInfo{c.w.nodes()}, []uint{2}, nil, nil
}
func (c vf45Chain) IsOwnPublicKey(pub []byte) bool { return string(pub) == string(c.w.nodePub) }
func (c vf45Chain) LocalNodeUnderMaintenance() bool {
	c.w.read("chain.maintenanceFlag")
	return c.w.maintenance.Load()
}

func (w *vf45World) nodes() []netmap.NodeInfo {
	var local, remote netmap.NodeInfo
	local.SetPublicKey(w.nodePub)
	local.SetNetworkEndpoints("/ip4/127.0.0.1/tcp/1")
	remote.SetPublicKey(w.remotePub)
	remote.SetNetworkEndpoints("/ip4/127.0.0.1/tcp/2")
	return []netmap.NodeInfo{local, remote}
}

// --- Storage of the object server

type vf45Storage struct{ w *vf45World }

func (s vf45Storage) VerifyAndStoreObjectLocally(context.Context, object.Object) error {
	s.w.effect("storage.VerifyAndStoreObjectLocally")
	return nil
}
func (s vf45Storage) SearchObjects(context.Context, cid.ID, []objectcore.SearchFilter, []string, *objectcore.SearchCursor, uint16) ([]client.SearchResultItem, []byte, error) {
	s.w.effect("storage.SearchObjects")
	return nil, nil, nil
}
func (s vf45Storage) GetSessionPrivateKey(user.ID) (ecdsa.PrivateKey, error) {
	s.w.read("storage.sessionKey")
	return ecdsa.PrivateKey{}, apistatus.ErrSessionTokenNotFound
}
func (s vf45Storage) GetSessionV2PrivateKey([]sessionv2.Target) (ecdsa.PrivateKey, error) {
	s.w.read("storage.sessionKeyV2")
	return ecdsa.PrivateKey{}, apistatus.ErrSessionTokenNotFound
}

// --- Handlers

type vf45Handlers struct{ w *vf45World }

func (h vf45Handlers) Get(context.Context, getsvc.Prm) error {
	h.w.effect("handlers.Get")
	return nil
}
func (h vf45Handlers) Head(context.Context, getsvc.HeadPrm) error {
	h.w.effect("handlers.Head")
	return nil
}
func (h vf45Handlers) Delete(context.Context, deletesvc.Prm) error {
	h.w.effect("handlers.Delete")
	return nil
}
func (h vf45Handlers) GetRange(context.Context, getsvc.RangePrm) error {
	h.w.effect("handlers.GetRange")
	return nil
}
func (h vf45Handlers) Put(ctx context.Context) (*putsvc.Streamer, error) {
	// creating the (real) streamer touches nothing; its dependencies record the touches
	h.w.read("handlers.Put(open)")
	return h.w.putSvc.Put(ctx)
}

// --- dependencies of the real putsvc.Service

type vf45PutNet struct{ w *vf45World }

func (n vf45PutNet) GetContainerNodes(id cid.ID) (putsvc.ContainerNodes, error) {
	n.w.read("put.containerNodes")
	if id != n.w.cnrID {
		return nil, apistatus.ErrContainerNotFound
	}
	return vf45CnrNodes{n.w}, nil
}
func (n vf45PutNet) IsLocalNodePublicKey(pub []byte) bool           { return string(pub) == string(n.w.nodePub) }
func (n vf45PutNet) GetEpochBlock(uint64) (uint32, error)           { return 1, nil }
func (n vf45PutNet) GetEpochBlockByTime(uint32) (uint32, error)     { return 1, nil }
func (n vf45PutNet) CurrentEpoch() uint64                           { return n.w.epoch }
func (n vf45PutNet) CurrentBlock() uint32                           { return 1000 }
func (n vf45PutNet) CurrentEpochDuration() uint64                   { return 240 }
func (n vf45PutNet) Get(id cid.ID) (container.Container, error)     { return vf45Chain{n.w}.Get(id) }
func (n vf45PutNet) MaxObjectSize() uint64                          { return 1 << 20 }
func (n vf45PutNet) UnpaidSince(cid.ID) (int64, error)              { n.w.read("put.init"); return -1, nil }
func (n vf45PutNet) AvailableQuotasLeft(cid.ID, user.ID) (uint64, uint64, error) {
	return math.MaxUint64, math.MaxUint64, nil
}
func (n vf45PutNet) VerifySplit(context.Context, cid.ID, oid.ID, []object.MeasuredObject) error {
	return nil
}
func (n vf45PutNet) VerifyTomb(context.Context, cid.ID, object.Tombstone) error { return nil }
func (n vf45PutNet) VerifyTombStoneWithoutPayload(context.Context, object.Object) error {
	return nil
}
func (n vf45PutNet) HandlePostPlacement(*object.Object, []netmap.NodeInfo) {}
func (n vf45PutNet) GetToken(user.ID) *sessionstate.PrivateToken             { return nil }
func (n vf45PutNet) FindTokenBySubjects([]sessionv2.Target) *sessionstate.PrivateToken {
	return nil
}

type vf45CnrNodes struct{ w *vf45World }

func (x vf45CnrNodes) Unsorted() [][]netmap.NodeInfo { return [][]netmap.NodeInfo{x.w.nodes()} }
func (x vf45CnrNodes) SortForObject(oid.ID) ([][]netmap.NodeInfo, error) {
	return [][]netmap.NodeInfo{x.w.nodes()}, nil
}
func (x vf45CnrNodes) PrimaryCounts() []uint { return []uint{2} }
func (x vf45CnrNodes) ECRules() []iec.Rule   { return nil }

type vf45PutStore struct{ w *vf45World }

func (s vf45PutStore) Put(context.Context, *object.Object, []byte) error {
	s.w.effect("put.localStore.Put")
	return nil
}
func (s vf45PutStore) IsLocked(context.Context, oid.Address) (bool, error) {
	s.w.effect("put.localStore.IsLocked")
	return false, nil
}

type vf45PutTransport struct{ w *vf45World }

func (t vf45PutTransport) SendReplicationRequestToNode(context.Context, []byte, netmap.NodeInfo) ([]byte, error) {
	t.w.effect("put.transport.SendReplicationRequestToNode")
	return nil, errors.New("vf45: remote node is a recorder only")
}

type vf45Clients struct {
	w    *vf45World
	what string
}

func (c vf45Clients) Get(context.Context, netmap.NodeInfo) (clientcore.MultiAddressClient, error) {
	c.w.effect(c.what)
	return nil, errors.New("vf45: remote node is a recorder only")
}

// --- ACL: the REAL acl.Checker (real eACL validator) over a real, shard-less StorageEngine whose
// metrics register records every engine operation; the container's eACL has a rule with an
// object-attribute filter for every operation, so the checker has to look the header up
// exactly as it does in the node (local storage first, header source for split objects).

type vf45EngineMetrics struct{ w *vf45World }

func (m vf45EngineMetrics) AddListContainersDuration(time.Duration)        { m.w.effect("engine.ListContainers") }
func (m vf45EngineMetrics) AddEstimateContainerSizeDuration(time.Duration) { m.w.effect("engine.ContainerSize") }
func (m vf45EngineMetrics) AddDeleteDuration(time.Duration)                { m.w.effect("engine.Delete") }
func (m vf45EngineMetrics) AddDropDuration(time.Duration)                  { m.w.effect("engine.Drop") }
func (m vf45EngineMetrics) AddExistsDuration(time.Duration)                { m.w.effect("engine.Exists") }
func (m vf45EngineMetrics) AddGetDuration(time.Duration)                   { m.w.effect("engine.Get") }
func (m vf45EngineMetrics) AddHeadDuration(time.Duration)                  { m.w.effect("engine.Head") }
func (m vf45EngineMetrics) AddReadHeaderDuration(time.Duration)            { m.w.effect("engine.ReadHeader") }
func (m vf45EngineMetrics) AddReadObjectDuration(time.Duration)            { m.w.effect("engine.ReadObject") }
func (m vf45EngineMetrics) AddReadPayloadRangeDuration(time.Duration)      { m.w.effect("engine.ReadPayloadRange") }
func (m vf45EngineMetrics) AddGetStreamDuration(time.Duration)             { m.w.effect("engine.GetStream") }
func (m vf45EngineMetrics) AddGetRangeStreamDuration(time.Duration)        { m.w.effect("engine.GetRangeStream") }
func (m vf45EngineMetrics) AddInhumeDuration(time.Duration)                { m.w.effect("engine.Inhume") }
func (m vf45EngineMetrics) AddPutDuration(time.Duration)                   { m.w.effect("engine.Put") }
func (m vf45EngineMetrics) AddRangeDuration(time.Duration)                 { m.w.effect("engine.Range") }
func (m vf45EngineMetrics) AddSearchDuration(time.Duration)                { m.w.effect("engine.Search") }
func (m vf45EngineMetrics) AddListObjectsDuration(time.Duration)           { m.w.effect("engine.ListObjects") }
func (m vf45EngineMetrics) AddGetECPartDuration(time.Duration)             { m.w.effect("engine.GetECPart") }
func (m vf45EngineMetrics) AddReadECPartDuration(time.Duration)            { m.w.effect("engine.ReadECPart") }
func (m vf45EngineMetrics) AddGetECPartRangeDuration(time.Duration)        { m.w.effect("engine.GetECPartRange") }
func (m vf45EngineMetrics) AddHeadECPartDuration(time.Duration)            { m.w.effect("engine.HeadECPart") }
func (m vf45EngineMetrics) AddReadECPartHeaderDuration(time.Duration)      { m.w.effect("engine.ReadECPartHeader") }
func (m vf45EngineMetrics) AddReadECPartRangeDuration(time.Duration)       { m.w.effect("engine.ReadECPartRange") }
func (m vf45EngineMetrics) SetObjectCounter(string, string, uint64)        {}
func (m vf45EngineMetrics) AddToObjectCounter(string, string, int)         {}
func (m vf45EngineMetrics) SetReadonly(string, bool)                       {}
func (m vf45EngineMetrics) AddToContainerSize(string, int64)               {}
func (m vf45EngineMetrics) AddToPayloadCounter(string, int64)              {}

type vf45EACLSource struct{ w *vf45World }

func (e vf45EACLSource) GetEACL(id cid.ID) (eacl.Table, error) {
	e.w.read("chain.eacl")
	others := []eacl.Target{eacl.NewTargetByRole(eacl.RoleOthers)}
	var rs []eacl.Record
	for _, op := range []eacl.Operation{eacl.OperationGet, eacl.OperationHead, eacl.OperationPut, eacl.OperationDelete, eacl.OperationSearch, eacl.OperationRange, eacl.OperationRangeHash} {
		rs = append(rs, eacl.ConstructRecord(eacl.ActionDeny, op, others, eacl.NewObjectPropertyFilter("vf45-forbidden", eacl.MatchStringEqual, "yes")))
	}
	return eacl.NewTableForContainer(id, rs), nil
}

type vf45HeaderSource struct{ w *vf45World }

func (h vf45HeaderSource) Head(context.Context, oid.Address) (*object.Object, error) {
	h.w.effect("acl.headerSource.Head") // getsvc in the node: local storage and other nodes
	return nil, apistatus.ErrObjectNotFound
}

type vf45ACL struct {
	w    *vf45World
	real *aclchk.Checker
}

func (a vf45ACL) CheckBasicACL(i aclsvc.RequestInfo) bool { a.w.read("acl.basic"); return a.real.CheckBasicACL(i) }
func (a vf45ACL) CheckEACL(ctx context.Context, m any, c cid.ID, o oid.ID, i aclsvc.RequestInfo) error {
	a.w.read("acl.eacl")
	return a.real.CheckEACL(ctx, m, c, o, i)
}
func (a vf45ACL) StickyBitCheck(i aclsvc.RequestInfo, u user.ID) bool {
	a.w.read("acl.sticky")
	return a.real.StickyBitCheck(i, u)
}

type vf45ReqInfo struct{ w *vf45World }

func (x vf45ReqInfo) info(op acl.Op, req any) aclsvc.RequestInfo {
	x.w.read("acl.requestInfo")
	return aclsvc.RequestInfo{RequestRole: acl.RoleOthers, Operation: op, Container: x.w.cnr, SrcRequest: req}
}
func (x vf45ReqInfo) PutRequestToInfo(_ context.Context, r *protoobject.PutRequest, in *protoobject.PutRequest_Body_Init, _ cid.ID, op acl.Op, _ common.RequestTokens) (aclsvc.RequestInfo, user.ID, error) {
	var owner user.ID
	if m := in.GetHeader().GetOwnerId(); m != nil {
		_ = owner.FromProtoMessage(m)
	}
	return x.info(op, r), owner, nil
}
func (x vf45ReqInfo) DeleteRequestToInfo(_ context.Context, r *protoobject.DeleteRequest, _ cid.ID, _ common.RequestTokens) (aclsvc.RequestInfo, error) {
	return x.info(acl.OpObjectDelete, r), nil
}
func (x vf45ReqInfo) HeadRequestToInfo(_ context.Context, r *protoobject.HeadRequest, _ cid.ID, _ common.RequestTokens) (aclsvc.RequestInfo, error) {
	return x.info(acl.OpObjectHead, r), nil
}
func (x vf45ReqInfo) GetRequestToInfo(_ context.Context, r *protoobject.GetRequest, _ cid.ID, _ common.RequestTokens) (aclsvc.RequestInfo, error) {
	return x.info(acl.OpObjectGet, r), nil
}
func (x vf45ReqInfo) RangeRequestToInfo(_ context.Context, r *protoobject.GetRangeRequest, _ cid.ID, _ common.RequestTokens) (aclsvc.RequestInfo, error) {
	return x.info(acl.OpObjectRange, r), nil
}
func (x vf45ReqInfo) SearchV2RequestToInfo(_ context.Context, r *protoobject.SearchV2Request, _ cid.ID, _ common.RequestTokens) (aclsvc.RequestInfo, error) {
	return x.info(acl.OpObjectSearch, r), nil
}
func (x vf45ReqInfo) VerifySessionTokenMessage(m *protosession.SessionTokenV2, _ sessionv2.Verb, _ cid.ID) (sessionv2.Token, error) {
	x.w.read("acl.sessionV2")
	var t sessionv2.Token
	return t, t.FromProtoMessage(m)
}
func (x vf45ReqInfo) VerifySessionV1TokenMessage(m *protosession.SessionToken, _ session.ObjectVerb, _ cid.ID, _ oid.ID) (session.Object, error) {
	x.w.read("acl.sessionV1")
	var t session.Object
	return t, t.FromProtoMessage(m)
}
func (x vf45ReqInfo) VerifyBearerTokenMessage(m *protoacl.BearerToken) (bearer.Token, error) {
	x.w.read("acl.bearer")
	var t bearer.Token
	return t, t.FromProtoMessage(m)
}

type vf45Metrics struct{}

func (vf45Metrics) HandleOpExecResult(stat.Method, bool, time.Duration) {}
func (vf45Metrics) AddPutPayload(int)                                   {}
func (vf45Metrics) AddGetPayload(int)                                   {}

func vf45NewWorld(rng *rand.Rand, maintenance bool) *vf45World {
	w := &vf45World{reads: map[string]int{}, epoch: 10}
	w.maintenance.Store(maintenance)
	w.nodeKey = vf45Key(rng)
	w.nodePub = vf45Pub(w.nodeKey)
	w.remoteKey = vf45Key(rng)
	w.remotePub = vf45Pub(w.remoteKey)
	return w
}

// finish wires the server once the container (owner!) is known.
func (w *vf45World) finish(cnrID cid.ID, cnr container.Container) {
	w.cnrID, w.cnr = cnrID, cnr
	pn := vf45PutNet{w}
	w.putSvc = putsvc.NewService(vf45PutTransport{w}, pn, nil, pn, pn,
		putsvc.WithLogger(zap.NewNop()),
		putsvc.WithKeyStorage(objutil.NewKeyStorage(w.nodeKey, pn, pn)),
		putsvc.WithObjectStorage(vf45PutStore{w}),
		putsvc.WithMaxSizeSource(pn),
		putsvc.WithContainerSource(pn),
		putsvc.WithNetworkState(pn),
		putsvc.WithClientConstructor(vf45Clients{w, "put.clients.Get"}),
		putsvc.WithSplitChainVerifier(pn),
		putsvc.WithTombstoneVerifier(pn),
		putsvc.WithPostPlacementReplicator(pn),
	)
	eng := engine.New(engine.WithMetrics(vf45EngineMetrics{w}), engine.WithLogger(zap.NewNop()))
	checker := aclchk.NewChecker(new(aclchk.CheckerPrm).
		SetEACLSource(vf45EACLSource{w}).
		SetValidator(eacl.NewValidator()).
		SetLocalStorage(eng).
		SetHeaderSource(vf45HeaderSource{w}))
	w.srv = New(vf45Handlers{w}, vf45Chain{w}, vf45Storage{w}, nil, *w.nodeKey, vf45Metrics{},
		vf45ACL{w, checker}, vf45ReqInfo{w}, vf45Clients{w, "clients.Get"}, zap.NewNop())
}

// ---------------------------------------------------------------------------------------
// recording gRPC streams

type vf45Stream struct {
	ctx   context.Context
	mu    sync.Mutex
	msgs  [][]byte // every response message in wire form
	typed []proto.Message
}

func (s *vf45Stream) SetHeader(metadata.MD) error  { return nil }
func (s *vf45Stream) SendHeader(metadata.MD) error { return nil }
func (s *vf45Stream) SetTrailer(metadata.MD)       {}
func (s *vf45Stream) Context() context.Context     { return s.ctx }
func (s *vf45Stream) RecvMsg(any) error            { return io.EOF }
func (s *vf45Stream) SendMsg(m any) error {
	// the node's codec: custom buffers go to the wire as they are, then gRPC frees them
	data, err := iprotobuf.BufferedCodec{}.Marshal(m)
	if err != nil {
		return err
	}
	b := data.Materialize()
	data.Free()
	s.mu.Lock()
	s.msgs = append(s.msgs, b)
	s.mu.Unlock()
	return nil
}

type vf45GetStream struct{ vf45Stream }

func (s *vf45GetStream) Send(r *protoobject.GetResponse) error { return s.SendMsg(r) }

type vf45RangeStream struct{ vf45Stream }

func (s *vf45RangeStream) Send(r *protoobject.GetRangeResponse) error { return s.SendMsg(r) }

type vf45SearchStream struct{ vf45Stream }

func (s *vf45SearchStream) Send(r *protoobject.SearchResponse) error { return s.SendMsg(r) }

type vf45PutStream struct {
	vf45Stream
	reqs []*protoobject.PutRequest
	next int
	// flipAt >= 0: the node enters maintenance right before message #flipAt is delivered
	flipAt      int
	w           *vf45World
	effectsThen int
}

func (s *vf45PutStream) Recv() (*protoobject.PutRequest, error) {
	if s.flipAt >= 0 && s.next == s.flipAt && s.w != nil {
		s.w.maintenance.Store(true)
		e, _ := s.w.snapshot()
		s.effectsThen = len(e)
		s.flipAt = -1
	}
	if s.next >= len(s.reqs) {
		return nil, io.EOF
	}
	s.next++
	return s.reqs[s.next-1], nil
}
func (s *vf45PutStream) SendAndClose(r *protoobject.PutResponse) error { return s.SendMsg(r) }

// ---------------------------------------------------------------------------------------
// outcome of one call

type vf45Outcome struct {
	Codes        []uint32 // NeoFS status code of every response message
	Messages     []string `json:",omitempty"`
	GRPCErr      string   // transport-level error returned by the handler ("" = nil)
	GRPCCode     string
	Panic        string
	Responses    int
	PayloadBytes int  // object payload bytes in responses
	HeaderSent   bool // object header / ids / search items in responses
	Effects      []string
	Reads        map[string]int
	// Put only: number of effects recorded before the node entered maintenance mid-stream
	EffectsBeforeFlip int
}

func vf45AnyBytes(v any) ([]byte, error) {
	switch m := v.(type) {
	case nil:
		return nil, errors.New("nil response")
	case proto.Message:
		return proto.Marshal(m)
	default:
		data, err := iprotobuf.BufferedCodec{}.Marshal(v)
		if err != nil {
			return nil, err
		}
		b := data.Materialize()
		data.Free()
		return b, nil
	}
}

// ---------------------------------------------------------------------------------------
// case generation

type vf45Case struct {
	Idx     int    `json:"idx"`
	RPC     string `json:"rpc"`
	Scheme  string `json:"scheme"`
	TTL     uint32 `json:"ttl"`
	Version string `json:"version"`
	Token   string `json:"token"`
	Variant string `json:"variant"`
	Layers  int    `json:"sign_layers"`
	Peer    string `json:"peer"` // "", "trusted" (mutual TLS peer), "trusted-unsigned"
	// Shape of the OPTIONAL request parts (everything the protocol lets a client leave out):
	// "full" (version, TTL, epoch, maybe X-headers/tokens), "absent" (no meta header message at
	// all), "empty" (present but all fields default), "bare-ttl" (only the TTL), "no-version",
	// "xheaders" (many X-headers incl. system ones).  Put streams additionally
	// "chunks-absent" / "chunks-empty": only the init message carries the full meta header.
	Meta string `json:"meta"`
}

func (c vf45Case) sig() string {
	return fmt.Sprintf("%s|%s|ttl%d|%s|%s|%s|l%d|%s|%s", c.RPC, c.Scheme, min(c.TTL, 3), c.Version, c.Token, c.Variant, c.Layers, c.Peer, c.Meta)
}

type vf45Client struct {
	key    *ecdsa.PrivateKey
	signer neofscrypto.Signer
	usr    user.ID
}

func vf45NewClient(rng *rand.Rand, scheme string) vf45Client {
	k := vf45Key(rng)
	c := vf45Client{key: k, usr: user.NewFromECDSAPublicKey(k.PublicKey)}
	switch scheme {
	case "sha512":
		c.signer = neofsecdsa.Signer(*k)
	case "rfc6979":
		c.signer = neofsecdsa.SignerRFC6979(*k)
	default:
		c.signer = neofsecdsa.SignerWalletConnect(*k)
	}
	return c
}

func vf45Version(name string) *refs.Version {
	switch name {
	case "2.17":
		return &refs.Version{Major: 2, Minor: 17}
	case "2.18":
		return &refs.Version{Major: 2, Minor: 18}
	default:
		return version.Current().ProtoMessage()
	}
}

func vf45Container(owner user.ID) (cid.ID, container.Container) {
	var cnr container.Container
	cnr.Init()
	cnr.SetOwner(owner)
	cnr.SetBasicACL(acl.PublicRWExtended)
	var pp netmap.PlacementPolicy
	var rd netmap.ReplicaDescriptor
	rd.SetNumberOfObjects(2)
	pp.SetReplicas([]netmap.ReplicaDescriptor{rd})
	cnr.SetPlacementPolicy(pp)
	return cid.NewFromMarshalledContainer(cnr.Marshal()), cnr
}

// signing helper for all request types: one layer by the client, optional extra layers by
// "intermediate nodes" (meta header nested in Origin, TTL decremented).
func vf45SignLayers[B neofscrypto.ProtoMessage](req neofscrypto.SignedRequest[B], first neofscrypto.Signer, extra []neofscrypto.Signer,
	setMeta func(*protosession.RequestMetaHeader), setVH func(*protosession.RequestVerificationHeader)) error {
	vh, err := neofscrypto.SignRequestWithBuffer(first, req, nil)
	if err != nil {
		return err
	}
	setVH(vh)
	for _, s := range extra {
		m := req.GetMetaHeader()
		setMeta(&protosession.RequestMetaHeader{Version: m.GetVersion(), Ttl: m.GetTtl() - 1, Origin: m})
		vh, err = neofscrypto.SignRequestWithBuffer(s, req, nil)
		if err != nil {
			return err
		}
		setVH(vh)
	}
	return nil
}

var vf45Schemes = []string{"sha512", "rfc6979", "walletconnect"}

func vf45Meta(rng *rand.Rand, c *vf45Case, owner vf45Client, cnrID cid.ID, objID oid.ID, verb session.ObjectVerb, verb2 sessionv2.Verb) *protosession.RequestMetaHeader {
	m := &protosession.RequestMetaHeader{Version: vf45Version(c.Version), Ttl: c.TTL, Epoch: 10}
	if rng.IntN(3) == 0 {
		m.XHeaders = []*protosession.XHeader{{Key: "X-Vf-" + fmt.Sprint(rng.IntN(9)), Value: "v"}}
	}
	switch c.Token {
	case "sessionV1":
		var t session.Object
		id := [16]byte(verifkit.RandBytes(rng, 16))
		id[6], id[8] = id[6]&0x0f|0x40, id[8]&0x3f|0x80 // UUID v4
		t.SetID(id)
		t.SetExp(100)
		t.SetNbf(1)
		t.SetIat(1)
		t.BindContainer(cnrID)
		if !objID.IsZero() && rng.IntN(2) == 0 {
			t.LimitByObjects(objID)
		}
		t.ForVerb(verb)
		t.SetAuthKey(neofsecdsa.Signer(*owner.key).Public())
		if err := t.Sign(user.NewAutoIDSignerRFC6979(*owner.key)); err != nil {
			panic(err)
		}
		m.SessionToken = t.ProtoMessage()
	case "sessionV2":
		var t sessionv2.Token
		t.SetVersion(sessionv2.TokenCurrentVersion)
		now := time.Unix(1_700_000_000, 0)
		t.SetIat(now)
		t.SetNbf(now)
		t.SetExp(now.Add(time.Hour))
		_ = t.AddSubject(sessionv2.NewTargetUser(owner.usr))
		ctx, err := sessionv2.NewContext(cnrID, []sessionv2.Verb{verb2})
		if err != nil {
			panic(err)
		}
		_ = t.AddContext(ctx)
		t.SetIssuer(owner.usr)
		if err := t.Sign(user.NewAutoIDSignerRFC6979(*owner.key)); err != nil {
			panic(err)
		}
		m.SessionTokenV2 = t.ProtoMessage()
	case "bearer":
		var t bearer.Token
		t.SetExp(100)
		t.SetNbf(1)
		t.SetIat(1)
		t.SetEACLTable(eacl.NewTableForContainer(cnrID, nil))
		if err := t.Sign(user.NewAutoIDSignerRFC6979(*owner.key)); err != nil {
			panic(err)
		}
		m.BearerToken = t.ProtoMessage()
	}
	return vf45ShapeMeta(rng, c.Meta, m)
}

// Shapes of the optional request parts, see vf45Case.Meta.  The order matters: index 0 is
// the full shape.
var vf45MetaShapes = []string{"full", "full", "full", "full", "full", "full", "full", "absent", "absent", "empty", "bare-ttl", "no-version", "xheaders", "chunks-absent", "chunks-empty"}

// vf45ShapeMeta leaves out the parts of a fully populated meta header that the shape says the
// client did not send.  Whether the node accepts such a request at all is decided by the
// positive control, not here.
func vf45ShapeMeta(rng *rand.Rand, shape string, m *protosession.RequestMetaHeader) *protosession.RequestMetaHeader {
	switch shape {
	case "absent":
		return nil
	case "empty":
		return &protosession.RequestMetaHeader{}
	case "bare-ttl":
		return &protosession.RequestMetaHeader{Ttl: m.Ttl}
	case "no-version":
		m.Version = nil
	case "xheaders":
		for i, n := 0, 2+rng.IntN(5); i < n; i++ {
			m.XHeaders = append(m.XHeaders, &protosession.XHeader{Key: fmt.Sprintf("X-Vf-%d-%d", i, rng.IntN(99)), Value: fmt.Sprint(rng.IntN(99))})
		}
		if rng.IntN(4) == 0 { // the system X-headers of EC part requests
			m.XHeaders = append(m.XHeaders, &protosession.XHeader{Key: iec.AttributeRuleIdx, Value: "0"})
			if rng.IntN(2) == 0 {
				m.XHeaders = append(m.XHeaders, &protosession.XHeader{Key: iec.AttributePartIdx, Value: fmt.Sprint(rng.IntN(3))})
			}
		}
	}
	return m
}

func vf45PeerCtx(c vf45Case, peerKey *ecdsa.PrivateKey) context.Context {
	ctx := context.Background()
	if c.Peer != "" {
		ctx = peer.NewContext(ctx, &peer.Peer{AuthInfo: peerauth.AuthInfo{PublicKey: (*keys.PublicKey)(&peerKey.PublicKey)}})
	}
	return ctx
}

func vf45CodesOf[R interface {
	proto.Message
	GetMetaHeader() *protosession.ResponseMetaHeader
}](msgs [][]byte, mk func() R, inspect func(R, *vf45Outcome), o *vf45Outcome) {
	for _, b := range msgs {
		r := mk()
		if err := proto.Unmarshal(b, r); err != nil {
			o.Panic = "harness: undecodable response: " + err.Error()
			continue
		}
		o.Responses++
		o.Codes = append(o.Codes, r.GetMetaHeader().GetStatus().GetCode())
		if m := r.GetMetaHeader().GetStatus().GetMessage(); m != "" {
			o.Messages = append(o.Messages, m)
		}
		inspect(r, o)
	}
}

func vf45SetErr(o *vf45Outcome, err error) {
	if err != nil {
		o.GRPCErr = err.Error()
		o.GRPCCode = grpcstatus.Code(err).String()
	}
}

// vf45Generate builds case idx.  The same *vf45Built is fired at the control world and at
// the maintenance world (requests are rebuilt identically by rebuild()).
func vf45Generate(r *verifkit.Run, idx int, rpcs []string) (*vf45Case, func(maintenance bool) (*vf45World, vf45Outcome)) {
	pick := r.Rand("case", idx)
	c := &vf45Case{Idx: idx}
	c.RPC = rpcs[idx%len(rpcs)]
	c.Scheme = vf45Schemes[pick.IntN(len(vf45Schemes))]
	c.TTL = []uint32{1, 1, 2, 2, 3, 10}[pick.IntN(6)]
	c.Version = []string{"2.17", "2.18", "current", "current"}[pick.IntN(4)]
	c.Token = []string{"", "", "", "sessionV1", "sessionV2", "bearer"}[pick.IntN(6)]
	c.Layers = 1
	if c.TTL >= 3 && pick.IntN(3) == 0 {
		c.Layers = 2
	}
	if pick.IntN(8) == 0 {
		c.Peer = "trusted"
		if c.Layers == 1 && pick.IntN(2) == 0 {
			c.Peer = "trusted-unsigned"
			c.TTL = 1 // the only shape for which the protocol waives the signature
		}
	}
	variantPick := pick.IntN(1 << 16)
	// which of the optional request parts the client sends (drawn last: older dimensions keep
	// their streams)
	c.Meta = vf45MetaShapes[pick.IntN(len(vf45MetaShapes))]
	if strings.HasPrefix(c.Meta, "chunks-") && c.RPC != "Put" {
		c.Meta = strings.TrimPrefix(c.Meta, "chunks-") // single-message RPCs: the message itself
	}
	switch vf45Known[c.RPC] {
	case "legacy":
		c.Meta = "full" // not served at all, whatever they carry
	case "node":
		c.Meta = "-" // Replicate requests have no meta header
	}
	switch c.Meta {
	case "absent", "empty":
		// nothing of the meta header reaches the node: the fields it would carry are defaults
		c.TTL, c.Version, c.Token, c.Layers = 0, "-", "", 1
		if c.Peer == "trusted-unsigned" {
			c.Peer = "trusted" // the signature waiver is bound to TTL=1
		}
	case "bare-ttl":
		c.Version, c.Token, c.Layers = "-", "", 1
	case "no-version":
		c.Version = "-"
	case "chunks-absent", "chunks-empty":
		// payload messages without TTL/origin chain: one signature layer, signature not waivable
		c.Layers = 1
		if c.Peer == "trusted-unsigned" {
			c.Peer = "trusted"
		}
	}

	run := func(maintenance bool) (w *vf45World, o vf45Outcome) {
		// identical generator state for both worlds
		rng := r.Rand("build", idx)
		w = vf45NewWorld(rng, maintenance)
		owner := vf45NewClient(rng, c.Scheme)
		cnrID, cnr := vf45Container(owner.usr)
		w.finish(cnrID, cnr)
		objID := verifkit.RandOID(rng)
		addr := oid.NewAddress(cnrID, objID).ProtoMessage()
		var extra []neofscrypto.Signer
		if c.Layers == 2 {
			extra = append(extra, neofsecdsa.Signer(*w.remoteKey))
		}
		ctx := vf45PeerCtx(*c, w.remoteKey)
		unsigned := c.Peer == "trusted-unsigned"
		defer func() {
			o.Effects, o.Reads = w.snapshot()
		}()
		guard := func(f func()) {
			defer func() {
				if p := recover(); p != nil {
					o.Panic = fmt.Sprint(p)
				}
			}()
			f()
		}

		switch c.RPC {
		case "Get":
			body := &protoobject.GetRequest_Body{Address: addr}
			switch variantPick % 6 {
			case 0:
				c.Variant = "plain"
			case 1:
				c.Variant = "raw"
				body.Raw = true
			case 2:
				c.Variant = "range"
				body.Range = &protoobject.Range{Offset: uint64(rng.IntN(100)), Length: 1 + uint64(rng.IntN(100))}
			case 3:
				c.Variant = "xrange"
				f, l := uint64(rng.IntN(50)), uint64(50+rng.IntN(50))
				body.ExtendedRange = &protoobject.ExtendedRange{FirstPos: &f, LastPos: &l}
			case 4:
				c.Variant = "payloadOnly"
				body.PayloadOnly = true
			case 5:
				c.Variant = "payloadOnly+range"
				body.PayloadOnly = true
				body.Range = &protoobject.Range{Length: 7}
			}
			req := &protoobject.GetRequest{Body: body}
			req.MetaHeader = vf45Meta(rng, c, owner, cnrID, objID, session.VerbObjectGet, sessionv2.VerbObjectGet)
			if !unsigned {
				if err := vf45SignLayers(req, owner.signer, extra, func(m *protosession.RequestMetaHeader) { req.MetaHeader = m }, func(v *protosession.RequestVerificationHeader) { req.VerifyHeader = v }); err != nil {
					panic(err)
				}
			}
			st := &vf45GetStream{vf45Stream{ctx: ctx}}
			guard(func() { vf45SetErr(&o, w.srv.Get(req, st)) })
			vf45CodesOf(st.msgs, func() *protoobject.GetResponse { return new(protoobject.GetResponse) }, func(m *protoobject.GetResponse, o *vf45Outcome) {
				o.PayloadBytes += len(m.GetBody().GetChunk())
				if m.GetBody().GetInit() != nil || m.GetBody().GetSplitInfo() != nil {
					o.HeaderSent = true
				}
			}, &o)
		case "GetRange":
			body := &protoobject.GetRangeRequest_Body{Address: addr, Range: &protoobject.Range{Offset: uint64(rng.IntN(100)), Length: 1 + uint64(rng.IntN(100))}}
			c.Variant = "range"
			if variantPick%3 == 1 {
				c.Variant = "raw"
				body.Raw = true
			} else if variantPick%3 == 2 {
				c.Variant = "whole"
				body.Range = &protoobject.Range{}
			}
			req := &protoobject.GetRangeRequest{Body: body}
			req.MetaHeader = vf45Meta(rng, c, owner, cnrID, objID, session.VerbObjectRange, sessionv2.VerbObjectRange)
			if !unsigned {
				if err := vf45SignLayers(req, owner.signer, extra, func(m *protosession.RequestMetaHeader) { req.MetaHeader = m }, func(v *protosession.RequestVerificationHeader) { req.VerifyHeader = v }); err != nil {
					panic(err)
				}
			}
			st := &vf45RangeStream{vf45Stream{ctx: ctx}}
			guard(func() { vf45SetErr(&o, w.srv.GetRange(req, st)) })
			vf45CodesOf(st.msgs, func() *protoobject.GetRangeResponse { return new(protoobject.GetRangeResponse) }, func(m *protoobject.GetRangeResponse, o *vf45Outcome) {
				o.PayloadBytes += len(m.GetBody().GetChunk())
				if m.GetBody().GetSplitInfo() != nil {
					o.HeaderSent = true
				}
			}, &o)
		case "Head":
			body := &protoobject.HeadRequest_Body{Address: addr}
			c.Variant = "plain"
			if variantPick%3 == 1 {
				c.Variant = "raw"
				body.Raw = true
			} else if variantPick%3 == 2 {
				c.Variant = "mainOnly"
				body.MainOnly = true
			}
			req := &protoobject.HeadRequest{Body: body}
			req.MetaHeader = vf45Meta(rng, c, owner, cnrID, objID, session.VerbObjectHead, sessionv2.VerbObjectHead)
			if !unsigned {
				if err := vf45SignLayers(req, owner.signer, extra, func(m *protosession.RequestMetaHeader) { req.MetaHeader = m }, func(v *protosession.RequestVerificationHeader) { req.VerifyHeader = v }); err != nil {
					panic(err)
				}
			}
			var resp any
			guard(func() { resp = w.srv.HeadBuffered(ctx, req) }) // the handler the node registers for "Head"
			if o.Panic == "" {
				b, err := vf45AnyBytes(resp)
				if err != nil {
					o.Panic = "harness: " + err.Error()
				} else {
					vf45CodesOf([][]byte{b}, func() *protoobject.HeadResponse { return new(protoobject.HeadResponse) }, func(m *protoobject.HeadResponse, o *vf45Outcome) {
						if m.GetBody().GetHead() != nil {
							o.HeaderSent = true
						}
					}, &o)
				}
			}
		case "Delete":
			c.Variant = "plain"
			req := &protoobject.DeleteRequest{Body: &protoobject.DeleteRequest_Body{Address: addr}}
			req.MetaHeader = vf45Meta(rng, c, owner, cnrID, objID, session.VerbObjectDelete, sessionv2.VerbObjectDelete)
			if !unsigned {
				if err := vf45SignLayers(req, owner.signer, extra, func(m *protosession.RequestMetaHeader) { req.MetaHeader = m }, func(v *protosession.RequestVerificationHeader) { req.VerifyHeader = v }); err != nil {
					panic(err)
				}
			}
			guard(func() {
				resp, err := w.srv.Delete(ctx, req)
				vf45SetErr(&o, err)
				if resp != nil {
					o.Responses++
					o.Codes = append(o.Codes, resp.GetMetaHeader().GetStatus().GetCode())
					if m := resp.GetMetaHeader().GetStatus().GetMessage(); m != "" {
						o.Messages = append(o.Messages, m)
					}
					if resp.GetBody().GetTombstone() != nil {
						o.HeaderSent = true
					}
				}
			})
		case "SearchV2":
			body := &protoobject.SearchV2Request_Body{ContainerId: cnrID.ProtoMessage(), Version: 1, Count: 1 + uint32(rng.IntN(1000))}
			switch variantPick % 4 {
			case 0:
				c.Variant = "all"
			case 1:
				c.Variant = "attr-eq"
				body.Filters = []*protoobject.SearchFilter{{MatchType: protoobject.MatchType_STRING_EQUAL, Key: "k", Value: "v"}}
				body.Attributes = []string{"k"}
			case 2:
				c.Variant = "root"
				body.Filters = []*protoobject.SearchFilter{{Key: object.FilterRoot}}
			case 3:
				c.Variant = "num-gt"
				body.Filters = []*protoobject.SearchFilter{{MatchType: protoobject.MatchType_NUM_GT, Key: "n", Value: "5"}}
			}
			req := &protoobject.SearchV2Request{Body: body}
			req.MetaHeader = vf45Meta(rng, c, owner, cnrID, oid.ID{}, session.VerbObjectSearch, sessionv2.VerbObjectSearch)
			if !unsigned {
				if err := vf45SignLayers(req, owner.signer, extra, func(m *protosession.RequestMetaHeader) { req.MetaHeader = m }, func(v *protosession.RequestVerificationHeader) { req.VerifyHeader = v }); err != nil {
					panic(err)
				}
			}
			var resp any
			guard(func() { resp = w.srv.SearchV2Buffered(ctx, req) }) // the handler the node registers for "SearchV2"
			if o.Panic == "" {
				b, err := vf45AnyBytes(resp)
				if err != nil {
					o.Panic = "harness: " + err.Error()
				} else {
					vf45CodesOf([][]byte{b}, func() *protoobject.SearchV2Response { return new(protoobject.SearchV2Response) }, func(m *protoobject.SearchV2Response, o *vf45Outcome) {
						if len(m.GetBody().GetResult()) > 0 {
							o.HeaderSent = true
						}
					}, &o)
				}
			}
		case "Put":
			obj := object.New(cnrID, owner.usr)
			payload := verifkit.RandBytes(rng, []int{0, 1, 100, 5000}[variantPick%4])
			obj.SetPayload(payload)
			obj.SetPayloadSize(uint64(len(payload)))
			c.Variant = fmt.Sprintf("regular/%dB", len(payload))
			if (variantPick/4)%4 == 0 {
				c.Variant = "tombstone"
				payload = nil
				obj.SetPayload(nil)
				obj.SetPayloadSize(0)
				obj.SetAttributes(object.NewAttribute(object.AttributeExpirationEpoch, "100"))
				obj.AssociateDeleted(verifkit.RandOID(rng))
			}
			obj.SetCreationEpoch(10)
			if err := obj.SetVerificationFields(user.NewAutoIDSignerRFC6979(*owner.key)); err != nil {
				panic(err)
			}
			mo := obj.ProtoMessage()
			mk := func(part *protoobject.PutRequest_Body) *protoobject.PutRequest {
				req := &protoobject.PutRequest{Body: part}
				// per-message shape of the optional parts: "chunks-X" = the init message is fully
				// populated, the payload messages carry shape X
				mc := *c
				if sh, ok := strings.CutPrefix(c.Meta, "chunks-"); ok {
					mc.Meta = "full"
					if part.GetInit() == nil {
						mc.Meta = sh
					}
				}
				req.MetaHeader = vf45Meta(rng, &mc, owner, cnrID, oid.ID{}, session.VerbObjectPut, sessionv2.VerbObjectPut)
				if c.Variant == "tombstone" {
					req.MetaHeader = vf45Meta(rng, &mc, owner, cnrID, oid.ID{}, session.VerbObjectDelete, sessionv2.VerbObjectDelete)
				}
				if !unsigned {
					if err := vf45SignLayers(req, owner.signer, extra, func(m *protosession.RequestMetaHeader) { req.MetaHeader = m }, func(v *protosession.RequestVerificationHeader) { req.VerifyHeader = v }); err != nil {
						panic(err)
					}
				}
				return req
			}
			st := &vf45PutStream{vf45Stream: vf45Stream{ctx: ctx}, flipAt: -1, w: w}
			st.reqs = append(st.reqs, mk(&protoobject.PutRequest_Body{ObjectPart: &protoobject.PutRequest_Body_Init_{Init: &protoobject.PutRequest_Body_Init{
				ObjectId: mo.ObjectId, Signature: mo.Signature, Header: mo.Header}}}))
			for off := 0; off < len(payload); off += 2048 {
				st.reqs = append(st.reqs, mk(&protoobject.PutRequest_Body{ObjectPart: &protoobject.PutRequest_Body_Chunk{Chunk: payload[off:min(off+2048, len(payload))]}}))
			}
			if len(st.reqs) == 1 && strings.HasPrefix(c.Meta, "chunks-") {
				c.Meta = "full" // no payload message to shape
			}
			if (variantPick/16)%3 == 0 && len(st.reqs) > 1 {
				// the node enters maintenance while the stream is open: from then on the
				// operation must not touch anything and must end with the maintenance status
				// (only before a message: a flip between the last message and the stream close is
				// the unavoidable check-then-act window and is not judged)
				k := 1 + (variantPick/64)%(len(st.reqs)-1) // 1..len-1
				c.Variant += fmt.Sprintf("/flip@msg%d", min(k, 2))
				if maintenance {
					w.maintenance.Store(false)
					st.flipAt = k
				}
			}
			guard(func() { vf45SetErr(&o, w.srv.Put(st)) })
			o.EffectsBeforeFlip = st.effectsThen
			vf45CodesOf(st.msgs, func() *protoobject.PutResponse { return new(protoobject.PutResponse) }, func(m *protoobject.PutResponse, o *vf45Outcome) {
				if m.GetBody().GetObjectId() != nil {
					o.HeaderSent = true
				}
			}, &o)
		case "Replicate":
			obj := object.New(cnrID, owner.usr)
			payload := verifkit.RandBytes(rng, 64)
			obj.SetPayload(payload)
			obj.SetPayloadSize(uint64(len(payload)))
			if err := obj.SetVerificationFields(user.NewAutoIDSignerRFC6979(*owner.key)); err != nil {
				panic(err)
			}
			id := obj.GetID()
			var ns neofscrypto.Signer
			var sch refs.SignatureScheme
			switch c.Scheme {
			case "sha512":
				ns, sch = neofsecdsa.Signer(*w.remoteKey), refs.SignatureScheme_ECDSA_SHA512
			case "rfc6979":
				ns, sch = neofsecdsa.SignerRFC6979(*w.remoteKey), refs.SignatureScheme_ECDSA_RFC6979_SHA256
			default:
				ns, sch = neofsecdsa.SignerWalletConnect(*w.remoteKey), refs.SignatureScheme_ECDSA_RFC6979_SHA256_WALLET_CONNECT
			}
			sg, err := ns.Sign(id[:])
			if err != nil {
				panic(err)
			}
			c.Variant, c.Token, c.Version, c.Layers, c.TTL = "object", "", "-", 0, 0
			req := &protoobject.ReplicateRequest{Object: obj.ProtoMessage(), Signature: &refs.Signature{Key: w.remotePub, Sign: sg, Scheme: sch}}
			guard(func() {
				resp, err := w.srv.Replicate(ctx, req)
				vf45SetErr(&o, err)
				if resp != nil {
					o.Responses++
					o.Codes = append(o.Codes, resp.GetStatus().GetCode())
				}
			})
		case "Search":
			c.Variant, c.Token, c.Layers = "legacy", "", 1
			req := &protoobject.SearchRequest{Body: &protoobject.SearchRequest_Body{ContainerId: cnrID.ProtoMessage(), Version: 1}}
			req.MetaHeader = vf45Meta(rng, c, owner, cnrID, oid.ID{}, session.VerbObjectSearch, sessionv2.VerbObjectSearch)
			if err := vf45SignLayers(req, owner.signer, nil, func(m *protosession.RequestMetaHeader) { req.MetaHeader = m }, func(v *protosession.RequestVerificationHeader) { req.VerifyHeader = v }); err != nil {
				panic(err)
			}
			st := &vf45SearchStream{vf45Stream{ctx: ctx}}
			guard(func() { vf45SetErr(&o, w.srv.Search(req, st)) })
			vf45CodesOf(st.msgs, func() *protoobject.SearchResponse { return new(protoobject.SearchResponse) }, func(m *protoobject.SearchResponse, o *vf45Outcome) {
				if len(m.GetBody().GetIdList()) > 0 {
					o.HeaderSent = true
				}
			}, &o)
		case "GetRangeHash":
			c.Variant, c.Token, c.Layers = "legacy", "", 1
			req := &protoobject.GetRangeHashRequest{Body: &protoobject.GetRangeHashRequest_Body{Address: addr, Ranges: []*protoobject.Range{{Length: 1}}}}
			req.MetaHeader = vf45Meta(rng, c, owner, cnrID, objID, session.VerbObjectRangeHash, sessionv2.VerbObjectRangeHash)
			if err := vf45SignLayers(req, owner.signer, nil, func(m *protosession.RequestMetaHeader) { req.MetaHeader = m }, func(v *protosession.RequestVerificationHeader) { req.VerifyHeader = v }); err != nil {
				panic(err)
			}
			guard(func() {
				resp, err := w.srv.GetRangeHash(ctx, req)
				vf45SetErr(&o, err)
				if resp != nil {
					o.Responses++
					o.Codes = append(o.Codes, resp.GetMetaHeader().GetStatus().GetCode())
					if len(resp.GetBody().GetHashList()) > 0 {
						o.HeaderSent = true
					}
				}
			})
		default:
			panic("vf45: no driver for " + c.RPC)
		}
		return w, o
	}
	return c, run
}

// ---------------------------------------------------------------------------------------
// inventory

// RPC name -> class.  "client": must be refused under maintenance; "legacy": RPCs the node
// no longer serves (no effect allowed, refusal kind not constrained); "node": node-to-node.
var vf45Known = map[string]string{
	"Get": "client", "Put": "client", "Delete": "client", "Head": "client", "GetRange": "client", "SearchV2": "client",
	"Search": "legacy", "GetRangeHash": "legacy",
	"Replicate": "node",
}

// exported methods of *Server that are not RPCs of the generated interface and that the
// harness knows about (buffered variants registered by the node instead of Head/SearchV2,
// and the in-process search entry point).
var vf45KnownExtra = map[string]bool{"HeadBuffered": true, "SearchV2Buffered": true, "ProcessSearch": true}

func vf45Inventory(r *verifkit.Run) []string {
	it := reflect.TypeOf((*protoobject.ObjectServiceServer)(nil)).Elem()
	names := map[string]bool{}
	for i := 0; i < it.NumMethod(); i++ {
		n := it.Method(i).Name
		if !it.Method(i).IsExported() { // mustEmbedUnimplemented… of newer generators
			continue
		}
		names[n] = true
	}
	for _, m := range protoobject.ObjectService_ServiceDesc.Methods {
		names[m.MethodName] = true
	}
	for _, s := range protoobject.ObjectService_ServiceDesc.Streams {
		names[s.StreamName] = true
	}
	var out []string
	for n := range names {
		if _, ok := vf45Known[n]; !ok {
			r.Inconclusive("object service RPC " + n + " is unknown to the C45 harness (no driver): cannot claim that every client operation is refused")
			continue
		}
		out = append(out, n)
		r.Seen("rpc_inventory", n+":"+vf45Known[n])
	}
	for n := range vf45Known {
		if !names[n] {
			r.Inconclusive("RPC " + n + " known to the harness disappeared from the generated service")
		}
	}
	st := reflect.TypeOf(&Server{})
	for i := 0; i < st.NumMethod(); i++ {
		n := st.Method(i).Name
		if names[n] || vf45KnownExtra[n] {
			continue
		}
		r.Inconclusive("exported Server method " + n + " is unknown to the C45 harness")
	}
	sort.Strings(out)
	return out
}

// vf45ReachedHandler: the request got past all checks to the dependency that serves it
// (header look-ups made by the ACL checker do not count).
func vf45ReachedHandler(effects []string) bool {
	for _, e := range effects {
		if !strings.HasPrefix(e, "engine.") && !strings.HasPrefix(e, "acl.") {
			return true
		}
	}
	return false
}

// ---------------------------------------------------------------------------------------

func TestVerif_C45(t *testing.T) {
	r := verifkit.Start(t, "C45", "exploration")
	defer r.Finish()
	r.SetRule("RPC inventory by reflection over protoobject.ObjectServiceServer + service descriptor; per case one seeded valid request (RPC x signature scheme x TTL x API version x session/bearer token x body variant x signature layers x TLS-peer context x shape of the optional request parts: meta header full/absent/empty/TTL-only/version-less/many X-headers, for Put also per message); distinct = that tuple; non-trivial = the same request reached the storage/network dependency with maintenance off (positive control) and was then replayed with maintenance on")
	r.Assume("dependencies behind the Server interfaces are recording fakes (Handlers incl. real putsvc.Service over recording store/transport, Storage, ACL, clients); ACL/token verification is permissive because C45 quantifies over valid requests")
	rpcs := vf45Inventory(r)
	if len(rpcs) == 0 {
		r.Inconclusive("empty RPC inventory")
		return
	}
	n := r.Pick(1800, 60000)
	perRPCRefused := map[string]int{}
	for idx := 0; idx < n; idx++ {
		c, run := vf45Generate(r, idx, rpcs)
		class := vf45Known[c.RPC]
		r.Eval(1)

		// positive control
		_, ctl := run(false)
		desc := *c // variant fields are filled while the request is built
		if strings.HasPrefix(ctl.Panic, "harness:") {
			r.Inconclusive(fmt.Sprintf("case %d: %s", idx, ctl.Panic))
			continue
		}
		switch class {
		case "client":
			if ctl.Panic != "" {
				r.Violation("panic|"+c.RPC+"|maintenance-off", "handler panicked on a valid request: "+ctl.Panic, desc)
				continue
			}
			if !vf45ReachedHandler(ctl.Effects) {
				r.Count("control_not_accepted_"+c.RPC, 1)
				r.Seen("control_rejections", fmt.Sprintf("%s %v %s", desc.sig(), ctl.Codes, ctl.GRPCErr))
				r.Seen("control_rejected_rpc_x_meta_shape", c.RPC+"/"+desc.Meta)
				if os.Getenv("VERIF_DEBUG") != "" {
					t.Logf("control rejected: %s codes=%v msgs=%q grpc=%q panic=%q reads=%v", desc.sig(), ctl.Codes, ctl.Messages, ctl.GRPCErr, ctl.Panic, ctl.Reads)
				}
				continue // not a valid request for this tree: do not judge
			}
			r.Count("control_accepted_"+c.RPC, 1)
			for _, e := range ctl.Effects {
				r.Seen("control_effects", e)
			}
		case "node":
			if len(ctl.Effects) == 0 || len(ctl.Codes) != 1 || ctl.Codes[0] != 0 {
				r.Count("control_not_accepted_"+c.RPC, 1)
				r.Seen("control_rejections", fmt.Sprintf("%s %v %s", desc.sig(), ctl.Codes, ctl.GRPCErr))
				continue
			}
			r.Count("control_accepted_"+c.RPC, 1)
		}

		// maintenance on
		_, mo := run(true)
		if strings.HasPrefix(mo.Panic, "harness:") {
			r.Inconclusive(fmt.Sprintf("case %d: %s", idx, mo.Panic))
			continue
		}
		replay := map[string]any{"case": desc, "maintenance_outcome": mo, "control_outcome": ctl}
		switch class {
		case "client":
			if mo.Panic != "" {
				r.Violation("panic|"+c.RPC+"|maintenance-on", "handler panicked under maintenance: "+mo.Panic, replay)
				continue
			}
			if len(mo.Effects) > mo.EffectsBeforeFlip {
				r.Violation("effect-under-maintenance|"+c.RPC+"|"+mo.Effects[mo.EffectsBeforeFlip],
					fmt.Sprintf("%s touched %v while the node is in maintenance", c.RPC, mo.Effects[mo.EffectsBeforeFlip:]), replay)
			}
			if strings.Contains(desc.Variant, "/flip@") {
				r.Count("put_streams_with_maintenance_entered_midstream", 1)
			}
			if mo.PayloadBytes > 0 || mo.HeaderSent {
				r.Violation("data-under-maintenance|"+c.RPC, fmt.Sprintf("%s returned object data under maintenance (payload=%d header=%v)", c.RPC, mo.PayloadBytes, mo.HeaderSent), replay)
			}
			ok := mo.GRPCErr == "" && mo.Responses == 1 && len(mo.Codes) == 1 && mo.Codes[0] == vf45MaintenanceCode
			if !ok {
				r.Violation("not-maintenance-status|"+c.RPC, fmt.Sprintf("%s under maintenance answered codes=%v grpc=%q responses=%d, want exactly one response with status %d", c.RPC, mo.Codes, mo.GRPCErr, mo.Responses, vf45MaintenanceCode), replay)
			} else {
				perRPCRefused[c.RPC]++
				r.Count("refused_with_maintenance_status_"+c.RPC, 1)
				r.Count("refused_by_meta_shape_"+desc.Meta, 1)
				r.Seen("refused_rpc_x_meta_shape", c.RPC+"/"+desc.Meta)
			}
			r.Seen("maintenance_status_codes", fmt.Sprint(mo.Codes))
			r.Distinct(desc.sig())
			if idx < 2*len(rpcs) {
				r.Sample(map[string]any{"case": desc, "control_effects": ctl.Effects, "maintenance_codes": mo.Codes, "maintenance_effects": mo.Effects})
			}
		case "legacy":
			// RPCs the node does not serve at all: no effect allowed in either mode; how they are
			// refused is not constrained by the statement.
			for _, o := range []vf45Outcome{ctl, mo} {
				if len(o.Effects) > 0 || o.PayloadBytes > 0 || o.HeaderSent {
					r.Violation("effect-under-maintenance|"+c.RPC+"|legacy", fmt.Sprintf("unsupported RPC %s touched %v", c.RPC, o.Effects), replay)
				}
			}
			if mo.Panic == "" && mo.GRPCErr == "" && !(len(mo.Codes) == 1 && mo.Codes[0] != 0) {
				r.Violation("not-refused|"+c.RPC, fmt.Sprintf("legacy RPC %s was not refused under maintenance: codes=%v", c.RPC, mo.Codes), replay)
			}
			r.Count("legacy_refused_"+c.RPC, 1)
			r.Seen("legacy_refusal_kinds", c.RPC+":"+mo.GRPCCode+fmt.Sprint(mo.Codes))
		case "node":
			// title: *only client* operations are refused
			if mo.Panic != "" || mo.GRPCErr != "" || len(mo.Codes) != 1 || mo.Codes[0] != 0 || len(mo.Effects) == 0 {
				r.Violation("replicate-refused-under-maintenance", fmt.Sprintf("node-to-node Replicate under maintenance: codes=%v grpc=%q effects=%v", mo.Codes, mo.GRPCErr, mo.Effects), replay)
			} else {
				r.Count("replicate_served_under_maintenance", 1)
				r.Distinct(desc.sig())
			}
		}
	}
	for rpc, class := range vf45Known {
		if class == "client" && perRPCRefused[rpc] == 0 && r.Violations() == 0 {
			r.Inconclusive("no valid " + rpc + " request was observed being refused – nothing learned about this handler")
		}
	}
}

