//go:build verif

package putsvc

import (
	"bytes"
	"context"
	"crypto/sha256"
	"encoding/hex"
	"errors"
	"fmt"
	"io"
	"math"
	"math/rand/v2"
	"os"
	"sort"
	"strconv"
	"strings"
	"sync"
	"testing"

	"github.com/nspcc-dev/neo-go/pkg/crypto/keys"
	iec "github.com/nspcc-dev/neofs-node/internal/ec"
	"github.com/nspcc-dev/neofs-node/internal/verifkit"
	clientcore "github.com/nspcc-dev/neofs-node/pkg/core/client"
	"github.com/nspcc-dev/neofs-node/pkg/services/object/common"
	objutil "github.com/nspcc-dev/neofs-node/pkg/services/object/util"
	sessionstate "github.com/nspcc-dev/neofs-node/pkg/util/state/session"
	"github.com/nspcc-dev/neofs-sdk-go/client"
	"github.com/nspcc-dev/neofs-sdk-go/container"
	cid "github.com/nspcc-dev/neofs-sdk-go/container/id"
	"github.com/nspcc-dev/neofs-sdk-go/netmap"
	"github.com/nspcc-dev/neofs-sdk-go/object"
	oid "github.com/nspcc-dev/neofs-sdk-go/object/id"
	protoobject "github.com/nspcc-dev/neofs-sdk-go/proto/object"
	sessionv2 "github.com/nspcc-dev/neofs-sdk-go/session/v2"
	"github.com/nspcc-dev/neofs-sdk-go/user"
	"go.uber.org/zap"
	"google.golang.org/protobuf/proto"
)

// ---- fakes at the interfaces the service defines (nothing of the code under test) ----

type vf21Captured struct {
	seq  int
	node string // hex of node key
	via  string // local | replicate | put-stream | post-placement
	obj  object.Object
}

type vf21World struct {
	mu       sync.Mutex
	seq      int
	captured []vf21Captured
	failNode map[string]bool // node key -> refuse everything
	retained []vf21Retained
}

// vf21Retained is an object the node handed to the post-placement replicator.  The node's
// replicator keeps the pointer in a queue and marshals the object later, so the harness
// keeps the pointer too and remembers what the object looked like at hand-over.
type vf21Retained struct {
	obj      *object.Object
	id       oid.ID
	okAtHand bool
	sum      [32]byte
}

func (w *vf21World) capture(node []byte, via string, obj object.Object) {
	var cp object.Object
	obj.CopyTo(&cp)
	cp.SetPayload(bytes.Clone(obj.Payload()))
	w.mu.Lock()
	w.seq++
	w.captured = append(w.captured, vf21Captured{seq: w.seq, node: hex.EncodeToString(node), via: via, obj: cp})
	w.mu.Unlock()
}

func (w *vf21World) fails(node []byte) bool {
	w.mu.Lock()
	defer w.mu.Unlock()
	return w.failNode[string(node)]
}

type vf21CnrNodes struct {
	lists [][]netmap.NodeInfo
	rules []iec.Rule
}

func (x vf21CnrNodes) Unsorted() [][]netmap.NodeInfo                     { return x.lists }
func (x vf21CnrNodes) SortForObject(oid.ID) ([][]netmap.NodeInfo, error) { return x.lists, nil }
func (x vf21CnrNodes) PrimaryCounts() []uint                             { return nil }
func (x vf21CnrNodes) ECRules() []iec.Rule                               { return x.rules }

type vf21Net struct {
	localPub []byte
	cn       vf21CnrNodes
	cnr      container.Container
	maxSize  uint64
}

func (x *vf21Net) GetContainerNodes(cid.ID) (ContainerNodes, error) { return x.cn, nil }
func (x *vf21Net) IsLocalNodePublicKey(pub []byte) bool             { return bytes.Equal(pub, x.localPub) }
func (x *vf21Net) GetEpochBlock(uint64) (uint32, error)             { return 0, errors.New("verif: no chain") }
func (x *vf21Net) GetEpochBlockByTime(uint32) (uint32, error)       { return 0, errors.New("verif: no chain") }
func (x *vf21Net) CurrentEpoch() uint64                             { return 77 }
func (x *vf21Net) CurrentBlock() uint32                             { return 1000 }
func (x *vf21Net) CurrentEpochDuration() uint64                     { return 240 }
func (x *vf21Net) Get(cid.ID) (container.Container, error)          { return x.cnr, nil }
func (x *vf21Net) MaxObjectSize() uint64                            { return x.maxSize }
func (x *vf21Net) AvailableQuotasLeft(cid.ID, user.ID) (uint64, uint64, error) {
	return math.MaxUint64, math.MaxUint64, nil
}
func (x *vf21Net) UnpaidSince(cid.ID) (int64, error) { return -1, nil }
func (x *vf21Net) VerifySplit(context.Context, cid.ID, oid.ID, []object.MeasuredObject) error {
	return nil
}
func (x *vf21Net) VerifyTombStoneWithoutPayload(context.Context, object.Object) error { return nil }
func (x *vf21Net) GetToken(user.ID) *sessionstate.PrivateToken                         { return nil }
func (x *vf21Net) FindTokenBySubjects([]sessionv2.Target) *sessionstate.PrivateToken   { return nil }

type vf21Store struct {
	w     *vf21World
	local []byte
	r     *verifkit.Run
}

func (s *vf21Store) Put(_ context.Context, obj *object.Object, objBin []byte) error {
	if s.w.fails(s.local) {
		return errors.New("verif: local storage refuses")
	}
	stored := *obj
	if objBin != nil {
		// the node persists the binary, so the binary is what is judged
		var fromBin object.Object
		if err := fromBin.Unmarshal(objBin); err != nil {
			s.r.Violation("put-path|local-binary-undecodable", fmt.Sprintf("binary handed to local storage does not decode: %v", err), nil)
			return nil
		}
		if fromBin.GetID() != obj.GetID() || !bytes.Equal(fromBin.Payload(), obj.Payload()) {
			s.r.Violation("put-path|local-binary-differs-from-object", fmt.Sprintf("binary handed to local storage carries object %s with %d payload bytes, structure says %s with %d", fromBin.GetID(), len(fromBin.Payload()), obj.GetID(), len(obj.Payload())), nil)
		}
		stored = fromBin
	}
	s.w.capture(s.local, "local", stored)
	return nil
}
func (s *vf21Store) IsLocked(context.Context, oid.Address) (bool, error) { return false, nil }

type vf21Transport struct{ w *vf21World }

func (t *vf21Transport) SendReplicationRequestToNode(_ context.Context, req []byte, node netmap.NodeInfo) ([]byte, error) {
	if t.w.fails(node.PublicKey()) {
		return nil, errors.New("verif: node refuses")
	}
	var m protoobject.ReplicateRequest
	if err := proto.Unmarshal(req, &m); err != nil {
		return nil, fmt.Errorf("verif: undecodable replicate request: %w", err)
	}
	if m.Object == nil {
		return nil, errors.New("verif: no object in request")
	}
	var obj object.Object
	if err := obj.FromProtoMessage(m.Object); err != nil {
		return nil, fmt.Errorf("verif: invalid object in request: %w", err)
	}
	t.w.capture(node.PublicKey(), "replicate", obj)
	return nil, nil
}

type vf21Client struct {
	clientcore.MultiAddressClient // nil: every other method is outside the PUT path
	w                             *vf21World
	node                          []byte
}

type vf21Writer struct {
	c   *vf21Client
	hdr object.Object
	buf []byte
}

func (c *vf21Client) ObjectPutInit(_ context.Context, hdr object.Object, _ user.Signer, _ client.PrmObjectPutInit) (client.ObjectWriter, error) {
	if c.w.fails(c.node) {
		return nil, errors.New("verif: node refuses")
	}
	return &vf21Writer{c: c, hdr: hdr}, nil
}
func (x *vf21Writer) Write(p []byte) (int, error) { x.buf = append(x.buf, p...); return len(p), nil }
func (x *vf21Writer) ReadFrom(rd io.Reader) (int64, error) {
	b, err := io.ReadAll(rd)
	x.buf = append(x.buf, b...)
	return int64(len(b)), err
}
func (x *vf21Writer) Close() error {
	o := x.hdr
	o.SetPayload(x.buf)
	x.c.w.capture(x.c.node, "put-stream", o)
	return nil
}
func (x *vf21Writer) GetResult() client.ResObjectPut { return client.ResObjectPut{} }

type vf21Clients struct{ w *vf21World }

func (c vf21Clients) Get(_ context.Context, n netmap.NodeInfo) (clientcore.MultiAddressClient, error) {
	return &vf21Client{w: c.w, node: n.PublicKey()}, nil
}

type vf21PostPlacement struct{ w *vf21World }

func (p vf21PostPlacement) HandlePostPlacement(obj *object.Object, _ []netmap.NodeInfo) {
	// like the node's replicator queue: keeps the pointer, reads it later
	rt := vf21Retained{obj: obj, id: obj.GetID(), sum: sha256.Sum256(obj.Payload())}
	if cs, ok := obj.PayloadChecksum(); ok {
		rt.okAtHand = bytes.Equal(cs.Value(), rt.sum[:])
	}
	p.w.mu.Lock()
	p.w.retained = append(p.w.retained, rt)
	p.w.mu.Unlock()
}

// ---- scenario ----

type vf21Scenario struct {
	Case       int      `json:"case"`
	Rules      []string `json:"rules"`
	Len        int      `json:"len"`
	MaxObjSize int      `json:"max_object_size"`
	Declared   bool     `json:"payload_size_declared"`
	Chunks     []int    `json:"chunks"`
	LocalIn    bool     `json:"local_node_in_container"`
	Failing    int      `json:"failing_nodes"`
	Initial    []uint32 `json:"initial_limits,omitempty"`
}

func vf21Key(rng *rand.Rand) *keys.PrivateKey {
	for {
		k, err := keys.NewPrivateKeyFromBytes(verifkit.RandBytes(rng, 32))
		if err == nil {
			return k
		}
	}
}

func vf21Chunks(rng *rand.Rand, n, maxObj int) []int {
	if n == 0 {
		if rng.IntN(2) == 0 {
			return nil
		}
		return []int{0}
	}
	var res []int
	switch rng.IntN(5) {
	case 0:
		return []int{n}
	case 1: // tiny chunks in front, rest at once
		left := n
		for i := 0; i < 5 && left > 1; i++ {
			c := 1 + rng.IntN(3)
			if c > left {
				c = left
			}
			res = append(res, c)
			left -= c
		}
		if left > 0 {
			res = append(res, left)
		}
		return res
	case 2: // fixed-size chunks
		c := 1 + rng.IntN(maxObj+maxObj/2)
		for left := n; left > 0; left -= c {
			if c > left {
				c = left
			}
			res = append(res, c)
		}
		return res
	default:
		for left := n; left > 0; {
			c := 1 + rng.IntN(left)
			if rng.IntN(3) == 0 {
				c = 1 + rng.IntN(min(left, 64))
			}
			res = append(res, c)
			left -= c
		}
		return res
	}
}

func vf21PartInfo(o object.Object) (rule, part int, ok bool) {
	rule, part = -1, -1
	for _, a := range o.Attributes() {
		switch a.Key() {
		case iec.AttributeRuleIdx:
			v, err := strconv.Atoi(a.Value())
			if err != nil {
				return 0, 0, false
			}
			rule = v
		case iec.AttributePartIdx:
			v, err := strconv.Atoi(a.Value())
			if err != nil {
				return 0, 0, false
			}
			part = v
		}
	}
	return rule, part, rule >= 0 && part >= 0
}

func vf21AnnouncedHashes(parent *object.Object) []string {
	for _, a := range parent.Attributes() {
		if a.Key() == iec.AttributePartsHashes {
			return strings.Split(a.Value(), ",")
		}
	}
	return nil
}

// TestVerif_C21 drives the real PUT pipeline (Streamer -> validatingTarget -> slicer ->
// distributedTarget.modifyECParentObject -> applyECRule) of a container with 2..4 EC
// rules and judges every EC part object that reaches a recording storage / transport.
func TestVerif_C21(t *testing.T) {
	r := verifkit.Start(t, "C21", "exploration")
	defer r.Finish()
	nServices := r.Pick(40, 1500)
	putsPerService := r.Pick(6, 10)
	r.SetRule(fmt.Sprintf("%d seeded services (2..4 EC rules d=1..8 p=1..4 incl. repeated rules, node lists with shared nodes, local node in/out of the container, max object size 1K..4K) x %d sequential PUTs each (so pooled buffers are reused), payload lengths 0..4KiB biased to 0/1, pool-size and object-size boundaries and to split payloads, declared or unknown payload size, random chunkings, occasional refusing nodes; distinct = (rule set, len, chunking class, local-in/out, declared) of PUTs whose parts were captured and judged", nServices, putsPerService))
	r.Assume("REP+EC policies are not generated: the Container contract processor rejects them (\"REP+EC rules are not supported yet\")")
	r.Assume("objects are created without a session token by the owner whose key is the node key (trusted path, node-side slicing and encoding)")

	caseNo := 0
	for s := 0; s < nServices; s++ {
		rng := r.Rand("svc", s)
		vf21Service(r, rng, s, putsPerService, &caseNo)
	}
	if r.Counter("puts_ok") == 0 || r.Counter("parts_judged") == 0 {
		r.Inconclusive("no successful EC PUT observed")
	}
	if r.Counter("rule_sets_decoded") == 0 {
		r.Inconclusive("no complete EC part set was decoded")
	}
}

func vf21Service(r *verifkit.Run, rng *rand.Rand, sIdx, nPuts int, caseNo *int) {
	w := &vf21World{failNode: map[string]bool{}}
	nodeKey := vf21Key(rng)
	localPub := nodeKey.PublicKey().Bytes()
	owner := user.NewFromECDSAPublicKey(nodeKey.PrivateKey.PublicKey)

	nRules := 2 + rng.IntN(3)
	rules := make([]iec.Rule, nRules)
	var ruleNames []string
	for i := range rules {
		if i > 0 && rng.IntN(5) == 0 {
			rules[i] = rules[rng.IntN(i)] // same rule may repeat
		} else {
			rules[i] = iec.Rule{DataPartNum: uint8(1 + rng.IntN(8)), ParityPartNum: uint8(1 + rng.IntN(4))}
		}
		ruleNames = append(ruleNames, rules[i].String())
	}
	// node universe shared between the lists
	maxTotal := 0
	for _, ru := range rules {
		maxTotal = max(maxTotal, int(ru.DataPartNum)+int(ru.ParityPartNum))
	}
	universe := make([]netmap.NodeInfo, maxTotal+4)
	for i := range universe {
		k := append([]byte{2}, verifkit.RandBytes(rng, 32)...)
		universe[i].SetPublicKey(k)
		universe[i].SetNetworkEndpoints("/ip4/10.0.0." + strconv.Itoa(i+1) + "/tcp/8080")
	}
	localIn := rng.IntN(3) != 0
	if localIn {
		universe[rng.IntN(len(universe))].SetPublicKey(localPub)
	}
	lists := make([][]netmap.NodeInfo, nRules)
	for i, ru := range rules {
		total := int(ru.DataPartNum) + int(ru.ParityPartNum)
		n := total + rng.IntN(len(universe)-total+1)
		perm := rng.Perm(len(universe))[:n]
		for _, j := range perm {
			lists[i] = append(lists[i], universe[j])
		}
	}
	if localIn { // the local node may have been left out of every list by the draw
		localIn = false
		for i := range lists {
			for j := range lists[i] {
				if bytes.Equal(lists[i][j].PublicKey(), localPub) {
					localIn = true
				}
			}
		}
	}

	var cnr container.Container
	var policy netmap.PlacementPolicy
	ecr := make([]netmap.ECRule, nRules)
	for i := range rules {
		ecr[i].SetDataPartNum(uint32(rules[i].DataPartNum))
		ecr[i].SetParityPartNum(uint32(rules[i].ParityPartNum))
	}
	policy.SetECRules(ecr)
	var initial []uint32
	if rng.IntN(4) == 0 {
		// initial policy with some rules switched off: their parts go to the post-placement replicator
		initial = make([]uint32, nRules)
		on := 0
		for i := range initial {
			if rng.IntN(2) == 0 {
				initial[i] = 1
				on++
			}
		}
		if on == 0 {
			initial[rng.IntN(nRules)] = 1
			on = 1
		}
		if on < nRules {
			var ip netmap.InitialPlacementPolicy
			ip.SetReplicaLimits(initial)
			policy.SetInitial(ip)
		} else {
			initial = nil
		}
	}
	cnr.SetPlacementPolicy(policy)
	cnr.SetOwner(owner)
	cnrID := verifkit.RandCID(rng)

	maxObj := []int{1024, 1500, 2048, 4096}[rng.IntN(4)]
	net := &vf21Net{localPub: localPub, cn: vf21CnrNodes{lists: lists, rules: rules}, cnr: cnr, maxSize: uint64(maxObj)}
	svc := NewService(&vf21Transport{w: w}, net, nil, net, net,
		WithLogger(zap.NewNop()),
		WithKeyStorage(objutil.NewKeyStorage(&nodeKey.PrivateKey, net, net)),
		WithObjectStorage(&vf21Store{w: w, local: localPub, r: r}),
		WithMaxSizeSource(net),
		WithContainerSource(net),
		WithNetworkState(net),
		WithClientConstructor(vf21Clients{w: w}),
		WithSplitChainVerifier(net),
		WithTombstoneVerifier(net),
		WithPostPlacementReplicator(vf21PostPlacement{w: w}),
	)

	for p := 0; p < nPuts; p++ {
		*caseNo++
		var n int
		switch rng.IntN(8) {
		case 0:
			n = rng.IntN(3) // 0,1,2
		case 1:
			n = max(0, defaultAllocSize-4+rng.IntN(9)) // pool's default buffer
		case 2:
			n = max(0, maxObj-2+rng.IntN(3)) // up to the object size limit
		case 3:
			n = maxObj + 1 + rng.IntN(2*maxObj) // split by size
		case 4:
			n = 1 + rng.IntN(64)
		default:
			n = rng.IntN(4097)
		}
		payload := verifkit.RandBytes(rng, n)
		sc := vf21Scenario{Case: *caseNo, Rules: ruleNames, Len: n, MaxObjSize: maxObj, LocalIn: localIn, Initial: initial}
		sc.Declared = rng.IntN(2) == 0
		sc.Chunks = vf21Chunks(rng, n, maxObj)
		// occasionally a few nodes refuse
		w.mu.Lock()
		w.failNode = map[string]bool{}
		if rng.IntN(5) == 0 {
			for i := 0; i < 1+rng.IntN(2); i++ {
				w.failNode[string(universe[rng.IntN(len(universe))].PublicKey())] = true
			}
		}
		sc.Failing = len(w.failNode)
		w.captured = nil
		w.retained = nil
		w.mu.Unlock()

		var hdr object.Object
		hdr.SetContainerID(cnrID)
		hdr.SetOwner(owner)
		hdr.SetAttributes(object.NewAttribute("verif-case", strconv.Itoa(*caseNo)))
		if sc.Declared {
			hdr.SetPayloadSize(uint64(n))
		}

		var putErr error
		panicked := r.Guard(sc, func() {
			stream, err := svc.Put(context.Background())
			if err != nil {
				putErr = err
				return
			}
			prm := new(PutInitPrm).WithObject(&hdr).WithCommonPrm(objutil.CommonPrmFromRequest(2, nil, common.RequestTokens{}))
			if putErr = stream.Init(prm); putErr != nil {
				return
			}
			off := 0
			for _, c := range sc.Chunks {
				if putErr = stream.SendChunk(new(PutChunkPrm).WithChunk(payload[off : off+c])); putErr != nil {
					return
				}
				off += c
			}
			_, putErr = stream.Close()
		})
		r.Eval(1)
		if panicked {
			continue
		}
		if putErr != nil {
			r.Count("puts_failed", 1)
			r.Seen("put_errors_seen", vf21ErrClass(putErr))
			if os.Getenv("VERIF_DEBUG") != "" {
				fmt.Printf("DEBUG put error: %v :: %+v\n", putErr, sc)
			}
		} else {
			r.Count("puts_ok", 1)
		}
		if n > maxObj {
			r.Count("puts_split_by_size", 1)
		}

		w.mu.Lock()
		captured := append([]vf21Captured(nil), w.captured...)
		kept := append([]vf21Retained(nil), w.retained...)
		w.mu.Unlock()

		vf21Judge(r, rng, sc, rules, payload, captured, putErr == nil, len(kept))

		// Part objects handed to the post-placement replicator are marshalled by it later, when
		// this PUT is long over and its pooled buffers are in use by others.  Emulate the next
		// users of the pool (they may write the whole capacity of what getPayload gives them)
		// and look at the queued parts again.
		vf21ScribblePool()
		for _, rt := range kept {
			if _, _, ok := vf21PartInfo(*rt.obj); !ok {
				continue
			}
			r.Count("post_placement_parts_retained", 1)
			if !rt.okAtHand {
				r.Violation("put-path|post-placement-part-checksum-at-hand-over", fmt.Sprintf("EC part %s handed to the post-placement replicator does not match its own checksum", rt.id), sc)
				continue
			}
			if got := sha256.Sum256(rt.obj.Payload()); got != rt.sum {
				ri, pi, _ := vf21PartInfo(*rt.obj)
				kind := "parity"
				if pi < int(rules[ri].DataPartNum) {
					kind = "data"
				}
				r.Count("post_placement_parts_overwritten_after_close", 1)
				r.Violation("put-path|post-placement-part-aliases-released-pool-buffer|"+kind, fmt.Sprintf("payload of EC %s part %s (rule #%d part %d) queued for post-placement replication changed after the PUT finished and the pool buffers were reused: the part object aliases a pooled buffer that Close released", kind, rt.id, ri, pi), sc)
			}
		}
	}
	r.Count("services", 1)
}

// vf21ScribblePool takes every buffer currently parked in the package's payload pool,
// overwrites its whole capacity and gives it back - what any later PUT is entitled to do.
func vf21ScribblePool() {
	var got [][]byte
	for i := 0; i < 256; i++ {
		b := getPayload()
		b = b[:cap(b)]
		for j := range b {
			b[j] ^= 0xA5
		}
		got = append(got, b)
	}
	for _, b := range got {
		putPayload(b)
	}
}

func vf21ErrClass(err error) string {
	s := err.Error()
	for _, k := range []string{"not enough nodes for EC parts", "EC parts were put successfully", "incomplete object PUT", "wrong payload size", "unexpected EOF"} {
		if strings.Contains(s, k) {
			return k
		}
	}
	if len(s) > 80 {
		s = s[:80]
	}
	return s
}

type vf21Group struct {
	firstSeq int
	parent   *object.Object
	parts    map[[2]int][]byte // (rule,part) -> payload
}

func vf21Judge(r *verifkit.Run, rng *rand.Rand, sc vf21Scenario, rules []iec.Rule, payload []byte, captured []vf21Captured, putOK bool, retained int) {
	groups := map[oid.ID]*vf21Group{}
	offsets := make([]int, len(rules))
	totalHashes := 0
	for i, ru := range rules {
		offsets[i] = totalHashes
		totalHashes += int(ru.DataPartNum) + int(ru.ParityPartNum)
	}
	judged := 0
	for _, c := range captured {
		o := c.obj
		if o.Type() != object.TypeRegular {
			r.Count("non_regular_objects_captured(link)", 1)
			continue
		}
		ruleIdx, partIdx, ok := vf21PartInfo(o)
		if !ok {
			r.Violation("put-path|regular-object-without-part-info", fmt.Sprintf("REGULAR object %s stored in an EC container without EC part attributes", o.GetID()), sc)
			continue
		}
		if ruleIdx >= len(rules) || partIdx >= int(rules[ruleIdx].DataPartNum)+int(rules[ruleIdx].ParityPartNum) {
			r.Violation("put-path|part-index-out-of-rule", fmt.Sprintf("part object %s announces rule %d part %d, policy is %v", o.GetID(), ruleIdx, partIdx, sc.Rules), sc)
			continue
		}
		parent := o.Parent()
		if parent == nil {
			r.Violation("put-path|part-without-parent", fmt.Sprintf("EC part %s has no parent header", o.GetID()), sc)
			continue
		}
		hashes := vf21AnnouncedHashes(parent)
		if len(hashes) != totalHashes {
			r.Violation("put-path|announced-hash-count", fmt.Sprintf("parent %s announces %d part hashes, rules %v need %d", parent.GetID(), len(hashes), sc.Rules, totalHashes), sc)
			continue
		}
		sum := sha256.Sum256(o.Payload())
		if hashes[offsets[ruleIdx]+partIdx] != hex.EncodeToString(sum[:]) {
			r.Violation(fmt.Sprintf("put-path|stored-part-differs-from-announced-hash|rulepos=%d", ruleIdx), fmt.Sprintf("stored EC part rule #%d (%s) part %d of parent %s: sha256(payload)=%x, parent announces %s", ruleIdx, rules[ruleIdx], partIdx, parent.GetID(), sum, hashes[offsets[ruleIdx]+partIdx]), sc)
			continue
		}
		judged++
		r.Seen("part_delivery_paths", c.via)
		g := groups[parent.GetID()]
		if g == nil {
			g = &vf21Group{firstSeq: c.seq, parent: parent, parts: map[[2]int][]byte{}}
			groups[parent.GetID()] = g
		}
		k := [2]int{ruleIdx, partIdx}
		if prev, ok := g.parts[k]; ok {
			if !bytes.Equal(prev, o.Payload()) {
				r.Violation("put-path|same-part-two-contents", fmt.Sprintf("rule #%d part %d of parent %s was stored with two different payloads", ruleIdx, partIdx, parent.GetID()), sc)
			}
			continue
		}
		g.parts[k] = o.Payload()
	}
	r.Count("parts_judged", judged)
	if judged == 0 {
		return
	}

	// order the encoded objects as they were produced (split children come out in order)
	ordered := make([]*vf21Group, 0, len(groups))
	for _, g := range groups {
		ordered = append(ordered, g)
	}
	sort.Slice(ordered, func(i, j int) bool { return ordered[i].firstSeq < ordered[j].firstSeq })

	if sc.Len <= sc.MaxObjSize && len(ordered) != 1 {
		r.Violation("put-path|unsplit-payload-several-parents", fmt.Sprintf("payload of %d bytes (limit %d) produced EC parts of %d different parents", sc.Len, sc.MaxObjSize, len(ordered)), sc)
		return
	}

	var reassembled []byte
	complete := true
	for _, g := range ordered {
		pl := int(g.parent.PayloadSize())
		var chunk []byte
		haveChunk := false
		for ri, ru := range rules {
			d, p := int(ru.DataPartNum), int(ru.ParityPartNum)
			parts := make([][]byte, d+p)
			have, partLen := 0, -1
			for pi := 0; pi < d+p; pi++ {
				b, ok := g.parts[[2]int{ri, pi}]
				if !ok {
					continue
				}
				have++
				if partLen < 0 {
					partLen = len(b)
				} else if partLen != len(b) {
					r.Violation("put-path|unequal-part-length", fmt.Sprintf("rule #%d (%s) of parent %s: stored parts of %d and %d bytes", ri, ru, g.parent.GetID(), partLen, len(b)), sc)
				}
				if len(b) > 0 {
					parts[pi] = bytes.Clone(b)
				}
			}
			if have < d+p {
				// whether a successful PUT may leave a rule incomplete is C25's business, not judged here
				r.Count("rule_sets_incomplete", 1)
				continue
			}
			if pl == 0 {
				if partLen != 0 {
					r.Violation("put-path|empty-payload-nonempty-parts", fmt.Sprintf("rule #%d (%s): parent payload is empty, parts have %d bytes", ri, ru, partLen), sc)
				}
				r.Count("rule_sets_of_empty_payload", 1)
				if !haveChunk {
					chunk, haveChunk = []byte{}, true
				}
				continue
			}
			// decode from the complete set and from a set with up to p random losses
			for attempt := 0; attempt < 2; attempt++ {
				cp := make([][]byte, len(parts))
				for i := range parts {
					cp[i] = bytes.Clone(parts[i])
				}
				var lost []int
				if attempt == 1 {
					lost = rng.Perm(d + p)[:1+rng.IntN(p)]
					for _, i := range lost {
						cp[i] = nil
					}
				}
				got, err := iec.Decode(ru, uint64(pl), cp)
				if err != nil {
					r.Violation(fmt.Sprintf("put-path|stored-parts-do-not-decode|rulepos=%d", ri), fmt.Sprintf("rule #%d (%s) of parent %s, lost %v: %v", ri, ru, g.parent.GetID(), lost, err), sc)
					break
				}
				if haveChunk && !bytes.Equal(got, chunk) {
					r.Violation(fmt.Sprintf("put-path|rules-decode-to-different-payloads|rulepos=%d", ri), fmt.Sprintf("rule #%d (%s) of parent %s decodes (lost %v) to bytes differing from an earlier rule's", ri, ru, g.parent.GetID(), lost), sc)
					break
				}
				if !haveChunk {
					chunk, haveChunk = got, true
				}
			}
			r.Count("rule_sets_decoded", 1)
		}
		if !haveChunk {
			complete = false
			continue
		}
		reassembled = append(reassembled, chunk...)
	}
	if complete && putOK {
		if !bytes.Equal(reassembled, payload) {
			r.Violation("put-path|decoded-payload-differs-from-streamed", fmt.Sprintf("decoding the stored EC parts gives %d bytes that differ from the %d streamed bytes (%d encoded objects)", len(reassembled), len(payload), len(ordered)), sc)
			return
		}
		r.Count("puts_fully_decoded_to_streamed_payload", 1)
		chunkClass := "one"
		if len(sc.Chunks) > 1 {
			chunkClass = "many"
		}
		if len(sc.Chunks) == 0 {
			chunkClass = "none"
		}
		r.Distinct(fmt.Sprintf("%v|%d|%s|%v|%v", sc.Rules, sc.Len, chunkClass, sc.LocalIn, sc.Declared))
		if sc.Len > sc.MaxObjSize {
			r.Count("split_puts_fully_decoded", 1)
		}
		if sc.Case%97 == 0 {
			r.Sample(map[string]any{"scenario": sc, "encoded_objects": len(ordered), "parts_captured": judged, "post_placement_parts": retained})
		}
	}
}
