//go:build verif

package putsvc

import (
	"bytes"
	"context"
	"encoding/hex"
	"errors"
	"fmt"
	"io"
	"math"
	"math/rand/v2"
	"os"
	"runtime"
	"sort"
	"strconv"
	"strings"
	"sync"
	"sync/atomic"
	"testing"

	"github.com/nspcc-dev/neo-go/pkg/crypto/keys"
	iec "github.com/nspcc-dev/neofs-node/internal/ec"
	"github.com/nspcc-dev/neofs-node/internal/verifkit"
	clientcore "github.com/nspcc-dev/neofs-node/pkg/core/client"
	"github.com/nspcc-dev/neofs-node/pkg/services/object/common"
	objutil "github.com/nspcc-dev/neofs-node/pkg/services/object/util"
	sessionstate "github.com/nspcc-dev/neofs-node/pkg/util/state/session"
	"github.com/nspcc-dev/neofs-sdk-go/client"
	apistatus "github.com/nspcc-dev/neofs-sdk-go/client/status"
	"github.com/nspcc-dev/neofs-sdk-go/container"
	cid "github.com/nspcc-dev/neofs-sdk-go/container/id"
	"github.com/nspcc-dev/neofs-sdk-go/netmap"
	"github.com/nspcc-dev/neofs-sdk-go/object"
	oid "github.com/nspcc-dev/neofs-sdk-go/object/id"
	protoobject "github.com/nspcc-dev/neofs-sdk-go/proto/object"
	sessionv2 "github.com/nspcc-dev/neofs-sdk-go/session/v2"
	"github.com/nspcc-dev/neofs-sdk-go/user"
	"github.com/nspcc-dev/neofs-sdk-go/version"
	"go.uber.org/zap"
	"google.golang.org/protobuf/proto"
)

// ---- recording fake nodes ----

type vf25Ack struct {
	node   string // raw public key
	id     oid.ID
	parent oid.ID // zero unless EC part
	rule   int    // -1 unless EC part
	part   int
	typ    object.Type
}

type vf25NodeMode struct {
	refuse    bool // refuses everything
	failFirst int  // refuses its first n requests, then stores
}

type vf25World struct {
	mu       sync.Mutex
	acks     []vf25Ack
	refused  int
	modes    map[string]vf25NodeMode
	seen     map[string]int
	gosched  map[string]int // yields before answering (schedule perturbation)
	inflight atomic.Int32
	maxInfl  atomic.Int32
	postPl   int
}

// serve decides the node's answer for one store request and records the acknowledgement.
func (w *vf25World) serve(node []byte, obj *object.Object) error {
	cur := w.inflight.Add(1)
	for {
		m := w.maxInfl.Load()
		if cur <= m || w.maxInfl.CompareAndSwap(m, cur) {
			break
		}
	}
	defer w.inflight.Add(-1)
	w.mu.Lock()
	n := w.gosched[string(node)]
	w.mu.Unlock()
	for i := 0; i < n; i++ {
		runtime.Gosched()
	}
	w.mu.Lock()
	defer w.mu.Unlock()
	mode := w.modes[string(node)]
	w.seen[string(node)]++
	if mode.refuse || w.seen[string(node)] <= mode.failFirst {
		w.refused++
		return errors.New("verif: node refuses to store")
	}
	a := vf25Ack{node: string(node), id: obj.GetID(), rule: -1, part: -1, typ: obj.Type()}
	for _, at := range obj.Attributes() {
		switch at.Key() {
		case iec.AttributeRuleIdx:
			a.rule, _ = strconv.Atoi(at.Value())
		case iec.AttributePartIdx:
			a.part, _ = strconv.Atoi(at.Value())
		}
	}
	if a.rule >= 0 {
		if p := obj.Parent(); p != nil {
			a.parent = p.GetID()
		}
	}
	w.acks = append(w.acks, a)
	return nil
}

type vf25CnrNodes struct {
	lists [][]netmap.NodeInfo
	reps  []uint
	rules []iec.Rule
}

func (x vf25CnrNodes) Unsorted() [][]netmap.NodeInfo                     { return x.lists }
func (x vf25CnrNodes) SortForObject(oid.ID) ([][]netmap.NodeInfo, error) { return x.lists, nil }
func (x vf25CnrNodes) PrimaryCounts() []uint                             { return x.reps }
func (x vf25CnrNodes) ECRules() []iec.Rule                               { return x.rules }

type vf25Net struct {
	localPub []byte
	cn       vf25CnrNodes
	cnr      container.Container
	maxSize  uint64
}

func (x *vf25Net) GetContainerNodes(cid.ID) (ContainerNodes, error) { return x.cn, nil }
func (x *vf25Net) IsLocalNodePublicKey(pub []byte) bool             { return bytes.Equal(pub, x.localPub) }
func (x *vf25Net) GetEpochBlock(uint64) (uint32, error)             { return 0, errors.New("verif: no chain") }
func (x *vf25Net) GetEpochBlockByTime(uint32) (uint32, error)       { return 0, errors.New("verif: no chain") }
func (x *vf25Net) CurrentEpoch() uint64                             { return 77 }
func (x *vf25Net) CurrentBlock() uint32                             { return 1000 }
func (x *vf25Net) CurrentEpochDuration() uint64                     { return 240 }
func (x *vf25Net) Get(cid.ID) (container.Container, error)          { return x.cnr, nil }
func (x *vf25Net) MaxObjectSize() uint64                            { return x.maxSize }
func (x *vf25Net) AvailableQuotasLeft(cid.ID, user.ID) (uint64, uint64, error) {
	return math.MaxUint64, math.MaxUint64, nil
}
func (x *vf25Net) UnpaidSince(cid.ID) (int64, error) { return -1, nil }
func (x *vf25Net) VerifySplit(context.Context, cid.ID, oid.ID, []object.MeasuredObject) error {
	return nil
}
func (x *vf25Net) VerifyTombStoneWithoutPayload(context.Context, object.Object) error { return nil }
func (x *vf25Net) GetToken(user.ID) *sessionstate.PrivateToken                         { return nil }
func (x *vf25Net) FindTokenBySubjects([]sessionv2.Target) *sessionstate.PrivateToken   { return nil }

type vf25Store struct {
	w     *vf25World
	local []byte
}

func (s *vf25Store) Put(_ context.Context, obj *object.Object, _ []byte) error {
	return s.w.serve(s.local, obj)
}
func (s *vf25Store) IsLocked(context.Context, oid.Address) (bool, error) { return false, nil }

type vf25Transport struct{ w *vf25World }

func (t *vf25Transport) SendReplicationRequestToNode(_ context.Context, req []byte, node netmap.NodeInfo) ([]byte, error) {
	var m protoobject.ReplicateRequest
	if err := proto.Unmarshal(req, &m); err != nil {
		return nil, fmt.Errorf("verif: undecodable replicate request: %w", err)
	}
	if m.Object == nil {
		return nil, errors.New("verif: no object in request")
	}
	var obj object.Object
	if err := obj.FromProtoMessage(m.Object); err != nil {
		return nil, fmt.Errorf("verif: invalid object in request: %w", err)
	}
	return nil, t.w.serve(node.PublicKey(), &obj)
}

type vf25Client struct {
	clientcore.MultiAddressClient // nil: other methods are outside the PUT path
	w                             *vf25World
	node                          []byte
}

type vf25Writer struct {
	c   *vf25Client
	hdr object.Object
}

func (c *vf25Client) ObjectPutInit(_ context.Context, hdr object.Object, _ user.Signer, _ client.PrmObjectPutInit) (client.ObjectWriter, error) {
	return &vf25Writer{c: c, hdr: hdr}, nil
}
func (x *vf25Writer) Write(p []byte) (int, error) { return len(p), nil }
func (x *vf25Writer) ReadFrom(rd io.Reader) (int64, error) {
	return io.Copy(io.Discard, rd)
}
func (x *vf25Writer) Close() error                   { return x.c.w.serve(x.c.node, &x.hdr) } // the node's answer arrives when the stream is closed
func (x *vf25Writer) GetResult() client.ResObjectPut { return client.ResObjectPut{} }

type vf25Clients struct{ w *vf25World }

func (c vf25Clients) Get(_ context.Context, n netmap.NodeInfo) (clientcore.MultiAddressClient, error) {
	return &vf25Client{w: c.w, node: n.PublicKey()}, nil
}

type vf25PostPlacement struct{ w *vf25World }

func (p vf25PostPlacement) HandlePostPlacement(*object.Object, []netmap.NodeInfo) {
	p.w.mu.Lock()
	p.w.postPl++
	p.w.mu.Unlock()
}

// ---- scenario ----

type vf25Scenario struct {
	Case        int        `json:"case"`
	Focus       bool       `json:"rule_correlated_family,omitempty"` // generated by the "focus" stream
	LocalIn     []int      `json:"local_node_in_lists,omitempty"`
	FailClass   string     `json:"failure_pattern,omitempty"`
	Reps        []uint     `json:"rep_counts,omitempty"`
	EC          []string   `json:"ec_rules,omitempty"`
	Lists       [][]int    `json:"node_lists"` // indexes into the node universe
	Local       int        `json:"local_node"` // index in the universe or -1
	Limits      []uint32   `json:"initial_limits,omitempty"`
	MaxReplicas uint32     `json:"initial_max_replicas,omitempty"`
	PreferLocal bool       `json:"initial_prefer_local,omitempty"`
	Initial     bool       `json:"initial_policy"`
	Kind        string     `json:"object_kind"`
	Len         int        `json:"len"`
	Modes       []string   `json:"node_modes"`
	Result      string     `json:"result,omitempty"`
	Acks        [][]string `json:"acks,omitempty"`
}

func vf25Key(rng *rand.Rand) *keys.PrivateKey {
	for {
		k, err := keys.NewPrivateKeyFromBytes(verifkit.RandBytes(rng, 32))
		if err == nil {
			return k
		}
	}
}

// TestVerif_C25 runs the real PUT pipeline against recording fake nodes and compares a
// reported full success with the acknowledgements the nodes actually gave.
func TestVerif_C25(t *testing.T) {
	r := verifkit.Start(t, "C25", "exploration")
	defer r.Finish()
	nCases := r.Pick(2500, 40000)
	nFocus := r.Pick(8000, 40000)
	r.SetRule(fmt.Sprintf("%d seeded PUTs, each on its own service: policy = 1..3 REP rules (1..4 copies) or 1..3 EC rules (d=1..4,p=1..3, rules may repeat) over node lists drawn with overlap from a universe of 5..14 nodes, optionally an initial policy (per-rule limits, MaxReplicas, PreferLocal); local node inside (any list position) or outside the container; every node stores, refuses, or refuses its first 1..2 requests, answers are given concurrently with seeded yields; objects: node-sliced regular (one object or split by size), client-signed regular, tombstone, lock; plus %d PUTs of the rule-correlated family: 2..3 rules, initial policy in 4 of 5 (MaxReplicas, PreferLocal frequent), the local node a member of exactly a seeded subset of the lists, failures correlated with the rules (all nodes of a proper subset of the lists down, optionally sparing nodes shared with a healthy list; number of live container nodes = demanded total -2..+1; local and few others alive) or independent; distinct = (policy shape, initial shape, local position class (outside / in first list / in later lists only), failure pattern class, object kind, result class)", nCases, nFocus))
	r.Assume("acknowledgement = the fake node (local storage, replication transport or remote PUT stream) returned success for the object")
	r.Assume("under MaxReplicas the total is counted in the way most favourable to the code: max(distinct acknowledging nodes + completed EC rules, sum over rules of min(limit, acknowledging nodes of the rule's list) + completed EC rules)")
	r.Assume("REP+EC policies are not generated (rejected at container creation); system objects in EC containers are not judged (statement is silent)")

	for i := 0; i < nCases; i++ {
		vf25Case(r, i, false)
	}
	for i := 0; i < nFocus; i++ {
		vf25Case(r, i, true)
	}
	if r.Counter("puts_full_success") == 0 || r.Counter("puts_error") == 0 {
		r.Inconclusive("did not observe both successful and failed PUTs")
	}
	if r.Counter("success_judged_rep") == 0 || r.Counter("success_judged_ec") == 0 || r.Counter("success_judged_initial") == 0 {
		r.Inconclusive("some policy family never produced a judged success")
	}
	for _, fam := range []string{"rep", "ec"} {
		for _, c := range []string{"initial_max", "initial_max_prefer_local_in_first_list", "initial_max_prefer_local_in_later_lists_only"} {
			if r.Counter("success_judged_"+fam+"_"+c) == 0 || r.Counter("not_success_"+fam+"_"+c) == 0 {
				r.Inconclusive("policy class " + fam + "/" + c + " was not observed with both a judged success and a reported failure")
			}
		}
	}
	if r.Counter("success_judged_with_whole_lists_down") == 0 {
		r.Inconclusive("no judged success with all nodes of some rule's list refusing")
	}
}

func vf25Case(r *verifkit.Run, idx int, focus bool) {
	// The "case" stream draws everything independently.  The "focus" stream generates the
	// situations in which the counting over SEVERAL rules decides the result: >= 2 rules,
	// mostly an initial policy with a total cap, the local node a member of a chosen subset
	// of the rules' lists, and failures correlated with the rules (whole lists down, or a
	// number of live nodes around the demanded total).
	stream := "case"
	if focus {
		stream = "focus"
	}
	rng := r.Rand(stream, idx)
	w := &vf25World{modes: map[string]vf25NodeMode{}, seen: map[string]int{}, gosched: map[string]int{}}
	nodeKey := vf25Key(rng)
	localPub := nodeKey.PublicKey().Bytes()

	sc := vf25Scenario{Case: idx, Local: -1, Focus: focus}
	ecPolicy := rng.IntN(5) < 2
	var reps []uint
	var rules []iec.Rule
	nRules := 1 + rng.IntN(3)
	if focus && nRules == 1 {
		nRules = 2 + rng.IntN(2)
	}
	need := make([]int, nRules)
	if ecPolicy {
		rules = make([]iec.Rule, nRules)
		for i := range rules {
			if i > 0 && rng.IntN(3) == 0 {
				rules[i] = rules[rng.IntN(i)]
			} else {
				rules[i] = iec.Rule{DataPartNum: uint8(1 + rng.IntN(4)), ParityPartNum: uint8(1 + rng.IntN(3))}
			}
			need[i] = int(rules[i].DataPartNum) + int(rules[i].ParityPartNum)
			sc.EC = append(sc.EC, rules[i].String())
		}
	} else {
		reps = make([]uint, nRules)
		for i := range reps {
			reps[i] = uint(1 + rng.IntN(4))
			need[i] = int(reps[i])
		}
		sc.Reps = reps
	}
	maxNeed := 0
	for _, n := range need {
		maxNeed = max(maxNeed, n)
	}
	uniN := maxNeed + 1 + rng.IntN(6)
	universe := make([]netmap.NodeInfo, uniN)
	for i := range universe {
		universe[i].SetPublicKey(append([]byte{3}, verifkit.RandBytes(rng, 32)...))
		universe[i].SetNetworkEndpoints("/ip4/10.0.1." + strconv.Itoa(i+1) + "/tcp/8080")
	}
	if focus || rng.IntN(4) != 0 {
		sc.Local = rng.IntN(uniN)
		universe[sc.Local].SetPublicKey(localPub)
	}
	lists := make([][]netmap.NodeInfo, nRules)
	sc.Lists = make([][]int, nRules)
	for i := range lists {
		n := need[i] + rng.IntN(min(uniN-need[i], 3)+1)
		sc.Lists[i] = rng.Perm(uniN)[:n]
	}
	if focus {
		// the local node belongs to exactly the lists of a seeded non-empty subset of the
		// rules (any position); list lengths stay >= the rule's requirement
		member := 1 + rng.IntN(1<<nRules-1)
		for i := range sc.Lists {
			pos := -1
			for k, j := range sc.Lists[i] {
				if j == sc.Local {
					pos = k
				}
			}
			switch want := member>>i&1 == 1; {
			case want && pos < 0:
				sc.Lists[i][rng.IntN(len(sc.Lists[i]))] = sc.Local
			case !want && pos >= 0 && len(sc.Lists[i]) > need[i]:
				sc.Lists[i] = append(sc.Lists[i][:pos:pos], sc.Lists[i][pos+1:]...)
			case !want && pos >= 0:
				in := map[int]bool{}
				for _, j := range sc.Lists[i] {
					in[j] = true
				}
				var spare []int
				for j := 0; j < uniN; j++ {
					if !in[j] {
						spare = append(spare, j)
					}
				}
				sc.Lists[i][pos] = spare[rng.IntN(len(spare))] // uniN > need[i] = len(list)
			}
		}
	}
	for i := range lists {
		for _, j := range sc.Lists[i] {
			lists[i] = append(lists[i], universe[j])
		}
	}
	localIn := false
	for i := range sc.Lists {
		for _, j := range sc.Lists[i] {
			if j == sc.Local {
				localIn = true
				sc.LocalIn = append(sc.LocalIn, i)
				break
			}
		}
	}

	// node behaviour
	failClass := "none"
	failKind := -1 // focus: decided below, when the policy is known
	if !focus {
		failKind = rng.IntN(6)
	}
	switch failKind {
	case 0: // all fine
	case 1, 2: // few sticky failures
		failClass = "few-refuse"
		for i := 0; i < 1+rng.IntN(2); i++ {
			w.modes[string(universe[rng.IntN(uniN)].PublicKey())] = vf25NodeMode{refuse: true}
		}
	case 3: // many sticky failures
		failClass = "many-refuse"
		for i := range universe {
			if rng.IntN(2) == 0 {
				w.modes[string(universe[i].PublicKey())] = vf25NodeMode{refuse: true}
			}
		}
	case 4: // transient
		failClass = "transient"
		for i := range universe {
			if rng.IntN(3) == 0 {
				w.modes[string(universe[i].PublicKey())] = vf25NodeMode{failFirst: 1 + rng.IntN(2)}
			}
		}
	case 5: // mixed
		failClass = "mixed"
		for i := range universe {
			switch rng.IntN(4) {
			case 0:
				w.modes[string(universe[i].PublicKey())] = vf25NodeMode{refuse: true}
			case 1:
				w.modes[string(universe[i].PublicKey())] = vf25NodeMode{failFirst: 1}
			}
		}
	}
	for i := range universe {
		w.gosched[string(universe[i].PublicKey())] = rng.IntN(4)
	}

	// policy
	var cnr container.Container
	var policy netmap.PlacementPolicy
	if ecPolicy {
		ecr := make([]netmap.ECRule, nRules)
		for i := range rules {
			ecr[i].SetDataPartNum(uint32(rules[i].DataPartNum))
			ecr[i].SetParityPartNum(uint32(rules[i].ParityPartNum))
		}
		policy.SetECRules(ecr)
	} else {
		rds := make([]netmap.ReplicaDescriptor, nRules)
		for i := range rds {
			rds[i].SetNumberOfObjects(uint32(reps[i]))
		}
		policy.SetReplicas(rds)
	}
	withInitial := rng.IntN(2) == 0
	if focus {
		withInitial = rng.IntN(5) != 0
	}
	if withInitial {
		// an initial policy the API accepts: limits <= main counts (EC: 0/1), not all zero,
		// MaxReplicas <= sum of limits, PreferLocal only with MaxReplicas, differs from main
		var ip netmap.InitialPlacementPolicy
		var sum uint32
		differs := false
		if rng.IntN(4) != 0 {
			sc.Limits = make([]uint32, nRules)
			for i := range sc.Limits {
				if ecPolicy {
					sc.Limits[i] = uint32(rng.IntN(2))
				} else {
					sc.Limits[i] = uint32(rng.IntN(int(reps[i]) + 1))
				}
			}
			allZero := true
			for i := range sc.Limits {
				allZero = allZero && sc.Limits[i] == 0
			}
			if allZero {
				sc.Limits[rng.IntN(nRules)] = 1
			}
			for i := range sc.Limits {
				sum += sc.Limits[i]
				if ecPolicy && sc.Limits[i] == 0 || !ecPolicy && sc.Limits[i] < uint32(reps[i]) {
					differs = true
				}
			}
		} else {
			for i := range need {
				if ecPolicy {
					sum++
				} else {
					sum += uint32(reps[i])
				}
			}
		}
		if sc.Limits == nil || rng.IntN(2) == 0 {
			sc.MaxReplicas = 1 + uint32(rng.IntN(int(sum)))
			if focus && sum > 1 && rng.IntN(2) == 0 {
				sc.MaxReplicas = 2 + uint32(rng.IntN(int(sum)-1)) // a total that one copy cannot satisfy
			}
			if rng.IntN(2) == 0 || focus && rng.IntN(2) == 0 {
				sc.PreferLocal = true
			}
		}
		if sc.MaxReplicas > 0 || differs {
			sc.Initial = true
			if sc.Limits != nil {
				ip.SetReplicaLimits(sc.Limits)
			}
			ip.SetMaxReplicas(sc.MaxReplicas)
			ip.SetPreferLocal(sc.PreferLocal)
			policy.SetInitial(ip)
		} else {
			sc.Limits, sc.MaxReplicas, sc.PreferLocal = nil, 0, false
		}
	}
	cnr.SetPlacementPolicy(policy)
	cnrID := verifkit.RandCID(rng)

	if focus {
		// failures correlated with the rules.  demanded = number of acknowledgements the
		// statement asks for under the policy in force (REP: copies, EC: parts).
		member := make([]int, uniN) // bit i set: node is in list #i
		var cnrNodes []int
		for i := range sc.Lists {
			for _, j := range sc.Lists[i] {
				if member[j] == 0 {
					cnrNodes = append(cnrNodes, j)
				}
				member[j] |= 1 << i
			}
		}
		sort.Ints(cnrNodes)
		demanded := 0
		for i := range need {
			switch {
			case sc.Initial && sc.Limits != nil && ecPolicy:
				demanded += int(sc.Limits[i]) * need[i]
			case sc.Initial && sc.Limits != nil:
				demanded += int(sc.Limits[i])
			default:
				demanded += need[i]
			}
		}
		if sc.MaxReplicas > 0 && !ecPolicy {
			demanded = int(sc.MaxReplicas)
		}
		refuse := func(j int) { w.modes[string(universe[j].PublicKey())] = vf25NodeMode{refuse: true} }
		switch k := rng.IntN(10); k {
		case 0, 1, 2, 3: // all nodes of a non-empty proper subset of the lists are down
			failClass = "whole-lists-down"
			down := 1 + rng.IntN(1<<nRules-2)
			spareShared := rng.IntN(3) == 0 // ... except those that also serve a healthy list
			if spareShared {
				failClass = "whole-lists-down-except-shared-nodes"
			}
			for _, j := range cnrNodes {
				if member[j]&down != 0 && !(spareShared && member[j]&^down != 0) {
					refuse(j)
				}
			}
		case 4, 5: // the number of live container nodes is around the demanded total
			failClass = "live-nodes-around-demanded-total"
			alive := max(0, min(len(cnrNodes), demanded-2+rng.IntN(4)))
			perm := rng.Perm(len(cnrNodes))
			for _, x := range perm[alive:] {
				refuse(cnrNodes[x])
			}
		case 6: // only the local node (and few others) is alive
			failClass = "local-and-few-alive"
			for _, j := range cnrNodes {
				if j != sc.Local && rng.IntN(4) != 0 {
					refuse(j)
				}
			}
		case 7:
			failClass = "few-refuse"
			for i := 0; i < 1+rng.IntN(2); i++ {
				refuse(rng.IntN(uniN))
			}
		case 8:
			failClass = "transient"
			for i := range universe {
				if rng.IntN(3) == 0 {
					w.modes[string(universe[i].PublicKey())] = vf25NodeMode{failFirst: 1 + rng.IntN(2)}
				}
			}
		case 9:
			failClass = "mixed"
			for i := range universe {
				switch rng.IntN(4) {
				case 0:
					refuse(i)
				case 1:
					w.modes[string(universe[i].PublicKey())] = vf25NodeMode{failFirst: 1}
				}
			}
		}
	}
	sc.FailClass = failClass
	listsDown := 0 // lists whose nodes all refuse everything
	for i := range sc.Lists {
		allDown := true
		for _, j := range sc.Lists[i] {
			allDown = allDown && w.modes[string(universe[j].PublicKey())].refuse
		}
		if allDown {
			listsDown++
		}
	}
	for i := range universe {
		m := w.modes[string(universe[i].PublicKey())]
		s := "ok"
		if m.refuse {
			s = "refuse"
		} else if m.failFirst > 0 {
			s = "fail-first-" + strconv.Itoa(m.failFirst)
		}
		sc.Modes = append(sc.Modes, s)
	}

	maxObj := 2048
	net := &vf25Net{localPub: localPub, cn: vf25CnrNodes{lists: lists, reps: reps, rules: rules}, cnr: cnr, maxSize: uint64(maxObj)}
	svc := NewService(&vf25Transport{w: w}, net, nil, net, net,
		WithLogger(zap.NewNop()),
		WithKeyStorage(objutil.NewKeyStorage(&nodeKey.PrivateKey, net, net)),
		WithObjectStorage(&vf25Store{w: w, local: localPub}),
		WithMaxSizeSource(net),
		WithContainerSource(net),
		WithNetworkState(net),
		WithClientConstructor(vf25Clients{w: w}),
		WithSplitChainVerifier(net),
		WithTombstoneVerifier(net),
		WithPostPlacementReplicator(vf25PostPlacement{w: w}),
	)

	// object
	kinds := []string{"sliced", "sliced", "sliced", "sliced-split", "signed", "tombstone", "lock"}
	sc.Kind = kinds[rng.IntN(len(kinds))]
	if ecPolicy && sc.Kind == "signed" {
		sc.Kind = "sliced" // a signed non-part object is not accepted in an EC container
	}
	nodeOwner := user.NewFromECDSAPublicKey(nodeKey.PrivateKey.PublicKey)
	var hdr object.Object
	hdr.SetContainerID(cnrID)
	hdr.SetOwner(nodeOwner)
	var payload []byte
	switch sc.Kind {
	case "sliced":
		payload = verifkit.RandBytes(rng, rng.IntN(maxObj+1))
		hdr.SetAttributes(object.NewAttribute("verif-case", strconv.Itoa(idx)))
	case "sliced-split":
		payload = verifkit.RandBytes(rng, maxObj+1+rng.IntN(2*maxObj))
	case "signed":
		clientKey := vf25Key(rng)
		payload = verifkit.RandBytes(rng, rng.IntN(maxObj+1))
		ver := version.Current()
		hdr.SetVersion(&ver)
		hdr.SetOwner(user.NewFromECDSAPublicKey(clientKey.PrivateKey.PublicKey))
		hdr.SetCreationEpoch(77)
		hdr.SetPayloadSize(uint64(len(payload)))
		hdr.SetPayload(payload)
		if err := hdr.SetVerificationFields(user.NewAutoIDSignerRFC6979(clientKey.PrivateKey)); err != nil {
			r.Inconclusive("harness: cannot sign object: " + err.Error())
			return
		}
		hdr = *hdr.CutPayload()
	case "tombstone", "lock":
		ver := version.Current()
		hdr.SetVersion(&ver)
		hdr.SetAttributes(object.NewAttribute(object.AttributeExpirationEpoch, "1000"))
		if sc.Kind == "tombstone" {
			hdr.AssociateDeleted(verifkit.RandOID(rng))
		} else {
			hdr.AssociateLocked(verifkit.RandOID(rng))
		}
	}
	sc.Len = len(payload)

	var (
		putErr error
		rootID oid.ID
	)
	panicked := r.Guard(sc, func() {
		stream, err := svc.Put(context.Background())
		if err != nil {
			putErr = err
			return
		}
		prm := new(PutInitPrm).WithObject(&hdr).WithCommonPrm(objutil.CommonPrmFromRequest(2, nil, common.RequestTokens{}))
		if putErr = stream.Init(prm); putErr != nil {
			return
		}
		for off := 0; off < len(payload); {
			c := min(len(payload)-off, 1+rng.IntN(1500))
			if putErr = stream.SendChunk(new(PutChunkPrm).WithChunk(payload[off : off+c])); putErr != nil {
				return
			}
			off += c
		}
		rootID, putErr = stream.Close()
	})
	r.Eval(1)
	if panicked {
		return
	}
	w.mu.Lock()
	acks := append([]vf25Ack(nil), w.acks...)
	refused, postPl := w.refused, w.postPl
	w.mu.Unlock()
	r.Count("node_acks", len(acks))
	r.Count("node_refusals", refused)
	r.Max("max_concurrent_node_requests", int64(w.maxInfl.Load()))
	if postPl > 0 {
		r.Count("puts_with_post_placement_tasks", 1)
	}

	resClass := "success"
	switch {
	case putErr == nil:
		r.Count("puts_full_success", 1)
	case errors.Is(putErr, apistatus.ErrIncomplete):
		resClass = "incomplete"
		r.Count("puts_explicitly_incomplete", 1)
	default:
		resClass = "error"
		r.Count("puts_error", 1)
		r.Seen("error_classes", vf25ErrClass(putErr))
	}
	sc.Result = resClass
	if os.Getenv("VERIF_DEBUG") != "" && putErr != nil {
		fmt.Printf("DEBUG case %d: %v\n", idx, putErr)
	}

	localClass := "outside"
	if localIn {
		localClass = "in-later-lists-only"
		if sc.LocalIn[0] == 0 {
			localClass = "in-first-list"
		}
	}
	// policy class of the case, for the evidence (what was observed with which outcome)
	polFam := "rep"
	if ecPolicy {
		polFam = "ec"
	}
	var polClasses []string
	if sc.MaxReplicas > 0 {
		polClasses = append(polClasses, polFam+"_initial_max")
		if sc.PreferLocal && localIn {
			polClasses = append(polClasses, polFam+"_initial_max_prefer_local_"+strings.ReplaceAll(localClass, "-", "_"))
		}
	}
	if putErr != nil {
		for _, c := range polClasses {
			r.Count("not_success_"+c, 1)
		}
	}
	shape := fmt.Sprintf("rep%v|ec%v|lim%v|max%d|pl%v|%s|%s|%s|%s", sc.Reps, sc.EC, sc.Limits, sc.MaxReplicas, sc.PreferLocal, localClass, failClass, sc.Kind, resClass)
	r.Distinct(shape)
	r.Seen("object_kinds", sc.Kind)
	r.Seen("failure_patterns", failClass)

	if putErr != nil {
		return
	}

	// ---------------- oracle: full success was reported ----------------
	listSets := make([]map[string]bool, nRules)
	for i := range lists {
		listSets[i] = map[string]bool{}
		for _, n := range lists[i] {
			listSets[i][string(n.PublicKey())] = true
		}
	}
	idxOf := map[string]int{}
	for i := range universe {
		idxOf[string(universe[i].PublicKey())] = i
	}
	for _, a := range acks {
		sc.Acks = append(sc.Acks, []string{strconv.Itoa(idxOf[a.node]), a.id.String()[:6], a.typ.String(), strconv.Itoa(a.rule), strconv.Itoa(a.part)})
	}
	if len(sc.Acks) > 60 {
		sc.Acks = sc.Acks[:60]
	}
	// class key: policy family, which numbers the success is measured against, upload shape, symptom
	repeated := false
	for j := range rules {
		if vf25DupTag(rules, j) != "" {
			repeated = true
		}
	}
	family := "rep"
	if ecPolicy {
		family = "ec"
		if repeated {
			family = "ec+repeated-ec-rule"
		}
	}
	against := "main"
	if sc.Initial {
		against = "initial-limits"
		if sc.MaxReplicas > 0 {
			against = "initial-max"
		}
	}
	upload := "unsplit"
	switch sc.Kind {
	case "sliced-split":
		upload = "split-upload"
	case "tombstone", "lock":
		upload = "system-object"
	case "signed":
		upload = "client-signed"
	}
	vioKey := func(symptom string) string {
		if family == "ec+repeated-ec-rule" {
			return family + "|" + against + "|" + symptom
		}
		if sc.PreferLocal {
			return family + "|" + against + "+prefer-local|" + upload + "|" + symptom
		}
		return family + "|" + against + "|" + upload + "|" + symptom
	}

	if !ecPolicy {
		// objects of this PUT: the root (if it is a stored object) and everything that was acknowledged
		objs := map[oid.ID]map[string]bool{}
		if sc.Kind != "sliced-split" {
			objs[rootID] = map[string]bool{}
		}
		for _, a := range acks {
			if objs[a.id] == nil {
				objs[a.id] = map[string]bool{}
			}
			objs[a.id][a.node] = true
		}
		ids := make([]oid.ID, 0, len(objs))
		for id := range objs {
			ids = append(ids, id)
		}
		sort.Slice(ids, func(i, j int) bool { return bytes.Compare(ids[i][:], ids[j][:]) < 0 })
		for _, id := range ids {
			ackers := objs[id]
			inList := make([]int, nRules)
			for i := range listSets {
				for n := range ackers {
					if listSets[i][n] {
						inList[i]++
					}
				}
			}
			switch {
			case !sc.Initial:
				for i := range reps {
					if inList[i] < int(reps[i]) {
						r.Violation(vioKey("too-few-copies"), fmt.Sprintf("PUT reported full success, object %s was acknowledged by %d node(s) of list #%d, REP rule requires %d", id, inList[i], i, reps[i]), sc)
						return
					}
				}
			case sc.MaxReplicas == 0:
				for i := range reps {
					if inList[i] < int(sc.Limits[i]) {
						r.Violation(vioKey("below-initial-limit"), fmt.Sprintf("PUT reported full success, object %s was acknowledged by %d node(s) of list #%d, initial limit of the rule is %d", id, inList[i], i, sc.Limits[i]), sc)
						return
					}
				}
			default:
				total2 := 0
				for i := range reps {
					lim := int(reps[i])
					if sc.Limits != nil {
						lim = int(sc.Limits[i])
					}
					total2 += min(lim, inList[i])
				}
				if got := max(len(ackers), total2); got < int(sc.MaxReplicas) {
					r.Violation(vioKey("below-max-replicas"), fmt.Sprintf("PUT reported full success, object %s has %d acknowledged replicas in total (%d distinct nodes), initial policy wants MaxReplicas=%d", id, total2, len(ackers), sc.MaxReplicas), sc)
					return
				}
			}
		}
		r.Count("success_judged_rep", 1)
		if sc.Initial {
			r.Count("success_judged_initial", 1)
		}
		for _, c := range polClasses {
			r.Count("success_judged_"+c, 1)
		}
		if listsDown > 0 {
			r.Count("success_judged_with_whole_lists_down", 1)
		}
		r.Count("objects_judged", len(ids))
		if idx%211 == 0 {
			r.Sample(sc)
		}
		return
	}

	// EC policy
	if sc.Kind == "tombstone" || sc.Kind == "lock" {
		r.Count("success_system_object_in_ec_container(not judged)", 1)
		return
	}
	type partAcks map[[2]int]map[string]bool // (rule,part) -> nodes
	parents := map[oid.ID]partAcks{}
	if sc.Kind == "sliced" {
		parents[rootID] = partAcks{}
	}
	for _, a := range acks {
		if a.rule < 0 {
			continue
		}
		if parents[a.parent] == nil {
			parents[a.parent] = partAcks{}
		}
		k := [2]int{a.rule, a.part}
		if parents[a.parent][k] == nil {
			parents[a.parent][k] = map[string]bool{}
		}
		parents[a.parent][k][a.node] = true
	}
	pids := make([]oid.ID, 0, len(parents))
	for id := range parents {
		pids = append(pids, id)
	}
	sort.Slice(pids, func(i, j int) bool { return bytes.Compare(pids[i][:], pids[j][:]) < 0 })
	for _, pid := range pids {
		pa := parents[pid]
		complete := make([]bool, nRules)
		why := make([]string, nRules)
		for j, ru := range rules {
			total := int(ru.DataPartNum) + int(ru.ParityPartNum)
			// parts must sit on pairwise distinct nodes of the rule's own list
			cands := make([][]string, total)
			for k := 0; k < total; k++ {
				for n := range pa[[2]int{j, k}] {
					if listSets[j][n] {
						cands[k] = append(cands[k], n)
					}
				}
				sort.Strings(cands[k])
			}
			complete[j], why[j] = vf25DistinctAssignment(cands)
			if !complete[j] {
				// say where the parts went instead, if anywhere
				var elsewhere []string
				for k := 0; k < total; k++ {
					for n := range pa[[2]int{j, k}] {
						if !listSets[j][n] {
							elsewhere = append(elsewhere, fmt.Sprintf("part %d on node %d", k, idxOf[n]))
						}
					}
				}
				sort.Strings(elsewhere)
				if len(elsewhere) > 0 {
					why[j] += "; acknowledged outside the rule's list: " + strings.Join(elsewhere, ", ")
				}
			}
		}
		switch {
		case !sc.Initial:
			for j := range rules {
				if !complete[j] {
					r.Violation(vioKey("incomplete-ec-rule"), fmt.Sprintf("PUT reported full success, object %s: EC rule #%d (%s) does not have all parts on distinct nodes of its list: %s", pid, j, rules[j], why[j]), sc)
					return
				}
			}
		case sc.MaxReplicas == 0:
			for j := range rules {
				if sc.Limits[j] == 1 && !complete[j] {
					r.Violation(vioKey("incomplete-enabled-ec-rule"), fmt.Sprintf("PUT reported full success, object %s: EC rule #%d (%s) is enabled by the initial policy but does not have all parts on distinct nodes of its list: %s", pid, j, rules[j], why[j]), sc)
					return
				}
				if sc.Limits[j] == 0 && len(pa) > 0 {
					for k := range pa {
						if k[0] == j {
							r.Count("ec_rule_disabled_by_initial_policy_but_placed(not judged)", 1)
							break
						}
					}
				}
			}
		default:
			done := 0
			for j := range rules {
				if complete[j] && (sc.Limits == nil || sc.Limits[j] == 1) {
					done++
				}
			}
			if done < int(sc.MaxReplicas) {
				r.Violation(vioKey("below-max-replicas"), fmt.Sprintf("PUT reported full success, object %s: %d EC rule(s) completely stored on their own lists, initial policy wants MaxReplicas=%d (%v)", pid, done, sc.MaxReplicas, why), sc)
				return
			}
		}
	}
	r.Count("success_judged_ec", 1)
	if sc.Initial {
		r.Count("success_judged_initial", 1)
	}
	for _, c := range polClasses {
		r.Count("success_judged_"+c, 1)
	}
	if listsDown > 0 {
		r.Count("success_judged_with_whole_lists_down", 1)
	}
	r.Count("objects_judged", len(pids))
	if idx%211 == 0 {
		r.Sample(sc)
	}
}

func vf25DupTag(rules []iec.Rule, j int) string {
	for i := 0; i < j; i++ {
		if rules[i] == rules[j] {
			return "|repeated-rule"
		}
	}
	return ""
}

// vf25DistinctAssignment reports whether every part can be given its own node out of its
// candidates (bipartite matching, parts x nodes).
func vf25DistinctAssignment(cands [][]string) (bool, string) {
	for k := range cands {
		if len(cands[k]) == 0 {
			return false, fmt.Sprintf("part %d was not acknowledged by any node of the list", k)
		}
	}
	owner := map[string]int{}
	var try func(k int, seen map[string]bool) bool
	try = func(k int, seen map[string]bool) bool {
		for _, n := range cands[k] {
			if seen[n] {
				continue
			}
			seen[n] = true
			if o, ok := owner[n]; !ok || try(o, seen) {
				owner[n] = k
				return true
			}
		}
		return false
	}
	for k := range cands {
		if !try(k, map[string]bool{}) {
			return false, fmt.Sprintf("part %d shares its node(s) with other parts", k)
		}
	}
	return true, ""
}

func vf25ErrClass(err error) string {
	s := err.Error()
	for _, k := range []string{"not enough nodes for EC parts", "EC parts were put successfully", "unreachable MaxReplicas", "number of replicas cannot be met", "incomplete object PUT", "unexpected EOF"} {
		if strings.Contains(s, k) {
			return k
		}
	}
	if len(s) > 70 {
		s = s[len(s)-70:]
	}
	return hex.EncodeToString([]byte(s[:0])) + s
}
