//go:build verif

package putsvc

import (
	"bytes"
	"context"
	"crypto/ecdsa"
	"crypto/elliptic"
	"crypto/sha256"
	"encoding/hex"
	"errors"
	"fmt"
	"io"
	"math"
	"math/rand/v2"
	"os"
	"runtime/debug"
	"sort"
	"strconv"
	"strings"
	"sync"
	"testing"

	"github.com/google/uuid"
	"github.com/nspcc-dev/neo-go/pkg/crypto/keys"
	iec "github.com/nspcc-dev/neofs-node/internal/ec"
	isessions "github.com/nspcc-dev/neofs-node/internal/sessions"
	"github.com/nspcc-dev/neofs-node/internal/verifkit"
	clientcore "github.com/nspcc-dev/neofs-node/pkg/core/client"
	"github.com/nspcc-dev/neofs-node/pkg/services/object/common"
	objutil "github.com/nspcc-dev/neofs-node/pkg/services/object/util"
	sessionstate "github.com/nspcc-dev/neofs-node/pkg/util/state/session"
	"github.com/nspcc-dev/neofs-sdk-go/checksum"
	"github.com/nspcc-dev/neofs-sdk-go/client"
	"github.com/nspcc-dev/neofs-sdk-go/container"
	cid "github.com/nspcc-dev/neofs-sdk-go/container/id"
	neofscrypto "github.com/nspcc-dev/neofs-sdk-go/crypto"
	neofsecdsa "github.com/nspcc-dev/neofs-sdk-go/crypto/ecdsa"
	"github.com/nspcc-dev/neofs-sdk-go/netmap"
	"github.com/nspcc-dev/neofs-sdk-go/object"
	oid "github.com/nspcc-dev/neofs-sdk-go/object/id"
	"github.com/nspcc-dev/neofs-sdk-go/object/slicer"
	"github.com/nspcc-dev/neofs-sdk-go/session"
	sessionv2 "github.com/nspcc-dev/neofs-sdk-go/session/v2"
	"github.com/nspcc-dev/neofs-sdk-go/user"
	"github.com/nspcc-dev/neofs-sdk-go/version"
	"go.uber.org/zap"
)

const vf24Epoch = 77

// ---------------------------------------------------------------------------------
// independent validator (written from the property statement)
// ---------------------------------------------------------------------------------

// vf24Check returns the list of statement clauses the object breaks (empty = the node may
// store it).  ecRules is the EC part of the container policy (nil for REP containers).
func vf24Check(o *object.Object, ecRules []iec.Rule) []string {
	var bad []string
	bad = append(bad, vf24CheckHeaderID(o, "")...)
	// payload vs declared length and checksum
	if uint64(len(o.Payload())) != o.PayloadSize() {
		bad = append(bad, "payload-length")
	}
	cs, ok := o.PayloadChecksum()
	if !ok {
		bad = append(bad, "checksum-missing")
	} else {
		sum := sha256.Sum256(o.Payload())
		if cs.Type() != checksum.SHA256 || !bytes.Equal(cs.Value(), sum[:]) {
			bad = append(bad, "payload-checksum")
		}
	}
	bad = append(bad, vf24CheckAttributes(o, "")...)
	// format
	if o.GetContainerID().IsZero() {
		bad = append(bad, "format-no-container")
	}
	if o.Owner().IsZero() {
		bad = append(bad, "format-no-owner")
	}
	if t := o.Type(); t == object.TypeTombstone || t == object.TypeLock {
		if len(o.Payload()) != 0 {
			bad = append(bad, "format-system-object-with-payload")
		}
		if o.AssociatedObject().IsZero() {
			bad = append(bad, "format-system-object-without-target")
		}
	}

	isPart := false
	for _, a := range o.Attributes() {
		if strings.HasPrefix(a.Key(), "__NEOFS__EC_") {
			isPart = true
		}
	}
	if isPart {
		bad = append(bad, vf24CheckECPart(o, ecRules)...)
	} else {
		if len(ecRules) > 0 && o.Type() == object.TypeRegular {
			bad = append(bad, "ec-regular-object-without-part-attributes")
		}
		bad = append(bad, vf24CheckAuth(o, "")...)
	}

	bad = append(bad, vf24CheckParents(o, isPart, "parent-", 0)...)
	return bad
}

// vf24CheckParents validates nested parent headers where the protocol says they are final:
// the parent of an EC part, of a link object and of every split member but the first one.
func vf24CheckParents(o *object.Object, isPart bool, pfx string, depth int) []string {
	par := o.Parent()
	if par == nil || depth >= 2 {
		return nil
	}
	_, hasFirst := o.FirstID()
	final := isPart || o.Type() == object.TypeLink || hasFirst || (o.SplitID() != nil && !o.GetParentID().IsZero())
	if !final {
		return nil
	}
	var bad []string
	bad = append(bad, vf24CheckHeaderID(par, pfx)...)
	bad = append(bad, vf24CheckAttributes(par, pfx)...)
	bad = append(bad, vf24CheckAuth(par, pfx)...)
	bad = append(bad, vf24CheckParents(par, false, "grand"+pfx, depth+1)...)
	return bad
}

func vf24CheckHeaderID(o *object.Object, pfx string) []string {
	id := o.GetID()
	if id.IsZero() {
		return []string{pfx + "id-missing"}
	}
	m := o.ProtoMessage()
	var hb []byte
	if m.Header != nil {
		hb = make([]byte, m.Header.MarshaledSize())
		m.Header.MarshalStable(hb)
	}
	if sha256.Sum256(hb) != id {
		return []string{pfx + "id-mismatch"}
	}
	return nil
}

func vf24CheckAttributes(o *object.Object, pfx string) []string {
	seen := map[string]bool{}
	for _, a := range o.Attributes() {
		if seen[a.Key()] {
			return []string{pfx + "attribute-duplicate"}
		}
		seen[a.Key()] = true
		if a.Value() == "" {
			return []string{pfx + "attribute-empty-value"}
		}
		if strings.IndexByte(a.Key(), 0) >= 0 || strings.IndexByte(a.Value(), 0) >= 0 {
			return []string{pfx + "attribute-zero-byte"}
		}
	}
	return nil
}

func vf24PubUser(pubBytes []byte) (user.ID, *ecdsa.PublicKey, bool) {
	pk, err := keys.NewPublicKeyFromBytes(pubBytes, elliptic.P256())
	if err != nil {
		return user.ID{}, nil, false
	}
	ep := (*ecdsa.PublicKey)(pk)
	return user.NewFromECDSAPublicKey(*ep), ep, true
}

// vf24CheckAuth: the signature over the ID authenticates the owner, or a session the owner issued.
func vf24CheckAuth(o *object.Object, pfx string) []string {
	sig := o.Signature()
	if sig == nil {
		return []string{pfx + "signature-missing"}
	}
	if !sig.Verify(o.GetID().Marshal()) {
		return []string{pfx + "signature-invalid"}
	}
	signerUser, pub, ok := vf24PubUser(sig.PublicKeyBytes())
	if !ok {
		return []string{pfx + "signature-key-undecodable"}
	}
	if o.SessionTokenV2() != nil {
		return nil // V2 sessions are not generated; nothing to say
	}
	if tok := o.SessionToken(); tok != nil {
		if !tok.VerifySignature() {
			return []string{pfx + "session-token-signature-invalid"}
		}
		if tok.Issuer() != o.Owner() {
			return []string{pfx + "session-issuer-is-not-owner" + vf24LegacyMark(o)}
		}
		if tsig, ok := tok.Signature(); ok {
			if u, _, ok := vf24PubUser(tsig.PublicKeyBytes()); !ok || u != tok.Issuer() {
				return []string{pfx + "session-token-not-signed-by-issuer"}
			}
		} else {
			return []string{pfx + "session-token-unsigned"}
		}
		if !tok.AssertAuthKey((*neofsecdsa.PublicKey)(pub)) {
			return []string{pfx + "session-token-not-for-signer"}
		}
		return nil
	}
	if signerUser != o.Owner() {
		return []string{pfx + "signer-is-not-owner" + vf24LegacyMark(o)}
	}
	return nil
}

// vf24LegacyHeaderMark is appended to the two "principal is not the owner" clauses when the
// header they were found in declares an API version 2.7..2.17.  The statement knows no
// versions, so the clause is broken all the same; the mark only lets the caller tell these
// headers apart (see vf24JudgeStored).
const vf24LegacyHeaderMark = "@pre-2.18-header"

func vf24LegacyVersion(o *object.Object) bool {
	v := o.Version()
	return v != nil && v.Major() == 2 && v.Minor() >= 7 && v.Minor() < 18
}

func vf24LegacyMark(o *object.Object) string {
	if vf24LegacyVersion(o) {
		return vf24LegacyHeaderMark
	}
	return ""
}

// vf24JudgeStored splits the clauses a stored object breaks into judged and not judged ones.
// Not judged: "principal is not the owner" in a header of API version 2.7..2.17 that arrived
// by REPLICATION.  The node tolerates that on purpose (pkg/core/version: objects below 2.18
// "may have a mismatching owner due to a bug that allowed creating such objects, so they
// should not be rejected"; such objects exist in the network and must stay replicable), and
// the statement does not speak about versions at all, so the monitor does not constrain the
// replication of old objects.  Everything a CLIENT offers is judged by the letter of the
// statement whatever version its headers declare (the node refuses pre-2.18 headers there).
func vf24JudgeStored(bad []string, path string) (judged, notJudged []string) {
	for _, b := range bad {
		if path == "replica" && strings.HasSuffix(b, vf24LegacyHeaderMark) {
			notJudged = append(notJudged, b)
		} else {
			judged = append(judged, b)
		}
	}
	return
}

func vf24CheckECPart(o *object.Object, ecRules []iec.Rule) []string {
	if len(ecRules) == 0 {
		return []string{"ec-attributes-in-container-without-ec"}
	}
	ruleIdx, partIdx := -1, -1
	for _, a := range o.Attributes() {
		switch a.Key() {
		case "__NEOFS__EC_RULE_IDX":
			if v, err := strconv.Atoi(a.Value()); err == nil {
				ruleIdx = v
			}
		case "__NEOFS__EC_PART_IDX":
			if v, err := strconv.Atoi(a.Value()); err == nil {
				partIdx = v
			}
		default:
			if !strings.HasPrefix(a.Key(), "__NEOFS__EC_") {
				return []string{"ec-mixed-attributes"}
			}
		}
	}
	if ruleIdx < 0 || partIdx < 0 {
		return []string{"ec-part-info-incomplete"}
	}
	if ruleIdx >= len(ecRules) {
		return []string{"ec-rule-index-out-of-policy"}
	}
	ru := ecRules[ruleIdx]
	if partIdx >= int(ru.DataPartNum)+int(ru.ParityPartNum) {
		return []string{"ec-part-index-out-of-rule"}
	}
	par := o.Parent()
	if par == nil {
		return []string{"ec-part-without-parent"}
	}
	if want := (par.PayloadSize() + uint64(ru.DataPartNum) - 1) / uint64(ru.DataPartNum); want != o.PayloadSize() {
		return []string{"ec-part-length"}
	}
	var hashes []string
	for _, a := range par.Attributes() {
		if a.Key() == "__NEOFS__EC_PART_HASHES" {
			hashes = strings.Split(a.Value(), ",")
		}
	}
	off := partIdx
	for i := 0; i < ruleIdx; i++ {
		off += int(ecRules[i].DataPartNum) + int(ecRules[i].ParityPartNum)
	}
	cs, _ := o.PayloadChecksum()
	if off >= len(hashes) || hashes[off] != hex.EncodeToString(cs.Value()) {
		return []string{"ec-part-hash-not-announced-by-parent"}
	}
	return nil
}

// ---------------------------------------------------------------------------------
// fakes
// ---------------------------------------------------------------------------------

type vf24Stored struct {
	obj    object.Object
	hadBin bool
}

type vf24World struct {
	mu       sync.Mutex
	stored   []vf24Stored
	puts     int
	failPuts map[int]bool // 1-based numbers of local Put calls that fail
	binBad   string
}

type vf24Store struct{ w *vf24World }

func (s *vf24Store) Put(_ context.Context, obj *object.Object, objBin []byte) error {
	s.w.mu.Lock()
	defer s.w.mu.Unlock()
	s.w.puts++
	if s.w.failPuts[s.w.puts] {
		return errors.New("verif: local storage fails this write")
	}
	var cp object.Object
	if objBin != nil {
		// the binary is what gets persisted
		if err := cp.Unmarshal(objBin); err != nil {
			s.w.binBad = "undecodable binary: " + err.Error()
			return nil
		}
		if cp.GetID() != obj.GetID() || !bytes.Equal(cp.Payload(), obj.Payload()) {
			s.w.binBad = "binary differs from the object structure"
		}
	} else {
		obj.CopyTo(&cp)
	}
	s.w.stored = append(s.w.stored, vf24Stored{obj: cp, hadBin: objBin != nil})
	return nil
}
func (s *vf24Store) IsLocked(context.Context, oid.Address) (bool, error) { return false, nil }

type vf24CnrNodes struct {
	lists [][]netmap.NodeInfo
	reps  []uint
	rules []iec.Rule
}

func (x vf24CnrNodes) Unsorted() [][]netmap.NodeInfo                     { return x.lists }
func (x vf24CnrNodes) SortForObject(oid.ID) ([][]netmap.NodeInfo, error) { return x.lists, nil }
func (x vf24CnrNodes) PrimaryCounts() []uint                             { return x.reps }
func (x vf24CnrNodes) ECRules() []iec.Rule                               { return x.rules }

type vf24Net struct {
	localPub   []byte
	cn         vf24CnrNodes
	cnr        container.Container
	maxSize    uint64
	sessionKey *ecdsa.PrivateKey
}

func (x *vf24Net) GetContainerNodes(cid.ID) (ContainerNodes, error) { return x.cn, nil }
func (x *vf24Net) IsLocalNodePublicKey(pub []byte) bool             { return bytes.Equal(pub, x.localPub) }
func (x *vf24Net) GetEpochBlock(uint64) (uint32, error)             { return 0, errors.New("verif: no chain") }
func (x *vf24Net) GetEpochBlockByTime(uint32) (uint32, error)       { return 0, errors.New("verif: no chain") }
func (x *vf24Net) CurrentEpoch() uint64                             { return vf24Epoch }
func (x *vf24Net) CurrentBlock() uint32                             { return 1000 }
func (x *vf24Net) CurrentEpochDuration() uint64                     { return 240 }
func (x *vf24Net) Get(cid.ID) (container.Container, error)          { return x.cnr, nil }
func (x *vf24Net) MaxObjectSize() uint64                            { return x.maxSize }
func (x *vf24Net) AvailableQuotasLeft(cid.ID, user.ID) (uint64, uint64, error) {
	return math.MaxUint64, math.MaxUint64, nil
}
func (x *vf24Net) UnpaidSince(cid.ID) (int64, error) { return -1, nil }
func (x *vf24Net) VerifySplit(context.Context, cid.ID, oid.ID, []object.MeasuredObject) error {
	return nil
}
func (x *vf24Net) VerifyTombStoneWithoutPayload(context.Context, object.Object) error { return nil }
func (x *vf24Net) GetToken(user.ID) *sessionstate.PrivateToken {
	if x.sessionKey == nil {
		return nil
	}
	return sessionstate.NewPrivateToken(x.sessionKey, vf24Epoch+100)
}
func (x *vf24Net) FindTokenBySubjects([]sessionv2.Target) *sessionstate.PrivateToken { return nil }

type vf24Transport struct{}

func (vf24Transport) SendReplicationRequestToNode(context.Context, []byte, netmap.NodeInfo) ([]byte, error) {
	return nil, nil
}

type vf24Client struct{ clientcore.MultiAddressClient }
type vf24Writer struct{}

func (vf24Client) ObjectPutInit(context.Context, object.Object, user.Signer, client.PrmObjectPutInit) (client.ObjectWriter, error) {
	return vf24Writer{}, nil
}
func (vf24Writer) Write(p []byte) (int, error)          { return len(p), nil }
func (vf24Writer) ReadFrom(r io.Reader) (int64, error)  { return io.Copy(io.Discard, r) }
func (vf24Writer) Close() error                         { return nil }
func (vf24Writer) GetResult() client.ResObjectPut       { return client.ResObjectPut{} }

type vf24Clients struct{}

func (vf24Clients) Get(context.Context, netmap.NodeInfo) (clientcore.MultiAddressClient, error) {
	return vf24Client{}, nil
}

type vf24NoPost struct{}

func (vf24NoPost) HandlePostPlacement(*object.Object, []netmap.NodeInfo) {}

// ---------------------------------------------------------------------------------
// object factory (harness side: builds valid objects and single-field mutants)
// ---------------------------------------------------------------------------------

func vf24Key(rng *rand.Rand) *keys.PrivateKey {
	for {
		k, err := keys.NewPrivateKeyFromBytes(verifkit.RandBytes(rng, 32))
		if err == nil {
			return k
		}
	}
}

func vf24Signer(rng *rand.Rand, k *keys.PrivateKey) user.Signer {
	if rng.IntN(2) == 0 {
		return user.NewAutoIDSignerRFC6979(k.PrivateKey)
	}
	return user.NewAutoIDSigner(k.PrivateKey)
}

type vf24Input struct {
	obj    object.Object
	signer user.Signer // key that (re)seals the object; nil for EC parts
	gen    string
}

func vf24Seal(o *object.Object, signer user.Signer) {
	_ = o.CalculateAndSetID()
	if signer != nil {
		_ = o.Sign(signer)
	}
}

func vf24Base(rng *rand.Rand, cnr cid.ID, owner user.ID, payload []byte) object.Object {
	var o object.Object
	ver := version.Current()
	o.SetVersion(&ver)
	o.SetContainerID(cnr)
	o.SetOwner(owner)
	o.SetCreationEpoch(vf24Epoch - uint64(rng.IntN(3)))
	o.SetType(object.TypeRegular)
	var attrs []object.Attribute
	for i := 0; i < rng.IntN(4); i++ {
		attrs = append(attrs, object.NewAttribute("k"+strconv.Itoa(i), "v"+strconv.Itoa(rng.IntN(100))))
	}
	if len(attrs) > 0 {
		o.SetAttributes(attrs...)
	}
	o.SetPayload(payload)
	o.SetPayloadSize(uint64(len(payload)))
	o.CalculateAndSetPayloadChecksum()
	return o
}

func vf24SessionToken(rng *rand.Rand, cnr cid.ID, issuer user.Signer, authKey *keys.PrivateKey) session.Object {
	var tok session.Object
	id, _ := uuid.NewRandomFromReader(bytes.NewReader(verifkit.RandBytes(rng, 16)))
	tok.SetID(id)
	tok.SetExp(vf24Epoch + 10)
	tok.SetNbf(1)
	tok.SetIat(1)
	tok.BindContainer(cnr)
	tok.ForVerb(session.VerbObjectPut)
	tok.SetAuthKey((*neofsecdsa.PublicKey)(&authKey.PrivateKey.PublicKey))
	_ = tok.Sign(issuer)
	return tok
}

// collector for client-side slicing (the harness acts as the client)
type vf24Collector struct{ objs []object.Object }
type vf24CollectorW struct {
	c   *vf24Collector
	hdr object.Object
	buf []byte
}

func (c *vf24Collector) ObjectPutInit(_ context.Context, hdr object.Object, _ user.Signer, _ client.PrmObjectPutInit) (client.ObjectWriter, error) {
	return &vf24CollectorW{c: c, hdr: hdr}, nil
}
func (w *vf24CollectorW) Write(p []byte) (int, error) { w.buf = append(w.buf, p...); return len(p), nil }
func (w *vf24CollectorW) ReadFrom(r io.Reader) (int64, error) {
	b, err := io.ReadAll(r)
	w.buf = append(w.buf, b...)
	return int64(len(b)), err
}
func (w *vf24CollectorW) Close() error {
	o := w.hdr
	o.SetPayload(w.buf)
	var cp object.Object
	o.CopyTo(&cp)
	w.c.objs = append(w.c.objs, cp)
	return nil
}
func (w *vf24CollectorW) GetResult() client.ResObjectPut { return client.ResObjectPut{} }

// ---------------------------------------------------------------------------------
// test
// ---------------------------------------------------------------------------------

type vf24Scenario struct {
	Case     int      `json:"case"`
	Path     string   `json:"path"` // client-stream | replica | slicer
	Gen      string   `json:"object"`
	Mutation string   `json:"mutation"`
	Expected []string `json:"clauses_broken_by_input"`
	Len      int      `json:"payload_len"`
	Streamed int      `json:"payload_streamed"`
	Chunks   []int    `json:"chunks,omitempty"`
	FailPuts []int    `json:"failing_local_writes,omitempty"`
	Outcome  string   `json:"outcome"`
	EC       []string `json:"ec_rules,omitempty"`
	History  []vf24Step `json:"offers_to_this_node_so_far,omitempty"` // history mode: all offers incl. the current (last) one
}

type vf24Step struct {
	Path     string   `json:"path"`
	Mutation string   `json:"mutation"`
	Expected []string `json:"clauses_broken_by_input"`
	Len      int      `json:"payload_len"`
	Streamed int      `json:"payload_streamed"`
	Chunks   []int    `json:"chunks,omitempty"`
	Outcome  string   `json:"outcome"`
}

func TestVerif_C24(t *testing.T) {
	r := verifkit.Start(t, "C24", "exploration")
	defer r.Finish()
	nPrepared := r.Pick(3000, 200000)
	nSlicer := r.Pick(1200, 60000)
	r.SetRule(fmt.Sprintf("%d prepared-object cases: a valid object (regular, session-signed, tombstone, lock, v2 split first/middle/last/link with nested parent header, v1 (split ID) last member with finished parent header, EC part) or a single-field mutant (ID bit, header field, checksum, declared size +-, payload byte, truncated/overlong stream, signature bytes/wrong key/missing, session token auth key/signature bytes/issuer/signed by a non-issuer with identical body/body changed under the old signature, attribute duplicate/empty/NUL, EC rule/part index, EC part length, EC part hash, parent header ID/signature/attributes, parent/grandparent header sealed by a non-owner; where the authenticating principal of a header is made somebody else than the owner, that header also declares, in half of the cases, another API version: 2.7..2.17, none, or older than 2.7) is offered through Streamer.Init/SendChunk/Close in a seeded chunking or through ValidateAndStoreObjectLocally (replication); half of the cases are histories: 2..5 offers (the valid object and independent single-field mutants of it, sharing owner, keys, session token body and parent headers) go to the same node in seeded order, every offer judged alone; %d slicer cases: unprepared objects (owner key or owner-issued session) of 0..4x the object size limit streamed in seeded chunkings with 0..2 transient local write failures; the oracle validates every object that reaches the recording local storage and, for successful slicer PUTs, reassembles the stored pieces; distinct = (path, object kind, mutation, outcome)", nPrepared, nSlicer))
	r.Assume("Server.Replicate delegates object validation to putsvc.Service.ValidateAndStoreObjectLocally, which is what is driven here; request-level checks of Replicate (request signature, container membership) are outside C24")
	r.Assume("only V1 session tokens are generated; of the v1 split scheme only hand-made last members (the node's slicer and the SDK produce v2)")
	r.Assume("not judged: 'signer / session issuer is not the owner' in a header of API version 2.7..2.17 that arrives by replication - the node tolerates it on purpose for objects created before 2.18 (pkg/core/version) and the statement does not speak about versions; such stores are counted (replicated_pre_2_18_header_with_foreign_owner_stored_not_judged). Through the client PUT path the clause is judged for every header whatever version it declares")
	r.Assume("independent validator trusts the SDK's protobuf encoding and ECDSA verification primitives")

	cache := isessions.NewObjectSessionsCache(8)
	for i := 0; i < nPrepared; i++ {
		vf24PreparedCase(r, cache, i)
	}
	for i := 0; i < nSlicer; i++ {
		vf24SlicerCase(r, cache, i)
	}
	if r.Counter("valid_objects_stored") == 0 || r.Counter("invalid_inputs_rejected") == 0 {
		r.Inconclusive("did not observe both accepted valid objects and rejected invalid ones")
	}
	if r.Counter("history_invalid_sibling_offered_after_accepted_valid") == 0 || r.Counter("history_same_session_body_other_signature_after_accepted_valid") == 0 {
		r.Inconclusive("no node was offered an invalid sibling of an object it had accepted before (history mode not exercised)")
	}
	if r.Counter("other_version_unauthenticated_nested_header_offered_client_stream") == 0 || r.Counter("other_version_unauthenticated_object_offered_client_stream") == 0 {
		r.Inconclusive("no client offered an object / a nested parent header of another API version whose signer is not the owner (version dimension not exercised)")
	}
	if r.Counter("slicer_puts_reassembled") == 0 {
		r.Inconclusive("no node-sliced upload was reassembled")
	}
	if v, i := r.Counter("valid_inputs_rejected"), r.Counter("valid_objects_stored"); v > i {
		r.Inconclusive(fmt.Sprintf("harness generates mostly objects the node rejects although the validator accepts them (%d rejected, %d stored)", v, i))
	}
}

type vf24Env struct {
	svc      *Service
	w        *vf24World
	net      *vf24Net
	cnrID    cid.ID
	nodeKey  *keys.PrivateKey
	ecRules  []iec.Rule
	localPos int
}

func vf24NewEnv(rng *rand.Rand, cache *isessions.ObjectSessionsCache, ecRules []iec.Rule, localPos int, maxObj int, sessionKey *ecdsa.PrivateKey) *vf24Env {
	e := &vf24Env{w: &vf24World{failPuts: map[int]bool{}}, nodeKey: vf24Key(rng), ecRules: ecRules, localPos: localPos}
	localPub := e.nodeKey.PublicKey().Bytes()
	var local netmap.NodeInfo
	local.SetPublicKey(localPub)
	local.SetNetworkEndpoints("/ip4/10.0.2.1/tcp/8080")
	var policy netmap.PlacementPolicy
	var lists [][]netmap.NodeInfo
	var reps []uint
	if len(ecRules) == 0 {
		var rd netmap.ReplicaDescriptor
		rd.SetNumberOfObjects(1)
		policy.SetReplicas([]netmap.ReplicaDescriptor{rd})
		lists = [][]netmap.NodeInfo{{local}}
		reps = []uint{1}
	} else {
		ecr := make([]netmap.ECRule, len(ecRules))
		for i, ru := range ecRules {
			ecr[i].SetDataPartNum(uint32(ru.DataPartNum))
			ecr[i].SetParityPartNum(uint32(ru.ParityPartNum))
			total := int(ru.DataPartNum) + int(ru.ParityPartNum)
			l := make([]netmap.NodeInfo, total)
			for j := range l {
				l[j].SetPublicKey(append([]byte{2}, verifkit.RandBytes(rng, 32)...))
				l[j].SetNetworkEndpoints("/ip4/10.0.3." + strconv.Itoa(j+1) + "/tcp/8080")
			}
			l[localPos%total] = local
			lists = append(lists, l)
		}
		policy.SetECRules(ecr)
	}
	var cnr container.Container
	cnr.SetPlacementPolicy(policy)
	e.cnrID = verifkit.RandCID(rng)
	e.net = &vf24Net{localPub: localPub, cn: vf24CnrNodes{lists: lists, reps: reps, rules: ecRules}, cnr: cnr, maxSize: uint64(maxObj), sessionKey: sessionKey}
	e.svc = NewService(vf24Transport{}, e.net, nil, e.net, e.net,
		WithLogger(zap.NewNop()),
		WithSessionsCache(cache),
		WithKeyStorage(objutil.NewKeyStorage(&e.nodeKey.PrivateKey, e.net, e.net)),
		WithObjectStorage(&vf24Store{w: e.w}),
		WithMaxSizeSource(e.net),
		WithContainerSource(e.net),
		WithNetworkState(e.net),
		WithClientConstructor(vf24Clients{}),
		WithSplitChainVerifier(e.net),
		WithTombstoneVerifier(e.net),
		WithPostPlacementReplicator(vf24NoPost{}),
	)
	return e
}

func vf24Chunks(rng *rand.Rand, n int) []int {
	if n == 0 {
		return nil
	}
	var res []int
	switch rng.IntN(4) {
	case 0:
		return []int{n}
	case 1:
		c := 1 + rng.IntN(700)
		for left := n; left > 0; left -= c {
			res = append(res, min(c, left))
		}
		return res
	default:
		for left := n; left > 0; {
			c := 1 + rng.IntN(left)
			if rng.IntN(3) == 0 {
				c = 1 + rng.IntN(min(left, 40))
			}
			res = append(res, c)
			left -= c
		}
		return res
	}
}

// vf24PreparedCase: client-signed / replicated objects, valid or mutated in one field.
func vf24PreparedCase(r *verifkit.Run, cache *isessions.ObjectSessionsCache, idx int) {
	rng := r.Rand("prepared", idx)
	const maxObj = 2048
	sc := vf24Scenario{Case: idx}

	gens := []string{"regular", "regular", "session", "tombstone", "lock", "split-first", "split-middle", "split-last", "split-link", "split-v1-last", "ec-part", "ec-part", "ec-part-of-split"}
	sc.Gen = gens[rng.IntN(len(gens))]
	var ecRules []iec.Rule
	partIdx := 0
	if sc.Gen == "ec-part" || sc.Gen == "ec-part-of-split" {
		for i := 0; i < 1+rng.IntN(3); i++ {
			ecRules = append(ecRules, iec.Rule{DataPartNum: uint8(1 + rng.IntN(4)), ParityPartNum: uint8(1 + rng.IntN(3))})
			sc.EC = append(sc.EC, ecRules[i].String())
		}
	}
	ruleIdx := 0
	if len(ecRules) > 0 {
		ruleIdx = rng.IntN(len(ecRules))
		partIdx = rng.IntN(int(ecRules[ruleIdx].DataPartNum) + int(ecRules[ruleIdx].ParityPartNum))
	}
	env := vf24NewEnv(rng, cache, ecRules, partIdx, maxObj, nil)

	ownerKey := vf24Key(rng)
	ownerSigner := vf24Signer(rng, ownerKey)
	owner := ownerSigner.UserID()
	in := vf24Input{gen: sc.Gen, signer: ownerSigner}
	var sessKey *keys.PrivateKey
	var parentSigner user.Signer // for objects with a final parent header

	switch sc.Gen {
	case "regular":
		in.obj = vf24Base(rng, env.cnrID, owner, verifkit.RandBytes(rng, rng.IntN(maxObj+1)))
	case "session":
		sessKey = vf24Key(rng)
		in.obj = vf24Base(rng, env.cnrID, owner, verifkit.RandBytes(rng, rng.IntN(maxObj+1)))
		tok := vf24SessionToken(rng, env.cnrID, ownerSigner, sessKey)
		in.obj.SetSessionToken(&tok)
		in.signer = vf24Signer(rng, sessKey)
	case "tombstone", "lock":
		in.obj = vf24Base(rng, env.cnrID, owner, nil)
		if sc.Gen == "tombstone" {
			in.obj.SetType(object.TypeTombstone)
			in.obj.AssociateDeleted(verifkit.RandOID(rng))
		} else {
			in.obj.SetType(object.TypeLock)
			in.obj.AssociateLocked(verifkit.RandOID(rng))
		}
		in.obj.SetAttributes(append(in.obj.Attributes(), object.NewAttribute(object.AttributeExpirationEpoch, strconv.Itoa(vf24Epoch+5+rng.IntN(50))))...)
	case "split-first", "split-middle", "split-last", "split-link":
		// the harness slices as a client would (SDK slicer), then picks one member
		var hdr object.Object
		hdr.SetContainerID(env.cnrID)
		hdr.SetOwner(owner)
		hdr.SetAttributes(object.NewAttribute("name", "split-"+strconv.Itoa(idx)))
		col := &vf24Collector{}
		var opts slicer.Options
		limit := 256 + rng.IntN(512)
		opts.SetObjectPayloadLimit(uint64(limit))
		opts.SetCurrentNeoFSEpoch(vf24Epoch)
		chainSigner := ownerSigner
		if rng.IntN(3) == 0 {
			// the client slices within a session the owner issued: every member and the
			// parent header carry the token and are signed with the session key
			sessKey = vf24Key(rng)
			opts.SetSession(vf24SessionToken(rng, env.cnrID, ownerSigner, sessKey))
			chainSigner = vf24Signer(rng, sessKey)
			sc.Gen += "+session"
		}
		pl := verifkit.RandBytes(rng, limit*2+1+rng.IntN(limit*2))
		pw, err := slicer.InitPut(context.Background(), col, hdr, chainSigner, opts)
		if err == nil {
			_, err = pw.Write(pl)
		}
		if err == nil {
			err = pw.Close()
		}
		if err != nil || len(col.objs) < 4 {
			r.Inconclusive(fmt.Sprintf("harness: client-side slicing failed: %v (%d objects)", err, len(col.objs)))
			return
		}
		switch in.gen {
		case "split-first":
			in.obj = col.objs[0]
		case "split-middle":
			in.obj = col.objs[1+rng.IntN(len(col.objs)-3)]
		case "split-last":
			in.obj = col.objs[len(col.objs)-2]
		case "split-link":
			in.obj = col.objs[len(col.objs)-1]
		}
		in.signer = chainSigner
		parentSigner = chainSigner
	case "split-v1-last":
		// last member of a v1 (split ID) chain made by the client: carries the finished,
		// signed parent header; optionally within an owner-issued session
		chainSigner := ownerSigner
		var tok *session.Object
		if rng.IntN(3) == 0 {
			sessKey = vf24Key(rng)
			t := vf24SessionToken(rng, env.cnrID, ownerSigner, sessKey)
			tok = &t
			chainSigner = vf24Signer(rng, sessKey)
			sc.Gen += "+session"
		}
		limit := 256 + rng.IntN(512)
		pl := verifkit.RandBytes(rng, limit*2+1+rng.IntN(limit))
		parent := vf24Base(rng, env.cnrID, owner, pl)
		if tok != nil {
			parent.SetSessionToken(tok)
		}
		vf24Seal(&parent, chainSigner)
		last := pl[len(pl)-1-rng.IntN(limit):]
		in.obj = vf24Base(rng, env.cnrID, owner, bytes.Clone(last))
		if tok != nil {
			in.obj.SetSessionToken(tok)
		}
		sid := verifkit.RandBytes(rng, 16)
		sid[6], sid[8] = sid[6]&0x0f|0x40, sid[8]&0x3f|0x80 // UUID v4, as the wire decoder demands
		in.obj.SetSplitID(object.NewSplitIDFromV2(sid))
		in.obj.SetPreviousID(verifkit.RandOID(rng))
		in.obj.SetParent(parent.CutPayload())
		in.obj.SetParentID(parent.GetID())
		vf24Seal(&in.obj, chainSigner)
		in.signer = chainSigner
		parentSigner = chainSigner
	case "ec-part":
		ru := ecRules[ruleIdx]
		parentPayload := verifkit.RandBytes(rng, 1+rng.IntN(maxObj))
		parent := vf24Base(rng, env.cnrID, owner, parentPayload)
		var all []string
		var parts [][]byte
		for i, rr := range ecRules {
			ps, hs, err := iec.Encode(rr, bytes.Clone(parentPayload))
			if err != nil {
				r.Inconclusive("harness: cannot encode EC parent: " + err.Error())
				return
			}
			all = append(all, hs...)
			if i == ruleIdx {
				parts = ps
			}
		}
		parent.SetAttributes(append(parent.Attributes(), object.NewAttribute("__NEOFS__EC_PART_HASHES", strings.Join(all, ",")))...)
		vf24Seal(&parent, ownerSigner)
		parentHdr := *parent.CutPayload()
		var part object.Object
		part.SetVersion(parent.Version())
		part.SetContainerID(env.cnrID)
		part.SetOwner(owner)
		part.SetCreationEpoch(parent.CreationEpoch())
		part.SetType(object.TypeRegular)
		part.SetParent(&parentHdr)
		part.SetAttributes(object.NewAttribute("__NEOFS__EC_RULE_IDX", strconv.Itoa(ruleIdx)), object.NewAttribute("__NEOFS__EC_PART_IDX", strconv.Itoa(partIdx)))
		part.SetPayload(bytes.Clone(parts[partIdx]))
		part.SetPayloadSize(uint64(len(parts[partIdx])))
		part.CalculateAndSetPayloadChecksum()
		_ = ru
		in.obj = part
		in.signer = nil
		parentSigner = ownerSigner
	case "ec-part-of-split":
		// EC container, big object: the sealing client slices, and every split member is
		// erasure-coded; the part's parent is a split member that has a parent header itself
		var hdr object.Object
		hdr.SetContainerID(env.cnrID)
		hdr.SetOwner(owner)
		hdr.SetAttributes(object.NewAttribute("name", "ecsplit-"+strconv.Itoa(idx)))
		col := &vf24Collector{}
		var opts slicer.Options
		limit := 256 + rng.IntN(512)
		opts.SetObjectPayloadLimit(uint64(limit))
		opts.SetCurrentNeoFSEpoch(vf24Epoch)
		var encoded [][][]byte
		var modErr error
		opts.SetSplitChainModifier(func(h *object.Object, rd io.Reader) error {
			if h.Type() != object.TypeRegular {
				return nil
			}
			pl, _ := io.ReadAll(rd)
			var all []string
			for i, rr := range ecRules {
				ps, hs, err := iec.Encode(rr, bytes.Clone(pl))
				if err != nil {
					modErr = err
					return err
				}
				all = append(all, hs...)
				if i == ruleIdx {
					encoded = append(encoded, ps)
				}
			}
			h.SetAttributes(append(h.Attributes(), object.NewAttribute("__NEOFS__EC_PART_HASHES", strings.Join(all, ",")))...)
			return nil
		})
		pl := verifkit.RandBytes(rng, limit*2+1+rng.IntN(limit))
		pw, err := slicer.InitPut(context.Background(), col, hdr, ownerSigner, opts)
		if err == nil {
			_, err = pw.Write(pl)
		}
		if err == nil {
			err = pw.Close()
		}
		if err != nil || modErr != nil || len(col.objs) < 4 || len(encoded) != len(col.objs)-1 {
			r.Inconclusive(fmt.Sprintf("harness: client-side slicing+encoding failed: %v %v (%d objects, %d encodings)", err, modErr, len(col.objs), len(encoded)))
			return
		}
		k := []int{0, 1, len(col.objs) - 2}[rng.IntN(3)]
		sc.Gen += []string{"-first", "-middle", "-last"}[map[int]int{0: 0, 1: 1, len(col.objs) - 2: 2}[k]]
		member := *col.objs[k].CutPayload()
		var part object.Object
		part.SetVersion(member.Version())
		part.SetContainerID(env.cnrID)
		part.SetOwner(owner)
		part.SetCreationEpoch(member.CreationEpoch())
		part.SetType(object.TypeRegular)
		part.SetParent(&member)
		part.SetAttributes(object.NewAttribute("__NEOFS__EC_RULE_IDX", strconv.Itoa(ruleIdx)), object.NewAttribute("__NEOFS__EC_PART_IDX", strconv.Itoa(partIdx)))
		part.SetPayload(bytes.Clone(encoded[k][partIdx]))
		part.SetPayloadSize(uint64(len(encoded[k][partIdx])))
		part.CalculateAndSetPayloadChecksum()
		in.obj = part
		in.signer = nil
		in.gen = "ec-part"
		if k == len(col.objs)-2 {
			in.gen = "ec-part-last"
		}
		parentSigner = ownerSigner
	}
	if !strings.HasPrefix(sc.Gen, "split-") {
		vf24Seal(&in.obj, in.signer)
	}
	if pre := vf24Check(&in.obj, ecRules); len(pre) > 0 {
		r.Inconclusive(fmt.Sprintf("harness: generated %s object is not valid for the independent validator: %v", sc.Gen, pre))
		return
	}

	// ---- offers ----
	// single mode: one offer (valid or single-field mutant) to a node that has never seen
	// the object's principals.  history mode: 2..5 offers derived from the SAME valid
	// object (same owner, keys, session token, parent header) to the SAME node, valid and
	// mutated ones in seeded order, so that whatever the node remembers from an earlier
	// validation (e.g. the shared session token cache) meets a sibling that differs in one
	// field.  Every offer is judged alone: what it makes the node store must be valid.
	base := in
	nSteps := 1
	history := rng.IntN(2) == 0
	if history {
		nSteps = 2 + rng.IntN(4)
		r.Count("history_sequences", 1)
	}
	validAccepted, mutantRejected := false, false
	for step := 0; step < nSteps; step++ {
		in := vf24CloneInput(base)
		streamPayload := bytes.Clone(in.obj.Payload())
		mut := "none"
		mutate := rng.IntN(4) != 0
		if history && step == 0 {
			mutate = rng.IntN(4) == 0
		}
		if mutate {
			mut = vf24Mutate(rng, &in, &streamPayload, ecRules, sessKey, ownerSigner, parentSigner, env.cnrID)
		}
		// what the validator says about the object the node is offered (payload = what is streamed)
		offered := in.obj
		offered.SetPayload(streamPayload)
		st := vf24Step{Mutation: mut, Expected: vf24Check(&offered, ecRules), Len: int(in.obj.PayloadSize()), Streamed: len(streamPayload)}

		st.Path = "replica"
		if rng.IntN(2) == 0 && (in.obj.Signature() != nil || strings.HasPrefix(sc.Gen, "ec-part")) {
			st.Path = "client-stream"
			st.Chunks = vf24Chunks(rng, len(streamPayload))
		}
		env.w.mu.Lock()
		nBefore := len(env.w.stored)
		env.w.mu.Unlock()
		sc.Mutation, sc.Expected, sc.Len, sc.Streamed, sc.Path, sc.Chunks = st.Mutation, st.Expected, st.Len, st.Streamed, st.Path, st.Chunks
		var err error
		panicked := r.Guard(sc, func() {
			if st.Path == "replica" {
				err = env.svc.ValidateAndStoreObjectLocally(context.Background(), offered)
				return
			}
			stream, e := env.svc.Put(context.Background())
			if e != nil {
				err = e
				return
			}
			hdr := *in.obj.CutPayload()
			prm := new(PutInitPrm).WithObject(&hdr).WithCommonPrm(objutil.CommonPrmFromRequest(2, nil, common.RequestTokens{}))
			if err = stream.Init(prm); err != nil {
				return
			}
			off := 0
			for _, c := range st.Chunks {
				if err = stream.SendChunk(new(PutChunkPrm).WithChunk(streamPayload[off : off+c])); err != nil {
					return
				}
				off += c
			}
			_, err = stream.Close()
		})
		r.Eval(1)
		if panicked {
			return
		}
		env.w.mu.Lock()
		stored := append([]vf24Stored(nil), env.w.stored[nBefore:]...)
		binBad := env.w.binBad
		env.w.binBad = ""
		env.w.mu.Unlock()

		st.Outcome = "rejected"
		if err == nil {
			st.Outcome = "accepted"
		}
		if len(stored) > 0 {
			st.Outcome += "+stored"
		}
		sc.Outcome = st.Outcome
		if history {
			sc.History = append(sc.History, st)
		}
		// history shape of this offer: what the node has already seen of this object's family
		after := ""
		if validAccepted {
			after = "|after-valid-sibling-accepted"
		} else if mutantRejected && mut == "none" {
			after = "|after-mutant-sibling-rejected"
		}
		if os.Getenv("VERIF_DEBUG") != "" && err != nil && len(st.Expected) == 0 {
			fmt.Printf("DEBUG valid input rejected: %+v: %v\n", sc, err)
		}
		if binBad != "" {
			r.Violation("storage-binary|"+st.Path, "binary handed to local storage: "+binBad, sc)
		}
		for _, s := range stored {
			bad, notJudged := vf24JudgeStored(vf24Check(&s.obj, ecRules), st.Path)
			if len(bad) > 0 {
				r.Violation(fmt.Sprintf("stored-invalid|%s|%s|%s|%s%s", st.Path, sc.Gen, mut, bad[0], after), fmt.Sprintf("node stored object %s that breaks: %v (input broke: %v; result of the operation: %v; offer #%d of %d to this node)", s.obj.GetID(), bad, st.Expected, err, step+1, nSteps), sc)
			}
			if len(notJudged) > 0 {
				// deliberate tolerance of the node for replicated pre-2.18 objects: observed, not judged
				r.Count("replicated_pre_2_18_header_with_foreign_owner_stored_not_judged", 1)
				r.Seen("not_judged_clauses", notJudged[0])
			}
		}
		if vf24HasVersionVariant(mut) && len(st.Expected) > 0 {
			nested := "object"
			if strings.Contains(mut, "parent") {
				nested = "nested_header"
			}
			r.Count("other_version_unauthenticated_"+nested+"_offered_"+strings.ReplaceAll(st.Path, "-", "_"), 1)
			if len(stored) == 0 {
				r.Count("other_version_unauthenticated_"+nested+"_rejected_"+strings.ReplaceAll(st.Path, "-", "_"), 1)
			}
		}
		switch {
		case len(st.Expected) == 0 && len(stored) > 0:
			r.Count("valid_objects_stored", 1)
		case len(st.Expected) == 0:
			r.Count("valid_inputs_rejected", 1)
			r.Seen("valid_input_rejections", st.Path+"|"+sc.Gen+"|"+mut+after)
		case len(stored) == 0:
			r.Count("invalid_inputs_rejected", 1)
		}
		if len(st.Expected) > 0 {
			r.Seen("clauses_broken_by_inputs", st.Expected[0])
			if validAccepted {
				r.Count("history_invalid_sibling_offered_after_accepted_valid", 1)
				r.Seen("history_mutations_after_accepted_valid", mut)
				if vf24SameTokenBody(&base.obj, &offered) {
					r.Count("history_same_session_body_other_signature_after_accepted_valid", 1)
				}
			}
		} else if mutantRejected {
			r.Count("history_valid_offered_after_rejected_mutant_sibling", 1)
		}
		r.Count("path_"+st.Path, 1)
		r.Distinct(fmt.Sprintf("%s|%s|%s|%s%s", st.Path, sc.Gen, mut, st.Outcome, after))
		r.Seen("mutations", mut)
		if len(st.Expected) == 0 && len(stored) > 0 {
			validAccepted = true
		}
		if len(st.Expected) > 0 && len(stored) == 0 {
			mutantRejected = true
		}
	}
	if idx%397 == 0 {
		r.Sample(sc)
	}
}

// vf24SameTokenBody: b (or its parent header) carries a V1 session token whose signed body
// is byte-identical to the one of a but whose signature differs.
func vf24SameTokenBody(a, b *object.Object) bool {
	if pa, pb := a.Parent(), b.Parent(); pa != nil && pb != nil && vf24SameTokenBody(pa, pb) {
		return true
	}
	ta, tb := a.SessionToken(), b.SessionToken()
	if ta == nil || tb == nil {
		return false
	}
	return bytes.Equal(ta.SignedData(), tb.SignedData()) && !bytes.Equal(ta.Marshal(), tb.Marshal())
}

func vf24CloneInput(in vf24Input) vf24Input {
	cp := vf24Input{signer: in.signer, gen: in.gen}
	in.obj.CopyTo(&cp.obj)
	return cp
}

// vf24Mutate changes one field so that (normally) exactly one clause of the statement
// breaks; everything else is re-sealed where needed.  Returns the mutation name.
func vf24Mutate(rng *rand.Rand, in *vf24Input, stream *[]byte, ecRules []iec.Rule, sessKey *keys.PrivateKey, ownerSigner, parentSigner user.Signer, cnr cid.ID) string {
	o := &in.obj
	split := strings.HasPrefix(in.gen, "split-")
	reseal := func() {
		// members of a client-made chain: in.signer is the key that sealed the chain
		vf24Seal(o, in.signer)
	}
	muts := []string{"id-bit", "header-field", "checksum", "size-more", "size-less", "payload-byte", "stream-short", "stream-long",
		"attr-duplicate", "attr-empty", "attr-nul-key", "attr-nul-value"}
	if o.Signature() != nil {
		muts = append(muts, "sig-bytes", "sig-wrong-key", "sig-none", "sig-wrong-key")
	}
	if sessKey != nil && o.SessionToken() != nil {
		muts = append(muts, "session-authkey", "session-signature", "session-issuer", "session-authkey", "session-issuer",
			"session-signed-by-stranger", "session-signed-by-subject", "session-body-resigned-by-nobody", "session-signature")
	}
	if in.gen == "ec-part-last" {
		muts = append(muts, "grandparent-id", "grandparent-signature", "grandparent-id", "grandparent-signature", "grandparent-signed-by-stranger", "grandparent-signed-by-stranger")
	}
	if in.gen == "ec-part" || in.gen == "ec-part-last" {
		muts = append(muts, "ec-rule-idx", "ec-part-idx", "ec-part-length", "ec-part-hash", "ec-parent-id", "ec-parent-signature", "ec-parent-attr", "ec-rule-idx", "ec-part-hash", "ec-parent-signed-by-stranger", "ec-parent-signed-by-stranger")
	}
	if split && in.gen != "split-first" && in.gen != "split-middle" {
		muts = append(muts, "parent-id", "parent-signature", "parent-attr", "parent-id", "parent-signature")
		if sessKey != nil {
			muts = append(muts, "parent-session-signature", "parent-session-signed-by-stranger", "parent-session-issuer", "parent-session-signature", "parent-session-signed-by-stranger", "parent-session-issuer", "parent-session-issuer")
		} else {
			muts = append(muts, "parent-signed-by-stranger", "parent-signed-by-stranger", "parent-signed-by-stranger")
		}
	}
	m := muts[rng.IntN(len(muts))]
	// Version dimension.  Mutations that make somebody else than the owner the authenticating
	// principal of a header (its signature and token are all genuine, only they are not the
	// owner's) additionally come with that header declaring another API version: the
	// statement's demand does not depend on it, the node's checks do.
	variant := ""
	withVariant := func(h *object.Object) {
		variant = vf24VersionVariant(rng, h)
	}
	switch m {
	case "id-bit":
		id := o.GetID()
		id[rng.IntN(32)] ^= 1 << rng.IntN(8)
		o.SetID(id)
	case "header-field":
		o.SetCreationEpoch(o.CreationEpoch() + 1)
	case "checksum":
		cs, _ := o.PayloadChecksum()
		v := bytes.Clone(cs.Value())
		v[rng.IntN(len(v))] ^= 0x10
		o.SetPayloadChecksum(checksum.NewSHA256([32]byte(v)))
		reseal()
	case "size-more":
		o.SetPayloadSize(o.PayloadSize() + 1 + uint64(rng.IntN(3)))
		reseal()
	case "size-less":
		if o.PayloadSize() == 0 {
			o.SetPayloadSize(1)
		} else {
			o.SetPayloadSize(o.PayloadSize() - 1)
		}
		reseal()
	case "payload-byte":
		if len(*stream) == 0 {
			*stream = []byte{7}
		} else {
			(*stream)[rng.IntN(len(*stream))] ^= 0x01
		}
	case "stream-short":
		if len(*stream) == 0 {
			return "none"
		}
		*stream = (*stream)[:len(*stream)-1-rng.IntN(min(len(*stream), 3))]
	case "stream-long":
		*stream = append(*stream, verifkit.RandBytes(rng, 1+rng.IntN(3))...)
	case "attr-duplicate":
		o.SetAttributes(append(o.Attributes(), object.NewAttribute("dup", "1"), object.NewAttribute("dup", "2"))...)
		reseal()
	case "attr-empty":
		o.SetAttributes(append(o.Attributes(), object.NewAttribute("empty", ""))...)
		reseal()
	case "attr-nul-key":
		o.SetAttributes(append(o.Attributes(), object.NewAttribute("nu\x00l", "v"))...)
		reseal()
	case "attr-nul-value":
		o.SetAttributes(append(o.Attributes(), object.NewAttribute("nul", "v\x00"))...)
		reseal()
	case "sig-bytes":
		sig := *o.Signature()
		v := bytes.Clone(sig.Value())
		v[rng.IntN(len(v))] ^= 0x04
		sig.SetValue(v)
		o.SetSignature(&sig)
	case "sig-wrong-key":
		if withVariant(o); variant != "" {
			_ = o.CalculateAndSetID()
		}
		_ = o.Sign(vf24Signer(rng, vf24Key(rng)))
	case "sig-none":
		o.SetSignature(nil)
	case "session-authkey":
		// token is for another key than the one that signs the object
		tok := vf24SessionToken(rng, cnr, ownerSigner, vf24Key(rng))
		if rng.IntN(2) == 0 {
			// the owner's other session: everything but the subject equals the original token (same token ID)
			tok = *o.SessionToken()
			other := vf24Key(rng)
			tok.SetAuthKey((*neofsecdsa.PublicKey)(&other.PrivateKey.PublicKey))
			_ = tok.Sign(ownerSigner)
		}
		o.SetSessionToken(&tok)
		reseal()
	case "session-signed-by-stranger", "session-signed-by-subject":
		// token body stays byte-identical (issuer = owner), but it is not the issuer who signed it
		tok := *o.SessionToken()
		k := sessKey
		if m == "session-signed-by-stranger" {
			k = vf24Key(rng)
		}
		_ = tok.SetSignature(vf24Signer(rng, k))
		o.SetSessionToken(&tok)
		reseal()
	case "session-body-resigned-by-nobody":
		// token body changed after the owner signed it (longer lifetime), signature kept
		tok := *o.SessionToken()
		tok.SetExp(vf24Epoch + 1000 + uint64(rng.IntN(1000)))
		o.SetSessionToken(&tok)
		reseal()
	case "session-signature":
		tok := *o.SessionToken()
		if sig, ok := tok.Signature(); ok {
			v := bytes.Clone(sig.Value())
			v[rng.IntN(len(v))] ^= 0x20
			sig.SetValue(v)
			tok.AttachSignature(sig)
		}
		o.SetSessionToken(&tok)
		reseal()
	case "session-issuer":
		// a stranger issues a session for the session key; the object still names the owner
		tok := vf24SessionToken(rng, cnr, vf24Signer(rng, vf24Key(rng)), sessKey)
		if rng.IntN(2) == 0 {
			// ... reusing every other field of the owner's token (same token ID, lifetime, subject)
			tok = *o.SessionToken()
			_ = tok.Sign(vf24Signer(rng, vf24Key(rng)))
		}
		o.SetSessionToken(&tok)
		withVariant(o)
		reseal()
	case "parent-signed-by-stranger", "ec-parent-signed-by-stranger":
		// the final parent header names the owner but is sealed (ID and a verifying
		// signature) by somebody else; the member / part itself stays genuine
		par := vf24CloneParent(o)
		if par.Signature() == nil {
			return "none"
		}
		withVariant(par)
		if variant != "" && !split && rng.IntN(2) == 0 {
			o.SetVersion(par.Version()) // EC: part and parent of the same (other) version
			variant += "-of-part-too"
		}
		vf24Seal(par, vf24Signer(rng, vf24Key(rng)))
		o.SetParent(par)
		if !o.GetParentID().IsZero() || split {
			o.SetParentID(par.GetID())
		}
		reseal()
	case "grandparent-signed-by-stranger":
		par := vf24CloneParent(o)
		gp := vf24CloneParent(par)
		if gp.Signature() == nil {
			return "none"
		}
		withVariant(gp)
		vf24Seal(gp, vf24Signer(rng, vf24Key(rng)))
		par.SetParent(gp)
		par.SetParentID(gp.GetID())
		vf24Seal(par, ownerSigner)
		o.SetParent(par)
		reseal()
	case "ec-rule-idx":
		vf24SetAttr(o, "__NEOFS__EC_RULE_IDX", strconv.Itoa(len(ecRules)+rng.IntN(3)))
		reseal()
	case "ec-part-idx":
		vf24SetAttr(o, "__NEOFS__EC_PART_IDX", strconv.Itoa(20+rng.IntN(50)))
		reseal()
	case "ec-part-length":
		pl := append(bytes.Clone(o.Payload()), 0)
		o.SetPayload(pl)
		o.SetPayloadSize(uint64(len(pl)))
		o.CalculateAndSetPayloadChecksum()
		*stream = bytes.Clone(pl)
		reseal()
	case "ec-part-hash":
		pl := bytes.Clone(o.Payload())
		if len(pl) == 0 {
			return "none"
		}
		pl[rng.IntN(len(pl))] ^= 0x40
		o.SetPayload(pl)
		o.CalculateAndSetPayloadChecksum() // self-consistent part, but not the one the parent announces
		*stream = bytes.Clone(pl)
		reseal()
	case "ec-parent-id", "parent-id":
		par := vf24CloneParent(o)
		id := par.GetID()
		id[rng.IntN(32)] ^= 1 << rng.IntN(8)
		par.SetID(id)
		o.SetParent(par)
		if !o.GetParentID().IsZero() || split {
			o.SetParentID(id)
		}
		reseal()
	case "ec-parent-signature", "parent-signature":
		par := vf24CloneParent(o)
		if par.Signature() == nil {
			return "none"
		}
		sig := *par.Signature()
		v := bytes.Clone(sig.Value())
		v[rng.IntN(len(v))] ^= 0x08
		sig.SetValue(v)
		par.SetSignature(&sig)
		o.SetParent(par)
		reseal()
	case "parent-session-signature", "parent-session-signed-by-stranger", "parent-session-issuer":
		// the final parent header (sealed with the session key) carries a token that the
		// owner did not sign; the member's own token stays the genuine one
		par := vf24CloneParent(o)
		if par.SessionToken() == nil || par.Signature() == nil {
			return "none"
		}
		tok := *par.SessionToken()
		switch m {
		case "parent-session-signature":
			if sig, ok := tok.Signature(); ok {
				v := bytes.Clone(sig.Value())
				v[rng.IntN(len(v))] ^= 0x20
				sig.SetValue(v)
				tok.AttachSignature(sig)
			}
		case "parent-session-signed-by-stranger":
			_ = tok.SetSignature(vf24Signer(rng, vf24Key(rng)))
		case "parent-session-issuer":
			_ = tok.Sign(vf24Signer(rng, vf24Key(rng)))
			withVariant(par)
		}
		par.SetSessionToken(&tok)
		vf24Seal(par, parentSigner)
		o.SetParent(par)
		o.SetParentID(par.GetID())
		reseal()
	case "grandparent-id", "grandparent-signature":
		// the part's parent is the last split member, whose own parent header is final
		par := vf24CloneParent(o)
		gp := vf24CloneParent(par)
		if m == "grandparent-id" {
			id := gp.GetID()
			id[rng.IntN(32)] ^= 1 << rng.IntN(8)
			gp.SetID(id)
		} else {
			if gp.Signature() == nil {
				return "none"
			}
			sig := *gp.Signature()
			v := bytes.Clone(sig.Value())
			v[rng.IntN(len(v))] ^= 0x02
			sig.SetValue(v)
			gp.SetSignature(&sig)
		}
		par.SetParent(gp)
		if m == "grandparent-id" {
			par.SetParentID(gp.GetID())
		}
		vf24Seal(par, ownerSigner) // the member itself stays sealed and signed by the owner
		o.SetParent(par)
		reseal()
	case "ec-parent-attr", "parent-attr":
		par := vf24CloneParent(o)
		par.SetAttributes(append(par.Attributes(), object.NewAttribute("late", "x"))...) // parent ID no longer matches
		o.SetParent(par)
		reseal()
	}
	return m + variant
}

// vf24VersionVariant makes the header declare another API version in half of the calls:
// mostly one below 2.18 (2.17 most often), sometimes none at all or one older than NeoFS
// itself.  Returns the suffix for the mutation name ("" = version untouched).
func vf24VersionVariant(rng *rand.Rand, h *object.Object) string {
	if rng.IntN(2) == 0 {
		return ""
	}
	switch rng.IntN(8) {
	case 0:
		h.SetVersion(nil)
		return "+no-version"
	case 1:
		v := version.New(2, uint32(rng.IntN(7)))
		h.SetVersion(&v)
		return "+ancient-version"
	default:
		v := version.New(2, 17)
		if rng.IntN(2) == 0 {
			v = version.New(2, uint32(7+rng.IntN(11)))
		}
		h.SetVersion(&v)
		return "+pre-2.18-version"
	}
}

func vf24HasVersionVariant(mut string) bool {
	return strings.Contains(mut, "-version")
}

// vf24PanicFrame names the function that panicked (first non-runtime frame after panic()).
func vf24PanicFrame(st string) string {
	lines := strings.Split(st, "\n")
	seen := false
	for i, l := range lines {
		if strings.HasPrefix(l, "panic(") {
			seen = true
			continue
		}
		if !seen || l == "" || strings.HasPrefix(l, "\t") || strings.HasPrefix(l, "goroutine ") || strings.HasPrefix(l, "runtime.") || strings.HasPrefix(l, "runtime/") {
			continue
		}
		fn := l
		if j := strings.LastIndex(fn, "("); j > 0 {
			fn = fn[:j]
		}
		if j := strings.LastIndex(fn, "/"); j >= 0 {
			fn = fn[j+1:]
		}
		if i+1 < len(lines) && strings.Contains(lines[i+1], "zz_verif") {
			fn += "@zz_verif"
		}
		return fn
	}
	return "unknown"
}

func vf24CloneParent(o *object.Object) *object.Object {
	var cp object.Object
	o.Parent().CopyTo(&cp)
	return &cp
}

func vf24SetAttr(o *object.Object, k, v string) {
	as := o.Attributes()
	for i := range as {
		if as[i].Key() == k {
			as[i].SetValue(v)
		}
	}
	o.SetAttributes(as...)
}

// vf24SlicerCase: the node slices/seals the object itself; stored pieces must be valid and,
// if the PUT is reported successful, reassemble to the streamed payload.
func vf24SlicerCase(r *verifkit.Run, cache *isessions.ObjectSessionsCache, idx int) {
	rng := r.Rand("slicer", idx)
	maxObj := []int{256, 512, 1024}[rng.IntN(3)]
	sc := vf24Scenario{Case: idx, Path: "slicer", Mutation: "none"}
	withSession := rng.IntN(3) == 0
	var sessKey *keys.PrivateKey
	if withSession {
		sessKey = vf24Key(rng)
	}
	var sk *ecdsa.PrivateKey
	if sessKey != nil {
		sk = &sessKey.PrivateKey
	}
	env := vf24NewEnv(rng, cache, nil, 0, maxObj, sk)

	var hdr object.Object
	hdr.SetContainerID(env.cnrID)
	var tokens common.RequestTokens
	if withSession {
		sc.Gen = "session-owner"
		ownerSigner := vf24Signer(rng, vf24Key(rng))
		hdr.SetOwner(ownerSigner.UserID())
		tok := vf24SessionToken(rng, env.cnrID, ownerSigner, sessKey)
		tokens.SessionV1 = &tok
	} else {
		sc.Gen = "node-owner"
		hdr.SetOwner(user.NewFromECDSAPublicKey(env.nodeKey.PrivateKey.PublicKey))
	}
	var n int
	switch rng.IntN(6) {
	case 0:
		n = rng.IntN(3)
	case 1:
		n = maxObj - 1 + rng.IntN(3)
	case 2:
		n = 2*maxObj - 1 + rng.IntN(3)
	default:
		n = rng.IntN(4*maxObj + 1)
	}
	payload := verifkit.RandBytes(rng, n)
	if rng.IntN(8) == 0 {
		n, payload = 0, nil
		ver := version.Current()
		hdr.SetVersion(&ver)
		hdr.SetAttributes(object.NewAttribute(object.AttributeExpirationEpoch, strconv.Itoa(vf24Epoch+9)))
		if rng.IntN(2) == 0 {
			sc.Gen += "+tombstone"
			hdr.AssociateDeleted(verifkit.RandOID(rng))
		} else {
			sc.Gen += "+lock"
			hdr.AssociateLocked(verifkit.RandOID(rng))
		}
	} else {
		hdr.SetAttributes(object.NewAttribute("name", "o"+strconv.Itoa(idx)))
	}
	declared := rng.IntN(2) == 0 && n > 0
	if declared {
		hdr.SetPayloadSize(uint64(n))
		sc.Gen += "+declared"
	}
	sc.Len, sc.Streamed = n, n
	sc.Chunks = vf24Chunks(rng, n)
	pieces := (n + maxObj - 1) / maxObj
	if pieces > 1 {
		pieces++ // link
	}
	switch rng.IntN(3) {
	case 0: // no faults
	case 1:
		sc.FailPuts = []int{1 + rng.IntN(max(pieces, 1))}
	case 2:
		a := 1 + rng.IntN(max(pieces, 1))
		sc.FailPuts = []int{a, a + 1 + rng.IntN(2)}
	}
	for _, k := range sc.FailPuts {
		env.w.failPuts[k] = true
	}

	var (
		err    error
		rootID oid.ID
	)
	var panicVal any
	var panicStack string
	panicked := false
	func() {
		defer func() {
			if p := recover(); p != nil {
				panicked, panicVal, panicStack = true, p, string(debug.Stack())
			}
		}()
		stream, e := env.svc.Put(context.Background())
		if e != nil {
			err = e
			return
		}
		prm := new(PutInitPrm).WithObject(&hdr).WithCommonPrm(objutil.CommonPrmFromRequest(2, nil, tokens))
		if err = stream.Init(prm); err != nil {
			return
		}
		off := 0
		for _, c := range sc.Chunks {
			if err = stream.SendChunk(new(PutChunkPrm).WithChunk(payload[off : off+c])); err != nil {
				return
			}
			off += c
		}
		rootID, err = stream.Close()
	}()
	r.Eval(1)
	env.w.mu.Lock()
	stored := append([]vf24Stored(nil), env.w.stored...)
	binBad := env.w.binBad
	failedWrites := 0
	for k := range env.w.failPuts {
		if k <= env.w.puts {
			failedWrites++
		}
	}
	env.w.mu.Unlock()
	sc.Outcome = "error"
	if err == nil {
		sc.Outcome = "success"
	}
	faultClass := "no-fault"
	if failedWrites > 0 {
		faultClass = "local-write-failed"
	}
	splitClass := "unsplit"
	if n > maxObj {
		splitClass = "split"
	}
	if panicked {
		fr := vf24PanicFrame(panicStack)
		if strings.Contains(fr, "zz_verif") {
			r.Inconclusive(fmt.Sprintf("harness panic: %v at %s", panicVal, fr))
			return
		}
		r.Violation(fmt.Sprintf("slicer-panic|%s|%s", faultClass, fr), fmt.Sprintf("panic while the node slices a streamed object: %v", panicVal), map[string]any{"case": sc, "stack": panicStack})
	}
	if binBad != "" {
		r.Violation("storage-binary|slicer|"+faultClass, "binary handed to local storage: "+binBad, sc)
	}
	for _, s := range stored {
		if bad := vf24Check(&s.obj, nil); len(bad) > 0 {
			r.Violation(fmt.Sprintf("stored-invalid|slicer|%s|%s|%s", faultClass, s.obj.Type(), bad[0]), fmt.Sprintf("node's own slicer stored object %s that breaks: %v", s.obj.GetID(), bad), sc)
		}
	}
	if panicked {
		return
	}
	r.Count("slicer_objects_validated", len(stored))
	r.Distinct(fmt.Sprintf("slicer|%s|%s|%s|%s", sc.Gen, splitClass, faultClass, sc.Outcome))
	if err != nil {
		r.Count("slicer_puts_failed", 1)
		if os.Getenv("VERIF_DEBUG") != "" && failedWrites == 0 {
			fmt.Printf("DEBUG slicer PUT failed without fault: %+v: %v\n", sc, err)
		}
		return
	}
	r.Count("slicer_puts_ok", 1)

	// ---- reassembly from what the node stored ----
	byID := map[oid.ID]*object.Object{}
	for i := range stored {
		byID[stored[i].obj.GetID()] = &stored[i].obj
	}
	key := func(sym string) string { return fmt.Sprintf("slicer-reassembly|%s|%s|%s", splitClass, faultClass, sym) }
	if root, ok := byID[rootID]; ok && !root.HasParent() {
		if !bytes.Equal(root.Payload(), payload) {
			r.Violation(key("root-payload-differs"), fmt.Sprintf("PUT succeeded, stored object %s carries %d bytes that differ from the %d streamed", rootID, len(root.Payload()), len(payload)), sc)
			return
		}
		r.Count("slicer_puts_reassembled", 1)
		return
	}
	var link *object.Object
	for i := range stored {
		o := &stored[i].obj
		if o.Type() == object.TypeLink && o.GetParentID() == rootID {
			link = o
		}
	}
	if link == nil {
		r.Violation(key("root-not-stored"), fmt.Sprintf("PUT succeeded with ID %s but neither that object nor a link object for it was stored (%d objects stored)", rootID, len(stored)), sc)
		return
	}
	var l object.Link
	if e := link.ReadLink(&l); e != nil {
		r.Violation(key("link-unreadable"), "stored link object does not decode: "+e.Error(), sc)
		return
	}
	var got []byte
	for i, m := range l.Objects() {
		ch, ok := byID[m.ObjectID()]
		if !ok {
			r.Violation(key("linked-child-not-stored"), fmt.Sprintf("PUT succeeded, link of %s lists child #%d %s which was never stored", rootID, i, m.ObjectID()), sc)
			return
		}
		if uint32(len(ch.Payload())) != m.ObjectSize() {
			r.Violation(key("linked-child-size"), fmt.Sprintf("link lists child %s with %d bytes, stored child has %d", m.ObjectID(), m.ObjectSize(), len(ch.Payload())), sc)
			return
		}
		got = append(got, ch.Payload()...)
	}
	par := link.Parent()
	if !bytes.Equal(got, payload) {
		extra := ""
		if par != nil {
			extra = fmt.Sprintf("; parent header declares %d bytes", par.PayloadSize())
		}
		r.Violation(key("pieces-differ-from-streamed-payload"), fmt.Sprintf("PUT succeeded, the %d linked children of %s give %d bytes, client streamed %d%s", len(l.Objects()), rootID, len(got), len(payload), extra), sc)
		return
	}
	if par == nil || par.PayloadSize() != uint64(len(payload)) {
		r.Violation(key("parent-size"), "parent header in the link does not declare the streamed length", sc)
		return
	}
	if cs, ok := par.PayloadChecksum(); !ok || !bytes.Equal(cs.Value(), func() []byte { s := sha256.Sum256(payload); return s[:] }()) {
		r.Violation(key("parent-checksum"), "parent header in the link does not carry sha256 of the streamed payload", sc)
		return
	}
	// every stored member must belong to the chain (no orphan pieces of a successful upload is not demanded)
	r.Count("slicer_puts_reassembled", 1)
	r.Count("slicer_split_puts_reassembled", 1)
	ids := make([]string, 0, len(byID))
	for id := range byID {
		ids = append(ids, id.String())
	}
	sort.Strings(ids)
	if idx%293 == 0 {
		r.Sample(map[string]any{"scenario": sc, "stored_objects": len(ids), "children": len(l.Objects())})
	}
	_ = neofscrypto.ECDSA_SHA512
}
