//go:build verif

package object

// C29, part 1 – "a request that fails any of the checks gets an error status and causes no
// storage or network effect".
//
// Every RPC of the generated ObjectServiceServer interface (inventory by reflection; unknown
// RPC => inconclusive) is called with requests that carry exactly one defect of a fixed
// catalogue (authenticity: unsigned / tampered / wrong key …; tokens: expired, not yet valid,
// forged, wrong verb/container/object, foreign bearer …; access: basic ACL, eACL by role /
// request header / object address / bearer table, sticky bit).  The defect-free twin of the
// request is executed first on an identical world (positive control: it must reach the
// dependency that serves it), so a rejection is attributable to the defect.  Oracle: the
// defective request gets an error status (NeoFS status != OK or a gRPC error), no
// dependency serving the request is touched, no object data is returned.

import (
	"context"
	"crypto/ecdsa"
	"fmt"
	"math/rand/v2"
	"reflect"
	"sort"
	"strings"
	"testing"
	"time"

	"github.com/nspcc-dev/neo-go/pkg/crypto/keys"
	iec "github.com/nspcc-dev/neofs-node/internal/ec"
	"github.com/nspcc-dev/neofs-node/internal/verifkit"
	"github.com/nspcc-dev/neofs-node/pkg/network/peerauth"
	"github.com/nspcc-dev/neofs-sdk-go/bearer"
	"github.com/nspcc-dev/neofs-sdk-go/container/acl"
	cid "github.com/nspcc-dev/neofs-sdk-go/container/id"
	neofscrypto "github.com/nspcc-dev/neofs-sdk-go/crypto"
	"github.com/nspcc-dev/neofs-sdk-go/eacl"
	"github.com/nspcc-dev/neofs-sdk-go/object"
	oid "github.com/nspcc-dev/neofs-sdk-go/object/id"
	protoacl "github.com/nspcc-dev/neofs-sdk-go/proto/acl"
	protoobject "github.com/nspcc-dev/neofs-sdk-go/proto/object"
	"github.com/nspcc-dev/neofs-sdk-go/proto/refs"
	protosession "github.com/nspcc-dev/neofs-sdk-go/proto/session"
	"github.com/nspcc-dev/neofs-sdk-go/session"
	sessionv2 "github.com/nspcc-dev/neofs-sdk-go/session/v2"
	"github.com/nspcc-dev/neofs-sdk-go/user"
	"github.com/nspcc-dev/neofs-sdk-go/version"
	"google.golang.org/grpc/peer"
	grpcstatus "google.golang.org/grpc/status"
)

// ---------------------------------------------------------------------------------------
// request message adapter (all object requests share body/meta/verification layout)

type vf29Msg struct {
	m       any
	getMeta func() *protosession.RequestMetaHeader
	setMeta func(*protosession.RequestMetaHeader)
	getVH   func() *protosession.RequestVerificationHeader
	setVH   func(*protosession.RequestVerificationHeader)
	sign    func(neofscrypto.Signer) (*protosession.RequestVerificationHeader, error)
	tamper  func(*rand.Rand) // semantic change of the body
}

func vf29FlipOID(m *refs.ObjectID) {
	if m != nil && len(m.Value) > 0 {
		m.Value = append([]byte(nil), m.Value...)
		m.Value[len(m.Value)-1] ^= 0x01
	}
}

func vf29WrapGet(r *protoobject.GetRequest) *vf29Msg {
	return &vf29Msg{m: r,
		getMeta: func() *protosession.RequestMetaHeader { return r.MetaHeader },
		setMeta: func(m *protosession.RequestMetaHeader) { r.MetaHeader = m },
		getVH:   func() *protosession.RequestVerificationHeader { return r.VerifyHeader },
		setVH:   func(v *protosession.RequestVerificationHeader) { r.VerifyHeader = v },
		sign: func(s neofscrypto.Signer) (*protosession.RequestVerificationHeader, error) {
			return neofscrypto.SignRequestWithBuffer(s, r, nil)
		},
		tamper: func(*rand.Rand) { vf29FlipOID(r.Body.Address.ObjectId) },
	}
}
func vf29WrapHead(r *protoobject.HeadRequest) *vf29Msg {
	return &vf29Msg{m: r,
		getMeta: func() *protosession.RequestMetaHeader { return r.MetaHeader },
		setMeta: func(m *protosession.RequestMetaHeader) { r.MetaHeader = m },
		getVH:   func() *protosession.RequestVerificationHeader { return r.VerifyHeader },
		setVH:   func(v *protosession.RequestVerificationHeader) { r.VerifyHeader = v },
		sign: func(s neofscrypto.Signer) (*protosession.RequestVerificationHeader, error) {
			return neofscrypto.SignRequestWithBuffer(s, r, nil)
		},
		tamper: func(*rand.Rand) { vf29FlipOID(r.Body.Address.ObjectId) },
	}
}
func vf29WrapRange(r *protoobject.GetRangeRequest) *vf29Msg {
	return &vf29Msg{m: r,
		getMeta: func() *protosession.RequestMetaHeader { return r.MetaHeader },
		setMeta: func(m *protosession.RequestMetaHeader) { r.MetaHeader = m },
		getVH:   func() *protosession.RequestVerificationHeader { return r.VerifyHeader },
		setVH:   func(v *protosession.RequestVerificationHeader) { r.VerifyHeader = v },
		sign: func(s neofscrypto.Signer) (*protosession.RequestVerificationHeader, error) {
			return neofscrypto.SignRequestWithBuffer(s, r, nil)
		},
		tamper: func(rng *rand.Rand) {
			if rng.IntN(2) == 0 {
				vf29FlipOID(r.Body.Address.ObjectId)
			} else {
				r.Body.Range = &protoobject.Range{Offset: r.Body.Range.GetOffset(), Length: r.Body.Range.GetLength() + 1}
			}
		},
	}
}
func vf29WrapDelete(r *protoobject.DeleteRequest) *vf29Msg {
	return &vf29Msg{m: r,
		getMeta: func() *protosession.RequestMetaHeader { return r.MetaHeader },
		setMeta: func(m *protosession.RequestMetaHeader) { r.MetaHeader = m },
		getVH:   func() *protosession.RequestVerificationHeader { return r.VerifyHeader },
		setVH:   func(v *protosession.RequestVerificationHeader) { r.VerifyHeader = v },
		sign: func(s neofscrypto.Signer) (*protosession.RequestVerificationHeader, error) {
			return neofscrypto.SignRequestWithBuffer(s, r, nil)
		},
		tamper: func(*rand.Rand) { vf29FlipOID(r.Body.Address.ObjectId) },
	}
}
func vf29WrapSearch(r *protoobject.SearchV2Request) *vf29Msg {
	return &vf29Msg{m: r,
		getMeta: func() *protosession.RequestMetaHeader { return r.MetaHeader },
		setMeta: func(m *protosession.RequestMetaHeader) { r.MetaHeader = m },
		getVH:   func() *protosession.RequestVerificationHeader { return r.VerifyHeader },
		setVH:   func(v *protosession.RequestVerificationHeader) { r.VerifyHeader = v },
		sign: func(s neofscrypto.Signer) (*protosession.RequestVerificationHeader, error) {
			return neofscrypto.SignRequestWithBuffer(s, r, nil)
		},
		tamper: func(*rand.Rand) { r.Body.Count++ },
	}
}
func vf29WrapPut(r *protoobject.PutRequest) *vf29Msg {
	return &vf29Msg{m: r,
		getMeta: func() *protosession.RequestMetaHeader { return r.MetaHeader },
		setMeta: func(m *protosession.RequestMetaHeader) { r.MetaHeader = m },
		getVH:   func() *protosession.RequestVerificationHeader { return r.VerifyHeader },
		setVH:   func(v *protosession.RequestVerificationHeader) { r.VerifyHeader = v },
		sign: func(s neofscrypto.Signer) (*protosession.RequestVerificationHeader, error) {
			return neofscrypto.SignRequestWithBuffer(s, r, nil)
		},
		tamper: func(*rand.Rand) {
			switch p := r.Body.ObjectPart.(type) {
			case *protoobject.PutRequest_Body_Chunk:
				c := append([]byte(nil), p.Chunk...)
				if len(c) == 0 {
					c = []byte{1}
				} else {
					c[0] ^= 0xff
				}
				r.Body = &protoobject.PutRequest_Body{ObjectPart: &protoobject.PutRequest_Body_Chunk{Chunk: c}}
			case *protoobject.PutRequest_Body_Init_:
				in := *p.Init //nolint:govet
				in.CopiesNumber++
				r.Body = &protoobject.PutRequest_Body{ObjectPart: &protoobject.PutRequest_Body_Init_{Init: &in}}
			}
		},
	}
}

// ---------------------------------------------------------------------------------------
// case

type vf29Case struct {
	Idx     int    `json:"idx"`
	RPC     string `json:"rpc"`
	Defect  string `json:"defect"`
	Group   string `json:"group"` // signature | token | acl
	Sender  string `json:"sender"` // owner | stranger
	Scheme  string `json:"scheme"`
	TTL     uint32 `json:"ttl"`
	Version string `json:"version"`
	Token   string `json:"token"` // token carried by the *valid* twin
	Variant string `json:"variant"`
	Layers  int    `json:"sign_layers"`
	Stage   int    `json:"put_message_with_defect"`
	// Put only.  Split: shape of the split header of the init message ("" = none).  Env: fault of
	// the node's environment that is present while the DEFECTIVE request is handled (the
	// defect-free twin runs on the healthy world: it only shows that the request is servable).
	Split string `json:"put_split_header,omitempty"`
	Env   string `json:"env_fault,omitempty"`
}

func (c vf29Case) sig() string {
	return fmt.Sprintf("%s|%s|%s|%s|ttl%d|%s|%s|%s|l%d|m%d|%s|%s", c.RPC, c.Defect, c.Sender, c.Scheme, min(c.TTL, 3), c.Version, c.Token, c.Variant, c.Layers, min(c.Stage, 2), c.Split, c.Env)
}

var vf29Defects = map[string][]string{
	"signature": {
		"unsigned", "unsigned-trusted-peer-ttl2", "body-tampered", "meta-tampered-ttl", "meta-tampered-xheader",
		"body-sig-corrupted", "meta-sig-corrupted", "key-substituted", "meta-sig-missing", "body-sig-missing",
		"scheme-mismatch",
	},
	"token": {
		"v1-expired", "v1-not-yet-valid", "v1-forged", "v1-wrong-verb", "v1-other-container", "v1-other-object",
		"v2-expired", "v2-not-yet-valid", "v2-forged", "v2-wrong-verb", "v2-other-container",
		"bearer-expired", "bearer-not-yet-valid", "bearer-forged", "bearer-not-by-owner", "bearer-other-user", "bearer-other-container",
	},
	"acl": {
		"basic-private", "eacl-role", "eacl-xheader", "eacl-address", "eacl-bearer-table", "sticky",
	},
}

type vf29Outcome struct {
	Codes    []uint32 `json:"codes"`
	GRPCErr  string   `json:"grpc_err,omitempty"`
	Panic    string   `json:"panic,omitempty"`
	Served   []string `json:"serving_effects"`
	ACLReads []string `json:"acl_header_lookups,omitempty"`
	Data     bool     `json:"object_data_in_response"`
	Payload  int      `json:"payload_bytes"`
	// Put: serving effects recorded after the defective message was handed over
	ServedAfterBad []string     `json:"serving_effects_after_defect,omitempty"`
	Events         []vf29Event `json:"events,omitempty"`
}

func (o vf29Outcome) errorStatus() bool {
	if o.GRPCErr != "" {
		return true
	}
	for _, c := range o.Codes {
		if c >= 1024 { // NeoFS API: codes below 1024 are the success section (OK, INCOMPLETE)
			return true
		}
	}
	return false
}

func vf29Reached(served []string) bool { return len(served) > 0 }

func vf29VersionMsg(name string) *refs.Version {
	switch name {
	case "2.17":
		return &refs.Version{Major: 2, Minor: 17}
	case "2.18":
		return &refs.Version{Major: 2, Minor: 18}
	default:
		return version.Current().ProtoMessage()
	}
}

var vf29OpOf = map[string]struct {
	verb  session.ObjectVerb
	verb2 sessionv2.Verb
	op    eacl.Operation
	aop   acl.Op
}{
	"Get":      {session.VerbObjectGet, sessionv2.VerbObjectGet, eacl.OperationGet, acl.OpObjectGet},
	"Head":     {session.VerbObjectHead, sessionv2.VerbObjectHead, eacl.OperationHead, acl.OpObjectHead},
	"GetRange": {session.VerbObjectRange, sessionv2.VerbObjectRange, eacl.OperationRange, acl.OpObjectRange},
	"Delete":   {session.VerbObjectDelete, sessionv2.VerbObjectDelete, eacl.OperationDelete, acl.OpObjectDelete},
	"SearchV2": {session.VerbObjectSearch, sessionv2.VerbObjectSearch, eacl.OperationSearch, acl.OpObjectSearch},
	"Put":      {session.VerbObjectPut, sessionv2.VerbObjectPut, eacl.OperationPut, acl.OpObjectPut},
}

func vf29UUID(rng *rand.Rand) [16]byte {
	id := [16]byte(verifkit.RandBytes(rng, 16))
	id[6], id[8] = id[6]&0x0f|0x40, id[8]&0x3f|0x80
	return id
}

// token builders.  defect == "" builds the valid token.
func vf29SessionV1(rng, dr *rand.Rand, w *vf29World, issuer vf29Ident, objID oid.ID, verb session.ObjectVerb, defect string) *protosession.SessionToken {
	var t session.Object
	t.SetID(vf29UUID(rng))
	t.SetIat(w.epoch - 1)
	t.SetNbf(w.epoch - 1)
	t.SetExp(w.epoch + 5)
	cnr := w.cnrID
	bindObj := !objID.IsZero() && rng.IntN(2) == 0
	switch defect {
	case "v1-expired":
		t.SetExp(w.epoch - 1)
		t.SetNbf(w.epoch - 3)
		t.SetIat(w.epoch - 3)
	case "v1-not-yet-valid":
		t.SetNbf(w.epoch + 1)
		t.SetExp(w.epoch + 5)
	case "v1-wrong-verb":
		// a verb that authorises nothing else (RANGEHASH is never accepted for the six RPCs)
		verb = session.VerbObjectRangeHash
	case "v1-other-container":
		cnr = verifkit.RandCID(dr)
	case "v1-other-object":
		bindObj = true
		objID = verifkit.RandOID(dr)
	}
	t.BindContainer(cnr)
	if bindObj {
		t.LimitByObjects(objID)
	}
	t.ForVerb(verb)
	t.SetAuthKey(neofscryptoPublic(issuer.key))
	if err := t.Sign(issuer.userSigner()); err != nil {
		panic(err)
	}
	m := t.ProtoMessage()
	if defect == "v1-forged" {
		// body changed after signing: lifetime prolonged
		m.Body.Lifetime.Exp += 100
	}
	return m
}

func neofscryptoPublic(k *ecdsa.PrivateKey) neofscrypto.PublicKey {
	return user.NewAutoIDSignerRFC6979(*k).Public()
}

func vf29SessionV2(rng, dr *rand.Rand, w *vf29World, issuer vf29Ident, verb sessionv2.Verb, defect string) *protosession.SessionTokenV2 {
	var t sessionv2.Token
	t.SetVersion(sessionv2.TokenCurrentVersion)
	iat, nbf, exp := w.now.Add(-time.Minute), w.now.Add(-time.Minute), w.now.Add(time.Hour)
	cnr := w.cnrID
	switch defect {
	case "v2-expired":
		iat, nbf, exp = w.now.Add(-2*time.Hour), w.now.Add(-2*time.Hour), w.now.Add(-time.Hour)
	case "v2-not-yet-valid":
		nbf = w.now.Add(10 * time.Minute)
	case "v2-wrong-verb":
		verb = sessionv2.VerbObjectRangeHash
	case "v2-other-container":
		cnr = verifkit.RandCID(dr)
	}
	t.SetIat(iat)
	t.SetNbf(nbf)
	t.SetExp(exp)
	if err := t.AddSubject(sessionv2.NewTargetUser(issuer.usr)); err != nil {
		panic(err)
	}
	ctx, err := sessionv2.NewContext(cnr, []sessionv2.Verb{verb})
	if err != nil {
		panic(err)
	}
	if err := t.AddContext(ctx); err != nil {
		panic(err)
	}
	t.SetIssuer(issuer.usr)
	if err := t.Sign(issuer.userSigner()); err != nil {
		panic(err)
	}
	m := t.ProtoMessage()
	if defect == "v2-forged" {
		m.Body.Lifetime.Exp += 1000
	}
	return m
}

func vf29Bearer(rng, dr *rand.Rand, w *vf29World, issuer vf29Ident, sender user.ID, table *eacl.Table, defect string) *protoacl.BearerToken {
	var t bearer.Token
	t.SetIat(w.epoch - 1)
	t.SetNbf(w.epoch - 1)
	t.SetExp(w.epoch + 5)
	tb := eacl.NewTableForContainer(w.cnrID, nil)
	if table != nil {
		tb = *table
	}
	switch defect {
	case "bearer-expired":
		t.SetExp(w.epoch - 1)
		t.SetNbf(w.epoch - 3)
		t.SetIat(w.epoch - 3)
	case "bearer-not-yet-valid":
		t.SetNbf(w.epoch + 2)
	case "bearer-other-user":
		t.ForUser(verifkit.RandUser(dr))
	case "bearer-other-container":
		tb.SetCID(verifkit.RandCID(dr))
	}
	if forUser := rng.IntN(2) == 0; forUser && defect != "bearer-other-user" {
		t.ForUser(sender)
	}
	t.SetEACLTable(tb)
	if err := t.Sign(issuer.userSigner()); err != nil {
		panic(err)
	}
	m := t.ProtoMessage()
	if defect == "bearer-forged" {
		m.Body.Lifetime.Exp += 100
	}
	return m
}

// ---------------------------------------------------------------------------------------
// building and firing one request

type vf29Plan struct {
	c *vf29Case
	// world parameters
	basic    acl.Basic
	table    func(w *vf29World, objID oid.ID, stranger user.ID) *eacl.Table
	denyXHdr bool
}

// vf29Fire builds the world + request of case c (defective or its valid twin) and calls
// the handler.  All randomness comes from r.Rand("build", idx) so that both executions
// see identical keys / ids / objects.
func vf29Fire(r *verifkit.Run, c *vf29Case, defective bool, keepEvents bool) (o vf29Outcome) {
	rng := r.Rand("build", c.Idx) // identities, ids, objects: identical draws in both executions
	vr := r.Rand("variant", c.Idx) // body variants
	tr := r.Rand("token", c.Idx)   // token ids / optional bindings
	dr := r.Rand("defect", c.Idx)  // randomness used only by the injected defect
	w := vf29NewWorld(rng, 1)
	owner := vf29NewIdent(rng)
	stranger := vf29NewIdent(rng)
	third := vf29NewIdent(rng)
	sender := owner
	if c.Sender == "stranger" {
		sender = stranger
	}
	defect := ""
	if defective {
		defect = c.Defect
	}

	basic := acl.PublicRWExtended
	switch defect {
	case "basic-private":
		basic = acl.Private
	case "sticky":
		basic = acl.PublicRW
		basic.MakeSticky()
	}
	w.cnrID, w.cnr = vf29NewContainer(owner.usr, basic, nil)
	objID := verifkit.RandOID(rng)
	ops := vf29OpOf[c.RPC]

	// object for Put (needs the container id)
	var putObj *object.Object
	var putPayload []byte
	tomb := false
	if c.RPC == "Put" {
		objOwner := sender
		if defect == "sticky" {
			objOwner = third // object owner differs from the request sender
		}
		putObj = object.New(w.cnrID, objOwner.usr)
		putPayload = verifkit.RandBytes(rng, []int{0, 1, 100, 5000}[rng.IntN(4)])
		c.Variant = fmt.Sprintf("regular/%dB", len(putPayload))
		if rng.IntN(4) == 0 {
			tomb = true
			c.Variant = "tombstone"
			putPayload = nil
			putObj.SetAttributes(object.NewAttribute(object.AttributeExpirationEpoch, "100"))
			putObj.AssociateDeleted(verifkit.RandOID(rng))
			ops.verb, ops.verb2, ops.op, ops.aop = session.VerbObjectDelete, sessionv2.VerbObjectDelete, eacl.OperationDelete, acl.OpObjectDelete
		}
		putObj.SetPayload(putPayload)
		putObj.SetPayloadSize(uint64(len(putPayload)))
		putObj.SetCreationEpoch(w.epoch)
		if tomb {
			c.Split = ""
		}
		if c.Split != "" {
			// part of a big object: the init message carries a split header
			sr := r.Rand("split", c.Idx)
			u := vf29UUID(sr)
			switch c.Split {
			case "v1-first":
				putObj.SetSplitID(object.NewSplitIDFromV2(u[:]))
			case "v1-middle":
				putObj.SetSplitID(object.NewSplitIDFromV2(u[:]))
				putObj.SetPreviousID(verifkit.RandOID(sr))
			case "v2-middle":
				putObj.SetFirstID(verifkit.RandOID(sr))
				putObj.SetPreviousID(verifkit.RandOID(sr))
			case "v1-last":
				par := object.New(w.cnrID, objOwner.usr)
				par.SetPayloadSize(uint64(len(putPayload)) + 4096)
				par.SetCreationEpoch(w.epoch)
				par.SetAttributes(object.NewAttribute("vf29", "parent"))
				if err := par.SetVerificationFields(objOwner.userSigner()); err != nil {
					panic(err)
				}
				par.SetPayload(nil)
				putObj.SetSplitID(object.NewSplitIDFromV2(u[:]))
				putObj.SetPreviousID(verifkit.RandOID(sr))
				putObj.SetParent(par)
				putObj.SetParentID(par.GetID())
			default:
				panic("vf29: unknown split shape " + c.Split)
			}
			c.Variant += "/split:" + c.Split
		}
		if err := putObj.SetVerificationFields(objOwner.userSigner()); err != nil {
			panic(err)
		}
		objID = putObj.GetID()
	}

	// eACL in the contract
	others := []eacl.Target{eacl.NewTargetByRole(eacl.RoleOthers)}
	var bearerTable *eacl.Table
	switch defect {
	case "eacl-role":
		t := eacl.NewTableForContainer(w.cnrID, []eacl.Record{eacl.ConstructRecord(eacl.ActionDeny, ops.op, others)})
		w.eacl = &t
	case "eacl-xheader":
		t := eacl.NewTableForContainer(w.cnrID, []eacl.Record{eacl.ConstructRecord(eacl.ActionDeny, ops.op, others, eacl.NewRequestHeaderFilter("X-Vf29", eacl.MatchStringEqual, "deny"))})
		w.eacl = &t
	case "eacl-address":
		f := eacl.NewFilterObjectWithID(objID)
		if c.RPC == "SearchV2" {
			f = eacl.NewFilterObjectsFromContainer(w.cnrID)
		}
		t := eacl.NewTableForContainer(w.cnrID, []eacl.Record{eacl.ConstructRecord(eacl.ActionDeny, ops.op, others, f)})
		w.eacl = &t
	case "eacl-bearer-table":
		t := eacl.NewTableForContainer(w.cnrID, []eacl.Record{eacl.ConstructRecord(eacl.ActionDeny, ops.op, others)})
		bearerTable = &t
	default:
		if vr.IntN(2) == 0 { // harmless table: denies something else to somebody else
			t := eacl.NewTableForContainer(w.cnrID, []eacl.Record{eacl.ConstructRecord(eacl.ActionDeny, ops.op, []eacl.Target{eacl.NewTargetByAccounts([]user.ID{third.usr})})})
			w.eacl = &t
		}
	}
	w.finish(nil, nil, nil)
	if defective && c.Env == "membership-lookup-fails" {
		w.memberLookupFails = true
	}

	// meta header of the valid twin (+ token defects)
	mkMeta := func() *protosession.RequestMetaHeader {
		m := &protosession.RequestMetaHeader{Version: vf29VersionMsg(c.Version), Ttl: c.TTL, Epoch: w.epoch}
		if c.Defect == "eacl-xheader" { // both twins carry the header; only the table differs
			m.XHeaders = []*protosession.XHeader{{Key: "X-Vf29", Value: "deny"}}
		}
		tok := c.Token
		tdef := ""
		if defective && c.Group == "token" {
			tdef = c.Defect
		}
		issuer := owner
		if tdef == "bearer-not-by-owner" {
			issuer = third
		}
		if c.Defect == "eacl-bearer-table" {
			tok = "bearer"
		}
		switch tok {
		case "sessionV1":
			m.SessionToken = vf29SessionV1(tr, dr, w, issuer, objID, ops.verb, tdef)
			if tdef == "v1-and-v2" {
				m.SessionTokenV2 = vf29SessionV2(tr, dr, w, issuer, ops.verb2, "")
			}
		case "sessionV2":
			m.SessionTokenV2 = vf29SessionV2(tr, dr, w, issuer, ops.verb2, tdef)
			if tdef == "v1-and-v2" {
				m.SessionToken = vf29SessionV1(tr, dr, w, issuer, objID, ops.verb, "")
			}
		case "bearer":
			m.BearerToken = vf29Bearer(tr, dr, w, issuer, sender.usr, bearerTable, tdef)
		}
		return m
	}

	ctx := context.Background()
	if defect == "unsigned-trusted-peer-ttl2" {
		ctx = peer.NewContext(ctx, &peer.Peer{AuthInfo: peerauth.AuthInfo{PublicKey: (*keys.PublicKey)(&w.remotes[0].key.PublicKey)}})
	}

	// signing incl. signature defects
	finishMsg := func(msg *vf29Msg, carriesDefect bool) {
		msg.setMeta(mkMeta())
		sdef := ""
		if carriesDefect && defective && c.Group == "signature" {
			sdef = c.Defect
		}
		if sdef == "unsigned" || sdef == "unsigned-trusted-peer-ttl2" {
			return
		}
		signer := sender.signer(c.Scheme)
		vh, err := msg.sign(signer)
		if err != nil {
			panic(err)
		}
		msg.setVH(vh)
		switch sdef {
		case "origin-layer-body-tampered":
			msg.tamper(dr)
		}
		if c.Layers == 2 {
			m := msg.getMeta()
			msg.setMeta(&protosession.RequestMetaHeader{Version: m.GetVersion(), Ttl: m.GetTtl() - 1, Origin: m})
			vh, err = msg.sign(w.remotes[0].signer("sha512"))
			if err != nil {
				panic(err)
			}
			msg.setVH(vh)
		}
		vh = msg.getVH()
		inner := vh
		for inner.Origin != nil {
			inner = inner.Origin
		}
		flip := func(s *refs.Signature) {
			s.Sign = append([]byte(nil), s.Sign...)
			s.Sign[len(s.Sign)/2] ^= 0x40
		}
		switch sdef {
		case "body-tampered":
			msg.tamper(dr)
		case "meta-tampered-ttl":
			m := *msg.getMeta() //nolint:govet
			m.Ttl++
			msg.setMeta(&m)
		case "meta-tampered-xheader":
			m := *msg.getMeta() //nolint:govet
			m.XHeaders = append(append([]*protosession.XHeader(nil), m.XHeaders...), &protosession.XHeader{Key: "X-Injected", Value: "1"})
			msg.setMeta(&m)
		case "body-sig-corrupted":
			flip(inner.BodySignature)
		case "meta-sig-corrupted":
			flip(vh.MetaSignature)
		case "origin-sig-corrupted":
			if vh.OriginSignature != nil {
				flip(vh.OriginSignature)
			} else {
				flip(vh.MetaSignature)
			}
		case "key-substituted":
			inner.BodySignature.Key = vf29Pub(third.key)
		case "meta-sig-missing":
			vh.MetaSignature = nil
		case "body-sig-missing":
			inner.BodySignature = nil
		case "scheme-mismatch":
			if inner.BodySignature.Scheme == refs.SignatureScheme_ECDSA_SHA512 {
				inner.BodySignature.Scheme = refs.SignatureScheme_ECDSA_RFC6979_SHA256
			} else {
				inner.BodySignature.Scheme = refs.SignatureScheme_ECDSA_SHA512
			}
		}
	}

	guard := func(f func()) {
		defer func() {
			if p := recover(); p != nil {
				o.Panic = fmt.Sprint(p)
			}
		}()
		f()
	}
	setErr := func(err error) {
		if err != nil {
			o.GRPCErr = grpcstatus.Code(err).String() + ": " + err.Error()
		}
	}
	addr := oid.NewAddress(w.cnrID, objID).ProtoMessage()
	logLenAtBad := -1

	switch c.RPC {
	case "Get":
		body := &protoobject.GetRequest_Body{Address: addr}
		switch vr.IntN(5) {
		case 0:
			c.Variant = "plain"
		case 1:
			c.Variant, body.Raw = "raw", true
		case 2:
			c.Variant, body.Range = "range", &protoobject.Range{Offset: uint64(vr.IntN(9)), Length: 1 + uint64(vr.IntN(9))}
		case 3:
			c.Variant, body.PayloadOnly = "payloadOnly", true
		case 4:
			f, l := uint64(vr.IntN(5)), uint64(5+vr.IntN(5))
			c.Variant, body.ExtendedRange = "xrange", &protoobject.ExtendedRange{FirstPos: &f, LastPos: &l}
		}
		req := &protoobject.GetRequest{Body: body}
		finishMsg(vf29WrapGet(req), true)
		st := &vf29GetStream{vf29Stream{ctx: ctx, log: w.log, decode: vf29DecodeGet}}
		guard(func() { setErr(w.srv.Get(req, st)) })
	case "GetRange":
		body := &protoobject.GetRangeRequest_Body{Address: addr, Range: &protoobject.Range{Offset: uint64(vr.IntN(9)), Length: 1 + uint64(vr.IntN(9))}}
		c.Variant = "range"
		if vr.IntN(3) == 0 {
			c.Variant, body.Raw = "raw", true
		}
		req := &protoobject.GetRangeRequest{Body: body}
		finishMsg(vf29WrapRange(req), true)
		st := &vf29RangeStream{vf29Stream{ctx: ctx, log: w.log, decode: vf29DecodeRange}}
		guard(func() { setErr(w.srv.GetRange(req, st)) })
	case "Head":
		body := &protoobject.HeadRequest_Body{Address: addr}
		c.Variant = "plain"
		if vr.IntN(3) == 0 {
			c.Variant, body.Raw = "raw", true
		}
		req := &protoobject.HeadRequest{Body: body}
		finishMsg(vf29WrapHead(req), true)
		guard(func() { vf29LogUnary(w.log, w.srv.HeadBuffered(ctx, req), vf29DecodeHead) })
	case "Delete":
		c.Variant = "plain"
		req := &protoobject.DeleteRequest{Body: &protoobject.DeleteRequest_Body{Address: addr}}
		finishMsg(vf29WrapDelete(req), true)
		guard(func() {
			resp, err := w.srv.Delete(ctx, req)
			setErr(err)
			if resp != nil {
				vf29LogUnary(w.log, resp, vf29DecodeDelete)
			}
		})
	case "SearchV2":
		body := &protoobject.SearchV2Request_Body{ContainerId: w.cnrID.ProtoMessage(), Version: 1, Count: 1 + uint32(vr.IntN(100))}
		c.Variant = "all"
		if vr.IntN(2) == 0 {
			c.Variant = "attr-eq"
			body.Filters = []*protoobject.SearchFilter{{MatchType: protoobject.MatchType_STRING_EQUAL, Key: "k", Value: "v"}}
			body.Attributes = []string{"k"}
		}
		req := &protoobject.SearchV2Request{Body: body}
		finishMsg(vf29WrapSearch(req), true)
		guard(func() { vf29LogUnary(w.log, w.srv.SearchV2Buffered(ctx, req), vf29DecodeSearch) })
	case "Put":
		mo := putObj.ProtoMessage()
		bodies := []*protoobject.PutRequest_Body{{ObjectPart: &protoobject.PutRequest_Body_Init_{Init: &protoobject.PutRequest_Body_Init{
			ObjectId: mo.ObjectId, Signature: mo.Signature, Header: mo.Header}}}}
		for off := 0; off < len(putPayload); off += 2048 {
			bodies = append(bodies, &protoobject.PutRequest_Body{ObjectPart: &protoobject.PutRequest_Body_Chunk{Chunk: putPayload[off:min(off+2048, len(putPayload))]}})
		}
		if c.Stage >= len(bodies) || c.Group != "signature" {
			c.Stage = 0 // token and ACL checks belong to the heading message
		}
		st := &vf29PutStream{vf29Stream: vf29Stream{ctx: ctx, log: w.log, decode: vf29DecodePut}, badAt: -1}
		for i, b := range bodies {
			req := &protoobject.PutRequest{Body: b}
			finishMsg(vf29WrapPut(req), i == c.Stage)
			st.reqs = append(st.reqs, req)
		}
		if defective {
			st.badAt = c.Stage
		}
		guard(func() { setErr(w.srv.Put(st)) })
		logLenAtBad = st.logLenAtBad
		_ = tomb
	default:
		panic("vf29: no driver for " + c.RPC)
	}

	ev := w.log.events()
	o.Served, o.ACLReads = vf29Effects(ev)
	if logLenAtBad >= 0 {
		o.ServedAfterBad, _ = vf29Effects(ev[logLenAtBad:])
	}
	for _, e := range ev {
		if e.Kind == "send" {
			o.Codes = append(o.Codes, e.Code)
			o.Payload += e.Payload
			if e.Header || e.Payload > 0 {
				o.Data = true
			}
			if strings.HasPrefix(e.What, "undecodable") || e.What == "nil response" {
				o.Panic = "harness: " + e.What
			}
		}
	}
	if keepEvents {
		o.Events = ev
	}
	return o
}

// ---------------------------------------------------------------------------------------
// inventory

var vf29Known = map[string]string{
	"Get": "checked", "Put": "checked", "Delete": "checked", "Head": "checked", "GetRange": "checked", "SearchV2": "checked",
	// RPCs the node answers with gRPC Unimplemented without looking at the request
	"Search": "unserved", "GetRangeHash": "unserved",
	// node-to-node replication has its own authorisation scheme (property C31)
	"Replicate": "other-property",
}

var vf29KnownExtra = map[string]bool{"HeadBuffered": true, "SearchV2Buffered": true, "ProcessSearch": true}

func vf29Inventory(r *verifkit.Run) []string {
	it := reflect.TypeOf((*protoobject.ObjectServiceServer)(nil)).Elem()
	names := map[string]bool{}
	for i := 0; i < it.NumMethod(); i++ {
		if it.Method(i).IsExported() {
			names[it.Method(i).Name] = true
		}
	}
	for _, m := range protoobject.ObjectService_ServiceDesc.Methods {
		names[m.MethodName] = true
	}
	for _, s := range protoobject.ObjectService_ServiceDesc.Streams {
		names[s.StreamName] = true
	}
	var out []string
	for n := range names {
		class, ok := vf29Known[n]
		if !ok {
			r.Inconclusive("object service RPC " + n + " is unknown to the C29 harness (no driver): cannot claim that every RPC checks before any effect")
			continue
		}
		r.Seen("rpc_inventory", n+":"+class)
		if class == "checked" {
			out = append(out, n)
		}
	}
	for n := range vf29Known {
		if !names[n] {
			r.Inconclusive("RPC " + n + " known to the harness disappeared from the generated service")
		}
	}
	st := reflect.TypeOf(&Server{})
	for i := 0; i < st.NumMethod(); i++ {
		if n := st.Method(i).Name; !names[n] && !vf29KnownExtra[n] {
			r.Inconclusive("exported Server method " + n + " is unknown to the C29 harness")
		}
	}
	sort.Strings(out)
	return out
}

// vf29Unserved: legacy RPCs must not touch anything whatever they are sent.
func vf29Unserved(r *verifkit.Run) {
	rng := r.Rand("unserved", 0)
	w := vf29NewWorld(rng, 1)
	owner := vf29NewIdent(rng)
	w.cnrID, w.cnr = vf29NewContainer(owner.usr, acl.PublicRW, nil)
	w.finish(nil, nil, nil)
	addr := oid.NewAddress(w.cnrID, verifkit.RandOID(rng)).ProtoMessage()
	func() {
		defer func() { _ = recover() }()
		_, _ = w.srv.GetRangeHash(context.Background(), &protoobject.GetRangeHashRequest{Body: &protoobject.GetRangeHashRequest_Body{Address: addr, Ranges: []*protoobject.Range{{Length: 1}}}})
	}()
	func() {
		defer func() { _ = recover() }()
		st := &vf29SearchV1Stream{vf29Stream{ctx: context.Background(), log: w.log, decode: vf29DecodeGet}}
		_ = w.srv.Search(&protoobject.SearchRequest{Body: &protoobject.SearchRequest_Body{ContainerId: w.cnrID.ProtoMessage(), Version: 1}}, st)
	}()
	served, look := vf29Effects(w.log.events())
	if len(served)+len(look) > 0 {
		r.Violation("effect|unserved-rpc", fmt.Sprintf("legacy RPC touched %v %v for an unsigned request", served, look), nil)
	}
	r.Count("unserved_rpcs_probed", 2)
}

type vf29SearchV1Stream struct{ vf29Stream }

func (s *vf29SearchV1Stream) Send(r *protoobject.SearchResponse) error { return s.SendMsg(r) }

// ---------------------------------------------------------------------------------------

func vf29GenCase(r *verifkit.Run, idx int, rpcs []string) *vf29Case {
	pick := r.Rand("case", idx)
	c := &vf29Case{Idx: idx}
	c.RPC = rpcs[idx%len(rpcs)]
	groups := []string{"signature", "signature", "token", "token", "acl"}
	c.Group = groups[(idx/len(rpcs))%len(groups)]
	ds := vf29Defects[c.Group]
	c.Defect = ds[pick.IntN(len(ds))]
	c.Scheme = []string{"sha512", "rfc6979", "walletconnect"}[pick.IntN(3)]
	c.TTL = []uint32{1, 2, 2, 3, 7}[pick.IntN(5)]
	c.Version = []string{"2.17", "2.18", "current", "current"}[pick.IntN(4)]
	c.Sender = []string{"owner", "stranger"}[pick.IntN(2)]
	c.Token = []string{"", "", "sessionV1", "sessionV2", "bearer"}[pick.IntN(5)]
	c.Layers = 1
	// requests re-signed by a forwarding node exist only below API 2.25 (later versions
	// authenticate the outermost header only); tokens live in the client's (inner) meta header
	// (this server generation rejects such multi-layer requests outright – "control not accepted" –
	// so the harness does not generate them: nothing could be judged)
	_ = c.TTL >= 3 && pick.IntN(2) == 0 && c.Version != "current"
	c.Stage = pick.IntN(3)
	switch c.Group {
	case "token":
		switch {
		case strings.HasPrefix(c.Defect, "v1-"):
			c.Token = "sessionV1"
		case strings.HasPrefix(c.Defect, "v2-"):
			c.Token = "sessionV2"
		default:
			c.Token = "bearer"
		}
		c.Layers = 1
		if c.Defect == "v1-other-object" && (c.RPC == "Delete" || c.RPC == "Put" || c.RPC == "SearchV2") {
			// the object binding of a session is not applicable to removal (the tombstone id is
			// unpredictable), to creation and to search: use the container binding instead
			c.Defect = "v1-other-container"
		}
	case "acl":
		c.Sender = "stranger" // access rules of this catalogue are written for role OTHERS
		// an owner-issued session would make the sender act as the owner, a bearer token
		// replaces the container's eACL table: neither may accompany these defects
		c.Token = ""
		if c.Defect == "sticky" {
			c.RPC = "Put"
		}
		if c.Defect == "eacl-address" && (c.RPC == "Get" || c.RPC == "Head" || c.RPC == "SearchV2") {
			// GET/HEAD: rules over object headers (incl. the ID) are decided when the header is
			// known – monitored by the payload part of C29; SEARCH has no object headers at all
			c.Defect = "eacl-role"
		}
	case "signature":
		switch c.Defect {
		case "unsigned-trusted-peer-ttl2":
			if c.TTL < 2 {
				c.TTL = 2
			}
			c.Layers = 1
		}
	}
	if c.RPC == "Put" {
		// own stream: the draws above stay what they were
		pe := r.Rand("case-put-env", idx)
		c.Split = []string{"", "", "v1-first", "v1-middle", "v2-middle", "v1-last"}[pe.IntN(6)]
		c.Env = []string{"", "membership-lookup-fails"}[pe.IntN(2)]
	}
	return c
}

func TestVerif_C29(t *testing.T) {
	r := verifkit.Start(t, "C29", "exploration")
	defer r.Finish()
	r.SetRule("RPC inventory by reflection; per case one request with exactly one defect of the catalogue (authenticity / token / access) x RPC x sender x signature scheme x TTL x version x token kind x body variant x signature layers x (Put) position of the defective stream message x (Put) split header shape of the init message x (Put) environment fault while the defective request is handled (container-membership lookup of the node fails); distinct = that tuple; non-trivial = the defect-free twin reached the serving dependency on an identical world")
	r.Assume("real ACL stack (aclsvc.Service, acl.Checker, SDK eACL validator) over a shard-less real engine; get/delete services, put storage/transport and remote nodes are recorders")
	rpcs := vf29Inventory(r)
	if len(rpcs) == 0 {
		r.Inconclusive("empty RPC inventory")
		return
	}
	vf29Unserved(r)
	n := r.Pick(2400, 60000)
	rejectedPer := map[string]int{}
	for idx := 0; idx < n; idx++ {
		c := vf29GenCase(r, idx, rpcs)
		r.Eval(1)
		ctl := vf29Fire(r, c, false, false)
		if strings.HasPrefix(ctl.Panic, "harness:") {
			r.Inconclusive(fmt.Sprintf("case %d control: %s", idx, ctl.Panic))
			continue
		}
		if ctl.Panic != "" {
			r.Violation("panic|"+c.RPC+"|valid-request", "handler panicked on a valid request: "+ctl.Panic, c)
			continue
		}
		if !vf29Reached(ctl.Served) || ctl.errorStatus() && c.RPC != "Put" {
			// the twin is not accepted: the case does not isolate the defect – not judged
			r.Count("control_not_accepted_"+c.RPC, 1)
			r.Seen("control_rejections", fmt.Sprintf("%s|%s|%s|%s codes=%v", c.RPC, c.Sender, c.Token, c.Variant, ctl.Codes))
			if testing.Verbose() && r.Counter("control_not_accepted_"+c.RPC) < 4 {
				full := vf29Fire(r, c, false, true)
				t.Logf("control rejected: %s codes=%v grpc=%q events=%+v", c.sig(), full.Codes, full.GRPCErr, full.Events)
			}
			continue
		}
		r.Count("control_accepted_"+c.RPC, 1)

		bad := vf29Fire(r, c, true, false)
		if strings.HasPrefix(bad.Panic, "harness:") {
			r.Inconclusive(fmt.Sprintf("case %d: %s", idx, bad.Panic))
			continue
		}
		replay := func() any {
			full := vf29Fire(r, c, true, true)
			return map[string]any{"case": c, "outcome": full, "control": ctl}
		}
		key := c.RPC + "|" + c.Group + "|" + c.Defect
		if bad.Panic != "" {
			r.Violation("panic|"+key, "handler panicked on a defective request: "+bad.Panic, replay())
			continue
		}
		served := bad.Served
		if c.RPC == "Put" && c.Stage > 0 {
			served = bad.ServedAfterBad
			// whatever happened before, the object must never be stored or sent anywhere
			for _, e := range bad.Served {
				if e == "put.localStore.Put" || strings.HasPrefix(e, "put.transport") || strings.HasPrefix(e, "put.clients") {
					served = append(served, e)
				}
			}
		}
		ok := true
		if len(served) > 0 {
			ok = false
			r.Violation("effect|"+key+"|"+served[0], fmt.Sprintf("%s with defect %q touched %v", c.RPC, c.Defect, served), replay())
		}
		if bad.Data {
			ok = false
			r.Violation("data|"+key, fmt.Sprintf("%s with defect %q returned object data (payload=%d)", c.RPC, c.Defect, bad.Payload), replay())
		}
		if !bad.errorStatus() {
			ok = false
			r.Violation("no-error-status|"+key, fmt.Sprintf("%s with defect %q answered codes=%v without an error", c.RPC, c.Defect, bad.Codes), replay())
		}
		if ok {
			rejectedPer[c.RPC+"|"+c.Group]++
			r.Count("rejected_"+c.RPC+"_"+c.Group, 1)
			r.Seen("rejection_codes_"+c.Group, fmt.Sprint(bad.Codes))
			r.Seen("defects_exercised", c.Defect)
			if c.RPC == "Put" && c.Env != "" {
				r.Count(fmt.Sprintf("rejected_Put_%s_under_%s_split_header_%v", c.Group, c.Env, c.Split != ""), 1)
				r.Seen("put_split_shapes_under_env_fault", c.Split)
			}
			if len(bad.ACLReads) > 0 {
				r.Count("rejections_after_acl_header_lookup", 1)
			}
		}
		r.Distinct(c.sig())
		if idx < 12 {
			r.Sample(map[string]any{"case": c, "codes": bad.Codes, "serving_effects": bad.Served, "control_effects": ctl.Served})
		}
	}
	for _, rpc := range rpcs {
		for g := range vf29Defects {
			if rejectedPer[rpc+"|"+g] == 0 && r.Violations() == 0 {
				r.Inconclusive(fmt.Sprintf("no %s-defect request was observed being rejected by %s", g, rpc))
			}
		}
	}
	_ = iec.Rule{}
	_ = cid.ID{}
}
