//go:build verif

package control

// C32 (storage-node leg): every call of the storage node's control service must be rejected
// with no side effect unless it carries a valid signature by one of the configured
// administrator keys over its body.
//
// The RPC inventory is taken from the generated gRPC service descriptor (unary + streaming)
// and, by reflection, from the generated server interface; an RPC the harness has no driver
// for makes the run inconclusive (and is still probed with unauthorised empty requests).
// Requests are marshalled to the wire and handed to the *generated gRPC handler* of the
// descriptor, which decodes them and calls the real Server, which works on a real
// StorageEngine (three temp shards, two of them with a write-cache), a real placement.Service
// and replicator.Replicator over recording container/netmap sources and a recording NodeState.
//
// Oracle (written from the statement, independent of sign.go and of the generated
// StableMarshal/ReadSignedData code; the body bytes are the standard protobuf encoding of the
// body field as the request carries it): a request is *authorised* iff
// its signature field names a key that is byte-equal to the compressed encoding of one of the
// administrator keys configured for the server it is sent to AND the signature verifies with
// the Go standard library (ECDSA P-256 over SHA-512 of the body bytes) under that key.
// "Its body" is what the request carries in its body field: the reference takes the bytes of that
// field in the standard protobuf encoding (reflection-based google.golang.org/protobuf codec,
// the one the gRPC transport uses), NOT the hand-generated StableMarshal / ReadSignedData code
// of the repository, which is part of what is checked.  Besides whole-body substitutions, every
// single field of the body message (enumerated from the message descriptor) is altered after an
// administrator signed the body, and vice versa (signed with the field altered, sent as
// generated).
// Not authorised => error, no response / no streamed message, the world snapshot taken before
// the call equals the one taken after it, and no mutating dependency call is recorded.
// The snapshot is taken without the code under test: shard modes and error counters, every
// file below the shards' blobstor / write-cache directories and the dump directory (size and
// hash), the engine's listing with the holding shards, and for every address of the universe
// the read status and the per-shard object status.
// Authorised (positive control, run after the first pass of negatives of every body) => the call
// must execute (response, state change or dependency call), and bodies chosen to be effective
// must show their effect, otherwise the negative checks would be vacuous (inconclusive, never a
// violation).
//
// The statement quantifies over every call, whatever the server has served before, so the
// sequence matters: the harness keeps the credentials (key, signature, signed body) of every
// authorised request the server under test has already been sent - starting with a correctly
// signed health check at the beginning of the round, as a monitoring tool sends it - and
// *replays* them on other bodies and other RPCs (first / latest / random earlier credential,
// and, right after the positive control of a body, that very credential on the alternative body
// of the same RPC); a seeded subset of the stateless negative modes is also repeated on the
// same body right after it was accepted.  The reference judges a replayed credential like any
// other: the signature does not verify over the bytes of the body it is attached to.

import (
	"bytes"
	"context"
	"crypto/ecdsa"
	"crypto/elliptic"
	crand "crypto/rand"
	"crypto/sha256"
	"crypto/sha512"
	"encoding/binary"
	"encoding/hex"
	"errors"
	"fmt"
	"io/fs"
	"math/big"
	"math/rand/v2"
	"os"
	"path/filepath"
	"reflect"
	"sort"
	"strings"
	"sync"
	"sync/atomic"
	"testing"
	"time"

	"github.com/nspcc-dev/neo-go/pkg/crypto/keys"
	"github.com/nspcc-dev/neofs-node/internal/verifkit"
	"github.com/nspcc-dev/neofs-node/pkg/local_object_storage/blobstor/common"
	"github.com/nspcc-dev/neofs-node/pkg/local_object_storage/blobstor/fstree"
	"github.com/nspcc-dev/neofs-node/pkg/local_object_storage/engine"
	meta "github.com/nspcc-dev/neofs-node/pkg/local_object_storage/metabase"
	"github.com/nspcc-dev/neofs-node/pkg/local_object_storage/shard"
	"github.com/nspcc-dev/neofs-node/pkg/local_object_storage/shard/mode"
	"github.com/nspcc-dev/neofs-node/pkg/local_object_storage/writecache"
	ctl "github.com/nspcc-dev/neofs-node/pkg/services/control"
	"github.com/nspcc-dev/neofs-node/pkg/services/object/placement"
	"github.com/nspcc-dev/neofs-node/pkg/services/replicator"
	apistatus "github.com/nspcc-dev/neofs-sdk-go/client/status"
	"github.com/nspcc-dev/neofs-sdk-go/container"
	cid "github.com/nspcc-dev/neofs-sdk-go/container/id"
	"github.com/nspcc-dev/neofs-sdk-go/netmap"
	"github.com/nspcc-dev/neofs-sdk-go/object"
	oid "github.com/nspcc-dev/neofs-sdk-go/object/id"
	"github.com/nspcc-dev/neofs-sdk-go/user"
	"go.uber.org/zap"
	"google.golang.org/grpc"
	"google.golang.org/grpc/metadata"
	"google.golang.org/protobuf/proto"
	"google.golang.org/protobuf/reflect/protoreflect"
)

// ---- independent crypto helpers (standard library only) ---------------------------------

func vf32Key(rng *rand.Rand) *ecdsa.PrivateKey {
	for {
		k, err := keys.NewPrivateKeyFromBytes(verifkit.RandBytes(rng, 32))
		if err == nil {
			return &k.PrivateKey
		}
	}
}

func vf32Pub(k *ecdsa.PrivateKey) []byte {
	return elliptic.MarshalCompressed(elliptic.P256(), k.X, k.Y)
}

func vf32Sign(k *ecdsa.PrivateKey, data []byte) []byte {
	h := sha512.Sum512(data)
	r, s, err := ecdsa.Sign(crand.Reader, k, h[:])
	if err != nil {
		panic("vf32: ecdsa.Sign: " + err.Error())
	}
	out := make([]byte, 65)
	out[0] = 4
	r.FillBytes(out[1:33])
	s.FillBytes(out[33:65])
	return out
}

// vf32RefAuthorised is the reference acceptance condition of the statement.
func vf32RefAuthorised(admins [][]byte, key, sig, body []byte) bool {
	for _, a := range admins {
		if !bytes.Equal(a, key) {
			continue
		}
		x, y := elliptic.UnmarshalCompressed(elliptic.P256(), a)
		if x == nil || len(sig) != 65 {
			return false
		}
		h := sha512.Sum512(body)
		r, s := new(big.Int).SetBytes(sig[1:33]), new(big.Int).SetBytes(sig[33:65])
		return ecdsa.Verify(&ecdsa.PublicKey{Curve: elliptic.P256(), X: x, Y: y}, h[:], r, s)
	}
	return false
}

// ---- recording dependencies ---------------------------------------------------------------

type vf32Rec struct {
	mu    sync.Mutex
	muts  []string
	reads []string
}

func (x *vf32Rec) mut(s string)  { x.mu.Lock(); x.muts = append(x.muts, s); x.mu.Unlock() }
func (x *vf32Rec) read(s string) { x.mu.Lock(); x.reads = append(x.reads, s); x.mu.Unlock() }
func (x *vf32Rec) marks() (int, int) {
	x.mu.Lock()
	defer x.mu.Unlock()
	return len(x.muts), len(x.reads)
}
func (x *vf32Rec) since(m, rd int) ([]string, []string) {
	x.mu.Lock()
	defer x.mu.Unlock()
	return append([]string(nil), x.muts[m:]...), append([]string(nil), x.reads[rd:]...)
}

type vf32Health struct{ rec *vf32Rec }

func (h vf32Health) NetmapStatus() ctl.NetmapStatus {
	h.rec.read("health.NetmapStatus")
	return ctl.NetmapStatus_ONLINE
}
func (h vf32Health) HealthStatus() ctl.HealthStatus {
	h.rec.read("health.HealthStatus")
	return ctl.HealthStatus_READY
}

type vf32NodeState struct{ rec *vf32Rec }

func (n vf32NodeState) SetNetmapStatus(st ctl.NetmapStatus) error {
	n.rec.mut("nodestate.SetNetmapStatus(" + st.String() + ")")
	return nil
}

// IsLocalNodePublicKey answers yes for every key, so the real Replicator tries the local
// engine instead of a network client.
func (n vf32NodeState) IsLocalNodePublicKey([]byte) bool {
	n.rec.read("nodestate.IsLocalNodePublicKey")
	return true
}

type vf32Containers struct {
	rec *vf32Rec
	cnr container.Container
}

func (c vf32Containers) Get(id cid.ID) (container.Container, error) {
	c.rec.read("containers.Get")
	return c.cnr, nil
}

type vf32Netmap struct {
	rec *vf32Rec
	nm  netmap.NetMap
}

func (n vf32Netmap) GetNetMapByEpoch(uint64) (*netmap.NetMap, error) {
	n.rec.read("netmap.GetNetMapByEpoch")
	nm := n.nm
	return &nm, nil
}
func (n vf32Netmap) Epoch() (uint64, error) { n.rec.read("netmap.Epoch"); return 7, nil }
func (n vf32Netmap) NetMap() (*netmap.NetMap, error) {
	n.rec.read("netmap.NetMap")
	nm := n.nm
	return &nm, nil
}

type vf32Epoch struct{}

func (vf32Epoch) CurrentEpoch() uint64 { return 7 }

// ---- the world ------------------------------------------------------------------------------

type vf32Shard struct {
	id    common.ID
	dir   string
	hasWC bool
}

type vf32World struct {
	r       *verifkit.Run
	dir     string
	dumpDir string
	e       *engine.StorageEngine
	shards  []vf32Shard
	rec     *vf32Rec
	cnrs    []cid.ID
	owner   user.ID
	watch   []oid.Address // every address the snapshot asks about
	pool    []oid.Address // stored objects not yet consumed by a body
	release chan struct{}

	admins   []*ecdsa.PrivateKey
	adminSet [][]byte
	garbage  [][]byte
	stranger *ecdsa.PrivateKey
	nodeKey  *ecdsa.PrivateKey

	srv      *Server // ready, administrators = admins
	other    *Server // ready, same engine and dependencies, other administrators
	otherSet [][]byte
	unready  *Server // never marked ready, administrators = admins
	nDump    int

	accepted  []vf32Cred // credentials of the authorised requests already sent to srv, oldest first
	replaySrc string     // RPC the credential replayed by the last vf32Forge call was accepted on
}

// vf32Cred is the credential of a request the reference judged authorised and that was sent to
// the server under test: replay material for later requests.
type vf32Cred struct {
	rpc            string
	key, sig, body []byte
}

// vf32Park is the channel the write-cache flush scheduler of the current world parks on (the
// background flush must not move objects while snapshots are compared).
var vf32Park atomic.Pointer[chan struct{}]
var vf32Parked atomic.Int64

func vf32NewWorld(r *verifkit.Run, t *testing.T, rng *rand.Rand, round int) (*vf32World, error) {
	w := &vf32World{r: r, rec: &vf32Rec{}, release: make(chan struct{})}
	w.dir = filepath.Join(t.TempDir(), fmt.Sprintf("w%d", round))
	w.dumpDir = filepath.Join(w.dir, "dumps")
	if err := os.MkdirAll(w.dumpDir, 0o755); err != nil {
		return nil, err
	}
	vf32Park.Store(&w.release)
	parkedBefore := vf32Parked.Load()
	w.e = engine.New(engine.WithLogger(zap.NewNop()))
	for i := 0; i < 3; i++ {
		sd := filepath.Join(w.dir, fmt.Sprintf("s%d", i))
		hasWC := i < 2
		id, err := w.e.AddShard(
			shard.WithLogger(zap.NewNop()),
			shard.WithBlobstor(fstree.New(fstree.WithPath(filepath.Join(sd, "blob")), fstree.WithDepth(1), fstree.WithNoSync(true))),
			shard.WithMetaBaseOptions(meta.WithPath(filepath.Join(sd, "meta")), meta.WithEpochState(vf32Epoch{}), meta.WithLogger(zap.NewNop())),
			shard.WithWriteCache(hasWC),
			shard.WithWriteCacheOptions(writecache.WithPath(filepath.Join(sd, "wc")), writecache.WithNoSync(true), writecache.WithLogger(zap.NewNop())),
			shard.WithGCRemoverSleepInterval(24*time.Hour), // no background removal while snapshots are compared
		)
		if err != nil {
			return nil, err
		}
		w.shards = append(w.shards, vf32Shard{id: id, dir: sd, hasWC: hasWC})
	}
	if err := w.e.Init(); err != nil {
		return nil, err
	}
	w.owner = verifkit.RandUser(rng)
	w.cnrs = []cid.ID{verifkit.RandCID(rng), verifkit.RandCID(rng)}
	// objects: a few spread by the engine, then some directed to every shard
	for i := 0; i < 4; i++ {
		a, err := w.put(rng, -1)
		if err != nil {
			return nil, err
		}
		w.pool = append(w.pool, a)
	}
	for si := range w.shards {
		for i := 0; i < 3; i++ {
			a, err := w.put(rng, si)
			if err != nil {
				return nil, err
			}
			w.pool = append(w.pool, a)
		}
	}

	// Both write-caches hold objects now: their flush schedulers must reach the hand-off point
	// (first 1 s tick) and park there, otherwise the background flush would move objects while
	// snapshots are compared.  The wall clock is a watchdog only (=> inconclusive).
	for t0 := time.Now(); vf32Parked.Load() < parkedBefore+2; time.Sleep(5 * time.Millisecond) {
		if time.Since(t0) > 60*time.Second {
			return nil, errors.New("write-cache flush schedulers did not reach hook writecache.sched.handoff (hook missing?)")
		}
	}

	// keys and servers
	w.nodeKey, w.stranger = vf32Key(rng), vf32Key(rng)
	var allowed [][]byte
	for i, n := 0, 1+rng.IntN(3); i < n; i++ {
		k := vf32Key(rng)
		w.admins = append(w.admins, k)
		w.adminSet = append(w.adminSet, vf32Pub(k))
		allowed = append(allowed, vf32Pub(k))
	}
	if round%2 == 1 { // every second world: non-key entries surround the administrator keys in the configured list
		w.garbage = [][]byte{{}, verifkit.RandBytes(rng, 33), vf32Pub(w.admins[0])[:32]}
		allowed = append([][]byte{w.garbage[0], w.garbage[1]}, allowed...)
		allowed = append(allowed, w.garbage[2])
	}
	otherAdmin := vf32Key(rng)
	w.otherSet = [][]byte{vf32Pub(otherAdmin)}

	// placement over a two-node network map (this node + one more) and a REP 1 container
	var pol netmap.PlacementPolicy
	if err := pol.DecodeString("REP 1"); err != nil {
		return nil, err
	}
	var cnr container.Container
	cnr.Init()
	cnr.SetOwner(w.owner)
	cnr.SetPlacementPolicy(pol)
	var nm netmap.NetMap
	var n1, n2 netmap.NodeInfo
	n1.SetPublicKey(vf32Pub(w.nodeKey))
	n1.SetNetworkEndpoints("/ip4/127.0.0.1/tcp/1")
	n2.SetPublicKey(vf32Pub(vf32Key(rng)))
	n2.SetNetworkEndpoints("/ip4/127.0.0.1/tcp/2")
	nm.SetNodes([]netmap.NodeInfo{n1, n2})
	nm.SetEpoch(7)
	pl, err := placement.New(vf32Containers{w.rec, cnr}, vf32Netmap{w.rec, nm})
	if err != nil {
		return nil, err
	}
	ns := vf32NodeState{w.rec}
	repl := replicator.New(replicator.WithLogger(zap.NewNop()), replicator.WithLocalStorage(w.e), replicator.WithLocalNodeKey(ns), replicator.WithPutTimeout(time.Second))

	w.srv = New(w.nodeKey, allowed, vf32Health{w.rec}, zap.NewNop())
	w.srv.MarkReady(w.e, pl, repl, ns)
	w.other = New(w.nodeKey, w.otherSet, vf32Health{w.rec}, zap.NewNop())
	w.other.MarkReady(w.e, pl, repl, ns)
	w.unready = New(w.nodeKey, allowed, vf32Health{w.rec}, zap.NewNop())
	return w, nil
}

func (w *vf32World) close() {
	close(w.release)
	_ = w.e.Close()
}

func (w *vf32World) setMode(si int, m mode.Mode) error {
	for _, sh := range w.e.DumpInfo().Shards {
		if sh.ID.String() == w.shards[si].id.String() && sh.Mode == m {
			return nil // already there: spare the component re-open
		}
	}
	return w.e.SetShardMode(w.shards[si].id, m, false)
}

func (w *vf32World) allRW() error {
	for i := range w.shards {
		if err := w.setMode(i, mode.ReadWrite); err != nil {
			return err
		}
	}
	return nil
}

// only(si, m): shard si gets mode m, every other shard the opposite of it (RW <-> RO).
func (w *vf32World) only(si int, m mode.Mode) error {
	o := mode.ReadOnly
	if m == mode.ReadOnly {
		o = mode.ReadWrite
	}
	for i := range w.shards {
		mm := o
		if i == si {
			mm = m
		}
		if err := w.setMode(i, mm); err != nil {
			return err
		}
	}
	return nil
}

func (w *vf32World) newObj(rng *rand.Rand) *object.Object {
	return verifkit.NewObject(rng, w.cnrs[rng.IntN(len(w.cnrs))], w.owner, 16+rng.IntN(200))
}

// put stores a fresh object; si>=0 directs it to that shard (the other shards are read-only
// for the moment).
func (w *vf32World) put(rng *rand.Rand, si int) (oid.Address, error) {
	o := w.newObj(rng)
	var err error
	if si >= 0 {
		err = w.only(si, mode.ReadWrite)
	} else {
		err = w.allRW()
	}
	if err == nil {
		err = w.e.Put(context.Background(), o, nil)
	}
	if err == nil {
		err = w.allRW()
	}
	a := verifkit.Addr(o)
	w.watch = append(w.watch, a)
	return a, err
}

func (w *vf32World) take() (oid.Address, bool) {
	if len(w.pool) == 0 {
		return oid.Address{}, false
	}
	a := w.pool[0]
	w.pool = w.pool[1:]
	return a, true
}

// filesUnder lists regular files below dir (relative path -> size:hash).
func vf32Files(root, prefix string, into map[string]string) {
	_ = filepath.WalkDir(root, func(p string, d fs.DirEntry, err error) error {
		if err != nil || d.IsDir() {
			return nil
		}
		rel, _ := filepath.Rel(root, p)
		b, err := os.ReadFile(p)
		if err != nil {
			into["file/"+prefix+"/"+rel] = "unreadable"
			return nil
		}
		h := sha256.Sum256(b)
		into["file/"+prefix+"/"+rel] = fmt.Sprintf("%d:%x", len(b), h[:6])
		return nil
	})
}

func (w *vf32World) snapshot() map[string]string {
	s := map[string]string{}
	ctx := context.Background()
	info := w.e.DumpInfo()
	for _, sh := range info.Shards {
		s["shard/"+sh.ID.String()] = fmt.Sprintf("mode=%v errors=%d", sh.Mode, sh.ErrorCount)
	}
	s["shards"] = fmt.Sprint(len(info.Shards))
	for i, sh := range w.shards {
		vf32Files(filepath.Join(sh.dir, "blob"), fmt.Sprintf("s%d/blob", i), s)
		vf32Files(filepath.Join(sh.dir, "wc"), fmt.Sprintf("s%d/wc", i), s)
	}
	vf32Files(w.dumpDir, "dumps", s)
	var cur *engine.Cursor
	for n := 0; n < 100; n++ {
		items, c, err := w.e.ListWithCursor(ctx, 1000, cur)
		if err != nil {
			if !errors.Is(err, engine.ErrEndOfListing) {
				s["list-error"] = err.Error()
			}
			break
		}
		for _, it := range items {
			ids := append([]string(nil), it.ShardIDs...)
			sort.Strings(ids)
			s["listed/"+it.Address.EncodeToString()] = strings.Join(ids, ",")
		}
		if c == nil {
			break
		}
		cur = c
	}
	for _, a := range w.watch {
		o, err := w.e.Get(ctx, a)
		var st string
		switch {
		case err == nil:
			h := sha256.Sum256(o.Marshal())
			st = fmt.Sprintf("ok:%x", h[:4])
		case errors.As(err, new(apistatus.ObjectNotFound)):
			st = "not-found"
		case errors.As(err, new(apistatus.ObjectAlreadyRemoved)):
			st = "removed"
		default:
			st = "error:" + err.Error()
		}
		os, err := w.e.ObjectStatus(ctx, a)
		if err != nil {
			st += " status-error:" + err.Error()
		}
		var per []string
		for _, x := range os.Shards {
			per = append(per, fmt.Sprintf("%s[blob=%s meta=%s wc=%v]", x.ID, x.Shard.Blob.Type, strings.Join(x.Shard.Metabase.State, "+"), x.Shard.Writecache.PathFSTree != ""))
		}
		sort.Strings(per)
		s["object/"+a.EncodeToString()] = st + " " + strings.Join(per, " ")
	}
	return s
}

func vf32Diff(a, b map[string]string) []string {
	var out []string
	for k, v := range a {
		if bv, ok := b[k]; !ok {
			out = append(out, "-"+k+" ("+v+")")
		} else if bv != v {
			out = append(out, "~"+k+" ("+v+" -> "+bv+")")
		}
	}
	for k, v := range b {
		if _, ok := a[k]; !ok {
			out = append(out, "+"+k+" ("+v+")")
		}
	}
	sort.Strings(out)
	return out
}

// vf32DiffKind names what kind of state a difference touches (part of the class key).
func vf32DiffKind(d []string) string {
	kinds := map[string]bool{}
	for _, x := range d {
		parts := strings.Split(strings.SplitN(x[1:], " ", 2)[0], "/")
		k := parts[0]
		if k == "file" && len(parts) > 2 {
			if parts[1] == "dumps" {
				k = "file:dump"
			} else {
				k = "file:" + parts[2] // blob or wc
			}
		}
		kinds[k] = true
	}
	var l []string
	for k := range kinds {
		l = append(l, k)
	}
	sort.Strings(l)
	return strings.Join(l, "+")
}

// ---- requests -----------------------------------------------------------------------------

type vf32Msg interface {
	proto.Message
	ReadSignedData([]byte) ([]byte, error)
	GetSignature() *ctl.Signature
	SetSignature(*ctl.Signature)
}

type vf32Variant struct {
	name       string
	mk         func() vf32Msg // fresh unsigned request carrying the body
	alt        func() vf32Msg // a different, equally effective body of the same RPC (nil: the body is empty)
	prepare    func() error   // puts the world into the state in which executing the body has its effect (harness-side, engine API)
	wantEffect bool           // an executed request must change the snapshot or record a mutating dependency call
}

func vf32AddrBytes(a oid.Address) []byte { return []byte(a.EncodeToString()) }

func vf32Frame(objs ...*object.Object) []byte {
	out := []byte("NEOF")
	for _, o := range objs {
		b := o.Marshal()
		out = binary.LittleEndian.AppendUint32(out, uint32(len(b)))
		out = append(out, b...)
	}
	return out
}

var vf32ShardModes = []ctl.ShardMode{ctl.ShardMode_READ_ONLY, ctl.ShardMode_DEGRADED, ctl.ShardMode_DEGRADED_READ_ONLY}

// drivers known to the harness: RPC name -> body variants built from the current world.
var vf32Drivers = map[string]func(w *vf32World, rng *rand.Rand) ([]vf32Variant, error){
	"HealthCheck": func(*vf32World, *rand.Rand) ([]vf32Variant, error) {
		return []vf32Variant{{name: "empty", mk: func() vf32Msg { return &ctl.HealthCheckRequest{Body: new(ctl.HealthCheckRequest_Body)} }}}, nil
	},
	"ListShards": func(*vf32World, *rand.Rand) ([]vf32Variant, error) {
		return []vf32Variant{{name: "empty", mk: func() vf32Msg { return &ctl.ListShardsRequest{Body: new(ctl.ListShardsRequest_Body)} }}}, nil
	},
	"ListObjects": func(w *vf32World, _ *rand.Rand) ([]vf32Variant, error) {
		return []vf32Variant{{name: "empty", prepare: w.allRW, mk: func() vf32Msg { return &ctl.ListObjectsRequest{Body: new(ctl.ListObjectsRequest_Body)} }}}, nil
	},
	"SetNetmapStatus": func(_ *vf32World, rng *rand.Rand) ([]vf32Variant, error) {
		sts := []ctl.NetmapStatus{ctl.NetmapStatus_ONLINE, ctl.NetmapStatus_OFFLINE, ctl.NetmapStatus_MAINTENANCE}
		i := rng.IntN(3)
		mkBody := func(st ctl.NetmapStatus) func() vf32Msg {
			return func() vf32Msg {
				return &ctl.SetNetmapStatusRequest{Body: &ctl.SetNetmapStatusRequest_Body{Status: st}}
			}
		}
		return []vf32Variant{{name: "status=" + sts[i].String(), mk: mkBody(sts[i]), alt: mkBody(sts[(i+1+rng.IntN(2))%3]), wantEffect: true}}, nil
	},
	"DropObjects": func(w *vf32World, rng *rand.Rand) ([]vf32Variant, error) {
		mkBody := func(as ...oid.Address) func() vf32Msg {
			return func() vf32Msg {
				b := &ctl.DropObjectsRequest_Body{}
				for _, a := range as {
					b.AddressList = append(b.AddressList, vf32AddrBytes(a))
				}
				return &ctl.DropObjectsRequest{Body: b}
			}
		}
		a1, ok1 := w.take()
		a2, ok2 := w.take()
		a3, ok3 := w.take()
		if !ok1 || !ok2 || !ok3 {
			return nil, errors.New("object pool exhausted")
		}
		w.pool = append(w.pool, a3) // the alternative body is never executed
		vs := []vf32Variant{{name: "one", mk: mkBody(a1), alt: mkBody(a3), prepare: w.allRW, wantEffect: true}}
		if rng.IntN(2) == 0 {
			vs = append(vs, vf32Variant{name: "two", mk: mkBody(a2, a1), alt: mkBody(a2), prepare: w.allRW, wantEffect: true})
		} else {
			w.pool = append(w.pool, a2)
		}
		return vs, nil
	},
	"SetShardMode": func(w *vf32World, rng *rand.Rand) ([]vf32Variant, error) {
		mkBody := func(m ctl.ShardMode, reset bool, sis ...int) func() vf32Msg {
			return func() vf32Msg {
				b := &ctl.SetShardModeRequest_Body{Mode: m, ResetErrorCounter: reset}
				for _, si := range sis {
					b.Shard_ID = append(b.Shard_ID, w.shards[si].id.Bytes())
				}
				return &ctl.SetShardModeRequest{Body: b}
			}
		}
		si := rng.IntN(len(w.shards))
		m := vf32ShardModes[rng.IntN(len(vf32ShardModes))]
		m2 := vf32ShardModes[rng.IntN(len(vf32ShardModes))]
		vs := []vf32Variant{{name: fmt.Sprintf("one-shard,%s", m), mk: mkBody(m, rng.IntN(2) == 0, si), alt: mkBody(m2, false, (si+1)%len(w.shards)), prepare: w.allRW, wantEffect: true}}
		if rng.IntN(2) == 0 {
			vs = append(vs, vf32Variant{name: "all-shards,READ_ONLY", mk: mkBody(ctl.ShardMode_READ_ONLY, false), alt: mkBody(ctl.ShardMode_DEGRADED_READ_ONLY, false), prepare: w.allRW, wantEffect: true})
		}
		return vs, nil
	},
	"DumpShard": func(w *vf32World, rng *rand.Rand) ([]vf32Variant, error) {
		mkBody := func(si int, path string, ign bool) func() vf32Msg {
			return func() vf32Msg {
				return &ctl.DumpShardRequest{Body: &ctl.DumpShardRequest_Body{Shard_ID: w.shards[si].id.Bytes(), Filepath: path, IgnoreErrors: ign}}
			}
		}
		si := rng.IntN(len(w.shards))
		w.nDump++
		fresh := filepath.Join(w.dumpDir, fmt.Sprintf("dump-%d.bin", w.nDump))
		sentinel := filepath.Join(w.dumpDir, fmt.Sprintf("precious-%d.bin", w.nDump))
		content := verifkit.RandBytes(rng, 64)
		prepRO := func() error { return w.only(si, mode.ReadOnly) }
		prepSentinel := func() error {
			if err := os.WriteFile(sentinel, content, 0o644); err != nil {
				return err
			}
			return w.only(si, mode.ReadOnly)
		}
		return []vf32Variant{
			{name: "new-file", mk: mkBody(si, fresh, rng.IntN(2) == 0), alt: mkBody((si+1)%len(w.shards), fresh+".alt", false), prepare: prepRO, wantEffect: true},
			{name: "existing-file", mk: mkBody(si, sentinel, false), alt: mkBody(si, fresh+".alt2", false), prepare: prepSentinel, wantEffect: true},
		}, nil
	},
	"RestoreShard": func(w *vf32World, rng *rand.Rand) ([]vf32Variant, error) {
		mkBody := func(si int, path string, ign bool) func() vf32Msg {
			return func() vf32Msg {
				return &ctl.RestoreShardRequest{Body: &ctl.RestoreShardRequest_Body{Shard_ID: w.shards[si].id.Bytes(), Filepath: path, IgnoreErrors: ign}}
			}
		}
		si := rng.IntN(len(w.shards))
		var paths []string
		for k := 0; k < 2; k++ {
			w.nDump++
			o1, o2 := w.newObj(rng), w.newObj(rng)
			w.watch = append(w.watch, verifkit.Addr(o1), verifkit.Addr(o2))
			p := filepath.Join(w.dumpDir, fmt.Sprintf("restore-%d.bin", w.nDump))
			if err := os.WriteFile(p, vf32Frame(o1, o2), 0o644); err != nil {
				return nil, err
			}
			paths = append(paths, p)
		}
		return []vf32Variant{{name: "two-new-objects", mk: mkBody(si, paths[0], rng.IntN(2) == 0), alt: mkBody((si+rng.IntN(2))%len(w.shards), paths[1], false), prepare: w.allRW, wantEffect: true}}, nil
	},
	"EvacuateShard": func(w *vf32World, rng *rand.Rand) ([]vf32Variant, error) {
		mkBody := func(ign bool, sis ...int) func() vf32Msg {
			return func() vf32Msg {
				b := &ctl.EvacuateShardRequest_Body{IgnoreErrors: ign}
				for _, si := range sis {
					b.Shard_ID = append(b.Shard_ID, w.shards[si].id.Bytes())
				}
				return &ctl.EvacuateShardRequest{Body: b}
			}
		}
		si := rng.IntN(len(w.shards))
		// two objects that only shard si holds
		for k := 0; k < 2; k++ {
			if _, err := w.put(rng, si); err != nil {
				return nil, err
			}
		}
		allRO := func() error {
			for i := range w.shards {
				if err := w.setMode(i, mode.ReadOnly); err != nil {
					return err
				}
			}
			return nil
		}
		sj := (si + 1) % len(w.shards)
		if _, err := w.put(rng, sj); err != nil {
			return nil, err
		}
		return []vf32Variant{
			// no writable shard left: the engine falls back to the server's replicate handler (placement + replicator)
			{name: "no-spare-shard", mk: mkBody(false, sj), alt: mkBody(true, si), prepare: allRO},
			{name: "to-other-shards", mk: mkBody(rng.IntN(2) == 0, si), alt: mkBody(false, sj), prepare: func() error { return w.only(si, mode.ReadOnly) }, wantEffect: true},
		}, nil
	},
	"FlushCache": func(w *vf32World, rng *rand.Rand) ([]vf32Variant, error) {
		mkBody := func(sis ...int) func() vf32Msg {
			return func() vf32Msg {
				b := &ctl.FlushCacheRequest_Body{}
				for _, si := range sis {
					b.Shard_ID = append(b.Shard_ID, w.shards[si].id.Bytes())
				}
				return &ctl.FlushCacheRequest{Body: b}
			}
		}
		si := rng.IntN(2) // shards 0 and 1 have a write-cache
		if _, err := w.put(rng, si); err != nil {
			return nil, err
		}
		if _, err := w.put(rng, 1-si); err != nil {
			return nil, err
		}
		return []vf32Variant{{name: "one-shard", mk: mkBody(si), alt: mkBody(1 - si), prepare: w.allRW, wantEffect: true}}, nil
	},
	"ObjectStatus": func(w *vf32World, rng *rand.Rand) ([]vf32Variant, error) {
		mkBody := func(a oid.Address) func() vf32Msg {
			return func() vf32Msg {
				return &ctl.ObjectStatusRequest{Body: &ctl.ObjectStatusRequest_Body{ObjectAddress: a.EncodeToString()}}
			}
		}
		if len(w.pool) < 2 {
			return nil, errors.New("object pool exhausted")
		}
		return []vf32Variant{{name: "stored-object", mk: mkBody(w.pool[0]), alt: mkBody(w.pool[1])}}, nil
	},
	"ReviveObject": func(w *vf32World, rng *rand.Rand) ([]vf32Variant, error) {
		mkBody := func(a oid.Address) func() vf32Msg {
			return func() vf32Msg {
				return &ctl.ReviveObjectRequest{Body: &ctl.ReviveObjectRequest_Body{ObjectAddress: vf32AddrBytes(a)}}
			}
		}
		a1, ok1 := w.take()
		a2, ok2 := w.take()
		if !ok1 || !ok2 {
			return nil, errors.New("object pool exhausted")
		}
		if err := w.allRW(); err != nil {
			return nil, err
		}
		for _, a := range []oid.Address{a1, a2} {
			if err := w.e.Delete(context.Background(), a, engine.GarbageMarkDefault); err != nil {
				return nil, err
			}
		}
		return []vf32Variant{{name: "garbage-marked", mk: mkBody(a1), alt: mkBody(a2), prepare: w.allRW, wantEffect: true}}, nil
	},
}

var vf32NegModes = []string{
	"nosig", "emptysig", "wrongkey", "keysubst", "bodyswap", "bodyext", "sigflip", "sigtrunc", "sigempty",
	"sigzero", "wholereq", "crossempty", "garbagekey", "otheradmins", "strangerkey+adminsig", "unready+wrongkey", "unready+nosig",
	// credentials of requests this server instance has already been sent under a correct
	// signature, attached to the current (different) body: the first one of the round (the
	// monitoring health check), the latest one, a random one
	"replay-first", "replay-last", "replay-any",
}

// vf32AfterSuffix marks a mode that is run on a body right after that body was accepted under a
// correct signature; vf32AfterModes are the stateless modes repeated there (a seeded subset).
const vf32AfterSuffix = "@after-accept"

var vf32AfterModes = []string{"nosig", "wrongkey", "keysubst", "sigflip", "bodyswap", "bodyext", "crossempty", "strangerkey+adminsig", "sigzero"}

// vf32BodyField is the body sub-message field of a request message (nil: the request type has none).
func vf32BodyField(m vf32Msg) protoreflect.FieldDescriptor {
	fd := m.ProtoReflect().Descriptor().Fields().ByName("body")
	if fd == nil || fd.Message() == nil || fd.IsList() || fd.IsMap() {
		return nil
	}
	return fd
}

// vf32Body returns the bytes of the body the request carries: the standard (deterministic)
// protobuf encoding of its body field, produced by the reflection-based codec - independent of
// the repository's generated StableMarshal/ReadSignedData, whose output is what the server
// verifies signatures over and therefore belongs to the code under test.
func vf32Body(m vf32Msg) []byte {
	fd := vf32BodyField(m)
	if fd == nil || !m.ProtoReflect().Has(fd) {
		return nil
	}
	b, err := proto.MarshalOptions{Deterministic: true}.Marshal(m.ProtoReflect().Get(fd).Message().Interface())
	if err != nil {
		panic("vf32: marshal body: " + err.Error())
	}
	return b
}

// vf32BodyFields names the fields of the request's body message (from the message descriptor, so
// that a field added later is covered without touching the harness).
func vf32BodyFields(m vf32Msg) []string {
	fd := vf32BodyField(m)
	if fd == nil {
		return nil
	}
	var out []string
	fs := fd.Message().Fields()
	for i := 0; i < fs.Len(); i++ {
		if !fs.Get(i).IsMap() {
			out = append(out, string(fs.Get(i).Name()))
		}
	}
	return out
}

// vf32Changed returns a value of the field's scalar kind that differs from cur.
func vf32Changed(fd protoreflect.FieldDescriptor, cur protoreflect.Value, rng *rand.Rand) (protoreflect.Value, bool) {
	switch fd.Kind() {
	case protoreflect.BoolKind:
		return protoreflect.ValueOfBool(!cur.Bool()), true
	case protoreflect.EnumKind:
		vals := fd.Enum().Values()
		for i, o := 0, rng.IntN(vals.Len()); i < vals.Len(); i++ {
			if n := vals.Get((i + o) % vals.Len()).Number(); n != cur.Enum() {
				return protoreflect.ValueOfEnum(n), true
			}
		}
		return protoreflect.ValueOfEnum(cur.Enum() + 1), true
	case protoreflect.StringKind:
		return protoreflect.ValueOfString(cur.String() + "~"), true
	case protoreflect.BytesKind:
		b := bytes.Clone(cur.Bytes())
		if len(b) == 0 {
			b = verifkit.RandBytes(rng, 8)
		} else {
			b[rng.IntN(len(b))] ^= 1 << rng.IntN(8)
		}
		return protoreflect.ValueOfBytes(b), true
	case protoreflect.Int32Kind, protoreflect.Sint32Kind, protoreflect.Sfixed32Kind:
		return protoreflect.ValueOfInt32(int32(cur.Int()) + 1), true
	case protoreflect.Int64Kind, protoreflect.Sint64Kind, protoreflect.Sfixed64Kind:
		return protoreflect.ValueOfInt64(cur.Int() + 1), true
	case protoreflect.Uint32Kind, protoreflect.Fixed32Kind:
		return protoreflect.ValueOfUint32(uint32(cur.Uint()) + 1), true
	case protoreflect.Uint64Kind, protoreflect.Fixed64Kind:
		return protoreflect.ValueOfUint64(cur.Uint() + 1), true
	case protoreflect.FloatKind:
		return protoreflect.ValueOfFloat32(float32(cur.Float()) + 1), true
	case protoreflect.DoubleKind:
		return protoreflect.ValueOfFloat64(cur.Float() + 1), true
	}
	return protoreflect.Value{}, false
}

// vf32Tamper changes exactly one field of the request's body in place (singular: another value /
// set <-> unset; repeated: an element appended, altered or removed); ok=false when the carried
// body bytes did not change.
func vf32Tamper(m vf32Msg, field string, rng *rand.Rand) bool {
	bf := vf32BodyField(m)
	if bf == nil {
		return false
	}
	before := vf32Body(m)
	// work on a deep copy: the drivers' body constructors may share slices between the messages they return
	m.ProtoReflect().Set(bf, protoreflect.ValueOfMessage(proto.Clone(m.ProtoReflect().Mutable(bf).Message().Interface()).ProtoReflect()))
	body := m.ProtoReflect().Mutable(bf).Message()
	fd := body.Descriptor().Fields().ByName(protoreflect.Name(field))
	switch {
	case fd == nil || fd.IsMap():
		return false
	case fd.IsList():
		l := body.Mutable(fd).List()
		isMsg := fd.Kind() == protoreflect.MessageKind || fd.Kind() == protoreflect.GroupKind
		op := rng.IntN(3)
		if l.Len() == 0 || (isMsg && op == 1) {
			op = 0
		}
		switch op {
		case 0: // one more element
			if isMsg {
				l.Append(l.NewElement())
				break
			}
			cur := l.NewElement()
			if l.Len() > 0 {
				cur = l.Get(rng.IntN(l.Len()))
			}
			nv, ok := vf32Changed(fd, cur, rng)
			if !ok {
				return false
			}
			l.Append(nv)
		case 1: // one element altered
			i := rng.IntN(l.Len())
			nv, ok := vf32Changed(fd, l.Get(i), rng)
			if !ok {
				return false
			}
			l.Set(i, nv)
		case 2: // one element removed
			i := rng.IntN(l.Len())
			for ; i+1 < l.Len(); i++ {
				l.Set(i, l.Get(i+1))
			}
			l.Truncate(l.Len() - 1)
		}
	case fd.Kind() == protoreflect.MessageKind || fd.Kind() == protoreflect.GroupKind:
		if body.Has(fd) {
			body.Clear(fd)
		} else {
			body.Mutable(fd)
		}
	default:
		nv, ok := vf32Changed(fd, body.Get(fd), rng)
		if !ok {
			return false
		}
		body.Set(fd, nv)
	}
	return !bytes.Equal(before, vf32Body(m))
}

// vf32Forge builds the request of one credential mode; ok=false when the mode does not apply.
func vf32Forge(mode string, v vf32Variant, w *vf32World, rng *rand.Rand) (vf32Msg, bool) {
	mode = strings.TrimSuffix(mode, vf32AfterSuffix)
	m := v.mk()
	admin := w.admins[rng.IntN(len(w.admins))]
	body := vf32Body(m)
	set := func(key, sig []byte) { m.SetSignature(&ctl.Signature{Key: key, Sign: sig}) }
	// replay attaches an earlier authorised request's credential to the message as it is
	replay := func(c vf32Cred) {
		w.replaySrc = c.rpc
		set(bytes.Clone(c.key), bytes.Clone(c.sig))
	}
	// earlier credentials that were given for other body bytes than the current ones
	foreign := func() []vf32Cred {
		var l []vf32Cred
		for _, c := range w.accepted {
			if !bytes.Equal(c.body, body) {
				l = append(l, c)
			}
		}
		return l
	}
	if f, ok := strings.CutPrefix(mode, "tamper:"); ok { // an administrator signs the body as generated; afterwards one field of it is changed
		s := vf32Sign(admin, body)
		if !vf32Tamper(m, f, rng) {
			return nil, false
		}
		set(vf32Pub(admin), s)
		return m, true
	}
	if f, ok := strings.CutPrefix(mode, "tamper-back:"); ok { // signed with one field different, sent as generated (the effective body)
		t := v.mk()
		if !vf32Tamper(t, f, rng) {
			return nil, false
		}
		set(vf32Pub(admin), vf32Sign(admin, vf32Body(t)))
		return m, true
	}
	switch mode {
	case "replay-own-tamper": // the credential this body has just been accepted with, on the same body with one seeded field changed
		fs := vf32BodyFields(m)
		if len(fs) == 0 || len(w.accepted) == 0 {
			return nil, false
		}
		c := w.accepted[len(w.accepted)-1]
		if !bytes.Equal(c.body, body) || !vf32Tamper(m, fs[rng.IntN(len(fs))], rng) {
			return nil, false
		}
		replay(c)
	case "replay-first": // the very first credential the server accepted (the monitoring health check)
		if len(w.accepted) == 0 || bytes.Equal(w.accepted[0].body, body) {
			return nil, false
		}
		replay(w.accepted[0])
	case "replay-last":
		l := foreign()
		if len(l) == 0 {
			return nil, false
		}
		replay(l[len(l)-1])
	case "replay-any":
		l := foreign()
		if len(l) == 0 {
			return nil, false
		}
		replay(l[rng.IntN(len(l))])
	case "replay-own": // the credential this body has just been accepted with, on the alternative body of the same RPC
		if v.alt == nil || len(w.accepted) == 0 {
			return nil, false
		}
		c := w.accepted[len(w.accepted)-1]
		m = v.alt()
		if !bytes.Equal(c.body, body) || bytes.Equal(c.body, vf32Body(m)) {
			return nil, false
		}
		replay(c)
	case "valid", "otheradmins":
		set(vf32Pub(admin), vf32Sign(admin, body))
	case "nosig", "unready+nosig":
	case "emptysig":
		m.SetSignature(&ctl.Signature{})
	case "wrongkey", "unready+wrongkey":
		set(vf32Pub(w.stranger), vf32Sign(w.stranger, body))
	case "keysubst":
		set(vf32Pub(admin), vf32Sign(w.stranger, body))
	case "strangerkey+adminsig":
		set(vf32Pub(w.stranger), vf32Sign(admin, body))
	case "bodyswap":
		if v.alt == nil {
			return nil, false
		}
		set(vf32Pub(admin), vf32Sign(admin, vf32Body(v.alt())))
	case "bodyext":
		set(vf32Pub(admin), vf32Sign(admin, append(bytes.Clone(body), 0)))
	case "sigflip":
		s := vf32Sign(admin, body)
		s[1+rng.IntN(64)] ^= 1 << rng.IntN(8)
		set(vf32Pub(admin), s)
	case "sigtrunc":
		s := vf32Sign(admin, body)
		set(vf32Pub(admin), s[:len(s)-1-rng.IntN(3)])
	case "sigempty":
		set(vf32Pub(admin), nil)
	case "sigzero":
		s := make([]byte, 65)
		s[0] = 4
		set(vf32Pub(admin), s)
	case "wholereq":
		whole, err := proto.Marshal(m)
		if err != nil {
			panic(err)
		}
		set(vf32Pub(admin), vf32Sign(admin, whole))
	case "crossempty": // an administrator's signature of an empty body (e.g. a health check) replayed on this body
		if len(body) == 0 {
			return nil, false
		}
		set(vf32Pub(admin), vf32Sign(admin, nil))
	case "garbagekey":
		if len(w.garbage) == 0 {
			return nil, false
		}
		set(w.garbage[rng.IntN(len(w.garbage))], verifkit.RandBytes(rng, 65))
	default:
		panic("vf32: unknown mode " + mode)
	}
	return m, true
}

// ---- inventory and invocation ---------------------------------------------------------------

type vf32RPC struct {
	name   string
	unary  *grpc.MethodDesc
	stream *grpc.StreamDesc
}

func vf32Inventory(r *verifkit.Run) []vf32RPC {
	desc := ctl.ControlService_ServiceDesc
	names := map[string]bool{}
	var out []vf32RPC
	for i := range desc.Methods {
		m := &desc.Methods[i]
		names[m.MethodName] = true
		out = append(out, vf32RPC{name: m.MethodName, unary: m})
	}
	for i := range desc.Streams {
		s := &desc.Streams[i]
		names[s.StreamName] = true
		if s.ClientStreams {
			r.Inconclusive("control RPC " + s.StreamName + " is client-streaming: unknown shape to the C32 harness")
			continue
		}
		out = append(out, vf32RPC{name: s.StreamName, stream: s})
	}
	for _, rpc := range out {
		if _, ok := vf32Drivers[rpc.name]; !ok {
			r.Inconclusive("control RPC " + rpc.name + " has no driver in the C32 harness: cannot claim that every method checks the signature")
		}
		r.Seen("node_rpc_inventory", rpc.name)
	}
	it := reflect.TypeOf((*ctl.ControlServiceServer)(nil)).Elem()
	for i := 0; i < it.NumMethod(); i++ {
		if n := it.Method(i).Name; it.Method(i).IsExported() && !names[n] {
			r.Inconclusive("method " + n + " of the generated ControlServiceServer interface is not in the service descriptor")
		}
	}
	for n := range vf32Drivers {
		if !names[n] {
			r.Inconclusive("control RPC " + n + " known to the harness disappeared from the generated service")
		}
	}
	// exported methods of *Server that take a signed request but are not RPCs
	st := reflect.TypeOf(&Server{})
	for i := 0; i < st.NumMethod(); i++ {
		m := st.Method(i)
		if names[m.Name] {
			continue
		}
		for j := 1; j < m.Type.NumIn(); j++ {
			if _, ok := m.Type.In(j).MethodByName("GetSignature"); ok {
				r.Inconclusive("exported Server method " + m.Name + " takes a signed message but is unknown to the C32 harness")
			}
		}
	}
	sort.Slice(out, func(i, j int) bool { return out[i].name < out[j].name })
	return out
}

type vf32Stream struct {
	wire []byte
	sent []any
}

func (s *vf32Stream) SetHeader(metadata.MD) error  { return nil }
func (s *vf32Stream) SendHeader(metadata.MD) error { return nil }
func (s *vf32Stream) SetTrailer(metadata.MD)       {}
func (s *vf32Stream) Context() context.Context     { return context.Background() }
func (s *vf32Stream) SendMsg(m any) error          { s.sent = append(s.sent, m); return nil }
func (s *vf32Stream) RecvMsg(m any) error          { return proto.Unmarshal(s.wire, m.(proto.Message)) }

// call hands the wire bytes to the generated handler; responded = a response object or a
// streamed message came back.
func (rpc vf32RPC) call(srv *Server, wire []byte) (responded bool, err error) {
	if rpc.unary != nil {
		resp, err := rpc.unary.Handler(srv, context.Background(), func(m any) error { return proto.Unmarshal(wire, m.(proto.Message)) }, nil)
		return !vf32IsNil(resp), err
	}
	st := &vf32Stream{wire: wire}
	err = rpc.stream.Handler(srv, st)
	return len(st.sent) > 0, err
}

// requestType asks the generated handler which message it decodes.
func (rpc vf32RPC) requestType() (t reflect.Type) {
	stop := errors.New("vf32: type probe")
	defer func() { _ = recover() }()
	if rpc.unary != nil {
		_, _ = rpc.unary.Handler(nil, context.Background(), func(m any) error { t = reflect.TypeOf(m); return stop }, nil)
		return t
	}
	_ = rpc.stream.Handler(nil, vf32TypeProbe{&t, stop})
	return t
}

type vf32TypeProbe struct {
	t    *reflect.Type
	stop error
}

func (s vf32TypeProbe) SetHeader(metadata.MD) error  { return nil }
func (s vf32TypeProbe) SendHeader(metadata.MD) error { return nil }
func (s vf32TypeProbe) SetTrailer(metadata.MD)       {}
func (s vf32TypeProbe) Context() context.Context     { return context.Background() }
func (s vf32TypeProbe) SendMsg(any) error            { return nil }
func (s vf32TypeProbe) RecvMsg(m any) error          { *s.t = reflect.TypeOf(m); return s.stop }

func vf32IsNil(v any) bool {
	if v == nil {
		return true
	}
	rv := reflect.ValueOf(v)
	switch rv.Kind() {
	case reflect.Pointer, reflect.Interface, reflect.Map, reflect.Slice:
		return rv.IsNil()
	}
	return false
}

func vf32ErrClass(err error) string {
	s := err.Error()
	if i := strings.Index(s, "desc = "); i >= 0 {
		s = s[:i+7] + strings.SplitN(s[i+7:], ":", 2)[0]
	}
	if len(s) > 90 {
		s = s[:90]
	}
	return s
}

// ---- the check ------------------------------------------------------------------------------

var (
	vf32CtlMu      sync.Mutex
	vf32Effective  = map[string]int{} // RPC -> positive controls that were executed (and effective where an effect was planned)
	vf32GateFailed = map[string]int{} // RPC -> authorised requests that passed the gate and failed inside the engine
)

func TestVerif_C32_Node(t *testing.T) {
	r := verifkit.Start(t, "C32", "exploration")
	defer r.Finish()
	defer func() {
		vf32CtlMu.Lock()
		defer vf32CtlMu.Unlock()
		for name, n := range vf32GateFailed {
			if vf32Effective[name] == 0 {
				r.Inconclusive(fmt.Sprintf("%s: %d authorised requests failed inside the engine and none was executed: its rejection checks are vacuous", name, n))
			}
		}
	}()
	r.SetRule("storage-node control server: RPC inventory from the generated gRPC service descriptor (unary and streaming) + server interface (reflection); per round a fresh world (real engine, 3 temp shards, 2 with write-cache, ~15 objects; real placement service and replicator over recording sources; recording NodeState/HealthChecker) and a Server with 1-3 seeded administrator keys (sometimes plus non-key entries); every RPC (seeded order) x effective body variant x credential mode (no signature, empty signature, stranger key, admin key with stranger's signature, admin signature over another effective body / extended body / whole request / empty data, flipped / truncated / empty / zero signature, non-key list entry, valid signature by administrators of another server, server not yet ready, credential of an earlier authorised request of this server instance - first (a priming health check) / latest / random / the one this body was just accepted with - replayed on this or the alternative body, stateless modes repeated right after the body was accepted, every single field of the body message (from its descriptor) changed after an administrator signed the body / the body sent as generated under a signature over the body with that field changed / the just accepted credential on the body with one field changed, correct) goes through the generated handler as wire bytes with a full world snapshot before and after; distinct = (RPC, body variant class, mode, number of admin keys); non-trivial = the same body was then executed under a correct signature and showed its effect")
	r.Assume("the engine, placement service and replicator are real; container/netmap sources, NodeState and HealthChecker are recording fakes; the write-cache flush scheduler is parked at hook writecache.sched.handoff and the GC remover interval is 24h so that only requests change the world")
	r.Assume("the node's own response-signing key is not used as a credential (cmd/neofs-node passes it as an authorised key by configuration)")

	hooks := verifkit.InstallHooks()
	defer hooks.Uninstall()
	hooks.OnPoint(func(name string, _ int) {
		if name == "writecache.sched.handoff" {
			if ch := vf32Park.Load(); ch != nil {
				vf32Parked.Add(1)
				<-*ch
			}
		}
	})

	inv := vf32Inventory(r)
	for _, rpc := range inv {
		if rt := rpc.requestType(); rt != nil {
			r.Seen("node_request_types", rpc.name+":"+rt.String())
		} else {
			r.Inconclusive("request type of RPC " + rpc.name + " could not be determined")
		}
	}

	rounds := r.Pick(3, 40)
	for round := 0; round < rounds; round++ {
		rng := r.Rand("node-round", round)
		w, err := vf32NewWorld(r, t, rng, round)
		if err != nil {
			r.Inconclusive("harness: world construction failed: " + err.Error())
			return
		}
		vf32Round(r, w, inv, rng, round)
		if hooks.Counts()["writecache.worker.got"] > 0 {
			r.Inconclusive("the write-cache background flush ran although its scheduler should be parked: snapshots are not attributable")
		}
		w.close()
		hooks.Reset() // the released scheduler of the closed world may have handed its batch over
		if r.Violations() > 20 {
			break
		}
	}
	r.Count("node_wc_scheduler_parked", int(vf32Parked.Load()))
	if r.Counter("node_authorised_effective") == 0 {
		r.Inconclusive("no positive control showed an effect")
	}
	if r.Counter("node_single_field_tamper_calls") == 0 {
		r.Inconclusive("no request with a single body field changed after/before signing was executed: the corrupted-body part of the check is vacuous")
	}
	if r.Counter("node_replayed_credential_calls_cross_rpc") == 0 || r.Counter("node_unauthorised_calls_right_after_accept_of_same_body") == 0 {
		r.Inconclusive("no credential of an earlier authorised request was replayed on another RPC, or no unauthorised request followed the acceptance of its body: the history-dependent part of the check is vacuous")
	}
}

// vf32Prime sends the correctly signed health check a monitoring tool sends before anything
// else happens on a server: from then on the server under test has accepted a credential that
// the replay modes can attach to other requests.
func vf32Prime(r *verifkit.Run, w *vf32World, inv []vf32RPC, rng *rand.Rand) {
	for _, rpc := range inv {
		if rpc.name != "HealthCheck" || rpc.unary == nil {
			continue
		}
		req := &ctl.HealthCheckRequest{Body: new(ctl.HealthCheckRequest_Body)}
		admin := w.admins[rng.IntN(len(w.admins))]
		body := vf32Body(req)
		req.SetSignature(&ctl.Signature{Key: vf32Pub(admin), Sign: vf32Sign(admin, body)})
		if !vf32RefAuthorised(w.adminSet, req.GetSignature().GetKey(), req.GetSignature().GetSign(), body) {
			r.Inconclusive("harness: the priming health check is not authorised by the reference")
			return
		}
		wire, err := proto.Marshal(req)
		if err != nil {
			r.Inconclusive("harness: marshal priming health check: " + err.Error())
			return
		}
		var responded bool
		var callErr error
		if r.Guard(map[string]any{"server": "node", "rpc": rpc.name, "mode": "priming health check", "wire": hex.EncodeToString(wire)}, func() { responded, callErr = rpc.call(w.srv, wire) }) {
			return
		}
		r.Eval(1)
		if callErr != nil || !responded {
			r.Inconclusive(fmt.Sprintf("the correctly signed priming health check was not served (%v): replay modes would start without an accepted credential", callErr))
			return
		}
		w.accepted = append(w.accepted, vf32Cred{rpc: rpc.name, key: req.GetSignature().GetKey(), sig: req.GetSignature().GetSign(), body: body})
		r.Count("node_priming_health_checks_served", 1)
		return
	}
	r.Count("node_rounds_without_priming_health_check", 1)
}

func vf32Round(r *verifkit.Run, w *vf32World, inv []vf32RPC, rng *rand.Rand, round int) {
	vf32Prime(r, w, inv, rng)
	for _, mi := range rng.Perm(len(inv)) {
		rpc := inv[mi]
		drv, ok := vf32Drivers[rpc.name]
		if !ok {
			vf32ProbeUnknown(r, w, rpc, round)
			continue
		}
		variants, err := drv(w, rng)
		if err != nil {
			r.Inconclusive("harness: building bodies for " + rpc.name + ": " + err.Error())
			continue
		}
		for _, v := range variants {
			modes := append([]string(nil), vf32NegModes...)
			// "valid key, corrupted body", field by field: every field of the body message is
			// changed after signing (tamper) and before signing (tamper-back, the body as generated is sent)
			for _, f := range vf32BodyFields(v.mk()) {
				modes = append(modes, "tamper:"+f, "tamper-back:"+f)
			}
			rng.Shuffle(len(modes), func(i, j int) { modes[i], modes[j] = modes[j], modes[i] })
			// positive control, then: its credential on the alternative body and on the same body
			// with one field changed, and a seeded subset of the stateless modes again on the
			// body that has just been accepted
			modes = append(modes, "valid", "replay-own", "replay-own-tamper")
			for _, i := range rng.Perm(len(vf32AfterModes))[:2] {
				modes = append(modes, vf32AfterModes[i]+vf32AfterSuffix)
			}
			var pending []string
			controlled := false // the positive control of this body has been run and showed its effect
			for _, md := range modes {
				w.replaySrc = ""
				req, ok := vf32Forge(md, v, w, rng)
				if !ok {
					r.Count("node_mode_not_applicable", 1)
					continue
				}
				target, admins := w.srv, w.adminSet
				switch {
				case md == "otheradmins":
					target, admins = w.other, w.otherSet
				case strings.HasPrefix(md, "unready+"):
					target = w.unready
				}
				sig := req.GetSignature()
				authorised := sig != nil && vf32RefAuthorised(admins, sig.GetKey(), sig.GetSign(), vf32Body(req))
				if authorised != (md == "valid") {
					r.Count("node_mode_label_mismatch", 1)
					if md == "valid" {
						r.Inconclusive("harness: correctly signed request is not authorised by the reference")
					}
					continue
				}
				wire, err := proto.Marshal(req)
				if err != nil {
					r.Inconclusive("harness: marshal request: " + err.Error())
					continue
				}
				// observation only (no verdict): does the repository's signed-data serialisation of
				// this request equal the body bytes it carries?
				if sd, err := req.ReadSignedData(nil); err != nil || !bytes.Equal(sd, vf32Body(req)) {
					r.Count("node_requests_whose_ReadSignedData_differs_from_carried_body", 1)
					r.Seen("node_rpcs_whose_ReadSignedData_differs_from_carried_body", rpc.name)
				}
				if v.prepare != nil {
					if err := v.prepare(); err != nil {
						r.Inconclusive(fmt.Sprintf("harness: preparing the world for %s/%s: %v", rpc.name, v.name, err))
						break
					}
				}
				desc := map[string]any{"server": "node", "round": round, "rpc": rpc.name, "variant": v.name, "mode": md, "admins": len(w.admins), "garbage_entries": len(w.garbage), "wire": hex.EncodeToString(wire), "authorised_requests_served_before": len(w.accepted)}
				if w.replaySrc != "" {
					desc["credential_replayed_from"] = w.replaySrc
				}
				before := w.snapshot()
				m0, r0 := w.rec.marks()
				var responded bool
				var callErr error
				if r.Guard(desc, func() { responded, callErr = rpc.call(target, wire) }) {
					continue
				}
				muts, reads := w.rec.since(m0, r0)
				after := w.snapshot()
				diff := vf32Diff(before, after)
				r.Eval(1)
				key := "C32|node|" + rpc.name + "|" + md
				if authorised {
					r.Count("node_authorised_calls", 1)
					if target == w.srv { // whatever the outcome: the server has seen this credential under a correct signature
						w.accepted = append(w.accepted, vf32Cred{rpc: rpc.name, key: bytes.Clone(sig.GetKey()), sig: bytes.Clone(sig.GetSign()), body: vf32Body(req)})
					}
					executed := (callErr == nil && responded) || len(diff) > 0 || len(muts) > 0 || len(reads) > 0
					// The authorised request passed the signature gate and failed inside the real engine
					// before anything observable happened (seen once in a thorough run: EvacuateShard met an
					// object of this world that the shard could not read).  That says nothing about the
					// property; the body's negative cases were judged on their own (rejected, no effect).  It
					// is counted, and the per-RPC guard below still demands an effective control for every RPC.
					if callErr != nil && len(diff) == 0 && len(muts) == 0 && strings.Contains(callErr.Error(), "code = Internal") {
						r.Count("node_authorised_passed_gate_but_engine_failed", 1)
						vf32CtlMu.Lock()
						vf32GateFailed[rpc.name]++
						vf32CtlMu.Unlock()
						r.Seen("node_authorised_engine_failures", rpc.name+": "+vf32ErrClass(callErr))
						continue
					}
					if !executed {
						r.Inconclusive(fmt.Sprintf("positive control failed: correctly signed %s (%s) was not executed: %v", rpc.name, v.name, callErr))
						continue
					}
					if v.wantEffect && len(diff) == 0 && len(muts) == 0 {
						r.Inconclusive(fmt.Sprintf("positive control of %s (%s) had no observable effect (err=%v): the no-side-effect checks of this body are vacuous", rpc.name, v.name, callErr))
						continue
					}
					r.Count("node_authorised_executed", 1)
					if v.wantEffect {
						r.Count("node_authorised_effective", 1)
						r.Seen("node_effect_kinds", rpc.name+":"+vf32DiffKind(diff)+map[bool]string{true: "+dependency", false: ""}[len(muts) > 0])
					}
					r.Seen("node_rpcs_with_positive_control", rpc.name)
					vf32CtlMu.Lock()
					vf32Effective[rpc.name]++
					vf32CtlMu.Unlock()
					if callErr != nil {
						r.Seen("node_authorised_errors", rpc.name+": "+vf32ErrClass(callErr))
					}
					if len(reads) > 0 || len(muts) > 0 {
						dc := map[string]bool{}
						for _, c := range append(reads, muts...) {
							dc[strings.SplitN(c, "(", 2)[0]] = true
						}
						for c := range dc {
							r.Seen("node_dependencies_reached", rpc.name+"/"+strings.SplitN(v.name, ",", 2)[0]+":"+c)
						}
					}
					for _, p := range pending {
						r.Distinct(p)
					}
					pending, controlled = nil, true
					if round == 0 {
						d := diff
						if len(d) > 4 {
							d = d[:4]
						}
						r.Sample(map[string]any{"server": "node", "rpc": rpc.name, "variant": v.name, "mode": md, "error": fmt.Sprint(callErr), "state_changes": len(diff), "first_changes": d, "dependency_calls": append(muts, reads...)})
					}
					continue
				}
				r.Count("node_unauthorised_calls", 1)
				r.Seen("node_modes_exercised", md)
				bad := false
				if callErr == nil {
					bad = true
					r.Violation(key+"|accepted", fmt.Sprintf("node %s answered without error to a request that is not signed by a configured administrator key over its body (mode %s)", rpc.name, md), desc)
				} else {
					r.Seen("node_reject_errors", vf32ErrClass(callErr))
				}
				if responded {
					bad = true
					r.Violation(key+"|responded", fmt.Sprintf("node %s returned a response to an unauthorised request (mode %s)", rpc.name, md), desc)
				}
				if len(diff) > 0 {
					bad = true
					desc["state_changes"] = diff
					r.Violation(key+"|side-effect|"+vf32DiffKind(diff), fmt.Sprintf("node %s changed the node's state for an unauthorised request (mode %s): %v", rpc.name, md, diff), desc)
				}
				if len(muts) > 0 {
					bad = true
					desc["dependency_calls"] = muts
					r.Violation(key+"|side-effect|dependency", fmt.Sprintf("node %s performed %v for an unauthorised request (mode %s)", rpc.name, muts, md), desc)
				}
				if len(reads) > 0 {
					r.Count("node_unauthorised_calls_that_read_a_dependency", 1)
				}
				if w.replaySrc != "" {
					r.Count("node_replayed_credential_calls", 1)
					if w.replaySrc != rpc.name {
						r.Count("node_replayed_credential_calls_cross_rpc", 1)
					}
					r.Seen("node_replay_from_to", w.replaySrc+"->"+rpc.name)
				}
				if strings.HasSuffix(md, vf32AfterSuffix) {
					r.Count("node_unauthorised_calls_right_after_accept_of_same_body", 1)
				}
				if strings.Contains(md, "tamper") {
					r.Count("node_single_field_tamper_calls", 1)
					if i := strings.IndexByte(md, ':'); i >= 0 && strings.HasPrefix(md, "tamper") {
						r.Seen("node_body_fields_tampered", rpc.name+"."+md[i+1:])
					}
				}
				if !bad {
					r.Count("node_unauthorised_rejected_clean", 1)
					dk := fmt.Sprintf("node|%s|%s|%s|%d", rpc.name, strings.SplitN(v.name, ",", 2)[0], md, len(w.admins))
					if controlled {
						r.Distinct(dk)
					} else {
						pending = append(pending, dk)
					}
				}
			}
		}
	}
}

// vf32ProbeUnknown: an RPC without a driver (the run is already inconclusive) still gets
// unauthorised zero-value requests; answering them is a violation whatever the RPC does.
func vf32ProbeUnknown(r *verifkit.Run, w *vf32World, rpc vf32RPC, round int) {
	rt := rpc.requestType()
	if rt == nil || rt.Kind() != reflect.Pointer {
		return
	}
	for _, md := range []string{"nosig", "wrongkey"} {
		m, ok := reflect.New(rt.Elem()).Interface().(vf32Msg)
		if !ok {
			return
		}
		if md == "wrongkey" {
			m.SetSignature(&ctl.Signature{Key: vf32Pub(w.stranger), Sign: vf32Sign(w.stranger, vf32Body(m))})
		}
		wire, err := proto.Marshal(m)
		if err != nil {
			return
		}
		desc := map[string]any{"server": "node", "round": round, "rpc": rpc.name, "variant": "zero-value", "mode": md, "wire": hex.EncodeToString(wire)}
		before := w.snapshot()
		m0, r0 := w.rec.marks()
		var responded bool
		var callErr error
		if r.Guard(desc, func() { responded, callErr = rpc.call(w.srv, wire) }) {
			continue
		}
		muts, _ := w.rec.since(m0, r0)
		diff := vf32Diff(before, w.snapshot())
		r.Eval(1)
		r.Count("node_unknown_rpc_probes", 1)
		if callErr == nil || responded || len(diff) > 0 || len(muts) > 0 {
			r.Violation("C32|node|"+rpc.name+"|"+md+"|unknown-rpc-accepted", fmt.Sprintf("node RPC %s (no driver) executed an unauthorised zero-value request: err=%v responded=%v changes=%v calls=%v", rpc.name, callErr, responded, diff, muts), desc)
		}
	}
}
