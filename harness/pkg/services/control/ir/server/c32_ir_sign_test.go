//go:build verif

package control

// C32 (inner-ring leg): every call of the IR control service must be rejected with no side
// effect unless it carries a valid signature by one of the configured administrator keys over
// its body.
//
// The RPC inventory is taken from the generated gRPC service descriptor and, by reflection,
// from the generated server interface; a method the harness has no driver for makes the run
// inconclusive.  Each request is marshalled to the wire and handed to the *generated gRPC
// handler* of the descriptor (the code path a real connection takes), which decodes it and
// calls the real Server.  Dependencies (HealthChecker, NotaryManager) are recording fakes.
//
// Oracle (written from the statement, independent of sign.go and of the generated
// StableMarshal/ReadSignedData code; the body bytes are the standard protobuf encoding of the
// body field as the request carries it): a request is *authorised* iff
// its signature field names a key that is byte-equal to the compressed encoding of one of the
// administrator keys configured for the server it is sent to AND the signature verifies with
// the Go standard library (ECDSA P-256 over SHA-512 of the body bytes) under that key.
// Not authorised => the call must return an error, no response, and no mutating dependency
// call may be recorded.  Authorised (positive control) => the call must reach the dependency,
// otherwise the negative checks would be vacuous (inconclusive, not a violation).
//
// The statement holds for every call whatever the server has served before, so the harness
// keeps the credentials (key, signature, signed body) of every authorised request the server
// under test has already been sent - starting with a correctly signed health check at the
// beginning of the round - and *replays* them on other bodies and other RPCs (first / latest /
// random earlier credential; right after the positive control of a body, that very credential
// on the alternative body of the same RPC); a seeded subset of the stateless negative modes is
// repeated on the same body right after it was accepted.

import (
	"bytes"
	"context"
	"crypto/ecdsa"
	"crypto/elliptic"
	crand "crypto/rand"
	"crypto/sha512"
	"encoding/hex"
	"fmt"
	"math/big"
	"math/rand/v2"
	"reflect"
	"sort"
	"strings"
	"sync"
	"testing"

	"github.com/nspcc-dev/neo-go/pkg/crypto/keys"
	"github.com/nspcc-dev/neo-go/pkg/util"
	"github.com/nspcc-dev/neofs-node/internal/verifkit"
	irctl "github.com/nspcc-dev/neofs-node/pkg/services/control/ir"
	"google.golang.org/grpc"
	"google.golang.org/protobuf/proto"
	"google.golang.org/protobuf/reflect/protoreflect"
)

// ---- independent crypto helpers (standard library only) ---------------------------------

func vf32Key(rng *rand.Rand) *ecdsa.PrivateKey {
	for {
		k, err := keys.NewPrivateKeyFromBytes(verifkit.RandBytes(rng, 32))
		if err == nil {
			return &k.PrivateKey
		}
	}
}

func vf32Pub(k *ecdsa.PrivateKey) []byte {
	return elliptic.MarshalCompressed(elliptic.P256(), k.X, k.Y)
}

func vf32Sign(k *ecdsa.PrivateKey, data []byte) []byte {
	h := sha512.Sum512(data)
	r, s, err := ecdsa.Sign(crand.Reader, k, h[:])
	if err != nil {
		panic("vf32: ecdsa.Sign: " + err.Error())
	}
	out := make([]byte, 65)
	out[0] = 4
	r.FillBytes(out[1:33])
	s.FillBytes(out[33:65])
	return out
}

// vf32RefAuthorised is the reference acceptance condition of the statement.
func vf32RefAuthorised(admins [][]byte, key, sig, body []byte) bool {
	for _, a := range admins {
		if !bytes.Equal(a, key) {
			continue
		}
		x, y := elliptic.UnmarshalCompressed(elliptic.P256(), a)
		if x == nil || len(sig) != 65 {
			return false
		}
		h := sha512.Sum512(body)
		r, s := new(big.Int).SetBytes(sig[1:33]), new(big.Int).SetBytes(sig[33:65])
		return ecdsa.Verify(&ecdsa.PublicKey{Curve: elliptic.P256(), X: x, Y: y}, h[:], r, s)
	}
	return false
}

// ---- recording dependencies ---------------------------------------------------------------

type vf32Rec struct {
	mu    sync.Mutex
	muts  []string
	reads []string
}

func (x *vf32Rec) mut(s string)  { x.mu.Lock(); x.muts = append(x.muts, s); x.mu.Unlock() }
func (x *vf32Rec) read(s string) { x.mu.Lock(); x.reads = append(x.reads, s); x.mu.Unlock() }
func (x *vf32Rec) marks() (int, int) {
	x.mu.Lock()
	defer x.mu.Unlock()
	return len(x.muts), len(x.reads)
}
func (x *vf32Rec) since(m, rd int) ([]string, []string) {
	x.mu.Lock()
	defer x.mu.Unlock()
	return append([]string(nil), x.muts[m:]...), append([]string(nil), x.reads[rd:]...)
}

type vf32Health struct{ rec *vf32Rec }

func (h vf32Health) HealthStatus() irctl.HealthStatus {
	h.rec.read("health.HealthStatus")
	return irctl.HealthStatus_READY
}

type vf32Notary struct{ rec *vf32Rec }

func (n vf32Notary) ListNotaryRequests() ([]util.Uint256, error) {
	n.rec.read("notary.ListNotaryRequests")
	return []util.Uint256{{1, 2, 3}, {4, 5, 6}}, nil
}

func (n vf32Notary) RequestNotary(method string, args ...[]byte) (util.Uint256, error) {
	n.rec.mut(fmt.Sprintf("notary.RequestNotary(%s,%d args)", method, len(args)))
	return util.Uint256{9, 9, 9}, nil
}

func (n vf32Notary) SignNotary(hash util.Uint256) error {
	n.rec.mut("notary.SignNotary(" + hash.StringLE() + ")")
	return nil
}

// ---- requests -----------------------------------------------------------------------------

type vf32Msg interface {
	proto.Message
	ReadSignedData([]byte) ([]byte, error)
	GetSignature() *irctl.Signature
	SetSignature(*irctl.Signature)
}

type vf32Variant struct {
	name       string
	mk         func() vf32Msg // fresh unsigned request carrying the body
	alt        func() vf32Msg // a different, equally effective body of the same RPC (nil: the body is empty)
	wantEffect bool           // an executed request must be seen as a mutating dependency call
}

// drivers known to the harness: RPC name -> body variants.
var vf32Drivers = map[string]func(rng *rand.Rand) []vf32Variant{
	"HealthCheck": func(*rand.Rand) []vf32Variant {
		return []vf32Variant{{name: "empty", mk: func() vf32Msg { return &irctl.HealthCheckRequest{Body: new(irctl.HealthCheckRequest_Body)} }}}
	},
	"NotaryList": func(*rand.Rand) []vf32Variant {
		return []vf32Variant{{name: "empty", mk: func() vf32Msg { return &irctl.NotaryListRequest{Body: new(irctl.NotaryListRequest_Body)} }}}
	},
	"NotaryRequest": func(rng *rand.Rand) []vf32Variant {
		methods := []string{"removeNode", "newEpoch", "setConfig", "removeContainer", ""}
		mkBody := func(m string, args [][]byte) func() vf32Msg {
			return func() vf32Msg {
				return &irctl.NotaryRequestRequest{Body: &irctl.NotaryRequestRequest_Body{Method: m, Args: args}}
			}
		}
		var vs []vf32Variant
		for i := 0; i < 2; i++ {
			m1, m2 := methods[rng.IntN(len(methods))], methods[rng.IntN(len(methods))]
			var a1, a2 [][]byte
			for j := rng.IntN(3); j > 0; j-- {
				a1 = append(a1, verifkit.RandBytes(rng, 1+rng.IntN(40)))
			}
			a2 = append(a2, verifkit.RandBytes(rng, 33))
			vs = append(vs, vf32Variant{name: fmt.Sprintf("method=%q,args=%d", m1, len(a1)), mk: mkBody(m1, a1), alt: mkBody(m2, a2), wantEffect: true})
		}
		return vs
	},
	"NotarySign": func(rng *rand.Rand) []vf32Variant {
		mkBody := func(h []byte) func() vf32Msg {
			return func() vf32Msg { return &irctl.NotarySignRequest{Body: &irctl.NotarySignRequest_Body{Hash: h}} }
		}
		h1, h2 := verifkit.RandBytes(rng, 32), verifkit.RandBytes(rng, 32)
		return []vf32Variant{{name: "hash32", mk: mkBody(h1), alt: mkBody(h2), wantEffect: true}}
	},
}

var vf32NegModes = []string{
	"nosig", "emptysig", "wrongkey", "keysubst", "bodyswap", "bodyext", "sigflip", "sigtrunc", "sigempty",
	"sigzero", "wholereq", "crossempty", "garbagekey", "otheradmins", "strangerkey+adminsig",
	// credentials of requests this server instance has already been sent under a correct
	// signature, attached to the current (different) body: the first one of the round (the
	// monitoring health check), the latest one, a random one
	"replay-first", "replay-last", "replay-any",
}

// vf32AfterSuffix marks a mode that is run on a body right after that body was accepted under a
// correct signature; vf32AfterModes are the stateless modes repeated there (a seeded subset).
const vf32AfterSuffix = "@after-accept"

var vf32AfterModes = []string{"nosig", "wrongkey", "keysubst", "sigflip", "bodyswap", "bodyext", "crossempty", "strangerkey+adminsig", "sigzero"}

// vf32Cred is the credential of a request the reference judged authorised and that was sent to
// the server under test: replay material for later requests.
type vf32Cred struct {
	rpc            string
	key, sig, body []byte
}

type vf32Ctx struct {
	admins   []*ecdsa.PrivateKey // configured for the server under test
	garbage  [][]byte            // non-key entries of the configured list
	stranger *ecdsa.PrivateKey

	accepted  []vf32Cred // credentials of the authorised requests already sent to the server under test, oldest first
	replaySrc string     // RPC the credential replayed by the last vf32Forge call was accepted on
}

// vf32BodyField is the body sub-message field of a request message (nil: the request type has none).
func vf32BodyField(m vf32Msg) protoreflect.FieldDescriptor {
	fd := m.ProtoReflect().Descriptor().Fields().ByName("body")
	if fd == nil || fd.Message() == nil || fd.IsList() || fd.IsMap() {
		return nil
	}
	return fd
}

// vf32Body returns the bytes of the body the request carries: the standard (deterministic)
// protobuf encoding of its body field, produced by the reflection-based codec - independent of
// the repository's generated StableMarshal/ReadSignedData, whose output is what the server
// verifies signatures over and therefore belongs to the code under test.
func vf32Body(m vf32Msg) []byte {
	fd := vf32BodyField(m)
	if fd == nil || !m.ProtoReflect().Has(fd) {
		return nil
	}
	b, err := proto.MarshalOptions{Deterministic: true}.Marshal(m.ProtoReflect().Get(fd).Message().Interface())
	if err != nil {
		panic("vf32: marshal body: " + err.Error())
	}
	return b
}

// vf32BodyFields names the fields of the request's body message (from the message descriptor, so
// that a field added later is covered without touching the harness).
func vf32BodyFields(m vf32Msg) []string {
	fd := vf32BodyField(m)
	if fd == nil {
		return nil
	}
	var out []string
	fs := fd.Message().Fields()
	for i := 0; i < fs.Len(); i++ {
		if !fs.Get(i).IsMap() {
			out = append(out, string(fs.Get(i).Name()))
		}
	}
	return out
}

// vf32Changed returns a value of the field's scalar kind that differs from cur.
func vf32Changed(fd protoreflect.FieldDescriptor, cur protoreflect.Value, rng *rand.Rand) (protoreflect.Value, bool) {
	switch fd.Kind() {
	case protoreflect.BoolKind:
		return protoreflect.ValueOfBool(!cur.Bool()), true
	case protoreflect.EnumKind:
		vals := fd.Enum().Values()
		for i, o := 0, rng.IntN(vals.Len()); i < vals.Len(); i++ {
			if n := vals.Get((i + o) % vals.Len()).Number(); n != cur.Enum() {
				return protoreflect.ValueOfEnum(n), true
			}
		}
		return protoreflect.ValueOfEnum(cur.Enum() + 1), true
	case protoreflect.StringKind:
		return protoreflect.ValueOfString(cur.String() + "~"), true
	case protoreflect.BytesKind:
		b := bytes.Clone(cur.Bytes())
		if len(b) == 0 {
			b = verifkit.RandBytes(rng, 8)
		} else {
			b[rng.IntN(len(b))] ^= 1 << rng.IntN(8)
		}
		return protoreflect.ValueOfBytes(b), true
	case protoreflect.Int32Kind, protoreflect.Sint32Kind, protoreflect.Sfixed32Kind:
		return protoreflect.ValueOfInt32(int32(cur.Int()) + 1), true
	case protoreflect.Int64Kind, protoreflect.Sint64Kind, protoreflect.Sfixed64Kind:
		return protoreflect.ValueOfInt64(cur.Int() + 1), true
	case protoreflect.Uint32Kind, protoreflect.Fixed32Kind:
		return protoreflect.ValueOfUint32(uint32(cur.Uint()) + 1), true
	case protoreflect.Uint64Kind, protoreflect.Fixed64Kind:
		return protoreflect.ValueOfUint64(cur.Uint() + 1), true
	case protoreflect.FloatKind:
		return protoreflect.ValueOfFloat32(float32(cur.Float()) + 1), true
	case protoreflect.DoubleKind:
		return protoreflect.ValueOfFloat64(cur.Float() + 1), true
	}
	return protoreflect.Value{}, false
}

// vf32Tamper changes exactly one field of the request's body in place (singular: another value /
// set <-> unset; repeated: an element appended, altered or removed); ok=false when the carried
// body bytes did not change.
func vf32Tamper(m vf32Msg, field string, rng *rand.Rand) bool {
	bf := vf32BodyField(m)
	if bf == nil {
		return false
	}
	before := vf32Body(m)
	// work on a deep copy: the drivers' body constructors may share slices between the messages they return
	m.ProtoReflect().Set(bf, protoreflect.ValueOfMessage(proto.Clone(m.ProtoReflect().Mutable(bf).Message().Interface()).ProtoReflect()))
	body := m.ProtoReflect().Mutable(bf).Message()
	fd := body.Descriptor().Fields().ByName(protoreflect.Name(field))
	switch {
	case fd == nil || fd.IsMap():
		return false
	case fd.IsList():
		l := body.Mutable(fd).List()
		isMsg := fd.Kind() == protoreflect.MessageKind || fd.Kind() == protoreflect.GroupKind
		op := rng.IntN(3)
		if l.Len() == 0 || (isMsg && op == 1) {
			op = 0
		}
		switch op {
		case 0: // one more element
			if isMsg {
				l.Append(l.NewElement())
				break
			}
			cur := l.NewElement()
			if l.Len() > 0 {
				cur = l.Get(rng.IntN(l.Len()))
			}
			nv, ok := vf32Changed(fd, cur, rng)
			if !ok {
				return false
			}
			l.Append(nv)
		case 1: // one element altered
			i := rng.IntN(l.Len())
			nv, ok := vf32Changed(fd, l.Get(i), rng)
			if !ok {
				return false
			}
			l.Set(i, nv)
		case 2: // one element removed
			i := rng.IntN(l.Len())
			for ; i+1 < l.Len(); i++ {
				l.Set(i, l.Get(i+1))
			}
			l.Truncate(l.Len() - 1)
		}
	case fd.Kind() == protoreflect.MessageKind || fd.Kind() == protoreflect.GroupKind:
		if body.Has(fd) {
			body.Clear(fd)
		} else {
			body.Mutable(fd)
		}
	default:
		nv, ok := vf32Changed(fd, body.Get(fd), rng)
		if !ok {
			return false
		}
		body.Set(fd, nv)
	}
	return !bytes.Equal(before, vf32Body(m))
}

// vf32Forge builds the request of one credential mode; ok=false when the mode does not apply.
func vf32Forge(mode string, v vf32Variant, c *vf32Ctx, rng *rand.Rand) (vf32Msg, bool) {
	mode = strings.TrimSuffix(mode, vf32AfterSuffix)
	m := v.mk()
	admin := c.admins[rng.IntN(len(c.admins))]
	body := vf32Body(m)
	set := func(key, sig []byte) { m.SetSignature(&irctl.Signature{Key: key, Sign: sig}) }
	// replay attaches an earlier authorised request's credential to the message as it is
	replay := func(cr vf32Cred) {
		c.replaySrc = cr.rpc
		set(bytes.Clone(cr.key), bytes.Clone(cr.sig))
	}
	// earlier credentials that were given for other body bytes than the current ones
	foreign := func() []vf32Cred {
		var l []vf32Cred
		for _, cr := range c.accepted {
			if !bytes.Equal(cr.body, body) {
				l = append(l, cr)
			}
		}
		return l
	}
	if f, ok := strings.CutPrefix(mode, "tamper:"); ok { // an administrator signs the body as generated; afterwards one field of it is changed
		s := vf32Sign(admin, body)
		if !vf32Tamper(m, f, rng) {
			return nil, false
		}
		set(vf32Pub(admin), s)
		return m, true
	}
	if f, ok := strings.CutPrefix(mode, "tamper-back:"); ok { // signed with one field different, sent as generated (the effective body)
		t := v.mk()
		if !vf32Tamper(t, f, rng) {
			return nil, false
		}
		set(vf32Pub(admin), vf32Sign(admin, vf32Body(t)))
		return m, true
	}
	switch mode {
	case "replay-own-tamper": // the credential this body has just been accepted with, on the same body with one seeded field changed
		fs := vf32BodyFields(m)
		if len(fs) == 0 || len(c.accepted) == 0 {
			return nil, false
		}
		cr := c.accepted[len(c.accepted)-1]
		if !bytes.Equal(cr.body, body) || !vf32Tamper(m, fs[rng.IntN(len(fs))], rng) {
			return nil, false
		}
		replay(cr)
	case "replay-first": // the very first credential the server accepted (the monitoring health check)
		if len(c.accepted) == 0 || bytes.Equal(c.accepted[0].body, body) {
			return nil, false
		}
		replay(c.accepted[0])
	case "replay-last":
		l := foreign()
		if len(l) == 0 {
			return nil, false
		}
		replay(l[len(l)-1])
	case "replay-any":
		l := foreign()
		if len(l) == 0 {
			return nil, false
		}
		replay(l[rng.IntN(len(l))])
	case "replay-own": // the credential this body has just been accepted with, on the alternative body of the same RPC
		if v.alt == nil || len(c.accepted) == 0 {
			return nil, false
		}
		cr := c.accepted[len(c.accepted)-1]
		m = v.alt()
		if !bytes.Equal(cr.body, body) || bytes.Equal(cr.body, vf32Body(m)) {
			return nil, false
		}
		replay(cr)
	case "valid", "otheradmins":
		set(vf32Pub(admin), vf32Sign(admin, body))
	case "nosig":
	case "emptysig":
		m.SetSignature(&irctl.Signature{})
	case "wrongkey":
		set(vf32Pub(c.stranger), vf32Sign(c.stranger, body))
	case "keysubst":
		set(vf32Pub(admin), vf32Sign(c.stranger, body))
	case "strangerkey+adminsig":
		set(vf32Pub(c.stranger), vf32Sign(admin, body))
	case "bodyswap":
		if v.alt == nil {
			return nil, false
		}
		set(vf32Pub(admin), vf32Sign(admin, vf32Body(v.alt())))
	case "bodyext":
		set(vf32Pub(admin), vf32Sign(admin, append(bytes.Clone(body), 0)))
	case "sigflip":
		s := vf32Sign(admin, body)
		s[1+rng.IntN(64)] ^= 1 << rng.IntN(8)
		set(vf32Pub(admin), s)
	case "sigtrunc":
		s := vf32Sign(admin, body)
		set(vf32Pub(admin), s[:len(s)-1-rng.IntN(3)])
	case "sigempty":
		set(vf32Pub(admin), nil)
	case "sigzero":
		s := make([]byte, 65)
		s[0] = 4
		set(vf32Pub(admin), s)
	case "wholereq":
		whole, err := proto.Marshal(m)
		if err != nil {
			panic(err)
		}
		set(vf32Pub(admin), vf32Sign(admin, whole))
	case "crossempty":
		if len(body) == 0 {
			return nil, false
		}
		set(vf32Pub(admin), vf32Sign(admin, nil))
	case "garbagekey":
		if len(c.garbage) == 0 {
			return nil, false
		}
		set(c.garbage[rng.IntN(len(c.garbage))], verifkit.RandBytes(rng, 65))
	default:
		panic("vf32: unknown mode " + mode)
	}
	return m, true
}

// ---- inventory ------------------------------------------------------------------------------

func vf32Inventory(r *verifkit.Run) []grpc.MethodDesc {
	desc := irctl.ControlService_ServiceDesc
	names := map[string]bool{}
	var out []grpc.MethodDesc
	for _, m := range desc.Methods {
		names[m.MethodName] = true
		if _, ok := vf32Drivers[m.MethodName]; !ok {
			r.Inconclusive("IR control RPC " + m.MethodName + " has no driver in the C32 harness: cannot claim that every method checks the signature")
		}
		out = append(out, m)
		r.Seen("ir_rpc_inventory", m.MethodName)
	}
	for _, s := range desc.Streams {
		r.Inconclusive("IR control service got a streaming RPC " + s.StreamName + " unknown to the C32 harness")
	}
	it := reflect.TypeOf((*irctl.ControlServiceServer)(nil)).Elem()
	for i := 0; i < it.NumMethod(); i++ {
		if n := it.Method(i).Name; it.Method(i).IsExported() && !names[n] {
			r.Inconclusive("method " + n + " of the generated IR ControlServiceServer interface is not in the service descriptor")
		}
	}
	for n := range vf32Drivers {
		if !names[n] {
			r.Inconclusive("IR control RPC " + n + " known to the harness disappeared from the generated service")
		}
	}
	// exported methods of *Server that take a signed request but are not RPCs
	st := reflect.TypeOf(&Server{})
	for i := 0; i < st.NumMethod(); i++ {
		m := st.Method(i)
		if names[m.Name] {
			continue
		}
		for j := 1; j < m.Type.NumIn(); j++ {
			if _, ok := m.Type.In(j).MethodByName("GetSignature"); ok {
				r.Inconclusive("exported Server method " + m.Name + " takes a signed message but is unknown to the C32 harness")
			}
		}
	}
	sort.Slice(out, func(i, j int) bool { return out[i].MethodName < out[j].MethodName })
	return out
}

func vf32IsNil(v any) bool {
	if v == nil {
		return true
	}
	rv := reflect.ValueOf(v)
	switch rv.Kind() {
	case reflect.Pointer, reflect.Interface, reflect.Map, reflect.Slice:
		return rv.IsNil()
	}
	return false
}

// ---- the check ------------------------------------------------------------------------------

func TestVerif_C32_IR(t *testing.T) {
	r := verifkit.Start(t, "C32", "exploration")
	defer r.Finish()
	r.SetRule("IR control server: RPC inventory from the generated gRPC service descriptor + server interface (reflection); per round a fresh Server with 1-3 seeded administrator keys (sometimes plus non-key entries) and recording HealthChecker/NotaryManager; every RPC x body variant x credential mode (no signature, empty signature, stranger key, admin key with stranger's signature, admin signature over another body / extended body / whole request / empty data, flipped / truncated / empty / zero signature, non-key list entry, valid signature of administrators of another server, credential of an earlier authorised request of this server instance - first (a priming health check) / latest / random / the one this body was just accepted with - replayed on this or the alternative body, stateless modes repeated right after the body was accepted, every single field of the body message (from its descriptor) changed after an administrator signed the body / the body sent as generated under a signature over the body with that field changed / the just accepted credential on the body with one field changed, correct) goes through the generated handler as wire bytes; distinct = (RPC, body variant class, mode, number of admin keys); non-trivial = the same body was shown to reach the dependency under a correct signature")
	r.Assume("dependencies of the IR control server are recording fakes; the server's own key (appended to the white list by New, documented) is not used as a credential")

	inv := vf32Inventory(r)
	rounds := r.Pick(12, 150)
	for round := 0; round < rounds; round++ {
		rng := r.Rand("ir-round", round)
		rec := &vf32Rec{}
		nodeKey := vf32Key(rng)
		c := &vf32Ctx{stranger: vf32Key(rng)}
		var allowed [][]byte
		for i, n := 0, 1+rng.IntN(3); i < n; i++ {
			k := vf32Key(rng)
			c.admins = append(c.admins, k)
			allowed = append(allowed, vf32Pub(k))
		}
		if round%2 == 1 {
			c.garbage = [][]byte{{}, verifkit.RandBytes(rng, 33), vf32Pub(c.admins[0])[:32]}
			// non-key entries surround the administrator keys in the configured list
			allowed = append([][]byte{c.garbage[0], c.garbage[1]}, allowed...)
			allowed = append(allowed, c.garbage[2])
		}
		adminSet := make([][]byte, 0, len(c.admins))
		for _, k := range c.admins {
			adminSet = append(adminSet, vf32Pub(k))
		}
		var prm Prm
		prm.SetPrivateKey(keys.PrivateKey{PrivateKey: *nodeKey})
		prm.SetHealthChecker(vf32Health{rec})
		prm.SetNetworkManager(vf32Notary{rec})
		srv := New(prm, WithAllowedKeys(allowed))
		// a second server whose administrators are other people
		otherAdmin := vf32Key(rng)
		other := New(prm, WithAllowedKeys([][]byte{vf32Pub(otherAdmin)}))
		otherSet := [][]byte{vf32Pub(otherAdmin)}

		// the correctly signed health check a monitoring tool sends before anything else: from
		// then on the server under test has accepted a credential the replay modes can use
		for _, md := range inv {
			if md.MethodName != "HealthCheck" {
				continue
			}
			hc := &irctl.HealthCheckRequest{Body: new(irctl.HealthCheckRequest_Body)}
			admin := c.admins[rng.IntN(len(c.admins))]
			body := vf32Body(hc)
			hc.SetSignature(&irctl.Signature{Key: vf32Pub(admin), Sign: vf32Sign(admin, body)})
			if !vf32RefAuthorised(adminSet, hc.GetSignature().GetKey(), hc.GetSignature().GetSign(), body) {
				r.Inconclusive("harness: the priming health check is not authorised by the reference")
				break
			}
			wire, err := proto.Marshal(hc)
			if err != nil {
				r.Inconclusive("harness: marshal priming health check: " + err.Error())
				break
			}
			var resp any
			var callErr error
			if r.Guard(map[string]any{"server": "ir", "rpc": md.MethodName, "mode": "priming health check", "wire": hex.EncodeToString(wire)}, func() {
				resp, callErr = md.Handler(srv, context.Background(), func(m any) error { return proto.Unmarshal(wire, m.(proto.Message)) }, nil)
			}) {
				break
			}
			r.Eval(1)
			if callErr != nil || vf32IsNil(resp) {
				r.Inconclusive(fmt.Sprintf("the correctly signed priming health check was not served (%v): replay modes would start without an accepted credential", callErr))
				break
			}
			c.accepted = append(c.accepted, vf32Cred{rpc: md.MethodName, key: hc.GetSignature().GetKey(), sig: hc.GetSignature().GetSign(), body: body})
			r.Count("ir_priming_health_checks_served", 1)
		}

		order := rng.Perm(len(inv))
		for _, mi := range order {
			md := inv[mi]
			drv, ok := vf32Drivers[md.MethodName]
			if !ok {
				continue
			}
			for _, v := range drv(rng) {
				modes := append([]string(nil), vf32NegModes...)
				// "valid key, corrupted body", field by field: every field of the body message is
				// changed after signing (tamper) and before signing (tamper-back, the body as generated is sent)
				for _, f := range vf32BodyFields(v.mk()) {
					modes = append(modes, "tamper:"+f, "tamper-back:"+f)
				}
				rng.Shuffle(len(modes), func(i, j int) { modes[i], modes[j] = modes[j], modes[i] })
				// positive control, then: its credential on the alternative body and on the same body
				// with one field changed, and a seeded subset of the stateless modes again on the
				// body that has just been accepted
				modes = append(modes, "valid", "replay-own", "replay-own-tamper")
				for _, i := range rng.Perm(len(vf32AfterModes))[:2] {
					modes = append(modes, vf32AfterModes[i]+vf32AfterSuffix)
				}
				pending := []string{}
				controlled := false // the positive control of this body has been run and reached the dependency
				for _, mode := range modes {
					c.replaySrc = ""
					req, ok := vf32Forge(mode, v, c, rng)
					if !ok {
						r.Count("ir_mode_not_applicable", 1)
						continue
					}
					target, targetAdmins := srv, adminSet
					if mode == "otheradmins" {
						target, targetAdmins = other, otherSet
					}
					sig := req.GetSignature()
					authorised := sig != nil && vf32RefAuthorised(targetAdmins, sig.GetKey(), sig.GetSign(), vf32Body(req))
					if authorised != (mode == "valid") {
						// the label and the reference disagree (e.g. equal bodies): trust the reference, skip the label
						r.Count("ir_mode_label_mismatch", 1)
						if mode == "valid" {
							r.Inconclusive("harness: correctly signed request is not authorised by the reference")
						}
						continue
					}
					wire, err := proto.Marshal(req)
					if err != nil {
						r.Inconclusive("harness: marshal request: " + err.Error())
						continue
					}
					// observation only (no verdict): does the repository's signed-data serialisation of
					// this request equal the body bytes it carries?
					if sd, err := req.ReadSignedData(nil); err != nil || !bytes.Equal(sd, vf32Body(req)) {
						r.Count("ir_requests_whose_ReadSignedData_differs_from_carried_body", 1)
						r.Seen("ir_rpcs_whose_ReadSignedData_differs_from_carried_body", md.MethodName)
					}
					desc := map[string]any{"server": "ir", "round": round, "rpc": md.MethodName, "variant": v.name, "mode": mode, "admins": len(c.admins), "garbage_entries": len(c.garbage), "wire": hex.EncodeToString(wire), "authorised_requests_served_before": len(c.accepted)}
					if c.replaySrc != "" {
						desc["credential_replayed_from"] = c.replaySrc
					}
					m0, r0 := rec.marks()
					var resp any
					var callErr error
					if r.Guard(desc, func() {
						resp, callErr = md.Handler(target, context.Background(), func(m any) error { return proto.Unmarshal(wire, m.(proto.Message)) }, nil)
					}) {
						continue
					}
					muts, reads := rec.since(m0, r0)
					r.Eval(1)
					key := "C32|ir|" + md.MethodName + "|" + mode
					if authorised {
						r.Count("ir_authorised_calls", 1)
						if target == srv { // whatever the outcome: the server has seen this credential under a correct signature
							c.accepted = append(c.accepted, vf32Cred{rpc: md.MethodName, key: bytes.Clone(sig.GetKey()), sig: bytes.Clone(sig.GetSign()), body: vf32Body(req)})
						}
						reached := (callErr == nil && !vf32IsNil(resp)) || len(muts) > 0 || len(reads) > 0
						if !reached {
							r.Inconclusive(fmt.Sprintf("positive control failed: correctly signed %s (%s) did not reach the dependency: %v", md.MethodName, v.name, callErr))
							continue
						}
						if v.wantEffect && len(muts) == 0 {
							r.Inconclusive(fmt.Sprintf("positive control of %s (%s) recorded no mutating dependency call: the no-side-effect checks of this body are vacuous", md.MethodName, v.name))
							continue
						}
						r.Count("ir_authorised_reached_dependency", 1)
						r.Seen("ir_rpcs_with_positive_control", md.MethodName)
						for _, p := range pending {
							r.Distinct(p)
						}
						pending, controlled = nil, true
						if round == 0 {
							r.Sample(map[string]any{"server": "ir", "rpc": md.MethodName, "variant": v.name, "mode": mode, "error": fmt.Sprint(callErr), "dependency_calls": append(muts, reads...)})
						}
						continue
					}
					r.Count("ir_unauthorised_calls", 1)
					r.Seen("ir_modes_exercised", mode)
					bad := false
					if callErr == nil {
						bad = true
						r.Violation(key+"|accepted", fmt.Sprintf("IR %s answered without error to a request that is not signed by a configured administrator key over its body (mode %s)", md.MethodName, mode), desc)
					} else {
						r.Seen("ir_reject_errors", vf32ErrClass(callErr))
					}
					if !vf32IsNil(resp) {
						bad = true
						r.Violation(key+"|responded", fmt.Sprintf("IR %s returned a response to an unauthorised request (mode %s)", md.MethodName, mode), desc)
					}
					if len(muts) > 0 {
						bad = true
						desc["dependency_calls"] = muts
						r.Violation(key+"|side-effect", fmt.Sprintf("IR %s performed %v for an unauthorised request (mode %s)", md.MethodName, muts, mode), desc)
					}
					if len(reads) > 0 {
						r.Count("ir_unauthorised_calls_that_read_a_dependency", 1)
					}
					if c.replaySrc != "" {
						r.Count("ir_replayed_credential_calls", 1)
						if c.replaySrc != md.MethodName {
							r.Count("ir_replayed_credential_calls_cross_rpc", 1)
						}
						r.Seen("ir_replay_from_to", c.replaySrc+"->"+md.MethodName)
					}
					if strings.HasSuffix(mode, vf32AfterSuffix) {
						r.Count("ir_unauthorised_calls_right_after_accept_of_same_body", 1)
					}
					if strings.Contains(mode, "tamper") {
						r.Count("ir_single_field_tamper_calls", 1)
						if i := strings.IndexByte(mode, ':'); i >= 0 && strings.HasPrefix(mode, "tamper") {
							r.Seen("ir_body_fields_tampered", md.MethodName+"."+mode[i+1:])
						}
					}
					if !bad {
						r.Count("ir_unauthorised_rejected_clean", 1)
						dk := fmt.Sprintf("ir|%s|%s|%s|%d", md.MethodName, strings.SplitN(v.name, ",", 2)[0], mode, len(c.admins))
						if controlled {
							r.Distinct(dk)
						} else {
							pending = append(pending, dk)
						}
					}
					if round == 0 && mode == "bodyswap" {
						r.Sample(map[string]any{"server": "ir", "rpc": md.MethodName, "variant": v.name, "mode": mode, "error": fmt.Sprint(callErr)})
					}
				}
			}
		}

		// observation only: the server's own key is white-listed by New (documented); the
		// statement does not say whether that key is an administrator key, so no verdict.
		if round == 0 {
			hc := &irctl.HealthCheckRequest{Body: new(irctl.HealthCheckRequest_Body)}
			hc.SetSignature(&irctl.Signature{Key: vf32Pub(nodeKey), Sign: vf32Sign(nodeKey, vf32Body(hc))})
			wire, _ := proto.Marshal(hc)
			for _, md := range inv {
				if md.MethodName == "HealthCheck" {
					_, err := md.Handler(srv, context.Background(), func(m any) error { return proto.Unmarshal(wire, m.(proto.Message)) }, nil)
					r.Seen("ir_own_node_key_accepted_on_healthcheck", fmt.Sprint(err == nil))
				}
			}
		}
	}
	if r.Counter("ir_authorised_reached_dependency") == 0 {
		r.Inconclusive("no positive control reached a dependency")
	}
	if r.Counter("ir_single_field_tamper_calls") == 0 {
		r.Inconclusive("no request with a single body field changed after/before signing was executed: the corrupted-body part of the check is vacuous")
	}
	if r.Counter("ir_replayed_credential_calls_cross_rpc") == 0 || r.Counter("ir_unauthorised_calls_right_after_accept_of_same_body") == 0 {
		r.Inconclusive("no credential of an earlier authorised request was replayed on another RPC, or no unauthorised request followed the acceptance of its body: the history-dependent part of the check is vacuous")
	}
}

func vf32ErrClass(err error) string {
	s := err.Error()
	if i := strings.Index(s, "desc = "); i >= 0 {
		s = s[:i+7] + strings.SplitN(s[i+7:], ":", 2)[0]
	}
	if len(s) > 90 {
		s = s[:90]
	}
	return s
}
