//go:build verif

package policer

import (
	"context"
	"crypto/ecdsa"
	"crypto/elliptic"
	crand "crypto/rand"
	"errors"
	"fmt"
	"io"
	"path/filepath"
	"sort"
	"strconv"
	"strings"
	"sync"
	"sync/atomic"
	"testing"
	"time"

	"github.com/nspcc-dev/bbolt"
	iec "github.com/nspcc-dev/neofs-node/internal/ec"
	"github.com/nspcc-dev/neofs-node/internal/verifkit"
	clientcore "github.com/nspcc-dev/neofs-node/pkg/core/client"
	objectcore "github.com/nspcc-dev/neofs-node/pkg/core/object"
	"github.com/nspcc-dev/neofs-node/pkg/local_object_storage/blobstor/fstree"
	"github.com/nspcc-dev/neofs-node/pkg/local_object_storage/engine"
	meta "github.com/nspcc-dev/neofs-node/pkg/local_object_storage/metabase"
	"github.com/nspcc-dev/neofs-node/pkg/local_object_storage/shard"
	putsvc "github.com/nspcc-dev/neofs-node/pkg/services/object/put"
	objutil "github.com/nspcc-dev/neofs-node/pkg/services/object/util"
	"github.com/nspcc-dev/neofs-node/pkg/services/replicator"
	apistatus "github.com/nspcc-dev/neofs-sdk-go/client/status"
	cid "github.com/nspcc-dev/neofs-sdk-go/container/id"
	neofscrypto "github.com/nspcc-dev/neofs-sdk-go/crypto"
	neofscryptotest "github.com/nspcc-dev/neofs-sdk-go/crypto/test"
	"github.com/nspcc-dev/neofs-sdk-go/netmap"
	"github.com/nspcc-dev/neofs-sdk-go/object"
	oid "github.com/nspcc-dev/neofs-sdk-go/object/id"
	"go.uber.org/zap"
)

// ---------------------------------------------------------------------------------------
// C27: with a stable network map and reachable nodes, repeated policer cycles across the
// container nodes bring every object to >= the required number of copies on its primary
// nodes and then stop replicating; the replicator never reports more successful copies
// than asked, nor a success for a node that did not store the object.
//
// Simulated cluster: up to 6 nodes, each one a REAL one-shard StorageEngine + REAL
// replicator.Replicator (+ real putsvc.RemoteSender) + REAL Policer.  Only the wires are
// faked: the API client delivers a replicated object into the target node's engine, the
// remote HEAD asks the target engine, the Network returns the (stable) placement of the
// case.  A round = every node runs one policer pass over its engine, either by calling
// processObject for every listed object ("direct") or by running the real Policer.Run
// worker until it has finished two storage cycles ("loop").
//
// Oracle (statement only): rounds are executed until one round neither replicates nor
// deletes (quiescent) or the bound 2*nodes+2 is hit.  At quiescence every object must be
// present on each of the first N nodes of its placement list.  A repeated cluster state
// with replication in between, or replication with an unchanged state, is "does not stop
// replicating".  Every success report is compared with the asked quantity and with the
// target engine's content at the moment of the report.
// ---------------------------------------------------------------------------------------

const vf27MaxNodes = 6

type vf27Epoch struct{}

func (vf27Epoch) CurrentEpoch() uint64 { return 0 }

type vf27Metrics struct {
	cycles     atomic.Uint64
	replicated atomic.Uint64
	deleted    atomic.Uint64
}

func (m *vf27Metrics) SetPolicerConsistency(bool)      {}
func (m *vf27Metrics) SetPolicerOptimalPlacement(bool) {}
func (m *vf27Metrics) IncPolicerCycleCount()           { m.cycles.Add(1) }
func (m *vf27Metrics) IncPolicerObjectProcessed(bool)  {}
func (m *vf27Metrics) IncPolicerObjectReplicated(bool) { m.replicated.Add(1) }
func (m *vf27Metrics) IncPolicerObjectDeleted(bool)    { m.deleted.Add(1) }

type vf27Placement struct {
	list []int // node indexes, primary first
	rep  uint
}

type vf27Cluster struct {
	r     *verifkit.Run
	t     *testing.T
	nodes []*vf27Node

	mu        sync.Mutex
	place     map[oid.Address]vf27Placement
	lazyGC    bool
	replCalls int                               // ReplicateObject calls in the current round
	replOK    int                               // ... that stored
	deletes   int                               // local deletes in the current round
	tasks     int                               // HandleTask calls in the current round
	reports   int                               // success reports in the current round
	pendingGC map[int]map[oid.Address]struct{}  // lazy mode: marked, physically removed at round end
	vio       func(key, what string, extra any) // violation reporter bound to the running case
	stored    map[int]map[oid.Address]struct{}  // ground truth: replication deliveries accepted per node
}

type vf27Node struct {
	c       *vf27Cluster
	idx     int
	info    netmap.NodeInfo
	eng     *engine.StorageEngine
	pol     *Policer
	repl    *replicator.Replicator
	metrics *vf27Metrics
}

func vf27Key(i int) []byte {
	k := make([]byte, 33)
	k[0] = 3
	copy(k[1:], "verif-c27-node")
	k[32] = byte(i)
	return k
}

func vf27Idx(n netmap.NodeInfo) int {
	k := n.PublicKey()
	if len(k) != 33 {
		return -1
	}
	return int(k[32])
}

func vf27NewCluster(t *testing.T, r *verifkit.Run) *vf27Cluster {
	c := &vf27Cluster{r: r, t: t}
	for i := 0; i < vf27MaxNodes; i++ {
		n := &vf27Node{c: c, idx: i, metrics: &vf27Metrics{}}
		n.info.SetPublicKey(vf27Key(i))
		n.info.SetNetworkEndpoints("/dns4/verif-c27-" + strconv.Itoa(i) + "/tcp/8080")
		n.info.SetOnline()
		dir := t.TempDir()
		n.eng = engine.New(engine.WithLogger(zap.NewNop()))
		_, err := n.eng.AddShard(
			shard.WithLogger(zap.NewNop()),
			shard.WithBlobstor(fstree.New(fstree.WithPath(filepath.Join(dir, "fstree")), fstree.WithDepth(1), fstree.WithNoSync(true))),
			shard.WithMetaBaseOptions(
				meta.WithPath(filepath.Join(dir, "meta")),
				meta.WithPermissions(0o700),
				meta.WithEpochState(vf27Epoch{}),
				meta.WithLogger(zap.NewNop()),
				meta.WithMaxBatchDelay(time.Microsecond),
				meta.WithBoltDBOptions(&bbolt.Options{NoSync: true, Timeout: time.Second}),
			),
		)
		if err != nil {
			t.Fatalf("harness: add shard: %v", err)
		}
		if err := n.eng.Init(); err != nil {
			t.Fatalf("harness: engine init: %v", err)
		}
		eng := n.eng
		t.Cleanup(func() { _ = eng.Close() })

		key, err := ecdsa.GenerateKey(elliptic.P256(), crand.Reader)
		if err != nil {
			t.Fatalf("harness: key: %v", err)
		}
		net := &vf27Net{n: n}
		n.repl = replicator.New(
			replicator.WithLogger(zap.NewNop()),
			replicator.WithPutTimeout(time.Minute),
			replicator.WithLocalStorage(n.eng),
			replicator.WithLocalNodeKey(net),
			replicator.WithRemoteSender(putsvc.NewRemoteSender(objutil.NewKeyStorage(key, nil, nil), &vf27Cons{n: n})),
		)
		n.pol = New(neofscryptotest.Signer(),
			WithNetwork(net),
			WithLogger(zap.NewNop()),
			WithHeadTimeout(time.Minute),
			WithReplicationCooldown(time.Millisecond),
			WithObjectBatchSize(3),
			WithMetrics(n.metrics),
		)
		n.pol.localStorage = &vf27Store{n: n}
		n.pol.apiConns = &vf27Conns{n: n}
		n.pol.replicator = &vf27Repl{n: n}
		c.nodes = append(c.nodes, n)
	}
	return c
}

// ---- wires ---------------------------------------------------------------------------

type vf27Net struct{ n *vf27Node }

func (x *vf27Net) IsLocalNodeInNetmap() bool { return true }
func (x *vf27Net) IsLocalNodePublicKey(k []byte) bool {
	return len(k) == 33 && string(k) == string(x.n.info.PublicKey())
}
func (x *vf27Net) GetNodesForObject(a oid.Address) ([][]netmap.NodeInfo, []uint, []iec.Rule, error) {
	c := x.n.c
	c.mu.Lock()
	p, ok := c.place[a]
	c.mu.Unlock()
	if !ok {
		return nil, nil, nil, apistatus.ErrContainerNotFound
	}
	l := make([]netmap.NodeInfo, len(p.list))
	for i, idx := range p.list {
		l[i] = c.nodes[idx].info
	}
	return [][]netmap.NodeInfo{l}, []uint{p.rep}, nil, nil
}

type vf27Conns struct{ n *vf27Node }

func (x *vf27Conns) headObject(ctx context.Context, node netmap.NodeInfo, a oid.Address, _ bool, _ []string) (object.Object, error) {
	i := vf27Idx(node)
	if i < 0 || i >= len(x.n.c.nodes) || i == x.n.idx {
		return object.Object{}, errors.New("[verif] HEAD to local/unknown node")
	}
	h, err := x.n.c.nodes[i].eng.Head(ctx, a, false)
	if err != nil {
		return object.Object{}, err
	}
	return *h, nil
}

func (x *vf27Conns) GetRange(context.Context, netmap.NodeInfo, cid.ID, oid.ID, uint64, uint64, []string) (io.ReadCloser, error) {
	return nil, errors.New("[verif] unexpected RANGE")
}

// vf27Store: the node's engine as the policer's local storage.  Delete is either an
// immediate physical removal or the real garbage mark followed by removal at round end.
type vf27Store struct{ n *vf27Node }

func (s *vf27Store) ListWithCursor(ctx context.Context, n uint32, c *engine.Cursor, attrs ...string) ([]objectcore.AddressWithAttributes, *engine.Cursor, error) {
	return s.n.eng.ListWithCursor(ctx, n, c, attrs...)
}
func (s *vf27Store) Delete(ctx context.Context, a oid.Address, m engine.GarbageMark) error {
	c := s.n.c
	c.mu.Lock()
	c.deletes++
	lazy := c.lazyGC
	if lazy {
		if c.pendingGC[s.n.idx] == nil {
			c.pendingGC[s.n.idx] = map[oid.Address]struct{}{}
		}
		c.pendingGC[s.n.idx][a] = struct{}{}
	}
	c.mu.Unlock()
	if lazy {
		return s.n.eng.Delete(ctx, a, m)
	}
	return s.n.eng.Drop(ctx, a)
}
func (s *vf27Store) DeleteRedundantCopies(ctx context.Context, a oid.Address, ids []string) error {
	return s.n.eng.DeleteRedundantCopies(ctx, a, ids)
}
func (s *vf27Store) Put(ctx context.Context, o *object.Object, b []byte) error {
	return s.n.eng.Put(ctx, o, b)
}
func (s *vf27Store) Head(ctx context.Context, a oid.Address, raw bool) (*object.Object, error) {
	return s.n.eng.Head(ctx, a, raw)
}
func (s *vf27Store) HeadECPart(ctx context.Context, cnr cid.ID, p oid.ID, pi iec.PartInfo) (object.Object, error) {
	return s.n.eng.HeadECPart(ctx, cnr, p, pi)
}
func (s *vf27Store) GetRange(ctx context.Context, a oid.Address, off, ln uint64) ([]byte, error) {
	return s.n.eng.GetRange(ctx, a, off, ln)
}

// vf27Repl forwards to the real replicator and audits its success reports.
type vf27Repl struct{ n *vf27Node }

type vf27Res struct {
	n       *vf27Node
	addr    oid.Address
	asked   uint32
	nodes   []netmap.NodeInfo
	inner   replicator.TaskResult
	mu      sync.Mutex
	reports int
}

func (r *vf27Res) SubmitSuccessfulReplication(node netmap.NodeInfo) {
	c := r.n.c
	r.mu.Lock()
	r.reports++
	cnt := r.reports
	r.mu.Unlock()
	c.mu.Lock()
	c.reports++
	vio := c.vio
	c.mu.Unlock()
	i := vf27Idx(node)
	listed := false
	for _, tn := range r.nodes {
		if string(tn.PublicKey()) == string(node.PublicKey()) {
			listed = true
		}
	}
	switch {
	case uint32(cnt) > r.asked:
		vio("replicator-reports-more-than-asked", fmt.Sprintf("node %d: %d success reports for a task asking %d copies of %s", r.n.idx, cnt, r.asked, r.addr), nil)
	case !listed || i < 0 || i >= len(c.nodes):
		vio("replicator-reports-unlisted-node", fmt.Sprintf("node %d: success reported for a node that is not in the task (%d)", r.n.idx, i), nil)
	default:
		c.mu.Lock()
		_, delivered := c.stored[i][r.addr]
		c.mu.Unlock()
		_, err := c.nodes[i].eng.Head(context.Background(), r.addr, false)
		if err != nil || (!delivered && i != r.n.idx) {
			vio("replicator-false-success", fmt.Sprintf("node %d: success reported for node %d which does not store %s (delivered=%v, head err=%v)", r.n.idx, i, r.addr, delivered, err), nil)
		}
	}
	r.inner.SubmitSuccessfulReplication(node)
}

func (x *vf27Repl) HandleTask(ctx context.Context, task replicator.Task, res replicator.TaskResult) {
	c := x.n.c
	c.mu.Lock()
	c.tasks++
	c.mu.Unlock()
	x.n.repl.HandleTask(ctx, task, &vf27Res{n: x.n, addr: task.Verif27Address(), asked: task.Verif27Quantity(), nodes: task.Nodes(), inner: res})
}

type vf27Cons struct{ n *vf27Node }

func (x *vf27Cons) Get(_ context.Context, node netmap.NodeInfo) (clientcore.MultiAddressClient, error) {
	i := vf27Idx(node)
	if i < 0 || i >= len(x.n.c.nodes) || i == x.n.idx {
		return nil, errors.New("[verif] dial to local/unknown node")
	}
	return &vf27Client{from: x.n, to: x.n.c.nodes[i]}, nil
}

type vf27Client struct {
	clientcore.MultiAddressClient
	from, to *vf27Node
}

func (cl *vf27Client) ReplicateObject(ctx context.Context, id oid.ID, src io.ReadSeeker, _ neofscrypto.Signer, _ bool) (*neofscrypto.Signature, error) {
	c := cl.to.c
	c.mu.Lock()
	c.replCalls++
	c.mu.Unlock()
	b, err := vf27ReadMsg(src)
	if err != nil {
		return nil, err
	}
	var o object.Object
	if err := o.Unmarshal(b); err != nil {
		return nil, fmt.Errorf("remote: decode replicated object: %w", err)
	}
	if o.GetID() != id {
		return nil, fmt.Errorf("remote: object ID mismatch: message %s, request %s", o.GetID(), id)
	}
	if err := cl.to.eng.Put(ctx, &o, b); err != nil {
		return nil, fmt.Errorf("remote: put: %w", err)
	}
	a := oid.NewAddress(o.GetContainerID(), id)
	c.mu.Lock()
	c.replOK++
	if c.stored[cl.to.idx] == nil {
		c.stored[cl.to.idx] = map[oid.Address]struct{}{}
	}
	c.stored[cl.to.idx][a] = struct{}{}
	c.mu.Unlock()
	return nil, nil
}

// ---- one node's policer pass ---------------------------------------------------------

func (n *vf27Node) passDirect() {
	ctx := context.Background()
	var cur *engine.Cursor
	var all []objectcore.AddressWithAttributes
	for {
		res, next, err := n.eng.ListWithCursor(ctx, 4, cur, iec.AttributeRuleIdx, iec.AttributePartIdx, object.FilterParentID)
		if err != nil {
			break
		}
		for i := range res { // the listing reuses buffers: copy what is kept
			all = append(all, objectcore.AddressWithAttributes{Address: res[i].Address, Type: res[i].Type,
				Attributes: append([]string(nil), res[i].Attributes...), ShardIDs: append([]string(nil), res[i].ShardIDs...)})
		}
		cur = next
	}
	for _, o := range all {
		n.pol.processObject(ctx, o)
	}
}

// passLoop runs the real Policer.Run until it reports two finished storage cycles (every
// object present at start is visited at least once per cycle).  Returns false when the
// watchdog fired.
func (n *vf27Node) passLoop() bool {
	ctx, cancel := context.WithCancel(context.Background())
	base := n.metrics.cycles.Load()
	done := make(chan struct{})
	go func() { n.pol.Run(ctx); close(done) }()
	ok := true
	deadline := time.Now().Add(60 * time.Second) // watchdog only: firing is INCONCLUSIVE
	for n.metrics.cycles.Load() < base+2 {
		if time.Now().After(deadline) {
			ok = false
			break
		}
		time.Sleep(200 * time.Microsecond)
	}
	cancel()
	<-done
	return ok
}

// ---- cases ---------------------------------------------------------------------------

type vf27Case struct {
	Idx       int              `json:"case"`
	Nodes     int              `json:"cluster_nodes"`
	Container []int            `json:"container_nodes"`
	Rep       uint             `json:"rep"`
	Mode      string           `json:"mode"`
	LazyGC    bool             `json:"lazy_gc"`
	Objects   []map[string]any `json:"objects"`
	Order     []int            `json:"node_order"`
	Rounds    []string         `json:"rounds"`
}

func (c *vf27Cluster) holders(a oid.Address, nNodes int) []int {
	var hs []int
	for i := 0; i < nNodes; i++ {
		c.mu.Lock()
		_, doomed := c.pendingGC[i][a]
		c.mu.Unlock()
		if doomed {
			continue
		}
		if _, err := c.nodes[i].eng.Head(context.Background(), a, false); err == nil {
			hs = append(hs, i)
		}
	}
	return hs
}

func (c *vf27Cluster) runCase(idx int) {
	r := c.r
	rng := r.Rand("cluster", idx)
	nNodes := 3 + rng.IntN(vf27MaxNodes-2) // 3..6
	rep := uint(1 + rng.IntN(3))           // 1..3
	if int(rep) > nNodes {
		rep = uint(nNodes)
	}
	// the container takes rep..nNodes of the cluster nodes; the others are in the netmap
	// but outside the container (they may hold misplaced copies)
	cn := int(rep) + rng.IntN(nNodes-int(rep)+1)
	perm := rng.Perm(nNodes)
	container := append([]int(nil), perm[:cn]...)
	cs := &vf27Case{Idx: idx, Nodes: nNodes, Container: container, Rep: rep, Mode: "direct", LazyGC: rng.IntN(3) == 0}
	if idx%5 == 4 {
		cs.Mode = "loop"
	}
	cnr := verifkit.RandCID(rng)
	owner := verifkit.RandUser(rng)
	nObj := 1 + rng.IntN(4)

	c.mu.Lock()
	c.place = map[oid.Address]vf27Placement{}
	c.lazyGC = cs.LazyGC
	c.pendingGC = map[int]map[oid.Address]struct{}{}
	c.stored = map[int]map[oid.Address]struct{}{}
	var violatedFlag atomic.Bool
	c.vio = func(key, what string, extra any) {
		violatedFlag.Store(true)
		r.Violation(key+"|"+cs.Mode, what, map[string]any{"case": cs, "extra": extra})
	}
	c.mu.Unlock()

	var addrs []oid.Address
	objs := map[oid.Address]*object.Object{}
	for o := 0; o < nObj; o++ {
		obj := verifkit.NewObject(rng, cnr, owner, 1+rng.IntN(48))
		a := verifkit.Addr(obj)
		// placement list: a per-object order of the container nodes (HRW-like), stable
		lp := rng.Perm(cn)
		list := make([]int, cn)
		for i, p := range lp {
			list[i] = container[p]
		}
		// initial distribution: a random non-empty subset of the cluster nodes
		var init []int
		for i := 0; i < nNodes; i++ {
			if rng.IntN(3) == 0 {
				init = append(init, i)
			}
		}
		if len(init) == 0 {
			init = []int{rng.IntN(nNodes)}
		}
		c.mu.Lock()
		c.place[a] = vf27Placement{list: list, rep: rep}
		c.mu.Unlock()
		for _, i := range init {
			if err := c.nodes[i].eng.Put(context.Background(), obj, nil); err != nil {
				c.t.Fatalf("harness: initial put: %v", err)
			}
		}
		addrs = append(addrs, a)
		objs[a] = obj
		cs.Objects = append(cs.Objects, map[string]any{"placement": list, "initial_holders": init})
	}
	cs.Order = rng.Perm(nNodes)

	stateSig := func() string {
		var b strings.Builder
		for _, a := range addrs {
			fmt.Fprintf(&b, "%v;", c.holders(a, nNodes))
		}
		return b.String()
	}
	goalMissing := func() []string {
		var miss []string
		for oi, a := range addrs {
			p := c.place[a]
			hs := c.holders(a, nNodes)
			for _, prim := range p.list[:p.rep] {
				found := false
				for _, h := range hs {
					found = found || h == prim
				}
				if !found {
					miss = append(miss, fmt.Sprintf("object %d missing on primary node %d (holders %v)", oi, prim, hs))
				}
			}
		}
		return miss
	}

	bound := 2*nNodes + 2
	seen := map[string]int{}
	initialShort := len(goalMissing())
	prev := stateSig()
	seen[prev] = 0
	quiescent, watchdog := false, false
	totalRepl := 0
	roundsUsed := 0
	for round := 1; round <= bound && !violatedFlag.Load(); round++ {
		c.mu.Lock()
		c.replCalls, c.replOK, c.deletes, c.tasks, c.reports = 0, 0, 0, 0, 0
		c.mu.Unlock()
		for _, ni := range cs.Order {
			n := c.nodes[ni]
			if cs.Mode == "loop" {
				if !n.passLoop() {
					watchdog = true
				}
			} else {
				r.Guard(cs, n.passDirect)
			}
		}
		// garbage collection of the lazily marked copies happens between rounds
		c.mu.Lock()
		pend := c.pendingGC
		c.pendingGC = map[int]map[oid.Address]struct{}{}
		c.mu.Unlock()
		for ni, m := range pend {
			for a := range m {
				_ = c.nodes[ni].eng.Drop(context.Background(), a)
			}
		}
		c.mu.Lock()
		rc, rok, del, tasks, reps := c.replCalls, c.replOK, c.deletes, c.tasks, c.reports
		c.mu.Unlock()
		roundsUsed = round
		totalRepl += rok
		sig := stateSig()
		cs.Rounds = append(cs.Rounds, fmt.Sprintf("round %d: replicate calls=%d ok=%d reports=%d tasks=%d deletes=%d state=%s", round, rc, rok, reps, tasks, del, sig))
		r.Count("replicate_calls", rc)
		r.Count("replication_success_reports", reps)
		r.Count("local_deletes", del)
		r.Count("replication_tasks", tasks)
		if watchdog {
			break
		}
		if rc == 0 && del == 0 {
			quiescent = true
			break
		}
		if rc > 0 && del == 0 && sig == prev {
			c.vio("replication-without-progress", fmt.Sprintf("round %d issued %d replications but the replica map did not change (%s)", round, rc, sig), nil)
			break
		}
		if at, ok := seen[sig]; ok && sig != prev && rc > 0 {
			c.vio("replica-map-cycle", fmt.Sprintf("replica map after round %d equals the one after round %d with replication in between", round, at), nil)
			break
		}
		seen[sig] = round
		prev = sig
	}
	r.Eval(1)
	r.Max("max_rounds_to_quiescence", int64(roundsUsed))
	switch {
	case violatedFlag.Load():
	case watchdog:
		r.Inconclusive(fmt.Sprintf("case %d: Policer.Run did not finish two cycles within the watchdog", idx))
	case quiescent:
		if miss := goalMissing(); len(miss) > 0 {
			c.vio("fixed-point-with-shortage", fmt.Sprintf("no node replicates or deletes any more, but %s", strings.Join(miss, "; ")), nil)
		} else {
			r.Count("cases_converged", 1)
			r.Seen("rounds_to_quiescence", strconv.Itoa(roundsUsed))
		}
	default:
		r.Count("cases_not_quiescent_at_bound", 1)
		r.Inconclusive(fmt.Sprintf("case %d: still changing after %d rounds", idx, bound))
	}
	r.Seen("modes_seen", cs.Mode+fmt.Sprintf("/lazyGC=%v", cs.LazyGC))
	r.Seen("cluster_shapes_seen", fmt.Sprintf("nodes=%d container=%d rep=%d", nNodes, cn, rep))
	if initialShort > 0 || totalRepl > 0 {
		// non-trivial: the initial distribution violated the policy and/or replication happened
		holders := make([]string, 0, len(cs.Objects))
		for _, o := range cs.Objects {
			holders = append(holders, fmt.Sprint(o["placement"], o["initial_holders"]))
		}
		sort.Strings(holders)
		r.Distinct(fmt.Sprintf("%d|%d|%d|%s|%v|%v", nNodes, cn, rep, cs.Mode, cs.LazyGC, holders))
		r.Count("cases_with_initial_shortage", 1)
		r.Count("replications_delivered", totalRepl)
		if cs.Mode == "loop" || idx < 3 {
			r.Sample(cs)
		}
	} else {
		r.Count("cases_initially_compliant", 1)
	}

	// cleanup: the engines are reused by the next case
	for _, a := range addrs {
		for i := 0; i < vf27MaxNodes; i++ {
			_ = c.nodes[i].eng.Drop(context.Background(), a)
		}
	}
}

func TestVerif_C27(t *testing.T) {
	r := verifkit.Start(t, "C27", "exploration")
	defer r.Finish()
	n := r.Pick(250, 4000)
	r.SetRule(fmt.Sprintf("%d seeded clusters: 3-6 nodes (real engine+replicator+policer each), REP 1-3, container = REP..all nodes (others in netmap, outside the container), 1-4 objects with independent placement orders and random non-empty initial holder sets; "+
		"4/5 of the cases call processObject per listed object, 1/5 run the real Policer.Run worker for two storage cycles per node and round; 1/3 keep deleted copies readable until the end of the round (lazy GC). "+
		"distinct/non-trivial = different (shape, mode, placements, initial holders) whose initial distribution missed a primary copy or that replicated at least once", n))
	r.Assume("stable placement, every node reachable and truthful; remote HEAD/replication are in-process calls into the target node's real engine")
	r.Assume("rounds are sequential (one node at a time, seeded order); a deleted copy is removed physically at once or at the end of the round")
	c := vf27NewCluster(t, r)
	for i := 0; i < n; i++ {
		c.runCase(i)
		if r.Violations() > 20 {
			break
		}
	}
	if r.Counter("replications_delivered") == 0 || r.Counter("cases_converged") == 0 {
		r.Inconclusive("no replication / no converged case observed")
	}
}

// vf27ReadMsg consumes the replication source the way the SDK client does: a source wrapped
// by client.DemuxReplicatedObject is encoded once and the message is reused for every
// node; any other source is read from its CURRENT position (so a plain reader shared by
// several nodes is empty for the second one).
var (
	vf27MsgMu    sync.Mutex
	vf27MsgCache = map[io.ReadSeeker][]byte{}
)

func vf27ReadMsg(src io.ReadSeeker) ([]byte, error) {
	if strings.Contains(fmt.Sprintf("%T", src), "demux") {
		vf27MsgMu.Lock()
		defer vf27MsgMu.Unlock()
		if b, ok := vf27MsgCache[src]; ok {
			return b, nil
		}
		b, err := io.ReadAll(src)
		if err != nil {
			return nil, err
		}
		if len(vf27MsgCache) > 64 {
			clear(vf27MsgCache)
		}
		vf27MsgCache[src] = b
		return b, nil
	}
	return io.ReadAll(src)
}
