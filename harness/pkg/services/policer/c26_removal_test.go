//go:build verif

package policer

import (
	"bytes"
	"context"
	"crypto/ecdsa"
	"crypto/elliptic"
	crand "crypto/rand"
	"errors"
	"fmt"
	"io"
	"math/rand/v2"
	"path/filepath"
	"strconv"
	"strings"
	"sync"
	"testing"
	"time"

	"github.com/nspcc-dev/bbolt"
	iec "github.com/nspcc-dev/neofs-node/internal/ec"
	"github.com/nspcc-dev/neofs-node/internal/verifkit"
	clientcore "github.com/nspcc-dev/neofs-node/pkg/core/client"
	objectcore "github.com/nspcc-dev/neofs-node/pkg/core/object"
	"github.com/nspcc-dev/neofs-node/pkg/local_object_storage/blobstor/fstree"
	"github.com/nspcc-dev/neofs-node/pkg/local_object_storage/engine"
	meta "github.com/nspcc-dev/neofs-node/pkg/local_object_storage/metabase"
	"github.com/nspcc-dev/neofs-node/pkg/local_object_storage/shard"
	"github.com/nspcc-dev/neofs-node/pkg/local_object_storage/shard/mode"
	putsvc "github.com/nspcc-dev/neofs-node/pkg/services/object/put"
	objutil "github.com/nspcc-dev/neofs-node/pkg/services/object/util"
	"github.com/nspcc-dev/neofs-node/pkg/services/replicator"
	apistatus "github.com/nspcc-dev/neofs-sdk-go/client/status"
	cid "github.com/nspcc-dev/neofs-sdk-go/container/id"
	neofscrypto "github.com/nspcc-dev/neofs-sdk-go/crypto"
	neofscryptotest "github.com/nspcc-dev/neofs-sdk-go/crypto/test"
	"github.com/nspcc-dev/neofs-sdk-go/netmap"
	"github.com/nspcc-dev/neofs-sdk-go/object"
	oid "github.com/nspcc-dev/neofs-sdk-go/object/id"
	"go.uber.org/zap"
)

// ---------------------------------------------------------------------------------------
// C26: the policer removes its local copy of an object / EC part only when enough other
// nodes are CONFIRMED to hold it for every rule that lists the local node.
//
// Workload: the real Policer.processObject (check.go, ec.go) wired to the real
// replicator.Replicator.HandleTask (process.go, through the real putsvc.RemoteSender) is
// driven over placements of 1-5 nodes per list and 1-2 rules.  Only the outermost
// interfaces are faked: Network (placement), apiConnections (remote HEAD / RANGE), the
// policer's local storage (records Delete / DeleteRedundantCopies) and the API client
// constructor of the remote sender (per-node replication success / failure).  The
// replicator reads object bytes from a real one-shard StorageEngine.
//
// Oracle (from the statement only, never from policer state): the fakes record the
// ground truth "header of THIS object was returned by node X" and "replication of THIS
// object to node X returned success".  On every recorded local Delete:
//   - LOCK / LINK whose local node is listed by any rule: violation;
//   - every REP list that contains the local node must contain >= N other confirmed nodes;
//   - an EC part needs >= 1 confirmed other node of its rule's list;
//   - TOMBSTONE broadcast over an EC list that contains the local node: >= 1 confirmed;
//   - local node listed nowhere: >= 1 confirmed node (weakest reading of "enough").
// Maintenance (flag or status) and failing nodes are never confirmations.
// ---------------------------------------------------------------------------------------

type vf26St uint8

const (
	vf26Has   vf26St = iota // holds the object, answers HEAD with the header
	vf26NFOK                // answers "not found", replication to it succeeds
	vf26NFKO                // answers "not found", replication to it fails
	vf26MFlag               // flagged MAINTENANCE in the network map (answers NODE_UNDER_MAINTENANCE if contacted)
	vf26MStat               // online in the map but answers NODE_UNDER_MAINTENANCE
	vf26Err                 // unreachable: every call fails
	vf26NumSt
)

var vf26StNames = [...]string{"has", "nf+repOK", "nf+repFail", "maint-flag", "maint-status", "error"}

const vf26MaxID = 8 // node ids: 0 = local node, 1..7 remote

// vf26Case is the replayable description of one placement.
type vf26Case struct {
	Kind       string   `json:"kind"`
	Type       string   `json:"type"`
	Lists      [][]int  `json:"lists"` // node ids per list, REP lists first then EC lists
	Rep        []uint   `json:"rep"`
	EC         []string `json:"ec"`
	ECRuleIdx  int      `json:"ec_rule_idx"` // >=0: the local object is an EC part of this rule
	ECPartIdx  int      `json:"ec_part_idx"`
	Status     []string `json:"status"` // by node id (index 0 unused)
	InNetmap   bool     `json:"local_in_netmap"`
	Shards     int      `json:"shards"`
	OtherParts string   `json:"other_parts"`
	Flavor     int      `json:"error_flavor"`
	// multi-shard part only: size of the real engine, positions of the shards holding a copy
	// in the engine's own order of preference for the object (0 = most preferred), how the
	// first copy was written
	NShards     int    `json:"engine_shards,omitempty"`
	HolderRanks []int  `json:"holder_shard_ranks,omitempty"`
	PutMode     string `json:"put_mode,omitempty"`

	typ     object.Type
	st      [vf26MaxID]vf26St
	ecRules []iec.Rule
}

func (c *vf26Case) finish() {
	c.Status = make([]string, vf26MaxID)
	used := [vf26MaxID]bool{}
	for _, l := range c.Lists {
		for _, id := range l {
			used[id] = true
		}
	}
	for i := 1; i < vf26MaxID; i++ {
		if used[i] {
			c.Status[i] = vf26StNames[c.st[i]]
		}
	}
	c.Type = c.typ.String()
	c.EC = c.EC[:0]
	for _, r := range c.ecRules {
		c.EC = append(c.EC, r.String())
	}
}

type vf26Del struct {
	addr oid.Address
	mark engine.GarbageMark
}

// vf26World is the per-case state of the fakes: hidden truth + what was observed.
type vf26World struct {
	c   *vf26Case
	set *vf26ECSet // EC material of the case (nil for non-EC objects)

	mu        sync.Mutex
	obj       oid.Address
	stored    [vf26MaxID]bool // replication of the object reached the node
	headOK    [vf26MaxID]bool // header of the object was returned by the node
	replOK    [vf26MaxID]bool // replication of the object to the node returned success
	nfSeen    [vf26MaxID]bool // node answered "not found" for the object
	submitted [vf26MaxID]int  // TaskResult submissions per node
	anyReplOK [vf26MaxID]bool // any successful replication call to the node (incl. recreated parts)
	heads     int
	partHeads int
	repls     int
	replFails int
	tasks     int
	deletes   []vf26Del
	redundant [][]string
	localPuts int
	// multi-shard part: the object is gone from the real engine (after GC) although the
	// policer never called Delete - what it called instead
	lostVia string
}

type vf26Harness struct {
	r   *verifkit.Run
	t   *testing.T
	p   *Policer
	eng *engine.StorageEngine
	w   *vf26World

	nodes  [vf26MaxID]netmap.NodeInfo // online variants
	mnodes [vf26MaxID]netmap.NodeInfo // MAINTENANCE variants
	cnr    cid.ID
	objs   map[object.Type]oid.Address
	ecSets map[string]*vf26ECSet
	signer neofscrypto.Signer
	rng    *rand.Rand
}

type vf26ECSet struct {
	rule    iec.Rule
	ruleIdx int
	parent  object.Object // header only
	parts   []object.Object
}

func vf26Key(id int) []byte {
	k := make([]byte, 33)
	k[0] = 2
	copy(k[1:], "verif-c26-node")
	k[32] = byte(id)
	return k
}

func vf26ID(n netmap.NodeInfo) int {
	k := n.PublicKey()
	if len(k) != 33 {
		return -1
	}
	return int(k[32])
}

type vf26Epoch struct{}

func (vf26Epoch) CurrentEpoch() uint64 { return 0 }

func vf26NewEngine(t *testing.T, nShards int) *engine.StorageEngine {
	dir := t.TempDir()
	e := engine.New(engine.WithLogger(zap.NewNop()))
	for i := 0; i < nShards; i++ {
		sfx := strconv.Itoa(i)
		opts := []shard.Option{
			shard.WithLogger(zap.NewNop()),
			shard.WithBlobstor(fstree.New(fstree.WithPath(filepath.Join(dir, "fstree"+sfx)), fstree.WithDepth(1), fstree.WithNoSync(true))),
			shard.WithMetaBaseOptions(
				meta.WithPath(filepath.Join(dir, "meta"+sfx)),
				meta.WithPermissions(0o700),
				meta.WithEpochState(vf26Epoch{}),
				meta.WithLogger(zap.NewNop()),
				meta.WithMaxBatchDelay(time.Microsecond),
				meta.WithBoltDBOptions(&bbolt.Options{NoSync: true, Timeout: time.Second}),
			),
		}
		if nShards > 1 {
			// the shard's own GC timer must not take part: the monitor runs GC passes itself
			opts = append(opts, shard.WithGCRemoverSleepInterval(24*time.Hour))
		}
		if _, err := e.AddShard(opts...); err != nil {
			t.Fatalf("harness: add shard: %v", err)
		}
	}
	if err := e.Init(); err != nil {
		t.Fatalf("harness: engine init: %v", err)
	}
	t.Cleanup(func() { _ = e.Close() })
	return e
}

func vf26NewHarness(t *testing.T, r *verifkit.Run, nShards int) *vf26Harness {
	h := &vf26Harness{r: r, t: t, objs: map[object.Type]oid.Address{}, ecSets: map[string]*vf26ECSet{}}
	h.rng = r.Rand("setup", 0)
	h.signer = neofscryptotest.Signer()
	h.cnr = verifkit.RandCID(h.rng)
	for i := 0; i < vf26MaxID; i++ {
		h.nodes[i].SetPublicKey(vf26Key(i))
		h.nodes[i].SetNetworkEndpoints("/dns4/verif-node-" + strconv.Itoa(i) + "/tcp/8080")
		h.nodes[i].SetOnline()
		h.mnodes[i] = h.nodes[i]
		h.mnodes[i].SetMaintenance()
	}
	h.eng = vf26NewEngine(t, nShards)
	owner := verifkit.RandUser(h.rng)
	for _, typ := range []object.Type{object.TypeRegular, object.TypeTombstone, object.TypeLock, object.TypeLink} {
		if nShards > 1 {
			break // the multi-shard part stores a fresh real object per case
		}
		// The stored bytes are only what the replicator ships; the policer learns the type
		// from the listing entry, so a plain object is stored under every address.
		o := verifkit.NewObject(h.rng, h.cnr, owner, 32)
		if err := h.eng.Put(context.Background(), o, nil); err != nil {
			t.Fatalf("harness: engine put: %v", err)
		}
		h.objs[typ] = verifkit.Addr(o)
	}

	key, err := ecdsa.GenerateKey(elliptic.P256(), crand.Reader)
	if err != nil {
		t.Fatalf("harness: key: %v", err)
	}
	net := &vf26Net{h: h}
	repl := replicator.New(
		replicator.WithLogger(zap.NewNop()),
		replicator.WithPutTimeout(time.Minute),
		replicator.WithLocalStorage(h.eng),
		replicator.WithLocalNodeKey(net),
		replicator.WithRemoteSender(putsvc.NewRemoteSender(objutil.NewKeyStorage(key, nil, nil), &vf26Cons{h: h})),
	)
	h.p = New(h.signer,
		WithNetwork(net),
		WithLogger(zap.NewNop()),
		WithHeadTimeout(time.Minute),
	)
	h.p.localStorage = &vf26Local{h: h}
	if nShards > 1 {
		h.p.localStorage = &vf26ShardLocal{StorageEngine: h.eng, h: h}
	}
	h.p.apiConns = &vf26Conns{h: h}
	h.p.replicator = &vf26Repl{h: h, real: repl}
	return h
}

// ecSet returns (building and storing on first use) the parent + part objects of a rule.
func (h *vf26Harness) ecSet(rule iec.Rule, ruleIdx int) *vf26ECSet {
	k := rule.String() + "#" + strconv.Itoa(ruleIdx)
	if s, ok := h.ecSets[k]; ok {
		return s
	}
	rng := h.r.Rand("ecset-"+k, 0)
	full := verifkit.NewObject(rng, h.cnr, verifkit.RandUser(rng), 61)
	payload := full.Payload()
	parent := *full.CutPayload()
	parts, _, err := iec.Encode(rule, payload)
	if err != nil {
		h.t.Fatalf("harness: ec encode %s: %v", rule, err)
	}
	s := &vf26ECSet{rule: rule, ruleIdx: ruleIdx, parent: parent}
	for i := range parts {
		po, err := iec.FormObjectForECPart(h.signer, parent, parts[i], iec.PartInfo{RuleIndex: ruleIdx, Index: i})
		if err != nil {
			h.t.Fatalf("harness: form ec part: %v", err)
		}
		if err := h.eng.Put(context.Background(), &po, nil); err != nil {
			h.t.Fatalf("harness: engine put ec part: %v", err)
		}
		s.parts = append(s.parts, po)
	}
	h.ecSets[k] = s
	return s
}

// ---- fakes ---------------------------------------------------------------------------

type vf26Net struct{ h *vf26Harness }

func (n *vf26Net) IsLocalNodeInNetmap() bool { return n.h.w.c.InNetmap }
func (n *vf26Net) IsLocalNodePublicKey(k []byte) bool {
	return len(k) == 33 && k[32] == 0 && bytes.Equal(k, vf26Key(0))
}
func (n *vf26Net) GetNodesForObject(oid.Address) ([][]netmap.NodeInfo, []uint, []iec.Rule, error) {
	c := n.h.w.c
	res := make([][]netmap.NodeInfo, len(c.Lists))
	for i, l := range c.Lists {
		res[i] = make([]netmap.NodeInfo, len(l))
		for j, id := range l {
			if id != 0 && c.st[id] == vf26MFlag {
				res[i][j] = n.h.mnodes[id]
			} else {
				res[i][j] = n.h.nodes[id]
			}
		}
	}
	return res, append([]uint(nil), c.Rep...), append([]iec.Rule(nil), c.ecRules...), nil
}

func vf26NotFound(flavor int) error {
	switch flavor % 3 {
	case 0:
		return apistatus.ErrObjectNotFound
	case 1:
		return fmt.Errorf("remote node: %w", apistatus.ErrObjectNotFound)
	default:
		return new(apistatus.ObjectNotFound)
	}
}

func vf26Maint(flavor int) error {
	if flavor%2 == 0 {
		return apistatus.ErrNodeUnderMaintenance
	}
	return fmt.Errorf("status: %w", new(apistatus.NodeUnderMaintenance))
}

func vf26Unreach(flavor int) error {
	switch flavor % 3 {
	case 0:
		return errors.New("connection refused")
	case 1:
		return context.DeadlineExceeded
	default:
		return fmt.Errorf("rpc failure: %w", io.ErrUnexpectedEOF)
	}
}

type vf26Conns struct{ h *vf26Harness }

func vf26PartIdxFromX(xs []string) int {
	for i := 0; i+1 < len(xs); i += 2 {
		if xs[i] == iec.AttributePartIdx {
			n, err := strconv.Atoi(xs[i+1])
			if err == nil {
				return n
			}
		}
	}
	return -1
}

func (x *vf26Conns) headObject(_ context.Context, node netmap.NodeInfo, addr oid.Address, _ bool, xs []string) (object.Object, error) {
	w := x.h.w
	id := vf26ID(node)
	w.mu.Lock()
	defer w.mu.Unlock()
	if id <= 0 || id >= vf26MaxID {
		return object.Object{}, errors.New("[verif] HEAD sent to the local/unknown node")
	}
	c := w.c
	switch c.st[id] {
	case vf26MFlag, vf26MStat:
		w.heads++
		return object.Object{}, vf26Maint(c.Flavor + id)
	case vf26Err:
		w.heads++
		return object.Object{}, vf26Unreach(c.Flavor + id)
	default:
	}
	if len(xs) > 0 { // "part of parent by indexes" request of the EC parts check
		w.partHeads++
		pi := vf26PartIdxFromX(xs)
		if w.set == nil || c.OtherParts != "found" || pi < 0 || pi >= len(w.set.parts) || addr.Object() != w.set.parent.GetID() {
			return object.Object{}, vf26NotFound(c.Flavor + id)
		}
		return *w.set.parts[pi].CutPayload(), nil
	}
	w.heads++
	if addr != w.obj {
		return object.Object{}, vf26NotFound(c.Flavor + id)
	}
	if c.st[id] == vf26Has || w.stored[id] {
		w.headOK[id] = true
		if w.set != nil {
			return *w.set.parts[c.ECPartIdx].CutPayload(), nil
		}
		return object.Object{}, nil
	}
	w.nfSeen[id] = true
	return object.Object{}, vf26NotFound(c.Flavor + id)
}

func (x *vf26Conns) GetRange(_ context.Context, node netmap.NodeInfo, _ cid.ID, parent oid.ID, off, ln uint64, xs []string) (io.ReadCloser, error) {
	w := x.h.w
	id := vf26ID(node)
	w.mu.Lock()
	defer w.mu.Unlock()
	if id <= 0 || id >= vf26MaxID {
		return nil, errors.New("[verif] RANGE sent to the local/unknown node")
	}
	c := w.c
	switch c.st[id] {
	case vf26MFlag, vf26MStat:
		return nil, vf26Maint(c.Flavor + id)
	case vf26Err:
		return nil, vf26Unreach(c.Flavor + id)
	default:
	}
	pi := vf26PartIdxFromX(xs)
	if w.set == nil || c.OtherParts != "found" || pi < 0 || pi >= len(w.set.parts) || parent != w.set.parent.GetID() {
		return nil, vf26NotFound(c.Flavor + id)
	}
	b := w.set.parts[pi].Payload()
	if off > uint64(len(b)) {
		return nil, apistatus.ErrObjectOutOfRange
	}
	b = b[off:]
	if ln > 0 && ln < uint64(len(b)) {
		b = b[:ln]
	}
	return io.NopCloser(bytes.NewReader(b)), nil
}

type vf26Local struct{ h *vf26Harness }

func (l *vf26Local) ListWithCursor(context.Context, uint32, *engine.Cursor, ...string) ([]objectcore.AddressWithAttributes, *engine.Cursor, error) {
	return nil, nil, engine.ErrEndOfListing
}
func (l *vf26Local) Delete(_ context.Context, a oid.Address, m engine.GarbageMark) error {
	w := l.h.w
	w.mu.Lock()
	w.deletes = append(w.deletes, vf26Del{a, m})
	w.mu.Unlock()
	return nil
}
func (l *vf26Local) DeleteRedundantCopies(_ context.Context, a oid.Address, ids []string) error {
	w := l.h.w
	w.mu.Lock()
	w.redundant = append(w.redundant, append([]string{a.String()}, ids...))
	w.mu.Unlock()
	return nil
}
func (l *vf26Local) Put(context.Context, *object.Object, []byte) error {
	w := l.h.w
	w.mu.Lock()
	w.localPuts++
	w.mu.Unlock()
	return nil
}
func (l *vf26Local) Head(_ context.Context, a oid.Address, _ bool) (*object.Object, error) {
	w := l.h.w
	if w.set != nil && a.Object() == w.set.parent.GetID() {
		p := w.set.parent
		return &p, nil
	}
	return nil, apistatus.ErrObjectNotFound
}
func (l *vf26Local) HeadECPart(context.Context, cid.ID, oid.ID, iec.PartInfo) (object.Object, error) {
	return object.Object{}, apistatus.ErrObjectNotFound // the local node holds only the part under check
}
func (l *vf26Local) GetRange(_ context.Context, a oid.Address, off, ln uint64) ([]byte, error) {
	w := l.h.w
	if w.set == nil {
		return nil, apistatus.ErrObjectNotFound
	}
	for i := range w.set.parts {
		if w.set.parts[i].GetID() == a.Object() {
			b := w.set.parts[i].Payload()
			if off > uint64(len(b)) {
				return nil, apistatus.ErrObjectOutOfRange
			}
			b = b[off:]
			if ln > 0 && ln < uint64(len(b)) {
				b = b[:ln]
			}
			return bytes.Clone(b), nil
		}
	}
	return nil, apistatus.ErrObjectNotFound
}

// vf26ShardLocal is the policer's local storage of the multi-shard part: the REAL
// StorageEngine; Delete and DeleteRedundantCopies are recorded and then executed by it.
type vf26ShardLocal struct {
	*engine.StorageEngine
	h *vf26Harness
}

func (l *vf26ShardLocal) Delete(ctx context.Context, a oid.Address, m engine.GarbageMark) error {
	w := l.h.w
	w.mu.Lock()
	w.deletes = append(w.deletes, vf26Del{a, m})
	w.mu.Unlock()
	return l.StorageEngine.Delete(ctx, a, m)
}

func (l *vf26ShardLocal) DeleteRedundantCopies(ctx context.Context, a oid.Address, ids []string) error {
	w := l.h.w
	w.mu.Lock()
	w.redundant = append(w.redundant, append([]string{a.String()}, ids...))
	w.mu.Unlock()
	return l.StorageEngine.DeleteRedundantCopies(ctx, a, ids)
}

// vf26Repl forwards every task to the REAL replicator and records what it reports.
type vf26Repl struct {
	h    *vf26Harness
	real *replicator.Replicator
}

type vf26Res struct {
	w     *vf26World
	inner replicator.TaskResult
}

func (r *vf26Res) SubmitSuccessfulReplication(n netmap.NodeInfo) {
	if id := vf26ID(n); id >= 0 && id < vf26MaxID {
		r.w.mu.Lock()
		r.w.submitted[id]++
		r.w.mu.Unlock()
	}
	r.inner.SubmitSuccessfulReplication(n)
}

func (x *vf26Repl) HandleTask(ctx context.Context, task replicator.Task, res replicator.TaskResult) {
	w := x.h.w
	w.mu.Lock()
	w.tasks++
	w.mu.Unlock()
	x.real.HandleTask(ctx, task, &vf26Res{w: w, inner: res})
}

// vf26Cons / vf26Client: the "remote node" end of replication.
type vf26Cons struct{ h *vf26Harness }

func (c *vf26Cons) Get(_ context.Context, n netmap.NodeInfo) (clientcore.MultiAddressClient, error) {
	id := vf26ID(n)
	w := c.h.w
	if id <= 0 || id >= vf26MaxID {
		return nil, errors.New("[verif] dial to the local/unknown node")
	}
	if w.c.st[id] == vf26Err && (w.c.Flavor+id)%2 == 0 {
		w.mu.Lock()
		w.repls++
		w.replFails++
		w.mu.Unlock()
		return nil, errors.New("dial: no route to host")
	}
	return &vf26Client{h: c.h, id: id}, nil
}

type vf26Client struct {
	clientcore.MultiAddressClient // nil: any other call is a harness panic
	h                             *vf26Harness
	id                            int
}

func (c *vf26Client) ReplicateObject(_ context.Context, id oid.ID, src io.ReadSeeker, _ neofscrypto.Signer, _ bool) (*neofscrypto.Signature, error) {
	b, err := vf26ReadMsg(src)
	if err != nil {
		return nil, err
	}
	w := c.h.w
	w.mu.Lock()
	defer w.mu.Unlock()
	w.repls++
	fail := func(e error) (*neofscrypto.Signature, error) {
		w.replFails++
		return nil, e
	}
	if len(b) == 0 {
		return fail(errors.New("empty replication message"))
	}
	cs := w.c
	switch cs.st[c.id] {
	case vf26MFlag, vf26MStat:
		return fail(vf26Maint(cs.Flavor + c.id))
	case vf26Err:
		return fail(vf26Unreach(cs.Flavor + c.id))
	case vf26NFKO:
		switch (cs.Flavor + c.id) % 3 {
		case 0:
			return fail(errors.New("remote storage: no space left on device"))
		case 1:
			return fail(fmt.Errorf("replicate: %w", context.DeadlineExceeded))
		default:
			return fail(fmt.Errorf("replicate: %w", context.Canceled))
		}
	default: // has (idempotent accept) or nf+repOK
	}
	w.anyReplOK[c.id] = true
	if id == w.obj.Object() {
		w.stored[c.id] = true
		w.replOK[c.id] = true
	}
	return nil, nil
}

// ---- running and judging one case ----------------------------------------------------

func vf26Contains(l []int, id int) bool {
	for _, x := range l {
		if x == id {
			return true
		}
	}
	return false
}

func (h *vf26Harness) run(c *vf26Case) {
	r := h.r
	w := &vf26World{c: c}
	obj := objectcore.AddressWithAttributes{Type: c.typ, Attributes: make([]string, 3)}
	if c.ECRuleIdx >= 0 {
		w.set = h.ecSet(c.ecRules[c.ECRuleIdx], c.ECRuleIdx)
		part := w.set.parts[c.ECPartIdx]
		obj.Address = oid.NewAddress(h.cnr, part.GetID())
		pid := w.set.parent.GetID()
		obj.Attributes = []string{strconv.Itoa(c.ECRuleIdx), strconv.Itoa(c.ECPartIdx), string(pid[:])}
	} else {
		obj.Address = h.objs[c.typ]
	}
	for i := 0; i < c.Shards; i++ {
		obj.ShardIDs = append(obj.ShardIDs, "shard-"+strconv.Itoa(i))
	}
	w.obj = obj.Address
	h.w = w

	r.Eval(1)
	if r.Guard(c, func() { h.p.processObject(context.Background(), obj) }) {
		c.finish()
		return
	}
	h.judge(c, w, obj)
}

func (h *vf26Harness) judge(c *vf26Case, w *vf26World, obj objectcore.AddressWithAttributes) {
	r := h.r
	w.mu.Lock()
	defer w.mu.Unlock()

	confirmed := func(l []int) int {
		n := 0
		for _, id := range l {
			if id != 0 && (w.headOK[id] || w.replOK[id]) {
				n++
			}
		}
		return n
	}
	// why the code may have believed in more holders than were confirmed
	reason := func(l [][]int, deficit int) string {
		var maint, unreach, failed int
		seen := [vf26MaxID]bool{}
		for _, ll := range l {
			for _, id := range ll {
				if id == 0 || seen[id] {
					continue
				}
				seen[id] = true
				switch c.st[id] {
				case vf26MFlag, vf26MStat:
					maint++
				case vf26Err:
					unreach++
				case vf26NFKO:
					failed++
				default:
				}
			}
		}
		switch {
		case maint >= deficit:
			return "maintenance-counted"
		case maint+unreach >= deficit:
			return "unreachable-counted"
		case maint+unreach+failed >= deficit:
			return "failed-replication-counted"
		default:
			return "nothing-to-count"
		}
	}
	cand := "no-candidates"
	for id := 1; id < vf26MaxID; id++ {
		if w.nfSeen[id] {
			cand = "candidates"
		}
	}
	vio := func(key, what string) {
		c.finish()
		r.Violation(key, what, map[string]any{"case": c, "head_ok": w.headOK, "repl_ok": w.replOK, "submitted": w.submitted,
			"delete_calls": len(w.deletes), "delete_redundant_copies_calls": w.redundant})
	}

	// replicator reports vs what the remote end saw
	for id := 0; id < vf26MaxID; id++ {
		if w.submitted[id] == 0 {
			continue
		}
		r.Count("replication_success_reports", w.submitted[id])
		if id == 0 {
			continue // local put of a recreated part (stored by the real engine)
		}
		if !w.anyReplOK[id] {
			vio("replicator-false-success|"+vf26StNames[c.st[id]], fmt.Sprintf("replicator reported success for node %d (%s) which accepted nothing", id, vf26StNames[c.st[id]]))
		}
	}

	r.Count("head_calls", w.heads)
	r.Count("ec_part_head_calls", w.partHeads)
	r.Count("replicate_calls", w.repls)
	r.Count("replicate_calls_failed", w.replFails)
	r.Count("replication_tasks", w.tasks)
	if len(w.redundant) > 0 {
		r.Count("delete_redundant_shard_copies_calls", len(w.redundant))
		for _, rc := range w.redundant {
			if rc[0] != obj.Address.String() || len(rc)-1 != len(obj.ShardIDs) {
				vio("shard-dedup-wrong-args", fmt.Sprintf("DeleteRedundantCopies called with %v for object %s on shards %v", rc, obj.Address, obj.ShardIDs))
			}
		}
	}

	isEC := c.ECRuleIdx >= 0
	nRep := len(c.Rep)
	path := "held"
	if len(w.deletes) > 0 {
		r.Count("removals_judged", len(w.deletes))
		r.Seen("garbage_marks_seen", strconv.Itoa(int(w.deletes[0].mark)))
	}
	// A removal is a local Delete call or - multi-shard part - the object being gone from
	// the node's real engine after the policer's call: for the node it is the same outcome.
	removals := w.deletes
	pfx, how := "", ""
	if w.lostVia != "" {
		removals = append(removals[:len(removals):len(removals)], vf26Del{addr: obj.Address})
		pfx = "no-local-copy-left-after-" + w.lostVia + "|"
		how = fmt.Sprintf(" (no Delete call: the object, held by shards at positions %v of %d in the engine's order of preference, is gone from every shard after %s and GC)", c.HolderRanks, c.NShards, w.lostVia)
		r.Count("removals_judged", 1)
	}
	for _, d := range removals {
		if d.addr != obj.Address {
			vio("delete-foreign-address", fmt.Sprintf("Delete(%s) while checking %s", d.addr, obj.Address))
			continue
		}
		localListed := false
		for _, l := range c.Lists {
			localListed = localListed || vf26Contains(l, 0)
		}
		if (c.typ == object.TypeLock || c.typ == object.TypeLink) && localListed {
			path = "lock-link"
			vio(pfx+"lock-link-removed-from-container-node|"+c.typ.String()+"|"+c.Kind, c.typ.String()+" object removed from a node listed by the container policy"+how)
			continue
		}
		switch {
		case isEC:
			l := c.Lists[nRep+c.ECRuleIdx]
			path = "ec-part"
			if !vf26Contains(l, 0) {
				path = "ec-part-outside"
			}
			if confirmed(l) < 1 {
				vio(pfx+path+"|"+reason([][]int{l}, 1), fmt.Sprintf("EC part removed with 0 confirmed holders in its rule's list %v", l)+how)
			}
		default:
			listed := false
			for i, l := range c.Lists {
				if !vf26Contains(l, 0) {
					continue
				}
				need := 1 // broadcast TOMBSTONE over an EC list: weakest reading
				if i < nRep {
					need = int(c.Rep[i])
				} else if c.typ == object.TypeRegular {
					continue // whole REGULAR objects are not governed by EC rules
				}
				listed = true
				path = "in-container"
				if got := confirmed(l); got < need {
					vio(pfx+"in-container|"+reason([][]int{l}, need-got)+"|"+cand,
						fmt.Sprintf("local copy removed: list %d %v requires %d confirmed other holders, %d confirmed", i, l, need, got)+how)
				}
			}
			if !listed {
				path = "outside-container"
				all := c.Lists
				if c.typ == object.TypeRegular {
					all = c.Lists[:nRep]
				}
				got := 0
				for _, l := range all {
					got += confirmed(l)
				}
				if got < 1 {
					vio(pfx+"outside-container|"+reason(all, 1), "local copy of a node outside the container removed with 0 confirmed holders"+how)
				}
			}
		}
	}
	r.Count("outcome_"+path, 1)
	r.Seen("kinds_seen", c.Kind+"/"+c.typ.String())
	for id := 1; id < vf26MaxID; id++ {
		if w.headOK[id] {
			r.Count("confirmations_by_header", 1)
		}
		if w.replOK[id] {
			r.Count("confirmations_by_replication", 1)
		}
	}
	r.Distinct(vf26Sig(c))
	if (len(w.deletes) > 0 && (c.Kind == "rep2" || c.Kind == "mixed" || isEC)) || (c.NShards > 0 && len(c.HolderRanks) > 1 && c.HolderRanks[0] > 0) {
		c.finish()
		r.Sample(map[string]any{"case": c, "removed": true, "path": path})
	}
}

func vf26Sig(c *vf26Case) string {
	var b strings.Builder
	fmt.Fprintf(&b, "%s|%d|%v|%v|%v|%d|%d|%v|%d|%s|%d%v%s|", c.Kind, c.typ, c.Lists, c.Rep, c.ecRules, c.ECRuleIdx, c.ECPartIdx, c.InNetmap, c.Shards, c.OtherParts,
		c.NShards, c.HolderRanks, c.PutMode)
	for _, l := range c.Lists {
		for _, id := range l {
			if id != 0 {
				b.WriteByte('0' + byte(c.st[id]))
			}
		}
		b.WriteByte('/')
	}
	return b.String()
}

// ---- case generators -----------------------------------------------------------------

var vf26Types = []object.Type{object.TypeRegular, object.TypeTombstone, object.TypeLock, object.TypeLink}

// all placements with ONE replication rule over n nodes: local position, copies number,
// every status vector of the remote nodes, every object type.
func (h *vf26Harness) enumRep1(n int) {
	for pos := -1; pos < n; pos++ {
		list := make([]int, n)
		var remotes []int
		next := 1
		for i := range list {
			if i == pos {
				list[i] = 0
			} else {
				list[i] = next
				remotes = append(remotes, next)
				next++
			}
		}
		total := 1
		for range remotes {
			total *= int(vf26NumSt)
		}
		for copies := 1; copies <= n; copies++ {
			for v := 0; v < total; v++ {
				for ti, typ := range vf26Types {
					netmaps := []bool{true}
					if pos < 0 {
						netmaps = []bool{true, false}
					}
					for _, inNM := range netmaps {
						c := &vf26Case{Kind: "rep1", typ: typ, Lists: [][]int{list}, Rep: []uint{uint(copies)}, ECRuleIdx: -1, ECPartIdx: -1,
							InNetmap: inNM, Shards: 1 + (v+ti+copies)%3/2, Flavor: v + ti}
						x := v
						for _, id := range remotes {
							c.st[id] = vf26St(x % int(vf26NumSt))
							x /= int(vf26NumSt)
						}
						h.run(c)
					}
				}
			}
		}
	}
}

var vf26Rules = []iec.Rule{{DataPartNum: 1, ParityPartNum: 1}, {DataPartNum: 2, ParityPartNum: 1}, {DataPartNum: 1, ParityPartNum: 2},
	{DataPartNum: 2, ParityPartNum: 2}, {DataPartNum: 3, ParityPartNum: 1}, {DataPartNum: 3, ParityPartNum: 2}, {DataPartNum: 4, ParityPartNum: 1}}

// all placements with ONE EC rule over n nodes for an EC part held locally.
func (h *vf26Harness) enumEC1(n int) {
	for _, rule := range vf26Rules {
		parts := int(rule.DataPartNum + rule.ParityPartNum)
		if parts > n {
			continue
		}
		for pos := -1; pos < n; pos++ {
			list := make([]int, n)
			var remotes []int
			next := 1
			for i := range list {
				if i == pos {
					list[i] = 0
				} else {
					list[i] = next
					remotes = append(remotes, next)
					next++
				}
			}
			total := 1
			for range remotes {
				total *= int(vf26NumSt)
			}
			for part := 0; part < parts; part++ {
				for v := 0; v < total; v++ {
					for mi, mode := range []string{"found", "missing"} {
						c := &vf26Case{Kind: "ec1", typ: object.TypeRegular, Lists: [][]int{list}, ecRules: []iec.Rule{rule}, ECRuleIdx: 0, ECPartIdx: part,
							InNetmap: true, Shards: 1 + (v+part)%4/3, OtherParts: mode, Flavor: v + mi}
						x := v
						for _, id := range remotes {
							c.st[id] = vf26St(x % int(vf26NumSt))
							x /= int(vf26NumSt)
						}
						h.run(c)
					}
				}
			}
		}
	}
}

// seeded placements with two rules (REP+REP, EC+EC, REP+EC) whose lists share nodes.
func (h *vf26Harness) randomTwoRules(idx int) {
	h.run(vf26GenTwoRules(h.r.Rand("two-rules", idx)))
}

func vf26GenTwoRules(rng *rand.Rand) *vf26Case {
	c := &vf26Case{ECRuleIdx: -1, ECPartIdx: -1, InNetmap: rng.IntN(8) != 0, Shards: 1 + rng.IntN(3)/2, Flavor: rng.IntN(6)}
	universe := 3 + rng.IntN(5) // ids 0..universe-1 (0 = local)
	if universe > vf26MaxID {
		universe = vf26MaxID
	}
	// status distribution: bias towards the interesting mixes
	for id := 1; id < vf26MaxID; id++ {
		c.st[id] = vf26St(rng.IntN(int(vf26NumSt)))
	}
	mkList := func(minLen int) []int {
		n := minLen + rng.IntN(5-minLen+1)
		if n > universe {
			n = universe
		}
		perm := rng.Perm(universe)
		withLocal := rng.IntN(10) < 6
		var l []int
		for _, id := range perm {
			if id == 0 && !withLocal {
				continue
			}
			if len(l) < n {
				l = append(l, id)
			}
		}
		if withLocal && !vf26Contains(l, 0) {
			l[rng.IntN(len(l))] = 0
		}
		return l
	}
	pickRule := func(n int) iec.Rule {
		for {
			rl := vf26Rules[rng.IntN(len(vf26Rules))]
			if int(rl.DataPartNum+rl.ParityPartNum) <= n {
				return rl
			}
		}
	}
	switch k := rng.IntN(10); {
	case k < 5: // REP + REP
		c.Kind = "rep2"
		c.typ = vf26Types[rng.IntN(len(vf26Types))]
		for i := 0; i < 2; i++ {
			l := mkList(1)
			c.Lists = append(c.Lists, l)
			c.Rep = append(c.Rep, uint(1+rng.IntN(len(l))))
		}
	case k < 7: // EC + EC, the local object is a part of one of them
		c.Kind = "ec2"
		c.typ = object.TypeRegular
		for i := 0; i < 2; i++ {
			l := mkList(2)
			c.Lists = append(c.Lists, l)
			c.ecRules = append(c.ecRules, pickRule(len(l)))
		}
		c.ECRuleIdx = rng.IntN(2)
		rl := c.ecRules[c.ECRuleIdx]
		c.ECPartIdx = rng.IntN(int(rl.DataPartNum + rl.ParityPartNum))
		c.OtherParts = []string{"found", "missing"}[rng.IntN(2)]
	default: // REP + EC
		c.Kind = "mixed"
		l := mkList(1)
		c.Lists = append(c.Lists, l)
		c.Rep = append(c.Rep, uint(1+rng.IntN(len(l))))
		l2 := mkList(2)
		c.Lists = append(c.Lists, l2)
		c.ecRules = append(c.ecRules, pickRule(len(l2)))
		if rng.IntN(3) == 0 {
			c.typ = object.TypeRegular
			c.ECRuleIdx = 0
			rl := c.ecRules[0]
			c.ECPartIdx = rng.IntN(int(rl.DataPartNum + rl.ParityPartNum))
			c.OtherParts = []string{"found", "missing"}[rng.IntN(2)]
		} else {
			c.typ = vf26Types[rng.IntN(len(vf26Types))]
		}
	}
	return c
}

// seeded EC-only container with non-part system objects (TOMBSTONE/LOCK/LINK broadcast).
func (h *vf26Harness) randomECSystem(idx int) {
	rng := h.r.Rand("ec-system", idx)
	c := &vf26Case{Kind: "ecsys", ECRuleIdx: -1, ECPartIdx: -1, InNetmap: true, Shards: 1, Flavor: rng.IntN(6)}
	c.typ = vf26Types[1+rng.IntN(3)]
	for id := 1; id < vf26MaxID; id++ {
		c.st[id] = vf26St(rng.IntN(int(vf26NumSt)))
	}
	rules := 1 + rng.IntN(2)
	for i := 0; i < rules; i++ {
		n := 2 + rng.IntN(4)
		perm := rng.Perm(6)
		var l []int
		withLocal := rng.IntN(10) < 6
		for _, id := range perm {
			if id == 0 && !withLocal {
				continue
			}
			if len(l) < n {
				l = append(l, id)
			}
		}
		c.Lists = append(c.Lists, l)
		for {
			rl := vf26Rules[rng.IntN(len(vf26Rules))]
			if int(rl.DataPartNum+rl.ParityPartNum) <= len(l) {
				c.ecRules = append(c.ecRules, rl)
				break
			}
		}
	}
	h.run(c)
}

func TestVerif_C26(t *testing.T) {
	r := verifkit.Start(t, "C26", "exploration")
	defer r.Finish()
	maxRep, maxEC := r.Pick(4, 5), r.Pick(4, 5)
	nTwo, nSys := r.Pick(60000, 1500000), r.Pick(10000, 200000)
	r.SetRule(fmt.Sprintf("exhaustive: one REP rule over 1..%d nodes x local position (or absent, in/out of netmap) x copies 1..n x 6 behaviours per remote node "+
		"(has / not-found+replication ok / not-found+replication fails / MAINTENANCE flag / NODE_UNDER_MAINTENANCE status / unreachable) x 4 object types; "+
		"one EC rule (7 rules, parts<=nodes) over 2..%d nodes x local position x part index x behaviours x sibling parts found/missing; "+
		"seeded: %d two-rule placements (REP+REP, EC+EC, REP+EC) with shared nodes, %d EC-only containers with TOMBSTONE/LOCK/LINK. "+
		"distinct = different (kind,type,lists,rules,part,behaviour vector,netmap,shards) tuples; every case contacts the real processObject and is judged",
		maxRep, maxEC, nTwo, nSys))
	r.Assume("remote nodes, network map, local storage and the API client are in-process fakes; the policer (check.go, ec.go) and the replicator (process.go) with the remote sender are the real code")
	r.Assume("objects consistent with the container policy only (no missing container, no EC part with an index outside the policy, no whole REGULAR object in an EC-only container)")
	r.Assume("a node flagged MAINTENANCE in the network map answers NODE_UNDER_MAINTENANCE when contacted")
	h := vf26NewHarness(t, r, 1)
	for n := 1; n <= maxRep; n++ {
		h.enumRep1(n)
	}
	for n := 2; n <= maxEC; n++ {
		h.enumEC1(n)
	}
	for i := 0; i < nTwo; i++ {
		h.randomTwoRules(i)
	}
	for i := 0; i < nSys; i++ {
		h.randomECSystem(i)
	}
	if r.Counter("removals_judged") == 0 {
		r.Inconclusive("the policer never removed a local copy: the oracle judged nothing")
	}
	if r.Counter("confirmations_by_replication") == 0 || r.Counter("confirmations_by_header") == 0 {
		r.Inconclusive("no confirmation by header / by replication was ever observed")
	}
}

// vf26ReadMsg consumes the replication source the way the SDK client does: a source wrapped
// by client.DemuxReplicatedObject is encoded once and the message is reused for every
// node; any other source is read from its CURRENT position (so a plain reader shared by
// several nodes is empty for the second one).
var (
	vf26MsgMu    sync.Mutex
	vf26MsgCache = map[io.ReadSeeker][]byte{}
)

func vf26ReadMsg(src io.ReadSeeker) ([]byte, error) {
	if strings.Contains(fmt.Sprintf("%T", src), "demux") {
		vf26MsgMu.Lock()
		defer vf26MsgMu.Unlock()
		if b, ok := vf26MsgCache[src]; ok {
			return b, nil
		}
		b, err := io.ReadAll(src)
		if err != nil {
			return nil, err
		}
		if len(vf26MsgCache) > 64 {
			clear(vf26MsgCache)
		}
		vf26MsgCache[src] = b
		return b, nil
	}
	return io.ReadAll(src)
}

// ---- multi-shard local copies on the REAL engine ---------------------------------------
//
// The statement includes multi-shard local copies.  When the policer decides that the node
// must keep the object it still asks the engine to drop the duplicated shard copies
// (DeleteRedundantCopies); when that call - or anything else the policer does - leaves the
// node without any copy, the node has dropped its local copy exactly as by Delete.  This
// part therefore uses the real multi-shard StorageEngine as the policer's local storage:
// a real object is written to a chosen set of shards (every non-empty set of positions in
// the engine's order of preference for the object, incl. sets without the most preferred
// shard - the state left by a shard that was read-only / absent at write time or by
// evacuation), the entry comes from the real ListWithCursor, the real processObject runs
// against a seeded placement, one GC pass runs on every shard, and then the object is
// looked up on the node.  Oracle: gone from the node => the confirmation rules of judge().

// vf26GenShardCase: whole REGULAR object under one or two REP rules (optionally an EC rule
// next to the REP rule, which does not govern whole objects).
func vf26GenShardCase(rng *rand.Rand) *vf26Case {
	var c *vf26Case
	if rng.IntN(2) == 0 {
		c = &vf26Case{Kind: "rep1", ECRuleIdx: -1, ECPartIdx: -1, InNetmap: true, Flavor: rng.IntN(6)}
		n := 1 + rng.IntN(5)
		pos := rng.IntN(n+2) - 1
		if pos >= n {
			pos = n - 1 // the tail position (local node least preferred) twice as likely
		}
		list := make([]int, n)
		next := 1
		for i := range list {
			if i != pos {
				list[i] = next
				next++
			}
		}
		if pos < 0 {
			c.InNetmap = rng.IntN(2) == 0
		}
		for id := 1; id < vf26MaxID; id++ {
			c.st[id] = vf26St(rng.IntN(int(vf26NumSt)))
		}
		c.Lists = [][]int{list}
		c.Rep = []uint{uint(1 + rng.IntN(n))}
	} else {
		for {
			c = vf26GenTwoRules(rng)
			if c.ECRuleIdx < 0 {
				break
			}
		}
	}
	c.typ = object.TypeRegular
	return c
}

type vf26ShardItem struct {
	c     *vf26Case
	w     *vf26World
	obj   *object.Object
	addr  oid.Address
	entry objectcore.AddressWithAttributes
	want  []string // IDs of the shards the object was written to
}

func (h *vf26Harness) gcAllShards() {
	for pass := 0; pass < 2; pass++ { // objects, then emptied containers
		for _, sh := range h.eng.Verif26SortedShards(oid.ID{}) {
			sh.Verif26RunGC()
		}
	}
}

// shardBatch runs k cases whose objects are held by the shards at the positions of mask.
func (h *vf26Harness) shardBatch(n, mask, k, batchIdx int) {
	r, t := h.r, h.t
	ctx := context.Background()
	var ranks []int
	for i := 0; i < n; i++ {
		if mask&(1<<i) != 0 {
			ranks = append(ranks, i)
		}
	}
	items := make([]*vf26ShardItem, 0, k)
	byAddr := map[oid.Address]*vf26ShardItem{}
	for i := 0; i < k; i++ {
		rng := r.Rand("shards", batchIdx*4096+i)
		c := vf26GenShardCase(rng)
		c.NShards, c.HolderRanks, c.Shards, c.PutMode = n, ranks, len(ranks), "shard-put"
		o := verifkit.NewObject(rng, h.cnr, verifkit.RandUser(rng), 8+rng.IntN(40))
		it := &vf26ShardItem{c: c, obj: o, addr: verifkit.Addr(o)}
		sorted := h.eng.Verif26SortedShards(it.addr.Object())
		if len(sorted) != n {
			t.Fatalf("harness: engine has %d shards, want %d", len(sorted), n)
		}
		first := 0
		if i == 0 && ranks[0] > 0 {
			// the natural way to this state: the more preferred shards are read-only when the
			// object arrives through the engine
			c.PutMode = "engine-put/preferred-shards-read-only"
			for j := 0; j < ranks[0]; j++ {
				if err := h.eng.SetShardMode(sorted[j].ID(), mode.ReadOnly, false); err != nil {
					t.Fatalf("harness: set read-only: %v", err)
				}
			}
			err := h.eng.Put(ctx, o, nil)
			for j := 0; j < ranks[0]; j++ {
				if err := h.eng.SetShardMode(sorted[j].ID(), mode.ReadWrite, false); err != nil {
					t.Fatalf("harness: set read-write: %v", err)
				}
			}
			if err != nil {
				t.Fatalf("harness: engine put with read-only shards: %v", err)
			}
			first = 1
			r.Count("shard_cases_written_through_engine_with_read_only_shards", 1)
		}
		for _, rk := range ranks[first:] {
			if err := sorted[rk].Put(o, nil); err != nil {
				t.Fatalf("harness: shard put: %v", err)
			}
		}
		for j, sh := range sorted {
			ex, err := sh.Exists(it.addr, false)
			if err != nil {
				t.Fatalf("harness: shard exists: %v", err)
			}
			if ex != vf26Contains(ranks, j) {
				t.Fatalf("harness: object on shard position %d = %v, holder positions %v (%s)", j, ex, ranks, c.PutMode)
			}
			if ex {
				it.want = append(it.want, sh.ID().String())
			}
		}
		items = append(items, it)
		byAddr[it.addr] = it
	}

	// the entries the policer works on: the engine's real listing, in pages
	var cursor *engine.Cursor
	listed := 0
	for {
		page, next, err := h.eng.ListWithCursor(ctx, 7, cursor, iec.AttributeRuleIdx, iec.AttributePartIdx, object.FilterParentID)
		if err != nil {
			if errors.Is(err, engine.ErrEndOfListing) {
				break
			}
			t.Fatalf("harness: engine listing: %v", err)
		}
		for _, e := range page {
			if it, ok := byAddr[e.Address]; ok && it.entry.Address == (oid.Address{}) {
				it.entry = e
				listed++
			}
		}
		cursor = next
	}
	if listed != len(items) {
		r.Inconclusive(fmt.Sprintf("multi-shard part: the engine listed %d of %d stored objects", listed, len(items)))
		return
	}

	for _, it := range items {
		if len(it.entry.ShardIDs) != len(it.want) {
			r.Count("shard_listing_differs_from_holders(not judged here)", 1)
		}
		it.w = &vf26World{c: it.c, obj: it.addr}
		h.w = it.w
		r.Eval(1)
		entry := it.entry
		if r.Guard(it.c, func() { h.p.processObject(ctx, entry) }) {
			it.c.finish()
			it.w = nil
		}
	}

	h.gcAllShards()

	for _, it := range items {
		if it.w == nil {
			continue
		}
		h.w = it.w
		left := 0
		for _, sh := range h.eng.Verif26SortedShards(it.addr.Object()) {
			if ex, err := sh.Exists(it.addr, false); err == nil && ex {
				left++
			}
		}
		_, err := h.eng.Head(ctx, it.addr, false)
		gone := err != nil
		if gone && !errors.Is(err, apistatus.ErrObjectNotFound) && !errors.Is(err, apistatus.ErrObjectAlreadyRemoved) {
			r.Inconclusive(fmt.Sprintf("multi-shard part: engine Head failed unexpectedly: %v", err))
			return
		}
		if gone != (left == 0) {
			r.Count("shard_head_and_exists_disagree(not judged here)", 1)
		}
		it.w.mu.Lock()
		dels, dedups := len(it.w.deletes), len(it.w.redundant)
		if gone && dels == 0 {
			it.w.lostVia = "nothing"
			if dedups > 0 {
				it.w.lostVia = "DeleteRedundantCopies"
			}
		}
		it.w.mu.Unlock()
		r.Count("shard_cases", 1)
		if len(ranks) > 1 {
			r.Count("shard_cases_multi_copy", 1)
			if dedups > 0 {
				r.Count("shard_dedup_with_holders_"+vf26RankClass(ranks), 1)
				r.Count("shard_dedup_copies_left_"+strconv.Itoa(left), 1)
				if !gone {
					r.Count("shard_dedup_kept_a_copy", 1)
				}
			}
		}
		switch {
		case dels > 0 && gone:
			r.Count("shard_cases_removed_by_delete", 1)
		case dels > 0:
			r.Count("shard_cases_delete_called_but_still_readable", 1)
		case gone:
			r.Count("shard_cases_gone_without_delete", 1)
		default:
			r.Count("shard_cases_kept", 1)
		}
		r.Seen("shard_holder_positions_seen", fmt.Sprintf("%d:%v", n, ranks))
		h.judge(it.c, it.w, it.entry)
		if err := h.eng.Drop(ctx, it.addr); err != nil {
			t.Fatalf("harness: engine drop: %v", err)
		}
	}
	h.gcAllShards()
}

func vf26RankClass(ranks []int) string {
	if ranks[0] == 0 {
		return "including_most_preferred_shard"
	}
	return "excluding_most_preferred_shard"
}

func TestVerif_C26_Shards(t *testing.T) {
	r := verifkit.Start(t, "C26", "exploration")
	defer r.Finish()
	maxShards, perSet := r.Pick(4, 5), r.Pick(8, 40)
	r.SetRule(fmt.Sprintf("real StorageEngine with 2..%d shards as the policer's local storage; for EVERY non-empty set of shard positions (in the engine's order of preference for the object) "+
		"%d fresh REGULAR objects are stored on exactly these shards (first case of a set without the most preferred shard: through engine.Put while the more preferred shards are read-only), "+
		"listed by the real ListWithCursor, and processed by the real processObject against a seeded placement (one REP rule, REP+REP, REP+EC; 6 remote behaviours); "+
		"after a GC pass on every shard the object is looked up on the node; distinct = different (placement, behaviour vector, engine size, holder positions)", maxShards, perSet))
	r.Assume("multi-shard part: whole REGULAR objects only (the policer skips shard de-duplication for TOMBSTONE/LOCK/LINK and never reaches it for EC parts); shard modes are read-write while the policer runs")
	batch := 0
	for n := 2; n <= maxShards; n++ {
		h := vf26NewHarness(t, r, n)
		for mask := 1; mask < 1<<n; mask++ {
			h.shardBatch(n, mask, perSet, batch)
			batch++
		}
	}
	if r.Counter("shard_dedup_with_holders_excluding_most_preferred_shard") == 0 || r.Counter("shard_dedup_with_holders_including_most_preferred_shard") == 0 {
		r.Inconclusive("multi-shard part: the policer never asked the engine to drop duplicated shard copies for both kinds of holder sets")
	}
	if r.Counter("shard_dedup_kept_a_copy") == 0 || r.Counter("shard_cases_removed_by_delete") == 0 {
		r.Inconclusive("multi-shard part: neither a kept de-duplicated copy nor a removal by Delete was observed on the real engine")
	}
}
