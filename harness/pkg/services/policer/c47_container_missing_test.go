//go:build verif

package policer

import (
	"bytes"
	"context"
	"errors"
	"fmt"
	"io"
	"strconv"
	"sync"
	"testing"

	iec "github.com/nspcc-dev/neofs-node/internal/ec"
	"github.com/nspcc-dev/neofs-node/internal/verifkit"
	objectcore "github.com/nspcc-dev/neofs-node/pkg/core/object"
	"github.com/nspcc-dev/neofs-node/pkg/local_object_storage/engine"
	"github.com/nspcc-dev/neofs-node/pkg/services/replicator"
	apistatus "github.com/nspcc-dev/neofs-sdk-go/client/status"
	cid "github.com/nspcc-dev/neofs-sdk-go/container/id"
	"github.com/nspcc-dev/neofs-sdk-go/netmap"
	"github.com/nspcc-dev/neofs-sdk-go/object"
	oid "github.com/nspcc-dev/neofs-sdk-go/object/id"
	"go.uber.org/zap"
)

// C47, policer leg: Policer.processObject may drop the local object because of the
// container only when the network/container source definitively reports the container
// as absent.  Answers are tagged by the generator; the oracle never inspects error values.

type vf47Answer struct {
	name  string
	class string // "found", "absent", "transient"
	err   error
}

type vf47Timeout struct{}

func (vf47Timeout) Error() string   { return "i/o timeout" }
func (vf47Timeout) Timeout() bool   { return true }
func (vf47Timeout) Temporary() bool { return true }

func vf47Answers() []vf47Answer {
	return []vf47Answer{
		{"found", "found", nil},
		{"absent:ErrContainerNotFound", "absent", apistatus.ErrContainerNotFound},
		{"absent:ContainerNotFound{}", "absent", apistatus.ContainerNotFound{}},
		{"absent:wrapped", "absent", fmt.Errorf("read container by ID: %w", apistatus.ErrContainerNotFound)},
		{"absent:double-wrapped", "absent", fmt.Errorf("select container nodes: %w", fmt.Errorf("get container: %w", apistatus.ContainerNotFound{}))},
		{"transient:plain", "transient", errors.New("connection refused")},
		{"transient:text-lookalike", "transient", errors.New("status: code = 3072 message = container not found")},
		{"transient:deadline", "transient", context.DeadlineExceeded},
		{"transient:wrapped-canceled", "transient", fmt.Errorf("read network map: %w", context.Canceled)},
		{"transient:eof", "transient", io.ErrUnexpectedEOF},
		{"transient:timeout-type", "transient", vf47Timeout{}},
		{"transient:server-internal", "transient", apistatus.ErrServerInternal},
		{"transient:object-not-found", "transient", apistatus.ErrObjectNotFound},
		{"transient:eacl-not-found", "transient", apistatus.ErrEACLNotFound},
		{"transient:node-maintenance", "transient", apistatus.ErrNodeUnderMaintenance},
		{"transient:policy-unsatisfiable", "transient", errors.New("not enough nodes to SELECT from")},
		{"transient:joined", "transient", errors.Join(errors.New("endpoint A: connection reset"), errors.New("endpoint B: i/o timeout"))},
	}
}

type vf47Net struct {
	localKey []byte
	answers  map[cid.ID]vf47Answer
	mu       sync.Mutex
	asked    int
}

func (n *vf47Net) IsLocalNodeInNetmap() bool { return true }
func (n *vf47Net) IsLocalNodePublicKey(k []byte) bool { return bytes.Equal(k, n.localKey) }
func (n *vf47Net) GetNodesForObject(a oid.Address) ([][]netmap.NodeInfo, []uint, []iec.Rule, error) {
	n.mu.Lock()
	n.asked++
	n.mu.Unlock()
	ans, ok := n.answers[a.Container()]
	if !ok {
		return nil, nil, nil, errors.New("vf47: unexpected container")
	}
	if ans.err != nil {
		return nil, nil, nil, ans.err
	}
	var local netmap.NodeInfo
	local.SetPublicKey(n.localKey)
	local.SetNetworkEndpoints("localhost:1")
	return [][]netmap.NodeInfo{{local}}, []uint{1}, nil, nil
}

type vf47Del struct {
	addr oid.Address
	mark engine.GarbageMark
}

type vf47Local struct {
	mu        sync.Mutex
	dels      []vf47Del
	redundant []oid.Address
}

func (l *vf47Local) ListWithCursor(context.Context, uint32, *engine.Cursor, ...string) ([]objectcore.AddressWithAttributes, *engine.Cursor, error) {
	return nil, nil, engine.ErrEndOfListing
}
func (l *vf47Local) Delete(_ context.Context, a oid.Address, m engine.GarbageMark) error {
	l.mu.Lock()
	l.dels = append(l.dels, vf47Del{a, m})
	l.mu.Unlock()
	return nil
}
func (l *vf47Local) DeleteRedundantCopies(_ context.Context, a oid.Address, _ []string) error {
	l.mu.Lock()
	l.redundant = append(l.redundant, a)
	l.mu.Unlock()
	return nil
}
func (l *vf47Local) Put(context.Context, *object.Object, []byte) error { return nil }
func (l *vf47Local) Head(context.Context, oid.Address, bool) (*object.Object, error) {
	return nil, apistatus.ErrObjectNotFound
}
func (l *vf47Local) HeadECPart(context.Context, cid.ID, oid.ID, iec.PartInfo) (object.Object, error) {
	return object.Object{}, apistatus.ErrObjectNotFound
}
func (l *vf47Local) GetRange(context.Context, oid.Address, uint64, uint64) ([]byte, error) {
	return nil, apistatus.ErrObjectNotFound
}

type vf47Conns struct{ calls int }

func (c *vf47Conns) headObject(context.Context, netmap.NodeInfo, oid.Address, bool, []string) (object.Object, error) {
	c.calls++
	return object.Object{}, errors.New("vf47: no remote nodes expected")
}
func (c *vf47Conns) GetRange(context.Context, netmap.NodeInfo, cid.ID, oid.ID, uint64, uint64, []string) (io.ReadCloser, error) {
	c.calls++
	return nil, errors.New("vf47: no remote nodes expected")
}

type vf47Repl struct{ calls int }

func (x *vf47Repl) HandleTask(context.Context, replicator.Task, replicator.TaskResult) { x.calls++ }

func TestVerif_C47Policer(t *testing.T) {
	r := verifkit.Start(t, "C47", "exploration")
	defer r.Finish()
	answers := vf47Answers()
	r.SetRule(fmt.Sprintf("every answer of a %d-element catalogue of Network.GetNodesForObject results (found, 4 shapes of the not-found status, 12 transient/other errors incl. look-alikes) x object kinds {REGULAR, TOMBSTONE, LOCK, LINK, EC part} x 1|2 holding shards, each fed to the real Policer.processObject with recording local storage; distinct = (answer, kind, shards, deleted)", len(answers)))
	r.SetExhaustive(true)

	type kind struct {
		name string
		typ  object.Type
		ec   bool
	}
	kinds := []kind{{"REGULAR", object.TypeRegular, false}, {"TOMBSTONE", object.TypeTombstone, false}, {"LOCK", object.TypeLock, false}, {"LINK", object.TypeLink, false}, {"EC-PART", object.TypeRegular, true}}
	rounds := r.Pick(3, 30)
	for round := 0; round < rounds; round++ {
		for ai, ans := range answers {
			for ki, k := range kinds {
				for nSh := 1; nSh <= 2; nSh++ {
					rng := r.Rand("case", ((round*100+ai)*10+ki)*4+nSh)
					cnr := verifkit.RandCID(rng)
					addr := oid.NewAddress(cnr, verifkit.RandOID(rng))
					net := &vf47Net{localKey: verifkit.RandBytes(rng, 33), answers: map[cid.ID]vf47Answer{cnr: ans}}
					ls := &vf47Local{}
					conns, repl := &vf47Conns{}, &vf47Repl{}
					p := &Policer{cfg: &cfg{
						log: zap.NewNop(), metrics: nopMetricsCollector{}, localStorage: ls, apiConns: conns,
						replicator: repl, network: net, batchSize: 10,
					}}
					awa := objectcore.AddressWithAttributes{Address: addr, Type: k.typ, Attributes: []string{"", "", ""}}
					if k.ec {
						parent := verifkit.RandOID(rng)
						awa.Attributes = []string{strconv.Itoa(rng.IntN(2)), strconv.Itoa(rng.IntN(4)), string(parent[:])}
					}
					for i := 0; i < nSh; i++ {
						awa.ShardIDs = append(awa.ShardIDs, fmt.Sprintf("shard%d", i))
					}
					desc := map[string]any{"round": round, "answer": ans.name, "kind": k.name, "shards": nSh}
					r.Eval(1)
					if r.Guard(desc, func() { p.processObject(context.Background(), awa) }) {
						continue
					}
					ls.mu.Lock()
					dels := append([]vf47Del(nil), ls.dels...)
					ls.mu.Unlock()
					deleted := len(dels) > 0
					r.Distinct(fmt.Sprintf("%s|%s|%d|%v", ans.name, k.name, nSh, deleted))
					if round%5 == 0 {
						r.Sample(map[string]any{"round": round, "container_source_answer": ans.name, "object_kind": k.name, "shards": nSh, "local_copy_deleted": deleted})
					}
					r.Count("network_lookups_observed", net.asked)
					for _, d := range dels {
						if d.addr != addr {
							r.Violation("policer|deleted-foreign-address", fmt.Sprintf("processObject(%s) deleted %s", addr, d.addr), desc)
						}
					}
					switch {
					case deleted && ans.class == "transient":
						r.Violation("policer|discarded|"+ans.name, fmt.Sprintf("policer dropped local %s object although container lookup failed with non-definitive answer %q", k.name, ans.name), desc)
					case deleted && ans.class == "found" && !k.ec:
						// container exists, local node is the only container node: the copy is needed
						r.Violation("policer|discarded|found", fmt.Sprintf("policer dropped the only copy of a %s object of an existing container", k.name), desc)
					case deleted && ans.class == "absent":
						r.Count("discards_allowed_and_seen", 1)
						r.Seen("absent_shapes_discarded", ans.name)
					case deleted:
						r.Count("ec_part_deleted_in_container_without_ec_rules", 1) // policy decision, outside C47
					case ans.class == "absent":
						r.Count("absent_kept", 1)
						r.Seen("absent_shapes_kept", ans.name)
					default:
						r.Count("kept_as_required", 1)
						r.Seen("non_absent_answers_kept", ans.name)
					}
				}
			}
		}
	}
	if r.Counter("discards_allowed_and_seen") == 0 {
		r.Inconclusive("policer never dropped an object of a definitively absent container: no discard decision observed")
	}
}
