//go:build verif

package timers

import (
	"bytes"
	"fmt"
	"runtime"
	"strconv"
	"sync"
	"sync/atomic"
	"testing"
	"time"

	"github.com/anishathalye/porcupine"
	"github.com/nspcc-dev/neofs-node/internal/verifkit"
)

// handler layout used by every case: 2 new-epoch handlers + delta handlers with the fractions below.
var vf40Fracs = [][2]uint32{{1, 2}, {1, 3}, {3, 4}, {1, 1}, {0, 1}}

const vf40NE = 2 // number of new-epoch handlers

type vf40Ev struct {
	Reset bool
	T     uint64 // Reset: lastTick; Update: curr
	Dur   uint64
}

func (e vf40Ev) String() string {
	if e.Reset {
		return fmt.Sprintf("Reset(%d,%d)", e.T, e.Dur)
	}
	return fmt.Sprintf("Update(%d)", e.T)
}

// vf40Ref is the reference state machine written from the property statement: after a
// reset every handler is pending with a scheduled instant; an observed block time fires
// exactly the pending handlers whose instant it reaches; nothing else ever fires.
// For a fraction that is not a whole number of milliseconds both roundings are accepted
// (lo = floor, hi = ceil): firing before lo or not firing at/after hi is a violation.
type vf40Ref struct {
	armed   bool // a Reset has been seen
	pending []bool
	lo, hi  []uint64
}

func vf40NewRef() *vf40Ref {
	n := vf40NE + len(vf40Fracs)
	return &vf40Ref{pending: make([]bool, n), lo: make([]uint64, n), hi: make([]uint64, n)}
}

func (m *vf40Ref) reset(last, dur uint64) {
	m.armed = true
	for i := range m.pending {
		m.pending[i] = true
		if i < vf40NE {
			m.lo[i], m.hi[i] = last+dur, last+dur
			continue
		}
		f := vf40Fracs[i-vf40NE]
		num := dur * uint64(f[0])
		m.lo[i] = last + num/uint64(f[1])
		m.hi[i] = last + (num+uint64(f[1])-1)/uint64(f[1])
	}
}

// update returns for each handler: must fire, may fire.
func (m *vf40Ref) update(t uint64) (must, may []bool) {
	n := len(m.pending)
	must, may = make([]bool, n), make([]bool, n)
	for i := 0; i < n; i++ {
		if !m.pending[i] {
			continue
		}
		if t >= m.hi[i] {
			must[i], may[i] = true, true
		} else if t >= m.lo[i] {
			may[i] = true
		}
	}
	return
}

type vf40Sys struct {
	et    *EpochTimers
	fired []int32 // per-handler counter, reset by the driver around each call
}

func vf40NewSys() *vf40Sys {
	s := &vf40Sys{fired: make([]int32, vf40NE+len(vf40Fracs))}
	var tt EpochTicks
	for i := 0; i < vf40NE; i++ {
		i := i
		tt.NewEpochTicks = append(tt.NewEpochTicks, func() { atomic.AddInt32(&s.fired[i], 1) })
	}
	for j, f := range vf40Fracs {
		i := vf40NE + j
		tt.DeltaTicks = append(tt.DeltaTicks, SubEpochTick{Tick: func() { atomic.AddInt32(&s.fired[i], 1) }, EpochMul: f[0], EpochDiv: f[1]})
	}
	s.et = NewTimers(tt)
	return s
}

// vf40RunSeq drives one event sequence through the real timers and the reference in
// lock-step and reports the first divergence.
func vf40RunSeq(r *verifkit.Run, seq []vf40Ev, sig *string) {
	sys := vf40NewSys()
	ref := vf40NewRef()
	r.Eval(1)
	firedAny, resets := false, 0
	for step, e := range seq {
		for i := range sys.fired {
			sys.fired[i] = 0
		}
		if e.Reset {
			sys.et.Reset(e.T, e.Dur)
			ref.reset(e.T, e.Dur)
			resets++
			for i, c := range sys.fired {
				if c != 0 {
					r.Violation("fired-on-reset", fmt.Sprintf("handler %d fired %d times inside Reset at step %d of %v", i, c, step, seq), seq)
				}
			}
			continue
		}
		sys.et.UpdateTime(e.T)
		if !ref.armed {
			continue // the statement only speaks about behaviour after a reset
		}
		must, may := ref.update(e.T)
		for i, c := range sys.fired {
			kind := "new-epoch"
			if i >= vf40NE {
				kind = fmt.Sprintf("delta %d/%d", vf40Fracs[i-vf40NE][0], vf40Fracs[i-vf40NE][1])
			}
			switch {
			case c > 1:
				r.Violation("fired-twice-in-one-update|"+kind, fmt.Sprintf("%s handler fired %d times at step %d of %v", kind, c, step, seq), seq)
			case c == 1 && !may[i]:
				why := "before its scheduled instant"
				if !ref.pending[i] {
					why = "again without a reset"
				}
				r.Violation("spurious-fire|"+kind+"|"+why, fmt.Sprintf("%s handler fired %s at step %d of %v", kind, why, step, seq), seq)
			case c == 0 && must[i]:
				r.Violation("missed-fire|"+kind, fmt.Sprintf("%s handler did not fire at step %d (t=%d, scheduled %d) of %v", kind, step, e.T, ref.hi[i], seq), seq)
			}
			if c >= 1 {
				ref.pending[i] = false
				firedAny = true
				r.Count("fires_observed", 1)
			}
		}
	}
	if firedAny && resets > 0 {
		*sig = fmt.Sprint(seq)
		r.Distinct(*sig)
	}
}

func TestVerif_C40(t *testing.T) {
	r := verifkit.Start(t, "C40", "exploration")
	defer r.Finish()
	maxLen := r.Pick(4, 5)
	r.SetRule(fmt.Sprintf("part A: EVERY sequence of 1..4 events over {Reset(t,dur) t in 0..6 dur in 1..4, UpdateTime(t) t in 0..6} (thorough: also every sequence of 1..%d events with t in 0..4, dur in 1..3; times may go backwards) on timers with 2 new-epoch handlers and delta handlers 1/2,1/3,3/4,1/1,0/1, lock-step against a reference state machine; part B: seeded random sequences of 6..40 events with large times/durations; part C: concurrent Reset||UpdateTime histories checked with porcupine; distinct = sequences containing a reset after which at least one handler fired", maxLen))
	r.Assume("sub-epoch fractions are <= 1 (a fraction > 1 schedules beyond the epoch end and is outside the statement)")
	r.Assume("where duration*mul/div is not an integer number of milliseconds both roundings of the instant are accepted")

	// ---- part A: exhaustive small histories
	sampled := 0
	var sig string
	enumerate := func(maxT, maxDur uint64, maxLen int) {
		var alphabet []vf40Ev
		for tt := uint64(0); tt <= maxT; tt++ {
			alphabet = append(alphabet, vf40Ev{T: tt})
			for d := uint64(1); d <= maxDur; d++ {
				alphabet = append(alphabet, vf40Ev{Reset: true, T: tt, Dur: d})
			}
		}
		seq := make([]vf40Ev, 0, maxLen)
		var rec func(depth int)
		rec = func(depth int) {
			if depth > 0 {
				sig = ""
				vf40RunSeq(r, seq, &sig)
				if sig != "" && sampled < 3 && depth == maxLen && seq[0].Reset && !seq[1].Reset {
					sampled++
					r.Sample(sig)
				}
			}
			if depth == maxLen || r.Violations() > 50 {
				return
			}
			for _, e := range alphabet {
				seq = append(seq, e)
				rec(depth + 1)
				seq = seq[:depth]
			}
		}
		rec(0)
		r.Count(fmt.Sprintf("exhaustive_len%d_alphabet%d", maxLen, len(alphabet)), 1)
	}
	enumerate(6, 4, 4) // 35 events, every sequence of length <= 4
	if r.Thorough() {
		enumerate(4, 3, 5) // 20 events, every sequence of length <= 5
	}
	_ = maxLen

	// ---- part B: random longer histories with realistic magnitudes
	nB := r.Pick(20000, 400000)
	for c := 0; c < nB; c++ {
		rng := r.Rand("long", c)
		n := 6 + rng.IntN(35)
		s := make([]vf40Ev, 0, n)
		now := uint64(rng.IntN(1000))
		if rng.IntN(3) == 0 {
			now = 1_700_000_000_000 + uint64(rng.IntN(1_000_000))
		}
		for i := 0; i < n; i++ {
			switch rng.IntN(10) {
			case 0, 1:
				s = append(s, vf40Ev{Reset: true, T: now, Dur: uint64(1 + rng.IntN(40))})
			case 2:
				s = append(s, vf40Ev{Reset: true, T: now, Dur: uint64(1000 * (1 + rng.IntN(240)))})
			default:
				if rng.IntN(8) == 0 && now > 5 {
					now -= uint64(rng.IntN(5)) // non-monotonic block time
				} else {
					now += uint64(rng.IntN(12))
					if rng.IntN(6) == 0 {
						now += uint64(rng.IntN(100000))
					}
				}
				s = append(s, vf40Ev{T: now})
			}
		}
		sig = ""
		vf40RunSeq(r, s, &sig)
		if c < 2 {
			r.Sample(fmt.Sprint(s))
		}
	}
	r.Count("random_long_histories", nB)

	// ---- part C: concurrent histories, linearizability against the reference machine
	vf40Concurrent(r, r.Pick(300, 5000))
}

// TestVerif_C40Race is the same concurrent workload, meant to be run under the race
// detector (thorough tier): the mutex-protected state must not be touched unsynchronised.
func TestVerif_C40Race(t *testing.T) {
	r := verifkit.Start(t, "C40", "exploration")
	defer r.Finish()
	r.SetRule("concurrent Reset||UpdateTime histories (2-4 goroutines x 2-4 calls) under the race detector, each checked with porcupine against the reference machine; distinct = distinct recorded histories")
	vf40Concurrent(r, 3000)
}

// ---------------------------------------------------------------------------------------

func vf40Gid() uint64 {
	var buf [64]byte
	b := buf[:runtime.Stack(buf[:], false)]
	b = bytes.TrimPrefix(b, []byte("goroutine "))
	if i := bytes.IndexByte(b, ' '); i > 0 {
		id, _ := strconv.ParseUint(string(b[:i]), 10, 64)
		return id
	}
	return 0
}

type vf40In struct {
	Reset  bool
	T, Dur uint64
}

type vf40State struct {
	Armed   bool
	Pending [vf40NE + 5]bool
	At      [vf40NE + 5]uint64
}

func vf40Concurrent(r *verifkit.Run, rounds int) {
	nH := vf40NE + len(vf40Fracs)
	model := porcupine.Model{
		Init: func() any { return vf40State{} },
		Step: func(st, in, out any) (bool, any) {
			s := st.(vf40State)
			i := in.(vf40In)
			mask := out.(uint32)
			if i.Reset {
				if mask != 0 {
					return false, s
				}
				s.Armed = true
				for h := 0; h < nH; h++ {
					s.Pending[h] = true
					if h < vf40NE {
						s.At[h] = i.T + i.Dur
					} else {
						f := vf40Fracs[h-vf40NE]
						s.At[h] = i.T + i.Dur*uint64(f[0])/uint64(f[1])
					}
				}
				return true, s
			}
			if !s.Armed {
				// unconstrained before the first reset: whatever fired is simply no longer pending
				return true, s
			}
			var exp uint32
			for h := 0; h < nH; h++ {
				if s.Pending[h] && i.T >= s.At[h] {
					exp |= 1 << h
					s.Pending[h] = false
				}
			}
			return exp == mask, s
		},
		DescribeOperation: func(in, out any) string { return fmt.Sprintf("%+v -> %b", in, out) },
	}

	illegal, unknown := 0, 0
	for c := 0; c < rounds; c++ {
		rng := r.Rand("conc", c)
		var perG sync.Map // goroutine id -> *uint32 (mask of handlers fired inside the current call)
		mk := func(h int) Tick {
			return func() {
				if p, ok := perG.Load(vf40Gid()); ok {
					atomic.OrUint32(p.(*uint32), 1<<h)
				}
			}
		}
		var tt EpochTicks
		for i := 0; i < vf40NE; i++ {
			tt.NewEpochTicks = append(tt.NewEpochTicks, mk(i))
		}
		for j, f := range vf40Fracs {
			tt.DeltaTicks = append(tt.DeltaTicks, SubEpochTick{Tick: mk(vf40NE + j), EpochMul: f[0], EpochDiv: f[1]})
		}
		et := NewTimers(tt)
		// sequential prefix: arm the timers so that the concurrent part is constrained
		et.Reset(0, 12)
		var clock int64
		var mu sync.Mutex
		ops := []porcupine.Operation{{ClientId: 0, Input: vf40In{Reset: true, T: 0, Dur: 12}, Call: 0, Output: uint32(0), Return: 1}}
		clock = 2
		workers := 2 + rng.IntN(3)
		plans := make([][]vf40In, workers)
		for w := range plans {
			n := 2 + rng.IntN(3)
			for k := 0; k < n; k++ {
				if rng.IntN(4) == 0 {
					plans[w] = append(plans[w], vf40In{Reset: true, T: uint64(rng.IntN(24)), Dur: 12 * uint64(1+rng.IntN(2))})
				} else {
					plans[w] = append(plans[w], vf40In{T: uint64(rng.IntN(40))})
				}
			}
		}
		var wg sync.WaitGroup
		start := make(chan struct{})
		for w := 0; w < workers; w++ {
			wg.Add(1)
			go func(w int) {
				defer wg.Done()
				var mask uint32
				perG.Store(vf40Gid(), &mask)
				<-start
				for _, in := range plans[w] {
					atomic.StoreUint32(&mask, 0)
					call := atomic.AddInt64(&clock, 1)
					if in.Reset {
						et.Reset(in.T, in.Dur)
					} else {
						et.UpdateTime(in.T)
					}
					ret := atomic.AddInt64(&clock, 1)
					out := atomic.LoadUint32(&mask)
					mu.Lock()
					ops = append(ops, porcupine.Operation{ClientId: w + 1, Input: in, Call: call, Output: out, Return: ret})
					mu.Unlock()
					if out != 0 {
						r.Count("concurrent_fires_observed", 1)
					}
				}
			}(w)
		}
		close(start)
		wg.Wait()
		r.Eval(1)
		res := porcupine.CheckOperationsTimeout(model, ops, 20*time.Second)
		switch res {
		case porcupine.Ok:
			r.Count("porcupine_ok", 1)
			r.Distinct(fmt.Sprintf("conc|%v", ops))
		case porcupine.Illegal:
			illegal++
			r.Violation("concurrent-history-not-linearizable", "concurrent Reset/UpdateTime history has no sequential explanation in which every handler fires exactly once per reset at its instant", map[string]any{"history": fmt.Sprintf("%+v", ops)})
		default:
			unknown++
		}
		if c == 0 {
			r.Sample(map[string]any{"concurrent_history": fmt.Sprintf("%+v", ops)})
		}
	}
	r.Count("concurrent_histories", rounds)
	r.Count("porcupine_illegal", illegal)
	r.Count("porcupine_unknown", unknown)
	if unknown > rounds/10 {
		r.Inconclusive(fmt.Sprintf("porcupine timed out on %d of %d histories", unknown, rounds))
	}
}
