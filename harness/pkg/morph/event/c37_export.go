//go:build verif

package event

import (
	"github.com/nspcc-dev/neo-go/pkg/core/state"
	"github.com/nspcc-dev/neo-go/pkg/neorpc/result"
)

// Verif37HandleNotary feeds one notary request event into the listener's real
// prepare/parse/handle pipeline, synchronously.
func Verif37HandleNotary(l Listener, nr *result.NotaryRequestEvent) {
	l.(*listener).parseAndHandleNotary(nr)
}

// Verif37HandleNotification feeds one contract notification into the listener's real
// parse/handle pipeline, synchronously.
func Verif37HandleNotification(l Listener, ev *state.ContainedNotificationEvent) {
	l.(*listener).parseAndHandleNotification(ev)
}
