//go:build verif

package event

import (
	"github.com/nspcc-dev/neo-go/pkg/core/state"
	"github.com/nspcc-dev/neo-go/pkg/neorpc/result"
)

// Verif34HandleNotary feeds one notary request event into the listener's real
// prepare/parse/handle pipeline, synchronously.
func Verif34HandleNotary(l Listener, nr *result.NotaryRequestEvent) {
	l.(*listener).parseAndHandleNotary(nr)
}

// Verif34HandleNotification feeds one contract notification into the listener's real
// parse/handle pipeline, synchronously.
func Verif34HandleNotification(l Listener, ev *state.ContainedNotificationEvent) {
	l.(*listener).parseAndHandleNotification(ev)
}
