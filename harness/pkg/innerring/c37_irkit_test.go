//go:build verif

package innerring

// Shared inner-ring fixture of the C37 monitor: recording chain (zero morph clients
// answered through verifhook.Morph), notary request / notification builders, a node
// assembled from the real Server state, the real processors and the real listeners the
// way innerring.New wires them, and generators of container-domain requests.

import (
	"context"
	"crypto/sha256"
	"errors"
	"fmt"
	"math/big"
	"math/rand/v2"
	"reflect"
	"slices"
	"sort"
	"strings"
	"sync"
	"testing"
	"time"
	"unsafe"

	"github.com/google/uuid"
	"github.com/nspcc-dev/neo-go/pkg/core/block"
	"github.com/nspcc-dev/neo-go/pkg/core/mempoolevent"
	"github.com/nspcc-dev/neo-go/pkg/core/native/nativehashes"
	"github.com/nspcc-dev/neo-go/pkg/core/state"
	"github.com/nspcc-dev/neo-go/pkg/core/transaction"
	"github.com/nspcc-dev/neo-go/pkg/crypto/hash"
	"github.com/nspcc-dev/neo-go/pkg/crypto/keys"
	"github.com/nspcc-dev/neo-go/pkg/neorpc/result"
	"github.com/nspcc-dev/neo-go/pkg/network/payload"
	"github.com/nspcc-dev/neo-go/pkg/rpcclient/rolemgmt"
	"github.com/nspcc-dev/neo-go/pkg/smartcontract"
	"github.com/nspcc-dev/neo-go/pkg/util"
	"github.com/nspcc-dev/neo-go/pkg/vm/opcode"
	"github.com/nspcc-dev/neo-go/pkg/vm/stackitem"
	containerrpc "github.com/nspcc-dev/neofs-contract/rpc/container"
	netmaprpc "github.com/nspcc-dev/neofs-contract/rpc/netmap"
	"github.com/nspcc-dev/neofs-node/internal/verifhook"
	"github.com/nspcc-dev/neofs-node/internal/verifkit"
	"github.com/nspcc-dev/neofs-node/pkg/innerring/processors"
	"github.com/nspcc-dev/neofs-node/pkg/innerring/processors/alphabet"
	"github.com/nspcc-dev/neofs-node/pkg/innerring/processors/balance"
	"github.com/nspcc-dev/neofs-node/pkg/innerring/processors/container"
	"github.com/nspcc-dev/neofs-node/pkg/innerring/processors/governance"
	"github.com/nspcc-dev/neofs-node/pkg/innerring/processors/neofs"
	"github.com/nspcc-dev/neofs-node/pkg/innerring/processors/netmap"
	"github.com/nspcc-dev/neofs-node/pkg/innerring/processors/reputation"
	"github.com/nspcc-dev/neofs-node/pkg/innerring/processors/settlement"
	"github.com/nspcc-dev/neofs-node/pkg/morph/client"
	balanceClient "github.com/nspcc-dev/neofs-node/pkg/morph/client/balance"
	cntClient "github.com/nspcc-dev/neofs-node/pkg/morph/client/container"
	neofsClient "github.com/nspcc-dev/neofs-node/pkg/morph/client/neofs"
	nmClient "github.com/nspcc-dev/neofs-node/pkg/morph/client/netmap"
	repClient "github.com/nspcc-dev/neofs-node/pkg/morph/client/reputation"
	"github.com/nspcc-dev/neofs-node/pkg/morph/event"
	reputationcommon "github.com/nspcc-dev/neofs-node/pkg/services/reputation/common"
	"github.com/nspcc-dev/neofs-node/pkg/util/precision"
	sdkclient "github.com/nspcc-dev/neofs-sdk-go/client"
	sdkcontainer "github.com/nspcc-dev/neofs-sdk-go/container"
	"github.com/nspcc-dev/neofs-sdk-go/container/acl"
	cid "github.com/nspcc-dev/neofs-sdk-go/container/id"
	neofsecdsa "github.com/nspcc-dev/neofs-sdk-go/crypto/ecdsa"
	"github.com/nspcc-dev/neofs-sdk-go/eacl"
	sdknetmap "github.com/nspcc-dev/neofs-sdk-go/netmap"
	sdkreputation "github.com/nspcc-dev/neofs-sdk-go/reputation"
	"github.com/nspcc-dev/neofs-sdk-go/session"
	sessionv2 "github.com/nspcc-dev/neofs-sdk-go/session/v2"
	"github.com/nspcc-dev/neofs-sdk-go/user"
	"github.com/panjf2000/ants/v2"
	"go.uber.org/zap"
)

// ---------------------------------------------------------------------------------------
// keys

func vf37Key(rng *rand.Rand) *keys.PrivateKey {
	for {
		b := make([]byte, 32)
		for i := range b {
			b[i] = byte(rng.UintN(256))
		}
		if k, err := keys.NewPrivateKeyFromBytes(b); err == nil {
			return k
		}
	}
}

func vf37User(k *keys.PrivateKey) user.ID {
	return user.NewFromECDSAPublicKey(k.PrivateKey.PublicKey)
}

// ---------------------------------------------------------------------------------------
// recording chain

// vf37Mutating lists the morph client wrappers that put something on a chain.
var vf37Mutating = map[string]bool{
	"Invoke": true, "NotaryInvoke": true, "NotaryInvokeNotAlpha": true, "NotarySignAndInvokeTX": true,
	"TransferGas": true, "SendRawTransaction": true, "SubmitP2PNotaryRequest": true, "DepositNotary": true,
	"DepositEndlessNotary": true, "UpdateNotaryList": true, "UpdateNeoFSAlphabetList": true,
	"CallWithAlphabetWitness": true, "runAlphabetNotaryScript": true,
}

type vf37Call struct {
	Chain    string // "fs" or "main"
	Op       string
	Contract util.Uint160
	Method   string
	Args     []any
	Tx       *transaction.Transaction
	Script   []byte
}

func (c vf37Call) String() string {
	s := c.Chain + "." + c.Op
	if c.Method != "" {
		s += ":" + c.Method
	}
	return s
}

// Sig is a stable signature of the call incl. its arguments (for at-most-once checks).
func (c vf37Call) Sig() string {
	h := sha256.New()
	fmt.Fprintf(h, "%s|%s|%s|%s|", c.Chain, c.Op, c.Contract.StringLE(), c.Method)
	for _, a := range c.Args {
		fmt.Fprintf(h, "%v|", a)
	}
	if c.Tx != nil {
		fmt.Fprintf(h, "tx:%s", c.Tx.Hash().StringLE())
	}
	h.Write(c.Script)
	return fmt.Sprintf("%s/%x", c.String(), h.Sum(nil)[:8])
}

type vf37Verdict struct {
	ok  bool
	err error
}

type vf37Chain struct {
	mu sync.Mutex

	fs, main *client.Client

	committee    keys.PublicKeys // FS chain committee = alphabet
	committeeErr error
	irKeys       keys.PublicKeys // NeoFSAlphabet role in FS chain = inner ring list
	irErr        error
	mainAlphabet keys.PublicKeys // NeoFSAlphabet role in main chain

	height     uint32
	epoch      uint64
	nodes      []*netmaprpc.NetmapNode2
	containers map[cid.ID][]byte
	config     map[string]int64
	nnsUsers   map[string]bool // name|user script hash
	votes      map[util.Uint160]*keys.PublicKey
	gasBalance int64

	scriptVerdict map[string]vf37Verdict // IsValidScript by script
	n3Verdict     map[string]bool         // InvokeContainedScript by script
	rawNotary     map[util.Uint256]*transaction.Transaction

	netContracts struct{ netmap, container, balance, reputation, neofs util.Uint160 }

	calls   []vf37Call
	hookOps map[string]int
	reads   map[string]int
}

func vf37NewChain() *vf37Chain {
	return &vf37Chain{
		fs: new(client.Client), main: new(client.Client),
		height: 1000, epoch: 10, gasBalance: 1 << 40,
		containers: map[cid.ID][]byte{}, config: map[string]int64{}, nnsUsers: map[string]bool{},
		votes: map[util.Uint160]*keys.PublicKey{}, scriptVerdict: map[string]vf37Verdict{}, n3Verdict: map[string]bool{},
		rawNotary: map[util.Uint256]*transaction.Transaction{}, hookOps: map[string]int{}, reads: map[string]int{},
	}
}

func (c *vf37Chain) take() []vf37Call {
	c.mu.Lock()
	defer c.mu.Unlock()
	r := c.calls
	c.calls = nil
	return r
}

func (c *vf37Chain) lock(f func()) { c.mu.Lock(); defer c.mu.Unlock(); f() }

func vf37ErrRes(n int, err error) []any {
	r := make([]any, n)
	r[n-1] = err
	return r
}

func (c *vf37Chain) morph(cli any, op string, args []any) (bool, []any) {
	c.mu.Lock()
	defer c.mu.Unlock()
	c.hookOps[op]++
	chain := "?"
	switch cli {
	case any(c.fs):
		chain = "fs"
	case any(c.main):
		chain = "main"
	}
	if vf37Mutating[op] {
		call := vf37Call{Chain: chain, Op: op}
		switch op {
		case "NotarySignAndInvokeTX":
			call.Tx, _ = args[0].(*transaction.Transaction)
		case "runAlphabetNotaryScript":
			call.Script, _ = args[0].([]byte)
		case "Invoke", "NotaryInvoke", "NotaryInvokeNotAlpha", "CallWithAlphabetWitness":
			call.Contract, _ = args[0].(util.Uint160)
			for i, a := range args {
				if s, ok := a.(string); ok && i+1 < len(args) {
					call.Method = s
					call.Args, _ = args[i+1].([]any)
				}
			}
		default:
			call.Args = args
		}
		c.calls = append(c.calls, call)
		if op == "NotaryInvoke" {
			return true, []any{util.Uint256{1}, nil}
		}
		return true, []any{nil}
	}
	c.reads[chain+"."+op]++
	switch op {
	case "Committee":
		if c.committeeErr != nil {
			return true, []any{nil, c.committeeErr}
		}
		return true, []any{slices.Clone(c.committee), nil}
	case "NeoFSAlphabetList":
		if chain == "main" {
			return true, []any{slices.Clone(c.mainAlphabet), nil}
		}
		if c.irErr != nil {
			return true, []any{nil, c.irErr}
		}
		return true, []any{slices.Clone(c.irKeys), nil}
	case "BlockCount":
		return true, []any{c.height, nil}
	case "TxHeight":
		return true, []any{c.height, nil}
	case "MsPerBlock":
		return true, []any{int64(1000), nil}
	case "MagicNumber":
		return true, []any{uint32(0x35), nil}
	case "GasBalance":
		return true, []any{c.gasBalance, nil}
	case "GetNotaryDeposit":
		return true, []any{int64(1 << 30), nil}
	case "CalculateNonceAndVUB":
		return true, []any{uint32(1), c.height + 50, nil}
	case "TerminateSession":
		return true, []any{true, nil}
	case "GetBlockHeader":
		return true, []any{&block.Header{Index: c.height, Timestamp: 1_700_000_000_000}, nil}
	case "AccountVote":
		a, _ := args[0].(util.Uint160)
		return true, []any{c.votes[a], nil}
	case "HasUserInNNS":
		name, _ := args[0].(string)
		a, _ := args[1].(util.Uint160)
		return true, []any{c.nnsUsers[name+"|"+a.StringLE()], nil}
	case "IsValidScript":
		script, _ := args[0].([]byte)
		if v, ok := c.scriptVerdict[string(script)]; ok {
			return true, []any{v.ok, v.err}
		}
		return true, []any{true, nil}
	case "InvokeContainedScript":
		tx, _ := args[0].(*transaction.Transaction)
		ok := tx != nil && c.n3Verdict[string(tx.Script)]
		return true, []any{&result.Invoke{State: "HALT", Stack: []stackitem.Item{stackitem.NewBool(ok)}}, nil}
	case "GetRawNotaryTransactionVerbose":
		h, _ := args[0].(util.Uint256)
		if tx, ok := c.rawNotary[h]; ok {
			cp := *tx
			cp.Scripts = slices.Clone(tx.Scripts)
			return true, []any{&cp, nil}
		}
		return true, []any{nil, errors.New("verif: unknown transaction")}
	case "InvokeFunction":
		if m, _ := args[1].(string); m == "listNodes" {
			items := make([]stackitem.Item, 0, len(c.nodes))
			for _, n := range c.nodes {
				it, err := n.ToStackItem()
				if err != nil {
					return true, []any{nil, err}
				}
				items = append(items, it)
			}
			return true, []any{&result.Invoke{State: "HALT", Stack: []stackitem.Item{stackitem.NewInterop(result.Iterator{Values: items})}}, nil}
		}
	case "TestInvokeIterator":
		contract, _ := args[0].(util.Uint160)
		method, _ := args[1].(string)
		if contract == c.netContracts.container && method == "tokens" {
			ids := make([]cid.ID, 0, len(c.containers))
			for id := range c.containers {
				ids = append(ids, id)
			}
			sort.Slice(ids, func(i, j int) bool { return string(ids[i][:]) < string(ids[j][:]) })
			items := make([]stackitem.Item, 0, len(ids))
			for _, id := range ids {
				items = append(items, stackitem.NewByteArray(id[:]))
			}
			return true, []any{items, nil}
		}
	case "TestInvoke":
		contract, _ := args[0].(util.Uint160)
		method, _ := args[1].(string)
		margs, _ := args[2].([]any)
		switch {
		case contract == c.netContracts.netmap && method == "epoch":
			return true, []any{[]stackitem.Item{stackitem.NewBigInteger(new(big.Int).SetUint64(c.epoch))}, nil}
		case contract == c.netContracts.netmap && (method == "getEpochBlock" || method == "getEpochBlockByTime" || method == "lastEpochBlock"):
			return true, []any{[]stackitem.Item{stackitem.NewBigInteger(big.NewInt(int64(c.height) - 5))}, nil}
		case contract == c.netContracts.netmap && method == "config":
			key := ""
			if len(margs) == 1 {
				if b, ok := margs[0].([]byte); ok {
					key = string(b)
				}
			}
			if v, ok := c.config[key]; ok {
				return true, []any{[]stackitem.Item{stackitem.NewBigInteger(big.NewInt(v))}, nil}
			}
			return true, []any{[]stackitem.Item{stackitem.Null{}}, nil}
		case contract == c.netContracts.balance && method == "decimals":
			return true, []any{[]stackitem.Item{stackitem.NewBigInteger(big.NewInt(12))}, nil}
		case contract == c.netContracts.container && method == "getInfo":
			return true, []any{nil, errors.New("verif: method not found: getInfo")}
		case contract == c.netContracts.container && method == "getContainerData":
			if len(margs) == 1 {
				if b, ok := margs[0].([]byte); ok && len(b) == cid.Size {
					if cb, ok := c.containers[cid.ID(b)]; ok {
						return true, []any{[]stackitem.Item{stackitem.NewByteArray(cb)}, nil}
					}
				}
			}
			return true, []any{nil, errors.New("verif: container does not exist")}
		}
	}
	// every other read fails like a lost connection would
	switch op {
	case "CalculateNonceAndVUB":
		return true, vf37ErrRes(3, errors.New("verif: chain read not served: "+op))
	}
	return true, vf37ErrRes(2, errors.New("verif: chain read not served: "+op))
}

// ---------------------------------------------------------------------------------------
// notary requests and notifications

type vf37ReqOpts struct {
	NVB          uint32 // fallback NotValidBefore height
	NoInvoker    bool   // three signers/witnesses only (alphabet-initiated shape)
	BadAlphabet  bool   // multisig of a foreign committee
	NKeysDelta   int    // error in NotaryAssisted.NKeys
	PresignedIR  bool   // alphabet witness already carries an invocation script
	ExtraWitness bool
	ProxyWitness bool // non-empty proxy witness
	NoAttribute  bool
	FBAttributes int // number of fallback attributes to drop (0 = well-formed)
	BadNotaryWit bool
	EmptyInvoker bool
}

var vf37DummySig = append([]byte{byte(opcode.PUSHDATA1), 64}, make([]byte, 64)...)

func vf37Request(rng *rand.Rand, committee keys.PublicKeys, proxy util.Uint160, script []byte, o vf37ReqOpts) *payload.P2PNotaryRequest {
	invoker := vf37Key(rng)
	cm := committee
	if o.BadAlphabet {
		cm = nil
		for range committee {
			cm = append(cm, vf37Key(rng).PublicKey())
		}
	}
	ms, err := smartcontract.CreateMultiSigRedeemScript(len(cm)*2/3+1, cm)
	if err != nil {
		panic(err)
	}
	realSig := append([]byte{byte(opcode.PUSHDATA1), 64}, invoker.Sign(script)...)

	tx := transaction.New(script, 1_0000_0000)
	tx.Nonce = rng.Uint32()
	tx.ValidUntilBlock = o.NVB + 100
	tx.Signers = []transaction.Signer{
		{Account: proxy, Scopes: transaction.None},
		{Account: hash.Hash160(ms), Scopes: transaction.Global},
	}
	tx.Scripts = []transaction.Witness{{}, {VerificationScript: ms}}
	if o.ProxyWitness {
		tx.Scripts[0].InvocationScript = slices.Clone(vf37DummySig)
	}
	nkeys := len(committee)
	if o.PresignedIR {
		tx.Scripts[1].InvocationScript = slices.Clone(vf37DummySig)
	}
	if !o.NoInvoker {
		tx.Signers = append(tx.Signers, transaction.Signer{Account: invoker.GetScriptHash(), Scopes: transaction.CalledByEntry})
		w := transaction.Witness{InvocationScript: realSig, VerificationScript: invoker.PublicKey().GetVerificationScript()}
		if o.EmptyInvoker {
			w = transaction.Witness{}
		}
		tx.Scripts = append(tx.Scripts, w)
		nkeys++
	}
	tx.Signers = append(tx.Signers, transaction.Signer{Account: nativehashes.Notary, Scopes: transaction.None})
	nw := transaction.Witness{InvocationScript: slices.Clone(vf37DummySig)}
	if o.BadNotaryWit {
		nw.VerificationScript = []byte{byte(opcode.PUSHT)}
	}
	tx.Scripts = append(tx.Scripts, nw)
	if o.ExtraWitness {
		tx.Signers = append(tx.Signers, transaction.Signer{Account: vf37Key(rng).GetScriptHash(), Scopes: transaction.None})
		tx.Scripts = append(tx.Scripts, transaction.Witness{InvocationScript: slices.Clone(vf37DummySig)})
	}
	tx.Attributes = []transaction.Attribute{{Type: transaction.NotaryAssistedT, Value: &transaction.NotaryAssisted{NKeys: uint8(nkeys + o.NKeysDelta)}}}
	if o.NoAttribute {
		tx.Attributes = nil
	}

	fb := transaction.New([]byte{byte(opcode.RET)}, 0)
	fb.Nonce = tx.Nonce
	fb.ValidUntilBlock = tx.ValidUntilBlock
	fb.Signers = []transaction.Signer{
		{Account: nativehashes.Notary, Scopes: transaction.None},
		{Account: invoker.GetScriptHash(), Scopes: transaction.None},
	}
	fb.Attributes = []transaction.Attribute{
		{Type: transaction.NotValidBeforeT, Value: &transaction.NotValidBefore{Height: o.NVB}},
		{Type: transaction.NotaryAssistedT, Value: &transaction.NotaryAssisted{NKeys: 0}},
		{Type: transaction.ConflictsT, Value: &transaction.Conflicts{Hash: tx.Hash()}},
	}
	fb.Attributes = fb.Attributes[min(o.FBAttributes, 3):]
	fb.Scripts = []transaction.Witness{
		{InvocationScript: slices.Clone(vf37DummySig)},
		{InvocationScript: slices.Clone(realSig), VerificationScript: invoker.PublicKey().GetVerificationScript()},
	}
	return &payload.P2PNotaryRequest{MainTransaction: tx, FallbackTransaction: fb}
}

func vf37Notification(contract util.Uint160, name string, tx util.Uint256, items ...stackitem.Item) *state.ContainedNotificationEvent {
	ev := &state.ContainedNotificationEvent{Container: tx}
	ev.ScriptHash = contract
	ev.Name = name
	ev.Item = stackitem.NewArray(items)
	return ev
}

// ---------------------------------------------------------------------------------------
// worker pools

// vf37SwapPool replaces a processor's worker pool (field "pool", non-blocking: a handler
// call that finds all workers busy drops its event) by a single-worker pool whose Submit
// waits for the worker.  Events are delivered one at a time, so this only makes sure that
// the harness' own barrier task can never push the next event out.
func vf37SwapPool(proc any) *ants.Pool {
	f := reflect.ValueOf(proc).Elem().FieldByName("pool")
	if !f.IsValid() {
		return nil
	}
	pp, ok := reflect.NewAt(f.Type(), unsafe.Pointer(f.UnsafeAddr())).Interface().(**ants.Pool)
	if !ok {
		return nil
	}
	np, err := ants.NewPool(1)
	if err != nil {
		return nil
	}
	(*pp).Release()
	*pp = np
	return np
}

func vf37Barrier(r *verifkit.Run, p *ants.Pool) bool {
	done := make(chan struct{})
	if err := p.Submit(func() { close(done) }); err != nil {
		r.Inconclusive("harness: barrier task refused: " + err.Error())
		return false
	}
	select {
	case <-done:
		return true
	case <-time.After(3 * time.Minute):
		r.Inconclusive("watchdog: barrier task never ran")
		return false
	}
}

// ---------------------------------------------------------------------------------------
// the node

type vf37Time struct{ t time.Time }

func (x vf37Time) Now() time.Time { return x.t }

type vf37Node struct {
	chain *vf37Chain
	srv   *Server
	key   *keys.PrivateKey

	fsL, mainL event.Listener
	procs      map[string]ContractProcessor
	settlement *settlement.Processor
	container  *container.Processor
	pools      []*ants.Pool

	proxy util.Uint160
	now   time.Time
}

type vf37NodeOpts struct {
	AlphabetContracts int
	MetaEnabled       bool // experimental chain metadata ("meta-on-chain") switched on
	MetaChain         *vf37MetaChain
	AllowEC           bool
	StorageEmission   uint64
}

// vf37MetaChain stands for the metadata chain of a node with chain metadata enabled; it
// only records what the container processor registers there.
type vf37MetaChain struct {
	mu         sync.Mutex
	Registered []cid.ID
	Placements []cid.ID
}

func (m *vf37MetaChain) UpdateContainerPlacement(id cid.ID, _ [][]sdknetmap.NodeInfo, _ sdknetmap.PlacementPolicy, _ uint32) error {
	m.mu.Lock()
	defer m.mu.Unlock()
	m.Placements = append(m.Placements, id)
	return nil
}

func (m *vf37MetaChain) RegisterMetadataContainer(id cid.ID, _ uint32) error {
	m.mu.Lock()
	defer m.mu.Unlock()
	m.Registered = append(m.Registered, id)
	return nil
}

// takeRegistered returns and forgets the containers registered since the last call.
func (m *vf37MetaChain) takeRegistered() []cid.ID {
	m.mu.Lock()
	defer m.mu.Unlock()
	res := m.Registered
	m.Registered, m.Placements = nil, nil
	return res
}

func vf37MetaClientOf(o vf37NodeOpts) processors.MetadataChain {
	if o.MetaChain == nil {
		if o.MetaEnabled {
			return &vf37MetaChain{}
		}
		return nil // like innerring.New: no metadata actor unless the feature is on
	}
	return o.MetaChain
}

// vf37NewNode assembles the state, clients, processors and listeners like innerring.New
// does, on top of the recording chain.  The Morph hook is installed; call close().
func vf37NewNode(t testing.TB, rng *rand.Rand, ch *vf37Chain, o vf37NodeOpts) *vf37Node {
	n := &vf37Node{chain: ch, key: vf37Key(rng), procs: map[string]ContractProcessor{}, now: time.Unix(1_700_000_000, 0)}
	verifhook.SetMorph(ch.morph)
	log := zap.NewNop()

	cs := &contracts{
		neofs: util.Uint160{0xC0, 1}, netmap: util.Uint160{0xC0, 2}, balance: util.Uint160{0xC0, 3}, container: util.Uint160{0xC0, 4},
		proxy: util.Uint160{0xC0, 5}, processing: util.Uint160{0xC0, 6}, reputation: util.Uint160{0xC0, 7},
	}
	for i := 0; i < o.AlphabetContracts; i++ {
		cs.alphabet = append(cs.alphabet, util.Uint160{0xA0, byte(i)})
	}
	ch.netContracts.netmap, ch.netContracts.container, ch.netContracts.balance, ch.netContracts.reputation, ch.netContracts.neofs = cs.netmap, cs.container, cs.balance, cs.reputation, cs.neofs
	n.proxy = cs.proxy

	srv := &Server{log: log, key: n.key, contracts: cs, fsChainClient: ch.fs, mainnetClient: ch.main, mainNotaryConfig: &notaryConfig{}}
	srv.pubKey = n.key.PublicKey().Bytes()
	srv.epochCounter.Store(ch.epoch)
	srv.chainTime.Set(uint64(n.now.UnixMilli()))
	n.srv = srv
	must := func(err error) {
		if err != nil {
			t.Fatalf("fixture: %v", err)
		}
	}
	var err error
	cnrClient, err := cntClient.NewFromMorph(ch.fs, cs.container, cntClient.AsAlphabet())
	must(err)
	srv.netmapClient, err = nmClient.NewFromMorph(ch.fs, cs.netmap, nmClient.AsAlphabet())
	must(err)
	srv.balanceClient, err = balanceClient.NewFromMorph(ch.fs, cs.balance, balanceClient.AsAlphabet())
	must(err)
	p, err := srv.balanceClient.Decimals()
	must(err)
	srv.precision = p
	reputationClient, err := repClient.NewFromMorph(ch.fs, cs.reputation, repClient.AsAlphabet())
	must(err)
	neofsCli, err := neofsClient.NewFromMorph(ch.main, cs.neofs, 0, neofsClient.TryNotary(), neofsClient.AsAlphabet())
	must(err)

	srv.statusIndex = newInnerRingIndexer(ch.fs, NewIRFetcherWithNotary(ch.fs), n.key.PublicKey(), 0)

	n.fsL, err = event.NewListener(event.ListenerParams{Logger: log, Client: ch.fs})
	must(err)
	n.mainL, err = event.NewListener(event.ListenerParams{Logger: log, Client: ch.main})
	must(err)
	srv.fsChainListener, srv.mainnetListener = n.fsL, n.mainL
	n.fsL.EnableNotarySupport(cs.proxy, n.key.PublicKey().GetScriptHash(), ch.fs.Committee, ch.fs)

	n.settlement = settlement.New(settlement.Prm{State: srv, ContainerClient: cnrClient, NetmapClient: srv.netmapClient, BalanceClient: srv.balanceClient}, settlement.WithLogger(log))

	gov, err := governance.New(&governance.Params{Log: log, NeoFSClient: neofsCli, NetmapClient: srv.netmapClient, AlphabetState: srv, EpochState: srv,
		Voter: srv, IRFetcher: NewIRFetcherWithNotary(ch.fs), FSChainClient: ch.fs, MainnetClient: ch.main})
	must(err)
	n.procs["governance"] = gov
	must(bindMainnetProcessor(gov, srv))

	srv.netmapProcessor, err = netmap.New(&netmap.Params{Log: log, PoolSize: 1, NetmapClient: srv.netmapClient, EpochTimer: srv, EpochState: srv, AlphabetState: srv,
		ContainerWrapper: cnrClient, NotaryDepositHandler: srv.onlyAlphabetEventHandler(srv.notaryHandler), AlphabetSyncHandler: gov.HandleAlphabetSync,
		NodeValidator: vf37AcceptAll{}})
	must(err)
	n.procs["netmap"] = srv.netmapProcessor
	must(bindFSChainProcessor(srv.netmapProcessor, srv))

	n.container, err = container.New(&container.Params{Log: log, PoolSize: 1, AlphabetState: srv, ContainerClient: cnrClient, NetworkState: srv.netmapClient,
		MetaEnabled: o.MetaEnabled, MetaClient: vf37MetaClientOf(o), AllowEC: o.AllowEC, ChainTime: vf37Time{n.now}})
	must(err)
	n.procs["container"] = n.container
	must(bindFSChainProcessor(n.container, srv))

	conv := precision.NewConverter(srv.precision)
	bal, err := balance.New(&balance.Params{Log: log, PoolSize: 1, NeoFSClient: neofsCli, BalanceSC: cs.balance, AlphabetState: srv, Converter: conv})
	must(err)
	n.procs["balance"] = bal
	must(bindFSChainProcessor(bal, srv))

	nfs, err := neofs.New(&neofs.Params{Log: log, PoolSize: 1, NeoFSContract: cs.neofs, BalanceClient: srv.balanceClient, NetmapClient: srv.netmapClient, FSChainClient: ch.fs,
		EpochState: srv, AlphabetState: srv, Converter: conv, MintEmitCacheSize: 100, MintEmitThreshold: 1, MintEmitValue: 2000_0000, GasBalanceThreshold: 0})
	must(err)
	n.procs["neofs"] = nfs
	must(bindMainnetProcessor(nfs, srv))

	alp, err := alphabet.New(&alphabet.Params{Log: log, PoolSize: 1, AlphabetContracts: cs.alphabet, NetmapClient: srv.netmapClient, FSChainClient: ch.fs, IRList: srv, StorageEmission: o.StorageEmission})
	must(err)
	n.procs["alphabet"] = alp
	must(bindFSChainProcessor(alp, srv))

	rep, err := reputation.New(&reputation.Params{Log: log, PoolSize: 1, EpochState: srv, AlphabetState: srv, ReputationWrapper: reputationClient,
		ManagerBuilder: reputationcommon.NewManagerBuilder(reputationcommon.ManagersPrm{NetMapSource: srv.netmapClient})})
	must(err)
	n.procs["reputation"] = rep
	must(bindFSChainProcessor(rep, srv))

	names := make([]string, 0, len(n.procs))
	for k := range n.procs {
		names = append(names, k)
	}
	sort.Strings(names)
	// netmap first: its new-epoch handler feeds the governance pool
	slices.SortStableFunc(names, func(a, b string) int {
		if a == "netmap" {
			return -1
		}
		if b == "netmap" {
			return 1
		}
		return 0
	})
	for _, name := range names {
		pl := vf37SwapPool(n.procs[name])
		if pl == nil {
			t.Fatalf("fixture: processor %s has no worker pool field", name)
		}
		n.pools = append(n.pools, pl)
	}
	return n
}

type vf37AcceptAll struct{}

func (vf37AcceptAll) Verify(sdknetmap.NodeInfo) error { return nil }

func (n *vf37Node) close() { verifhook.SetMorph(nil) }

// settle waits until every processor pool has drained (two rounds: a netmap task may feed
// the governance pool).
func (n *vf37Node) settle(r *verifkit.Run) bool {
	for round := 0; round < 2; round++ {
		for _, p := range n.pools {
			if !vf37Barrier(r, p) {
				return false
			}
		}
	}
	return true
}

func (n *vf37Node) notaryFS(req *payload.P2PNotaryRequest) {
	event.Verif37HandleNotary(n.fsL, &result.NotaryRequestEvent{Type: mempoolevent.TransactionAdded, NotaryRequest: req})
}

// ---------------------------------------------------------------------------------------
// container domain generators

type vf37CnrOpts struct {
	Policy     string // textual policy, "" = "REP 1"
	Attrs      [][2]string
	BasicACL   acl.Basic
	Name, Zone string
	// DomainFirst: the domain attributes are written before Attrs (else after them)
	DomainFirst bool
}

func vf37Container(rng *rand.Rand, owner user.ID, o vf37CnrOpts) sdkcontainer.Container {
	var c sdkcontainer.Container
	c.Init()
	c.SetOwner(owner)
	if o.BasicACL == 0 {
		o.BasicACL = acl.PublicRWExtended
	}
	c.SetBasicACL(o.BasicACL)
	pol := o.Policy
	if pol == "" {
		pol = "REP 1"
	}
	var pp sdknetmap.PlacementPolicy
	if err := pp.DecodeString(pol); err != nil {
		panic(fmt.Sprintf("harness policy %q: %v", pol, err))
	}
	c.SetPlacementPolicy(pp)
	c.SetAttribute("Nonce", fmt.Sprint(rng.Uint64()))
	writeDomain := func() {
		if o.Name != "" {
			var d sdkcontainer.Domain
			d.SetName(o.Name)
			if o.Zone != "" {
				d.SetZone(o.Zone)
			}
			c.WriteDomain(d)
		}
	}
	if o.DomainFirst {
		writeDomain()
	}
	for _, a := range o.Attrs {
		c.SetAttribute(a[0], a[1])
	}
	if !o.DomainFirst {
		writeDomain()
	}
	return c
}

// vf37SignRFC6979 makes the (invocation script, verification script) pair of the
// deterministic-ECDSA request authentication: raw signature + compressed public key.
func vf37SignRFC6979(k *keys.PrivateKey, data []byte) (sig, pub []byte) {
	s, err := neofsecdsa.SignerRFC6979(k.PrivateKey).Sign(data)
	if err != nil {
		panic(err)
	}
	return s, k.PublicKey().Bytes()
}

type vf37TokV1Opts struct {
	Verb     session.ContainerVerb
	Cnr      *cid.ID
	Iat, Nbf uint64
	Exp      uint64
	Issuer   *keys.PrivateKey // signs and issues
	AuthKey  *keys.PrivateKey // session key
	BreakSig bool
	WrongIss *user.ID // issuer field differs from the signer
}

func vf37TokenV1(o vf37TokV1Opts) []byte {
	var tok session.Container
	tok.SetID(uuid.New())
	tok.ForVerb(o.Verb)
	if o.Cnr != nil {
		tok.ApplyOnlyTo(*o.Cnr)
	}
	tok.SetIat(o.Iat)
	tok.SetNbf(o.Nbf)
	tok.SetExp(o.Exp)
	tok.SetAuthKey((*neofsecdsa.PublicKey)(&o.AuthKey.PrivateKey.PublicKey))
	if err := tok.Sign(user.NewAutoIDSignerRFC6979(o.Issuer.PrivateKey)); err != nil {
		panic(err)
	}
	if o.WrongIss != nil {
		tok.SetIssuer(*o.WrongIss)
	}
	b := tok.Marshal()
	if o.BreakSig {
		// re-sign different content, keep the old signature: flip the verb after signing
		var t2 session.Container
		if err := t2.Unmarshal(b); err != nil {
			panic(err)
		}
		sig, _ := t2.Signature()
		t2.SetExp(o.Exp + 1)
		t2.AttachSignature(sig)
		b = t2.Marshal()
	}
	return b
}

// vf37Ctx is one context of a v2 token: a container (zero = wildcard) and the verbs
// delegated for it.
type vf37Ctx struct {
	Cnr   cid.ID
	Verbs []sessionv2.Verb
}

type vf37TokV2Opts struct {
	Verbs    []sessionv2.Verb
	Cnr      cid.ID    // zero = wildcard
	Ctxs     []vf37Ctx // if set: the token's contexts (Verbs/Cnr are ignored), in this order
	Iat      time.Time
	Nbf, Exp time.Time
	Issuer   *keys.PrivateKey
	Subject  user.ID
	BreakSig bool
	Origin   *sessionv2.Token
}

func vf37TokenV2(o vf37TokV2Opts) (sessionv2.Token, []byte) {
	var tok sessionv2.Token
	tok.SetVersion(sessionv2.TokenCurrentVersion)
	specs := o.Ctxs
	if len(specs) == 0 {
		specs = []vf37Ctx{{Cnr: o.Cnr, Verbs: o.Verbs}}
	}
	var ctxs []sessionv2.Context
	for _, c := range specs {
		ctx, err := sessionv2.NewContext(c.Cnr, slices.Clone(c.Verbs))
		if err != nil {
			panic(err)
		}
		ctxs = append(ctxs, ctx)
	}
	var err error
	if err = tok.SetContexts(ctxs); err != nil {
		panic(err)
	}
	if err = tok.SetSubjects([]sessionv2.Target{sessionv2.NewTargetUser(o.Subject)}); err != nil {
		panic(err)
	}
	tok.SetIat(o.Iat)
	tok.SetNbf(o.Nbf)
	tok.SetExp(o.Exp)
	if o.Origin != nil {
		tok.SetOrigin(o.Origin)
	}
	if err = tok.Sign(user.NewAutoIDSignerRFC6979(o.Issuer.PrivateKey)); err != nil {
		panic(err)
	}
	if o.BreakSig {
		sig, _ := tok.Signature()
		tok.SetExp(o.Exp.Add(time.Second))
		tok.AttachSignature(sig)
	}
	return tok, tok.Marshal()
}

func vf37EACL(id cid.ID, role eacl.Role, comment string) eacl.Table {
	rec := eacl.ConstructRecord(eacl.ActionDeny, eacl.OperationPut, []eacl.Target{eacl.NewTargetByRole(role)})
	_ = comment
	t := eacl.NewTableForContainer(id, []eacl.Record{rec})
	return t
}

// vf37CnrInfo renders a container as the Container contract structure (createV2 argument).
func vf37CnrInfo(c sdkcontainer.Container) *containerrpc.ContainerInfo {
	ver := c.Version()
	owner := c.Owner()
	m := c.ProtoMessage()
	var attrs []*containerrpc.ContainerAttribute
	for _, a := range m.GetAttributes() {
		attrs = append(attrs, &containerrpc.ContainerAttribute{Key: a.GetKey(), Value: a.GetValue()})
	}
	return &containerrpc.ContainerInfo{
		Version:       &containerrpc.ContainerAPIVersion{Major: big.NewInt(int64(ver.Major())), Minor: big.NewInt(int64(ver.Minor()))},
		Owner:         owner.ScriptHash(),
		Nonce:         m.GetNonce(),
		BasicACL:      big.NewInt(int64(c.BasicACL().Bits())),
		Attributes:    attrs,
		StoragePolicy: c.PlacementPolicy().Marshal(),
	}
}

// vf37Invoke is one contract call of a main transaction script.
type vf37Invoke struct {
	Contract util.Uint160
	Method   string
	Args     []any
}

func vf37Script(calls ...vf37Invoke) []byte {
	b := smartcontract.NewBuilder()
	for _, c := range calls {
		b.InvokeMethod(c.Contract, c.Method, c.Args...)
	}
	s, err := b.Script()
	if err != nil {
		panic("harness: script: " + err.Error())
	}
	return s
}

// vf37World is the chain content a node works on: a small network map (keys known), an
// owner with one stored container.
type vf37World struct {
	NodeKeys []*keys.PrivateKey
	Owner    *keys.PrivateKey
	OwnerID  user.ID
	Cnr      sdkcontainer.Container
	CnrID    cid.ID
}

func vf37NetmapNode(k *keys.PrivateKey, i int) *netmaprpc.NetmapNode2 {
	return &netmaprpc.NetmapNode2{
		Addresses:  []string{fmt.Sprintf("/ip4/10.0.0.%d/tcp/8080", i+1)},
		Attributes: map[string]string{"Capacity": "100", "Price": "1"},
		Key:        k.PublicKey(),
		State:      netmaprpc.NodeStateOnline,
	}
}

func vf37NewWorld(rng *rand.Rand, ch *vf37Chain, nodes int) *vf37World {
	w := &vf37World{}
	for i := 0; i < nodes; i++ {
		k := vf37Key(rng)
		w.NodeKeys = append(w.NodeKeys, k)
		ch.nodes = append(ch.nodes, vf37NetmapNode(k, i))
	}
	w.Owner = vf37Key(rng)
	w.OwnerID = vf37User(w.Owner)
	w.Cnr = vf37Container(rng, w.OwnerID, vf37CnrOpts{})
	b := w.Cnr.Marshal()
	w.CnrID = cid.NewFromMarshalledContainer(b)
	ch.containers[w.CnrID] = b
	return w
}

// vf37AttrSigned returns the signed payloads of attribute requests.
func vf37AttrSetSigned(id cid.ID, attr, val string, until int64) []byte {
	return sdkclient.GetSignedSetContainerAttributeParameters(sdkclient.SetContainerAttributeParameters{ID: id, Attribute: attr, Value: val, ValidUntil: time.Unix(until, 0)})
}

func vf37AttrRemoveSigned(id cid.ID, attr string, until int64) []byte {
	return sdkclient.GetSignedRemoveContainerAttributeParameters(sdkclient.RemoveContainerAttributeParameters{ID: id, Attribute: attr, ValidUntil: time.Unix(until, 0)})
}

var (
	_ = context.Background
	_ = strings.Join
	_ = rolemgmt.Hash
	_ = sdkreputation.PeerID{}
)
