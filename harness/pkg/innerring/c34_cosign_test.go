//go:build verif

package innerring

// C34: an inner ring node adds its alphabet signature to a notary request only if the main
// transaction has the required signers, witnesses, attributes and an unexpired fallback, and
// every contract call of its script is an expected (contract, method) call that the matching
// handler validated.
//
// The monitor generates notary requests whose scripts hold 1..3 calls (registered and
// unregistered contracts and methods, valid and invalid content, argument shape changes),
// with mutated signers / witnesses (all combinations of invocation and verification script
// forms of the proxy and Notary witnesses) / attributes / fallbacks, sends them through the real
// listener (preparator -> parser -> handler) into the real container, netmap and reputation
// processors of an alphabet node and judges every recorded NotarySignAndInvokeTX.

import (
	"bytes"
	"fmt"
	"math/rand/v2"
	"slices"
	"sort"
	"strings"
	"testing"
	"time"

	"github.com/nspcc-dev/neo-go/pkg/core/transaction"
	"github.com/nspcc-dev/neo-go/pkg/crypto/hash"
	"github.com/nspcc-dev/neo-go/pkg/crypto/keys"
	"github.com/nspcc-dev/neo-go/pkg/network/payload"
	"github.com/nspcc-dev/neo-go/pkg/smartcontract"
	"github.com/nspcc-dev/neo-go/pkg/util"
	"github.com/nspcc-dev/neofs-node/internal/verifkit"
	cntClient "github.com/nspcc-dev/neofs-node/pkg/morph/client/container"
	reputationcommon "github.com/nspcc-dev/neofs-node/pkg/services/reputation/common"
	sdkcontainer "github.com/nspcc-dev/neofs-sdk-go/container"
	"github.com/nspcc-dev/neofs-sdk-go/container/acl"
	cid "github.com/nspcc-dev/neofs-sdk-go/container/id"
	neofsecdsa "github.com/nspcc-dev/neofs-sdk-go/crypto/ecdsa"
	"github.com/nspcc-dev/neofs-sdk-go/eacl"
	sdkreputation "github.com/nspcc-dev/neofs-sdk-go/reputation"
)

// The calls an inner ring node is expected to co-sign (the oracle's own list, from the
// FS chain contracts' notary-assisted user/storage-node methods at this revision).
var vf34ExpectedCalls = map[string][]string{
	"container":  {"put", "putNamed", "create", "createV2", "delete", "remove", "setEACL", "putEACL", "putReport", "setAttribute", "removeAttribute"},
	"netmap":     {"addNode", "updateState"},
	"reputation": {"put"},
}

// vf34SCall is one generated contract call of a main transaction script together with what
// the oracle knows about it by construction.
type vf34SCall struct {
	Kind     string     `json:"kind"`     // "<contract>.<method>" as sent ("foreign" for an unknown contract)
	Category string     `json:"category"` // expected | foreign-contract | unknown-method | method-of-other-contract
	Content  string     `json:"content"`  // which argument set it carries
	Valid    bool       `json:"valid"`    // the arguments pass the rules of the handler registered for (contract, method)
	Why      string     `json:"invalid_because,omitempty"`
	Shape    string     `json:"shape,omitempty"` // argument shape change, if any
	Inv      vf34Invoke `json:"-"`
	fault    bool       // the chain reports the whole script as non-HALT
}

func (c vf34SCall) expected() bool { return c.Category == "expected" }

type vf34Env struct {
	rng      *rand.Rand
	ch       *vf34Chain
	n        *vf34Node
	w        *vf34World
	stranger *keys.PrivateKey
	names    map[string]util.Uint160 // contract name -> hash
	reporter []byte                  // key of a node of the stored container
	peer     *keys.PrivateKey        // a storage node and its reputation manager
	manager  *keys.PrivateKey
}

func (e *vf34Env) contractName(h util.Uint160) string {
	for n, x := range e.names {
		if x == h {
			return n
		}
	}
	return "foreign"
}

// classify tells, from the oracle's list, what kind of call (contract, method) is.
func (e *vf34Env) classify(h util.Uint160, method string) (kind, category string) {
	name := e.contractName(h)
	kind = name + "." + method
	if name == "foreign" {
		return kind, "foreign-contract"
	}
	if slices.Contains(vf34ExpectedCalls[name], method) {
		return kind, "expected"
	}
	for _, ms := range vf34ExpectedCalls {
		if slices.Contains(ms, method) {
			return kind, "method-of-other-contract"
		}
	}
	return kind, "unknown-method"
}

// ---------------------------------------------------------------------------------------
// content generators: each returns the argument list of one call and whether the matching
// handler's rules are met.

type vf34Content struct {
	contract string // contract the content is meant for
	method   string
	args     []any
	valid    bool
	why      string
	fault    bool
	newID    *cid.ID                 // container created by this call
	newCnr   *sdkcontainer.Container // and its content
}

func (e *vf34Env) signer(valid bool) (*keys.PrivateKey, string) {
	if valid {
		return e.w.Owner, ""
	}
	return e.stranger, "signed-by-stranger"
}

// creation content for put / putNamed / create / createV2.
func (e *vf34Env) genCreation(method string, valid bool, final bool) vf34Content {
	rng := e.rng
	o := vf34CnrOpts{}
	why := ""
	defect := 0
	if !valid {
		defect = 1 + rng.IntN(3)
	}
	switch defect {
	case 2:
		o.Attrs = append(o.Attrs, [2]string{"__NEOFS__FOO", "1"})
		why = "forbidden-system-attribute"
	case 3:
		o.Policy = "REP 9"
		why = "invalid-policy"
	}
	if final {
		o.BasicACL = acl.PublicRW
	}
	name, zone := "", ""
	if method == "putNamed" {
		name, zone = fmt.Sprintf("n%d", rng.Uint32()), "container"
		o.Name, o.Zone = name, zone
	}
	cn := vf34Container(rng, e.w.OwnerID, o)
	b := cn.Marshal()
	var info any
	if method == "createV2" {
		ci := vf34CnrInfo(cn)
		rt, err := cntClient.ContainerFromStruct(*ci)
		if err != nil {
			panic("harness: container structure does not convert back: " + err.Error())
		}
		cn = rt
		b = rt.Marshal()
		info = ci
	}
	k := e.w.Owner
	if defect == 1 {
		k, why = e.stranger, "signed-by-stranger"
	}
	sig, pub := vf34SignRFC6979(k, b)
	id := cid.NewFromMarshalledContainer(b)
	c := vf34Content{contract: "container", method: method, valid: valid, why: why, newID: &id, newCnr: &cn}
	switch method {
	case "put":
		c.args = []any{b, sig, pub, []byte{}}
	case "putNamed":
		c.args = []any{b, sig, pub, []byte{}, name, zone}
	case "create":
		c.args = []any{b, sig, pub, []byte{}, "", "", false}
	case "createV2":
		c.args = []any{info, sig, pub, []byte{}}
	}
	return c
}

// eACL content (setEACL / putEACL).  ctxNew: the container created by an earlier call of
// the same script (nil: the stored container is the target).
func (e *vf34Env) genEACL(method string, valid bool, ctxNew *vf34Content) vf34Content {
	rng := e.rng
	target := e.w.CnrID
	extendable := true
	if ctxNew != nil {
		target = *ctxNew.newID
		extendable = ctxNew.newCnr.BasicACL().Extendable()
	}
	role := eacl.RoleOthers
	why := ""
	defect := 0
	if !valid {
		defect = 1 + rng.IntN(3)
	}
	k := e.w.Owner
	switch defect {
	case 1:
		k, why = e.stranger, "signed-by-stranger"
	case 2:
		role, why = eacl.RoleSystem, "touches-system-role"
	case 3:
		target, why = cid.ID(vf34RandBytes(rng, 32)), "unknown-container"
	}
	if !extendable && valid {
		valid, why = false, "basic-acl-not-extendable"
	}
	tb := vf34EACL(target, role, "").Marshal()
	sig, pub := vf34SignRFC6979(k, tb)
	return vf34Content{contract: "container", method: method, args: []any{tb, sig, pub, []byte{}}, valid: valid, why: why}
}

func (e *vf34Env) genRemoval(method string, valid bool) vf34Content {
	rng := e.rng
	target := e.w.CnrID
	why := ""
	if method == "delete" {
		// legacy delete carries no verification script: the witness is run by the chain
		sig := vf34RandBytes(rng, 64)
		e.ch.lock(func() { e.ch.n3Verdict[string(sig)] = valid })
		if !valid {
			why = "witness-refused-by-chain"
		}
		return vf34Content{contract: "container", method: method, args: []any{target[:], sig, []byte{}}, valid: valid, why: why}
	}
	k := e.w.Owner
	if !valid {
		if rng.IntN(2) == 0 {
			k, why = e.stranger, "signed-by-stranger"
		} else {
			target, why = cid.ID(vf34RandBytes(rng, 32)), "unknown-container"
		}
	}
	sig, pub := vf34SignRFC6979(k, target[:])
	return vf34Content{contract: "container", method: method, args: []any{target[:], sig, pub, []byte{}}, valid: valid, why: why}
}

func (e *vf34Env) genAttribute(method string, valid bool) vf34Content {
	k, why := e.signer(valid)
	until := time.Now().Add(time.Hour).Unix()
	id := e.w.CnrID
	if method == "setAttribute" {
		sig, pub := vf34SignRFC6979(k, vf34AttrSetSigned(id, "CORS", "x", until))
		return vf34Content{contract: "container", method: method, args: []any{id[:], "CORS", "x", until, sig, pub, []byte{}}, valid: valid, why: why}
	}
	sig, pub := vf34SignRFC6979(k, vf34AttrRemoveSigned(id, "CORS", until))
	return vf34Content{contract: "container", method: method, args: []any{id[:], "CORS", until, sig, pub, []byte{}}, valid: valid, why: why}
}

func (e *vf34Env) genReport(valid bool) vf34Content {
	rng := e.rng
	size, key, why := int64(1000), e.reporter, ""
	if !valid {
		if rng.IntN(2) == 0 {
			size, why = -5, "negative-size"
		} else {
			key, why = vf34Key(rng).PublicKey().Bytes(), "reporter-outside-container"
		}
	}
	return vf34Content{contract: "container", method: "putReport", args: []any{e.w.CnrID[:], size, int64(10), key}, valid: valid, why: why}
}

func (e *vf34Env) genAddNode(valid bool) vf34Content {
	rng := e.rng
	nd := vf34NetmapNode(vf34Key(rng), 20+rng.IntN(200))
	c := vf34Content{contract: "netmap", method: "addNode", valid: valid}
	if !valid {
		if rng.IntN(2) == 0 {
			nd.Attributes["VerifReject"] = "1"
			c.why = "candidate-rejected-by-validator"
		} else {
			c.fault = true
			c.why = "script-does-not-halt"
		}
	}
	c.args = []any{nd}
	return c
}

func (e *vf34Env) genUpdateState() vf34Content {
	// the handler co-signs every parsable state update: always valid
	return vf34Content{contract: "netmap", method: "updateState", args: []any{int64(1 + e.rng.IntN(2)), e.w.NodeKeys[0].PublicKey().Bytes()}, valid: true}
}

func (e *vf34Env) genReputation(valid bool) vf34Content {
	rng := e.rng
	epoch := e.ch.epoch - 1
	why := ""
	var peer, mng sdkreputation.PeerID
	peer.SetPublicKey(e.peer.PublicKey().Bytes())
	mk := e.manager
	defect := 0
	if !valid {
		defect = 1 + rng.IntN(3)
	}
	switch defect {
	case 1:
		epoch, why = e.ch.epoch, "epoch-not-in-the-past"
	case 2:
		mk, why = e.stranger, "wrong-manager"
	}
	mng.SetPublicKey(mk.PublicKey().Bytes())
	var tr sdkreputation.Trust
	tr.SetPeer(peer)
	tr.SetValue(0.5)
	var gt sdkreputation.GlobalTrust
	gt.Init()
	gt.SetManager(mng)
	gt.SetTrust(tr)
	if err := gt.Sign(neofsecdsa.Signer(mk.PrivateKey)); err != nil {
		panic(err)
	}
	if defect == 3 {
		// signed content differs from the delivered one
		tr.SetValue(0.9)
		gt.SetTrust(tr)
		why = "signature-does-not-match"
	}
	return vf34Content{contract: "reputation", method: "put", args: []any{int64(epoch), e.peer.PublicKey().Bytes(), gt.Marshal()}, valid: valid, why: why}
}

var vf34AllExpected = func() []string {
	var l []string
	for c, ms := range vf34ExpectedCalls {
		for _, m := range ms {
			l = append(l, c+"."+m)
		}
	}
	sort.Strings(l)
	return l
}()

// genExpected makes the content for one expected (contract, method) pair.
func (e *vf34Env) genExpected(pair string, valid bool, ctxNew *vf34Content) vf34Content {
	_, method, _ := strings.Cut(pair, ".")
	switch pair {
	case "container.put", "container.putNamed", "container.create", "container.createV2":
		return e.genCreation(method, valid, e.rng.IntN(6) == 0)
	case "container.delete", "container.remove":
		return e.genRemoval(method, valid)
	case "container.setEACL", "container.putEACL":
		return e.genEACL(method, valid, ctxNew)
	case "container.putReport":
		return e.genReport(valid)
	case "container.setAttribute", "container.removeAttribute":
		return e.genAttribute(method, valid)
	case "netmap.addNode":
		return e.genAddNode(valid)
	case "netmap.updateState":
		return e.genUpdateState()
	case "reputation.put":
		return e.genReputation(valid)
	}
	panic("harness: no generator for " + pair)
}

var vf34UnknownMethods = []string{"transfer", "update", "newEpoch", "setConfig", "putEACLs", "PutEACL", "verify", "addNodeIR", "deploy", "destroy"}

// call turns content into a call, optionally redirected to another contract / method.
func (e *vf34Env) call(c vf34Content, contract *util.Uint160, method string) vf34SCall {
	h := e.names[c.contract]
	if contract != nil {
		h = *contract
	}
	if method == "" {
		method = c.method
	}
	kind, cat := e.classify(h, method)
	res := vf34SCall{Kind: kind, Category: cat, Content: c.contract + "." + c.method, Inv: vf34Invoke{h, method, c.args}, fault: c.fault}
	if cat == "expected" {
		if kind == res.Content || (c.contract == "container" && (kind == "container.setEACL" || kind == "container.putEACL") && (c.method == "setEACL" || c.method == "putEACL")) {
			// same arguments, same rules (the two eACL methods take the same arguments and the same checks)
			res.Valid, res.Why = c.valid, c.why
		} else {
			res.Why = "arguments-of-" + res.Content
		}
	} else {
		res.Why = cat
	}
	return res
}

// reshape changes the argument shape of a call so that the data a handler must validate is
// gone: the call can no longer be a validated one.
func (e *vf34Env) reshape(c vf34SCall) vf34SCall {
	rng := e.rng
	args := slices.Clone(c.Inv.Args)
	if len(args) < 2 {
		return c
	}
	switch rng.IntN(4) {
	case 0:
		args = args[:len(args)-1]
		c.Shape = "last-argument-dropped"
	case 1:
		args = append(args, []byte{1, 2, 3})
		c.Shape = "extra-argument"
	case 2:
		args[0], args[1] = args[1], args[0]
		c.Shape = "first-two-arguments-swapped"
	default:
		args[1] = []any{int64(7), []byte{1}}
		c.Shape = "second-argument-is-array"
	}
	c.Inv.Args = args
	c.Valid = false
	c.Why = "shape:" + c.Shape
	return c
}

func (e *vf34Env) foreign() *util.Uint160 {
	h := util.Uint160(vf34RandBytes(e.rng, 20))
	return &h
}

// randomCall: any category.  ctxNew = container created earlier in the script.
func (e *vf34Env) randomCall(ctxNew *vf34Content) (vf34SCall, *vf34Content) {
	rng := e.rng
	pair := vf34AllExpected[rng.IntN(len(vf34AllExpected))]
	valid := rng.IntN(10) < 7
	ct := e.genExpected(pair, valid, ctxNew)
	var created *vf34Content
	switch x := rng.IntN(20); {
	case x < 12:
		c := e.call(ct, nil, "")
		if ct.newID != nil && c.Valid {
			created = &ct
		}
		if rng.IntN(12) == 0 {
			c = e.reshape(c)
			created = nil
		}
		return c, created
	case x < 15:
		return e.call(ct, e.foreign(), ""), nil
	case x < 17:
		return e.call(ct, nil, vf34UnknownMethods[rng.IntN(len(vf34UnknownMethods))]), nil
	case x < 19:
		// the method of one contract sent to another registered contract
		others := []string{"container", "netmap", "reputation"}
		o := others[rng.IntN(3)]
		h := e.names[o]
		return e.call(ct, &h, ""), nil
	default:
		return e.call(ct, e.foreign(), vf34UnknownMethods[rng.IntN(len(vf34UnknownMethods))]), nil
	}
}

// script composes the calls of one request.
func (e *vf34Env) script() (calls []vf34SCall, shape string) {
	rng := e.rng
	switch x := rng.IntN(100); {
	case x < 30:
		// one expected call, valid or not
		pair := vf34AllExpected[rng.IntN(len(vf34AllExpected))]
		c := e.call(e.genExpected(pair, rng.IntN(10) < 6, nil), nil, "")
		if rng.IntN(10) == 0 {
			c = e.reshape(c)
		}
		return []vf34SCall{c}, "single-expected"
	case x < 38:
		c, _ := e.randomCall(nil)
		return []vf34SCall{c}, "single-any"
	case x < 72:
		// container creation followed by more calls
		first := e.genCreation("createV2", rng.IntN(10) < 8, rng.IntN(8) == 0)
		fc := e.call(first, nil, "")
		calls = append(calls, fc)
		ctx := &first
		var second vf34SCall
		cn := e.names["container"]
		switch y := rng.IntN(20); {
		case y < 5:
			second = e.call(e.genEACL("putEACL", true, ctx), nil, "")
			shape = "createV2+putEACL"
		case y < 8:
			second = e.call(e.genEACL("putEACL", false, ctx), nil, "")
			shape = "createV2+putEACL(invalid)"
		case y < 10:
			second = e.call(e.genEACL("putEACL", true, nil), nil, "")
			shape = "createV2+putEACL(stored container)"
		case y < 13:
			second = e.call(e.genEACL("putEACL", true, ctx), e.foreign(), "")
			shape = "createV2+foreign.putEACL"
		case y < 15:
			second = e.call(e.genEACL("putEACL", true, ctx), &cn, vf34UnknownMethods[rng.IntN(len(vf34UnknownMethods))])
			shape = "createV2+container.unknown-method"
		case y < 16:
			second = e.call(e.genEACL("putEACL", true, ctx), e.foreign(), vf34UnknownMethods[rng.IntN(len(vf34UnknownMethods))])
			shape = "createV2+foreign.unknown-method"
		case y < 17:
			nm := e.names["netmap"]
			m := []string{"putEACL", "addNode", "updateState"}[rng.IntN(3)]
			second = e.call(e.genEACL("putEACL", true, ctx), &nm, m)
			shape = "createV2+netmap.*(eACL arguments)"
		case y < 18:
			second = e.call(e.genEACL("setEACL", true, ctx), nil, "")
			shape = "createV2+setEACL"
		default:
			second, _ = e.randomCall(ctx)
			shape = "createV2+any"
		}
		calls = append(calls, second)
		if rng.IntN(4) == 0 {
			third, _ := e.randomCall(ctx)
			calls = append(calls, third)
			shape += "+third"
		}
		return calls, shape
	default:
		// 2..3 calls, the first one mostly an expected valid one
		n := 2 + rng.IntN(2)
		var ctx *vf34Content
		for i := 0; i < n; i++ {
			var c vf34SCall
			var created *vf34Content
			if i == 0 && rng.IntN(10) < 8 {
				pair := vf34AllExpected[rng.IntN(len(vf34AllExpected))]
				ct := e.genExpected(pair, rng.IntN(10) < 9, nil)
				c = e.call(ct, nil, "")
				if ct.newID != nil && c.Valid {
					created = &ct
				}
			} else {
				c, created = e.randomCall(ctx)
			}
			if created != nil {
				ctx = created
			}
			calls = append(calls, c)
		}
		return calls, fmt.Sprintf("multi-%d", n)
	}
}

// ---------------------------------------------------------------------------------------
// structure: generator of mutations and the oracle's own reading of a request

type vf34Mut struct {
	Name string
	Opts func(o *vf34ReqOpts, height uint32)
	Bad  bool // the request no longer has the required structure
}

var vf34Muts = []vf34Mut{
	{"none", func(*vf34ReqOpts, uint32) {}, false},
	{"no-invoker(3 witnesses)", func(o *vf34ReqOpts, _ uint32) { o.NoInvoker = true }, false},
	{"alphabet-witness-presigned", func(o *vf34ReqOpts, _ uint32) { o.PresignedIR = true }, false},
	{"fallback-valid-from-next-block", func(o *vf34ReqOpts, h uint32) { o.NVB = h + 1 }, false},
	{"foreign-committee", func(o *vf34ReqOpts, _ uint32) { o.BadAlphabet = true }, true},
	{"alphabet-signer-foreign", func(o *vf34ReqOpts, _ uint32) { o.AlphaSigner = true }, true},
	{"alphabet-witness-foreign", func(o *vf34ReqOpts, _ uint32) { o.AlphaWitness = true }, true},
	{"nkeys+1", func(o *vf34ReqOpts, _ uint32) { o.NKeysDelta = 1 }, true},
	{"nkeys-1", func(o *vf34ReqOpts, _ uint32) { o.NKeysDelta = -1 }, true},
	{"nkeys-for-invoker-without-invoker", func(o *vf34ReqOpts, _ uint32) { o.NoInvoker = true; o.NKeysDelta = 1 }, true},
	{"no-attribute", func(o *vf34ReqOpts, _ uint32) { o.NoAttribute = true }, true},
	{"two-attributes", func(o *vf34ReqOpts, _ uint32) { o.AttrMode = 1 }, true},
	{"attribute-of-other-type", func(o *vf34ReqOpts, _ uint32) { o.AttrMode = 2 }, true},
	{"extra-witness", func(o *vf34ReqOpts, _ uint32) { o.ExtraWitness = true }, true},
	{"extra-signer", func(o *vf34ReqOpts, _ uint32) { o.ExtraSigner = true }, true},
	{"invoker-witness-empty", func(o *vf34ReqOpts, _ uint32) { o.EmptyInvoker = true }, true},
	{"alphabet-witness-without-verification", func(o *vf34ReqOpts, _ uint32) { o.AlphaNoVer = true }, true},
	{"fallback-valid-now", func(o *vf34ReqOpts, h uint32) { o.NVB = h }, true},
	{"fallback-valid-long-ago", func(o *vf34ReqOpts, h uint32) { o.NVB = h - 7 }, true},
	{"fallback-without-not-valid-before", func(o *vf34ReqOpts, _ uint32) { o.FBNoNVB = true }, true},
}

// Witness forms.  A witness has two fields; what makes it "empty" or "a placeholder" is a
// statement about both.  The variations are therefore the full product of the forms of the
// invocation script and of the verification script, for the proxy witness (well-formed:
// both empty) and for the Notary placeholder (well-formed: no verification script and an
// invocation script that is empty - current neo-go - or the legacy 64 zero bytes push).
func init() {
	for inv := vf34InvEmpty; inv < vf34InvForms; inv++ {
		for ver := vf34VerifEmpty; ver < vf34VerifForms; ver++ {
			good := ver == vf34VerifEmpty && (inv == vf34InvEmpty || inv == vf34InvDummy)
			vf34Muts = append(vf34Muts, vf34Mut{
				fmt.Sprintf("notary-witness(invocation=%s,verification=%s)", vf34InvNames[inv], vf34VerifNames[ver]),
				func(o *vf34ReqOpts, _ uint32) { o.NotaryInv, o.NotaryVerif = inv, ver }, !good})
		}
	}
	for _, inv := range []int{vf34InvEmpty, vf34InvDummy, vf34InvSig} {
		for ver := vf34VerifEmpty; ver < vf34VerifForms; ver++ {
			if inv == vf34InvEmpty && ver == vf34VerifEmpty {
				continue // the unchanged request
			}
			vf34Muts = append(vf34Muts, vf34Mut{
				fmt.Sprintf("proxy-witness(invocation=%s,verification=%s)", vf34InvNames[inv], vf34VerifNames[ver]),
				func(o *vf34ReqOpts, _ uint32) { o.ProxyInv, o.ProxyVerif = inv, ver }, true})
		}
	}
}

func vf34WellFormedMuts() (n int) {
	for _, m := range vf34Muts[1:] {
		if !m.Bad {
			n++
		}
	}
	return n
}

// vf34Structure reads a request the way the statement describes it and lists what is
// missing.  blockCount = number of blocks of the chain (index of the next block).
func vf34Structure(req *payload.P2PNotaryRequest, committee keys.PublicKeys, blockCount uint32) []string {
	var bad []string
	tx := req.MainTransaction
	nW, nS := len(tx.Scripts), len(tx.Signers)
	if nW != nS {
		bad = append(bad, "signers-and-witnesses-differ-in-number")
	}
	if nW != 3 && nW != 4 {
		bad = append(bad, "witness-count")
		return bad
	}
	ms, err := smartcontract.CreateMultiSigRedeemScript(len(committee)*2/3+1, committee)
	if err != nil {
		panic(err)
	}
	if nS < 2 || tx.Signers[1].Account != hash.Hash160(ms) {
		bad = append(bad, "alphabet-signer")
	}
	if !bytes.Equal(tx.Scripts[1].VerificationScript, ms) {
		bad = append(bad, "alphabet-witness")
	}
	if len(tx.Scripts[0].InvocationScript)+len(tx.Scripts[0].VerificationScript) != 0 {
		bad = append(bad, "proxy-witness")
	}
	withInvoker := nW == 4
	if withInvoker && len(tx.Scripts[2].InvocationScript)+len(tx.Scripts[2].VerificationScript) == 0 {
		bad = append(bad, "invoker-witness")
	}
	last := tx.Scripts[nW-1]
	if len(last.VerificationScript) != 0 || (len(last.InvocationScript) != 0 && !bytes.Equal(last.InvocationScript, vf34DummySig)) {
		bad = append(bad, "notary-placeholder")
	}
	if len(tx.Attributes) != 1 {
		bad = append(bad, "attribute-count")
	} else {
		want := len(committee)
		if withInvoker {
			want++
		}
		na, ok := tx.Attributes[0].Value.(*transaction.NotaryAssisted)
		if !ok || tx.Attributes[0].Type != transaction.NotaryAssistedT || int(na.NKeys) != want {
			bad = append(bad, "notary-assisted-attribute")
		}
	}
	var nvb []uint32
	for _, a := range req.FallbackTransaction.Attributes {
		if v, ok := a.Value.(*transaction.NotValidBefore); ok && a.Type == transaction.NotValidBeforeT {
			nvb = append(nvb, v.Height)
		}
	}
	switch {
	case len(nvb) != 1:
		bad = append(bad, "fallback-not-valid-before-missing")
	case nvb[0] <= blockCount:
		bad = append(bad, "fallback-expired")
	}
	return bad
}

// ---------------------------------------------------------------------------------------

// vf34Inventory lists the (contract, method) pairs the node's processors registered
// notary handlers for.
func vf34Inventory(e *vf34Env) []string {
	set := map[string]bool{}
	for _, p := range e.n.procs {
		for _, h := range p.ListenerNotaryHandlers() {
			set[e.contractName(h.ScriptHash())+"."+h.RequestType().String()] = true
		}
	}
	res := make([]string, 0, len(set))
	for k := range set {
		res = append(res, k)
	}
	sort.Strings(res)
	return res
}

func vf34NewEnv(t testing.TB, r *verifkit.Run, rng *rand.Rand) *vf34Env {
	ch := vf34NewChain()
	for i := 0; i < 4; i++ {
		ch.committee = append(ch.committee, vf34Key(rng).PublicKey())
	}
	w := vf34NewWorld(rng, ch, 3)
	n := vf34NewNode(t, rng, ch, vf34NodeOpts{AlphabetContracts: 4})
	ch.committee[rng.IntN(4)] = n.key.PublicKey() // the node is an alphabet member
	ch.irKeys = slices.Clone(ch.committee)
	cs := n.srv.contracts
	e := &vf34Env{rng: rng, ch: ch, n: n, w: w, stranger: vf34Key(rng),
		names: map[string]util.Uint160{"container": cs.container, "netmap": cs.netmap, "reputation": cs.reputation}}

	nm, err := n.srv.netmapClient.NetMap()
	if err != nil {
		t.Fatalf("fixture: netmap: %v", err)
	}
	vv, err := nm.ContainerNodes(w.Cnr.PlacementPolicy(), w.CnrID)
	if err != nil || len(vv) == 0 || len(vv[0]) == 0 {
		t.Fatalf("fixture: no container nodes: %v", err)
	}
	e.reporter = vv[0][0].PublicKey()

	e.peer = w.NodeKeys[0]
	var peer sdkreputation.PeerID
	peer.SetPublicKey(e.peer.PublicKey().Bytes())
	mm, err := reputationcommon.NewManagerBuilder(reputationcommon.ManagersPrm{NetMapSource: n.srv.netmapClient}).BuildManagers(ch.epoch-1, peer)
	if err != nil || len(mm) == 0 {
		t.Fatalf("fixture: managers: %v", err)
	}
	for _, k := range w.NodeKeys {
		if slices.Equal(k.PublicKey().Bytes(), mm[0].PublicKey()) {
			e.manager = k
		}
	}
	if e.manager == nil {
		t.Fatalf("fixture: manager key not found")
	}
	return e
}

// TestVerif_C34 judges every co-signature of an alphabet node.
func TestVerif_C34(t *testing.T) {
	r := verifkit.Start(t, "C34", "exploration")
	defer r.Finish()
	nWorlds := r.Pick(150, 1500)
	perWorld := r.Pick(200, 400)
	r.SetRule(fmt.Sprintf("%d seeded alphabet nodes x %d notary requests: script of 1-3 calls drawn from {the 14 expected (contract, method) pairs with valid or invalid content, the same arguments sent to a foreign contract / an unknown method / the method of another contract, argument shape changes}, biased towards createV2 followed by a second (and third) call; main transaction structure unchanged or with one of %d signer / witness / attribute / fallback variations (%d of them still well-formed; the proxy and Notary witnesses take every combination of invocation script form {empty, legacy dummy, signature, dummy cut, dummy with a bit set} and verification script form {empty, PUSHT, alphabet multisig}; unchanged requests carry the modern empty or the legacy dummy Notary placeholder); distinct = (script shape, per-call category+validity, structure variation, co-signed?) signatures", nWorlds, perWorld, len(vf34Muts)-1, vf34WellFormedMuts()))
	r.Assume("expected calls = Container{put,putNamed,create,createV2,delete,remove,setEACL,putEACL,putReport,setAttribute,removeAttribute}, Netmap{addNode,updateState}, Reputation{put}; checked against the handlers the processors register")
	r.Assume("required structure = signers and witnesses [proxy(empty witness), alphabet multisig of the current committee, optional invoker(non-empty witness), notary placeholder], exactly one NotaryAssisted attribute with NKeys = committee size (+1 with invoker), fallback with one NotValidBefore above the current block count; an alphabet witness that already carries signatures is allowed")
	r.Assume("a call counts as validated iff its arguments are the ones the handler registered for that (contract, method) accepts (owner signature, known container, permitted eACL, container node, candidate accepted by the validator and HALT script, correctly signed trust of the right manager in a past epoch); setEACL and putEACL take the same arguments and rules")

	seenInventory := false
	for wi := 0; wi < nWorlds; wi++ {
		rng := r.Rand("world", wi)
		e := vf34NewEnv(t, r, rng)
		if !seenInventory {
			seenInventory = true
			inv := vf34Inventory(e)
			r.Sample(map[string]any{"registered_notary_handlers": inv})
			if !slices.Equal(inv, vf34AllExpected) {
				r.Inconclusive(fmt.Sprintf("registered notary handlers %v differ from the oracle's list of expected calls %v", inv, vf34AllExpected))
				e.n.close()
				return
			}
		}
		for qi := 0; qi < perWorld; qi++ {
			vf34OneRequest(r, e, wi, qi)
		}
		e.n.close()
	}

	if r.Counter("cosigned") == 0 || r.Counter("refused") == 0 {
		r.Inconclusive("co-signatures and refusals were not both observed")
	}
	for _, p := range vf34AllExpected {
		if r.Counter("cosigned_single_"+p) == 0 {
			r.Inconclusive("no co-signature observed for a single valid " + p + " call")
		}
	}
	if r.Counter("cosigned_all_calls_expected_and_valid_2") == 0 {
		r.Inconclusive("no co-signature of a two-call script observed")
	}
	for _, m := range vf34Muts {
		if r.Counter("structure_"+m.Name) == 0 {
			r.Inconclusive("structure variation never generated with an otherwise acceptable script: " + m.Name)
		}
		if !m.Bad && r.Counter("cosigned_structure_"+m.Name) == 0 {
			r.Inconclusive("well-formed structure variation never co-signed: " + m.Name)
		}
	}
}

func vf34OneRequest(r *verifkit.Run, e *vf34Env, wi, qi int) {
	rng := e.rng
	calls, shape := e.script()
	invs := make([]vf34Invoke, len(calls))
	allFine := true
	for i, c := range calls {
		invs[i] = c.Inv
		if !c.expected() || !c.Valid {
			allFine = false
		}
	}
	script := vf34Script(invs...)
	for _, c := range calls {
		if c.fault {
			e.ch.lock(func() { e.ch.scriptVerdict[string(script)] = vf34Verdict{ok: false} })
		}
	}
	// structure: scripts the node would otherwise accept get a variation more often
	mi := 0
	if rng.IntN(100) < 35 || (allFine && rng.IntN(100) < 45) {
		mi = 1 + rng.IntN(len(vf34Muts)-1)
	}
	mut := vf34Muts[mi]
	height := e.ch.height
	o := vf34ReqOpts{NVB: height + 20}
	mut.Opts(&o, height)
	req := vf34Request(rng, e.ch.committee, e.n.proxy, script, o)

	desc := map[string]any{"world": wi, "request": qi, "script_shape": shape, "calls": calls, "structure": mut.Name}
	structBad := vf34Structure(req, e.ch.committee, height)
	if (len(structBad) != 0) != mut.Bad {
		r.Inconclusive(fmt.Sprintf("harness: structure variation %q read as %v by the oracle", mut.Name, structBad))
		return
	}
	acceptable := allFine && (len(calls) == 1 || shape == "createV2+putEACL")
	if acceptable {
		r.Count("structure_"+mut.Name, 1)
	}

	e.ch.take()
	if r.Guard(desc, func() { e.n.notaryFS(req) }) {
		return
	}
	if !e.n.settle(r) {
		return
	}
	r.Eval(1)
	cosigned := false
	for _, c := range e.ch.take() {
		if c.Op != "NotarySignAndInvokeTX" {
			r.Seen("follow_up_calls", c.String())
			continue
		}
		r.Count("hook_NotarySignAndInvokeTX", 1)
		if c.Tx == nil || c.Tx.Hash() != req.MainTransaction.Hash() || !bytes.Equal(c.Tx.Script, script) {
			r.Violation("cosigned|foreign-transaction", "a transaction other than the delivered main transaction was co-signed", desc)
			continue
		}
		if cosigned {
			r.Violation("cosigned|twice", "the request was co-signed twice", desc)
		}
		cosigned = true
	}

	first := calls[0].Kind
	if calls[0].Category == "foreign-contract" {
		first = "foreign." + calls[0].Inv.Method
	}
	if cosigned {
		r.Count("cosigned", 1)
		r.Count(fmt.Sprintf("cosigned_calls_%d", len(calls)), 1)
		r.Count("cosigned_structure_"+mut.Name, 1)
		r.Seen("cosigned_script_shapes", shape)
		if len(calls) == 1 && allFine {
			r.Count("cosigned_single_"+calls[0].Kind, 1)
		}
		if allFine {
			r.Count(fmt.Sprintf("cosigned_all_calls_expected_and_valid_%d", len(calls)), 1)
		}
		for _, b := range structBad {
			r.Violation("cosigned|structure|"+b, fmt.Sprintf("request co-signed although the main transaction / fallback lacks the required structure: %s (variation %q)", b, mut.Name), desc)
		}
		for i, c := range calls {
			pos := fmt.Sprintf("call#%d", i+1)
			switch {
			case !c.expected():
				r.Violation(fmt.Sprintf("cosigned|first=%s|%s|%s", first, pos, c.Category),
					fmt.Sprintf("request co-signed although %s of its script (%s, arguments of %s) is not an expected (contract, method) call: %s", pos, c.Kind, c.Content, c.Category), desc)
			case !c.Valid:
				key := fmt.Sprintf("cosigned|first=%s|%s|not-validated|%s|%s", first, pos, c.Kind, c.Why)
				if strings.HasPrefix(c.Why, "arguments-of-") {
					key = fmt.Sprintf("cosigned|first=%s|%s|expected-pair-with-arguments-of-another-call", first, pos)
				}
				r.Violation(key,
					fmt.Sprintf("request co-signed although %s of its script (%s) cannot have been validated by the handler of that call: %s", pos, c.Kind, c.Why), desc)
			}
		}
	} else {
		r.Count("refused", 1)
		if len(structBad) != 0 {
			r.Count("refused_structure_"+mut.Name, 1)
		}
		if allFine && len(structBad) == 0 {
			r.Count("refused_although_oracle_would_allow", 1)
			r.Seen("refused_although_allowed_shapes", shape)
		}
	}
	for _, c := range calls {
		r.Seen("call_categories_sent", c.Category)
		if c.Why != "" {
			r.Seen("invalidity_reasons_sent", c.Why)
		}
	}
	sig := shape + "|" + mut.Name + fmt.Sprintf("|%v", cosigned)
	for _, c := range calls {
		sig += fmt.Sprintf("|%s/%s/%v/%s", c.Kind, c.Category, c.Valid, c.Why)
	}
	r.Distinct(sig)
	if wi < 3 && qi < 2 {
		r.Sample(desc)
	}
}
