//go:build verif

package governance

import (
	"fmt"
	"math/bits"
	"math/rand/v2"
	"sort"
	"strings"
	"testing"

	"github.com/nspcc-dev/neo-go/pkg/crypto/keys"
	"github.com/nspcc-dev/neofs-node/internal/verifkit"
)

// vf36Universe derives a deterministic universe of n distinct keys from the run seed and
// returns it sorted, so that bit i of a mask always means "i-th smallest key".
func vf36Universe(r *verifkit.Run, stream string, n int) keys.PublicKeys {
	rng := r.Rand(stream, 0)
	res := make(keys.PublicKeys, 0, n)
	for len(res) < n {
		b := make([]byte, 32)
		for i := range b {
			b[i] = byte(rng.UintN(256))
		}
		priv, err := keys.NewPrivateKeyFromBytes(b)
		if err != nil {
			continue
		}
		pub := priv.PublicKey()
		if res.Contains(pub) {
			continue
		}
		res = append(res, pub)
	}
	sort.Sort(res)
	return res
}

// vf36Pick returns the keys of universe u selected by mask, in the order given by perm
// (nil = ascending).
func vf36Pick(u keys.PublicKeys, mask uint, rng *rand.Rand) keys.PublicKeys {
	res := make(keys.PublicKeys, 0, bits.OnesCount(mask))
	for i := range u {
		if mask&(1<<uint(i)) != 0 {
			res = append(res, u[i])
		}
	}
	if rng != nil {
		rng.Shuffle(len(res), func(i, j int) { res[i], res[j] = res[j], res[i] })
	}
	return res
}

// vf36Mask maps a key list back to the mask over universe u; ok=false if the list holds
// a key outside the universe; dup=true if some key occurs more than once.
func vf36Mask(u keys.PublicKeys, l keys.PublicKeys) (mask uint, dup, foreign bool) {
	for _, k := range l {
		idx := -1
		for i := range u {
			if u[i].Equal(k) {
				idx = i
				break
			}
		}
		if idx < 0 {
			foreign = true
			continue
		}
		if mask&(1<<uint(idx)) != 0 {
			dup = true
		}
		mask |= 1 << uint(idx)
	}
	return
}

func vf36MaskStr(m uint, n int) string {
	var sb strings.Builder
	for i := 0; i < n; i++ {
		if m&(1<<uint(i)) != 0 {
			sb.WriteByte(byte('A' + i))
		}
	}
	if sb.Len() == 0 {
		return "-"
	}
	return sb.String()
}

// vf36CheckAlphabet judges a proposed alphabet (as produced for current list cur and main
// network list main, all masks over one universe) against the property statement.
// It returns the list of (class key, description) pairs that are contradicted.
func vf36CheckAlphabet(cur, main uint, propLen int, prop uint, dup, foreign bool) [][2]string {
	var bad [][2]string
	n := bits.OnesCount(cur)
	if propLen != n {
		bad = append(bad, [2]string{"alphabet|size-differs", fmt.Sprintf("proposed alphabet has %d keys, current one has %d", propLen, n)})
	}
	if dup {
		bad = append(bad, [2]string{"alphabet|duplicate-key", "proposed alphabet holds a key twice"})
	}
	if foreign || prop&^(cur|main) != 0 {
		bad = append(bad, [2]string{"alphabet|foreign-key", "proposed alphabet holds a key that is neither a current member nor a main network key"})
	}
	if nw := bits.OnesCount(prop &^ cur); nw > (n-1)/3 {
		bad = append(bad, [2]string{"alphabet|too-many-new-keys", fmt.Sprintf("%d new keys for n=%d, bound is %d", nw, n, (n-1)/3)})
	}
	if prop == cur && !dup && !foreign && propLen == n {
		bad = append(bad, [2]string{"alphabet|proposed-without-change", "a new alphabet equal to the current one was proposed"})
	}
	return bad
}

// vf36CheckIR judges the inner ring list derived from the new alphabet.
func vf36CheckIR(oldIR, cur, prop uint, gotLen int, got uint, dup, foreign bool) [][2]string {
	var bad [][2]string
	removed := cur &^ prop
	added := prop &^ cur
	want := (oldIR &^ removed) | added
	if dup {
		if added&oldIR != 0 {
			bad = append(bad, [2]string{"ir|duplicate-key|extra-key-enters-alphabet", "inner ring list holds a key twice: a non-alphabet inner ring key entered the alphabet"})
		} else {
			bad = append(bad, [2]string{"ir|duplicate-key|other", "inner ring list holds a key twice"})
		}
	}
	if foreign || got != want {
		bad = append(bad, [2]string{"ir|differs-not-by-replaced-keys", "new inner ring list is not the old one with exactly the replaced alphabet keys exchanged"})
	}
	_ = gotLen
	return bad
}

// TestVerif_C36 enumerates the whole stated input space against the real
// newAlphabetList/updateInnerRing pair, chained the way processAlphabetSync chains them.
func TestVerif_C36(t *testing.T) {
	r := verifkit.Start(t, "C36", "exploration")
	defer r.Finish()
	uSize := r.Pick(8, 9)
	maxCur := r.Pick(7, 8)
	maxExtra := r.Pick(2, 3)
	r.SetRule(fmt.Sprintf("every (current, main-net) pair of key sets over a universe of %d keys with 1<=|current|<=%d and |main|>=|current|, both passed in seeded random order; for every proposed alphabet every inner ring list = current + up to %d other universe keys, in sorted and in seeded random order; distinct = (current,main) pairs that produced a proposal plus (current,main,extras) triples; non-trivial = a proposal was made", uSize, maxCur, maxExtra))
	r.SetExhaustive(true)
	r.Assume("input lists are duplicate-free (chain role lists are sets); behaviour on lists with repeated keys is not constrained")

	u := vf36Universe(r, "universe", uSize)
	full := uint(1)<<uint(uSize) - 1
	caseIdx := 0
	for cur := uint(1); cur <= full; cur++ {
		n := bits.OnesCount(cur)
		if n > maxCur {
			continue
		}
		// masks of the non-member keys, for the inner ring extras
		var extras []uint
		rest := full &^ cur
		for e := uint(0); e <= full; e++ {
			if e&^rest == 0 && bits.OnesCount(e) <= maxExtra {
				extras = append(extras, e)
			}
		}
		for main := uint(1); main <= full; main++ {
			if bits.OnesCount(main) < n {
				continue
			}
			caseIdx++
			rng := r.Rand("order", caseIdx)
			curL := vf36Pick(u, cur, rng)
			mainL := vf36Pick(u, main, rng)
			desc := map[string]any{"universe": uSize, "current": vf36MaskStr(cur, uSize), "mainnet": vf36MaskStr(main, uSize)}

			var prop keys.PublicKeys
			var err error
			if r.Guard(desc, func() { prop, err = newAlphabetList(curL, mainL) }) {
				continue
			}
			r.Eval(1)
			if err != nil {
				r.Count("alphabet_error_returned", 1)
				if prop != nil {
					r.Violation("alphabet|list-with-error", "newAlphabetList returned both a list and an error", desc)
				}
				continue
			}
			if prop == nil {
				r.Count("alphabet_no_proposal", 1)
				continue
			}
			r.Count("alphabet_proposals", 1)
			pm, dup, foreign := vf36Mask(u, prop)
			desc["proposed"] = vf36MaskStr(pm, uSize)
			for _, b := range vf36CheckAlphabet(cur, main, len(prop), pm, dup, foreign) {
				r.Violation(b[0], b[1]+fmt.Sprintf(" (current %v, mainnet %v, proposed %v/len %d)", desc["current"], desc["mainnet"], desc["proposed"], len(prop)), desc)
			}
			r.Distinct(fmt.Sprintf("a/%d/%d", cur, main))
			r.Max("max_new_keys_in_one_proposal", int64(bits.OnesCount(pm&^cur)))
			r.Seen("alphabet_sizes_with_proposal", fmt.Sprint(n))
			if caseIdx%4099 == 0 {
				r.Sample(desc)
			}

			// Inner ring list derived from the proposal, exactly like
			// processAlphabetSync does it: `before` is the committee slice as
			// newAlphabetList left it, `after` is the proposal.
			for _, ex := range extras {
				for ord := 0; ord < 2; ord++ {
					var irL keys.PublicKeys
					if ord == 0 {
						irL = vf36Pick(u, cur|ex, nil)
					} else {
						if bits.OnesCount(cur|ex) < 2 {
							continue
						}
						irL = vf36Pick(u, cur|ex, rng)
					}
					d2 := map[string]any{"universe": uSize, "current": desc["current"], "mainnet": desc["mainnet"], "proposed": desc["proposed"],
						"inner_ring": vf36MaskStr(cur|ex, uSize), "extras": vf36MaskStr(ex, uSize), "shuffled_ir": ord == 1}
					var nir keys.PublicKeys
					var err2 error
					if r.Guard(d2, func() { nir, err2 = updateInnerRing(irL, curL, prop) }) {
						continue
					}
					r.Eval(1)
					if err2 != nil {
						r.Count("ir_error_returned", 1)
						continue
					}
					r.Count("ir_lists_derived", 1)
					gm, gdup, gforeign := vf36Mask(u, nir)
					d2["new_inner_ring"] = vf36MaskStr(gm, uSize)
					d2["new_inner_ring_len"] = len(nir)
					bad := vf36CheckIR(cur|ex, cur, pm, len(nir), gm, gdup, gforeign)
					for _, b := range bad {
						r.Violation(b[0], b[1]+fmt.Sprintf(" (inner ring %v, alphabet %v -> %v, result %v/len %d)", d2["inner_ring"], d2["current"], d2["proposed"], d2["new_inner_ring"], len(nir)), d2)
					}
					if ex != 0 {
						r.Count("ir_lists_with_extra_keys", 1)
						if ex&pm != 0 {
							r.Count("ir_lists_whose_extra_key_enters_alphabet", 1)
						}
					}
					if ord == 0 {
						r.Distinct(fmt.Sprintf("i/%d/%d/%d", cur, main, ex))
					}
				}
			}
		}
	}
	if r.Counter("alphabet_proposals") == 0 {
		r.Inconclusive("no alphabet proposal was produced in the whole space")
	}
}
